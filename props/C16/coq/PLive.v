(* C16 part (b): a remote close IS reported (at least once).  One Poll() on a connected descriptor d that
   is in the poller's table, whose peer has hung up, whose data has all been read and whose on_close callback
   has not run yet, runs that callback - provided no scripted callback action is aimed at d ("d stays
   registered during the iteration"; SelectPoller half) resp. no callback has scripted actions and no
   descriptor is delete_on_close (EPoller half, stronger guard: see the report). *)
Require Import List Arith Bool NArith Lia.
Import ListNotations.
From C16 Require Import PModel PProofs PClose PHaz PWf.

Definition p_scripts (c : p_cfg) (d : nat) : list p_act :=
  pc_rs (p_get c d) ++ pc_ws (p_get c d) ++ pc_cs (p_get c d).
Definition p_no_target (c : p_cfg) (d : nat) : Prop :=
  forall d' a, In a (p_scripts c d') -> p_act_target a <> d.
Definition p_closed_logged (d : nat) (s : p_st) : Prop :=
  exists e, In e (st_log s) /\ le_d e = d /\ le_kind e = PKClose.

Definition p_lmono (s s' : p_st) : Prop := forall e, In e (st_log s) -> In e (st_log s').
Lemma p_lmono_refl s : p_lmono s s. Proof. intros e H; exact H. Qed.
Lemma p_lmono_trans a b c : p_lmono a b -> p_lmono b c -> p_lmono a c.
Proof. intros A B e H. apply B, A, H. Qed.
Lemma p_lmono_same s s' : st_log s' = st_log s -> p_lmono s s'.
Proof. intros E e H. rewrite E. exact H. Qed.
Lemma p_logged_mono d s s' : p_lmono s s' -> p_closed_logged d s -> p_closed_logged d s'.
Proof. intros M (e & H & A). exists e. split; auto. Qed.

Lemma p_lmono_invoke c s d k : p_lmono s (p_invoke c s d k).
Proof.
  unfold p_invoke. destruct (st_del s d). apply p_lmono_same; reflexivity.
  destruct k; intros e H; rewrite (p_same_log _ _ (p_same_exec_acts c _ _)); simpl; auto.
Qed.
Lemma p_lmono_touch s d : p_lmono s (p_touch s d).
Proof. apply p_lmono_same. apply p_same_log, p_same_touch. Qed.
Lemma p_lmono_fold {A} (f : p_st -> A -> p_st) l :
  (forall s a, p_lmono s (f s a)) -> forall s, p_lmono s (fold_left f l s).
Proof. intro H. induction l; simpl; intros. apply p_lmono_refl. eapply p_lmono_trans; [apply H|apply IHl]. Qed.

Lemma p_lmono_sel_write_step c wset s d : p_lmono s (p_sel_write_step c wset s d).
Proof.
  unfold p_sel_write_step. destruct (p_is_pres (s_w (st_sel s) d)); [|apply p_lmono_refl].
  destruct (wset d); [|apply p_lmono_touch].
  eapply p_lmono_trans; [apply p_lmono_touch|apply p_lmono_invoke].
Qed.
Lemma p_lmono_sel_conn_step c rset s d : p_lmono s (p_sel_conn_step c rset s d).
Proof.
  unfold p_sel_conn_step. destruct (p_is_pres (s_c (st_sel s) d)); [|apply p_lmono_refl].
  eapply p_lmono_trans; [apply (p_lmono_touch s d)|]. set (s0 := p_touch s d). clearbody s0.
  destruct (rset d); [|apply p_lmono_refl].
  destruct (negb (p_has_data s0 d)); [|apply p_lmono_invoke].
  set (s2 := p_set_sel _ _).
  assert (M2 : p_lmono s0 s2) by (apply p_lmono_same; reflexivity).
  set (s3 := if st_onclose s0 d then p_invoke c s2 d PKClose else s2).
  assert (M3 : p_lmono s0 s3).
  { unfold s3. destruct (st_onclose s0 d); auto. eapply p_lmono_trans; [exact M2|apply p_lmono_invoke]. }
  clearbody s3. destruct (s_cdoc _ d); auto.
  eapply p_lmono_trans; [exact M3|]. apply p_lmono_same. unfold p_touch. destruct (st_del s3 d); reflexivity.
Qed.

(* ================= SelectPoller ================= *)
Record p_ks (d : nat) (s : p_st) : Prop := {
  ks_be : st_be s = false;
  ks_c : s_c (st_sel s) d = SPres;
  ks_closed : st_closed s d = true;
  ks_pend : st_pend s d = [];
  ks_on : st_onclose s d = true;
  ks_del : st_del s d = false
}.

Lemma p_ks_exec_act c d s a : p_act_target a <> d -> p_ks d s -> p_ks d (p_exec_act c s a).
Proof.
  intros N K. unfold p_exec_act. destruct (st_del s (p_act_target a)); auto.
  destruct K. destruct a; simpl in N.
  - unfold p_add_r. simpl. rewrite ks_be0. unfold p_sel_add_r, p_sel_insert.
    destruct (pc_conn (p_get c d0)).
    + destruct (s_c (st_sel s) d0); simpl; constructor; simpl; auto; unfold p_upd;
        destruct (d =? d0) eqn:E; auto; apply Nat.eqb_eq in E; congruence.
    + destruct (s_r (st_sel s) d0); simpl; constructor; simpl; auto.
  - unfold p_add_w. simpl. rewrite ks_be0. unfold p_sel_add_w, p_sel_insert.
    destruct (s_w (st_sel s) d0); simpl; constructor; simpl; auto.
  - unfold p_rem_r. simpl. rewrite ks_be0. unfold p_sel_rem_r, p_sel_remove.
    destruct (pc_conn (p_get c d0)).
    + destruct (s_c (st_sel s) d0); simpl; constructor; simpl; auto; unfold p_upd;
        destruct (d =? d0) eqn:E; auto; apply Nat.eqb_eq in E; congruence.
    + destruct (s_r (st_sel s) d0); simpl; constructor; simpl; auto.
  - unfold p_rem_w. simpl. rewrite ks_be0. unfold p_sel_rem_w, p_sel_remove.
    destruct (s_w (st_sel s) d0); simpl; constructor; simpl; auto.
Qed.
Lemma p_ks_exec_acts c d l : (forall a, In a l -> p_act_target a <> d) ->
  forall s, p_ks d s -> p_ks d (p_exec_acts c s l).
Proof.
  unfold p_exec_acts. induction l; simpl; intros N s K; auto.
  apply IHl. intros; apply N; auto. apply p_ks_exec_act; auto.
Qed.

Lemma p_ks_invoke c d s d' k : p_no_target c d -> (d' <> d \/ k <> PKClose) ->
  p_ks d s -> p_ks d (p_invoke c s d' k).
Proof.
  intros G N K. unfold p_invoke. destruct (st_del s d') eqn:D.
  - destruct K; constructor; auto.
  - assert (Gr : forall a, In a (pc_rs (p_get c d')) -> p_act_target a <> d)
      by (intros; apply (G d'); unfold p_scripts; apply in_or_app; auto).
    assert (Gw : forall a, In a (pc_ws (p_get c d')) -> p_act_target a <> d)
      by (intros; apply (G d'); unfold p_scripts; apply in_or_app; right; apply in_or_app; auto).
    assert (Gc : forall a, In a (pc_cs (p_get c d')) -> p_act_target a <> d)
      by (intros; apply (G d'); unfold p_scripts; apply in_or_app; right; apply in_or_app; auto).
    destruct k.
    + apply p_ks_exec_acts; auto. destruct K; constructor; simpl; auto.
      unfold p_upd. destruct (d =? d') eqn:E; auto. apply Nat.eqb_eq in E. subst d'.
      rewrite ks_pend0. destruct (pc_rk (p_get c d)); reflexivity.
    + apply p_ks_exec_acts; auto. destruct K; constructor; simpl; auto.
    + apply p_ks_exec_acts; auto. destruct K; constructor; simpl; auto.
Qed.

Lemma p_ks_touch d s d' : p_ks d s -> p_ks d (p_touch s d').
Proof. intros K. unfold p_touch. destruct (st_del s d'); auto. destruct K; constructor; auto. Qed.

Lemma p_ks_sel_prepare c d s : p_ks d s -> p_ks d (p_sel_prepare c s).
Proof.
  intros K. unfold p_sel_prepare.
  set (s1 := p_set_sel s _).
  assert (K1 : p_ks d s1).
  { destruct K. unfold s1. constructor; simpl; auto. rewrite ks_c0. reflexivity. }
  clearbody s1. revert s1 K1. induction (seq 0 (length c)); simpl; intros; auto.
  apply IHl. destruct (_ && _); auto. destruct K1; constructor; auto.
Qed.

Lemma p_ks_read_step c rset d s d' : p_no_target c d -> p_ks d s -> p_ks d (p_sel_read_step c rset s d').
Proof.
  intros G K. unfold p_sel_read_step. destruct (_ && _); auto. apply p_ks_invoke; auto. right; discriminate.
Qed.
Lemma p_ks_write_step c wset d s d' : p_no_target c d -> p_ks d s -> p_ks d (p_sel_write_step c wset s d').
Proof.
  intros G K. unfold p_sel_write_step. destruct (p_is_pres _); auto.
  destruct (wset d'); [|apply p_ks_touch; auto]. apply p_ks_invoke; auto. right; discriminate. apply p_ks_touch; auto.
Qed.
Lemma p_ks_conn_step_other c rset d s d' : p_no_target c d -> d' <> d -> p_ks d s ->
  p_ks d (p_sel_conn_step c rset s d').
Proof.
  intros G N K. unfold p_sel_conn_step. destruct (p_is_pres _); auto.
  pose proof (p_ks_touch d s d' K) as K0. set (s0 := p_touch s d') in *. clearbody s0.
  destruct (rset d'); auto.
  destruct (negb (p_has_data s0 d')); [|apply p_ks_invoke; auto].
  set (s2 := p_set_sel _ _).
  assert (K2 : p_ks d s2).
  { destruct K0. unfold s2. constructor; simpl; auto; unfold p_upd;
      destruct (d =? d') eqn:E; auto; apply Nat.eqb_eq in E; congruence. }
  set (s3 := if st_onclose s0 d' then p_invoke c s2 d' PKClose else s2).
  assert (K3 : p_ks d s3).
  { unfold s3. destruct (st_onclose s0 d'); auto. apply p_ks_invoke; auto. }
  clearbody s3. destruct (s_cdoc _ d'); auto.
  pose proof (p_ks_touch d s3 d' K3) as K4. destruct K4. constructor; simpl; auto.
  unfold p_upd. destruct (d =? d') eqn:E. apply Nat.eqb_eq in E; congruence. apply (ks_del _ _ K3).
Qed.

Lemma p_ks_conn_step_self c rset d s : rset d = true -> p_ks d s ->
  p_closed_logged d (p_sel_conn_step c rset s d).
Proof.
  intros R K. unfold p_sel_conn_step. destruct K. rewrite ks_c0. simpl.
  assert (TS : p_touch s d = s) by (unfold p_touch; rewrite ks_del0; reflexivity).
  rewrite !TS. rewrite R. unfold p_has_data. rewrite ks_pend0. simpl. rewrite ks_on0.
  set (s2 := p_set_sel _ _).
  assert (L : p_closed_logged d (p_invoke c s2 d PKClose)).
  { unfold p_invoke. change (st_del s2 d) with (st_del s d). rewrite ks_del0.
    eexists. split. rewrite (p_same_log _ _ (p_same_exec_acts c _ _)). simpl. left. reflexivity.
    simpl. auto. }
  destruct (s_cdoc _ d); auto.
  eapply p_logged_mono; [|exact L]. apply p_lmono_same. unfold p_touch.
  destruct (st_del (p_invoke c s2 d PKClose) d); reflexivity.
Qed.

Lemma p_sel_conn_pass c rset d : p_no_target c d -> rset d = true ->
  forall l s, In d l -> p_ks d s -> p_closed_logged d (fold_left (p_sel_conn_step c rset) l s).
Proof.
  intros G R. induction l; simpl; intros s Hin K. tauto.
  destruct (Nat.eq_dec a d) as [->|N].
  - eapply p_logged_mono. apply p_lmono_fold. intros; apply p_lmono_sel_conn_step.
    apply p_ks_conn_step_self; auto.
  - destruct Hin as [?|Hin]; [congruence|]. apply IHl; auto. apply p_ks_conn_step_other; auto.
Qed.

Lemma p_ks_fold {A} d (f : p_st -> A -> p_st) l :
  (forall s a, p_ks d s -> p_ks d (f s a)) -> forall s, p_ks d s -> p_ks d (fold_left f l s).
Proof. intro H. induction l; simpl; intros; auto. Qed.

Lemma p_sel_close_reported c d s desc :
  p_no_target c d -> d < length c -> p_ks d s ->
  p_closed_logged d (p_step c s (POPoll desc)).
Proof.
  intros G L K. unfold p_step. rewrite (ks_be _ _ K). cbv zeta.
  apply (p_logged_mono d (p_sel_poll c s)); [apply p_lmono_same; reflexivity|].
  unfold p_sel_poll. pose proof (p_ks_sel_prepare c d s K) as K1.
  set (s1 := p_sel_prepare c s) in *. clearbody s1.
  set (rset := fun d0 => (p_is_pres (s_r (st_sel s1) d0) || p_is_pres (s_c (st_sel s1) d0)) && p_readable s1 d0).
  assert (R : rset d = true).
  { unfold rset, p_readable. rewrite (ks_c _ _ K1), (ks_closed _ _ K1). simpl.
    rewrite orb_true_r. rewrite orb_true_r. reflexivity. }
  assert (Hd : In d (seq 0 (length c))) by (apply in_seq; lia).
  match goal with |- p_closed_logged d (if ?b then _ else _) => assert (E : b = true) end.
  { apply existsb_exists. exists d. split; auto. cbv beta. rewrite (ks_c _ _ K1). unfold p_readable.
    rewrite (ks_closed _ _ K1). simpl. rewrite !orb_true_r. reflexivity. }
  rewrite E.
  eapply p_logged_mono. apply p_lmono_fold. intros; apply p_lmono_sel_write_step.
  apply p_sel_conn_pass; auto.
  apply p_ks_fold; auto. intros. apply p_ks_read_step; auto.
Qed.

(* ================= EPoller ================= *)
Lemma p_lmono_ep_close c s id d : p_lmono s (p_ep_close c s id d).
Proof.
  unfold p_ep_close.
  eapply p_lmono_trans; [apply (p_lmono_touch s d)|]. set (s0 := p_touch s d). clearbody s0.
  set (s1 := p_set_onclose s0 _).
  set (s2 := if st_onclose s0 d then p_invoke c s1 d PKClose else s1).
  assert (M2 : p_lmono s0 s2).
  { unfold s2. destruct (st_onclose s0 d). eapply p_lmono_trans; [|apply p_lmono_invoke].
    apply p_lmono_same; reflexivity. apply p_lmono_same; reflexivity. }
  clearbody s2. eapply p_lmono_trans; [exact M2|].
  destruct (e_cd (ep_obj (st_ep s2) id)) as [d2|]; [|apply p_lmono_refl].
  destruct (e_doc (ep_obj (st_ep s2) id)); [|apply p_lmono_refl].
  eapply p_lmono_trans; [apply (p_lmono_touch s2 d2)|]. set (s3 := p_touch s2 d2). clearbody s3.
  destruct (p_ep_remove (st_ep s3) d2 false) as [e r]. simpl.
  apply p_lmono_same. destruct (e_cd (ep_obj e id)) as [d3|]; simpl; auto.
  unfold p_touch. simpl. destruct (st_del s3 d3); reflexivity.
Qed.
Lemma p_lmono_ep_check c s ev : p_lmono s (p_ep_check c s ev).
Proof.
  unfold p_ep_check. destruct ev as [id fl].
  set (sf := if f_hup fl then _ else _).
  assert (M1 : p_lmono s (fst sf)).
  { unfold sf. destruct (f_hup fl); [|apply p_lmono_refl].
    destruct (e_rd (ep_obj (st_ep s) id)). simpl. apply p_lmono_invoke.
    destruct (e_cd (ep_obj (st_ep s) id)).
    - simpl. eapply p_lmono_trans; [apply (p_lmono_touch s n)|].
      destruct (p_has_data (p_touch s n) n). apply p_lmono_invoke. apply p_lmono_ep_close.
    - destruct (e_wd (ep_obj (st_ep s) id)); simpl. apply p_lmono_invoke. apply p_lmono_refl. }
  destruct sf as [s1 fl1]. simpl in M1. eapply p_lmono_trans; [exact M1|].
  set (s2 := if f_in fl1 then _ else s1).
  assert (M2 : p_lmono s1 s2).
  { unfold s2. destruct (f_in fl1); [|apply p_lmono_refl].
    destruct (e_rd (ep_obj (st_ep s1) id)). apply p_lmono_invoke.
    destruct (e_cd (ep_obj (st_ep s1) id)). apply p_lmono_invoke. apply p_lmono_refl. }
  clearbody s2. eapply p_lmono_trans; [exact M2|].
  destruct (f_out fl1); [|apply p_lmono_refl].
  destruct (e_wd (ep_obj (st_ep s2) id)). apply p_lmono_invoke. apply p_lmono_refl.
Qed.

Definition p_kep (d id : nat) (e : p_ep) : Prop :=
  ep_map e d = Some id /\ e_cd (ep_obj e id) = Some d /\ e_rd (ep_obj e id) = None /\ e_r (ep_obj e id) = true.

Lemma p_kep_lookup_obj d id e d0 e1 id0 nw :
  p_wf e -> d0 <> d -> p_kep d id e -> p_ep_lookup e d0 = (e1, id0, nw) ->
  id0 <> id /\ p_kep d id e1.
Proof.
  intros W N (K1 & K2 & K3 & K4) L. destruct (p_wf_lookup _ _ _ _ _ W L) as (_ & _ & F1 & F2 & F3).
  assert (X : id0 <> id). { intro; subst. apply (F3 d); auto. }
  split; auto. unfold p_kep. rewrite (F1 d), (F2 id); auto.
Qed.
Lemma p_kep_set_obj d id e id0 o : id0 <> id -> p_kep d id e -> p_kep d id (p_ep_set_obj e id0 o).
Proof.
  intros N K. unfold p_kep, p_ep_set_obj. simpl. unfold p_upd.
  assert (E : (id =? id0) = false) by (apply Nat.eqb_neq; auto). rewrite E. exact K.
Qed.
Lemma p_kep_add_r c d id e d0 : p_wf e -> d0 <> d -> p_kep d id e -> p_kep d id (fst (p_ep_add_r c e d0)).
Proof.
  intros W N K. unfold p_ep_add_r. destruct (p_ep_lookup e d0) as [[e1 id0] nw] eqn:L.
  destruct (p_kep_lookup_obj _ _ _ _ _ _ _ W N K L) as [X K1].
  destruct (e_r (ep_obj e1 id0)); simpl; auto.
  destruct (pc_conn (p_get c d0)); simpl; apply p_kep_set_obj; auto.
Qed.
Lemma p_kep_add_w d id e d0 : p_wf e -> d0 <> d -> p_kep d id e -> p_kep d id (fst (p_ep_add_w e d0)).
Proof.
  intros W N K. unfold p_ep_add_w. destruct (p_ep_lookup e d0) as [[e1 id0] nw] eqn:L.
  destruct (p_kep_lookup_obj _ _ _ _ _ _ _ W N K L) as [X K1].
  destruct (e_w (ep_obj e1 id0)); simpl; auto. apply p_kep_set_obj; auto.
Qed.
Lemma p_kep_remove d id e d0 wr : p_wf e -> d0 <> d -> p_kep d id e -> p_kep d id (fst (p_ep_remove e d0 wr)).
Proof.
  intros W N (K1 & K2 & K3 & K4). destruct (p_remove_other e d0 wr W d id (not_eq_sym N) K1) as [A B].
  unfold p_kep. rewrite A, B. auto.
Qed.

Record p_ke (d id : nat) (s : p_st) : Prop := {
  ke_be : st_be s = true;
  ke_ep : p_kep d id (st_ep s);
  ke_closed : st_closed s d = true;
  ke_pend : st_pend s d = [];
  ke_on : st_onclose s d = true;
  ke_del : st_del s d = false
}.

Lemma p_ke_exec_act c d id s a : p_wfs s -> p_act_target a <> d -> p_ke d id s -> p_ke d id (p_exec_act c s a).
Proof.
  intros (_ & W) N K. unfold p_exec_act. destruct (st_del s (p_act_target a)); auto.
  destruct K. destruct a; simpl in N.
  - unfold p_add_r. simpl. rewrite ke_be0. pose proof (p_kep_add_r c d id _ d0 W N ke_ep0) as X.
    destruct (p_ep_add_r c (st_ep s) d0). constructor; simpl; auto.
  - unfold p_add_w. simpl. rewrite ke_be0. pose proof (p_kep_add_w d id _ d0 W N ke_ep0) as X.
    destruct (p_ep_add_w (st_ep s) d0). constructor; simpl; auto.
  - unfold p_rem_r. simpl. rewrite ke_be0. pose proof (p_kep_remove d id _ d0 false W N ke_ep0) as X.
    destruct (p_ep_remove (st_ep s) d0 false). constructor; simpl; auto.
  - unfold p_rem_w. simpl. rewrite ke_be0. pose proof (p_kep_remove d id _ d0 true W N ke_ep0) as X.
    destruct (p_ep_remove (st_ep s) d0 true). constructor; simpl; auto.
Qed.
Lemma p_ke_exec_acts c d id l : (forall a, In a l -> p_act_target a <> d) ->
  forall s, p_wfs s -> p_ke d id s -> p_ke d id (p_exec_acts c s l).
Proof.
  unfold p_exec_acts. induction l; simpl; intros N s W K; auto.
  apply IHl. intros; apply N; auto. apply p_wfs_exec_act; auto. apply p_ke_exec_act; auto.
Qed.

Lemma p_ke_invoke c d id s d' k : p_no_target c d -> (d' <> d \/ k <> PKClose) -> p_wfs s ->
  p_ke d id s -> p_ke d id (p_invoke c s d' k).
Proof.
  intros G N W K. unfold p_invoke. destruct (st_del s d') eqn:D.
  - destruct K; constructor; auto.
  - assert (Gr : forall a, In a (pc_rs (p_get c d')) -> p_act_target a <> d)
      by (intros; apply (G d'); unfold p_scripts; apply in_or_app; auto).
    assert (Gw : forall a, In a (pc_ws (p_get c d')) -> p_act_target a <> d)
      by (intros; apply (G d'); unfold p_scripts; apply in_or_app; right; apply in_or_app; auto).
    assert (Gc : forall a, In a (pc_cs (p_get c d')) -> p_act_target a <> d)
      by (intros; apply (G d'); unfold p_scripts; apply in_or_app; right; apply in_or_app; auto).
    destruct k.
    + apply p_ke_exec_acts; auto. destruct K; constructor; simpl; auto.
      unfold p_upd. destruct (d =? d') eqn:E; auto. apply Nat.eqb_eq in E. subst d'.
      rewrite ke_pend0. destruct (pc_rk (p_get c d)); reflexivity.
    + apply p_ke_exec_acts; auto. destruct K; constructor; simpl; auto.
    + apply p_ke_exec_acts; auto. destruct K; constructor; simpl; auto.
Qed.
Lemma p_ke_touch d id s d' : p_ke d id s -> p_ke d id (p_touch s d').
Proof. intros K. unfold p_touch. destruct (st_del s d'); auto. destruct K; constructor; auto. Qed.

Lemma p_ke_other_cd c d id s id' d' : p_inv c true s -> p_ke d id s -> id' <> id ->
  e_cd (ep_obj (st_ep s) id') = Some d' -> d' <> d.
Proof.
  intros (_ & J & _) K N E X. subst d'. destruct (J id') as (_ & J2 & _). destruct (J2 d E) as [_ M].
  destruct (ke_ep _ _ _ K) as (M' & _). congruence.
Qed.

Lemma p_ke_ep_close_other c d id s id' d' :
  p_no_target c d -> p_inv c true s -> p_wfs s -> st_regr s d' = true -> id' <> id -> d' <> d ->
  p_ke d id s -> p_ke d id (p_ep_close c s id' d').
Proof.
  intros G I W R Ni Nd K. unfold p_ep_close.
  pose proof (p_ke_touch d id s d' K) as K0. pose proof (p_wfs_touch s d' W) as W0.
  pose proof (p_inv_touch c true s d' I) as I0.
  assert (R0 : st_regr (p_touch s d') d' = true) by (unfold p_touch; destruct (st_del s d'); auto).
  set (s0 := p_touch s d') in *. clearbody s0.
  set (s1 := p_set_onclose s0 (p_upd (st_onclose s0) d' false)).
  assert (K1 : p_ke d id s1).
  { destruct K0. unfold s1. constructor; simpl; auto. unfold p_upd.
    destruct (d =? d') eqn:E; auto. apply Nat.eqb_eq in E; congruence. }
  assert (W1 : p_wfs s1) by exact W0. assert (I1 : p_inv c true s1) by exact I0.
  set (s2 := if st_onclose s0 d' then p_invoke c s1 d' PKClose else s1).
  assert (K2 : p_ke d id s2) by (unfold s2; destruct (st_onclose s0 d'); auto; apply p_ke_invoke; auto).
  assert (W2 : p_wfs s2) by (unfold s2; destruct (st_onclose s0 d'); auto; apply p_wfs_invoke; auto).
  assert (I2 : p_inv c true s2) by (unfold s2; destruct (st_onclose s0 d'); auto; apply p_inv_invoke; auto).
  clearbody s2.
  destruct (e_cd (ep_obj (st_ep s2) id')) as [d2|] eqn:CD; auto.
  destruct (e_doc (ep_obj (st_ep s2) id')); auto.
  assert (N2 : d2 <> d) by (eapply p_ke_other_cd; eauto).
  pose proof (p_ke_touch d id s2 d2 K2) as K3. pose proof (p_wfs_touch s2 d2 W2) as W3.
  assert (M3 : ep_map (st_ep (p_touch s2 d2)) d2 = Some id').
  { destruct I2 as (_ & J & _). destruct (J id') as (_ & J2 & _). destruct (J2 d2 CD) as [_ M].
    unfold p_touch. destruct (st_del s2 d2); exact M. }
  set (s3 := p_touch s2 d2) in *. clearbody s3.
  destruct W3 as (_ & W3). pose proof (p_kep_remove d id (st_ep s3) d2 false W3 N2 (ke_ep _ _ _ K3)) as X.
  pose proof (p_ep_remove_cd (st_ep s3) d2 id' M3) as Y.
  destruct (p_ep_remove (st_ep s3) d2 false) as [e r]. simpl in X, Y. simpl. rewrite Y.
  destruct K3. constructor; simpl; auto. apply p_kep_set_obj; auto.
Qed.

Lemma p_ke_ep_close_self c d id s : p_ke d id s -> p_closed_logged d (p_ep_close c s id d).
Proof.
  intros K. unfold p_ep_close. destruct K.
  assert (TS : p_touch s d = s) by (unfold p_touch; rewrite ke_del0; reflexivity).
  rewrite !TS. rewrite ke_on0.
  set (s1 := p_set_onclose s _).
  assert (L : p_closed_logged d (p_invoke c s1 d PKClose)).
  { unfold p_invoke. change (st_del s1 d) with (st_del s d). rewrite ke_del0.
    eexists. split. rewrite (p_same_log _ _ (p_same_exec_acts c _ _)). simpl. left. reflexivity.
    simpl. auto. }
  set (s2 := p_invoke c s1 d PKClose) in *. clearbody s2.
  destruct (e_cd (ep_obj (st_ep s2) id)) as [d2|]; auto.
  destruct (e_doc (ep_obj (st_ep s2) id)); auto.
  eapply p_logged_mono; [|exact L].
  eapply p_lmono_trans; [apply (p_lmono_touch s2 d2)|]. set (s3 := p_touch s2 d2). clearbody s3.
  destruct (p_ep_remove (st_ep s3) d2 false) as [e r]. simpl.
  apply p_lmono_same. destruct (e_cd (ep_obj e id)) as [d3|]; simpl; auto.
  unfold p_touch. simpl. destruct (st_del s3 d3); reflexivity.
Qed.

Lemma p_ke_ep_check c d id s id' fl' :
  p_no_target c d -> p_inv c true s -> p_wfs s -> p_ke d id s ->
  (id' = id /\ f_hup fl' = true -> p_closed_logged d (p_ep_check c s (id', fl'))) /\
  (~ (id' = id /\ f_hup fl' = true) -> p_ke d id (p_ep_check c s (id', fl'))).
Proof.
  intros G I W K.
  assert (NR : forall x : nat, x <> d \/ PKRead <> PKClose) by (right; discriminate).
  assert (NW : forall x : nat, x <> d \/ PKWrite <> PKClose) by (right; discriminate).
  split.
  - intros [-> HUP]. eapply p_logged_mono; [|apply (p_ke_ep_close_self c d id s K)].
    (* the rest of CheckDescriptor only adds to the log *)
    unfold p_ep_check. rewrite HUP. destruct (ke_ep _ _ _ K) as (_ & CD & RD & _). rewrite RD, CD.
    assert (TS : p_touch s d = s) by (unfold p_touch; rewrite (ke_del _ _ _ K); reflexivity).
    rewrite !TS. unfold p_has_data. rewrite (ke_pend _ _ _ K). simpl.
    set (s1 := p_ep_close c s id d).
    destruct (f_out fl'); [|apply p_lmono_refl].
    destruct (e_wd (ep_obj (st_ep s1) id)); [apply p_lmono_invoke|apply p_lmono_refl].
  - intros N. unfold p_ep_check.
    set (sf := if f_hup fl' then _ else _).
    assert (X1 : p_ke d id (fst sf) /\ p_wfs (fst sf)).
    { unfold sf. destruct (f_hup fl') eqn:HUP; [|split; auto].
      assert (Ni : id' <> id) by (intro; apply N; auto).
      destruct (e_rd (ep_obj (st_ep s) id')) eqn:RD.
      { simpl. split. apply p_ke_invoke; auto. apply p_wfs_invoke; auto. }
      destruct (e_cd (ep_obj (st_ep s) id')) eqn:CD.
      - simpl. assert (Nd : n <> d) by (eapply p_ke_other_cd; eauto).
        pose proof (p_ke_touch d id s n K) as K0. pose proof (p_wfs_touch s n W) as W0.
        pose proof (p_inv_touch c true s n I) as I0.
        assert (R : st_regr (p_touch s n) n = true).
        { unfold p_touch. destruct (st_del s n); simpl; eapply p_inv_ep_cd; eauto. }
        destruct (p_has_data (p_touch s n) n).
        + split. apply p_ke_invoke; auto. apply p_wfs_invoke; auto.
        + split. apply p_ke_ep_close_other; auto. apply p_wfs_ep_close; auto.
      - destruct (e_wd (ep_obj (st_ep s) id')); simpl; [|split; auto].
        split. apply p_ke_invoke; auto. apply p_wfs_invoke; auto. }
    destruct sf as [s1 fl1]. simpl in X1. destruct X1 as [K1 W1].
    set (s2 := if f_in fl1 then _ else s1).
    assert (X2 : p_ke d id s2 /\ p_wfs s2).
    { unfold s2. destruct (f_in fl1); [|split; auto].
      destruct (e_rd (ep_obj (st_ep s1) id')). split. apply p_ke_invoke; auto. apply p_wfs_invoke; auto.
      destruct (e_cd (ep_obj (st_ep s1) id')); [|split; auto].
      split. apply p_ke_invoke; auto. apply p_wfs_invoke; auto. }
    clearbody s2. destruct X2 as [K2 W2].
    destruct (f_out fl1); auto.
    destruct (e_wd (ep_obj (st_ep s2) id')); auto. apply p_ke_invoke; auto.
Qed.

Lemma p_ke_fold_check c d id : p_no_target c d ->
  forall evs s, p_inv c true s -> p_wfs s -> p_ke d id s ->
  (exists fl, In (id, fl) evs /\ f_hup fl = true) ->
  p_closed_logged d (fold_left (p_ep_check c) evs s).
Proof.
  intros G. induction evs as [|[id' fl'] evs IH]; intros s I W K (fl & Hin & HUP). destruct Hin.
  change (fold_left (p_ep_check c) ((id', fl') :: evs) s)
    with (fold_left (p_ep_check c) evs (p_ep_check c s (id', fl'))).
  destruct (p_ke_ep_check c d id s id' fl' G I W K) as [A B].
  destruct (Nat.eq_dec id' id) as [E|E]; [destruct (f_hup fl') eqn:H'|].
  - apply (p_logged_mono d (p_ep_check c s (id', fl'))); [|apply A; auto].
    apply (p_lmono_fold (p_ep_check c) evs). intros. apply p_lmono_ep_check.
  - apply IH. apply p_inv_ep_check; auto. apply p_wfs_ep_check; auto.
    apply B. intros [_ X]; congruence.
    destruct Hin as [X|Hin]; [inversion X; subst; congruence|]. eauto.
  - apply IH. apply p_inv_ep_check; auto. apply p_wfs_ep_check; auto.
    apply B. intros [X _]; congruence.
    destruct Hin as [X|Hin]; [inversion X; subst; congruence|]. eauto.
Qed.

Lemma p_ep_ready_in c s d id : p_refused c d = false -> ep_map (st_ep s) d = Some id -> st_closed s d = true ->
  forall ds, In d ds -> exists fl, In (id, fl) (p_ep_ready c s ds) /\ f_hup fl = true.
Proof.
  intros NR M C. induction ds; simpl; intros Hin. tauto.
  destruct Hin as [->|Hin].
  - rewrite M.
    assert (H : f_hup (p_ep_flags c s (ep_obj (st_ep s) id) d) = true).
    { unfold p_ep_flags. rewrite NR. destruct (p_is_sock c d); simpl; exact C. }
    assert (A : p_flag_any (p_ep_flags c s (ep_obj (st_ep s) id) d) = true).
    { unfold p_flag_any. rewrite H. apply orb_true_r. }
    rewrite A. eexists. split. left. reflexivity. exact H.
  - destruct (IHds Hin) as (fl & A & B).
    destruct (ep_map (st_ep s) a); [|eauto].
    destruct (p_flag_any _); eauto. exists fl. split; auto. right; auto.
Qed.

Lemma p_ep_ready_len c s ds : length (p_ep_ready c s ds) <= length ds.
Proof.
  induction ds; simpl; auto. destruct (ep_map (st_ep s) a) as [i|];
    [destruct (p_flag_any (p_ep_flags c s (ep_obj (st_ep s) i) a))|]; simpl; lia.
Qed.
Lemma p_batch_all c s (desc : bool) : length c <= p_max_events ->
  p_ep_batch c s (if desc then rev (seq 0 (length c)) else seq 0 (length c)) =
  p_ep_ready c s (if desc then rev (seq 0 (length c)) else seq 0 (length c)).
Proof.
  intros L. unfold p_ep_batch. apply firstn_all2.
  pose proof (p_ep_ready_len c s (if desc then rev (seq 0 (length c)) else seq 0 (length c))) as H.
  destruct desc; rewrite ?rev_length, seq_length in H; lia.
Qed.

Lemma p_ep_close_reported c ops d id desc :
  p_refused c d = false -> length c <= p_max_events ->
  p_no_target c d -> d < length c -> p_ke d id (p_run true c ops) ->
  p_closed_logged d (p_step c (p_run true c ops) (POPoll desc)).
Proof.
  intros NR LM G L K. set (s := p_run true c ops) in *.
  assert (I : p_inv c true s) by apply p_inv_run.
  assert (W : p_wfs s) by apply p_wfs_run.
  clearbody s. unfold p_step. rewrite (ke_be _ _ _ K). cbv zeta.
  apply (p_logged_mono d (p_ep_poll c s desc)); [apply p_lmono_same; reflexivity|].
  unfold p_ep_poll. rewrite (p_batch_all c s desc LM).
  set (ds := if desc then rev (seq 0 (length c)) else seq 0 (length c)).
  assert (Hd : In d ds).
  { unfold ds. destruct desc; [apply -> in_rev|]; apply in_seq; lia. }
  destruct (ke_ep _ _ _ K) as (M & _).
  destruct (p_ep_ready_in c s d id NR M (ke_closed _ _ _ K) ds Hd) as (fl & Hin & HUP).
  destruct (p_ep_ready c s ds) as [|ev evs] eqn:R. destruct Hin.
  apply (p_logged_mono d (fold_left (p_ep_check c) (ev :: evs) s)). apply p_lmono_same; reflexivity.
  eapply p_ke_fold_check; eauto.
Qed.
