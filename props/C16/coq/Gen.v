(* REGENERATED from the repository headers on every run. Do not edit. C16 constants *)
From Coq Require Import NArith.
Local Open Scope N_scope.
Definition USEC_IN_SECONDS : N := 1000000.
Definition ONE_THOUSAND : N := 1000.
Definition POLL_INTERVAL_SECOND : N := 10.
Definition POLL_INTERVAL_USECOND : N := 0.
Definition C_EPOLLIN : N := 1.
Definition C_EPOLLOUT : N := 4.
Definition C_EPOLLHUP : N := 16.
Definition C_EPOLLRDHUP : N := 8192.
Definition C_FD_SETSIZE : N := 1024.
Definition INVALID_DESCRIPTOR_PLUS_1 : N := 0.
Definition INVALID_TIMEOUT_VALUE : N := 0.
Definition EP_MAX_EVENTS : N := 10.
Definition EP_READ_FLAGS : N := 8193.
Definition EP_MAX_FREE_DESCRIPTORS : N := 10.
