(* C16 part (b): second bounded exhaustive comparison of the back-end models, with write registrations
   (the region of fix 03: read side + write side registered on a socket whose peer hangs up).
   Domain: one socket descriptor (plain or connected; read size 0, 1 or 9; no scripted actions), every sequence of
   at most 5 operations out of {AddRead, RemoveRead, AddWrite, RemoveWrite, peer writes 2 bytes, peer closes, Poll}.
   (Write registrations on the read end of a pipe are outside the kernel model and excluded.) *)
Require Import List Arith Bool NArith Lia.
Import ListNotations.
From C16 Require Import PModel PAgree.

Definition p_ag_socks : list p_cfg :=
  filter (fun c => match pc_kind (hd p_dflt c) with PSock => true | _ => false end) p_ag_cfgs.
Definition p_ag_all_w (n : nat) : bool :=
  forallb (fun c => forallb (p_ag_case c) (p_ag_seqs_w n)) p_ag_socks.
Lemma p_ag_bounded_w : p_ag_all_w 5 = true.
Proof. vm_compute. reflexivity. Qed.
Lemma p_ag_bounded_w_forall c ops :
  In c p_ag_socks -> In ops (p_ag_seqs_w 5) -> p_ag_case c ops = true.
Proof.
  intros Hc Ho. pose proof p_ag_bounded_w as H. unfold p_ag_all_w in H.
  rewrite forallb_forall in H. specialize (H c Hc). rewrite forallb_forall in H. exact (H ops Ho).
Qed.
