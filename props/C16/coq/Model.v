(* C16 part (a) — executable model of ola::io::TimeoutManager (common/io/TimeoutManager.{h,cpp})
   with the fix fixes/01-timeout-stale-removed-id.diff applied.

   Time is N microseconds (TimeStamp/TimeInterval are timeval based; no wrap at these sizes).
   A timeout_id is the ADDRESS of the heap-allocated Event: [eid].  Addresses come from an allocator
   [alloc] that may return any non-NULL address that is not currently allocated (address reuse is
   possible, as with malloc); theorems quantify over every such allocator.
   Ghost fields (not in the C++): [eser] a never re-used serial number that names the *incarnation*
   (one Register call), [earm] the time the event was last (re)armed (m_next = earm + m_interval).
   Callbacks re-enter the manager; what the i-th callback run by an ExecuteTimeouts call does is the
   i-th [script] of that call (cancel self / cancel some pending timer / register / let time pass /
   return value).  When the scripts are used up callbacks do nothing and return false.

   std::priority_queue: the contract used is "top() is an element with the smallest m_next".  WHICH of
   several equal elements is returned is decided by an oracle, instantiated with a simulation of
   libstdc++'s push_heap/pop_heap on the (next, serial) pairs ([hp]); if the oracle's answer were not
   a minimum (never observed; would be a libstdc++ bug) the first minimum of the store is taken.
   No theorem depends on the oracle. *)
From OlaBase Require Import Bytes.
Local Open Scope N_scope.

Record event := mkEv { eid : N; eser : N; earm : N; eint : N; enext : N; erep : bool }.

Inductive action :=
| ACancelSelf                       (* CancelTimeout(own id) from inside the callback *)
| ACancel (h : N)                   (* CancelTimeout(id of some allocated timer, chosen by [pickc] from hint h) *)
| AReg (rep : bool) (iv h : N)      (* Register{Repeating,Single}Timeout(iv, ...) ; h = allocator hint *)
| AAdvance (d : N).                 (* the callback takes d microseconds *)
Record script := mkScript { acts : list action; sret : bool }.
Definition default_script := mkScript [] false.

Inductive lentry :=
| LReg (e : event)
| LCancel (ser id : N)
| LFire (e : event) (now : N)
| LRet (ser : N) (again : bool)     (* Trigger() returned [again] *)
| LDrop (e : event).                (* popped, found in m_removed_timeouts, deleted without running *)

Definition hent := (N * N)%type.    (* (m_next, serial) *)

Record state := mkSt {
  q : list event;          (* the Events held by m_events (as a bag) *)
  hp : list hent;          (* tie-break oracle: libstdc++ heap layout of m_events' vector *)
  removed : list N;        (* m_removed_timeouts *)
  cur : option event;      (* Event popped and being triggered (still allocated) *)
  clock : N;               (* the Clock handed to the manager *)
  nser : N;                (* ghost: number of registrations so far *)
  log : list lentry        (* ghost: newest first *)
}.
Definition init : state := mkSt [] [] [] None 0 0 [].

(* ------------------------------------------------------------------ libstdc++ heap (oracle only) *)
Definition hnth (l : list hent) (i : nat) : hent := nth i l (0, 0).
Fixpoint upd {A} (i : nat) (x : A) (l : list A) : list A :=
  match l, i with
  | [], _ => []
  | _ :: t, O => x :: t
  | a :: t, S j => a :: upd j x t
  end.
Definition hswap (i j : nat) (l : list hent) : list hent :=
  let a := hnth l i in let b := hnth l j in upd i b (upd j a l).
(* __push_heap: while (hole > 0 && comp(parent, value)) i.e. parent.next > value.next *)
Fixpoint sift_up (fuel i : nat) (l : list hent) : list hent :=
  match fuel with
  | O => l
  | S f => match i with
           | O => l
           | _ => let p := Nat.div (i - 1) 2 in
                  if fst (hnth l i) <? fst (hnth l p) then sift_up f p (hswap i p l) else l
           end
  end.
Definition hpush (l : list hent) (x : hent) : list hent :=
  let l' := l ++ [x] in sift_up (length l') (length l) l'.
(* __adjust_heap's first loop: the hole moves down to the child that does not compare "less" *)
Fixpoint sift_down (fuel m hole : nat) (l : list hent) : nat * list hent :=
  match fuel with
  | O => (hole, l)
  | S f => if Nat.ltb hole (Nat.div (m - 1) 2) then
             let c := (2 * (hole + 1))%nat in
             let c := if fst (hnth l (c - 1)) <? fst (hnth l c) then (c - 1)%nat else c in
             sift_down f m c (hswap hole c l)
           else (hole, l)
  end.
Definition hpop (l : list hent) : list hent :=
  let n := length l in
  if Nat.leb n 1 then [] else
  let l1 := firstn (n - 1) (hswap 0 (n - 1) l) in      (* value = last element now in the hole 0 *)
  let m := (n - 1)%nat in
  let '(hole, l2) := sift_down m m 0 l1 in
  let '(hole, l3) :=
    if Nat.even m && Nat.leb 2 m && Nat.eqb hole (Nat.div (m - 2) 2)
    then let c := (2 * (hole + 1))%nat in ((c - 1)%nat, hswap hole (c - 1) l2)
    else (hole, l2) in
  sift_up m hole l3.

(* ------------------------------------------------------------------ the queue contract *)
Definition is_min (e : event) (l : list event) : bool := forallb (fun x => enext e <=? enext x) l.
Fixpoint argmin (l : list event) : option event :=
  match l with
  | [] => None
  | e :: r => match argmin r with
              | None => Some e
              | Some m => if enext e <=? enext m then Some e else Some m
              end
  end.
Definition peek (s : state) : option event :=
  match hp s with
  | (_, ser) :: _ =>
      match find (fun e => eser e =? ser) (q s) with
      | Some e => if is_min e (q s) then Some e else argmin (q s)
      | None => argmin (q s)
      end
  | [] => argmin (q s)
  end.
Definition remove_ser (n : N) (l : list event) : list event := filter (fun e => negb (eser e =? n)) l.
Definition hp_remove (n : N) (l : list hent) : list hent :=
  match l with
  | (_, ser) :: _ => if ser =? n then hpop l else filter (fun x => negb (snd x =? n)) l
  | [] => []
  end.
Definition mem (x : N) (l : list N) : bool := existsb (N.eqb x) l.
Definition del (x : N) (l : list N) : list N := filter (fun y => negb (y =? x)) l.

Section Model.
Variable alloc : list N -> N -> N.            (* operator new for an Event: allocated addresses, hint *)
Variable pickc : list N -> N -> option N.     (* which allocated timer a cancel is aimed at *)

Definition evs (s : state) : list event := q s ++ match cur s with Some e => [e] | None => [] end.
Definition ids (s : state) : list N := map eid (evs s).

(* Register{Repeating,Single}Timeout: new Event(interval, clock) ; m_events.push(event) *)
Definition do_reg (s : state) (rep : bool) (iv h : N) : state :=
  let id := alloc (ids s) h in
  let e := mkEv id (nser s) (clock s) iv (clock s + iv) rep in
  mkSt (e :: q s) (hpush (hp s) (enext e, eser e)) (removed s) (cur s) (clock s)
       (N.succ (nser s)) (LReg e :: log s).

(* CancelTimeout(id) *)
Definition do_cancel_id (s : state) (id : N) : state :=
  if id =? 0 then s else
  let lg := match find (fun e => eid e =? id) (evs s) with
            | Some e => LCancel (eser e) id :: log s
            | None => log s
            end in
  mkSt (q s) (hp s) (if mem id (removed s) then removed s else id :: removed s)
       (cur s) (clock s) (nser s) lg.

Definition do_cancel (s : state) (h : N) : state :=
  match pickc (ids s) h with Some id => do_cancel_id s id | None => s end.

Definition do_advance (s : state) (d : N) : state :=
  mkSt (q s) (hp s) (removed s) (cur s) (clock s + d) (nser s) (log s).

Definition do_action (s : state) (a : action) : state :=
  match a with
  | ACancelSelf => match cur s with Some e => do_cancel_id s (eid e) | None => s end
  | ACancel h => do_cancel s h
  | AReg rep iv h => do_reg s rep iv h
  | AAdvance d => do_advance s d
  end.

(* m_events.pop() of the element [e] that top() returned *)
Definition popped (s : state) (e : event) : state :=
  mkSt (remove_ser (eser e) (q s)) (hp_remove (eser e) (hp s)) (removed s) (cur s) (clock s)
       (nser s) (log s).
(* if (m_removed_timeouts.erase(e)) { delete e; continue; } *)
Definition drop (s : state) (e : event) : state :=
  mkSt (q s) (hp s) (del (eid e) (removed s)) (cur s) (clock s) (nser s) (LDrop e :: log s).
Definition begin_fire (s : state) (e : event) (now : N) : state :=
  mkSt (q s) (hp s) (removed s) (Some e) (clock s) (nser s) (LFire e now :: log s).
(* Trigger() returned true: e->UpdateTime(now); m_events.push(e) *)
Definition finish_again (s : state) (e : event) (now : N) : state :=
  let e' := mkEv (eid e) (eser e) now (eint e) (now + eint e) (erep e) in
  mkSt (e' :: q s) (hpush (hp s) (enext e', eser e')) (removed s) None (clock s) (nser s)
       (LRet (eser e) true :: log s).
(* Trigger() returned false: [FIX: m_removed_timeouts.erase(e);] delete e *)
Definition finish_done (s : state) (e : event) : state :=
  mkSt (q s) (hp s) (del (eid e) (removed s)) None (clock s) (nser s) (LRet (eser e) false :: log s).

Definition next_script (cbs : list script) : script * list script :=
  match cbs with c :: r => (c, r) | [] => (default_script, []) end.

(* one turn of the while loop of ExecuteTimeouts for the due top element e *)
Definition turn (s : state) (e : event) (now : N) (cbs : list script) : state * N * list script :=
  let s1 := popped s e in
  if mem (eid e) (removed s1) then (drop s1 e, now, cbs)
  else
    let '(sc, cbs') := next_script cbs in
    let s2 := begin_fire s1 e now in
    let s3 := fold_left do_action (acts sc) s2 in
    (* SingleEvent::Trigger returns false; RepeatingEvent::Trigger returns the closure's value *)
    let again := erep e && sret sc in
    let s4 := if again then finish_again s3 e now else finish_done s3 e in
    (s4, clock s4, cbs').       (* m_clock->CurrentMonotonicTime(now) *)

(* while (!m_events.empty() && top()->NextTime() <= now).  None = OutOfFuel *)
Fixpoint loop (fuel : nat) (s : state) (now : N) (cbs : list script) : option (state * N) :=
  match fuel with
  | O => None
  | S f =>
      match peek s with
      | None => Some (s, now)
      | Some e =>
          if enext e <=? now then
            let '(s', now', cbs') := turn s e now cbs in loop f s' now' cbs'
          else Some (s, now)
      end
  end.

Definition nregs (c : script) : nat :=
  length (filter (fun a => match a with AReg _ _ _ => true | _ => false end) (acts c)).
Fixpoint weight (cbs : list script) : nat :=
  match cbs with [] => O | c :: r => (S (nregs c) + weight r)%nat end.
Definition fuel_of (s : state) (cbs : list script) : nat := S (length (q s) + weight cbs).

(* ExecuteTimeouts(&now) with now read from the clock just before, as both pollers do *)
Definition do_exec (s : state) (cbs : list script) : option (state * N) :=
  loop (fuel_of s cbs) s (clock s) cbs.

(* return value of ExecuteTimeouts: time until the next event (0 when the queue is empty) *)
Definition next_in (s : state) (now : N) : N :=
  match peek s with Some e => enext e - now | None => 0 end.

(* the same value with the subtraction done in Z, to state that it is never negative *)
Definition next_in_z (s : state) (now : N) : Z :=
  match peek s with Some e => (Z.of_N (enext e) - Z.of_N now)%Z | None => 0%Z end.

(* One idle iteration of EPoller::Poll / SelectPoller::Poll as far as timers are concerned: run the due
   timers, sleep min(time to the next timer, poll interval) - EPoller passes InMilliSeconds() to epoll_wait,
   i.e. the sleep truncated to whole milliseconds, SelectPoller the exact timeval - then read the clock
   AGAIN (m_wake_up_time) and run the timers that are due at that time. *)
Definition poll_sleep (epoll : bool) (s : state) (now b : N) : N :=
  let sl := match peek s with Some e => N.min (enext e - now) b | None => b end in
  if epoll then (sl / 1000) * 1000 else sl.
Definition poll_once (epoll : bool) (s : state) (b : N) (cbs1 cbs2 : list script) : option state :=
  match do_exec s cbs1 with
  | None => None
  | Some (s1, now1) =>
      let s2 := do_advance s1 (poll_sleep epoll s1 now1 b) in
      match do_exec s2 cbs2 with Some (s3, _) => Some s3 | None => None end
  end.

(* One whole SelectServer iteration (SelectServer::RunOnce -> CheckForEvents -> Poller::Poll) as far as timers are
   concerned: the loop callbacks run first (here: the timers they register), then the due timers, then either the
   poller sleeps (nothing ready) or the ready descriptors' callbacks run (here: the timers THEY register; no sleep),
   then the clock is read again and the due timers run. *)
Definition reg3 := (bool * N * N)%type.      (* repeating?, interval, allocator hint *)
Definition do_regs (s : state) (l : list reg3) : state :=
  fold_left (fun s r => let '(rep, iv, h) := r in do_reg s rep iv h) l s.
Definition runonce (epoll : bool) (s : state) (b : N) (loop_regs desc_regs : list reg3)
                   (cbs1 cbs2 : list script) : option state :=
  match do_exec (do_regs s loop_regs) cbs1 with
  | None => None
  | Some (s1, now1) =>
      let s2 := match desc_regs with
                | [] => do_advance s1 (poll_sleep epoll s1 now1 b)
                | _ => do_regs s1 desc_regs
                end in
      match do_exec s2 cbs2 with Some (s3, _) => Some s3 | None => None end
  end.

(* The same iteration when the poller's wait (select / epoll_wait) fails with EINTR: the loop callbacks and the
   due timers have run (Poll calls ExecuteTimeouts before it waits); Poll then returns at once - no sleep, no
   descriptor callback, no second ExecuteTimeouts.  Timers that are due are served by the next iteration. *)
Definition runonce_intr (s : state) (loop_regs : list reg3) (cbs1 : list script) : option state :=
  match do_exec (do_regs s loop_regs) cbs1 with
  | None => None
  | Some (s1, _) => Some s1
  end.

Inductive op :=
| OReg (rep : bool) (iv h : N)
| OCancel (h : N)
| OAdvance (d : N)
| OExec (cbs : list script).

Definition step (s : state) (o : op) : option state :=
  match o with
  | OReg rep iv h => Some (do_reg s rep iv h)
  | OCancel h => Some (do_cancel s h)
  | OAdvance d => Some (do_advance s d)
  | OExec cbs => match do_exec s cbs with Some (s', _) => Some s' | None => None end
  end.

Fixpoint run (s : state) (ops : list op) : option state :=
  match ops with
  | [] => Some s
  | o :: r => match step s o with Some s' => run s' r | None => None end
  end.

(* ... which is nothing but a particular history of the TimeoutManager *)
Definition runonce_ops (epoll : bool) (sleep : N) (loop_regs desc_regs : list reg3) (cbs1 cbs2 : list script) : list op :=
  map (fun r : reg3 => let '(rep, iv, h) := r in OReg rep iv h) loop_regs ++ [OExec cbs1] ++
  match desc_regs with
  | [] => [OAdvance sleep]
  | _ => map (fun r : reg3 => let '(rep, iv, h) := r in OReg rep iv h) desc_regs
  end ++ [OExec cbs2].
End Model.

(* SelectServer::Register{Single,Repeating}Timeout(unsigned int ms, ...) (common/io/SelectServer.cpp):
   TimeInterval(ms / 1000, ms % 1000 * 1000) = that many seconds + that many microseconds.  All arithmetic is on
   values that fit (see c16_ms_conversion); written as the code has it, NOT as 1000 * ms. *)
Definition ms_to_us (ms : N) : N := (ms / 1000) * 1000000 + (ms mod 1000 * 1000).

(* ------------------------------------------------------------------ the harness's choice functions *)
Definition pool_size : N := 128.
Definition pool_slots : list N := map N.of_nat (seq 1 128).
Definition pool_alloc (live : list N) (h : N) : N :=
  let free := filter (fun i => negb (mem i live)) pool_slots in
  match free with
  | [] => 1 + fold_right N.max 0 live
  | _ => nth (N.to_nat (h mod len free)) free 0
  end.
Definition pool_pick (live : list N) (h : N) : option N :=
  let used := filter (fun i => mem i live) pool_slots in
  match used with
  | [] => None
  | _ => Some (nth (N.to_nat (h mod len used)) used 0)
  end.
