(* C16 part (a): the main invariant (structure of the queue / removed set, cancellation, timing) *)
From OlaBase Require Import Bytes.
From C16 Require Import Model Proofs.
Local Open Scope N_scope.

Section Inv.
Variable alloc : list N -> N -> N.
Variable pickc : list N -> N -> option N.
Hypothesis alloc_ok : forall live h, ~ In (alloc live h) live /\ alloc live h <> 0.
Notation prim := (prim alloc).
Notation star := (star alloc).

Record Inv (s : state) : Prop := {
  i_sers : NoDup (map eser (evs s));
  i_ids : NoDup (map eid (evs s));
  i_lt : forall e, In e (evs s) -> eser e < nser s;
  i_rm : forall id, In id (removed s) -> In id (ids s);
  i_arm : forall e, In e (evs s) -> enext e = earm e + eint e;
  i_loglt : forall x, In x (log s) -> lser x < nser s;
  i_canc : forall e, In e (evs s) ->
           (In (eid e) (removed s) <-> exists id, In (LCancel (eser e) id) (log s));
  i_fire_time : forall e now, In (LFire e now) (log s) -> enext e = earm e + eint e /\ enext e <= now;
  i_fire_nocancel : forall l1 l2 e now, log s = l1 ++ LFire e now :: l2 ->
           forall id, ~ In (LCancel (eser e) id) l2;
  i_drop : forall e, In (LDrop e) (log s) -> exists id, In (LCancel (eser e) id) (log s)
}.

Lemma inv_init : Inv init.
Proof.
  constructor; simpl.
  - constructor.
  - constructor.
  - intros e [].
  - intros id [].
  - intros e [].
  - intros x [].
  - intros e [].
  - intros e now [].
  - intros l1 l2 e now E. destruct l1; discriminate.
  - intros e [].
Qed.

Lemma evs_nocur s : cur s = None -> evs s = q s.
Proof. unfold evs; intros ->. apply app_nil_r. Qed.
Lemma evs_cur s e : cur s = Some e -> evs s = q s ++ [e].
Proof. unfold evs; intros ->. reflexivity. Qed.

Lemma ids_ev s id : In id (ids s) -> exists e, In e (evs s) /\ eid e = id.
Proof. unfold ids. rewrite in_map_iff. intros (e & E & H). eauto. Qed.
Lemma ev_ids s e : In e (evs s) -> In (eid e) (ids s).
Proof. unfold ids. apply in_map. Qed.

Lemma ser_inj s x y : Inv s -> In x (evs s) -> In y (evs s) -> eser x = eser y -> x = y.
Proof. intros I. apply NoDup_map_inj. apply I. Qed.
Lemma id_inj s x y : Inv s -> In x (evs s) -> In y (evs s) -> eid x = eid y -> x = y.
Proof. intros I. apply NoDup_map_inj. apply I. Qed.

(* ---------------------------------------------------------------- register *)
Lemma inv_reg s rep iv h : Inv s -> Inv (do_reg alloc s rep iv h).
Proof.
  intros I. destruct (alloc_ok (ids s) h) as [Hfresh Hnz].
  set (e0 := mkEv (alloc (ids s) h) (nser s) (clock s) iv (clock s + iv) rep).
  assert (EV : evs (do_reg alloc s rep iv h) = e0 :: evs s) by reflexivity.
  assert (NC : forall id, ~ In (LCancel (nser s) id) (log s)).
  { intros id H. apply (i_loglt _ I) in H. simpl in H. lia. }
  constructor; rewrite ?EV.
  - simpl. constructor. 2: apply I. rewrite in_map_iff. intros (e & E & H). apply (i_lt _ I) in H. lia.
  - simpl. constructor. 2: apply I. exact Hfresh.
  - simpl. intros e [<-|H]. simpl; lia. apply (i_lt _ I) in H. lia.
  - intros id H. unfold ids. rewrite EV. simpl. right. apply (i_rm _ I); auto.
  - intros e [<-|H]. reflexivity. apply (i_arm _ I); auto.
  - simpl. intros x [<-|H]. simpl; lia. apply (i_loglt _ I) in H. lia.
  - simpl. intros e [<-|H].
    + simpl. split.
      * intros H. exfalso. apply Hfresh. apply (i_rm _ I); auto.
      * intros (id & [H|H]). discriminate. exfalso. eapply NC; eauto.
    + rewrite (i_canc _ I e H). split; intros (id & Hid); exists id.
      * right; auto.
      * destruct Hid as [Hid|Hid]; [discriminate|auto].
  - simpl. intros e now [H|H]. discriminate. apply (i_fire_time _ I); auto.
  - simpl. intros l1 l2 e now E. apply cons_app_split in E.
    destruct E as [(_ & E & _)|(l1' & _ & E)]. discriminate. eapply (i_fire_nocancel _ I); eauto.
  - simpl. intros e [H|H]. discriminate. destruct (i_drop _ I e H) as (id & Hid). exists id; auto.
Qed.

(* ---------------------------------------------------------------- cancel *)
Lemma cancel_shape s id : In id (ids s) -> id <> 0 ->
  exists e1, In e1 (evs s) /\ eid e1 = id /\
    do_cancel_id s id = mkSt (q s) (hp s) (if mem id (removed s) then removed s else id :: removed s)
                             (cur s) (clock s) (nser s) (LCancel (eser e1) id :: log s).
Proof.
  intros Hin Hnz. unfold do_cancel_id. apply N.eqb_neq in Hnz. rewrite Hnz.
  destruct (find (fun e => eid e =? id) (evs s)) as [e1|] eqn:F.
  - apply find_some in F. destruct F as [F1 F2]. apply N.eqb_eq in F2. exists e1. auto.
  - exfalso. apply ids_ev in Hin. destruct Hin as (e & He & E).
    eapply find_none in F; eauto. simpl in F. apply N.eqb_neq in F. auto.
Qed.

Lemma inv_cancel s id : In id (ids s) -> id <> 0 -> Inv s -> Inv (do_cancel_id s id).
Proof.
  intros Hin Hnz I. destruct (cancel_shape s id Hin Hnz) as (e1 & He1 & Eid & ->).
  assert (RM : forall x, In x (if mem id (removed s) then removed s else id :: removed s) <->
                         x = id \/ In x (removed s)).
  { intros x. destruct (mem id (removed s)) eqn:M.
    - apply mem_In in M. split; auto. intros [->|H]; auto.
    - simpl. split; intros [H|H]; auto. }
  constructor; unfold evs, ids; simpl; fold (evs s); fold (ids s).
  - apply I. - apply I. - apply I.
  - intros x Hx. apply RM in Hx. destruct Hx as [->|Hx]; auto. apply (i_rm _ I); auto.
  - apply I.
  - intros x [<-|H]. simpl. apply (i_lt _ I); auto. apply (i_loglt _ I); auto.
  - intros e He. rewrite RM. split.
    + intros [E|H].
      * assert (e = e1) by (eapply id_inj; eauto; congruence). subst e. exists id. left; auto.
      * apply (i_canc _ I e He) in H. destruct H as (id' & H). exists id'; right; auto.
    + intros (id' & [H|H]).
      * inversion H; subst. assert (e = e1) by (eapply ser_inj; eauto). subst e. left; auto.
      * right. apply (i_canc _ I e He). eauto.
  - intros e now [H|H]. discriminate. apply (i_fire_time _ I); auto.
  - intros l1 l2 e now E. apply cons_app_split in E.
    destruct E as [(_ & E & _)|(l1' & _ & E)]. discriminate. eapply (i_fire_nocancel _ I); eauto.
  - intros e [H|H]. discriminate. destruct (i_drop _ I e H) as (id' & Hid). exists id'; right; auto.
Qed.

Lemma inv_adv s d : Inv s -> Inv (do_advance s d).
Proof. intros I. destruct I. constructor; auto. Qed.

(* ---------------------------------------------------------------- pop + drop *)
Lemma inv_drop s e : cur s = None -> In e (q s) -> In (eid e) (removed s) -> Inv s ->
  Inv (drop (popped s e) e).
Proof.
  intros C Hin Hrm I. pose proof (evs_nocur s C) as EV.
  assert (Hev : In e (evs s)) by (rewrite EV; auto).
  assert (EV' : evs (drop (popped s e) e) = remove_ser (eser e) (q s)).
  { unfold evs; simpl. rewrite C. apply app_nil_r. }
  assert (SUB : forall x, In x (remove_ser (eser e) (q s)) -> In x (evs s) /\ eser x <> eser e /\ eid x <> eid e).
  { intros x Hx. apply remove_ser_In in Hx. destruct Hx as [Hx Hne]. rewrite EV. repeat split; auto.
    intros E. apply Hne. f_equal. eapply id_inj; eauto; rewrite EV; auto. }
  constructor; unfold ids; rewrite ?EV'.
  - unfold remove_ser. apply NoDup_map_filter. rewrite <- EV. apply I.
  - unfold remove_ser. apply NoDup_map_filter. rewrite <- EV. apply I.
  - simpl. intros x Hx. apply SUB in Hx. apply (i_lt _ I). tauto.
  - simpl. intros id Hid. apply del_In in Hid. destruct Hid as [Hid Hne].
    apply (i_rm _ I) in Hid. apply ids_ev in Hid. destruct Hid as (x & Hx & E).
    apply in_map_iff. exists x. split; auto. apply remove_ser_In. rewrite EV in Hx. split; auto.
    intros E2. apply Hne. rewrite <- E. f_equal. eapply ser_inj; eauto. rewrite EV; auto.
  - intros x Hx. apply SUB in Hx. apply (i_arm _ I). tauto.
  - simpl. intros x [<-|H]. simpl. apply (i_lt _ I); auto. apply (i_loglt _ I); auto.
  - simpl. intros x Hx. apply SUB in Hx. destruct Hx as (Hx & Hs & Hi).
    rewrite del_In. rewrite (and_comm (In (eid x) (removed s))).
    split.
    + intros [_ H]. apply (i_canc _ I x Hx) in H. destruct H as (id & H). exists id; right; auto.
    + intros (id & [H|H]). discriminate. split; auto. apply (i_canc _ I x Hx). eauto.
  - simpl. intros x now [H|H]. discriminate. apply (i_fire_time _ I); auto.
  - simpl. intros l1 l2 x now E. apply cons_app_split in E.
    destruct E as [(_ & E & _)|(l1' & _ & E)]. discriminate. eapply (i_fire_nocancel _ I); eauto.
  - simpl. intros x [H|H].
    + inversion H; subst x. apply (i_canc _ I e Hev) in Hrm. destruct Hrm as (id & Hid). exists id; right; auto.
    + destruct (i_drop _ I x H) as (id & Hid). exists id; right; auto.
Qed.

(* ---------------------------------------------------------------- pop + begin of Trigger *)
Lemma fire_evs s e now : cur s = None -> In e (q s) -> Inv s ->
  forall x, In x (evs (begin_fire (popped s e) e now)) <-> In x (evs s).
Proof.
  intros C Hin I x. rewrite (evs_nocur s C). unfold evs; simpl. rewrite in_app_iff, remove_ser_In. simpl.
  split.
  - intros [[H _]|[<-|[]]]; auto.
  - intros H. destruct (N.eq_dec (eser x) (eser e)) as [E|E]; auto.
    right; left. symmetry. eapply ser_inj; eauto; rewrite (evs_nocur s C); auto.
Qed.

Lemma inv_fire s e now : cur s = None -> In e (q s) -> ~ In (eid e) (removed s) -> enext e <= now ->
  Inv s -> Inv (begin_fire (popped s e) e now).
Proof.
  intros C Hin Hrm Hdue I. pose proof (evs_nocur s C) as EV.
  assert (Hev : In e (evs s)) by (rewrite EV; auto).
  pose proof (fire_evs s e now C Hin I) as FE.
  set (s' := begin_fire (popped s e) e now) in *.
  assert (EV' : evs s' = remove_ser (eser e) (q s) ++ [e]) by reflexivity.
  constructor; unfold ids.
  - rewrite EV', map_app. simpl. apply NoDup_snoc. constructor.
    + rewrite in_map_iff. intros (x & E & Hx). apply remove_ser_In in Hx. tauto.
    + unfold remove_ser. apply NoDup_map_filter. rewrite <- EV. apply I.
  - rewrite EV', map_app. simpl. apply NoDup_snoc. constructor.
    + rewrite in_map_iff. intros (x & E & Hx). apply remove_ser_In in Hx. destruct Hx as [Hx Hne].
      apply Hne. f_equal. eapply id_inj; eauto. rewrite EV; auto.
    + unfold remove_ser. apply NoDup_map_filter. rewrite <- EV. apply I.
  - intros x Hx. apply FE in Hx. apply (i_lt _ I); auto.
  - intros id Hid. change (removed s') with (removed s) in Hid. apply (i_rm _ I) in Hid.
    apply ids_ev in Hid. destruct Hid as (x & Hx & E). subst id. apply in_map. apply FE; auto.
  - intros x Hx. apply FE in Hx. apply (i_arm _ I); auto.
  - simpl. intros x [<-|H]. simpl. apply (i_lt _ I); auto. apply (i_loglt _ I); auto.
  - intros x Hx. apply FE in Hx. change (removed s') with (removed s). rewrite (i_canc _ I x Hx).
    simpl. split; intros (id & H); exists id. right; auto. destruct H as [H|H]; [discriminate|auto].
  - simpl. intros x now' [H|H].
    + inversion H; subst. split; auto. apply (i_arm _ I); auto.
    + apply (i_fire_time _ I); auto.
  - simpl. intros l1 l2 x now' E. apply cons_app_split in E.
    destruct E as [(_ & E & ->)|(l1' & _ & E)].
    + inversion E; subst. intros id H. apply Hrm. apply (i_canc _ I x Hev). eauto.
    + eapply (i_fire_nocancel _ I); eauto.
  - simpl. intros x [H|H]. discriminate. destruct (i_drop _ I x H) as (id & Hid). exists id; right; auto.
Qed.

(* ---------------------------------------------------------------- end of Trigger *)
Lemma inv_again s e now : cur s = Some e -> Inv s -> Inv (finish_again s e now).
Proof.
  intros C I. pose proof (evs_cur s e C) as EV.
  assert (Hev : In e (evs s)) by (rewrite EV; apply in_or_app; right; simpl; auto).
  set (e' := mkEv (eid e) (eser e) now (eint e) (now + eint e) (erep e)).
  assert (EV' : evs (finish_again s e now) = e' :: q s).
  { unfold evs; simpl. rewrite app_nil_r. reflexivity. }
  assert (SUB : forall x, In x (q s) -> In x (evs s)) by (intros; rewrite EV; apply in_or_app; auto).
  constructor; unfold ids; rewrite ?EV'.
  - simpl. pose proof (i_sers _ I) as H. rewrite EV, map_app in H. apply NoDup_snoc in H. exact H.
  - simpl. pose proof (i_ids _ I) as H. rewrite EV, map_app in H. apply NoDup_snoc in H. exact H.
  - simpl. intros x [<-|H]. simpl. apply (i_lt _ I); auto. apply (i_lt _ I); auto.
  - simpl. intros id Hid. apply (i_rm _ I) in Hid. unfold ids in Hid. rewrite EV, map_app in Hid.
    apply in_app_or in Hid. destruct Hid as [H|[H|[]]]; auto.
  - intros x [<-|H]. reflexivity. apply (i_arm _ I); auto.
  - simpl. intros x [<-|H]. simpl. apply (i_lt _ I); auto. apply (i_loglt _ I); auto.
  - simpl. intros x [<-|H].
    + simpl. rewrite (i_canc _ I e Hev). split; intros (id & Hid); exists id.
      right; auto. destruct Hid as [Hid|Hid]; [discriminate|auto].
    + rewrite (i_canc _ I x (SUB _ H)). split; intros (id & Hid); exists id.
      right; auto. destruct Hid as [Hid|Hid]; [discriminate|auto].
  - simpl. intros x now' [H|H]. discriminate. apply (i_fire_time _ I); auto.
  - simpl. intros l1 l2 x now' E. apply cons_app_split in E.
    destruct E as [(_ & E & _)|(l1' & _ & E)]. discriminate. eapply (i_fire_nocancel _ I); eauto.
  - simpl. intros x [H|H]. discriminate. destruct (i_drop _ I x H) as (id & Hid). exists id; right; auto.
Qed.

Lemma inv_done s e : cur s = Some e -> Inv s -> Inv (finish_done s e).
Proof.
  intros C I. pose proof (evs_cur s e C) as EV.
  assert (Hev : In e (evs s)) by (rewrite EV; apply in_or_app; right; simpl; auto).
  assert (EV' : evs (finish_done s e) = q s).
  { unfold evs; simpl. apply app_nil_r. }
  assert (SUB : forall x, In x (q s) -> In x (evs s)) by (intros; rewrite EV; apply in_or_app; auto).
  assert (ND : forall x, In x (q s) -> eid x <> eid e).
  { intros x Hx E. pose proof (i_ids _ I) as H. rewrite EV, map_app in H. apply NoDup_snoc in H.
    simpl in H. inversion H; subst. apply H2. rewrite <- E. apply in_map; auto. }
  constructor; unfold ids; rewrite ?EV'.
  - pose proof (i_sers _ I) as H. rewrite EV, map_app in H. apply NoDup_snoc in H. inversion H; auto.
  - pose proof (i_ids _ I) as H. rewrite EV, map_app in H. apply NoDup_snoc in H. inversion H; auto.
  - simpl. intros x H. apply (i_lt _ I); auto.
  - simpl. intros id Hid. apply del_In in Hid. destruct Hid as [Hid Hne].
    apply (i_rm _ I) in Hid. unfold ids in Hid. rewrite EV, map_app in Hid.
    apply in_app_or in Hid. destruct Hid as [H|[H|[]]]; auto. congruence.
  - intros x H. apply (i_arm _ I); auto.
  - simpl. intros x [<-|H]. simpl. apply (i_lt _ I); auto. apply (i_loglt _ I); auto.
  - simpl. intros x H. rewrite del_In. pose proof (ND x H) as Hne.
    split.
    + intros [H1 _]. apply (i_canc _ I x (SUB _ H)) in H1. destruct H1 as (id & Hid). exists id; right; auto.
    + intros (id & [Hid|Hid]). discriminate. split; auto. apply (i_canc _ I x (SUB _ H)). eauto.
  - simpl. intros x now' [H|H]. discriminate. apply (i_fire_time _ I); auto.
  - simpl. intros l1 l2 x now' E. apply cons_app_split in E.
    destruct E as [(_ & E & _)|(l1' & _ & E)]. discriminate. eapply (i_fire_nocancel _ I); eauto.
  - simpl. intros x [H|H]. discriminate. destruct (i_drop _ I x H) as (id & Hid). exists id; right; auto.
Qed.

Lemma prim_inv s s' : prim s s' -> Inv s -> Inv s'.
Proof.
  destruct 1; intros I.
  - apply inv_reg; auto.
  - apply inv_cancel; auto.
  - apply inv_adv; auto.
  - apply inv_drop; auto.
  - apply inv_fire; auto.
  - apply inv_again; auto.
  - apply inv_done; auto.
Qed.
Lemma star_inv s s' : star s s' -> Inv s -> Inv s'.
Proof. induction 1; auto. intros. apply IHstar. eapply prim_inv; eauto. Qed.
End Inv.
