(* C16 part (b): executable bookkeeping model of ola::io::EPoller and ola::io::SelectPoller
   (common/io/EPoller.cpp, common/io/SelectPoller.cpp) driven by a small kernel model.
   Every top-level identifier starts with p_ / P (merge convention).

   Descriptor d (index into the configuration) lives on fd (base + d): fd order = index order.
   Local fds are never closed by scripts, so ValidRead/WriteDescriptor() is always true and the
   "invalid descriptor" branches of both pollers are not modelled. *)
Require Import List Arith Bool NArith Lia.
Import ListNotations.

Inductive p_kind := PPipe | PSock
  | PRef.   (* a pipe read end whose registration the epoll interface refuses (epoll_ctl fails, as for a regular
               file or a stale fd); SelectPoller has no kernel registration step and treats it like any pipe *)
Inductive p_act := PAAddR (d : nat) | PAAddW (d : nat) | PARemR (d : nat) | PARemW (d : nat).

Record p_dcfg := {
  pc_kind : p_kind;      (* pipe read end / one end of a socketpair *)
  pc_conn : bool;        (* registered through the ConnectedDescriptor overload (else plain ReadFileDescriptor) *)
  pc_doc  : bool;        (* delete_on_close argument *)
  pc_rk   : nat;         (* the read callback Receive()s at most this many bytes *)
  pc_rs   : list p_act;  (* what the read callback does afterwards *)
  pc_ws   : list p_act;  (* write callback *)
  pc_cs   : list p_act   (* on_close callback *)
}.
Definition p_cfg := list p_dcfg.
Definition p_dflt : p_dcfg := Build_p_dcfg PPipe false false 0 [] [] [].
Definition p_get (c : p_cfg) (d : nat) : p_dcfg := nth d c p_dflt.
Definition p_refused (c : p_cfg) (d : nat) : bool :=
  match pc_kind (p_get c d) with PRef => true | _ => false end.

Inductive p_op :=
| POAddR (d : nat) | POAddW (d : nat) | PORemR (d : nat) | PORemW (d : nat)
| POWrite (d : nat) (bs : list N)     (* peer end writes bs *)
| POClosePeer (d : nat)
| POPoll (desc : bool).               (* one Poll(); desc = epoll ready list in descending fd order *)

Inductive p_cbk := PKRead | PKWrite | PKClose.
Record p_ev := { le_op : nat; le_d : nat; le_kind : p_cbk; le_bytes : list N; le_reg : bool }.

(* ---- poller states ---- *)
(* EPollData: events mask (READ_FLAGS / EPOLLOUT) and the three descriptor pointers (descriptor index) *)
Record p_ed := { e_r : bool; e_w : bool; e_rd : option nat; e_wd : option nat; e_cd : option nat; e_doc : bool }.
Definition p_ed0 : p_ed := Build_p_ed false false None None None false.
Record p_ep := { ep_obj : nat -> p_ed; ep_map : nat -> option nat;
                 ep_orph : list nat; ep_free : list nat; ep_next : nat }.
Definition p_ep0 : p_ep := Build_p_ep (fun _ => p_ed0) (fun _ => None) [] [] 0.

Inductive p_slot := SAbs | STomb | SPres.
Record p_sel := { s_r : nat -> p_slot; s_c : nat -> p_slot; s_cdoc : nat -> bool; s_w : nat -> p_slot }.
Definition p_sel0 : p_sel := Build_p_sel (fun _ => SAbs) (fun _ => SAbs) (fun _ => false) (fun _ => SAbs).

Record p_st := {
  st_be : bool;                 (* true: EPoller, false: SelectPoller *)
  st_pend : nat -> list N;      (* kernel: bytes queued on d's fd *)
  st_closed : nat -> bool;      (* kernel: peer end closed *)
  st_ep : p_ep; st_sel : p_sel;
  st_log : list p_ev;           (* newest first *)
  st_onclose : nat -> bool;     (* descriptor still holds its single-use on_close callback *)
  st_del : nat -> bool;         (* descriptor object deleted (delete_on_close) *)
  st_regr : nat -> bool;        (* GHOST: read side registered according to the add/remove history *)
  st_regw : nat -> bool;        (* GHOST: write side registered according to the add/remove history *)
  st_haz : bool;                (* a deleted descriptor object was used *)
  st_opix : nat;
  st_rets : list bool           (* return values of top-level add/remove ops, newest first *)
}.

Definition p_upd {A} (f : nat -> A) (k : nat) (v : A) : nat -> A :=
  fun x => if x =? k then v else f x.

Definition p_set_ep (s : p_st) (e : p_ep) : p_st :=
  Build_p_st (st_be s) (st_pend s) (st_closed s) e (st_sel s) (st_log s) (st_onclose s) (st_del s)
             (st_regr s) (st_regw s) (st_haz s) (st_opix s) (st_rets s).
Definition p_set_sel (s : p_st) (e : p_sel) : p_st :=
  Build_p_st (st_be s) (st_pend s) (st_closed s) (st_ep s) e (st_log s) (st_onclose s) (st_del s)
             (st_regr s) (st_regw s) (st_haz s) (st_opix s) (st_rets s).
Definition p_set_pend (s : p_st) (p : nat -> list N) : p_st :=
  Build_p_st (st_be s) p (st_closed s) (st_ep s) (st_sel s) (st_log s) (st_onclose s) (st_del s)
             (st_regr s) (st_regw s) (st_haz s) (st_opix s) (st_rets s).
Definition p_set_closed (s : p_st) (p : nat -> bool) : p_st :=
  Build_p_st (st_be s) (st_pend s) p (st_ep s) (st_sel s) (st_log s) (st_onclose s) (st_del s)
             (st_regr s) (st_regw s) (st_haz s) (st_opix s) (st_rets s).
Definition p_set_log (s : p_st) (l : list p_ev) : p_st :=
  Build_p_st (st_be s) (st_pend s) (st_closed s) (st_ep s) (st_sel s) l (st_onclose s) (st_del s)
             (st_regr s) (st_regw s) (st_haz s) (st_opix s) (st_rets s).
Definition p_set_onclose (s : p_st) (f : nat -> bool) : p_st :=
  Build_p_st (st_be s) (st_pend s) (st_closed s) (st_ep s) (st_sel s) (st_log s) f (st_del s)
             (st_regr s) (st_regw s) (st_haz s) (st_opix s) (st_rets s).
Definition p_set_del (s : p_st) (f : nat -> bool) : p_st :=
  Build_p_st (st_be s) (st_pend s) (st_closed s) (st_ep s) (st_sel s) (st_log s) (st_onclose s) f
             (st_regr s) (st_regw s) (st_haz s) (st_opix s) (st_rets s).
Definition p_set_regr (s : p_st) (f : nat -> bool) : p_st :=
  Build_p_st (st_be s) (st_pend s) (st_closed s) (st_ep s) (st_sel s) (st_log s) (st_onclose s) (st_del s)
             f (st_regw s) (st_haz s) (st_opix s) (st_rets s).
Definition p_set_regw (s : p_st) (f : nat -> bool) : p_st :=
  Build_p_st (st_be s) (st_pend s) (st_closed s) (st_ep s) (st_sel s) (st_log s) (st_onclose s) (st_del s)
             (st_regr s) f (st_haz s) (st_opix s) (st_rets s).
Definition p_set_haz (s : p_st) : p_st :=
  Build_p_st (st_be s) (st_pend s) (st_closed s) (st_ep s) (st_sel s) (st_log s) (st_onclose s) (st_del s)
             (st_regr s) (st_regw s) true (st_opix s) (st_rets s).
Definition p_set_opix (s : p_st) (n : nat) : p_st :=
  Build_p_st (st_be s) (st_pend s) (st_closed s) (st_ep s) (st_sel s) (st_log s) (st_onclose s) (st_del s)
             (st_regr s) (st_regw s) (st_haz s) n (st_rets s).
Definition p_push_ret (s : p_st) (b : bool) : p_st :=
  Build_p_st (st_be s) (st_pend s) (st_closed s) (st_ep s) (st_sel s) (st_log s) (st_onclose s) (st_del s)
             (st_regr s) (st_regw s) (st_haz s) (st_opix s) (b :: st_rets s).

Definition p_init (be : bool) (c : p_cfg) : p_st :=
  Build_p_st be (fun _ => []) (fun _ => false) p_ep0 p_sel0 []
             (fun d => pc_conn (p_get c d)) (fun _ => false) (fun _ => false) (fun _ => false) false 0 [].

(* ================= EPoller ================= *)
Definition p_max_free : nat := 10.   (* EPoller::MAX_FREE_DESCRIPTORS *)

Definition p_ep_set_obj (e : p_ep) (id : nat) (o : p_ed) : p_ep :=
  Build_p_ep (p_upd (ep_obj e) id o) (ep_map e) (ep_orph e) (ep_free e) (ep_next e).

(* LookupOrCreateDescriptor: (state, EPollData id, new?) *)
Definition p_ep_lookup (e : p_ep) (fd : nat) : p_ep * nat * bool :=
  match ep_map e fd with
  | Some id => (e, id, false)
  | None =>
    match ep_free e with
    | id :: fr =>   (* m_free_descriptors.back(); pop_back() -- the object was Reset() *)
      (Build_p_ep (p_upd (ep_obj e) id p_ed0) (p_upd (ep_map e) fd (Some id)) (ep_orph e) fr (ep_next e),
       id, true)
    | [] =>
      let id := ep_next e in
      (Build_p_ep (p_upd (ep_obj e) id p_ed0) (p_upd (ep_map e) fd (Some id)) (ep_orph e) [] (S id),
       id, true)
    end
  end.

(* AddReadDescriptor, both overloads (chosen by the static type of the descriptor) *)
Definition p_ep_add_r (c : p_cfg) (e : p_ep) (d : nat) : p_ep * bool :=
  let '(e1, id, _) := p_ep_lookup e d in
  let o := ep_obj e1 id in
  if e_r o then (e1, false)
  else if pc_conn (p_get c d)
       (* AddEvent / UpdateEvent: if epoll_ctl fails the function returns false but the book-keeping stays *)
       then (p_ep_set_obj e1 id (Build_p_ed true (e_w o) (e_rd o) (e_wd o) (Some d) (pc_doc (p_get c d))), negb (p_refused c d))
       else (p_ep_set_obj e1 id (Build_p_ed true (e_w o) (Some d) (e_wd o) (e_cd o) (e_doc o)), negb (p_refused c d)).

Definition p_ep_add_w (e : p_ep) (d : nat) : p_ep * bool :=
  let '(e1, id, _) := p_ep_lookup e d in
  let o := ep_obj e1 id in
  if e_w o then (e1, false)
  else (p_ep_set_obj e1 id (Build_p_ed (e_r o) true (e_rd o) (Some d) (e_cd o) (e_doc o)), true).

(* RemoveDescriptor(fd, event, warn): wr = (event & EPOLLOUT) *)
Definition p_ep_remove (e : p_ep) (fd : nat) (wr : bool) : p_ep * bool :=
  match ep_map e fd with
  | None => (e, false)
  | Some id =>
    let o := ep_obj e id in
    let o' := if wr then Build_p_ed (e_r o) false (e_rd o) None (e_cd o) (e_doc o)
              else Build_p_ed false (e_w o) None (e_wd o) None (e_doc o) in
    if e_r o' || e_w o'
    then (p_ep_set_obj e id o', true)                      (* UpdateEvent *)
    else (Build_p_ep (p_upd (ep_obj e) id o') (p_upd (ep_map e) fd None)
                     (ep_orph e ++ [id]) (ep_free e) (ep_next e), true)
  end.

(* ================= SelectPoller ================= *)
(* InsertIntoDescriptorMap *)
Definition p_sel_insert (m : nat -> p_slot) (d : nat) : (nat -> p_slot) * bool :=
  match m d with
  | SPres => (m, false)
  | _ => (p_upd m d SPres, true)
  end.
(* RemoveFromDescriptorMap: true whenever the key exists (also for a tombstone) *)
Definition p_sel_remove (m : nat -> p_slot) (d : nat) : (nat -> p_slot) * bool :=
  match m d with
  | SAbs => (m, false)
  | _ => (p_upd m d STomb, true)
  end.

Definition p_sel_add_r (c : p_cfg) (s : p_sel) (d : nat) : p_sel * bool :=
  if pc_conn (p_get c d) then
    match s_c s d with
    | SPres => (s, false)
    | _ => (Build_p_sel (s_r s) (p_upd (s_c s) d SPres) (p_upd (s_cdoc s) d (pc_doc (p_get c d))) (s_w s), true)
    end
  else let '(m, r) := p_sel_insert (s_r s) d in (Build_p_sel m (s_c s) (s_cdoc s) (s_w s), r).
Definition p_sel_rem_r (c : p_cfg) (s : p_sel) (d : nat) : p_sel * bool :=
  if pc_conn (p_get c d) then
    match s_c s d with
    | SPres => (Build_p_sel (s_r s) (p_upd (s_c s) d STomb) (s_cdoc s) (s_w s), true)   (* ptr && *ptr *)
    | _ => (s, false)
    end
  else let '(m, r) := p_sel_remove (s_r s) d in (Build_p_sel m (s_c s) (s_cdoc s) (s_w s), r).
Definition p_sel_add_w (s : p_sel) (d : nat) : p_sel * bool :=
  let '(m, r) := p_sel_insert (s_w s) d in (Build_p_sel (s_r s) (s_c s) (s_cdoc s) m, r).
Definition p_sel_rem_w (s : p_sel) (d : nat) : p_sel * bool :=
  let '(m, r) := p_sel_remove (s_w s) d in (Build_p_sel (s_r s) (s_c s) (s_cdoc s) m, r).

(* ================= API dispatch + ghost registration ================= *)
Definition p_add_r (c : p_cfg) (s : p_st) (d : nat) : p_st * bool :=
  let s := p_set_regr s (p_upd (st_regr s) d true) in
  if st_be s then let '(e, r) := p_ep_add_r c (st_ep s) d in (p_set_ep s e, r)
  else let '(e, r) := p_sel_add_r c (st_sel s) d in (p_set_sel s e, r).
Definition p_add_w (c : p_cfg) (s : p_st) (d : nat) : p_st * bool :=
  let s := p_set_regw s (p_upd (st_regw s) d true) in
  if st_be s then let '(e, r) := p_ep_add_w (st_ep s) d in (p_set_ep s e, r)
  else let '(e, r) := p_sel_add_w (st_sel s) d in (p_set_sel s e, r).
Definition p_rem_r (c : p_cfg) (s : p_st) (d : nat) : p_st * bool :=
  let s := p_set_regr s (p_upd (st_regr s) d false) in
  if st_be s then let '(e, r) := p_ep_remove (st_ep s) d false in (p_set_ep s e, r)
  else let '(e, r) := p_sel_rem_r c (st_sel s) d in (p_set_sel s e, r).
Definition p_rem_w (c : p_cfg) (s : p_st) (d : nat) : p_st * bool :=
  let s := p_set_regw s (p_upd (st_regw s) d false) in
  if st_be s then let '(e, r) := p_ep_remove (st_ep s) d true in (p_set_ep s e, r)
  else let '(e, r) := p_sel_rem_w (st_sel s) d in (p_set_sel s e, r).

Definition p_act_target (a : p_act) : nat :=
  match a with PAAddR d | PAAddW d | PARemR d | PARemW d => d end.

(* one scripted action inside a callback; actions naming a deleted descriptor object are skipped
   (harness convention: the script cannot name an object that no longer exists) *)
Definition p_exec_act (c : p_cfg) (s : p_st) (a : p_act) : p_st :=
  if st_del s (p_act_target a) then s else
  match a with
  | PAAddR d => fst (p_add_r c s d)
  | PAAddW d => fst (p_add_w c s d)
  | PARemR d => fst (p_rem_r c s d)
  | PARemW d => fst (p_rem_w c s d)
  end.
Definition p_exec_acts (c : p_cfg) (s : p_st) (l : list p_act) : p_st := fold_left (p_exec_act c) l s.

(* a callback of descriptor d is run by the poller *)
Definition p_invoke (c : p_cfg) (s : p_st) (d : nat) (k : p_cbk) : p_st :=
  if st_del s d then p_set_haz s else
  let dc := p_get c d in
  match k with
  | PKRead =>
    let bs := firstn (pc_rk dc) (st_pend s d) in
    let s1 := p_set_pend s (p_upd (st_pend s) d (skipn (pc_rk dc) (st_pend s d))) in
    let s2 := p_set_log s1 (Build_p_ev (st_opix s) d PKRead bs (st_regr s d) :: st_log s1) in
    p_exec_acts c s2 (pc_rs dc)
  | PKWrite =>
    let s2 := p_set_log s (Build_p_ev (st_opix s) d PKWrite [] (st_regw s d) :: st_log s) in
    p_exec_acts c s2 (pc_ws dc)
  | PKClose =>
    (* GHOST: the close entry records the bytes still queued when the close is reported
       (data that will never be delivered); c16_close_once_after_data shows it is always empty *)
    let s2 := p_set_log s (Build_p_ev (st_opix s) d PKClose (st_pend s d) (st_regr s d) :: st_log s) in
    p_exec_acts c s2 (pc_cs dc)
  end.

(* the poller dereferences descriptor d (IsClosed / TransferOnClose / ReadDescriptor) *)
Definition p_touch (s : p_st) (d : nat) : p_st := if st_del s d then p_set_haz s else s.

(* ================= kernel model (explicit assumption, validated by the real-fd runs) ================= *)
Definition p_is_sock (c : p_cfg) (d : nat) : bool :=
  match pc_kind (p_get c d) with PSock => true | _ => false end.
Definition p_has_data (s : p_st) (d : nat) : bool := match st_pend s d with [] => false | _ => true end.
(* select(): readable = data queued or EOF/hang-up; writable = a socket (buffers never fill here) *)
Definition p_readable (s : p_st) (d : nat) : bool := p_has_data s d || st_closed s d.
Definition p_writable (c : p_cfg) (d : nat) : bool := p_is_sock c d.

Record p_flags := { f_in : bool; f_out : bool; f_hup : bool }.   (* f_hup = EPOLLHUP | EPOLLRDHUP *)
(* epoll (level triggered) for an fd registered with interest (e_r -> EPOLLIN|EPOLLRDHUP, e_w -> EPOLLOUT):
   pipe read end:   EPOLLIN iff data queued; EPOLLHUP (always reported) iff the writer closed
   socketpair end:  EPOLLIN iff data queued or peer closed; EPOLLRDHUP (if asked) and EPOLLHUP iff peer closed;
                    EPOLLOUT iff asked *)
Definition p_ep_flags (c : p_cfg) (s : p_st) (o : p_ed) (d : nat) : p_flags :=
  if p_refused c d then Build_p_flags false false false       (* never handed to the kernel: never reported *)
  else if p_is_sock c d
  then Build_p_flags (e_r o && p_readable s d) (e_w o) (st_closed s d)
  else Build_p_flags (e_r o && p_has_data s d) false (st_closed s d).
Definition p_flag_any (f : p_flags) : bool := f_in f || f_out f || f_hup f.

(* ================= EPoller::Poll ================= *)
(* close branch of CheckDescriptor for the connected descriptor d of EPollData id *)
Definition p_ep_close (c : p_cfg) (s : p_st) (id : nat) (d : nat) : p_st :=
  let s := p_touch s d in
  let had := st_onclose s d in                      (* TransferOnClose() *)
  let s := p_set_onclose s (p_upd (st_onclose s) d false) in
  let s := if had then p_invoke c s d PKClose else s in
  let o := ep_obj (st_ep s) id in                   (* re-read after the callback *)
  match e_cd o with
  | Some d2 =>
    if e_doc o then
      let s := p_touch s d2 in                        (* connected_descriptor->ReadDescriptor() *)
      let '(e, _) := p_ep_remove (st_ep s) d2 false in (* RemoveDescriptor(fd, READ_FLAGS, false) *)
      let s := p_set_ep s e in
      (* `delete epoll_data->connected_descriptor` reads the field again: RemoveDescriptor has just
         nulled it in this very object, so nothing is deleted (the descriptor object leaks) *)
      let s := match e_cd (ep_obj (st_ep s) id) with
               | Some d3 => p_set_del (p_touch s d3) (p_upd (st_del s) d3 true)
               | None => s end in
      let o := ep_obj (st_ep s) id in
      p_set_ep s (p_ep_set_obj (st_ep s) id (Build_p_ed (e_r o) (e_w o) (e_rd o) (e_wd o) None (e_doc o)))
    else s
  | None => s
  end.

(* EPoller::CheckDescriptor (with fix 02: data before close for connected descriptors, and fix 03: the
   read side handles the hang-up, a write registration sharing the fd is served by the EPOLLOUT check) *)
Definition p_ep_check (c : p_cfg) (s : p_st) (ev : nat * p_flags) : p_st :=
  let '(id, fl) := ev in
  let '(s, fl) :=
    if f_hup fl then
      let o := ep_obj (st_ep s) id in
      let keep_out := Build_p_flags false (f_out fl) false in     (* event->events &= EPOLLOUT *)
      let none := Build_p_flags false false false in
      match e_rd o, e_cd o, e_wd o with
      | Some d, _, _ => (p_invoke c s d PKRead, keep_out)
      | None, Some d, _ =>
        let s := p_touch s d in
        (if p_has_data s d                            (* fix 02: !IsClosed() *)
         then p_invoke c s d PKRead
         else p_ep_close c s id d, keep_out)
      | None, None, Some d => (p_invoke c s d PKWrite, none)      (* write side only: events = 0 *)
      | None, None, None => (s, none)                  (* OLA_FATAL log only *)
      end
    else (s, fl) in
  let s :=
    if f_in fl then
      let o := ep_obj (st_ep s) id in
      match e_rd o, e_cd o with
      | Some d, _ => p_invoke c s d PKRead
      | None, Some d => p_invoke c s d PKRead
      | None, None => s
      end
    else s in
  if f_out fl then
    match e_wd (ep_obj (st_ep s) id) with
    | Some d => p_invoke c s d PKWrite
    | None => s
    end
  else s.

(* epoll_wait: ready list over fds 0..n-1 (ascending, or descending when desc) *)
Fixpoint p_ep_ready (c : p_cfg) (s : p_st) (ds : list nat) : list (nat * p_flags) :=
  match ds with
  | [] => []
  | d :: tl =>
    match ep_map (st_ep s) d with
    | Some id =>
      let fl := p_ep_flags c s (ep_obj (st_ep s) id) d in
      if p_flag_any fl then (id, fl) :: p_ep_ready c s tl else p_ep_ready c s tl
    | None => p_ep_ready c s tl
    end
  end.

(* end of Poll: orphans are Reset() and recycled (or deleted when the free list is full) *)
Fixpoint p_ep_recycle (fr : list nat) (orph : list nat) : list nat :=
  match orph with
  | [] => fr
  | id :: tl => if length fr =? p_max_free then p_ep_recycle fr tl else p_ep_recycle (id :: fr) tl
  end.

(* epoll_wait(m_epoll_fd, events, MAX_EVENTS, ...) returns at most MAX_EVENTS ready descriptors: the batch is
   the first MAX_EVENTS entries of the kernel's ready list (any subset of that size is a legal answer; the harness
   fixes it to the lowest / highest fds); the others are served by a later Poll(), the timers in between *)
Definition p_max_events : nat := 10.  (* EPoller::MAX_EVENTS *)
Definition p_ep_batch (c : p_cfg) (s : p_st) (ds : list nat) : list (nat * p_flags) :=
  firstn p_max_events (p_ep_ready c s ds).

Definition p_ep_poll (c : p_cfg) (s : p_st) (desc : bool) : p_st :=
  let ds := if desc then rev (seq 0 (length c)) else seq 0 (length c) in
  match p_ep_batch c s ds with
  | [] => s                                          (* ready == 0: early return, no clean-up *)
  | evs =>
    let s := fold_left (p_ep_check c) evs s in
    let e := st_ep s in
    p_set_ep s (Build_p_ep (ep_obj e) (ep_map e) [] (p_ep_recycle (ep_free e) (ep_orph e)) (ep_next e))
  end.

(* ================= SelectPoller::Poll ================= *)
Definition p_slot_gc (x : p_slot) : p_slot := match x with STomb => SAbs | y => y end.
Definition p_is_pres (x : p_slot) : bool := match x with SPres => true | _ => false end.

(* AddDescriptorsToSet: erase tombstones; dereferences every present descriptor *)
Definition p_sel_prepare (c : p_cfg) (s : p_st) : p_st :=
  let t := st_sel s in
  let s := p_set_sel s (Build_p_sel (fun d => p_slot_gc (s_r t d)) (fun d => p_slot_gc (s_c t d)) (s_cdoc t)
                                    (fun d => p_slot_gc (s_w t d))) in
  fold_left (fun s d => if (p_is_pres (s_c (st_sel s) d) || p_is_pres (s_w (st_sel s) d)) && st_del s d
                        then p_set_haz s else s) (seq 0 (length c)) s.

(* std::map iteration: the slot of fd d is inspected when the iterator reaches d, so entries
   inserted by earlier callbacks of the same pass with a larger fd are visited too *)
Definition p_sel_read_step (c : p_cfg) (rset : nat -> bool) (s : p_st) (d : nat) : p_st :=
  if p_is_pres (s_r (st_sel s) d) && rset d then p_invoke c s d PKRead else s.

Definition p_sel_conn_step (c : p_cfg) (rset : nat -> bool) (s : p_st) (d : nat) : p_st :=
  if p_is_pres (s_c (st_sel s) d) then
    let s := p_touch s d in
    if rset d then
      if negb (p_has_data s d) then                  (* IsClosed() == (DataRemaining() == 0) *)
        let had := st_onclose s d in                 (* TransferOnClose() *)
        let s := p_set_onclose s (p_upd (st_onclose s) d false) in
        let doc := s_cdoc (st_sel s) d in
        let t := st_sel s in
        let s := p_set_sel s (Build_p_sel (s_r t) (p_upd (s_c t) d STomb) (s_cdoc t) (s_w t)) in
        let s := if had then p_invoke c s d PKClose else s in
        if doc then p_set_del (p_touch s d) (p_upd (st_del s) d true) else s
      else p_invoke c s d PKRead
    else s
  else s.

Definition p_sel_write_step (c : p_cfg) (wset : nat -> bool) (s : p_st) (d : nat) : p_st :=
  if p_is_pres (s_w (st_sel s) d) then
    let s := p_touch s d in
    if wset d then p_invoke c s d PKWrite else s
  else s.

Definition p_sel_poll (c : p_cfg) (s : p_st) : p_st :=
  let s := p_sel_prepare c s in
  let t := st_sel s in
  let rset := fun d => (p_is_pres (s_r t d) || p_is_pres (s_c t d)) && p_readable s d in
  let wset := fun d => p_is_pres (s_w t d) && p_writable c d in
  let ds := seq 0 (length c) in
  if existsb (fun d => rset d || wset d) ds then
    let s := fold_left (p_sel_read_step c rset) ds s in
    let s := fold_left (p_sel_conn_step c rset) ds s in
    fold_left (p_sel_write_step c wset) ds s
  else s.

(* ================= top-level operations ================= *)
Definition p_step (c : p_cfg) (s : p_st) (o : p_op) : p_st :=
  let s1 :=
    match o with
    | POAddR d => if st_del s d then s else let '(s', r) := p_add_r c s d in p_push_ret s' r
    | POAddW d => if st_del s d then s else let '(s', r) := p_add_w c s d in p_push_ret s' r
    | PORemR d => if st_del s d then s else let '(s', r) := p_rem_r c s d in p_push_ret s' r
    | PORemW d => if st_del s d then s else let '(s', r) := p_rem_w c s d in p_push_ret s' r
    | POWrite d bs =>
      if st_del s d || st_closed s d then s else p_set_pend s (p_upd (st_pend s) d (st_pend s d ++ bs))
    | POClosePeer d => if st_del s d then s else p_set_closed s (p_upd (st_closed s) d true)
    | POPoll desc => if st_be s then p_ep_poll c s desc else p_sel_poll c s
    end in
  p_set_opix s1 (S (st_opix s1)).

Definition p_run (be : bool) (c : p_cfg) (ops : list p_op) : p_st := fold_left (p_step c) ops (p_init be c).

(* chronological log / per-descriptor projection *)
Definition p_log (s : p_st) : list p_ev := rev (st_log s).
Definition p_proj (d : nat) (l : list p_ev) : list p_ev := filter (fun e => le_d e =? d) l.

(* bookkeeping sizes (non-SPEC observations) *)
Definition p_count {A} (f : A -> bool) (l : list A) : nat := length (filter f l).
Definition p_ep_mapsize (c : p_cfg) (s : p_st) : nat :=
  p_count (fun d => match ep_map (st_ep s) d with Some _ => true | None => false end) (seq 0 (length c)).
Definition p_sel_size (c : p_cfg) (m : nat -> p_slot) : nat :=
  p_count (fun d => match m d with SAbs => false | _ => true end) (seq 0 (length c)).
