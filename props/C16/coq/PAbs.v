(* C16 part (b): the single-descriptor abstract machine against which both poller models are compared.
   For a fixed configuration c and descriptor d it keeps only what concerns d: whether its read side /
   write side is registered, the bytes queued on it, whether the peer hung up, whether it still holds its
   on_close callback, the ghost registration flags and d's own callback log.  One Poll() is: the read part
   (read callback, or for a connected descriptor whose peer hung up and whose data is drained the close
   callback), then the write part, readiness being decided from the state at the start of the Poll. *)
Require Import List Arith Bool NArith Lia.
Import ListNotations.
From C16 Require Import PModel.

Record p_a := {
  a_r : bool; a_w : bool; a_pend : list N; a_closed : bool; a_on : bool;
  a_regr : bool; a_regw : bool;
  a_cut : bool;            (* ghost: d had no registration at all at some point since the current Poll started *)
  a_log : list p_ev        (* newest first *)
}.

Section Abs.
Variable c : p_cfg.
Variable d : nat.
Let dc := p_get c d.
Let conn := pc_conn dc.
Let sock := p_is_sock c d.

Definition l_act (a : p_a) (x : p_act) : p_a :=
  match x with
  | PAAddR _ => Build_p_a true (a_w a) (a_pend a) (a_closed a) (a_on a) true (a_regw a) (a_cut a) (a_log a)
  | PAAddW _ => Build_p_a (a_r a) true (a_pend a) (a_closed a) (a_on a) (a_regr a) true (a_cut a) (a_log a)
  | PARemR _ => Build_p_a false (a_w a) (a_pend a) (a_closed a) (a_on a) false (a_regw a)
                          (a_cut a || negb (a_w a)) (a_log a)
  | PARemW _ => Build_p_a (a_r a) false (a_pend a) (a_closed a) (a_on a) (a_regr a) false
                          (a_cut a || negb (a_r a)) (a_log a)
  end.
Definition l_acts (a : p_a) (l : list p_act) : p_a := fold_left l_act l a.

Definition l_set_log (a : p_a) (l : list p_ev) : p_a :=
  Build_p_a (a_r a) (a_w a) (a_pend a) (a_closed a) (a_on a) (a_regr a) (a_regw a) (a_cut a) l.
Definition l_set_pend (a : p_a) (p : list N) : p_a :=
  Build_p_a (a_r a) (a_w a) p (a_closed a) (a_on a) (a_regr a) (a_regw a) (a_cut a) (a_log a).
Definition l_set_on (a : p_a) (b : bool) : p_a :=
  Build_p_a (a_r a) (a_w a) (a_pend a) (a_closed a) b (a_regr a) (a_regw a) (a_cut a) (a_log a).
Definition l_set_closed (a : p_a) (b : bool) : p_a :=
  Build_p_a (a_r a) (a_w a) (a_pend a) b (a_on a) (a_regr a) (a_regw a) (a_cut a) (a_log a).
Definition l_set_cut (a : p_a) (b : bool) : p_a :=
  Build_p_a (a_r a) (a_w a) (a_pend a) (a_closed a) (a_on a) (a_regr a) (a_regw a) b (a_log a).

(* of a callback's script only the actions aimed at d itself concern d *)
Definition p_act_self (x : nat) (a : p_act) : bool := p_act_target a =? x.
Definition l_own (l : list p_act) : list p_act := filter (p_act_self d) l.

Definition l_invoke (n : nat) (a : p_a) (k : p_cbk) : p_a :=
  match k with
  | PKRead =>
    let bs := firstn (pc_rk dc) (a_pend a) in
    let a1 := l_set_pend a (skipn (pc_rk dc) (a_pend a)) in
    l_acts (l_set_log a1 (Build_p_ev n d PKRead bs (a_regr a) :: a_log a1)) (l_own (pc_rs dc))
  | PKWrite => l_acts (l_set_log a (Build_p_ev n d PKWrite [] (a_regw a) :: a_log a)) (l_own (pc_ws dc))
  | PKClose => l_acts (l_set_log a (Build_p_ev n d PKClose (a_pend a) (a_regr a) :: a_log a)) (l_own (pc_cs dc))
  end.

Definition l_has_data (a : p_a) : bool := match a_pend a with [] => false | _ => true end.
Definition l_close_path (n : nat) (a : p_a) : p_a :=
  let had := a_on a in
  let a1 := l_set_on a false in
  if had then l_invoke n a1 PKClose else a1.
Definition l_read_part (n : nat) (a : p_a) : p_a :=
  if a_closed a then
    if a_r a then
      if conn then (if l_has_data a then l_invoke n a PKRead else l_close_path n a)
      else l_invoke n a PKRead
    else a
  else if a_r a && l_has_data a then l_invoke n a PKRead else a.
Definition l_poll (n : nat) (a : p_a) : p_a :=
  let a0 := l_set_cut a false in
  let ww := a_w a0 && sock in
  let a1 := l_read_part n a0 in
  if ww && a_w a1 then l_invoke n a1 PKWrite else a1.

Definition l_step (n : nat) (a : p_a) (o : p_op) : p_a :=
  match o with
  | POAddR x => if x =? d then l_act a (PAAddR d) else a
  | POAddW x => if x =? d then l_act a (PAAddW d) else a
  | PORemR x => if x =? d then l_act a (PARemR d) else a
  | PORemW x => if x =? d then l_act a (PARemW d) else a
  | POWrite x bs => if x =? d then (if a_closed a then a else l_set_pend a (a_pend a ++ bs)) else a
  | POClosePeer x => if x =? d then l_set_closed a true else a
  | POPoll _ => l_poll n a
  end.
Fixpoint l_run (n : nat) (a : p_a) (ops : list p_op) : p_a :=
  match ops with [] => a | o :: r => l_run (S n) (l_step n a o) r end.
Definition l_init : p_a := Build_p_a false false [] false conn false false false [].

(* ---------- guards, as boolean functions of the configuration / the operations ---------- *)
Definition p_is_addw (a : p_act) : bool := match a with PAAddW _ => true | _ => false end.
Definition p_is_remw (a : p_act) : bool := match a with PARemW _ => true | _ => false end.
Definition p_is_remr (a : p_act) : bool := match a with PARemR _ => true | _ => false end.
(* G4: a read or close callback does not do all three of: remove its read side, remove its write side and
   add its write side again (that recycles the EPollData in the middle of its event) *)
Definition p_script_ok (l : list p_act) : bool :=
  negb (existsb p_is_addw l && existsb p_is_remw l && existsb p_is_remr l).
End Abs.

Definition p_dcfg_ok (c : p_cfg) (x : nat) : bool :=
  let dc := p_get c x in
  forallb (p_act_self x) (pc_rs dc ++ pc_ws dc ++ pc_cs dc) &&            (* G1 *)
  negb (pc_doc dc) &&                                                       (* G2 *)
  (p_is_sock c x || negb (existsb p_is_addw (pc_rs dc ++ pc_ws dc ++ pc_cs dc))) &&   (* G3 *)
  p_script_ok (pc_rs dc) && p_script_ok (pc_cs dc) &&                       (* G4 *)
  negb (p_refused c x).                                                     (* G5 *)
(* the guard of c16_backends_agree_per_descriptor, for ONE descriptor d: no OTHER descriptor's callback aims an
   action at d (d's own callbacks may add/remove anything); d is not delete_on_close; d's own scripts register d
   for writing only if d is a socket; the part of d's read / close script that is aimed at d satisfies G4 *)
Definition p_d_ok (c : p_cfg) (d : nat) : bool :=
  let dc := p_get c d in
  forallb (fun x => (x =? d) || forallb (fun a => negb (p_act_target a =? d))
                                   (pc_rs (p_get c x) ++ pc_ws (p_get c x) ++ pc_cs (p_get c x)))
          (seq 0 (length c)) &&
  negb (pc_doc dc) &&
  (p_is_sock c d || negb (existsb p_is_addw (filter (fun a => p_act_target a =? d) (pc_rs dc ++ pc_ws dc ++ pc_cs dc)))) &&
  p_script_ok (filter (fun a => p_act_target a =? d) (pc_rs dc)) &&
  p_script_ok (filter (fun a => p_act_target a =? d) (pc_cs dc)) &&
  negb (p_refused c d).                    (* G5: the epoll interface accepts d *)
Definition p_ops_ok_d (c : p_cfg) (d : nat) (ops : list p_op) : bool :=
  forallb (fun o => match o with POAddW x => negb (x =? d) || p_is_sock c d | _ => true end) ops.

Definition p_cfg_ok (c : p_cfg) : bool := forallb (p_dcfg_ok c) (seq 0 (length c)).
Definition p_op_ok3 (c : p_cfg) (o : p_op) : bool :=
  match o with
  | POAddW x => p_is_sock c x
  | _ => true
  end.
Definition p_ops_ok (c : p_cfg) (ops : list p_op) : bool := forallb (p_op_ok3 c) ops.
