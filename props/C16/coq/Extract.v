From Coq Require Extraction.
From Coq Require Import ExtrOcamlBasic.
From OlaBase Require Import Bytes.
From C16 Require Import Model PModel.
Extraction Language OCaml.
Extraction "model.ml" io_witness N.div_eucl init do_reg do_cancel do_advance do_exec next_in
  pool_alloc pool_pick step run
  p_run p_log p_proj p_ep_mapsize p_sel_size.
