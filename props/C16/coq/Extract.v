From Coq Require Extraction.
From Coq Require Import ExtrOcamlBasic.
From OlaBase Require Import Bytes.
From C16 Require Import Gen Model TimeVal PModel PAbs PIntr.
Extraction Language OCaml.
Extraction "model.ml" io_witness N.div_eucl init do_reg do_cancel do_advance do_exec next_in
  pool_alloc pool_pick step run ms_to_us poll_once poll_sleep runonce runonce_intr p_runx
  p_run p_log p_proj p_ep_mapsize p_sel_size p_cfg_ok p_ops_ok p_dcfg_ok p_script_ok p_d_ok p_ops_ok_d ieval tv_us
  EP_MAX_EVENTS EP_READ_FLAGS EP_MAX_FREE_DESCRIPTORS POLL_INTERVAL_SECOND POLL_INTERVAL_USECOND.
