(* C16 part (b): well-formedness of the EPoller table: the fd -> EPollData map is injective and a mapped
   EPollData is neither on the free list nor on the orphan list. *)
Require Import List Arith Bool NArith Lia Permutation.
Import ListNotations.
From C16 Require Import PModel PProofs.

Definition p_wf (e : p_ep) : Prop :=
  (forall d1 d2 id, ep_map e d1 = Some id -> ep_map e d2 = Some id -> d1 = d2) /\
  (forall d id, ep_map e d = Some id -> id < ep_next e /\ ~ In id (ep_free e ++ ep_orph e)) /\
  (forall id, In id (ep_free e ++ ep_orph e) -> id < ep_next e) /\
  NoDup (ep_free e ++ ep_orph e).

Lemma p_wf_lookup e fd e1 id nw : p_wf e -> p_ep_lookup e fd = (e1, id, nw) ->
  p_wf e1 /\ ep_map e1 fd = Some id /\
  (forall fd', fd' <> fd -> ep_map e1 fd' = ep_map e fd') /\
  (forall id', id' <> id -> ep_obj e1 id' = ep_obj e id') /\
  (forall d, d <> fd -> ep_map e d <> Some id).
Proof.
  intros (W1 & W2 & W3 & W4). unfold p_ep_lookup.
  destruct (ep_map e fd) as [id0|] eqn:M.
  - intros E; inversion E; subst. split; [|split; [|split; [|split]]]; auto.
    + unfold p_wf; auto.
    + intros d N X. apply N. eapply W1; eauto.
  - assert (UPD : forall i, (forall d, ep_map e d <> Some i) ->
        forall d1 d2 id0, p_upd (ep_map e) fd (Some i) d1 = Some id0 -> p_upd (ep_map e) fd (Some i) d2 = Some id0 -> d1 = d2).
    { intros i Ni d1 d2 id0. unfold p_upd.
      destruct (d1 =? fd) eqn:E1; destruct (d2 =? fd) eqn:E2; intros A B.
      - apply Nat.eqb_eq in E1, E2. congruence.
      - inversion A; subst. exfalso. eapply Ni; eauto.
      - inversion B; subst. exfalso. eapply Ni; eauto.
      - eapply W1; eauto. }
    assert (FR : forall i fd', fd' <> fd -> p_upd (ep_map e) fd (Some i) fd' = ep_map e fd').
    { intros i fd' N. unfold p_upd. apply Nat.eqb_neq in N. rewrite N. reflexivity. }
    assert (FO : forall i id', id' <> i -> p_upd (ep_obj e) i p_ed0 id' = ep_obj e id').
    { intros i id' N. unfold p_upd. apply Nat.eqb_neq in N. rewrite N. reflexivity. }
    destruct (ep_free e) as [|i fr] eqn:F; intros E; inversion E; subst; simpl.
    + (* fresh id = ep_next *)
      assert (Ni : forall d, ep_map e d <> Some (ep_next e)).
      { intros d X. apply W2 in X. lia. }
      split; [|split; [|split; [|split]]]; simpl; auto.
      * unfold p_wf; simpl. split; [|split; [|split]].
        -- apply UPD; auto.
        -- intros d id0. unfold p_upd. destruct (d =? fd); intros A.
           ++ inversion A; subst. split. lia. intros X. try rewrite F in W3. apply W3 in X. lia.
           ++ apply W2 in A. try rewrite F in A. split. lia. tauto.
        -- intros i Hi. try rewrite F in W3. apply W3 in Hi. lia.
        -- try rewrite F in W4. exact W4.
      * unfold p_upd. rewrite Nat.eqb_refl. reflexivity.
    + (* recycled id from the free list *)
      assert (Ii : In id (ep_free e ++ ep_orph e)) by (try rewrite F; simpl; auto).
      assert (Ni : forall d, ep_map e d <> Some id).
      { intros d X. apply W2 in X. destruct X as [_ X]. apply X. simpl. auto. }
      try rewrite F in W4. simpl in W4. inversion W4; subst.
      split; [|split; [|split; [|split]]]; simpl; auto.
      * unfold p_wf; simpl. split; [|split; [|split]].
        -- apply UPD; auto.
        -- intros d id0. unfold p_upd. destruct (d =? fd); intros A.
           ++ inversion A; subst. split. apply W3; simpl; auto. exact H1.
           ++ apply W2 in A. try rewrite F in A. simpl in A. split; tauto.
        -- intros j Hj. apply W3. simpl. auto.
        -- exact H2.
      * unfold p_upd. rewrite Nat.eqb_refl. reflexivity.
Qed.

Lemma p_wf_set_obj e id o : p_wf e -> p_wf (p_ep_set_obj e id o).
Proof. intros W. exact W. Qed.

Lemma p_wf_remove e fd wr : p_wf e -> p_wf (fst (p_ep_remove e fd wr)).
Proof.
  intros W. unfold p_ep_remove. destruct (ep_map e fd) as [id|] eqn:M; auto.
  match goal with |- p_wf (fst (if ?b then _ else _)) => destruct b end; auto.
  destruct W as (W1 & W2 & W3 & W4). simpl. unfold p_wf; simpl. split; [|split; [|split]].
  - intros d1 d2 id0. unfold p_upd. destruct (d1 =? fd); destruct (d2 =? fd); try discriminate. apply W1.
  - intros d id0. unfold p_upd. destruct (d =? fd) eqn:E; try discriminate. intros A. split.
    + apply W2 in A. tauto.
    + intros X. rewrite app_assoc in X. apply in_app_or in X. destruct X as [X|[X|[]]].
      * apply W2 in A. tauto.
      * subst id0. apply Nat.eqb_neq in E. apply E. eapply W1; eauto.
  - intros i Hi. rewrite app_assoc in Hi. apply in_app_or in Hi. destruct Hi as [X|[X|[]]]. auto.
    subst i. apply W2 in M. tauto.
  - rewrite app_assoc. eapply Permutation_NoDup. apply Permutation_cons_append.
    constructor; auto. apply W2 in M. tauto.
Qed.
Lemma p_remove_other e fd wr : p_wf e ->
  forall d id, d <> fd -> ep_map e d = Some id ->
    ep_map (fst (p_ep_remove e fd wr)) d = Some id /\ ep_obj (fst (p_ep_remove e fd wr)) id = ep_obj e id.
Proof.
  intros (W1 & _) d id N M. unfold p_ep_remove. destruct (ep_map e fd) as [id0|] eqn:M0; auto.
  assert (id <> id0) by (intro; subst; apply N; eapply W1; eauto).
  match goal with |- context [if ?b then _ else _] => destruct b end; simpl; unfold p_upd;
    apply Nat.eqb_neq in N; apply Nat.eqb_neq in H; rewrite ?N, ?H; auto.
Qed.

Lemma p_recycle_in fr orph : forall x, In x (p_ep_recycle fr orph) -> In x fr \/ In x orph.
Proof.
  revert fr. induction orph; simpl; intros fr x H; auto.
  destruct (length fr =? p_max_free).
  - apply IHorph in H. tauto.
  - apply IHorph in H. simpl in H. tauto.
Qed.
Lemma p_recycle_nodup orph : forall fr, NoDup (fr ++ orph) -> NoDup (p_ep_recycle fr orph).
Proof.
  induction orph; simpl; intros fr H. rewrite app_nil_r in H; auto.
  destruct (length fr =? p_max_free).
  - apply IHorph. apply NoDup_remove_1 in H. exact H.
  - apply IHorph. simpl. eapply Permutation_NoDup; [|exact H]. apply Permutation_sym, Permutation_middle.
Qed.

(* ---- states ---- *)
Definition p_wfs (s : p_st) : Prop := st_be s = true /\ p_wf (st_ep s).

Lemma p_wfs_exec_act c s a : p_wfs s -> p_wfs (p_exec_act c s a).
Proof.
  intros (B & W). unfold p_exec_act. destruct (st_del s (p_act_target a)). split; auto.
  destruct a; simpl.
  - unfold p_add_r. simpl. rewrite B. unfold p_ep_add_r.
    destruct (p_ep_lookup (st_ep s) d) as [[e1 id] nw] eqn:L. destruct (p_wf_lookup _ _ _ _ _ W L) as (W1 & _).
    destruct (e_r (ep_obj e1 id)); [|destruct (pc_conn (p_get c d))]; split; simpl; auto.
  - unfold p_add_w. simpl. rewrite B. unfold p_ep_add_w.
    destruct (p_ep_lookup (st_ep s) d) as [[e1 id] nw] eqn:L. destruct (p_wf_lookup _ _ _ _ _ W L) as (W1 & _).
    destruct (e_w (ep_obj e1 id)); split; simpl; auto.
  - unfold p_rem_r. simpl. rewrite B. pose proof (p_wf_remove (st_ep s) d false W) as X.
    destruct (p_ep_remove (st_ep s) d false). split; simpl; auto.
  - unfold p_rem_w. simpl. rewrite B. pose proof (p_wf_remove (st_ep s) d true W) as X.
    destruct (p_ep_remove (st_ep s) d true). split; simpl; auto.
Qed.
Lemma p_wfs_exec_acts c l : forall s, p_wfs s -> p_wfs (p_exec_acts c s l).
Proof. unfold p_exec_acts. induction l; simpl; intros; auto. apply IHl. apply p_wfs_exec_act; auto. Qed.
Lemma p_wfs_invoke c s d k : p_wfs s -> p_wfs (p_invoke c s d k).
Proof.
  intros W. unfold p_invoke. destruct (st_del s d). exact W.
  destruct k; apply p_wfs_exec_acts; exact W.
Qed.
Lemma p_wfs_touch s d : p_wfs s -> p_wfs (p_touch s d).
Proof. intros W. unfold p_touch. destruct (st_del s d); exact W. Qed.

Lemma p_wfs_ep_close c s id d : p_wfs s -> p_wfs (p_ep_close c s id d).
Proof.
  intros W. unfold p_ep_close.
  pose proof (p_wfs_touch s d W) as W0. set (s0 := p_touch s d) in *. clearbody s0.
  set (s1 := p_set_onclose s0 _).
  assert (W2 : p_wfs (if st_onclose s0 d then p_invoke c s1 d PKClose else s1)).
  { destruct (st_onclose s0 d). apply p_wfs_invoke. exact W0. exact W0. }
  set (s2 := if st_onclose s0 d then p_invoke c s1 d PKClose else s1) in *. clearbody s2.
  destruct (e_cd (ep_obj (st_ep s2) id)) as [d2|]; auto.
  destruct (e_doc (ep_obj (st_ep s2) id)); auto.
  pose proof (p_wfs_touch s2 d2 W2) as W3. set (s3 := p_touch s2 d2) in *. clearbody s3.
  destruct W3 as (B3 & W3).
  pose proof (p_wf_remove (st_ep s3) d2 false W3) as X.
  destruct (p_ep_remove (st_ep s3) d2 false) as [e r]. simpl in X. simpl.
  destruct (e_cd (ep_obj e id)) as [d3|]; simpl.
  - unfold p_touch. simpl. destruct (st_del s3 d3); split; simpl; auto.
  - split; simpl; auto.
Qed.

Lemma p_wfs_ep_check c s ev : p_wfs s -> p_wfs (p_ep_check c s ev).
Proof.
  intros W. unfold p_ep_check. destruct ev as [id fl].
  set (sf := if f_hup fl then _ else _).
  assert (W1 : p_wfs (fst sf)).
  { unfold sf. destruct (f_hup fl); [|exact W].
    destruct (e_rd (ep_obj (st_ep s) id)). simpl. apply p_wfs_invoke; auto.
    destruct (e_cd (ep_obj (st_ep s) id)).
    - simpl. pose proof (p_wfs_touch s n W). destruct (p_has_data (p_touch s n) n).
      apply p_wfs_invoke; auto. apply p_wfs_ep_close; auto.
    - destruct (e_wd (ep_obj (st_ep s) id)); simpl; [|exact W]. apply p_wfs_invoke; auto. }
  destruct sf as [s1 fl1]. simpl in W1.
  assert (W2 : p_wfs (if f_in fl1
                      then match e_rd (ep_obj (st_ep s1) id), e_cd (ep_obj (st_ep s1) id) with
                           | Some d, _ => p_invoke c s1 d PKRead
                           | None, Some d => p_invoke c s1 d PKRead
                           | None, None => s1 end
                      else s1)).
  { destruct (f_in fl1); [|exact W1].
    destruct (e_rd (ep_obj (st_ep s1) id)). apply p_wfs_invoke; auto.
    destruct (e_cd (ep_obj (st_ep s1) id)); [|exact W1]. apply p_wfs_invoke; auto. }
  match goal with |- p_wfs (if f_out fl1 then match e_wd (ep_obj (st_ep ?s2) id) with _ => _ end else _) =>
    set (s2v := s2) in * end.
  destruct (f_out fl1); [|exact W2].
  destruct (e_wd (ep_obj (st_ep s2v) id)); [|exact W2]. apply p_wfs_invoke; auto.
Qed.

Lemma p_wfs_fold_check c l : forall s, p_wfs s -> p_wfs (fold_left (p_ep_check c) l s).
Proof. induction l; simpl; intros; auto. apply IHl. apply p_wfs_ep_check; auto. Qed.

Lemma p_wfs_ep_poll c s desc : p_wfs s -> p_wfs (p_ep_poll c s desc).
Proof.
  intros W. unfold p_ep_poll.
  destruct (p_ep_batch c s (if desc then rev (seq 0 (length c)) else seq 0 (length c))); [exact W|].
  pose proof (p_wfs_fold_check c (p :: l) s W) as (B & W1 & W2 & W3 & W4).
  set (s1 := fold_left (p_ep_check c) (p :: l) s) in *. clearbody s1.
  split; simpl; auto. unfold p_wf; simpl. split; [|split; [|split]]; auto.
  - intros d id A. split. apply W2 in A. tauto.
    rewrite app_nil_r. intros X. apply p_recycle_in in X. apply W2 in A. apply A. apply in_or_app. tauto.
  - intros i Hi. rewrite app_nil_r in Hi. apply p_recycle_in in Hi. apply W3. apply in_or_app. tauto.
  - rewrite app_nil_r. apply p_recycle_nodup. exact W4.
Qed.

Lemma p_wfs_step c s o : p_wfs s -> p_wfs (p_step c s o).
Proof.
  intros W. unfold p_step. cbv zeta.
  match goal with |- p_wfs (p_set_opix ?x _) => assert (X : p_wfs x) end.
  { destruct o.
    - destruct (st_del s d) eqn:D; auto. pose proof (p_wfs_exec_act c s (PAAddR d) W) as X.
      unfold p_exec_act in X. simpl in X. rewrite D in X. destruct (p_add_r c s d). exact X.
    - destruct (st_del s d) eqn:D; auto. pose proof (p_wfs_exec_act c s (PAAddW d) W) as X.
      unfold p_exec_act in X. simpl in X. rewrite D in X. destruct (p_add_w c s d). exact X.
    - destruct (st_del s d) eqn:D; auto. pose proof (p_wfs_exec_act c s (PARemR d) W) as X.
      unfold p_exec_act in X. simpl in X. rewrite D in X. destruct (p_rem_r c s d). exact X.
    - destruct (st_del s d) eqn:D; auto. pose proof (p_wfs_exec_act c s (PARemW d) W) as X.
      unfold p_exec_act in X. simpl in X. rewrite D in X. destruct (p_rem_w c s d). exact X.
    - destruct (st_del s d || st_closed s d); exact W.
    - destruct (st_del s d); exact W.
    - destruct W as (B & W). rewrite B. apply p_wfs_ep_poll. split; auto. }
  exact X.
Qed.

Lemma p_wfs_run c ops : p_wfs (p_run true c ops).
Proof.
  unfold p_run. assert (W : p_wfs (p_init true c)).
  { split; simpl; auto. unfold p_wf; simpl. split; [|split; [|split]]; try (intros; discriminate); try (intros ? []). constructor. }
  revert W. generalize (p_init true c). induction ops; simpl; intros; auto. apply IHops. apply p_wfs_step; auto.
Qed.
