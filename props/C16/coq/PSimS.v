(* C16 part (b): the SelectPoller model refines the single-descriptor abstract machine (per descriptor d). *)
Require Import List Arith Bool NArith Lia.
Import ListNotations.
From C16 Require Import PModel PProofs PClose PAbs.

Arguments l_invoke : simpl never.
Arguments l_close_path : simpl never.
Arguments l_read_part : simpl never.
Arguments l_poll : simpl never.
Arguments p_invoke : simpl never.

Lemma p_proj_cons d e l : p_proj d (e :: l) = if le_d e =? d then e :: p_proj d l else p_proj d l.
Proof. reflexivity. Qed.

Section SimS.
Variable c : p_cfg.
Variable d : nat.
Hypothesis G1 : forall x a, x <> d -> In a (pc_rs (p_get c x) ++ pc_ws (p_get c x) ++ pc_cs (p_get c x)) -> p_act_target a <> d.
Hypothesis G2d : pc_doc (p_get c d) = false.
Local Notation conn := (pc_conn (p_get c d)).
Local Notation sock := (p_is_sock c d).

Definition p_dormant (a : p_a) : bool :=
  conn && a_closed a && negb (l_has_data a) && negb (a_on a).

Record p_rs (s : p_st) (a : p_a) : Prop := {
  rs_be : st_be s = false;
  rs_pend : st_pend s d = a_pend a;
  rs_closed : st_closed s d = a_closed a;
  rs_on : st_onclose s d = a_on a;
  rs_regr : st_regr s d = a_regr a;
  rs_regw : st_regw s d = a_regw a;
  rs_del : st_del s d = false;
  rs_log : p_proj d (st_log s) = a_log a;
  rs_w : p_is_pres (s_w (st_sel s) d) = a_w a;
  rs_r : p_is_pres (s_r (st_sel s) d) = (a_r a && negb conn);
  rs_c : if conn then (p_dormant a = true \/ p_is_pres (s_c (st_sel s) d) = a_r a)
         else p_is_pres (s_c (st_sel s) d) = false;
  rs_cdoc : p_is_pres (s_c (st_sel s) d) = true -> s_cdoc (st_sel s) d = false
}.

Ltac pu x y := unfold p_upd; let E := fresh "E" in
  destruct (x =? y) eqn:E; [apply Nat.eqb_eq in E; try congruence | apply Nat.eqb_neq in E; try congruence].

(* ---------- frames: anything aimed at another descriptor ---------- *)
Lemma p_rs_exec_act_other s a x : p_act_target x <> d -> p_rs s a -> p_rs (p_exec_act c s x) a.
Proof.
  intros N R. unfold p_exec_act. destruct (st_del s (p_act_target x)); auto.
  destruct R. destruct x; simpl in N.
  - unfold p_add_r. simpl. rewrite rs_be0. unfold p_sel_add_r, p_sel_insert.
    destruct (pc_conn (p_get c d0)).
    + destruct (s_c (st_sel s) d0); simpl; constructor; simpl; auto; unfold p_upd;
        destruct (d =? d0) eqn:E; auto; apply Nat.eqb_eq in E; congruence.
    + destruct (s_r (st_sel s) d0); simpl; constructor; simpl; auto; unfold p_upd;
        destruct (d =? d0) eqn:E; auto; apply Nat.eqb_eq in E; congruence.
  - unfold p_add_w. simpl. rewrite rs_be0. unfold p_sel_add_w, p_sel_insert.
    destruct (s_w (st_sel s) d0); simpl; constructor; simpl; auto; unfold p_upd;
      destruct (d =? d0) eqn:E; auto; apply Nat.eqb_eq in E; congruence.
  - unfold p_rem_r. simpl. rewrite rs_be0. unfold p_sel_rem_r, p_sel_remove.
    destruct (pc_conn (p_get c d0)).
    + destruct (s_c (st_sel s) d0); simpl; constructor; simpl; auto; unfold p_upd;
        destruct (d =? d0) eqn:E; auto; apply Nat.eqb_eq in E; congruence.
    + destruct (s_r (st_sel s) d0); simpl; constructor; simpl; auto; unfold p_upd;
        destruct (d =? d0) eqn:E; auto; apply Nat.eqb_eq in E; congruence.
  - unfold p_rem_w. simpl. rewrite rs_be0. unfold p_sel_rem_w, p_sel_remove.
    destruct (s_w (st_sel s) d0); simpl; constructor; simpl; auto; unfold p_upd;
      destruct (d =? d0) eqn:E; auto; apply Nat.eqb_eq in E; congruence.
Qed.
Lemma p_rs_exec_acts_other l : (forall x, In x l -> p_act_target x <> d) ->
  forall s a, p_rs s a -> p_rs (p_exec_acts c s l) a.
Proof.
  unfold p_exec_acts. induction l as [|y l IH]; simpl; intros N s a R; auto.
  apply IH. intros; apply N; auto. apply p_rs_exec_act_other; auto.
Qed.

Lemma p_rs_invoke_other s a x k : x <> d -> p_rs s a -> p_rs (p_invoke c s x k) a.
Proof.
  intros N R. unfold p_invoke. destruct (st_del s x).
  - destruct R; constructor; auto.
  - assert (Nd : (x =? d) = false) by (apply Nat.eqb_neq; auto).
    assert (Nd' : (d =? x) = false) by (apply Nat.eqb_neq; auto).
    assert (T : forall l, (forall y, In y l -> In y (pc_rs (p_get c x) ++ pc_ws (p_get c x) ++ pc_cs (p_get c x))) ->
                          forall y, In y l -> p_act_target y <> d).
    { intros l H y Hy. apply (G1 x y N (H y Hy)). }
    destruct k.
    + apply p_rs_exec_acts_other. apply T. intros; apply in_or_app; auto.
      destruct R; constructor; simpl; auto.
      * unfold p_upd. rewrite Nd'. auto.
      * rewrite Nd. exact rs_log0.
    + apply p_rs_exec_acts_other. apply T. intros; apply in_or_app; right; apply in_or_app; auto.
      destruct R; constructor; simpl; auto. rewrite Nd. exact rs_log0.
    + apply p_rs_exec_acts_other. apply T. intros; apply in_or_app; right; apply in_or_app; auto.
      destruct R; constructor; simpl; auto. rewrite Nd. exact rs_log0.
Qed.
Lemma p_rs_touch s a x : p_rs s a -> p_rs (p_touch s x) a.
Proof. intros R. unfold p_touch. destruct (st_del s x); auto. destruct R; constructor; auto. Qed.

Lemma p_rs_read_step_other rset s a x : x <> d -> p_rs s a -> p_rs (p_sel_read_step c rset s x) a.
Proof. intros N R. unfold p_sel_read_step. destruct (_ && _); auto. apply p_rs_invoke_other; auto. Qed.
Lemma p_rs_write_step_other wset s a x : x <> d -> p_rs s a -> p_rs (p_sel_write_step c wset s x) a.
Proof.
  intros N R. unfold p_sel_write_step. destruct (p_is_pres _); auto.
  destruct (wset x); [|apply p_rs_touch; auto]. apply p_rs_invoke_other; auto. apply p_rs_touch; auto.
Qed.
Lemma p_rs_conn_step_other rset s a x : x <> d -> p_rs s a -> p_rs (p_sel_conn_step c rset s x) a.
Proof.
  intros N R. unfold p_sel_conn_step. destruct (p_is_pres _); auto.
  pose proof (p_rs_touch s a x R) as R0. set (s0 := p_touch s x) in *. clearbody s0.
  destruct (rset x); auto.
  destruct (negb (p_has_data s0 x)); [|apply p_rs_invoke_other; auto].
  assert (Nd' : (d =? x) = false) by (apply Nat.eqb_neq; auto).
  set (s2 := p_set_sel _ _).
  assert (R2 : p_rs s2 a).
  { destruct R0. unfold s2. constructor; simpl; auto; unfold p_upd; rewrite ?Nd'; auto. }
  set (s3 := if st_onclose s0 x then p_invoke c s2 x PKClose else s2).
  assert (R3 : p_rs s3 a).
  { unfold s3. destruct (st_onclose s0 x); auto. apply p_rs_invoke_other; auto. }
  clearbody s3. destruct (s_cdoc _ x); auto.
  pose proof (p_rs_touch s3 a x R3) as R4. destruct R4. constructor; simpl; auto.
  unfold p_upd. rewrite Nd'. apply (rs_del _ _ R3).
Qed.

(* ---------- d's own actions ---------- *)
Lemma p_upd_same {A} (f : nat -> A) k v : p_upd f k v k = v.
Proof. unfold p_upd. rewrite Nat.eqb_refl. reflexivity. Qed.

Lemma p_rs_act_self s a x : p_act_target x = d -> p_rs s a -> p_rs (p_exec_act c s x) (l_act a x).
Proof.
  intros T R. unfold p_exec_act. rewrite T. rewrite (rs_del _ _ R).
  destruct R. unfold p_dormant, l_has_data in *.
  Ltac fin CN SC := constructor; simpl; unfold p_dormant, l_has_data; simpl;
     rewrite ?CN, ?p_upd_same, ?SC in *; simpl in *; rewrite ?andb_false_r, ?andb_true_r in *; auto.
  destruct x; simpl in T; subst d0; simpl.
  - (* AddR *)
    unfold p_add_r. simpl. rewrite rs_be0. unfold p_sel_add_r, p_sel_insert.
    destruct conn eqn:CN.
    + destruct (s_c (st_sel s) d) eqn:SC; simpl; fin CN SC;
        try (destruct rs_c0 as [X|X]; [left; exact X|right; congruence]);
        try (right; reflexivity); try (intros; apply G2d).
    + destruct (s_r (st_sel s) d) eqn:SR; simpl; fin CN SR.
  - (* AddW *)
    unfold p_add_w. simpl. rewrite rs_be0. unfold p_sel_add_w, p_sel_insert.
    destruct conn eqn:CN; destruct (s_w (st_sel s) d) eqn:SW; simpl; fin CN SW.
  - (* RemR *)
    unfold p_rem_r. simpl. rewrite rs_be0. unfold p_sel_rem_r, p_sel_remove.
    destruct conn eqn:CN.
    + destruct (s_c (st_sel s) d) eqn:SC; simpl; fin CN SC;
        try (destruct rs_c0 as [X|X]; [left; exact X|right; congruence]);
        try (right; reflexivity); try discriminate.
    + destruct (s_r (st_sel s) d) eqn:SR; simpl; fin CN SR; try congruence.
  - (* RemW *)
    unfold p_rem_w. simpl. rewrite rs_be0. unfold p_sel_rem_w, p_sel_remove.
    destruct conn eqn:CN; destruct (s_w (st_sel s) d) eqn:SW; simpl; fin CN SW; try congruence.
Qed.

Lemma p_rs_acts_mixed l : forall s a, p_rs s a -> p_rs (p_exec_acts c s l) (l_acts a (l_own d l)).
Proof.
  unfold p_exec_acts, l_acts, l_own. induction l as [|y l IH]; simpl; intros s a R; auto.
  unfold p_act_self at 1. destruct (p_act_target y =? d) eqn:E.
  - apply Nat.eqb_eq in E. simpl. apply IH. apply p_rs_act_self; auto.
  - apply Nat.eqb_neq in E. apply IH. apply p_rs_exec_act_other; auto.
Qed.

Lemma p_rs_ext s a a' :
  a_r a' = a_r a -> a_w a' = a_w a -> a_pend a' = a_pend a -> a_closed a' = a_closed a -> a_on a' = a_on a ->
  a_regr a' = a_regr a -> a_regw a' = a_regw a -> a_log a' = a_log a -> p_rs s a -> p_rs s a'.
Proof.
  intros E1 E2 E3 E4 E5 E6 E7 E8 R. destruct R. unfold p_dormant, l_has_data in *.
  constructor; unfold p_dormant, l_has_data; rewrite ?E1, ?E2, ?E3, ?E4, ?E5, ?E6, ?E7, ?E8; auto.
Qed.

Lemma p_rs_invoke_self s a k n : st_opix s = n -> p_rs s a -> p_rs (p_invoke c s d k) (l_invoke c d n a k).
Proof.
  intros O R. unfold p_invoke. rewrite (rs_del _ _ R).
  unfold l_invoke. destruct k.
  - apply p_rs_acts_mixed. destruct R. unfold p_dormant, l_has_data in *.
    constructor; simpl; unfold p_dormant, l_has_data; simpl; rewrite ?p_upd_same, ?Nat.eqb_refl; auto;
      try congruence.
    destruct conn; auto. destruct rs_c0 as [X|X]; [left|right; auto].
      destruct (a_pend a); [|rewrite !andb_false_r in X; simpl in X; rewrite ?andb_false_r in X; discriminate].
      rewrite skipn_nil. exact X.
  - apply p_rs_acts_mixed. destruct R. unfold p_dormant, l_has_data in *.
    constructor; simpl; unfold p_dormant, l_has_data; simpl; rewrite ?Nat.eqb_refl; auto.
    rewrite O, rs_regw0, <- rs_log0. reflexivity.
  - apply p_rs_acts_mixed. destruct R. unfold p_dormant, l_has_data in *.
    constructor; simpl; unfold p_dormant, l_has_data; simpl; rewrite ?Nat.eqb_refl; auto.
    rewrite O, rs_pend0, rs_regr0, <- rs_log0. reflexivity.
Qed.

Lemma p_opix_exec_acts l : forall s, st_opix (p_exec_acts c s l) = st_opix s.
Proof.
  unfold p_exec_acts. induction l as [|y l IH]; simpl; intros; auto. rewrite IH.
  unfold p_exec_act. destruct (st_del s (p_act_target y)); auto.
  destruct y; simpl.
  - unfold p_add_r. simpl. destruct (st_be s). destruct (p_ep_add_r c (st_ep s) d0); auto. destruct (p_sel_add_r c (st_sel s) d0); auto.
  - unfold p_add_w. simpl. destruct (st_be s). destruct (p_ep_add_w (st_ep s) d0); auto. destruct (p_sel_add_w (st_sel s) d0); auto.
  - unfold p_rem_r. simpl. destruct (st_be s). destruct (p_ep_remove (st_ep s) d0 false); auto. destruct (p_sel_rem_r c (st_sel s) d0); auto.
  - unfold p_rem_w. simpl. destruct (st_be s). destruct (p_ep_remove (st_ep s) d0 true); auto. destruct (p_sel_rem_w (st_sel s) d0); auto.
Qed.
Lemma p_opix_invoke s x k : st_opix (p_invoke c s x k) = st_opix s.
Proof. unfold p_invoke. destruct (st_del s x); auto. destruct k; rewrite p_opix_exec_acts; reflexivity. Qed.

(* ---------- d's own steps in the three passes of CheckDescriptors ---------- *)
Definition p_rdy (a : p_a) : bool := a_r a && (l_has_data a || a_closed a).

Lemma p_rs_read_step_self rset s a n : st_opix s = n -> p_rs s a ->
  (conn = false -> rset d = p_rdy a) ->
  p_rs (p_sel_read_step c rset s d) (if negb conn then l_read_part c d n a else a).
Proof.
  intros O R Hr. unfold p_sel_read_step. rewrite (rs_r _ _ R).
  destruct conn eqn:CN; simpl. rewrite andb_false_r. simpl. exact R.
  rewrite andb_true_r. rewrite (Hr eq_refl). unfold p_rdy, l_read_part. rewrite CN.
  destruct (a_r a); simpl; [|destruct (a_closed a); exact R].
  destruct (a_closed a); simpl.
  - rewrite orb_true_r. apply p_rs_invoke_self; auto.
  - rewrite orb_false_r. destruct (l_has_data a). apply p_rs_invoke_self; auto. exact R.
Qed.

Lemma p_rs_close_path_self s a n : st_opix s = n -> p_rs s a -> conn = true -> l_has_data a = false ->
  a_closed a = true ->
  forall t', t' = Build_p_sel (s_r (st_sel s)) (p_upd (s_c (st_sel s)) d STomb) (s_cdoc (st_sel s)) (s_w (st_sel s)) ->
  p_rs (let s1 := p_set_onclose s (p_upd (st_onclose s) d false) in
        let s2 := p_set_sel s1 t' in
        if st_onclose s d then p_invoke c s2 d PKClose else s2)
       (l_close_path c d n a).
Proof.
  intros O R CN HD CL t' ->. unfold l_close_path. rewrite (rs_on _ _ R).
  set (a1 := l_set_on a false).
  assert (DM : p_dormant a1 = true).
  { unfold p_dormant, a1, l_has_data in *. simpl. rewrite CN, CL. simpl. rewrite HD. reflexivity. }
  assert (R2 : p_rs (p_set_sel (p_set_onclose s (p_upd (st_onclose s) d false))
                     (Build_p_sel (s_r (st_sel s)) (p_upd (s_c (st_sel s)) d STomb) (s_cdoc (st_sel s)) (s_w (st_sel s)))) a1).
  { destruct R. constructor; simpl; rewrite ?p_upd_same; auto.
    - rewrite CN. left. exact DM.
    - discriminate. }
  cbv zeta. destruct (a_on a); auto. apply p_rs_invoke_self; auto.
Qed.

Lemma p_rs_conn_step_self rset s a n : st_opix s = n -> p_rs s a ->
  (conn = true -> p_dormant a = false -> rset d = p_rdy a) ->
  p_rs (p_sel_conn_step c rset s d) (if conn then l_read_part c d n a else a).
Proof.
  intros O R Hr. unfold p_sel_conn_step.
  assert (TS : p_touch s d = s) by (unfold p_touch; rewrite (rs_del _ _ R); reflexivity).
  destruct conn eqn:CN.
  2:{ pose proof (rs_c _ _ R) as X. rewrite CN in X. rewrite X. exact R. }
  rewrite !TS.
  assert (HDs : p_has_data s d = l_has_data a) by (unfold p_has_data, l_has_data; rewrite (rs_pend _ _ R); reflexivity).
  destruct (p_dormant a) eqn:DM.
  - (* dormant: nothing observable happens whatever the slot says *)
    assert (X : a_closed a = true /\ l_has_data a = false /\ a_on a = false).
    { unfold p_dormant in DM. rewrite CN in DM. simpl in DM.
      destruct (a_closed a); simpl in DM; try discriminate. destruct (l_has_data a); simpl in DM; try discriminate.
      destruct (a_on a); simpl in DM; try discriminate. auto. }
    destruct X as (CL & HD & ON).
    assert (RA : p_rs s (l_read_part c d n a)).
    { unfold l_read_part. rewrite CL, CN, HD. destruct (a_r a); auto.
      unfold l_close_path. rewrite ON. eapply p_rs_ext; [..|exact R]; auto. }
    assert (DM' : p_dormant (l_read_part c d n a) = true).
    { unfold l_read_part. rewrite CL, CN, HD. destruct (a_r a); auto.
      unfold l_close_path. rewrite ON. unfold p_dormant, l_has_data in *. simpl. rewrite ON in DM. exact DM. }
    destruct (p_is_pres (s_c (st_sel s) d)) eqn:PC; auto.
    destruct (rset d); auto. rewrite HDs, HD. simpl. rewrite (rs_on _ _ R), ON.
    rewrite (rs_cdoc _ _ R PC).
    destruct RA. constructor; simpl; rewrite ?p_upd_same; auto; try discriminate.
    + rewrite <- rs_on0, (rs_on _ _ R). symmetry; exact ON.
    + rewrite CN. left. exact DM'.
  - pose proof (rs_c _ _ R) as X. rewrite CN in X. destruct X as [X|X]; [congruence|].
    rewrite X. rewrite (Hr eq_refl eq_refl). unfold p_rdy, l_read_part. rewrite CN.
    destruct (a_r a) eqn:AR; simpl; [|destruct (a_closed a); exact R].
    rewrite HDs. destruct (a_closed a) eqn:CL; simpl.
    + rewrite orb_true_r. destruct (l_has_data a) eqn:HD; simpl. apply p_rs_invoke_self; auto.
      assert (PC : p_is_pres (s_c (st_sel s) d) = true) by congruence.
      rewrite (rs_cdoc _ _ R PC).
      apply (p_rs_close_path_self s a n O R CN HD CL _ eq_refl).
    + rewrite orb_false_r. destruct (l_has_data a); simpl. apply p_rs_invoke_self; auto. exact R.
Qed.

Lemma p_rs_write_step_self wset s a n : st_opix s = n -> p_rs s a ->
  p_rs (p_sel_write_step c wset s d) (if wset d && a_w a then l_invoke c d n a PKWrite else a).
Proof.
  intros O R. unfold p_sel_write_step. rewrite (rs_w _ _ R).
  assert (TS : p_touch s d = s) by (unfold p_touch; rewrite (rs_del _ _ R); reflexivity).
  rewrite !TS. destruct (a_w a); simpl. 2: rewrite andb_false_r; exact R.
  rewrite andb_true_r. destruct (wset d); auto. apply p_rs_invoke_self; auto.
Qed.

(* a pass over all descriptors: only d's own step matters for d *)
Lemma p_rs_pass (step : p_st -> nat -> p_st) (a fa : p_a) :
  (forall s a' x, x <> d -> p_rs s a' -> p_rs (step s x) a') ->
  (forall s x, st_opix (step s x) = st_opix s) ->
  forall n, (forall s, st_opix s = n -> p_rs s a -> p_rs (step s d) fa) ->
  forall ds, NoDup ds -> In d ds -> forall s, st_opix s = n -> p_rs s a ->
  p_rs (fold_left step ds s) fa /\ st_opix (fold_left step ds s) = n.
Proof.
  intros Fo Fx n Fs.
  assert (Oth : forall ds, ~ In d ds -> forall s a', st_opix s = n -> p_rs s a' ->
                 p_rs (fold_left step ds s) a' /\ st_opix (fold_left step ds s) = n).
  { induction ds as [|x ds IH]; simpl; intros N s a' O R; auto.
    apply IH; auto; rewrite Fx; auto. }
  induction ds as [|x ds IH]; simpl; intros ND Hin s O R. tauto.
  inversion ND; subst. destruct (Nat.eq_dec x d) as [->|N].
  - apply Oth; auto; rewrite Fx; auto.
  - destruct Hin as [?|Hin]; [congruence|]. apply IH; auto; rewrite Fx; auto.
Qed.

Lemma p_opix_touch s x : st_opix (p_touch s x) = st_opix s.
Proof. unfold p_touch. destruct (st_del s x); reflexivity. Qed.
Lemma p_opix_read_step rset s x : st_opix (p_sel_read_step c rset s x) = st_opix s.
Proof. unfold p_sel_read_step. destruct (_ && _); auto. apply p_opix_invoke. Qed.
Lemma p_opix_write_step wset s x : st_opix (p_sel_write_step c wset s x) = st_opix s.
Proof.
  unfold p_sel_write_step. destruct (p_is_pres _); auto. destruct (wset x).
  rewrite p_opix_invoke. apply p_opix_touch. apply p_opix_touch.
Qed.
Lemma p_opix_conn_step rset s x : st_opix (p_sel_conn_step c rset s x) = st_opix s.
Proof.
  unfold p_sel_conn_step. destruct (p_is_pres _); auto.
  destruct (rset x); [|apply p_opix_touch].
  destruct (negb _); [|rewrite p_opix_invoke; apply p_opix_touch].
  set (s2 := p_set_sel _ _).
  assert (O2 : st_opix s2 = st_opix s) by (unfold s2; simpl; apply p_opix_touch).
  set (s3 := if st_onclose (p_touch s x) x then p_invoke c s2 x PKClose else s2).
  assert (O3 : st_opix s3 = st_opix s) by (unfold s3; destruct (st_onclose _ x); auto; rewrite p_opix_invoke; auto).
  clearbody s3. destruct (s_cdoc _ x); auto. simpl. rewrite p_opix_touch. exact O3.
Qed.

Lemma p_rs_sel_prepare s a : p_rs s a -> p_rs (p_sel_prepare c s) a /\ st_opix (p_sel_prepare c s) = st_opix s.
Proof.
  intros R. unfold p_sel_prepare. set (s1 := p_set_sel s _).
  assert (R1 : p_rs s1 a /\ st_opix s1 = st_opix s).
  { split; [|reflexivity]. destruct R. unfold s1.
    assert (GC : forall x, p_is_pres (p_slot_gc x) = p_is_pres x) by (destruct x; reflexivity).
    constructor; simpl; rewrite ?GC; auto. }
  clearbody s1. revert s1 R1. induction (seq 0 (length c)); simpl; intros s1 [R1 O1]; auto.
  apply IHl. destruct (_ && _); auto. split; auto. destruct R1; constructor; auto.
Qed.

Lemma p_rs_cut s a b : p_rs s a -> p_rs s (l_set_cut a b).
Proof. intros R. eapply p_rs_ext; [..|exact R]; reflexivity. Qed.

Lemma p_rs_sel_poll s a n : d < length c -> st_opix s = n -> p_rs s a ->
  p_rs (p_sel_poll c s) (l_poll c d n a) /\ st_opix (p_sel_poll c s) = n.
Proof.
  intros L O R. unfold p_sel_poll.
  destruct (p_rs_sel_prepare s a R) as [R1 O1]. rewrite O in O1.
  set (s1 := p_sel_prepare c s) in *. clearbody s1.
  set (rset := fun d0 => (p_is_pres (s_r (st_sel s1) d0) || p_is_pres (s_c (st_sel s1) d0)) && p_readable s1 d0).
  set (wset := fun d0 => p_is_pres (s_w (st_sel s1) d0) && p_writable c d0).
  set (a0 := l_set_cut a false).
  assert (R0 : p_rs s1 a0) by (apply p_rs_cut; auto).
  assert (RDY : p_readable s1 d = (l_has_data a0 || a_closed a0)).
  { unfold p_readable, p_has_data, l_has_data. rewrite (rs_pend _ _ R0), (rs_closed _ _ R0). reflexivity. }
  assert (Hr1 : conn = false -> rset d = p_rdy a0).
  { intros CN. unfold rset, p_rdy. rewrite (rs_r _ _ R0). pose proof (rs_c _ _ R0) as X. rewrite CN in X.
    rewrite X, CN, RDY. simpl. rewrite andb_true_r, orb_false_r. reflexivity. }
  assert (Hr2 : conn = true -> p_dormant a0 = false -> rset d = p_rdy a0).
  { intros CN DM. unfold rset, p_rdy. rewrite (rs_r _ _ R0). pose proof (rs_c _ _ R0) as X. rewrite CN in X.
    destruct X as [X|X]; [congruence|]. rewrite X, CN, RDY. simpl. rewrite andb_false_r. reflexivity. }
  assert (Hw : wset d = (a_w a0 && sock)).
  { unfold wset, p_writable. rewrite (rs_w _ _ R0). reflexivity. }
  set (aB := l_read_part c d n a0).
  assert (EP : l_poll c d n a = if wset d && a_w aB then l_invoke c d n aB PKWrite else aB).
  { unfold l_poll. fold a0. fold aB. rewrite Hw. reflexivity. }
  rewrite EP.
  assert (SA : forall s0, st_opix s0 = n -> p_rs s0 a0 ->
                 p_rs (p_sel_read_step c rset s0 d) (if negb conn then aB else a0)).
  { intros. apply p_rs_read_step_self; auto. }
  assert (SB : forall s0, st_opix s0 = n -> p_rs s0 (if negb conn then aB else a0) ->
                 p_rs (p_sel_conn_step c rset s0 d) aB).
  { intros s0 O0 R00. destruct conn eqn:CN; simpl in R00.
    - pose proof (p_rs_conn_step_self rset s0 a0 n O0 R00) as X. rewrite CN in X. apply X. intros; apply Hr2; auto.
    - pose proof (p_rs_conn_step_self rset s0 aB n O0 R00) as X. rewrite CN in X. apply X. intros; discriminate. }
  assert (SC : forall s0, st_opix s0 = n -> p_rs s0 aB ->
                 p_rs (p_sel_write_step c wset s0 d) (if wset d && a_w aB then l_invoke c d n aB PKWrite else aB)).
  { intros. apply p_rs_write_step_self; auto. }
  assert (ND : NoDup (seq 0 (length c))) by apply seq_NoDup.
  assert (Hd : In d (seq 0 (length c))) by (apply in_seq; lia).
  match goal with |- p_rs (if ?b then _ else _) _ /\ _ => destruct b eqn:EX end.
  - destruct (p_rs_pass (p_sel_read_step c rset) a0 (if negb conn then aB else a0)
               (fun s a' x => p_rs_read_step_other rset s a' x) (p_opix_read_step rset) n SA _ ND Hd s1 O1 R0) as [RA OA].
    destruct (p_rs_pass (p_sel_conn_step c rset) _ aB
               (fun s a' x => p_rs_conn_step_other rset s a' x) (p_opix_conn_step rset) n SB _ ND Hd _ OA RA) as [RB OB].
    exact (p_rs_pass (p_sel_write_step c wset) _ _
               (fun s a' x => p_rs_write_step_other wset s a' x) (p_opix_write_step wset) n SC _ ND Hd _ OB RB).
  - (* nothing at all is ready: d in particular is not *)
    assert (Z : rset d = false /\ wset d = false).
    { assert (X : (rset d || wset d) = false).
      { destruct (rset d || wset d) eqn:Y; auto. exfalso.
        assert (existsb (fun d0 => rset d0 || wset d0) (seq 0 (length c)) = true)
          by (apply existsb_exists; exists d; auto).
        unfold rset, wset in H. congruence. }
      apply orb_false_iff in X. exact X. }
    destruct Z as [Zr Zw]. split; auto.
    assert (TS : p_touch s1 d = s1) by (unfold p_touch; rewrite (rs_del _ _ R0); reflexivity).
    assert (E1 : p_sel_read_step c rset s1 d = s1).
    { unfold p_sel_read_step. rewrite Zr, andb_false_r. reflexivity. }
    assert (E2 : p_sel_conn_step c rset s1 d = s1).
    { unfold p_sel_conn_step. rewrite !TS, Zr. destruct (p_is_pres _); reflexivity. }
    assert (E3 : p_sel_write_step c wset s1 d = s1).
    { unfold p_sel_write_step. rewrite !TS, Zw. destruct (p_is_pres _); reflexivity. }
    pose proof (SA s1 O1 R0) as RA. rewrite E1 in RA.
    pose proof (SB s1 O1 RA) as RB. rewrite E2 in RB.
    pose proof (SC s1 O1 RB) as RC. rewrite E3 in RC. exact RC.
Qed.

Lemma p_rs_frame s s' a :
  st_be s' = st_be s -> st_pend s' = st_pend s -> st_closed s' = st_closed s -> st_onclose s' = st_onclose s ->
  st_regr s' = st_regr s -> st_regw s' = st_regw s -> st_del s' = st_del s -> st_log s' = st_log s ->
  st_sel s' = st_sel s -> p_rs s a -> p_rs s' a.
Proof.
  intros E1 E2 E3 E4 E5 E6 E7 E8 E9 R. destruct R.
  constructor; rewrite ?E1, ?E2, ?E3, ?E4, ?E5, ?E6, ?E7, ?E8, ?E9; auto.
Qed.

Lemma p_rs_step s a o n : d < length c -> st_opix s = n -> p_rs s a ->
  p_rs (p_step c s o) (l_step c d n a o) /\ st_opix (p_step c s o) = S n.
Proof.
  intros L O R. unfold p_step. cbv zeta.
  match goal with |- p_rs (p_set_opix ?x _) _ /\ _ =>
    assert (X : p_rs x (l_step c d n a o) /\ st_opix x = n) end.
  { assert (ACT : forall y, p_rs (p_exec_act c s y)
                   (if p_act_target y =? d then l_act a y else a)).
    { intros y. destruct (p_act_target y =? d) eqn:E.
      - apply Nat.eqb_eq in E. apply p_rs_act_self; auto.
      - apply Nat.eqb_neq in E. apply p_rs_exec_act_other; auto. }
    assert (OA : forall y, st_opix (p_exec_act c s y) = st_opix s).
    { intros y. apply (p_opix_exec_acts [y]). }
    destruct o; simpl l_step.
    - specialize (ACT (PAAddR d0)). specialize (OA (PAAddR d0)). unfold p_exec_act in ACT, OA. simpl in ACT, OA.
      destruct (st_del s d0). split; [|exact O]. destruct (d0 =? d) eqn:E; auto.
      destruct (p_add_r c s d0) as [s' r]. simpl in ACT, OA. split; [|simpl; congruence].
      eapply p_rs_frame; [..|exact ACT]; reflexivity.
    - specialize (ACT (PAAddW d0)). specialize (OA (PAAddW d0)). unfold p_exec_act in ACT, OA. simpl in ACT, OA.
      destruct (st_del s d0). split; [|exact O]. destruct (d0 =? d) eqn:E; auto.
      destruct (p_add_w c s d0) as [s' r]. simpl in ACT, OA. split; [|simpl; congruence].
      eapply p_rs_frame; [..|exact ACT]; reflexivity.
    - specialize (ACT (PARemR d0)). specialize (OA (PARemR d0)). unfold p_exec_act in ACT, OA. simpl in ACT, OA.
      destruct (st_del s d0). split; [|exact O]. destruct (d0 =? d) eqn:E; auto.
      destruct (p_rem_r c s d0) as [s' r]. simpl in ACT, OA. split; [|simpl; congruence].
      eapply p_rs_frame; [..|exact ACT]; reflexivity.
    - specialize (ACT (PARemW d0)). specialize (OA (PARemW d0)). unfold p_exec_act in ACT, OA. simpl in ACT, OA.
      destruct (st_del s d0). split; [|exact O]. destruct (d0 =? d) eqn:E; auto.
      destruct (p_rem_w c s d0) as [s' r]. simpl in ACT, OA. split; [|simpl; congruence].
      eapply p_rs_frame; [..|exact ACT]; reflexivity.
    - split; [|destruct (st_del s d0 || st_closed s d0); exact O].
      destruct (d0 =? d) eqn:E.
      + apply Nat.eqb_eq in E. subst d0. rewrite (rs_del _ _ R), (rs_closed _ _ R). simpl.
        destruct (a_closed a) eqn:CL; auto.
        destruct R. unfold p_dormant, l_has_data in *. rewrite CL in *.
        constructor; simpl; unfold p_dormant, l_has_data; simpl; rewrite ?p_upd_same, ?CL; auto; try congruence.
        destruct conn; auto.
      + apply Nat.eqb_neq in E. destruct (st_del s d0 || st_closed s d0); auto.
        destruct R. constructor; simpl; auto. unfold p_upd.
        assert (Z : (d =? d0) = false) by (apply Nat.eqb_neq; auto). rewrite Z. auto.
    - split; [|destruct (st_del s d0); exact O].
      destruct (d0 =? d) eqn:E.
      + apply Nat.eqb_eq in E. subst d0. rewrite (rs_del _ _ R).
        destruct R. unfold p_dormant, l_has_data in *.
        constructor; simpl; unfold p_dormant, l_has_data; simpl; rewrite ?p_upd_same; auto.
        destruct conn; auto. destruct rs_c0 as [X|X]; [|right; auto].
        left. destruct (a_closed a); simpl in *; auto; try discriminate; rewrite ?andb_false_r in X; try discriminate.
      + apply Nat.eqb_neq in E. destruct (st_del s d0); auto.
        destruct R. constructor; simpl; auto. unfold p_upd.
        assert (Z : (d =? d0) = false) by (apply Nat.eqb_neq; auto). rewrite Z. auto.
    - rewrite (rs_be _ _ R). apply p_rs_sel_poll; auto. }
  destruct X as [X1 X2]. split; [|simpl; congruence].
  eapply p_rs_frame; [..|exact X1]; reflexivity.
Qed.

Lemma p_rs_run ops : d < length c -> forall s a n, st_opix s = n -> p_rs s a ->
  p_rs (fold_left (p_step c) ops s) (l_run c d n a ops).
Proof.
  intros L. induction ops as [|o ops IH]; simpl; intros s a n O R; auto.
  destruct (p_rs_step s a o n L O R) as [R1 O1]. apply IH with (n := S n); auto.
Qed.

Lemma p_rs_init : p_rs (p_init false c) (l_init c d).
Proof.
  constructor; simpl; auto; try (unfold p_dormant, l_init; simpl; destruct conn; auto); try (intros; discriminate).
Qed.
End SimS.
