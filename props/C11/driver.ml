(* C11 model driver.  payload: "<cap> <phase> <phase> ..."
   phase = F:<pop> | I:<pop>   full / incremental discovery against a responder population
           f:<script> | i:<script>   ... against a scripted answer stream
   pop    = "-" or comma list of <uid>.<kind>
   script = <tok>,<tok>,...~<tok>,...   (prefix ~ tail cycle);  tok = T | A | C | V<uid> | X<hex> | Y<hex> *)
let legacy = (try Sys.getenv "C11_LEGACY" = "1" with Not_found -> false)

let call_s (c : call) : string =
  match c with
  | CUnmute -> "U"
  | CMute u -> "M" ^ string_of_n u
  | CBranch (lo, hi) -> "B" ^ string_of_n lo ^ "-" ^ string_of_n hi

let parse_pop (s : string) : resp list =
  if s = "-" || s = "" then [] else
  List.map (fun t ->
    match String.split_on_char '.' t with
    | [u; k] -> { p_uid = n_of_string u; p_kind = n_of_int (ios k); p_muted = false; p_cnt = N0 }
    | _ -> failwith "bad responder") (String.split_on_char ',' s)

let collision_bytes = bytes_of_hex (String.concat "" (List.init 24 (fun _ -> "ff")))
let parse_tok (t : string) : answer =
  let rest () = String.sub t 1 (String.length t - 1) in
  match t.[0] with
  | 'T' -> { a_ok = false; a_data = [] }
  | 'A' -> { a_ok = true; a_data = [] }
  | 'C' -> { a_ok = false; a_data = collision_bytes }
  | 'V' -> { a_ok = true; a_data = dub_frame true N0 (n_of_string (rest ())) }
  | 'X' -> { a_ok = false; a_data = bytes_of_hex (rest ()) }
  | 'Y' -> { a_ok = true; a_data = bytes_of_hex (rest ()) }
  | _ -> failwith "bad token"
let parse_toks (s : string) : answer list =
  if s = "" then [] else List.map parse_tok (String.split_on_char ',' s)

let hash_log (calls : string list) : string =
  let h1 = ref 7 and h2 = ref 11 in
  List.iter (fun c ->
    String.iter (fun ch ->
      h1 := (!h1 * 31 + Char.code ch) mod 1000000007;
      h2 := (!h2 * 131 + Char.code ch) mod 998244353) (c ^ ",")) calls;
  Printf.sprintf "%d.%d" !h1 !h2

let rec take n l = if n <= 0 then [] else match l with [] -> [] | x :: t -> x :: take (n - 1) t

let handle (p : string) : string =
  match split p with
  | cap :: phases ->
    let cap = ios cap in
    let st = ref idle0 in
    let out = Buffer.create 256 in
    let classes = ref [] in
    let stop = ref false in
    let known = ref "" in
    List.iteri (fun i ph ->
      if not !stop then begin
        let kind = ph.[0] in
        let body = String.sub ph 2 (String.length ph - 2) in
        let inc = (kind = 'I' || kind = 'i') in
        let before = int_of_n !st.completions in
        let s0 = init inc !st in
        let (s1, log) =
          if kind = 'F' || kind = 'I' then
            let ((s1, _), log) = run_pop legacy (nat_of_int cap) (parse_pop body) s0 [] in (s1, log)
          else begin
            let pre, tail = match String.split_on_char '~' body with
              | [a; b] -> parse_toks a, parse_toks b
              | [a] -> parse_toks a, []
              | _ -> failwith "bad script" in
            run_script legacy (nat_of_int cap) pre tail [] s0 []
          end in
        st := s1;
        let calls = List.rev_map call_s log in
        let n = List.length calls in
        let isdone = (match s1.pending with PIdle -> true | _ -> false) in
        let hz = (match s1.pending with PHazard -> true | _ -> false) in
        let cb = int_of_n s1.completions - before in
        let stat, uids = match s1.result with
          | Some (b, u) when isdone -> bool01 b, String.concat "," (List.map string_of_n u)
          | _ -> "-", "-" in
        Buffer.add_string out (Printf.sprintf "n%d=%d;log%d=%s;h%d=%s;done%d=%s;cb%d=%d;st%d=%s;uids%d=%s;"
          i n i (String.concat "," (take 120 calls)) i (hash_log calls) i (bool01 isdone) i cb i stat i
          (if uids = "" then "none" else uids));
        if hz then Buffer.add_string out (Printf.sprintf "hazard%d=1;" i);
        let c = (String.make 1 kind) ^ (if hz then "hazard" else if not isdone then "capped"
                 else if stat = "1" then "ok" else "corrupt") ^
                (if n > 2000 then "-long" else if n > 200 then "-mid" else "") in
        classes := c :: !classes;
        if not isdone then stop := true
      end) phases;
    ignore known;
    Buffer.contents out ^ "class=" ^ String.concat "/" (List.rev !classes)
  | _ -> "bad-payload"

(* ---- histories: H cap op op ...  with op one of: S[FI][nfia] (a = the callback calls Abort(): nothing is running then, no effect)  P:pop  Rk  R*  A  D (destroy the agent, make a new one)  X:tok  L:tok (late reply to the request in flight at the last Abort) ---- *)
let event_s ((p, u) : (n * bool) * n list) : string =
  let (id, st) = p in
  Printf.sprintf "E%s:%s:%s" (string_of_n id) (bool01 st)
    (if u = [] then "none" else String.concat "+" (List.map string_of_n u))

let handle_h (cap : int) (ops : string list) : string =
  let ss = ref sess0 in
  let pop = ref [] in
  let log = ref [] in          (* newest first *)
  let budget = ref cap in
  let nstart = ref 0 and nabort = ref 0 and nref = ref 0 in
  let stale = ref None in    (* kind of the request that was in flight at the last Abort *)
  let push x = log := x :: !log in
  let sync_events before =
    let evs = !ss.events in
    let k = List.length evs - before in
    List.iter (fun e -> push (event_s e)) (List.rev (take k evs)) in
  let reply_with (a : answer option) =
    match call_of !ss.ag with
    | None -> false
    | Some c ->
      if !budget <= 0 then false else begin
        decr budget;
        push (call_s c);
        let before = List.length !ss.events in
        let ans = match a with
          | Some a -> a
          | None -> let (a, p') = pop_answer !pop c in pop := p'; a in
        ss := s_reply ans !ss;
        sync_events before; true end in
  List.iter (fun op ->
    let before = List.length !ss.events in
    match op.[0] with
    | 'S' ->
      let inc = op.[1] = 'I' in
      let act = (match op.[2] with 'f' -> AFull | 'i' -> AInc | _ -> ANone) in
      let running = !ss.ag.on_complete in
      let id = !ss.next_id in
      stale := None;
      incr nstart; if running then incr nref;
      push ((if running then "Z" else "S") ^ string_of_n id);
      ss := s_start inc act !ss;
      sync_events before
    | 'P' -> pop := parse_pop (String.sub op 2 (String.length op - 2))
    | 'A' -> incr nabort; push "A";
      stale := (match call_of !ss.ag with Some _ -> Some !ss.ag.pending | None -> None);
      ss := s_abort !ss; sync_events before;
      (match call_of !ss.ag with Some _ -> stale := None | None -> ())
    | 'L' ->
      (match !stale with
       | None -> ()
       | Some k -> push "L"; stale := None;
         ss := s_late k (parse_tok (String.sub op 2 (String.length op - 2))) !ss; sync_events before)
    | 'D' -> incr nabort; stale := None; push "D"; ss := s_destroy !ss; sync_events before
    | 'X' -> ignore (reply_with (Some (parse_tok (String.sub op 2 (String.length op - 2)))))
    | 'R' ->
      let k = if op = "R*" then max_int else ios (String.sub op 1 (String.length op - 1)) in
      let i = ref 0 in
      while !i < k && reply_with None do incr i done
    | _ -> failwith "bad op") ops;
  let entries = List.rev !log in
  let evs = List.rev_map event_s !ss.events in
  let idle = (match call_of !ss.ag with None -> true | Some _ -> false) in
  let hz = (match !ss.ag.pending with PHazard -> true | _ -> false) in
  Printf.sprintf "hn=%d;hlog=%s;hh=%s;ev=%s;idle=%s;%sclass=H%s%s%s%s"
    (List.length entries) (String.concat "," (take 150 entries)) (hash_log entries)
    (if evs = [] then "none" else String.concat "|" evs) (bool01 idle)
    (if hz then "hazard=1;" else "")
    (if !nabort > 0 then "-abort" else "") (if !nref > 0 then "-refused" else "")
    (if List.exists (fun o -> String.length o = 3 && o.[0] = 'S' && o.[2] <> 'n') ops then "-nested" else "")
    (if idle then "" else "-pending")

let handle_all (p : string) : string =
  match split p with
  | "H" :: cap :: ops -> handle_h (ios cap) ops
  | _ -> handle p

let () = vh_run handle_all
