// C11 correspondence harness: the real ola::rdm::DiscoveryAgent against a simulated RDM line.
// The target never runs a callback from inside Branch/MuteDevice/UnMuteAll: it records the request
// and the main loop answers it, so a run of any length uses constant stack and can be cut at the
// transaction cap.  Payload format: see props/C11/driver.ml.
#include <stdint.h>
#include <algorithm>
#include <sstream>
#include <string>
#include <vector>
#include "ola/Callback.h"
#include "ola/Logging.h"
#include "ola/rdm/DiscoveryAgent.h"
#include "ola/rdm/UID.h"
#include "ola/rdm/UIDSet.h"
#include "vh.h"

using ola::rdm::DiscoveryAgent;
using ola::rdm::DiscoveryTargetInterface;
using ola::rdm::UID;
using ola::rdm::UIDSet;
using std::string;
using std::vector;

typedef unsigned long long u64;

static u64 uid_n(const UID &u) { return (static_cast<u64>(u.ManufacturerId()) << 32) | u.DeviceId(); }
static UID n_uid(u64 v) { return UID(static_cast<uint16_t>(v >> 32), static_cast<uint32_t>(v & 0xffffffffULL)); }

struct Resp {
  u64 uid;
  unsigned kind;
  bool muted;
  unsigned cnt;
  bool has(int bit) const { return (kind >> bit) & 1; }
};

static vector<uint8_t> DubFrame(bool preamble, unsigned ckdelta, u64 uid) {
  vector<uint8_t> f;
  if (preamble) f.insert(f.end(), 7, 0xfe);
  f.push_back(0xaa);
  unsigned sum = 0;
  for (int i = 5; i >= 0; i--) {
    uint8_t b = (uid >> (8 * i)) & 0xff;
    f.push_back(b | 0xaa); f.push_back(b | 0x55);
    sum += (b | 0xaa) + (b | 0x55);
  }
  uint16_t ck = static_cast<uint16_t>(sum + ckdelta);
  f.push_back((ck >> 8) | 0xaa); f.push_back((ck >> 8) | 0x55);
  f.push_back((ck & 0xff) | 0xaa); f.push_back((ck & 0xff) | 0x55);
  return f;
}

struct Answer { bool ok; vector<uint8_t> data; };

class Line : public DiscoveryTargetInterface {
 public:
  enum Kind { NONE, UNMUTE, MUTE, BRANCH };
  Line() : pending(NONE), p_uid(0), p_lo(0), p_hi(0), nonnull_silence(false), stale(NONE), m_mute_cb(NULL), m_unmute_cb(NULL), m_branch_cb(NULL) {}
  void MuteDevice(const UID &target, MuteDeviceCallback *cb) {
    pending = MUTE; p_uid = uid_n(target); m_mute_cb = cb;
  }
  void UnMuteAll(UnMuteDeviceCallback *cb) { pending = UNMUTE; m_unmute_cb = cb; }
  void Branch(const UID &lower, const UID &upper, BranchCallback *cb) {
    pending = BRANCH; p_lo = uid_n(lower); p_hi = uid_n(upper); m_branch_cb = cb;
  }
  string Describe() const {
    std::ostringstream o;
    if (pending == UNMUTE) o << "U";
    else if (pending == MUTE) o << "M" << p_uid;
    else o << "B" << p_lo << "-" << p_hi;
    return o.str();
  }
  void Deliver(const Answer &a) {
    Kind k = pending;
    pending = NONE;
    if (k == UNMUTE) {
      m_unmute_cb->Run();
    } else if (k == MUTE) {
      m_mute_cb->Run(a.ok);
    } else if (k == BRANCH) {
      if (a.data.empty() && !nonnull_silence) {
        m_branch_cb->Run(NULL, 0);
      } else if (a.data.empty()) {
        vh::Exact e(a.data);   // "no reply" as (pointer to a zero-size heap block, 0)
        m_branch_cb->Run(e.p, 0);
      } else {
        vh::Exact e(a.data);   // exact-size heap copy: ASan sees any over-read of the reply
        m_branch_cb->Run(e.p, e.n);
      }
    }
  }
  Kind pending;
  u64 p_uid, p_lo, p_hi;
  bool nonnull_silence;   // how the next silent DUB is reported
  Kind stale;             // request that was in flight at the last Abort()
 private:
  MuteDeviceCallback *m_mute_cb;
  UnMuteDeviceCallback *m_unmute_cb;
  BranchCallback *m_branch_cb;
};

// ---- population environment (mirrors line_branch / line_mute / line_unmute of Model.v) ----
static vector<uint8_t> RespFrame(const Resp &r) {
  vector<uint8_t> f = DubFrame(!r.has(7), r.has(6) ? 1 : 0, r.uid);
  if (r.has(3)) f.pop_back();
  if (r.has(4)) f.push_back(0x52);
  return f;
}
static bool Responds(const Resp &r, u64 lo, u64 hi) {
  return !r.has(8) && (r.has(2) || (lo <= r.uid && r.uid <= hi)) && (r.has(0) || !r.muted);
}
static bool Hidden(const vector<Resp> &pop, const Resp &r) {
  if (!r.has(9)) return false;
  for (size_t i = 0; i < pop.size(); i++) if (pop[i].has(10) && !pop[i].muted) return true;
  return false;
}
static Answer PopAnswer(vector<Resp> *pop, const Line &line) {
  Answer a; a.ok = false;
  if (line.pending == Line::UNMUTE) {
    for (size_t i = 0; i < pop->size(); i++) (*pop)[i].muted = false;
    a.ok = true;
  } else if (line.pending == Line::MUTE) {
    vector<bool> hid(pop->size());
    for (size_t i = 0; i < pop->size(); i++) hid[i] = Hidden(*pop, (*pop)[i]);   // as of the request
    for (size_t i = 0; i < pop->size(); i++) {
      Resp &r = (*pop)[i];
      if (hid[i]) continue;
      if (r.uid != line.p_uid) continue;
      if (r.has(1)) continue;
      if (r.has(5)) {
        r.cnt++;
        if (r.cnt > 2) { r.muted = true; a.ok = true; }
      } else {
        r.muted = true; a.ok = true;
      }
    }
  } else {
    for (size_t i = 0; i < pop->size(); i++) {
      const Resp &r = (*pop)[i];
      if (!Responds(r, line.p_lo, line.p_hi) || Hidden(*pop, r)) continue;
      vector<uint8_t> f = RespFrame(r);
      if (f.size() > a.data.size()) a.data.resize(f.size(), 0);
      for (size_t j = 0; j < f.size(); j++) a.data[j] |= f[j];
    }
  }
  return a;
}

static vector<Resp> ParsePop(const string &s) {
  vector<Resp> pop;
  if (s == "-" || s.empty()) return pop;
  vector<string> items = vh::split(s, ',');
  for (size_t i = 0; i < items.size(); i++) {
    vector<string> f = vh::split(items[i], '.');
    Resp r; r.uid = vh::num(f[0]); r.kind = vh::num(f[1]); r.muted = false; r.cnt = 0;
    pop.push_back(r);
  }
  return pop;
}

static Answer ParseTok(const string &t) {
  Answer a; a.ok = false;
  string rest = t.substr(1);
  switch (t[0]) {
    case 'T': break;
    case 'A': a.ok = true; break;
    case 'C': a.data.assign(24, 0xff); break;
    case 'V': a.ok = true; a.data = DubFrame(true, 0, vh::num(rest)); break;
    case 'X': a.data = vh::unhex(rest); break;
    case 'Y': a.ok = true; a.data = vh::unhex(rest); break;
  }
  return a;
}
static vector<Answer> ParseToks(const string &s) {
  vector<Answer> v;
  if (s.empty()) return v;
  vector<string> items = vh::split(s, ',');
  for (size_t i = 0; i < items.size(); i++) v.push_back(ParseTok(items[i]));
  return v;
}

struct Completion {
  int count; bool status; string uids; bool ignore;
  Completion() : count(0), status(false), ignore(false) {}
  void Done(bool st, const UIDSet &set) {
    if (ignore) return;
    count++;
    status = st;
    std::ostringstream o;
    bool first = true;
    for (UIDSet::Iterator it = set.Begin(); it != set.End(); ++it) {
      if (!first) o << ",";
      first = false;
      o << uid_n(*it);
    }
    uids = o.str();
  }
};

struct Hash {
  u64 h1, h2;
  Hash() : h1(7), h2(11) {}
  void Add(const string &c) {
    for (size_t i = 0; i <= c.size(); i++) {
      unsigned ch = i < c.size() ? static_cast<unsigned char>(c[i]) : ',';
      h1 = (h1 * 31 + ch) % 1000000007ULL;
      h2 = (h2 * 131 + ch) % 998244353ULL;
    }
  }
};

static string handle(const string &payload) {
  vector<string> tok = vh::split(payload, ' ');
  if (tok.size() < 1) return "bad-payload";
  u64 cap = vh::num(tok[0]);
  Line line;
  Completion comp;
  std::ostringstream out;
  {
    DiscoveryAgent agent(&line);
    for (size_t i = 1; i < tok.size(); i++) {
      const string &ph = tok[i];
      char kind = ph[0];
      string body = ph.substr(2);
      bool inc = (kind == 'I' || kind == 'i');
      bool is_pop = (kind == 'F' || kind == 'I');
      vector<Resp> pop;
      vector<Answer> pre, tail;
      if (is_pop) {
        pop = ParsePop(body);
      } else {
        size_t tl = body.find('~');
        pre = ParseToks(tl == string::npos ? body : body.substr(0, tl));
        if (tl != string::npos) tail = ParseToks(body.substr(tl + 1));
      }
      int before = comp.count;
      comp.uids = ""; comp.status = false;
      DiscoveryAgent::DiscoveryCompleteCallback *cb = ola::NewSingleCallback(&comp, &Completion::Done);
      if (inc) agent.StartIncrementalDiscovery(cb); else agent.StartFullDiscovery(cb);
      u64 n = 0;
      size_t pi = 0, ti = 0;
      Hash h;
      std::ostringstream log;
      while (n < cap && line.pending != Line::NONE) {
        string c = line.Describe();
        if (n < 120) { if (n) log << ","; log << c; }
        h.Add(c);
        n++;
        Answer a;
        if (is_pop) {
          a = PopAnswer(&pop, line);
        } else if (pi < pre.size()) {
          a = pre[pi++];
        } else if (!tail.empty()) {
          a = tail[ti]; ti = (ti + 1) % tail.size();
        } else {
          a.ok = false;
        }
        line.nonnull_silence = ((n + payload.size()) % 3) == 0;
        line.Deliver(a);
      }
      bool done = line.pending == Line::NONE;
      int cbn = comp.count - before;
      out << "n" << (i - 1) << "=" << n << ";log" << (i - 1) << "=" << log.str() << ";h" << (i - 1) << "="
          << h.h1 << "." << h.h2 << ";done" << (i - 1) << "=" << (done ? 1 : 0) << ";cb" << (i - 1) << "=" << cbn
          << ";st" << (i - 1) << "=" << ((done && cbn > 0) ? (comp.status ? "1" : "0") : "-")
          << ";uids" << (i - 1) << "=" << ((done && cbn > 0) ? (comp.uids.empty() ? "none" : comp.uids) : "-") << ";";
      if (!done) break;
    }
    comp.ignore = true;   // ~DiscoveryAgent -> Abort() completes a capped run; not part of the observation
  }
  string s = out.str();
  if (!s.empty() && s[s.size() - 1] == ';') s.erase(s.size() - 1);
  return s;
}

// ---- histories: "H <cap> <op> ..." (see driver.ml) ----
struct Session;
struct StartCb {
  Session *sess; unsigned id; char act;
  void Done(bool st, const UIDSet &set);
};
struct Session {
  DiscoveryAgent *agent;
  unsigned next_id;
  bool ignore;
  bool dying;
  bool in_start;   // inside Start*Discovery(): a callback that runs now belongs to a refused Start
  vector<string> log;     // calls, starts, aborts, events in order
  vector<string> events;
  Session() : agent(NULL), next_id(0), ignore(false), dying(false), in_start(false) {}
  void Start(bool inc, char act) {
    StartCb *cb = new StartCb();   // kept alive for the whole case (a seeded change may never run it)
    cb->sess = this; cb->id = next_id++; cb->act = act;
    DiscoveryAgent::DiscoveryCompleteCallback *c = ola::NewSingleCallback(cb, &StartCb::Done);
    bool outer = in_start;
    in_start = true;
    if (inc) agent->StartIncrementalDiscovery(c); else agent->StartFullDiscovery(c);
    in_start = outer;
  }
};
void StartCb::Done(bool st, const UIDSet &set) {
  if (sess->ignore) return;
  std::ostringstream o;
  o << "E" << id << ":" << (st ? 1 : 0) << ":";
  bool first = true;
  for (UIDSet::Iterator it = set.Begin(); it != set.End(); ++it) {
    if (!first) o << "+";
    first = false;
    o << uid_n(*it);
  }
  if (first) o << "none";
  sess->events.push_back(o.str());
  sess->log.push_back(o.str());
  if (sess->dying) return;
  // Abort() from inside the completion callback of a finished or aborted run: nothing is running any more
  if (act == 'a' && !sess->in_start) sess->agent->Abort();
  if (act == 'f') sess->Start(false, 'n');
  else if (act == 'i') sess->Start(true, 'n');
}

static string handle_h(const vector<string> &tok) {
  u64 cap = vh::num(tok[1]);
  Line line;
  Session sess;
  vector<Resp> pop;
  u64 used = 0;
  {
    DiscoveryAgent *agent = new DiscoveryAgent(&line);
    sess.agent = agent;
    for (size_t i = 2; i < tok.size(); i++) {
      const string &op = tok[i];
      if (op[0] == 'S') {
        line.stale = Line::NONE;
        // refused iff a discovery is running: observable as "the callback ran during Start"
        size_t before = sess.events.size();
        unsigned id = sess.next_id;
        size_t pos = sess.log.size();
        sess.Start(op[1] == 'I', op[2]);
        bool refused = sess.events.size() > before;
        std::ostringstream o; o << (refused ? "Z" : "S") << id;
        sess.log.insert(sess.log.begin() + pos, o.str());
      } else if (op[0] == 'P') {
        pop = ParsePop(op.substr(2));
      } else if (op[0] == 'A') {
        sess.log.push_back("A");
        line.stale = line.pending;   // the request in flight: dropped, or answered late by an L op
        line.pending = Line::NONE;
        agent->Abort();
        if (line.pending != Line::NONE) line.stale = Line::NONE;   // the abort callback started a new run
      } else if (op[0] == 'L') {
        if (line.stale != Line::NONE) {
          sess.log.push_back("L");
          line.pending = line.stale;
          line.stale = Line::NONE;
          line.nonnull_silence = (tok.size() % 2) == 0;
          line.Deliver(ParseTok(op.substr(2)));
        }
      } else if (op[0] == 'D') {
        sess.log.push_back("D");
        line.stale = Line::NONE;
        line.pending = Line::NONE;   // the line drops the request in flight
        sess.dying = true;           // a callback run by the destructor does not start another run
        delete agent;
        sess.dying = false;
        agent = new DiscoveryAgent(&line);
        sess.agent = agent;
      } else if (op[0] == 'X' || op[0] == 'R') {
        u64 k = 1;
        if (op[0] == 'R') k = (op == "R*") ? ~0ULL : vh::num(op.substr(1));
        for (u64 j = 0; j < k && line.pending != Line::NONE && used < cap; j++) {
          used++;
          sess.log.push_back(line.Describe());
          Answer a = (op[0] == 'X') ? ParseTok(op.substr(2)) : PopAnswer(&pop, line);
          line.nonnull_silence = ((used + tok.size()) % 3) == 0;
          line.Deliver(a);
        }
      }
    }
    sess.ignore = true;
    delete agent;
  }
  Hash h;
  std::ostringstream log, ev;
  for (size_t i = 0; i < sess.log.size(); i++) {
    h.Add(sess.log[i]);
    if (i < 150) { if (i) log << ","; log << sess.log[i]; }
  }
  for (size_t i = 0; i < sess.events.size(); i++) { if (i) ev << "|"; ev << sess.events[i]; }
  std::ostringstream out;
  out << "hn=" << sess.log.size() << ";hlog=" << log.str() << ";hh=" << h.h1 << "." << h.h2
      << ";ev=" << (sess.events.empty() ? "none" : ev.str()) << ";idle=" << (line.pending == Line::NONE ? 1 : 0);
  return out.str();
}

static string handle_all(const string &payload) {
  vector<string> tok = vh::split(payload, ' ');
  if (tok.size() >= 2 && tok[0] == "H") return handle_h(tok);
  return handle(payload);
}

int main(int argc, char **argv) {
  ola::InitLogging(ola::OLA_LOG_NONE, ola::OLA_LOG_NULL);
  return vh::run(argc, argv, handle_all, 60);
}
