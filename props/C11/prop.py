ID = 'C11'
GROUPS = ['common']
CXX_SOURCES = []
PROC_TIMEOUT = 1500

def gen_consts(v):
    import os
    ents = [(n, 'ola::rdm::DiscoveryAgent::' + n) for n in (
        'MAX_EMPTY_BRANCH_ATTEMPTS MAX_BRANCH_FAILURES MAX_MUTE_ATTEMPTS BROADCAST_UNMUTE_REPEATS '
        'PREAMBLE_SIZE EUID_SIZE CHECKSUM_SIZE PREAMBLE PREAMBLE_SEPARATOR').split()]
    ents += [('UID_ALL_MANUFACTURERS', 'ola::rdm::UID::ALL_MANUFACTURERS'), ('UID_ALL_DEVICES', 'ola::rdm::UID::ALL_DEVICES'),
             ('UID_BROADCAST_U64', 'ola::rdm::UID::AllDevices().ToUInt64()'), ('UID_SIZE', 'ola::rdm::UID::UID_SIZE')]
    return v.gen_consts_cpp(ID, ['ola/rdm/DiscoveryAgent.h'], ents,
                            os.path.join(v.VERIF, 'props', ID, 'coq', 'Gen.v'))

NPH = 3
SPEC_KEYS = [k + str(i) for i in range(NPH) for k in ('done', 'cb', 'st', 'uids')] + ['ev', 'idle']
INTERNAL_KEYS = []

RULE = ('populations of 0-64 responders (UIDs at 0000:00000000/1/2, ffff:fffffffe, ffff:ffffffff, both sides of '
        'every midpoint 2^k, clustered, adjacent pairs, long shared prefixes, random) with 0-3 misbehaving '
        'responders (keeps answering when muted, never ACKs mute, ignores range, short/long/corrupt/no-preamble '
        'reply, flaky mute, silent, responders behind a proxy that appear once the proxy is muted), followed by an incremental run after arrivals/departures; scripted answer '
        'streams (timeouts, collisions, valid frames of recurring UIDs, mutated frames of every length 0-32, '
        'failure/attempt counters driven to 4/5/6) incl. an endless tail; client histories on an asynchronous line '
        '(full/incremental Starts in any order, a Start while one is running, a Start issued from inside the '
        'completion callback, Abort() from inside the completion callback, Abort() or destruction of the agent at any point incl. the incremental mute phase, population changes between '
        'runs, state carried from run to run) with every completion event (start id, status, UID set) compared; every Branch/MuteDevice/UnMuteAll call '
        'of the real agent is compared with the model (first 120 verbatim, all by hash and count), as are '
        'completion count, status and UID set; non-trivial = run completed and found >= 1 UID; '
        'distinct = distinct model output line')
ASSUMPTIONS = ['the DiscoveryTargetInterface answers every request exactly once and not re-entrantly beyond what '
               'the agent allows (the harness answers from its main loop)',
               'operator new does not fail']
TRUSTED = ['modelled rather than verified: DiscoveryAgent.cpp InitDiscovery/UnMuteComplete/MaybeMuteNextDevice/'
           'IncrementalMuteComplete/SendDiscovery/BranchComplete/BranchMuteComplete/HandleCollision/'
           'SplitAroundBadUID/FreeCurrentRange/Abort/~DiscoveryAgent and the empty-stack guards of the four callbacks, UID(uint64)/ToUInt64/cmp, UIDSet add/remove/contains, and the '
           'client protocol of Session.v (refused / nested Start, Abort); constants regenerated into Gen.v',
           'the responder-population simulator exists twice (Model.v line_* and harness.cpp PopAnswer) and the two '
           'are compared only through the runs']

M48 = (1 << 48) - 1
CAP = 30000

def uid_pool(rng):
    base = rng.randrange(1 << 48)
    k = rng.randrange(1, 48)
    mid = 1 << k
    return [0, 1, 2, 3, M48 - 1, M48 - 2, M48, (1 << 47) - 1, 1 << 47, mid - 1, mid, mid + 1,
            base, base ^ 1, (base + 1) & M48, (base + 2) & M48, base ^ (1 << rng.randrange(6)),
            base ^ (1 << rng.randrange(48)), (base & ~0xff) | rng.randrange(256),
            rng.randrange(1 << 48), rng.randrange(1 << 48), rng.randrange(1 << 16),
            0xffff00000000 | rng.randrange(1 << 32), (rng.randrange(1 << 16) << 32) | 0xffffffff]

BAD_KINDS = [1, 2, 4, 8, 16, 32, 64, 128, 256, 1 | 4, 2 | 4, 1 | 2, 8 | 16, 32 | 1, 64 | 1, 2 | 64, 4 | 256]

def gen_pop(rng, n, nbad, extremes):
    pool = uid_pool(rng)
    style = rng.randrange(4)
    uids = set()
    if extremes:
        for u in rng.sample([0, 1, M48 - 1, M48 - 2, (1 << 47) - 1, 1 << 47], rng.randrange(1, 4)):
            uids.add(u)
    base = rng.randrange(1 << 48)
    while len(uids) < n:
        if style == 0:
            uids.add(rng.choice(pool))
            if len(uids) >= len(set(pool)): style = 1
        elif style == 1:
            uids.add((base + rng.randrange(4 * n + 4)) & M48)
        elif style == 2:
            uids.add(base ^ (rng.randrange(1 << rng.choice([3, 8, 12]))))
        else:
            uids.add(rng.randrange(1 << 48))
    uids = list(uids)[:n] if n else []
    rng.shuffle(uids)
    pop = [[u, 0] for u in uids]
    for i in range(min(nbad, len(pop))):
        pop[i][1] = rng.choice(BAD_KINDS)
    if len(pop) >= 2 and rng.random() < 0.12:
        # a proxy with one to three responders behind it
        pop[0][1] |= 1024
        for q in pop[1:1 + rng.randrange(1, 4)]:
            q[1] |= 512
    rng.shuffle(pop)
    return pop

def pop_s(pop):
    return ','.join('%d.%d' % (u, k) for u, k in pop) if pop else '-'

def pop_cap(pops):
    # a range-ignoring responder can make the agent walk an astronomically large (finite) tree
    for pop in pops:
        if any(k & 4 for _, k in pop):
            return 1500
    return CAP

def change(rng, pop):
    pop = [list(p) for p in pop]
    rng.shuffle(pop)
    pop = pop[rng.randrange(0, min(len(pop), 4) + 1):] if pop and rng.random() < 0.7 else pop
    have = {u for u, _ in pop}
    for u, k in gen_pop(rng, rng.choice([0, 0, 1, 2, 5]), rng.choice([0, 0, 1]), rng.random() < 0.3):
        if u not in have:
            pop.append([u, k])
    if rng.random() < 0.2:
        for p in pop:
            if rng.random() < 0.3: p[1] = rng.choice([0, 0] + BAD_KINDS)
    rng.shuffle(pop)
    return pop

def frame(uid, preamble=7, ckdelta=0):
    f = [0xfe] * preamble + [0xaa]
    s = 0
    for i in range(5, -1, -1):
        b = (uid >> (8 * i)) & 255
        f += [b | 0xaa, b | 0x55]
        s += (b | 0xaa) + (b | 0x55)
    ck = (s + ckdelta) & 0xffff
    return f + [(ck >> 8) | 0xaa, (ck >> 8) | 0x55, (ck & 255) | 0xaa, (ck & 255) | 0x55]

def hx(bs):
    return ''.join('%02x' % b for b in bs)

def mutated_tok(rng, uids):
    u = rng.choice(uids)
    f = frame(u, preamble=rng.choice([0, 1, 6, 7, 7, 7, 8, 9]), ckdelta=rng.choice([0, 0, 0, 1, 0xffff]))
    m = rng.randrange(8)
    if m == 0: f = f[:rng.randrange(0, len(f) + 1)]
    elif m == 1: f = f + [rng.randrange(256) for _ in range(rng.randrange(1, 9))]
    elif m == 2 and f: f[rng.randrange(len(f))] = rng.randrange(256)
    elif m == 3: f = [rng.randrange(256) for _ in range(rng.randrange(0, 33))]
    elif m == 4 and len(f) > 8: f[rng.randrange(0, 8)] = rng.choice([0xaa, 0xfe, 0xff, 0])
    elif m == 5: f = f[:rng.choice([16, 17, 18, 23])]
    if not f:
        return 'T'
    return ('Y' if rng.random() < 0.7 else 'X') + hx(f)

def gen_script(rng, n, uids, weights):
    toks = []
    for _ in range(n):
        r = rng.random()
        if r < weights[0]: toks.append('T')
        elif r < weights[1]: toks.append('A')
        elif r < weights[2]: toks.append('C')
        elif r < weights[3]: toks.append('V%d' % rng.choice(uids))
        else: toks.append(mutated_tok(rng, uids))
    return toks

def gen_cases(rng, tier):
    quick = tier == 'quick'
    npop = 700 if quick else 30000
    nscript = 900 if quick else 40000
    # --- every reply length 0..32 x preamble count, valid and checksum-off-by-one, once each
    for L in range(0, 33):
        for pre in (0, 6, 7, 8):
            u = rng.choice(uid_pool(rng))
            f = frame(u, pre, rng.choice([0, 0, 1]))
            f = (f + [0x52] * 40)[:L] if rng.random() < 0.5 else f[:L]
            yield '200 f:A,A,A,%s,A,T~T' % ('Y' + hx(f) if f else 'T')
    # --- client histories (Abort, refused and nested Starts, state carried between runs)
    for i in range(600 if quick else 20000):
        yield gen_history(rng)
    # --- populations: conforming, all sizes; then incremental after arrivals / departures
    for i in range(npop):
        r = rng.random()
        n = rng.choice([0, 1, 2, 3, 4, 8, 16, 32, 64, rng.randrange(65)]) if not quick else \
            rng.choice([0, 1, 2, 3, 4, 5, 8, 13, rng.randrange(24), rng.randrange(65) if i % 10 == 0 else 6])
        nbad = 0 if r < 0.45 else rng.choice([1, 1, 2, 3])
        pop = gen_pop(rng, n, nbad, rng.random() < 0.4)
        phases = ['F:' + pop_s(pop)]
        pops = [pop]
        if rng.random() < 0.7:
            p1 = change(rng, pop)
            pops.append(p1)
            phases.append('I:' + pop_s(p1))
            if rng.random() < 0.3:
                p2 = change(rng, p1)
                pops.append(p2)
                phases.append(rng.choice(['I:', 'F:']) + pop_s(p2))
        yield '%d %s' % (pop_cap(pops), ' '.join(phases))
    # --- single misbehaving responder at each extreme (the SplitAroundBadUID boundaries)
    for u in (0, 1, M48 - 1, M48, (1 << 47) - 1, 1 << 47):
        for k in BAD_KINDS + [0]:
            yield '%d F:%d.%d I:%d.%d' % (pop_cap([[[u, k]]]), u, k, u, k)
            v = rng.choice([u ^ 1, (u + 1) & M48, (u - 1) & M48, rng.randrange(1 << 48)])
            if v != u:
                yield '%d F:%d.%d,%d.0' % (pop_cap([[[u, k]]]), u, k, v)
    # --- scripted streams
    for i in range(nscript):
        uids = rng.sample(uid_pool(rng), rng.choice([1, 2, 3, 5]))
        w = rng.choice([(0.25, 0.45, 0.65, 0.9), (0.1, 0.3, 0.5, 0.95), (0.05, 0.35, 0.8, 0.95),
                        (0.3, 0.5, 0.55, 0.8), (0.02, 0.3, 0.4, 0.98)])
        pre = gen_script(rng, rng.choice([5, 10, 20, 40, 80, 200]), uids, w)
        tail = gen_script(rng, rng.choice([1, 1, 2, 3, 7]), uids, w) if rng.random() < 0.5 else ['T']
        kind = rng.choice(['f', 'f', 'i'])
        cap = rng.choice([300, 1000, 3000])
        if kind == 'i':
            # give the incremental run something to mute first
            yield '%d F:%s i:%s~%s' % (cap, pop_s([[u, 0] for u in uids]), ','.join(pre), ','.join(tail))
        else:
            yield '%d f:%s~%s' % (cap, ','.join(pre), ','.join(tail))
    # --- counters driven to their limits on a singleton range: 48 collisions reach [max,max]
    for i in range(40 if quick else 400):
        y = rng.choice(uid_pool(rng))
        z = rng.choice(uid_pool(rng))
        body = ['A', 'A', 'A'] + ['C'] * rng.choice([47, 48, 48, 49])
        for _ in range(rng.randrange(1, 14)):
            body.append(rng.choice(['V%d' % y, 'V%d' % y, 'V%d' % z, 'C', 'A', 'A', 'T']))
        yield '3000 f:%s~T' % ','.join(body)

def gen_history(rng):
    """client histories: starts (full/incremental, callback that starts another one), aborts at any point,
    replies in chunks, population changes; state is carried from run to run"""
    n = rng.choice([0, 1, 2, 3, 4, 5, 6, 8])
    pop = gen_pop(rng, n, rng.choice([0, 0, 0, 1]), rng.random() < 0.3)
    pop = [[u, k if not (k & 4) else 0] for u, k in pop]
    ops = ['P:' + pop_s(pop)]
    style = rng.randrange(8)
    def start():
        return 'S' + rng.choice('FI') + rng.choice('nnnfia')
    if style == 0:
        # abort inside the "mute previously known devices" phase of an incremental run, then a full run
        ops += ['SFn', 'R*', 'SIn', 'R%d' % rng.choice([3, 3 + rng.randrange(0, n + 1), 4, 5]), 'A',
                rng.choice(['SFn', 'SFn', 'SIn', 'SFi']), 'R*', 'SIn', 'R*']
    elif style == 1:
        # a second Start while one is running; nested Start from the completion callback
        ops += [start(), 'R%d' % rng.randrange(0, 12), start(), 'R*', 'R*', start(), 'R*', 'R*']
    elif style == 4:
        # Abort with a request in flight whose reply arrives afterwards (every phase), then another run
        ops += ['SFn', 'R*', 'S' + rng.choice('FI') + 'n', 'R%d' % rng.choice([0, 1, 2, 3, 4, 5, 6, 9, 15, 40]), 'A',
                'L:' + rng.choice(['T', 'A', 'C', 'A', 'C', 'V%d' % rng.choice(uid_pool(rng))]), 'R*', 'SIn', 'R*']
    elif style == 3:
        # the agent is destroyed while a discovery is in flight (unmute / re-mute / branch phase)
        ops += ['SFn', 'R*', 'S' + rng.choice('FI') + rng.choice('nfi'),
                'R%d' % rng.choice([0, 1, 2, 3, 4, 5, 6, 9, 15, 40]), 'D', 'SFn', 'R*']
    elif style == 2:
        # Abort whose callback starts the next run
        ops += ['S' + rng.choice('FI') + rng.choice('fi'), 'R%d' % rng.randrange(0, 40), 'A', 'R*', 'SIn', 'R*']
    else:
        for _ in range(rng.randrange(3, 12)):
            r = rng.random()
            if r < 0.3: ops.append(start())
            elif r < 0.55: ops.append('R%d' % rng.choice([0, 1, 2, 3, 4, 5, 7, 10, 20, 50, 200]))
            elif r < 0.7: ops.append('R*')
            elif r < 0.78:
                ops.append('A')
                if rng.random() < 0.6:
                    ops.append('L:' + rng.choice(['T', 'A', 'C', 'V%d' % rng.choice(uid_pool(rng)), 'A', 'C']))
            elif r < 0.82: ops.append('D')
            elif r < 0.9:
                pop = [p for p in change(rng, pop) if not (p[1] & 4)]
                ops.append('P:' + pop_s(pop))
            else:
                ops.append('X:' + rng.choice(['T', 'A', 'C', 'V%d' % rng.choice(uid_pool(rng)),
                                              mutated_tok(rng, uid_pool(rng))]))
        ops += ['R*']
    return 'H 2500 ' + ' '.join(ops)

def nontrivial(payload, md):
    if payload.startswith('H '):
        return md.get('ev') not in (None, 'none') and ':1:' in md.get('ev', '')
    return md.get('done0') == '1' and md.get('uids0') not in (None, '-', 'none')

LEVEL_TEXT = ('Coq theorems over an executable step-machine model of DiscoveryAgent (the code with the two C11 fixes): '
              'c11_terminates - for EVERY stream of answers from the RDM line a full or incremental discovery runs the '
              'completion callback exactly once after finitely many transactions and reaches no modelled memory hazard; '
              'c11_sessions - for EVERY history of Starts (full/incremental, also from inside a completion callback), '
              'replies and Abort()s with state carried between runs: no Start is completed twice, every Start has been '
              'completed exactly once except the one owning the running discovery, which completes under any further '
              'replies; c11_refused_start / c11_abort / c11_nested_start say what a refused Start, an Abort and a Start '
              'from inside the callback do; c11_complete / c11_complete_any_state - against conforming responders a '
              'full discovery started in ANY idle state (whatever earlier, possibly aborted, runs left) returns status '
              'true and exactly the connected set; c11_incremental - an incremental discovery returns exactly the '
              'now-connected set; c11_complete_wired(_or) - the same WITHOUT assuming that a collision fails validation: '
              'whatever non-empty bytes the line carries when several responders answer (e.g. the byte-wise OR, which can '
              'be a valid frame of a phantom UID), the result is exactly the connected set; c11_incremental_wired / c11_incremental_leave - incremental runs on the wired-OR line (kept + new; any '
              'set of known responders leaving, incl. the highest, 0000:00000000, all); c11_run_stateless_strong - a run '
              'depends only on m_uids at its start and on the replies (m_muting_uid / m_mute_attempts are dead); '
              'c11_bounded_tx - both within 4 + (previously known UIDs) + 98*|S| transactions; '
              'c11_late_reply - a reply delivered after Abort() changes nothing (code with fixes/03); c11_destroy - '
              'destroying the agent mid-run completes the run once with false. c11_complete/c11_incremental/c11_bounded_tx keep the explicit hypothesis that a collision does not '
              'decode as a valid reply. The pre-fix code is refuted by two machine-checked witnesses (bounded). Model tied to the '
              'C++ by a differential check of every Branch/MuteDevice/UnMuteAll call and every completion event on an '
              'asynchronous line.')
LEVEL_NOTE = ('Trusted: Coq kernel (incl. vm_compute for witnesses/examples), extraction (ExtrOcamlBasic), OCaml/C++ '
              'glue, generator coverage; model = code is validated by differential testing, not proved. Assumed: the '
              'target answers each request at most once and never from inside the request call; a reply that is in '
              'flight when Abort() is called is dropped by the line or delivered late while no new run has been started '
              '(a stale reply arriving after the NEXT Start is indistinguishable from that run\'s own reply and is not '
              'modelled); '
              'a DUB reply length fits unsigned int. The conforming line of the completeness theorems is a Coq '
              'definition (E120.v e_step/e_branch; coll_or = byte-wise OR as on the harness line); completeness on it is '
              'proved for fewer than 2^32 responders (uids_discovered is an unsigned int). "uids = S" is stated as '
              'equality of membership.')
TECHNIQUE = 'Coq proof on hand-written executable model + extracted-model/implementation differential correspondence'
DESIGN_REF = 'DESIGN.md §4 C11'
