(* C11: termination of discovery for every stream of answers. *)
From OlaBase Require Import Bytes.
From C11 Require Import Gen Model Lemmas Send Push Step.
Local Open Scope N_scope.

Definition inv (s : st) : Prop :=
  on_complete s = true /\ stack_ok (stack s) /\ top_ok (stack s) /\
  set_ok (uids s) /\ set_ok (bad s) /\
  (pending s = PBranch \/
   (pending s = PMuteBr /\ ~ In (muting s) (uids s) /\ ~ In (muting s) (bad s) /\
    muting s < TWO48 /\ mute_att s < 5)).

Definition G (s : st) : N := (TWO48 - card (uids s)) + (TWO48 - card (bad s)).
Definition mu2 (s : st) : N :=
  phi_wait (stack s) * 6 + match pending s with PMuteBr => 5 - mute_att s | _ => 6 end.

Definition finished (s s' : st) : Prop :=
  pending s' = PIdle /\ completions s' = completions s + 1 /\ set_ok (uids s') /\
  (exists b, result s' = Some (b, uids s')) /\ on_complete s' = false.

Definition progress (s s' : st) : Prop :=
  (inv s' /\ completions s' = completions s /\ (G s' < G s \/ (G s' = G s /\ mu2 s' < mu2 s)))
  \/ finished s s'.

Lemma sent_progress s s1 s' b :
  sent s1 s' b -> set_ok (uids s1) -> set_ok (bad s1) -> completions s1 = completions s ->
  (G s1 < G s \/ (G s1 = G s /\ b * 6 + 6 < mu2 s)) -> progress s s'.
Proof.
  unfold sent. intros [U1 [U2 H]] Hu Hb Hc Hm.
  assert (HG : G s' = G s1) by (unfold G; rewrite U1, U2; reflexivity).
  destruct H as [[P1 [P2 [P3 [P4 [P5 P6]]]]]|[P1 [P2 [P3 P4]]]].
  - left. split; [|split].
    + unfold inv. rewrite U1, U2. repeat split; try assumption; try apply Hu; try apply Hb. left. exact P1.
    + congruence.
    + rewrite HG. destruct Hm as [Hm|[Hm1 Hm2]]; [left; exact Hm|right]. split; [exact Hm1|].
      unfold mu2 at 1. rewrite P1.
      assert (phi_wait (stack s') * 6 + 6 <= b * 6 + 6) by lia. lia.
  - right. unfold finished. rewrite U1. repeat split; try assumption; try apply Hu; try congruence.
    eexists. rewrite P4, U1. reflexivity.
Qed.

(* ---------- DUB decoding facts ---------- *)
Lemma scan_inl d : forall k off r, scan d off k = inl r -> r = DOob \/ r = DCollision.
Proof.
  induction k as [|k IH]; intros off r; cbn [scan]; destruct (byte_at d off) as [b|];
    try (intros H; inversion H; auto; fail).
  - destruct (b =? PREAMBLE_SEPARATOR); intros H; discriminate H.
  - destruct (b =? PREAMBLE_SEPARATOR); [intros H; discriminate H|].
    destruct (b =? PREAMBLE); [apply IH | intros H; inversion H; auto].
Qed.

Lemma decode_valid_lt d u : decode d = DValid u -> u < TWO48.
Proof.
  unfold decode. intros H.
  destruct (len d =? 0); [discriminate H|].
  destruct (len d <? 1 + EUID_SIZE + CHECKSUM_SIZE); [discriminate H|].
  destruct (scan d 0 (N.to_nat (PREAMBLE_SIZE - 1))) as [r|off] eqn:Es.
  { destruct (scan_inl _ _ _ _ Es) as [->| ->]; discriminate H. }
  repeat match type of H with
         | context [if ?c then _ else _] => destruct c
         | context [match ?x with _ => _ end] => destruct x
         end; try discriminate H.
  inversion H. apply uid_of_parts_lt.
Qed.

Lemma scan_ok d : forall k off, off + N.of_nat k <= 7 -> 17 <= len d ->
  scan d off k = inl DCollision \/ exists o, scan d off k = inr o /\ o <= 7.
Proof.
  induction k as [|k IH]; intros off Ho Hl; cbn [scan].
  - destruct (rd_lt_some d off) as [x Hx]; [lia|]. unfold byte_at. rewrite Hx.
    destruct (u8 x =? PREAMBLE_SEPARATOR); right; exists off; split; (reflexivity || lia).
  - destruct (rd_lt_some d off) as [x Hx]; [lia|]. unfold byte_at. rewrite Hx.
    destruct (u8 x =? PREAMBLE_SEPARATOR); [right; exists off; split; (reflexivity || lia)|].
    destruct (u8 x =? PREAMBLE); [|left; reflexivity].
    apply IH; lia.
Qed.

Lemma decode_no_oob d : len d < 4294967296 -> decode d <> DOob.
Proof.
  intros Hl. unfold decode.
  destruct (len d =? 0); [discriminate|].
  change (1 + EUID_SIZE + CHECKSUM_SIZE) with 17.
  destruct (len d <? 17) eqn:E17; [discriminate|]. apply N.ltb_ge in E17.
  change (N.to_nat (PREAMBLE_SIZE - 1)) with 7%nat.
  destruct (scan_ok d 7 0 ltac:(lia) E17) as [Hs|[o [Hs Ho]]]; rewrite Hs; [discriminate|].
  destruct (rd_lt_some d o) as [x Hx]; [lia|]. unfold byte_at. rewrite Hx.
  destruct (negb (u8 x =? PREAMBLE_SEPARATOR)); [discriminate|].
  assert (Hrem : usub32 (len d) (o + 1) = len d - (o + 1)).
  { unfold usub32, u32. rewrite (N.mod_small (o + 1)) by lia.
    replace (len d + 4294967296 - (o + 1)) with ((len d - (o + 1)) + 1 * 4294967296) by lia.
    rewrite N.mod_add by lia. apply N.mod_small. lia. }
  rewrite Hrem. change (EUID_SIZE + CHECKSUM_SIZE) with 16.
  destruct (len d - (o + 1) <? 16) eqn:E16; [discriminate|]. apply N.ltb_ge in E16.
  unfold bytes_at.
  assert (Hlen : length (firstn 16 (drop (o + 1) d)) = 16%nat).
  { rewrite firstn_length. unfold drop. rewrite skipn_length. unfold len in *. lia. }
  rewrite Hlen. cbn [Nat.eqb].
  remember (map u8 (firstn 16 (drop (o + 1) d))) as l eqn:El.
  assert (Hll : length l = 16%nat) by (rewrite El, map_length; exact Hlen).
  do 16 (destruct l as [|? l]; [discriminate Hll|]).
  destruct l; [|discriminate Hll].
  destruct (negb _); discriminate.
Qed.
