(* C11: pushing child ranges (HandleCollision / SplitAroundBadUID) lowers the potential. *)
From OlaBase Require Import Bytes.
From C11 Require Import Gen Model Lemmas Send.
Local Open Scope N_scope.

Lemma uid_of_u64_id x : x < TWO48 -> uid_of_u64 x = x.
Proof. unfold uid_of_u64, u16, u32, TWO32, TWO48. intros H. lia. Qed.

Lemma uid_of_parts_lt m d : uid_of_parts m d < TWO48.
Proof. unfold uid_of_parts, u16, u32, TWO32, TWO48. lia. Qed.

Definition child_of (r : range) (n : nat) (c : range) : Prop :=
  r_lo c <= r_hi c /\ r_hi c < TWO48 /\ r_att c = 0 /\ r_fail c = 0 /\ r_ud c = 0 /\
  r_par c = Some n /\ width c < width r.

Lemma child_val r n c : child_of r n c -> val false c * 2 < unit_of r.
Proof.
  intros [H1 [H2 [H3 [H4 [H5 [H6 H7]]]]]]. unfold val, unit_of. rewrite H3, H4.
  assert (19 ^ width r = 19 * 19 ^ (width r - 1)) as ->.
  { rewrite <- N.pow_succ_r'. f_equal. lia. }
  assert (19 ^ width c <= 19 ^ (width r - 1)) as Hle by (apply N.pow_le_mono_r; lia).
  assert (1 <= 19 ^ width c) by (pose proof (N.pow_nonzero 19 (width c)); lia).
  change (5 - 0 - 1 + (5 - 0)) with 9. lia.
Qed.

Lemma phi_b_children cs l :
  (forall c, In c cs -> r_ud c = 0) ->
  phi_b (cs ++ l) false = fold_right (fun c acc => val false c + acc) (phi_b l false) cs.
Proof.
  intros H. induction cs as [|c cs IH]; cbn [app phi_b fold_right]; [reflexivity|].
  rewrite (H c (or_introl eq_refl)). change (0 <? 0) with false. cbn [orb].
  rewrite IH; [reflexivity|]. intros c' Hc'. apply H. right. exact Hc'.
Qed.

(* state after the children [cs] (at most two) were pushed over the top range and SendDiscovery ran *)
Lemma push_spec s1 r rest cs :
  stack s1 = r :: rest -> stack_ok (stack s1) -> on_complete s1 = true ->
  (length cs <= 2)%nat -> (forall c, In c cs -> child_of r (length rest) c) ->
  exists b, sent s1 (send false (set_stack s1 (cs ++ r_set_ud r 0 :: rest))) b /\
            b < val true r + phi_b rest (0 <? r_ud r).
Proof.
  intros Es Hok Hoc Hlen Hcs. rewrite Es in Hok. cbn [stack_ok] in Hok.
  destruct Hok as [[Hlo [Hhi Hatt]] [Hpar Hrest]].
  set (r0 := r_set_ud r 0).
  assert (Hok0 : stack_ok (r0 :: rest)).
  { cbn [stack_ok]. unfold range_ok, r0; cbn. auto. }
  assert (Hok1 : stack_ok (cs ++ r0 :: rest)).
  { assert (forall c t, child_of r (length rest) c -> stack_ok t -> (length rest < length t)%nat ->
                        stack_ok (c :: t)) as Hc.
    { intros c t [H1 [H2 [H3 [H4 [H5 [H6 H7]]]]]] Ht Hl. cbn [stack_ok]. unfold range_ok.
      rewrite H3, H6. repeat split; try assumption; lia. }
    destruct cs as [|c1 [|c2 [|c3 cs]]]; cbn [app].
    - exact Hok0.
    - apply Hc; [apply Hcs; left; reflexivity | exact Hok0 | cbn [length]; lia].
    - apply Hc; [apply Hcs; left; reflexivity | | cbn [length]; lia].
      apply Hc; [apply Hcs; right; left; reflexivity | exact Hok0 | cbn [length]; lia].
    - cbn [length] in Hlen. lia. }
  set (s2 := set_stack s1 (cs ++ r0 :: rest)).
  pose proof (send_spec s2 Hok1 Hoc) as Hs.
  exists (phi_b (stack s2) false). split.
  - unfold sent in *. exact Hs.
  - unfold s2. cbn [stack set_stack].
    rewrite phi_b_children by (intros c Hc; apply (Hcs c Hc)).
    assert (Hr0 : val false r0 + unit_of r = val true r).
    { unfold val, unit_of, width, r0, r_set_ud; cbn [r_lo r_hi r_att r_fail].
      generalize (19 ^ (r_hi r - r_lo r)). intros u.
      assert (5 - r_att r - 0 + (5 - r_fail r) = (5 - r_att r - 1 + (5 - r_fail r)) + 1) as -> by lia.
      lia. }
    assert (Hrest0 : phi_b (r0 :: rest) false = val false r0 + phi_b rest false).
    { cbn [phi_b]. unfold r0 at 1 3. cbn [r_ud r_set_ud]. change (0 <? 0) with false. reflexivity. }
    rewrite Hrest0.
    pose proof (phi_b_mono rest (0 <? r_ud r)) as Hm.
    assert (Hsum : forall base, fold_right (fun c acc => val false c + acc) base cs < base + unit_of r).
    { intros base. pose proof (unit_pos r) as Hu.
      destruct cs as [|c1 [|c2 [|c3 cs]]]; cbn [fold_right].
      - lia.
      - pose proof (child_val r _ c1 (Hcs c1 (or_introl eq_refl))). lia.
      - pose proof (child_val r _ c1 (Hcs c1 (or_introl eq_refl))).
        pose proof (child_val r _ c2 (Hcs c2 (or_intror (or_introl eq_refl)))). lia.
      - cbn [length] in Hlen. lia. }
    specialize (Hsum (val false r0 + phi_b rest false)).
    generalize dependent (fold_right (fun c acc => val false c + acc) (val false r0 + phi_b rest false) cs).
    intros x Hx. 
    generalize dependent (val false r0). generalize dependent (val true r).
    generalize dependent (phi_b rest false). generalize dependent (phi_b rest (0 <? r_ud r)).
    generalize (unit_of r). clear. intros. lia.
Qed.
