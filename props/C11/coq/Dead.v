(* C11: m_muting_uid and m_mute_attempts are dead across runs: a run does not depend on the values they
   had when it started (they are written by MaybeMuteNextDevice / BranchComplete before they are read). *)
From OlaBase Require Import Bytes.
From C11 Require Import Gen Model Lemmas.
Local Open Scope N_scope.

(* the same state with other values in the two fields *)
Definition sm (s : st) (m a : N) : st := set_mute s m a (queue s).

Lemma free_current_sm s m a : free_current (sm s m a) = sm (free_current s) m a.
Proof.
  destruct s as [stk u b sp q mu uc ma tc oc p c r]. unfold free_current, sm; cbn.
  destruct stk as [|r0 [|r1 rest]]; try reflexivity.
  destruct (r_par r0) as [k|]; try reflexivity.
  match goal with |- context [if ?c then _ else _] => destruct c end; reflexivity.
Qed.

Lemma send_disc_sm : forall n s m a, send_disc false n (sm s m a) = sm (send_disc false n s) m a.
Proof.
  induction n as [|n IH]; intros s m a.
  - destruct s as [stk u b sp q mu uc ma tc oc p c r]. unfold sm; cbn.
    destruct stk as [|r0 rest]; [destruct oc; reflexivity|].
    destruct (_ || _ || _); reflexivity.
  - cbn [send_disc]. change (stack (sm s m a)) with (stack s). change (on_complete (sm s m a)) with (on_complete s).
    destruct (stack s) as [|r0 rest] eqn:Es.
    + destruct s as [stk u b sp q mu uc ma tc oc p c r]. unfold sm; cbn. destruct oc; reflexivity.
    + destruct (_ || _ || _).
      * destruct (r_par _) as [k|].
        -- destruct (Nat.ltb k (length rest)).
           ++ rewrite <- IH. f_equal. rewrite <- free_current_sm. f_equal.
           ++ reflexivity.
        -- rewrite <- IH. f_equal. rewrite <- free_current_sm. f_equal.
      * reflexivity.
Qed.

Lemma send_sm s m a : send false (sm s m a) = sm (send false s) m a.
Proof. unfold send. change (stack (sm s m a)) with (stack s). apply send_disc_sm. Qed.

Lemma hc_sm s m a : handle_collision false (sm s m a) = sm (handle_collision false s) m a.
Proof.
  unfold handle_collision. change (stack (sm s m a)) with (stack s).
  destruct (stack s) as [|r rest]; [reflexivity|].
  destruct (r_lo r =? r_hi r); rewrite <- send_sm; reflexivity.
Qed.

Lemma sa_sm p s m a : split_around false p (sm s m a) = sm (split_around false p s) m a.
Proof.
  unfold split_around. change (stack (sm s m a)) with (stack s).
  destruct (stack s) as [|r rest] eqn:Es; [reflexivity|].
  destruct (r_lo r =? r_hi r); [rewrite <- send_sm; reflexivity|].
  destruct ((p <? r_lo r) || (r_hi r <? p)); [apply hc_sm|].
  rewrite <- send_sm. reflexivity.
Qed.

Lemma send_disc_pending : forall n s,
  pending (send_disc false n s) <> PMuteInc /\ pending (send_disc false n s) <> PMuteBr.
Proof.
  induction n as [|n IH]; intros s; cbn [send_disc]; destruct (stack s) as [|r0 rest].
  - destruct (on_complete s); cbn; split; discriminate.
  - destruct (_ || _ || _); cbn; split; discriminate.
  - destruct (on_complete s); cbn; split; discriminate.
  - destruct (_ || _ || _); [|cbn; split; discriminate].
    destruct (r_par _) as [k|]; [destruct (Nat.ltb k (length rest))|]; try apply IH.
    cbn; split; discriminate.
Qed.

(* agreement up to the two dead fields, which must agree where they are live *)
Definition same_run (s t : st) : Prop :=
  t = sm s (muting t) (mute_att t) /\
  (pending s = PMuteInc \/ pending s = PMuteBr -> muting s = muting t) /\
  (pending s = PMuteBr -> mute_att s = mute_att t).

Lemma sm_id s : sm s (muting s) (mute_att s) = s.
Proof. destruct s; reflexivity. Qed.

Lemma same_run_sm s m a :
  pending s <> PMuteInc -> pending s <> PMuteBr -> same_run s (sm s m a).
Proof.
  intros H1 H2. unfold same_run. split; [destruct s; reflexivity|].
  split; [intros [H|H]; contradiction | intros H; contradiction].
Qed.

Lemma same_run_send s m a : same_run (send false s) (send false (sm s m a)).
Proof. rewrite send_sm. apply same_run_sm; unfold send; apply send_disc_pending. Qed.

Lemma same_run_refl s : same_run s s.
Proof. unfold same_run. rewrite sm_id. auto. Qed.

Lemma hc_pending s : pending (handle_collision false s) <> PMuteInc /\ pending (handle_collision false s) <> PMuteBr.
Proof.
  unfold handle_collision. destruct (stack s) as [|r rest]; [cbn; split; discriminate|].
  destruct (r_lo r =? r_hi r); unfold send; apply send_disc_pending.
Qed.

Lemma sa_pending p s : pending (split_around false p s) <> PMuteInc /\ pending (split_around false p s) <> PMuteBr.
Proof.
  unfold split_around. destruct (stack s) as [|r rest]; [cbn; split; discriminate|].
  destruct (r_lo r =? r_hi r); [unfold send; apply send_disc_pending|].
  destruct (_ || _); [apply hc_pending | unfold send; apply send_disc_pending].
Qed.

Lemma mmn_same s0 m a : same_run (maybe_mute_next false s0) (maybe_mute_next false (sm s0 m a)).
Proof.
  unfold maybe_mute_next. change (queue (sm s0 m a)) with (queue s0).
  destruct (queue s0) as [|u q] eqn:Eq; [apply same_run_send|].
  unfold same_run. split; [destruct s0; reflexivity|]. split; [intros _; reflexivity | intros H; discriminate H].
Qed.

Lemma step_same s t ans : same_run s t -> same_run (step false s ans) (step false t ans).
Proof.
  intros [Ht [Hm Ha]].
  set (m := muting t) in *. set (a := mute_att t) in *. clearbody m a. subst t.
  unfold step. change (pending (sm s m a)) with (pending s).
  destruct (pending s) eqn:Ep.
  - apply same_run_sm; rewrite Ep; discriminate.
  - unfold unmute_complete. change (stack (sm s m a)) with (stack s). change (unmute_count (sm s m a)) with (unmute_count s).
    destruct (stack s) as [|r rest].
    + change (set_pending (sm s m a) PIdle) with (sm (set_pending s PIdle) m a). apply same_run_sm; cbn; discriminate.
    + destruct (u32 (unmute_count s + 1) <? UNMUTES).
      * change (set_pending (set_unmute_count (sm s m a) (u32 (unmute_count s + 1))) PUnmute)
          with (sm (set_pending (set_unmute_count s (u32 (unmute_count s + 1))) PUnmute) m a).
        apply same_run_sm; cbn; discriminate.
      * change (set_unmute_count (sm s m a) (u32 (unmute_count s + 1)))
          with (sm (set_unmute_count s (u32 (unmute_count s + 1))) m a). apply mmn_same.
  - assert (Em : muting s = m) by (apply Hm; left; reflexivity).
    unfold inc_mute_complete. destruct (a_ok ans); cbv iota; [exact (mmn_same s m a)|].
    subst m. exact (mmn_same (set_uids s (set_remove (muting s) (uids s))) (muting s) a).
  - unfold branch_complete. destruct (decode (a_data ans)) as [| |u|].
    + change (stack (sm s m a)) with (stack s).
      destruct (stack s) as [|r rest]; [apply same_run_send|].
      rewrite free_current_sm. apply same_run_send.
    + rewrite hc_sm. apply same_run_sm; apply hc_pending.
    + change (stack (sm s m a)) with (stack s). change (uids (sm s m a)) with (uids s).
      change (bad (sm s m a)) with (bad s). change (split (sm s m a)) with (split s).
      destruct (stack s) as [|r rest] eqn:Es.
      * change (hazard (sm s m a)) with (sm (hazard s) m a). apply same_run_sm; cbn; discriminate.
      * assert (Htf : top_fail_inc (sm s m a) = sm (top_fail_inc s) m a).
        { unfold top_fail_inc. change (stack (sm s m a)) with (stack s). rewrite Es. reflexivity. }
        destruct (set_mem u (uids s)).
        -- rewrite Htf. destruct (negb (set_mem u (split s))).
           ++ change (set_split (sm (top_fail_inc s) m a) (set_add u (split s)))
                with (sm (set_split (top_fail_inc s) (set_add u (split s))) m a).
              rewrite sa_sm. apply same_run_sm; apply sa_pending.
           ++ rewrite hc_sm. apply same_run_sm; apply hc_pending.
        -- destruct (set_mem u (bad s)).
           ++ rewrite Htf. destruct (negb (set_mem u (split s))).
              ** rewrite sa_sm. apply same_run_sm; apply sa_pending.
              ** rewrite hc_sm. apply same_run_sm; apply hc_pending.
           ++ change (set_pending (set_mute (sm s m a) u 0 (queue (sm s m a))) PMuteBr)
                with (set_pending (set_mute s u 0 (queue s)) PMuteBr). apply same_run_refl.
    + change (hazard (sm s m a)) with (sm (hazard s) m a). apply same_run_sm; cbn; discriminate.
  - assert (Em : muting s = m) by (apply Hm; right; reflexivity).
    assert (Ea : mute_att s = a) by (apply Ha; reflexivity).
    subst m a. rewrite sm_id. apply same_run_refl.
  - apply same_run_sm; rewrite Ep; discriminate.
Qed.

Lemma run_same : forall n f s t, same_run s t -> same_run (run false n f s) (run false n f t).
Proof.
  induction n as [|n IH]; intros f s t H; cbn [run]; [exact H|]. apply IH. apply step_same. exact H.
Qed.

Lemma same_run_obs s t : same_run s t ->
  pending t = pending s /\ result t = result s /\ uids t = uids s /\ completions t = completions s /\
  call_of t = call_of s.
Proof.
  intros [Ht [Hm Ha]]. rewrite Ht. repeat split.
  unfold call_of. change (pending (sm s (muting t) (mute_att t))) with (pending s).
  change (stack (sm s (muting t) (mute_att t))) with (stack s).
  destruct (pending s); try reflexivity; (rewrite Hm; [reflexivity | auto]).
Qed.

Lemma stateless_strong_w : forall (inc : bool) (s t : st) (n : nat) (f : nat -> answer),
  (inc = true -> uids s = uids t) -> completions s = completions t ->
  let a := run false n f (init inc s) in
  let b := run false n f (init inc t) in
  pending b = pending a /\ result b = result a /\ uids b = uids a /\ completions b = completions a /\
  call_of b = call_of a.
Proof.
  intros inc s t n f Hu Hc a b. apply same_run_obs. apply run_same.
  assert (init inc t = sm (init inc s) (muting t) (mute_att t)) as ->.
  { unfold init, sm; cbn. rewrite Hc. destruct inc; [rewrite (Hu eq_refl)|]; reflexivity. }
  apply same_run_sm; cbn; discriminate.
Qed.
