(* C11: well-formedness of every agent state reachable through Starts, replies and Aborts, and
   termination of the running discovery from any such state. *)
From OlaBase Require Import Bytes.
From C11 Require Import Gen Model Session Lemmas Send Push Step Term Term2 Term3.
Local Open Scope N_scope.

Definition pre (s : st) : Prop :=
  on_complete s = true /\ stack s = [root] /\ set_ok (uids s) /\ bad s = [].
Definition running (s : st) : Prop :=
  inv s \/ (pending s = PUnmute /\ unmute_count s < 3 /\ pre s) \/ (pending s = PMuteInc /\ pre s).
Definition idle_ok (s : st) : Prop := on_complete s = false /\ pending s = PIdle /\ set_ok (uids s).
Definition wf (s : st) : Prop := running s \/ idle_ok s.

Lemma running_facts s : running s ->
  on_complete s = true /\ pending s <> PIdle /\ pending s <> PHazard /\ set_ok (uids s).
Proof.
  intros [H|[[Hp [_ [H1 [_ [H2 _]]]]]|[Hp [H1 [_ [H2 _]]]]]].
  - destruct (inv_active s H) as [A1 A2]. destruct H as [H1 [_ [_ [H2 _]]]]. auto.
  - rewrite Hp. repeat split; try assumption; try discriminate; apply H2.
  - rewrite Hp. repeat split; try assumption; try discriminate; apply H2.
Qed.

Lemma finished_idle s s' : finished s s' -> idle_ok s'.
Proof. intros [F1 [F2 [F3 [F4 F5]]]]. unfold idle_ok. auto. Qed.

Lemma sent_wf s1 s' b :
  sent s1 s' b -> set_ok (uids s1) -> set_ok (bad s1) ->
  (running s' /\ completions s' = completions s1) \/ finished s1 s'.
Proof.
  intros [U1 [U2 [[P1 [P2 [P3 [P4 [P5 P6]]]]]|[P1 [P2 [P3 P4]]]]]] Hu Hb.
  - left. split; [|exact P3]. left. unfold inv. rewrite U1, U2.
    repeat split; try assumption; try apply Hu; try apply Hb. left. exact P1.
  - right. unfold finished. rewrite U1. repeat split; try assumption; try apply Hu.
    eexists. rewrite P4, U1. reflexivity.
Qed.

Lemma mmn_wf s : pre s ->
  (running (maybe_mute_next false s) /\ completions (maybe_mute_next false s) = completions s)
  \/ finished s (maybe_mute_next false s).
Proof.
  intros [Hoc [Hst [Hu Hb]]]. unfold maybe_mute_next. destruct (queue s) as [|u q] eqn:Eq.
  - assert (Hok : stack_ok (stack s)) by (rewrite Hst; apply root_ok).
    apply (sent_wf s _ _ (send_spec s Hok Hoc) Hu). rewrite Hb. apply set_ok_nil.
  - left. split; [|reflexivity]. right. right. split; [reflexivity|]. unfold pre; cbn. repeat split; auto; apply Hu.
Qed.

Lemma step_wf s a : running s -> len (a_data a) < 4294967296 ->
  (running (step false s a) /\ completions (step false s a) = completions s)
  \/ finished s (step false s a).
Proof.
  intros [H|[[Hp [Hc [Hoc [Hst [Hu Hb]]]]]|[Hp [Hoc [Hst [Hu Hb]]]]]] Hl.
  - destruct (step_progress s a H Hl) as [[Hi [Hc _]]|Hf]; [left; split; [left; exact Hi | exact Hc] | right; exact Hf].
  - unfold step. rewrite Hp. unfold unmute_complete. rewrite Hst, UNMUTES3.
    assert (u32 (unmute_count s + 1) = unmute_count s + 1) as -> by (unfold u32; apply N.mod_small; lia).
    destruct (unmute_count s + 1 <? 3) eqn:E.
    + apply N.ltb_lt in E. left. split; [|reflexivity]. right. left. unfold pre; cbn. repeat split; auto; apply Hu.
    + set (s1 := set_unmute_count s (unmute_count s + 1)).
      assert (Hpre : pre s1) by (unfold pre, s1; cbn; repeat split; auto; apply Hu).
      destruct (mmn_wf s1 Hpre) as [H|H]; [left; exact H | right; exact H].
  - unfold step. rewrite Hp. unfold inc_mute_complete.
    destruct (a_ok a).
    + assert (Hpre : pre s) by (unfold pre; repeat split; auto; apply Hu). apply (mmn_wf s Hpre).
    + set (s1 := set_uids s (set_remove (muting s) (uids s))).
      assert (Hpre : pre s1) by (unfold pre, s1; cbn; repeat split; try assumption; apply set_remove_ok; exact Hu).
      destruct (mmn_wf s1 Hpre) as [H|H]; [left; exact H | right; exact H].
Qed.

Lemma running_init inc s : set_ok (uids s) -> running (init inc s).
Proof.
  intros Hu. right. left. cbn. repeat split; try reflexivity.
  - destruct inc; [apply Hu | constructor].
  - destruct inc; [apply Hu | intros x []].
Qed.

Lemma term_running c0 s : running s -> completions s = c0 ->
  forall f, ok_stream f -> exists n, good c0 f s n.
Proof.
  intros [H|[[Hp [Hc [Hoc [Hst [Hu Hb]]]]]|[Hp [Hoc [Hst [Hu Hb]]]]]] Hc0 f Hf.
  - apply (term_inv c0 (G s) (mu2 s) s H eq_refl eq_refl Hc0 f Hf).
  - apply (term_unmute c0 (N.to_nat (3 - unmute_count s)) (unmute_count s) s); auto.
  - assert (exists n, good c0 (shift f) (step false s (f O)) n) as [n Hn].
    { unfold step. rewrite Hp. unfold inc_mute_complete. destruct (a_ok (f O)).
      - apply (term_mmn c0 (queue s)); auto. apply ok_shift; exact Hf.
      - apply (term_mmn c0 (queue s)); auto; [|apply ok_shift; exact Hf].
        cbn. apply set_remove_ok. exact Hu. }
    exists (S n). apply good_step; try assumption; rewrite Hp; discriminate.
Qed.

Lemma abort_idle s : set_ok (uids s) -> idle_ok (abort s).
Proof. intros Hu. unfold abort, idle_ok. destruct (on_complete s) eqn:E; cbn; auto. Qed.

Lemma wf_set_ok s : wf s -> set_ok (uids s).
Proof. intros [H|[_ [_ H]]]; [apply (running_facts s H) | exact H]. Qed.

Lemma wf_not_hazard s : wf s -> pending s <> PHazard.
Proof. intros [H|[_ [H _]]]; [apply (running_facts s H) | rewrite H; discriminate]. Qed.
