(* C11: whole discovery runs on a line whose collisions may decode as anything. *)
From OlaBase Require Import Bytes.
From C11 Require Import Gen Model Lemmas Send Push E120 Complete Complete2 Term Term3 Bound2 Wired.
Local Open Scope N_scope.

Section Wired2.
Variable S : list N.
Variable coll : list N -> list N.
Hypothesis S_nodup : NoDup S.
Hypothesis S_lt : forall x, In x S -> x < ALL_DEVICES_UID.
Hypothesis S_small : N.of_nat (length S) < 4294967296.
Hypothesis coll_ok : forall A, (2 <= length A)%nat -> coll A <> [] /\ len (coll A) < 4294967296.

Notation e_run := (e_run S coll).

Lemma S_lt48' : forall x, In x S -> x < TWO48.
Proof. intros x H. pose proof (S_lt x H) as H1. clear - H1. unfold ALL_DEVICES_UID, TWO48 in *. lia. Qed.

Lemma finish_w s M :
  stack s = [root] -> bad s = [] -> on_complete s = true -> tree_corrupt s = false ->
  (forall x, In x (uids s) <-> In x M) -> (forall x, In x M -> In x S) ->
  exists n e Mf, e_run n (send false s) M = (e, Mf) /\
    pending e = PIdle /\ completions e = completions s + 1 /\ result e = Some (true, uids e) /\
    (forall x, In x (uids e) <-> In x S).
Proof.
  intros Hst Hb Hoc Htc Hu Hm.
  set (root1 := r_set_att root (u32 (r_att root + 1))).
  assert (Hsend : send false s = set_pending (set_stack s [root1]) PBranch).
  { rewrite (send_top s root [] Hst); vm_compute; reflexivity. }
  set (sB := set_pending _ PBranch) in Hsend.
  destruct (process_w S coll S_nodup S_lt48' S_small coll_ok (width root1) (N.to_nat (U S M)) sB M root1 []
              eq_refl eq_refl eq_refl eq_refl ltac:(vm_compute; discriminate) ltac:(vm_compute; reflexivity)
              eq_refl eq_refl eq_refl)
    as [n [sf [rf [M' [E [St [Par [Cor [[Rb [Roc [Ru Rs]]] [Mono [Cov [Tc Cp]]]]]]]]]]]].
  { change (r_ud root1) with 0. unfold U, unmuted. pose proof (Bound2.filter_length_le (fun x => negb (set_mem x M)) S). lia. }
  { unfold rel', sB; cbn. rewrite Hb. repeat split; try assumption; try apply Hu. intros x []. }
  assert (Hfc : free_current sf = set_tc (set_stack sf []) (tree_corrupt sf)).
  { rewrite (free_current_single sf rf St). rewrite Cor. reflexivity. }
  assert (Hfin : send false (free_current sf) =
                 mkSt [] (uids sf) (bad sf) (split sf) (queue sf) (muting sf) (unmute_count sf) (mute_att sf)
                      (tree_corrupt sf) false PIdle (completions sf + 1) (Some (negb (tree_corrupt sf), uids sf))).
  { rewrite Hfc. rewrite send_empty by (cbn; auto). reflexivity. }
  exists n. eexists. exists M'. rewrite Hsend, E, Hfin. split; [reflexivity|]. cbn.
  unfold sB in Tc, Cp; cbn in Tc, Cp. rewrite Tc, Htc, Cp. repeat split.
  - intros Hx. apply Rs. apply Ru. exact Hx.
  - intros Hx. apply Ru. apply Cov; [exact Hx | |].
    + change (r_lo root1) with 0. lia.
    + change (r_hi root1) with ALL_DEVICES_UID. specialize (S_lt x Hx). lia.
Qed.

Lemma discovery_w (inc : bool) s0 M0 :
  exists n e M, e_run n (init inc s0) M0 = (e, M) /\
    pending e = PIdle /\ completions e = completions s0 + 1 /\ result e = Some (true, uids e) /\
    (forall x, In x (uids e) <-> In x S).
Proof.
  destruct (unmute_phase S coll inc s0 M0) as [s3 [E3 [St3 [B3 [Oc3 [Tc3 [Cp3 [Q3 U3]]]]]]]].
  destruct (inc_phase S coll (queue s3) s3 [] eq_refl St3 B3 Oc3) as [n1 [s' [M' [E1 [St' [B' [Oc' [Tc' [Cp' [Hu' Hm']]]]]]]]]].
  - intros x Hx. right. rewrite Q3. rewrite U3 in Hx. exact Hx.
  - intros x [].
  - intros x Hx _. rewrite U3. rewrite Q3 in Hx. exact Hx.
  - destruct (finish_w s' M' St' B' Oc' ltac:(congruence) Hu' Hm') as [n2 [e [Mf [E2 H]]]].
    exists (3 + (n1 + n2))%nat, e, Mf. rewrite e_run_add, E3. rewrite e_run_add, E1. split; [exact E2|].
    rewrite Cp', Cp3 in H. exact H.
Qed.
End Wired2.

(* the byte-wise OR of the frames of the answering responders (what open-collector wiring gives) *)
Definition coll_or (A : list N) : list N :=
  fold_left (fun acc x => or_bytes acc (dub_frame true 0 x)) A [].

Lemma or_bytes_length a b : length (or_bytes a b) = Nat.max (length a) (length b).
Proof.
  revert b. induction a as [|x a IH]; intros b; cbn [or_bytes length]; [reflexivity|].
  destruct b as [|y b]; cbn [length]; [reflexivity|]. rewrite IH. reflexivity.
Qed.

Lemma dub_frame_length x : length (dub_frame true 0 x) = 24%nat.
Proof. reflexivity. Qed.

Lemma coll_or_length A : forall acc, (length acc <= 24)%nat -> A <> [] ->
  length (fold_left (fun acc x => or_bytes acc (dub_frame true 0 x)) A acc) = 24%nat.
Proof.
  induction A as [|x A IH]; intros acc Ha Hne; [contradiction|]. cbn [fold_left].
  assert (Hl : length (or_bytes acc (dub_frame true 0 x)) = 24%nat).
  { rewrite or_bytes_length, dub_frame_length. lia. }
  destruct A as [|y A]; [exact Hl|]. apply IH; [lia | discriminate].
Qed.

Lemma coll_or_ok : forall A, (2 <= length A)%nat -> coll_or A <> [] /\ len (coll_or A) < 4294967296.
Proof.
  intros A HA. assert (H : length (coll_or A) = 24%nat).
  { unfold coll_or. apply coll_or_length; [cbn; lia | destruct A; [cbn in HA; lia | discriminate]]. }
  split; [intros E; rewrite E in H; discriminate | unfold len; rewrite H; reflexivity].
Qed.

Lemma wired_w : forall (S : list N) (coll : list N -> list N) (inc : bool) (s0 : st) (M0 : list N),
  NoDup S -> (forall x, In x S -> x < 281474976710655) -> N.of_nat (length S) < 4294967296 ->
  (forall A, (2 <= length A)%nat -> coll A <> [] /\ len (coll A) < 4294967296) ->
  exists n e M, e_run S coll n (init inc s0) M0 = (e, M) /\
    pending e = PIdle /\ completions e = completions s0 + 1 /\
    result e = Some (true, uids e) /\ (forall x, In x (uids e) <-> In x S).
Proof. intros S coll inc s0 M0 H1 H2 H3 H4. exact (discovery_w S coll H1 H2 H3 H4 inc s0 M0). Qed.

Lemma wired_or_w : forall (S : list N) (inc : bool) (s0 : st) (M0 : list N),
  NoDup S -> (forall x, In x S -> x < 281474976710655) -> N.of_nat (length S) < 4294967296 ->
  exists n e M, e_run S coll_or n (init inc s0) M0 = (e, M) /\
    pending e = PIdle /\ completions e = completions s0 + 1 /\
    result e = Some (true, uids e) /\ (forall x, In x (uids e) <-> In x S).
Proof. intros S inc s0 M0 H1 H2 H3. exact (wired_w S coll_or inc s0 M0 H1 H2 H3 coll_or_ok). Qed.

(* the OR of the replies of 0000:00000001 and 0000:00000004 is a valid frame of the phantom 0000:00000005;
   discovery still returns exactly {1, 4} and has put 5 on the bad list *)
Lemma phantom_example :
  decode (coll_or [1; 4]) = DValid 5 /\
  (let '(e, M) := e_run [1; 4] coll_or 40 (init false idle0) [] in
   result e = Some (true, [1; 4]) /\ bad e = [5]).
Proof. vm_compute. repeat split. Qed.

Lemma run_stateless_w : forall (inc : bool) (s t : st),
  (inc = true -> uids s = uids t) -> muting s = muting t -> mute_att s = mute_att t ->
  completions s = completions t -> init inc s = init inc t.
Proof.
  intros inc s t H1 H2 H3 H4. unfold init. rewrite H2, H3, H4. destruct inc; [rewrite (H1 eq_refl)|]; reflexivity.
Qed.

(* incremental discovery on the wired-OR line, in the form "kept + new" and for departures *)
Lemma incremental_wired_w : forall (S1 : list N) (s0 : st) (M0 : list N),
  NoDup S1 -> (forall x, In x S1 -> x < 281474976710655) -> N.of_nat (length S1) < 4294967296 ->
  exists n e M, e_run S1 coll_or n (init true s0) M0 = (e, M) /\
    pending e = PIdle /\ completions e = completions s0 + 1 /\ result e = Some (true, uids e) /\
    (forall x, In x (uids e) <-> (In x (uids s0) /\ In x S1) \/ (In x S1 /\ ~ In x (uids s0))).
Proof.
  intros S1 s0 M0 H1 H2 H3.
  destruct (wired_or_w S1 true s0 M0 H1 H2 H3) as [n [e [M [E [P1 [P2 [P3 P4]]]]]]].
  exists n, e, M. repeat split; try assumption.
  - intros Hx. apply P4 in Hx. destruct (in_dec N.eq_dec x (uids s0)); [left|right]; auto.
  - intros [[_ Hx]|[Hx _]]; apply P4; exact Hx.
Qed.

(* the responders [gone] (any of the previously known ones: the highest, the lowest, all, none) have
   left and nothing new arrived: the result is exactly the known ones that stayed *)
Lemma incremental_leave_w : forall (s0 : st) (gone M0 : list N),
  NoDup (uids s0) -> (forall x, In x (uids s0) -> x < 281474976710655) ->
  N.of_nat (length (uids s0)) < 4294967296 ->
  let S1 := filter (fun x => negb (set_mem x gone)) (uids s0) in
  exists n e M, e_run S1 coll_or n (init true s0) M0 = (e, M) /\
    pending e = PIdle /\ completions e = completions s0 + 1 /\ result e = Some (true, uids e) /\
    (forall x, In x (uids e) <-> In x (uids s0) /\ ~ In x gone).
Proof.
  intros s0 gone M0 H1 H2 H3 S1.
  assert (HS1 : forall x, In x S1 <-> In x (uids s0) /\ ~ In x gone).
  { intros x. unfold S1. rewrite filter_In, negb_true_iff. split; intros [A B]; split; try assumption.
    - intros Hi. apply set_mem_In in Hi. congruence.
    - destruct (set_mem x gone) eqn:E; [apply set_mem_In in E; contradiction | reflexivity]. }
  destruct (wired_or_w S1 true s0 M0) as [n [e [M [E [P1 [P2 [P3 P4]]]]]]].
  - apply NoDup_filter. exact H1.
  - intros x Hx. apply H2. apply HS1. exact Hx.
  - pose proof (Bound2.filter_length_le (fun x => negb (set_mem x gone)) (uids s0)). unfold S1. lia.
  - exists n, e, M. split; [exact E|]. split; [exact P1|]. split; [exact P2|]. split; [exact P3|].
    intros x. rewrite P4. apply HS1.
Qed.

Definition known4 : st := mkSt [] [0; 5; 6; 281474976710654] [] [] [] 0 0 0 false false PIdle 0 None.
Definition inc_result (S1 : list N) (s0 : st) : option (bool * list N) * N :=
  let '(e, _) := e_run S1 coll_or 400 (init true s0) [] in (result e, completions e).

Lemma incremental_boundary_examples :
  (* the highest known UID left *)
  inc_result [0; 5; 6] known4 = (Some (true, [0; 5; 6]), 1) /\
  (* the lowest known UID, 0000:00000000, left *)
  inc_result [5; 6; 281474976710654] known4 = (Some (true, [5; 6; 281474976710654]), 1) /\
  (* all known UIDs left *)
  inc_result [] known4 = (Some (true, []), 1) /\
  (* all left and others arrived, among them a pair whose collision is the phantom 5 *)
  inc_result [1; 4; 281474976710653] known4 = (Some (true, [1; 4; 281474976710653]), 1) /\
  (* none known before *)
  inc_result [0; 1; 4; 281474976710654] idle0 = (Some (true, [0; 1; 4; 281474976710654]), 1) /\
  (* nothing changed *)
  inc_result [0; 5; 6; 281474976710654] known4 = (Some (true, [0; 5; 6; 281474976710654]), 1).
Proof. vm_compute. repeat split. Qed.
