(* C11 property theorems.  Model: Model.v (legacy = false is the code with fixes/01 and fixes/02). *)
From OlaBase Require Import Bytes.
From C11 Require Import Gen Model Lemmas Term3.
Local Open Scope N_scope.

(* Termination, exactly-once completion and absence of the modelled hazards (dangling parent range,
   top() of an empty stack, read past the DUB reply) for EVERY stream of answers the line can give:
   f i is the answer to the i-th request (its a_ok is used if that request is a mute, its a_data if it
   is a DUB; data are arbitrary byte strings - silence, collisions, corrupt, truncated, out-of-range
   or repeated UIDs ...).  s0 is any agent state whose UID set is a duplicate-free set of 48-bit
   UIDs (as left by a previous run). *)
Theorem c11_terminates :
  forall (incremental : bool) (s0 : st) (f : nat -> answer),
    (NoDup (uids s0) /\ forall x, In x (uids s0) -> x < 281474976710656) ->
    (forall i, len (a_data (f i)) < 4294967296) ->
    exists n : nat,
      let e := run false n f (init incremental s0) in
      pending e = PIdle /\ completions e = completions s0 + 1 /\
      (exists status, result e = Some (status, uids e)) /\
      (NoDup (uids e) /\ forall x, In x (uids e) -> x < 281474976710656) /\
      (forall m, (m < n)%nat ->
         let x := run false m f (init incremental s0) in
         pending x <> PIdle /\ pending x <> PHazard /\ completions x = completions s0) /\
      (forall m, (n <= m)%nat -> run false m f (init incremental s0) = e).
Proof. exact terminates_full. Qed.
Print Assumptions c11_terminates.

(* the limits the statement refers to are the ones of the header *)
Theorem c11_constants :
  MAX_EMPTY_BRANCH_ATTEMPTS = 5 /\ MAX_BRANCH_FAILURES = 5 /\ MAX_MUTE_ATTEMPTS = 5 /\
  BROADCAST_UNMUTE_REPEATS = 3 /\ PREAMBLE_SIZE = 8 /\ EUID_SIZE = 12 /\ CHECKSUM_SIZE = 4.
Proof. exact constants_w. Qed.
Print Assumptions c11_constants.

(* The code before the fixes does not have the property (witnesses replayed on the implementation by
   corpus.txt): after 2000 bus transactions the completion callback has not run, while the fixed
   code completes.  (Bounded statements: "not complete after 2000 transactions".) *)
(* fixes/01: a responder at 0000:00000000 (or ffff:ffffffff) that never ACKs a mute *)
Theorem c11_legacy_split_wrap_refuted :
  pop_run true [mkP 0 2 false 0] = 0 /\ pop_run true [mkP 281474976710655 2 false 0] = 0 /\
  pop_run false [mkP 0 2 false 0] = 1 /\ pop_run false [mkP 281474976710655 2 false 0] = 1.
Proof. exact legacy_split_wrap_w. Qed.
Print Assumptions c11_legacy_split_wrap_refuted.

(* fixes/02: two adjacent responders, one of which ACKs the mute but keeps answering *)
Theorem c11_legacy_failure_limit_refuted :
  pop_run true [mkP 1000 1 false 0; mkP 1001 0 false 0] = 0 /\
  pop_run false [mkP 1000 1 false 0; mkP 1001 0 false 0] = 1.
Proof. exact legacy_failure_limit_w. Qed.
Print Assumptions c11_legacy_failure_limit_refuted.

(* hypotheses of c11_terminates are satisfiable, and a concrete run *)
Example c11_hyps_sat :
  (NoDup (uids idle0) /\ forall x, In x (uids idle0) -> x < 281474976710656) /\
  (forall i : nat, len (a_data ((fun _ => mkA false []) i)) < 4294967296).
Proof. split; [split; [constructor | intros x []] | intros i; reflexivity]. Qed.

Example c11_run_conforming :
  let '(s, _, log) := run_pop false 2000 [mkP 5 0 false 0; mkP 6 0 false 0; mkP 281474976710654 0 false 0]
                                 (init false idle0) [] in
  result s = Some (true, [5; 6; 281474976710654]) /\ completions s = 1.
Proof. vm_compute. split; reflexivity. Qed.
