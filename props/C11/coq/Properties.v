(* C11 property theorems.  Model: Model.v (legacy = false is the code with fixes/01 and fixes/02). *)
From OlaBase Require Import Bytes.
From C11 Require Import Gen Model Session Lemmas Term3 E120 Complete2 SessInv SessThm Bound2 Wired2 Dead.
Local Open Scope N_scope.

(* Termination, exactly-once completion and absence of the modelled hazards (dangling parent range,
   top() of an empty stack, read past the DUB reply) for EVERY stream of answers the line can give:
   f i is the answer to the i-th request (its a_ok is used if that request is a mute, its a_data if it
   is a DUB; data are arbitrary byte strings - silence, collisions, corrupt, truncated, out-of-range
   or repeated UIDs ...).  s0 is any agent state whose UID set is a duplicate-free set of 48-bit
   UIDs (as left by a previous run). *)
Theorem c11_terminates :
  forall (incremental : bool) (s0 : st) (f : nat -> answer),
    (NoDup (uids s0) /\ forall x, In x (uids s0) -> x < 281474976710656) ->
    (forall i, len (a_data (f i)) < 4294967296) ->
    exists n : nat,
      let e := run false n f (init incremental s0) in
      pending e = PIdle /\ completions e = completions s0 + 1 /\
      (exists status, result e = Some (status, uids e)) /\
      (NoDup (uids e) /\ forall x, In x (uids e) -> x < 281474976710656) /\
      (forall m, (m < n)%nat ->
         let x := run false m f (init incremental s0) in
         pending x <> PIdle /\ pending x <> PHazard /\ completions x = completions s0) /\
      (forall m, (n <= m)%nat -> run false m f (init incremental s0) = e).
Proof. exact terminates_full. Qed.
Print Assumptions c11_terminates.

(* ---------- conforming responders (E1.20) ----------
   The line of E120.v: [S] is the set of connected responders, [M] the muted ones.
     answering M lo hi = the members of S inside [lo,hi] that are not muted;
     e_branch: nobody answering => no reply; exactly one => its DUB frame (dub_frame, the E1.20
       encoding with preamble and checksum); several => [coll A], about which only the hypothesis
       below is assumed: a collision does not decode as a valid reply;
     e_step: UnMuteAll clears M; MuteDevice u is ACKed iff u is in S and then u is muted;
     e_run n: n requests answered.
   Starting from ANY agent state s0 and ANY mute state M0 of the responders. *)
Theorem c11_complete :
  forall (S : list N) (coll : list N -> list N) (s0 : st) (M0 : list N),
    NoDup S -> (forall x, In x S -> x < 281474976710655) ->
    (forall A, (2 <= length A)%nat -> decode (coll A) = DCollision) ->
    exists n e M, e_run S coll n (init false s0) M0 = (e, M) /\
      pending e = PIdle /\ completions e = completions s0 + 1 /\
      result e = Some (true, uids e) /\ (forall x, In x (uids e) <-> In x S).
Proof. exact complete_w. Qed.
Print Assumptions c11_complete.

(* Incremental discovery from a state whose UID set is whatever an earlier run left (uids s0 = S0),
   with the responders S1 now connected: the result is S1, i.e. the previously known responders
   that still answer their mute plus the newly connected ones. *)
Theorem c11_incremental :
  forall (S1 : list N) (coll : list N -> list N) (s0 : st) (M0 : list N),
    NoDup S1 -> (forall x, In x S1 -> x < 281474976710655) ->
    (forall A, (2 <= length A)%nat -> decode (coll A) = DCollision) ->
    exists n e M, e_run S1 coll n (init true s0) M0 = (e, M) /\
      pending e = PIdle /\ completions e = completions s0 + 1 /\
      result e = Some (true, uids e) /\
      (forall x, In x (uids e) <-> (In x (uids s0) /\ In x S1) \/ (In x S1 /\ ~ In x (uids s0))).
Proof. exact incremental_w. Qed.
Print Assumptions c11_incremental.

(* the collision hypothesis is satisfiable, and a concrete conforming run *)
Example c11_coll_sat : forall A, (2 <= length A)%nat -> decode (coll_ff A) = DCollision.
Proof. exact coll_ff_bad. Qed.
Example c11_e120_run :
  let '(e, M) := e_run [7; 5; 281474976710654; 6] coll_ff 200 (init false idle0) [] in
  result e = Some (true, [5; 6; 7; 281474976710654]) /\ completions e = 1.
Proof. exact e120_example. Qed.

(* ---------- histories: Starts, replies and Aborts in any order, state carried between runs ----------
   Session.v: a session is the agent plus the bookkeeping of the client: every Start gets the next id;
   [events] lists the completion callbacks that ran (id, status, UID set).
     s_start inc act : StartFullDiscovery / StartIncrementalDiscovery whose completion callback does [act]
                       (nothing, or start another full / incremental discovery from inside the callback);
                       refused when m_on_complete is set: its callback runs at once with (false, {});
     s_reply a       : the target answers the outstanding request with a (ignored if there is none);
     s_abort         : Abort(): stack emptied, m_on_complete cleared and THEN its callback run with
                       (false, {}); m_uids, m_uids_to_mute and the bad/split sets are kept; the request in
                       flight is dropped by the line.  A Start from inside THIS callback is accepted.
     s_destroy       : ~DiscoveryAgent() = Abort(), then a new agent; (op ODestroy)
     a Start from inside the callback run by SendDiscovery is accepted too (fixes/04); only a Start from
     inside the callback of a REFUSED Start is refused again.
   For EVERY history from the initial state, with arbitrary reply bytes: no modelled hazard; no Start is
   completed twice; every Start issued so far has been completed exactly once, except the one that owns
   the running discovery, which has not been completed yet and IS completed by finitely many further
   replies, whatever they are (its callback may at once start the next run). *)
Theorem c11_sessions :
  forall ops : list op,
    (forall o, In o ops -> match o with OReply a => len (a_data a) < 4294967296 | _ => True end) ->
    let ss := run_ops ops sess0 in
    pending (ag ss) <> PHazard /\
    NoDup (map eid (events ss)) /\
    (forall i, In i (map eid (events ss)) -> i < next_id ss) /\
    (forall i, i < next_id ss ->
       In i (map eid (events ss)) \/ (on_complete (ag ss) = true /\ owner ss = i)) /\
    (on_complete (ag ss) = true -> ~ In (owner ss) (map eid (events ss))) /\
    (on_complete (ag ss) = true ->
     forall f : nat -> answer, (forall i, len (a_data (f i)) < 4294967296) ->
     exists k, In (owner ss) (map eid (events (s_replies k f ss)))).
Proof. exact sessions_w. Qed.
Print Assumptions c11_sessions.

(* a Start while a discovery is running is refused: its own callback runs with (false, {}) and the agent
   is untouched (exactly-once for it follows from c11_sessions) *)
Theorem c11_refused_start :
  forall (ss : sess) (inc : bool) (act : cbact),
    on_complete (ag ss) = true ->
    In (next_id ss, false, []) (events (s_start inc act ss)) /\ ag (s_start inc act ss) = ag ss.
Proof. exact refused_w. Qed.
Print Assumptions c11_refused_start.

(* Abort() of a running discovery completes it with (false, {}); what it leaves behind *)
Theorem c11_abort :
  forall ss : sess,
    (on_complete (ag ss) = true ->
       In (owner ss, false, []) (events (s_abort ss)) /\
       (owner_act ss = ANone ->
          on_complete (ag (s_abort ss)) = false /\ pending (ag (s_abort ss)) = PIdle /\
          stack (ag (s_abort ss)) = [] /\ uids (ag (s_abort ss)) = uids (ag ss) /\
          queue (ag (s_abort ss)) = queue (ag ss))) /\
    (on_complete (ag ss) = false -> events (s_abort ss) = events ss /\ next_id (s_abort ss) = next_id ss).
Proof. exact abort_w. Qed.
Print Assumptions c11_abort.

(* destroying the agent while a discovery is in flight completes it once with (false, {})
   (c11_sessions covers histories containing ODestroy: exactly once also then) *)
Theorem c11_destroy :
  forall ss : sess,
    ag (s_destroy ss) = idle0 /\
    (on_complete (ag ss) = true -> In (owner ss, false, []) (events (s_destroy ss))) /\
    (on_complete (ag ss) = false -> events (s_destroy ss) = events ss /\ next_id (s_destroy ss) = next_id ss).
Proof. exact destroy_w. Qed.
Print Assumptions c11_destroy.

(* a Start issued from inside the completion callback of a run that finished normally is accepted
   (fixes/04: m_on_complete is cleared before the callback runs): the outer completion is recorded once
   and the new run, owned by the next id, starts from the state the finished run left *)
Theorem c11_nested_start :
  forall (ss : sess) (a : answer),
    on_complete (ag ss) = true -> on_complete (step false (ag ss) a) = false -> owner_act ss <> ANone ->
    events (s_reply a ss) =
      (owner ss, fst (res_of (step false (ag ss) a)), snd (res_of (step false (ag ss) a))) :: events ss /\
    owner (s_reply a ss) = next_id ss /\
    ag (s_reply a ss) = init (match owner_act ss with AInc => true | _ => false end) (step false (ag ss) a).
Proof. exact nested_w. Qed.
Print Assumptions c11_nested_start.

(* completeness of a FULL discovery started in ANY state in which no discovery is running - whatever
   mute queue, UID sets, range stack or counters earlier (possibly aborted) runs left behind *)
Theorem c11_complete_any_state :
  forall (ss : sess) (act : cbact) (S : list N) (coll : list N -> list N) (M0 : list N),
    on_complete (ag ss) = false ->
    NoDup S -> (forall x, In x S -> x < 281474976710655) ->
    (forall A, (2 <= length A)%nat -> decode (coll A) = DCollision) ->
    exists n e M, e_run S coll n (ag (s_start false act ss)) M0 = (e, M) /\
      pending e = PIdle /\ completions e = completions (ag ss) + 1 /\
      result e = Some (true, uids e) /\ (forall x, In x (uids e) <-> In x S).
Proof. exact complete_any_state_w. Qed.
Print Assumptions c11_complete_any_state.

(* ---------- number of bus transactions with conforming responders ----------
   A full (inc = false) or incremental (inc = true) discovery against the conforming line of E120.v
   completes - with status true and exactly the connected set - within
       4 + (number of previously known UIDs, incremental only) + 98 * |S|
   requests (3 un-mutes, one mute per previously known UID, and per responder at most 2*48+2 DUBs and
   mutes, 48 = depth of the UID tree, plus the final silent DUB). *)
Theorem c11_bounded_tx :
  forall (S : list N) (coll : list N -> list N) (inc : bool) (s0 : st) (M0 : list N),
    NoDup S -> (forall x, In x S -> x < 281474976710655) ->
    (forall A, (2 <= length A)%nat -> decode (coll A) = DCollision) ->
    exists n e M,
      (n <= 4 + length (if inc then uids s0 else []) + 98 * length S)%nat /\
      e_run S coll n (init inc s0) M0 = (e, M) /\
      pending e = PIdle /\ completions e = completions s0 + 1 /\
      result e = Some (true, uids e) /\ (forall x, In x (uids e) <-> In x S).
Proof. exact bounded_tx_w. Qed.
Print Assumptions c11_bounded_tx.

(* ---------- a reply that arrives after Abort() (fixes/03) ----------
   [s_late k a]: the target delivers the reply a to the request of kind k that was in flight when Abort()
   was called; every callback returns at once when the range stack is empty. *)
Theorem c11_late_reply :
  forall (ss : sess) (k : pend) (a : answer),
    (stack (ag ss) = [] -> s_late k a ss = ss) /\
    (owner_act ss = ANone -> s_late k a (s_abort ss) = s_abort ss).
Proof. exact (fun ss k a => conj (late_w ss k a) (late_after_abort_w ss k a)). Qed.
Print Assumptions c11_late_reply.

(* the UID constants typed into Model.v are the ones of ola/rdm/UID.h *)
Theorem c11_uid_consts :
  ALL_DEVICES_UID = UID_BROADCAST_U64 /\ UID_BROADCAST_U64 = UID_ALL_MANUFACTURERS * TWO32 + UID_ALL_DEVICES /\
  TWO48 = UID_BROADCAST_U64 + 1 /\ UID_ALL_MANUFACTURERS = 65535 /\ UID_ALL_DEVICES = 4294967295 /\
  UID_SIZE = 6 /\ 281474976710655 = UID_BROADCAST_U64.
Proof. exact uid_consts_w. Qed.
Print Assumptions c11_uid_consts.

(* ---------- completeness WITHOUT the "a collision fails validation" hypothesis ----------
   [coll A] - what the line carries when the responders A (two or more) answer the same DUB - is ANY
   non-empty byte string that depends only on A: it may fail validation, decode as a phantom UID that is
   not connected, or decode as a connected responder.  Full (inc = false) and incremental (inc = true)
   discovery still return status true and exactly the connected set.  (|S| < 2^32 because
   uids_discovered is an unsigned int; the property quantifies over 0-64 responders.) *)
Theorem c11_complete_wired :
  forall (S : list N) (coll : list N -> list N) (inc : bool) (s0 : st) (M0 : list N),
    NoDup S -> (forall x, In x S -> x < 281474976710655) -> N.of_nat (length S) < 4294967296 ->
    (forall A, (2 <= length A)%nat -> coll A <> [] /\ len (coll A) < 4294967296) ->
    exists n e M, e_run S coll n (init inc s0) M0 = (e, M) /\
      pending e = PIdle /\ completions e = completions s0 + 1 /\
      result e = Some (true, uids e) /\ (forall x, In x (uids e) <-> In x S).
Proof. exact wired_w. Qed.
Print Assumptions c11_complete_wired.

(* the instance for open-collector wiring: [coll_or A] = byte-wise OR of the DUB frames of A *)
Theorem c11_complete_wired_or :
  forall (S : list N) (inc : bool) (s0 : st) (M0 : list N),
    NoDup S -> (forall x, In x S -> x < 281474976710655) -> N.of_nat (length S) < 4294967296 ->
    exists n e M, e_run S coll_or n (init inc s0) M0 = (e, M) /\
      pending e = PIdle /\ completions e = completions s0 + 1 /\
      result e = Some (true, uids e) /\ (forall x, In x (uids e) <-> In x S).
Proof. exact wired_or_w. Qed.
Print Assumptions c11_complete_wired_or.

(* incremental discovery on the wired-OR line: previously known that still answer, plus new ones *)
Theorem c11_incremental_wired :
  forall (S1 : list N) (s0 : st) (M0 : list N),
    NoDup S1 -> (forall x, In x S1 -> x < 281474976710655) -> N.of_nat (length S1) < 4294967296 ->
    exists n e M, e_run S1 coll_or n (init true s0) M0 = (e, M) /\
      pending e = PIdle /\ completions e = completions s0 + 1 /\ result e = Some (true, uids e) /\
      (forall x, In x (uids e) <-> (In x (uids s0) /\ In x S1) \/ (In x S1 /\ ~ In x (uids s0))).
Proof. exact incremental_wired_w. Qed.
Print Assumptions c11_incremental_wired.

(* departures only: [gone] is any list - the highest known UID, the lowest (also 0000:00000000), all of
   them, none - and the connected set is the known UIDs without them: the incremental result is exactly
   the known UIDs that stayed *)
Theorem c11_incremental_leave :
  forall (s0 : st) (gone M0 : list N),
    NoDup (uids s0) -> (forall x, In x (uids s0) -> x < 281474976710655) ->
    N.of_nat (length (uids s0)) < 4294967296 ->
    let S1 := filter (fun x => negb (set_mem x gone)) (uids s0) in
    exists n e M, e_run S1 coll_or n (init true s0) M0 = (e, M) /\
      pending e = PIdle /\ completions e = completions s0 + 1 /\ result e = Some (true, uids e) /\
      (forall x, In x (uids e) <-> In x (uids s0) /\ ~ In x gone).
Proof. exact incremental_leave_w. Qed.
Print Assumptions c11_incremental_leave.

(* what survives from one run to the next: InitDiscovery keeps m_uids (incremental only), the completion
   counter of the model, and m_muting_uid / m_mute_attempts (both are overwritten before they are read:
   MaybeMuteNextDevice / BranchComplete set them - that part is not proved); everything else - range
   stack with its per-range flags, bad and split sets, mute queue, tree-corrupt flag, un-mute counter -
   is replaced, so the next run does not depend on it *)
Theorem c11_run_stateless :
  forall (inc : bool) (s t : st),
    (inc = true -> uids s = uids t) -> muting s = muting t -> mute_att s = mute_att t ->
    completions s = completions t -> init inc s = init inc t.
Proof. exact run_stateless_w. Qed.
Print Assumptions c11_run_stateless.

(* m_muting_uid and m_mute_attempts are dead across runs: two agents that agree on m_uids (incremental
   only) and the completion counter - whatever else earlier runs left, including these two fields - are
   indistinguishable for every answer stream: same outstanding request, same result, same UID set *)
Theorem c11_run_stateless_strong :
  forall (inc : bool) (s t : st) (n : nat) (f : nat -> answer),
    (inc = true -> uids s = uids t) -> completions s = completions t ->
    let a := run false n f (init inc s) in
    let b := run false n f (init inc t) in
    pending b = pending a /\ result b = result a /\ uids b = uids a /\ completions b = completions a /\
    call_of b = call_of a.
Proof. exact stateless_strong_w. Qed.
Print Assumptions c11_run_stateless_strong.

(* the limits the statement refers to are the ones of the header *)
Theorem c11_constants :
  MAX_EMPTY_BRANCH_ATTEMPTS = 5 /\ MAX_BRANCH_FAILURES = 5 /\ MAX_MUTE_ATTEMPTS = 5 /\
  BROADCAST_UNMUTE_REPEATS = 3 /\ PREAMBLE_SIZE = 8 /\ EUID_SIZE = 12 /\ CHECKSUM_SIZE = 4.
Proof. exact constants_w. Qed.
Print Assumptions c11_constants.

(* The code before the fixes does not have the property (witnesses replayed on the implementation by
   corpus.txt): after 2000 bus transactions the completion callback has not run, while the fixed
   code completes.  (Bounded statements: "not complete after 2000 transactions".) *)
(* fixes/01: a responder at 0000:00000000 (or ffff:ffffffff) that never ACKs a mute *)
Theorem c11_legacy_split_wrap_refuted :
  pop_run true [mkP 0 2 false 0] = 0 /\ pop_run true [mkP 281474976710655 2 false 0] = 0 /\
  pop_run false [mkP 0 2 false 0] = 1 /\ pop_run false [mkP 281474976710655 2 false 0] = 1.
Proof. exact legacy_split_wrap_w. Qed.
Print Assumptions c11_legacy_split_wrap_refuted.

(* fixes/02: two adjacent responders, one of which ACKs the mute but keeps answering *)
Theorem c11_legacy_failure_limit_refuted :
  pop_run true [mkP 1000 1 false 0; mkP 1001 0 false 0] = 0 /\
  pop_run false [mkP 1000 1 false 0; mkP 1001 0 false 0] = 1.
Proof. exact legacy_failure_limit_w. Qed.
Print Assumptions c11_legacy_failure_limit_refuted.

(* hypotheses of c11_terminates are satisfiable, and a concrete run *)
Example c11_hyps_sat :
  (NoDup (uids idle0) /\ forall x, In x (uids idle0) -> x < 281474976710656) /\
  (forall i : nat, len (a_data ((fun _ => mkA false []) i)) < 4294967296).
Proof. split; [split; [constructor | intros x []] | intros i; reflexivity]. Qed.

Example c11_run_conforming :
  let '(s, _, log) := run_pop false 2000 [mkP 5 0 false 0; mkP 6 0 false 0; mkP 281474976710654 0 false 0]
                                 (init false idle0) [] in
  result s = Some (true, [5; 6; 281474976710654]) /\ completions s = 1.
Proof. vm_compute. split; reflexivity. Qed.

(* a history with an abort inside the incremental mute phase followed by a full discovery *)
Example c11_history_example :
  let a1 := mkA true [] in
  let ss := run_ops [OStart true ANone; OReply a1; OReply a1; OReply a1; OAbort; OStart false AInc]
                    (mkSess (mkSt [] [5; 6] [] [] [] 0 0 0 false false PIdle 0 None) 0 ANone 0 []) in
  events ss = [(0, false, [])] /\ queue (ag ss) = [] /\ uids (ag ss) = [] /\ owner ss = 1.
Proof. vm_compute. repeat split. Qed.

(* the transaction bound on a concrete population: 4 responders, 4 + 98*4 = 396 *)
Example c11_bound_example :
  let '(e, M) := e_run [7; 5; 281474976710654; 6] coll_ff 396 (init false idle0) [] in
  pending e = PIdle /\ result e = Some (true, [5; 6; 7; 281474976710654]).
Proof. vm_compute. split; reflexivity. Qed.

(* a phantom: the OR of the replies of 0000:00000001 and 0000:00000004 is a valid frame of 0000:00000005 *)
Example c11_phantom_example :
  decode (coll_or [1; 4]) = DValid 5 /\
  (let '(e, M) := e_run [1; 4] coll_or 40 (init false idle0) [] in
   result e = Some (true, [1; 4]) /\ bad e = [5]).
Proof. exact phantom_example. Qed.

(* incremental runs at the boundaries, known = {0000:00000000, 5, 6, ffff:fffffffe}, wired-OR line *)
Example c11_incremental_boundaries :
  inc_result [0; 5; 6] known4 = (Some (true, [0; 5; 6]), 1) /\
  inc_result [5; 6; 281474976710654] known4 = (Some (true, [5; 6; 281474976710654]), 1) /\
  inc_result [] known4 = (Some (true, []), 1) /\
  inc_result [1; 4; 281474976710653] known4 = (Some (true, [1; 4; 281474976710653]), 1) /\
  inc_result [0; 1; 4; 281474976710654] idle0 = (Some (true, [0; 1; 4; 281474976710654]), 1) /\
  inc_result [0; 5; 6; 281474976710654] known4 = (Some (true, [0; 5; 6; 281474976710654]), 1).
Proof. exact incremental_boundary_examples. Qed.
