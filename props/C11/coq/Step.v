(* C11: every callback in the branch phase lowers the lexicographic measure (G, mu2) or completes. *)
From OlaBase Require Import Bytes.
From C11 Require Import Gen Model Lemmas Send Push.
Local Open Scope N_scope.

Definition pw (l : list range) : N := phi_wait l.

Lemma sent_eq s t x b :
  uids s = uids t -> bad s = bad t -> completions s = completions t -> sent s x b -> sent t x b.
Proof. unfold sent. intros -> -> ->. trivial. Qed.

Lemma sent_le s x b b' : b <= b' -> sent s x b -> sent s x b'.
Proof.
  unfold sent. intros Hb [H1 [H2 H]]. split; [exact H1|]. split; [exact H2|].
  destruct H as [[P1 [P2 [P3 [P4 [P5 P6]]]]]|H]; [left|right; exact H].
  repeat split; try assumption. exact (N.le_trans _ _ _ P6 Hb).
Qed.

Lemma val_fail_inc r : r_fail r < 5 ->
  val true (r_set_fail r (u32 (r_fail r + 1))) + unit_of r = val true r.
Proof.
  intros H. unfold val, unit_of, width, r_set_fail; cbn [r_lo r_hi r_att r_fail].
  assert (u32 (r_fail r + 1) = r_fail r + 1) as -> by (unfold u32; apply N.mod_small; lia).
  generalize (19 ^ (r_hi r - r_lo r)). intros u.
  assert (5 - r_att r - 0 + (5 - r_fail r) = (5 - r_att r - 0 + (5 - (r_fail r + 1))) + 1) as -> by lia.
  lia.
Qed.

Lemma val_fail_inc_le r : r_fail r <= 5 ->
  val true (r_set_fail r (u32 (r_fail r + 1))) <= val true r.
Proof.
  intros H. unfold val, unit_of, width, r_set_fail; cbn [r_lo r_hi r_att r_fail].
  assert (u32 (r_fail r + 1) = r_fail r + 1) as -> by (unfold u32; apply N.mod_small; lia).
  apply N.mul_le_mono_l. lia.
Qed.

(* the "End of tree reached" case shared by HandleCollision and SplitAroundBadUID *)
Lemma eot_spec s1 r rest :
  stack s1 = r :: rest -> stack_ok (stack s1) -> on_complete s1 = true -> r_fail r <= 5 ->
  exists b, sent s1 (send false (set_stack s1 (r_set_fail r (u32 (r_fail r + 1)) :: rest))) b /\
            b <= pw (r :: rest) /\ (r_fail r < 5 -> b < pw (r :: rest)).
Proof.
  intros Es Hok Hoc Hf. rewrite Es in Hok.
  set (r' := r_set_fail r (u32 (r_fail r + 1))).
  set (s2 := set_stack s1 (r' :: rest)).
  assert (Hok2 : stack_ok (stack s2)).
  { unfold s2; cbn [stack set_stack]. cbn [stack_ok] in *. unfold range_ok, r' in *; cbn. exact Hok. }
  pose proof (send_spec s2 Hok2 Hoc) as Hs. unfold s2 in Hs at 3. cbn [stack set_stack] in Hs.
  exists (phi_b (r' :: rest) false). split; [exact Hs|].
  cbn [phi_b]. unfold pw, phi_wait. unfold r' at 1 3 4. cbn [r_ud r_set_fail orb].
  assert (Hv : val (0 <? r_ud r) r' <= val true r').
  { destruct (0 <? r_ud r); [lia | apply val_mono]. }
  split.
  - pose proof (val_fail_inc_le r Hf). fold r' in H. 
    generalize dependent (val true r'). generalize dependent (val (0 <? r_ud r) r').
    generalize (val true r). generalize (phi_b rest (0 <? r_ud r)). clear. intros. lia.
  - intros Hlt. pose proof (val_fail_inc r Hlt) as H. fold r' in H. pose proof (unit_pos r) as Hu.
    change (r_ud r') with (r_ud r).
    generalize dependent (val true r'). generalize dependent (val (0 <? r_ud r) r').
    generalize dependent (unit_of r).
    generalize (val true r). generalize (phi_b rest (0 <? r_ud r)). clear. intros. lia.
Qed.

Lemma hc_spec s1 r rest :
  stack s1 = r :: rest -> stack_ok (stack s1) -> on_complete s1 = true -> r_fail r <= 5 ->
  exists b, sent s1 (handle_collision false s1) b /\
            b <= pw (r :: rest) /\ (r_fail r < 5 -> b < pw (r :: rest)).
Proof.
  intros Es Hok Hoc Hf. unfold handle_collision. rewrite Es.
  destruct (r_lo r =? r_hi r) eqn:Eq.
  - apply eot_spec; assumption.
  - apply N.eqb_neq in Eq.
    pose proof Hok as Hok'. rewrite Es in Hok'. cbn [stack_ok] in Hok'.
    destruct Hok' as [[Hlo [Hhi Hatt]] _].
    assert (Hsum : u64 (r_lo r + r_hi r) = r_lo r + r_hi r).
    { unfold u64. apply N.mod_small. unfold TWO48 in *. lia. }
    rewrite Hsum.
    set (mid := (r_lo r + r_hi r) / 2).
    assert (Hmid : r_lo r <= mid /\ mid < r_hi r) by (unfold mid; lia).
    assert (Hm1 : u64 (mid + 1) = mid + 1) by (unfold u64; apply N.mod_small; unfold TWO48 in *; lia).
    rewrite Hm1. rewrite !uid_of_u64_id by lia.
    destruct (push_spec s1 r rest [fresh (mid + 1) (r_hi r) (Some (length rest));
                                   fresh (r_lo r) mid (Some (length rest))] Es Hok Hoc)
      as [b [Hb1 Hb2]].
    + cbn [length]. lia.
    + intros c [<-|[<-|[]]]; unfold child_of, fresh, width; cbn; repeat split; try lia.
    + exists b. split; [exact Hb1|]. unfold pw, phi_wait. split; [lia | intros _; exact Hb2].
Qed.

Lemma sa_spec s1 r rest u :
  stack s1 = r :: rest -> stack_ok (stack s1) -> on_complete s1 = true -> r_fail r <= 5 ->
  exists b, sent s1 (split_around false u s1) b /\
            b <= pw (r :: rest) /\ (r_fail r < 5 -> b < pw (r :: rest)).
Proof.
  intros Es Hok Hoc Hf. unfold split_around. rewrite Es.
  destruct (r_lo r =? r_hi r) eqn:Eq.
  - apply eot_spec; assumption.
  - destruct ((u <? r_lo r) || (r_hi r <? u)) eqn:Er.
    + apply hc_spec; assumption.
    + apply N.eqb_neq in Eq. apply orb_false_iff in Er. destruct Er as [Er1 Er2].
      apply N.ltb_ge in Er1. apply N.ltb_ge in Er2.
      pose proof Hok as Hok'. rewrite Es in Hok'. cbn [stack_ok] in Hok'.
      destruct Hok' as [[Hlo [Hhi Hatt]] _].
      set (cs := (if u <? r_hi r then [fresh (uid_of_u64 (u64 (u + 1))) (r_hi r) (Some (length rest))] else []) ++
                 (if r_lo r <? u then [fresh (r_lo r) (uid_of_u64 (u64 (u + TWO64 - 1))) (Some (length rest))] else [])).
      destruct (push_spec s1 r rest cs Es Hok Hoc) as [b [Hb1 Hb2]].
      * unfold cs. destruct (u <? r_hi r), (r_lo r <? u); cbn [app length]; lia.
      * intros c Hc. unfold cs in Hc. apply in_app_or in Hc. destruct Hc as [Hc|Hc].
        -- destruct (u <? r_hi r) eqn:E1; [|destruct Hc]. destruct Hc as [<-|[]].
           apply N.ltb_lt in E1.
           assert (u64 (u + 1) = u + 1) as -> by (unfold u64; apply N.mod_small; unfold TWO48 in *; lia).
           rewrite uid_of_u64_id by lia.
           unfold child_of, fresh, width; cbn; repeat split; try lia.
        -- destruct (r_lo r <? u) eqn:E1; [|destruct Hc]. destruct Hc as [<-|[]].
           apply N.ltb_lt in E1.
           assert (u64 (u + TWO64 - 1) = u - 1) as ->.
           { unfold u64, TWO64, TWO48 in *.
             replace (u + 18446744073709551616 - 1) with ((u - 1) + 1 * 18446744073709551616) by lia.
             rewrite N.mod_add by lia. apply N.mod_small. lia. }
           rewrite uid_of_u64_id by lia.
           unfold child_of, fresh, width; cbn; repeat split; try lia.
      * exists b. split.
        -- unfold cs in Hb1. rewrite <- app_assoc in Hb1. exact Hb1.
        -- unfold pw, phi_wait. split; [lia | intros _; exact Hb2].
Qed.
