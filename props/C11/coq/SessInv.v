(* C11: histories of Start / reply / Abort: every Start is completed at most once, every Start that is
   not the running one has been completed exactly once, and the running one completes under replies. *)
From OlaBase Require Import Bytes.
From C11 Require Import Gen Model Session Lemmas Send Push Step Term Term2 Term3 SessWf.
Local Open Scope N_scope.

Definition eid (e : event) : N := fst (fst e).
Definition ids (ss : sess) : list N := map eid (events ss).

Inductive op := OStart (inc : bool) (act : cbact) | OReply (a : answer) | OAbort | ODestroy.
Definition apply_op (ss : sess) (o : op) : sess :=
  match o with
  | OStart inc act => s_start inc act ss
  | OReply a => s_reply a ss
  | OAbort => s_abort ss
  | ODestroy => s_destroy ss
  end.
Definition run_ops (ops : list op) (ss : sess) : sess := fold_left apply_op ops ss.
Definition op_ok (o : op) : Prop :=
  match o with OReply a => len (a_data a) < 4294967296 | _ => True end.

Definition SI (ss : sess) : Prop :=
  wf (ag ss) /\ NoDup (ids ss) /\ (forall i, In i (ids ss) -> i < next_id ss) /\
  (on_complete (ag ss) = true -> owner ss < next_id ss /\ ~ In (owner ss) (ids ss)) /\
  (forall i, i < next_id ss -> In i (ids ss) \/ (on_complete (ag ss) = true /\ owner ss = i)).

Lemma SI_refuse a o c n ev :
  SI (mkSess a o c n ev) -> SI (mkSess a o c (n + 1) ((n, false, []) :: ev)).
Proof.
  unfold SI, ids; cbn. intros [H1 [H2 [H3 [H4 H5]]]]. repeat split.
  - exact H1.
  - constructor; [|exact H2]. intros Hi. specialize (H3 _ Hi). lia.
  - intros i [<-|Hi]; [lia | specialize (H3 _ Hi); lia].
  - destruct (H4 H) as [Ha _]. lia.
  - intros [He|Hi]; destruct (H4 H) as [Ha Hb]; [lia | contradiction].
  - intros i Hi. destruct (N.eq_dec i n) as [->|Hne]; [left; left; reflexivity|].
    destruct (H5 i ltac:(lia)) as [Hx|Hx]; [left; right; exact Hx | right; exact Hx].
Qed.

Lemma SI_nested_false act ss : SI ss -> SI (nested false act ss).
Proof.
  intros H. destruct ss as [a o c n ev]. unfold nested; cbn.
  destruct act; [exact H | apply SI_refuse; exact H | apply SI_refuse; exact H].
Qed.

Lemma SI_complete a o c n ev a' st u :
  SI (mkSess a o c n ev) -> on_complete a = true -> wf a' -> on_complete a' = false ->
  SI (mkSess a' o ANone n ((o, st, u) :: ev)).
Proof.
  unfold SI, ids; cbn. intros [H1 [H2 [H3 [H4 H5]]]] Hoc Hw Hoc'. destruct (H4 Hoc) as [Ha Hb].
  repeat split; try assumption.
  - constructor; assumption.
  - intros i [<-|Hi]; [exact Ha | apply H3; exact Hi].
  - congruence.
  - intros i Hi. destruct (H5 i Hi) as [Hx|[_ <-]]; left; [right; exact Hx | left; reflexivity].
Qed.

Lemma SI_keep a o c n ev a' :
  SI (mkSess a o c n ev) -> wf a' -> on_complete a' = on_complete a -> SI (mkSess a' o c n ev).
Proof. unfold SI, ids; cbn. intros [H1 [H2 [H3 [H4 H5]]]] Hw ->. auto. Qed.

Lemma SI_accept a o c n ev a' c' :
  SI (mkSess a o c n ev) -> on_complete a = false -> running a' -> SI (mkSess a' n c' (n + 1) ev).
Proof.
  unfold SI, ids; cbn. intros [H1 [H2 [H3 [H4 H5]]]] Hoc Hr.
  destruct (running_facts a' Hr) as [Hoc' _].
  repeat split; try assumption.
  - left. exact Hr.
  - intros i Hi. specialize (H3 _ Hi). lia.
  - lia.
  - intros Hi. specialize (H3 _ Hi). lia.
  - intros i Hi. destruct (N.eq_dec i n) as [->|Hne]; [right; auto|].
    destruct (H5 i ltac:(lia)) as [Hx|[Hx _]]; [left; exact Hx | congruence].
Qed.

Lemma SI_fire cleared ss a' :
  SI ss -> wf a' -> (on_complete (ag ss) = false -> on_complete a' = false) -> SI (fire cleared ss a').
Proof.
  intros H Hw Hoc. destruct ss as [a o c n ev]. unfold fire; cbn [ag owner owner_act next_id events] in *.
  destruct (on_complete a) eqn:E1; destruct (on_complete a') eqn:E2; cbn [andb negb].
  - apply (SI_keep a); [exact H | exact Hw | congruence].
  - destruct (res_of a') as [st u].
    pose proof (SI_complete a o c n ev a' st u H E1 Hw E2) as Hc.
    destruct cleared; [|apply SI_nested_false; exact Hc].
    unfold nested; cbn [ag owner owner_act next_id events].
    assert (Hu : set_ok (uids a')) by (apply wf_set_ok; exact Hw).
    destruct c; [exact Hc | |]; apply (SI_accept a' o ANone); try assumption; apply running_init; exact Hu.
  - specialize (Hoc eq_refl). congruence.
  - apply (SI_keep a); [exact H | exact Hw | congruence].
Qed.

Lemma SI_sess0 : SI sess0.
Proof.
  unfold SI, sess0, ids; cbn. repeat split; try (intros; discriminate || lia || contradiction).
  - right. unfold idle_ok, idle0; cbn. repeat split; try constructor. intros x [].
  - constructor.
Qed.

Lemma SI_op ss o : SI ss -> op_ok o -> SI (apply_op ss o).
Proof.
  intros H Hok. pose proof H as [Hw _]. destruct o as [inc act|a| |]; cbn [apply_op].
  - unfold s_start. destruct ss as [a0 o c n ev]; cbn [ag owner owner_act next_id events] in *.
    destruct (on_complete a0) eqn:E.
    + apply SI_nested_false. apply SI_refuse. exact H.
    + apply (SI_accept a0 o c); [exact H | exact E |]. apply running_init. apply wf_set_ok. exact Hw.
  - unfold s_reply. destruct Hw as [Hr|Hi].
    + destruct (step_wf (ag ss) a Hr Hok) as [[Hr' _]|Hf].
      * apply SI_fire; [exact H | left; exact Hr' |]. destruct (running_facts _ Hr) as [E _]. congruence.
      * apply SI_fire; [exact H | right; apply (finished_idle _ _ Hf) |].
        destruct (running_facts _ Hr) as [E _]. congruence.
    + assert (step false (ag ss) a = ag ss) as ->.
      { unfold step. destruct Hi as [_ [Hp _]]. rewrite Hp. reflexivity. }
      apply SI_fire; [exact H | right; exact Hi | trivial].
  - unfold s_abort. apply SI_fire; [exact H | right; apply abort_idle; apply wf_set_ok; exact Hw |].
    intros E. unfold abort. rewrite E. cbn. exact E.
  - unfold s_destroy.
    set (ss0 := mkSess (ag ss) (owner ss) ANone (next_id ss) (events ss)).
    assert (H0 : SI ss0) by (destruct ss; exact H).
    assert (H1 : SI (fire true ss0 (abort (ag ss)))).
    { apply SI_fire; [exact H0 | right; apply abort_idle; apply wf_set_ok; exact Hw |].
      cbn [ag ss0]. intros E. unfold abort. rewrite E. cbn. exact E. }
    assert (E1 : on_complete (ag (fire true ss0 (abort (ag ss)))) = false).
    { unfold fire, ss0; cbn [ag owner owner_act next_id events].
      assert (Ea : on_complete (abort (ag ss)) = false) by (unfold abort; destruct (on_complete (ag ss)) eqn:E; cbn; auto).
      rewrite Ea. destruct (on_complete (ag ss)); cbn [andb negb]; [destruct (res_of _); cbn; exact Ea | cbn; exact Ea]. }
    destruct (fire true ss0 (abort (ag ss))) as [a1 o1 c1 n1 ev1]; cbn [ag owner next_id events] in *.
    assert (H2 : SI (mkSess a1 o1 ANone n1 ev1)) by exact H1.
    apply (SI_keep a1); [exact H2 | | rewrite E1; reflexivity].
    right. unfold idle_ok, idle0; cbn. repeat split; try constructor. intros x [].
Qed.

Lemma SI_run ops : forall ss, SI ss -> (forall o, In o ops -> op_ok o) -> SI (run_ops ops ss).
Proof.
  induction ops as [|o ops IH]; intros ss H Hok; cbn [run_ops fold_left]; [exact H|].
  apply IH; [apply SI_op; [exact H | apply Hok; left; reflexivity] | intros o' Ho'; apply Hok; right; exact Ho'].
Qed.

(* ---------- the running discovery completes under replies ---------- *)
Fixpoint s_replies (n : nat) (f : nat -> answer) (ss : sess) : sess :=
  match n with
  | O => ss
  | S m => s_replies m (fun i => f (S i)) (s_reply (f O) ss)
  end.

Lemma fire_completed ss a' :
  on_complete (ag ss) = true -> on_complete a' = false ->
  In (owner ss) (ids (fire true ss a')).
Proof.
  intros H1 H2. destruct ss as [a o c n ev]; cbn [ag owner] in *. unfold fire; cbn [ag owner owner_act next_id events].
  rewrite H1, H2. cbn [andb negb]. destruct (res_of a') as [st u].
  unfold nested; cbn [ag owner owner_act next_id events]. destruct c; cbn; auto.
Qed.

Lemma ids_mono n : forall f ss i, In i (ids ss) -> In i (ids (s_replies n f ss)).
Proof.
  induction n as [|n IH]; intros f ss i Hi; cbn [s_replies]; [exact Hi|]. apply IH.
  unfold s_reply, fire. destruct ss as [a o c m ev]; cbn [ag owner owner_act next_id events] in *.
  destruct (on_complete a && negb (on_complete (step false a (f O)))); [|exact Hi].
  destruct (res_of _) as [st u]. unfold nested, ids in *; cbn [ag owner owner_act next_id events] in *.
  destruct c; cbn; auto.
Qed.

Lemma good_unstep c0 f s n : good c0 f s (S n) -> good c0 (shift f) (step false s (f O)) n.
Proof.
  unfold good. cbn [run]. fold (shift f). intros [G1 [G2 [G3 [G4 G5]]]].
  refine (conj G1 (conj G2 (conj G3 (conj G4 _)))). intros m Hm.
  specialize (G5 (S m) ltac:(lia)). cbn [run] in G5. exact G5.
Qed.

Lemma replies_complete : forall n ss f c0,
  running (ag ss) -> ok_stream f -> good c0 f (ag ss) n ->
  exists k, In (owner ss) (ids (s_replies k f ss)).
Proof.
  induction n as [|n IH]; intros ss f c0 Hr Hf Hg.
  - destruct Hg as [G1 _]. cbn [run] in G1. destruct (running_facts _ Hr) as [_ [A _]]. contradiction.
  - destruct (running_facts _ Hr) as [Hoc _].
    destruct (step_wf (ag ss) (f O) Hr (Hf O)) as [[Hr' Hc]|Hfin].
    + assert (Hs : s_reply (f O) ss = mkSess (step false (ag ss) (f O)) (owner ss) (owner_act ss) (next_id ss) (events ss)).
      { unfold s_reply, fire. destruct (running_facts _ Hr') as [E _]. rewrite Hoc, E. reflexivity. }
      destruct (IH (s_reply (f O) ss) (shift f) c0) as [k K2].
      * rewrite Hs; exact Hr'.
      * apply ok_shift; exact Hf.
      * rewrite Hs; cbn [ag]. apply good_unstep. exact Hg.
      * exists (S k). cbn [s_replies]. fold (shift f). rewrite Hs in K2 at 1. exact K2.
    + destruct Hfin as [_ [_ [_ [_ F5]]]].
      exists 1%nat. cbn [s_replies]. exact (fire_completed ss _ Hoc F5).
Qed.

Lemma running_completes ss f :
  SI ss -> on_complete (ag ss) = true -> ok_stream f ->
  exists k, In (owner ss) (ids (s_replies k f ss)).
Proof.
  intros [[Hr|[Hi _]] _] Hoc Hf; [|congruence].
  destruct (term_running (completions (ag ss)) (ag ss) Hr eq_refl f Hf) as [n Hg].
  exact (replies_complete n ss f _ Hr Hf Hg).
Qed.
