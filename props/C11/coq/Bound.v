(* C11: an explicit bound on the number of bus transactions with conforming responders. *)
From OlaBase Require Import Bytes.
From C11 Require Import Gen Model Lemmas Send Push E120 Complete Complete2 Term3.
Local Open Scope N_scope.

(* transactions spent on a range of width < 2^d that holds k un-muted responders *)
Definition B (k d : nat) : nat := 1 + k * (2 * d + 2).

Lemma B_split (k1 k2 d n3 n2 a : nat) :
  (S (S a) = k1 + k2)%nat -> (n3 <= B k1 d)%nat -> (n2 <= B k2 d)%nat ->
  (1 + (n2 + (n3 + 1)) <= B (S (S a)) (S d))%nat.
Proof. unfold B. intros H H3 H2. rewrite H. nia. Qed.

Lemma answering_ext (S : list N) M M' lo hi :
  (forall x, In x S -> lo <= x -> x <= hi -> (In x M' <-> In x M)) ->
  answering S M' lo hi = answering S M lo hi.
Proof.
  intros H. unfold E120.answering. apply filter_ext_in. intros x Hx.
  destruct ((lo <=? x) && (x <=? hi)) eqn:E; [|reflexivity]. cbn [andb]. f_equal.
  apply andb_true_iff in E. destruct E as [E1 E2]. apply N.leb_le in E1. apply N.leb_le in E2.
  specialize (H x Hx E1 E2).
  destruct (set_mem x M') eqn:A1; destruct (set_mem x M) eqn:A2; try reflexivity.
  - apply set_mem_In in A1. apply H in A1. apply set_mem_In in A1. congruence.
  - apply set_mem_In in A2. apply H in A2. apply set_mem_In in A2. congruence.
Qed.

Lemma answering_split (S : list N) M lo mid hi : lo <= mid -> mid < hi ->
  length (answering S M lo hi) = (length (answering S M lo mid) + length (answering S M (mid + 1) hi))%nat.
Proof.
  intros H1 H2. unfold E120.answering. induction S as [|x l IH]; [reflexivity|]. cbn [filter].
  destruct (negb (set_mem x M)); rewrite ?andb_true_r, ?andb_false_r; [|exact IH].
  destruct (lo <=? x) eqn:E1; destruct (x <=? hi) eqn:E2; destruct (x <=? mid) eqn:E3;
    destruct (mid + 1 <=? x) eqn:E4; cbn [andb length]; rewrite ?IH; try lia;
    rewrite ?N.leb_le, ?N.leb_gt in *; lia.
Qed.

Section Bound.
Variable S : list N.
Variable coll : list N -> list N.
Hypothesis S_nodup : NoDup S.
Hypothesis S_lt : forall x, In x S -> x < TWO48.
Hypothesis coll_bad : forall A, (2 <= length A)%nat -> decode (coll A) = DCollision.

Notation e_step := (e_step S coll).
Notation e_run := (e_run S coll).
Notation answering := (answering S).
Notation rel := (rel S).
Notation outcome := (outcome S).
Notation timeout_step := (timeout_step S coll).
Notation estep_branch := (estep_branch S coll).

Lemma process_b : forall (d : nat) s M r rest,
  width r < 2 ^ N.of_nat d -> pending s = PBranch -> stack s = r :: rest ->
  r_lo r <= r_hi r -> r_hi r < TWO48 -> r_att r = 1 -> r_fail r = 0 -> r_ud r = 0 -> r_cor r = false ->
  rel s M ->
  exists n, (n <= B (length (answering M (r_lo r) (r_hi r))) d)%nat /\ outcome s M r rest (e_run n s M).
Proof.
  induction d as [d IH] using lt_wf_ind.
  intros s M r rest Hw Hp Es Hlo Hhi Hatt Hfail Hud Hcor [Rb [Roc [Ru Rs]]].
  destruct (answering M (r_lo r) (r_hi r)) as [|x [|y A]] eqn:EA.
  - (* nobody answers *)
    exists 1%nat. split; [unfold B; cbn [length]; lia|]. cbn [E120.e_run]. rewrite (timeout_step s M r rest Hp Es EA).
    exists s, r, M. repeat split; try assumption; try reflexivity; try (apply Ru; assumption).
    + intros H; left; exact H.
    + intros [H|H]; [exact H | rewrite EA in H; destruct H].
  - (* exactly one responder x answers *)
    assert (Hx : In x (answering M (r_lo r) (r_hi r))) by (rewrite EA; left; reflexivity).
    apply answering_In in Hx. destruct Hx as [HxS [Hx1 [Hx2 HxM]]].
    exists 3%nat. split; [unfold B; cbn [length]; lia|]. cbn [E120.e_run].
    rewrite (estep_branch s M r rest Hp Es). unfold e_branch. rewrite EA.
    assert (Hm1 : set_mem x (uids s) = false).
    { destruct (set_mem x (uids s)) eqn:E; [|reflexivity]. apply set_mem_In in E. apply Ru in E. contradiction. }
    rewrite (bc_valid_new s _ x r rest (decode_frame x (S_lt x HxS)) Es Hm1) by (rewrite Rb; reflexivity).
    set (s1 := set_pending _ PMuteBr).
    assert (Hs1 : e_step s1 M = (branch_mute_complete false true s1, x :: M)).
    { unfold E120.e_step, call_of, step, s1; cbn [pending set_pending muting set_mute].
      assert (set_mem x S = true) as -> by (apply set_mem_In; exact HxS). reflexivity. }
    rewrite Hs1.
    set (r' := r_add_ud 1 r).
    set (s2pre := set_stack (set_uids (set_mute s1 (muting s1) (u32 (mute_att s1 + 1)) (queue s1))
                                      (set_add x (uids s))) (r' :: rest)).
    assert (Hbm : branch_mute_complete false true s1 = send false s2pre).
    { unfold branch_mute_complete, s1; cbn [stack set_mute set_pending uids muting]. rewrite Es. reflexivity. }
    rewrite Hbm.
    assert (Hud' : r_ud r' = 1) by (unfold r', r_add_ud; cbn; rewrite Hud; reflexivity).
    assert (Hst : send false s2pre = set_pending (set_stack s2pre (r' :: rest)) PBranch).
    { rewrite (send_top s2pre r' rest eq_refl); rewrite ?Hud'; cbn [N.eqb];
        try (unfold r', r_add_ud; cbn; lia); try reflexivity.
      unfold r'; cbn. exact Hcor. }
    rewrite Hst. set (s2 := set_pending _ PBranch).
    assert (Ha2 : answering (x :: M) (r_lo r') (r_hi r') = []).
    { apply answering_nil. intros z Hz H1 H2. change (r_lo r') with (r_lo r) in H1. change (r_hi r') with (r_hi r) in H2.
      destruct (in_dec N.eq_dec z M) as [Hi|Hn]; [right; exact Hi|]. left.
      assert (In z (answering M (r_lo r) (r_hi r))) as Hi by (apply answering_In; auto).
      rewrite EA in Hi. destruct Hi as [->|[]]. reflexivity. }
    rewrite (timeout_step s2 (x :: M) r' rest eq_refl eq_refl Ha2).
    exists s2, r', (x :: M). repeat split; try reflexivity; try assumption.
    + cbn. intros Hi. apply set_add_In in Hi. destruct Hi as [->|Hi]; [left; reflexivity | right; apply Ru; exact Hi].
    + cbn. intros [->|Hi]; apply set_add_In; [left; reflexivity | right; apply Ru; exact Hi].
    + intros z [->|Hi]; [exact HxS | apply Rs; exact Hi].
    + intros [->|Hi]; [right; rewrite EA; left; reflexivity | left; exact Hi].
    + intros [Hi|Hi]; [right; exact Hi | rewrite EA in Hi; destruct Hi as [->|[]]; left; reflexivity].
  - (* several answer: collision, split, recurse *)
    assert (Hx : In x (answering M (r_lo r) (r_hi r))) by (rewrite EA; left; reflexivity).
    assert (Hy : In y (answering M (r_lo r) (r_hi r))) by (rewrite EA; right; left; reflexivity).
    assert (Hxy : x <> y).
    { pose proof (answering_NoDup S M (r_lo r) (r_hi r) S_nodup) as Hn. rewrite EA in Hn.
      inversion Hn as [|? ? Hn1 _]; subst. intros ->. apply Hn1. left. reflexivity. }
    apply answering_In in Hx. apply answering_In in Hy.
    assert (Hlt : r_lo r < r_hi r) by lia.
    destruct d as [|d']; [exfalso; unfold width in Hw; cbn in Hw; lia|].
    assert (Hw' : width r < 2 * 2 ^ N.of_nat d') by (rewrite Nat2N.inj_succ, N.pow_succ_r' in Hw; exact Hw).
    set (mid := (r_lo r + r_hi r) / 2).
    assert (Hmid : r_lo r <= mid /\ mid < r_hi r) by (unfold mid; lia).
    assert (Hk : length (answering M (r_lo r) (r_hi r)) =
                 (length (answering M (r_lo r) mid) + length (answering M (mid + 1) (r_hi r)))%nat)
      by (apply answering_split; lia).
    rewrite EA in Hk.
    set (k := Some (length rest)).
    set (c2 := fresh (mid + 1) (r_hi r) k). set (c1 := fresh (r_lo r) mid k). set (r0 := r_set_ud r 0).
    (* first step: the collision *)
    assert (Hst1 : e_step s M = (send false (set_stack s (c2 :: c1 :: r0 :: rest)), M)).
    { rewrite (estep_branch s M r rest Hp Es). unfold e_branch. rewrite EA.
      rewrite bc_collision by (apply coll_bad; cbn [length]; lia).
      rewrite (hc_split s r rest Es Hlt Hhi). reflexivity. }
    set (c2' := r_set_att c2 (u32 (r_att c2 + 1))).
    assert (Hsend1 : send false (set_stack s (c2 :: c1 :: r0 :: rest)) =
                     set_pending (set_stack (set_stack s (c2 :: c1 :: r0 :: rest)) (c2' :: c1 :: r0 :: rest)) PBranch).
    { rewrite (send_top (set_stack s (c2 :: c1 :: r0 :: rest)) c2 (c1 :: r0 :: rest) eq_refl); cbn; try reflexivity; lia. }
    set (s1 := set_pending _ PBranch) in Hsend1.
    (* upper child *)
    assert (Hw2 : width c2' < 2 ^ N.of_nat d').
    { unfold c2', c2, width in *; cbn [r_lo r_hi r_set_att fresh]. generalize dependent (2 ^ N.of_nat d'). intros p Hp2. unfold mid. lia. }
    destruct (IH d' ltac:(lia) s1 M c2' (c1 :: r0 :: rest)
                Hw2 eq_refl eq_refl ltac:(cbn; lia) ltac:(cbn; lia) eq_refl eq_refl eq_refl eq_refl)
      as [n2 [Hn2 [sf2 [rf2 [M2 [E2 [St2 [Par2 [Cor2 [[Rb2 [Roc2 [Ru2 Rs2]]] [HM2 [Tc2 Cp2]]]]]]]]]]]].
    { unfold rel, s1; cbn. auto. }
    change (r_lo c2') with (mid + 1) in HM2, Hn2. change (r_hi c2') with (r_hi r) in HM2, Hn2.
    change (r_par c2') with k in Par2.
    (* the upper child is popped, the lower child becomes current *)
    set (r0' := r_add_ud (r_ud rf2) r0).
    assert (Hfc2 : free_current sf2 = set_stack sf2 (c1 :: r0' :: rest)).
    { rewrite (free_current_cons sf2 rf2 c1 (r0 :: rest) (length rest) St2 Par2) by (cbn [length]; lia).
      rewrite upd_bot_skip. reflexivity. }
    set (c1' := r_set_att c1 (u32 (r_att c1 + 1))).
    assert (Hsend2 : send false (free_current sf2) =
                     set_pending (set_stack (set_stack sf2 (c1 :: r0' :: rest)) (c1' :: r0' :: rest)) PBranch).
    { rewrite Hfc2. rewrite (send_top (set_stack sf2 (c1 :: r0' :: rest)) c1 (r0' :: rest) eq_refl); cbn; try reflexivity; lia. }
    set (s3 := set_pending _ PBranch) in Hsend2.
    assert (Hw1 : width c1' < 2 ^ N.of_nat d').
    { unfold c1', c1, width in *; cbn [r_lo r_hi r_set_att fresh]. generalize dependent (2 ^ N.of_nat d'). intros p Hp2. unfold mid. lia. }
    destruct (IH d' ltac:(lia) s3 M2 c1' (r0' :: rest)
                Hw1 eq_refl eq_refl ltac:(cbn; lia) ltac:(cbn; lia) eq_refl eq_refl eq_refl eq_refl)
      as [n3 [Hn3 [sf3 [rf3 [M3 [E3 [St3 [Par3 [Cor3 [[Rb3 [Roc3 [Ru3 Rs3]]] [HM3 [Tc3 Cp3]]]]]]]]]]]].
    { unfold rel, s3; cbn. auto. }
    change (r_lo c1') with (r_lo r) in HM3, Hn3. change (r_hi c1') with mid in HM3, Hn3.
    change (r_par c1') with k in Par3.
    (* the lower child is popped, the parent is current again *)
    set (r0'' := r_add_ud (r_ud rf3) r0').
    assert (Hfc3 : free_current sf3 = set_stack sf3 (r0'' :: rest)).
    { rewrite (free_current_cons sf3 rf3 r0' rest (length rest) St3 Par3) by (cbn [length]; lia).
      rewrite upd_bot_here. reflexivity. }
    set (r4 := if r_ud r0'' =? 0 then r_set_att r0'' (u32 (r_att r0'' + 1)) else r0'').
    assert (Hatt0 : r_att r0'' = 1) by (unfold r0'', r0', r0; cbn; exact Hatt).
    assert (Hsend3 : send false (free_current sf3) =
                     set_pending (set_stack (set_stack sf3 (r0'' :: rest)) (r4 :: rest)) PBranch).
    { rewrite Hfc3. rewrite (send_top (set_stack sf3 (r0'' :: rest)) r0'' rest eq_refl); fold r4.
      - reflexivity.
      - unfold r0'', r0', r0; cbn. lia.
      - unfold r4. destruct (r_ud r0'' =? 0); cbn [r_att r_set_att]; rewrite Hatt0; [cbn|]; lia.
      - unfold r0'', r0', r0; cbn. exact Hcor. }
    set (s4 := set_pending _ PBranch) in Hsend3.
    assert (Hr4 : r_lo r4 = r_lo r /\ r_hi r4 = r_hi r /\ r_par r4 = r_par r /\ r_cor r4 = false).
    { unfold r4. destruct (r_ud r0'' =? 0); unfold r0'', r0', r0; cbn; auto. }
    destruct Hr4 as [L4 [H4 [P4 C4]]].
    (* everything inside the range is muted now *)
    assert (HM3' : forall z, In z M3 <-> In z M \/ In z (answering M (r_lo r) (r_hi r))).
    { intros z. rewrite HM3, HM2. rewrite !answering_In. rewrite HM2. rewrite answering_In.
      split.
      - intros [[H|H]|H]; [left; exact H | right | right].
        + destruct H as [H1 [H2 [H3 H5]]]. repeat split; try assumption; lia.
        + destruct H as [H1 [H2 [H3 H5]]]. repeat split; try assumption; try lia.
          intros Hi. apply H5. left. exact Hi.
      - intros [H|[H1 [H2 [H3 H5]]]]; [left; left; exact H|].
        destruct (N.le_gt_cases z mid) as [Hle|Hgt].
        + right. repeat split; try assumption. intros [Hi|[_ [Hi _]]]; [contradiction | lia].
        + left. right. repeat split; try assumption; lia. }
    assert (Ha4 : answering M3 (r_lo r4) (r_hi r4) = []).
    { apply answering_nil. intros z Hz H1 H2. rewrite L4 in H1. rewrite H4 in H2.
      apply HM3'. destruct (in_dec N.eq_dec z M) as [Hi|Hn]; [left; exact Hi|].
      right. apply answering_In. auto. }
    exists (1 + (n2 + (n3 + 1)))%nat.
    split.
    { assert (Hext : answering M2 (r_lo r) mid = answering M (r_lo r) mid).
      { apply answering_ext. intros z Hz H1 H2. rewrite HM2, answering_In. split; [|auto].
        intros [H|[_ [H _]]]; [exact H | lia]. }
      rewrite Hext in Hn3. cbn [length] in Hk.
      apply (B_split _ _ _ _ _ _ Hk Hn3 Hn2). }
    change (1 + (n2 + (n3 + 1)))%nat with (Datatypes.S (n2 + (n3 + 1))). cbn [E120.e_run].
    rewrite Hst1, Hsend1. rewrite e_run_add, E2, Hsend2. rewrite e_run_add, E3, Hsend3.
    cbn [E120.e_run]. rewrite (timeout_step s4 M3 r4 rest eq_refl eq_refl Ha4).
    exists s4, r4, M3. unfold rel, s4; cbn.
    repeat split; try assumption; try (apply Ru3; assumption); try (apply HM3'; assumption); try congruence.
    + unfold s3 in Tc3; cbn in Tc3. unfold s1 in Tc2; cbn in Tc2. congruence.
    + unfold s3 in Cp3; cbn in Cp3. unfold s1 in Cp2; cbn in Cp2. congruence.
Qed.
End Bound.
