(* C11: from per-callback progress to termination of a whole discovery run. *)
From OlaBase Require Import Bytes.
From C11 Require Import Gen Model Lemmas Send Push Step Term Term2.
Local Open Scope N_scope.

Definition ok_stream (f : nat -> answer) : Prop := forall i, len (a_data (f i)) < 4294967296.
Definition shift (f : nat -> answer) : nat -> answer := fun i => f (S i).

(* the run started in state s completes after exactly n callbacks *)
Definition good (c0 : N) (f : nat -> answer) (s : st) (n : nat) : Prop :=
  let e := run false n f s in
  pending e = PIdle /\ completions e = c0 + 1 /\ set_ok (uids e) /\
  (exists b, result e = Some (b, uids e)) /\
  (forall m, (m < n)%nat ->
     pending (run false m f s) <> PIdle /\ pending (run false m f s) <> PHazard /\
     completions (run false m f s) = c0).

Lemma ok_shift f : ok_stream f -> ok_stream (shift f).
Proof. intros H i. apply H. Qed.

Lemma good_step c0 f s n :
  pending s <> PIdle -> pending s <> PHazard -> completions s = c0 ->
  good c0 (shift f) (step false s (f O)) n -> good c0 f s (S n).
Proof.
  intros H1 H2 H3 [G1 [G2 [G3 [G4 G5]]]]. unfold good. cbn [run]. fold (shift f).
  refine (conj G1 (conj G2 (conj G3 (conj G4 _)))).
  intros m Hm. destruct m as [|m]; cbn [run]; [auto | fold (shift f); apply G5; lia].
Qed.

Lemma good_finished c0 f s s' :
  finished s s' -> completions s = c0 -> good c0 f s' O.
Proof.
  intros [F1 [F2 [F3 F4]]] Hc. unfold good. cbn [run].
  refine (conj F1 (conj _ (conj F3 (conj (proj1 F4) _)))); [congruence | intros m Hm; lia].
Qed.

Lemma inv_active s : inv s -> pending s <> PIdle /\ pending s <> PHazard.
Proof.
  intros [_ [_ [_ [_ [_ [H|[H _]]]]]]]; rewrite H; split; discriminate.
Qed.

Lemma term_inv c0 : forall g m s, inv s -> G s = g -> mu2 s = m -> completions s = c0 ->
  forall f, ok_stream f -> exists n, good c0 f s n.
Proof.
  induction g as [g IHg] using (well_founded_induction N.lt_wf_0).
  induction m as [m IHm] using (well_founded_induction N.lt_wf_0).
  intros s Hinv Hg Hm Hc f Hf.
  destruct (inv_active s Hinv) as [A1 A2].
  destruct (step_progress s (f O) Hinv (Hf O)) as [[Hi [Hc' Hd]]|Hfin].
  - assert (exists n, good c0 (shift f) (step false s (f O)) n) as [n Hn].
    { destruct Hd as [Hd|[Hd1 Hd2]].
      - apply (IHg (G (step false s (f O))) ltac:(lia) _ _ Hi eq_refl eq_refl ltac:(congruence)).
        apply ok_shift; exact Hf.
      - subst g. rewrite <- Hd1 in IHm.
        apply (IHm (mu2 (step false s (f O))) ltac:(lia) _ Hi eq_refl eq_refl ltac:(congruence)).
        apply ok_shift; exact Hf. }
    exists (S n). apply good_step; assumption.
  - exists 1%nat. apply good_step; try assumption. eapply good_finished; eassumption.
Qed.

(* what SendDiscovery leaves behind leads to completion *)
Lemma after_send c0 s1 s' b :
  sent s1 s' b -> set_ok (uids s1) -> set_ok (bad s1) -> completions s1 = c0 ->
  forall f, ok_stream f -> exists n, good c0 f s' n.
Proof.
  intros Hs Hu Hb Hc f Hf.
  destruct Hs as [U1 [U2 [[P1 [P2 [P3 [P4 [P5 P6]]]]]|[P1 [P2 [P3 P4]]]]]].
  - apply (term_inv c0 (G s') (mu2 s') s'); try reflexivity; try congruence; try exact Hf.
    unfold inv. rewrite U1, U2. repeat split; try assumption; try apply Hu; try apply Hb. left; exact P1.
  - exists O. unfold good. cbn [run]. rewrite U1.
    refine (conj P1 (conj _ (conj Hu (conj _ _)))).
    + rewrite P2, Hc. reflexivity.
    + eexists. rewrite P4, U1. reflexivity.
    + intros m Hm. lia.
Qed.

Definition root : range := fresh 0 ALL_DEVICES_UID None.
Lemma root_ok : stack_ok [root].
Proof. cbn. unfold range_ok, root, fresh, ALL_DEVICES_UID, TWO48; cbn. repeat split; try lia. Qed.

(* the incremental mute phase *)
Lemma term_mmn c0 : forall q s, queue s = q -> on_complete s = true -> stack s = [root] ->
  set_ok (uids s) -> bad s = [] -> completions s = c0 ->
  forall f, ok_stream f -> exists n, good c0 f (maybe_mute_next false s) n.
Proof.
  induction q as [|u q IH]; intros s Hq Hoc Hst Hu Hb Hc f Hf; unfold maybe_mute_next; rewrite Hq.
  - assert (Hok : stack_ok (stack s)) by (rewrite Hst; apply root_ok).
    apply (after_send c0 s _ _ (send_spec s Hok Hoc)); try assumption. rewrite Hb. apply set_ok_nil.
  - set (s1 := set_pending _ _).
    assert (exists n, good c0 (shift f) (step false s1 (f O)) n) as [n Hn].
    { unfold step, s1; cbn [pending set_pending]. unfold inc_mute_complete.
      destruct (a_ok (f O)).
      - apply IH; try assumption; try reflexivity. apply ok_shift; exact Hf.
      - apply IH; try assumption; try reflexivity; [|apply ok_shift; exact Hf].
        cbn. apply set_remove_ok. exact Hu. }
    exists (S n). apply good_step; try assumption; unfold s1; cbn; congruence.
Qed.

Lemma UNMUTES3 : UNMUTES = 3. Proof. reflexivity. Qed.

Lemma term_unmute c0 : forall k c s, (N.to_nat (3 - c) = k)%nat -> c < 3 -> unmute_count s = c ->
  pending s = PUnmute -> on_complete s = true -> stack s = [root] ->
  set_ok (uids s) -> bad s = [] -> completions s = c0 ->
  forall f, ok_stream f -> exists n, good c0 f s n.
Proof.
  induction k as [|k IH]; intros c s Hk Hc3 Hcnt Hp Hoc Hst Hu Hb Hc f Hf; [lia|].
  assert (exists n, good c0 (shift f) (step false s (f O)) n) as [n Hn].
  { unfold step. rewrite Hp. unfold unmute_complete. rewrite Hst, Hcnt, UNMUTES3.
    assert (u32 (c + 1) = c + 1) as -> by (unfold u32; apply N.mod_small; lia).
    destruct (c + 1 <? 3) eqn:E.
    - apply N.ltb_lt in E. apply (IH (c + 1)); try assumption; try reflexivity; try lia.
      apply ok_shift; exact Hf.
    - apply (term_mmn c0 (queue s)); try assumption; try reflexivity. apply ok_shift; exact Hf. }
  exists (S n). apply good_step; try assumption; rewrite Hp; discriminate.
Qed.

Lemma terminates inc s0 f :
  set_ok (uids s0) -> ok_stream f -> exists n, good (completions s0) f (init inc s0) n.
Proof.
  intros Hu Hf.
  apply (term_unmute (completions s0) 3 0 (init inc s0)); try reflexivity; try assumption; try lia.
  cbn. destruct inc; [exact Hu | apply set_ok_nil].
Qed.

(* once idle the agent stays as it is: the completion callback cannot run a second time *)
Lemma run_idle f : forall n s, pending s = PIdle -> run false n f s = s.
Proof.
  intros n. revert f. induction n as [|n IH]; intros f s H; cbn [run]; [reflexivity|].
  assert (step false s (f O) = s) as -> by (unfold step; rewrite H; reflexivity).
  apply IH. exact H.
Qed.

Lemma run_add f : forall n m s, run false (n + m) f s = run false m (fun i => f (n + i)%nat) (run false n f s).
Proof.
  intros n. revert f. induction n as [|n IH]; intros f m s; cbn [run plus]; [reflexivity|].
  rewrite IH. reflexivity.
Qed.

Lemma stays_done c0 f s n : good c0 f s n -> forall m, (n <= m)%nat -> run false m f s = run false n f s.
Proof.
  intros [G1 _] m Hm. replace m with (n + (m - n))%nat by lia. rewrite run_add. apply run_idle. exact G1.
Qed.

Lemma terminates_full :
  forall (incremental : bool) (s0 : st) (f : nat -> answer),
    (NoDup (uids s0) /\ forall x, In x (uids s0) -> x < 281474976710656) ->
    (forall i, len (a_data (f i)) < 4294967296) ->
    exists n : nat,
      let e := run false n f (init incremental s0) in
      pending e = PIdle /\ completions e = completions s0 + 1 /\
      (exists status, result e = Some (status, uids e)) /\
      (NoDup (uids e) /\ forall x, In x (uids e) -> x < 281474976710656) /\
      (forall m, (m < n)%nat ->
         let x := run false m f (init incremental s0) in
         pending x <> PIdle /\ pending x <> PHazard /\ completions x = completions s0) /\
      (forall m, (n <= m)%nat -> run false m f (init incremental s0) = e).
Proof.
  intros inc s0 f Hu Hf. destruct (terminates inc s0 f Hu Hf) as [n Hg]. exists n.
  pose proof (stays_done _ _ _ _ Hg) as Hs. destruct Hg as [G1 [G2 [G3 [G4 G5]]]].
  cbv zeta. repeat split; try assumption; try apply G3; try apply G5; try assumption.
Qed.

Definition pop_run (legacy : bool) (pop : list resp) : N :=
  completions (fst (fst (run_pop legacy 2000 pop (init false idle0) []))).


Lemma legacy_split_wrap_w :
  pop_run true [mkP 0 2 false 0] = 0 /\ pop_run true [mkP 281474976710655 2 false 0] = 0 /\
  pop_run false [mkP 0 2 false 0] = 1 /\ pop_run false [mkP 281474976710655 2 false 0] = 1.
Proof. vm_compute. repeat split. Qed.
Lemma legacy_failure_limit_w :
  pop_run true [mkP 1000 1 false 0; mkP 1001 0 false 0] = 0 /\
  pop_run false [mkP 1000 1 false 0; mkP 1001 0 false 0] = 1.
Proof. vm_compute. repeat split. Qed.
Lemma constants_w :
  MAX_EMPTY_BRANCH_ATTEMPTS = 5 /\ MAX_BRANCH_FAILURES = 5 /\ MAX_MUTE_ATTEMPTS = 5 /\
  BROADCAST_UNMUTE_REPEATS = 3 /\ PREAMBLE_SIZE = 8 /\ EUID_SIZE = 12 /\ CHECKSUM_SIZE = 4.
Proof. repeat split. Qed.
