(* C11: the per-callback progress lemma. *)
From OlaBase Require Import Bytes.
From C11 Require Import Gen Model Lemmas Send Push Step Term.
Local Open Scope N_scope.

Lemma val_true_pos r : r_att r < 5 -> 1 <= val true r.
Proof.
  intros H. unfold val. pose proof (unit_pos r).
  assert (1 <= 5 - r_att r - 0 + (5 - r_fail r)) by lia. nia.
Qed.

Lemma pw_fail_inc r rest : r_fail r < 5 ->
  pw (r_set_fail r (u32 (r_fail r + 1)) :: rest) < pw (r :: rest).
Proof.
  intros H. unfold pw, phi_wait. pose proof (val_fail_inc r H) as Hv. pose proof (unit_pos r) as Hu.
  change (r_ud (r_set_fail r (u32 (r_fail r + 1)))) with (r_ud r).
  generalize dependent (val true (r_set_fail r (u32 (r_fail r + 1)))).
  generalize dependent (unit_of r). generalize (val true r). generalize (phi_b rest (0 <? r_ud r)).
  clear. intros. lia.
Qed.

Lemma mu2_branch s : pending s = PBranch -> mu2 s = pw (stack s) * 6 + 6.
Proof. intros H. unfold mu2, pw. rewrite H. reflexivity. Qed.

(* a reply from an already known UID: failures++ then split / collision *)
Lemma k_case s r rest s1 u :
  stack s = r :: rest -> inv s -> pending s = PBranch ->
  stack s1 = r_set_fail r (u32 (r_fail r + 1)) :: rest ->
  uids s1 = uids s -> bad s1 = bad s -> completions s1 = completions s -> on_complete s1 = true ->
  progress s (split_around false u s1) /\ progress s (handle_collision false s1).
Proof.
  intros Es [Hoc [Hok [Htop [Hu [Hb Hp]]]]] Hpb Es1 U1 U2 U3 U4.
  rewrite Es in Hok, Htop. cbn [top_ok] in Htop.
  set (r' := r_set_fail r (u32 (r_fail r + 1))) in *.
  assert (Hf' : r_fail r' <= 5).
  { unfold r'; cbn. unfold u32. rewrite N.mod_small by lia. lia. }
  assert (Hok1 : stack_ok (stack s1)).
  { rewrite Es1. cbn [stack_ok] in *. unfold range_ok, r' in *; cbn. exact Hok. }
  pose proof (pw_fail_inc r rest Htop) as Hpw. fold r' in Hpw.
  assert (Hg : G s1 = G s) by (unfold G; rewrite U1, U2; reflexivity).
  split.
  - destruct (sa_spec s1 r' rest u Es1 Hok1 U4 Hf') as [b [Hs [Hle _]]].
    apply (sent_progress s s1 _ b Hs); [rewrite U1; exact Hu | rewrite U2; exact Hb | exact U3 |].
    right. split; [exact Hg|]. rewrite (mu2_branch s Hpb), Es. lia.
  - destruct (hc_spec s1 r' rest Es1 Hok1 U4 Hf') as [b [Hs [Hle _]]].
    apply (sent_progress s s1 _ b Hs); [rewrite U1; exact Hu | rewrite U2; exact Hb | exact U3 |].
    right. split; [exact Hg|]. rewrite (mu2_branch s Hpb), Es. lia.
Qed.

Lemma G_add_uids s s1 u :
  uids s1 = set_add u (uids s) -> bad s1 = bad s -> ~ In u (uids s) -> set_ok (uids s1) -> G s1 < G s.
Proof.
  intros U1 U2 Hn Hok. unfold G. rewrite U2. pose proof (set_ok_card _ Hok) as Hc.
  rewrite U1 in *. rewrite card_add in * by exact Hn. lia.
Qed.
Lemma G_add_bad s s1 u :
  bad s1 = set_add u (bad s) -> uids s1 = uids s -> ~ In u (bad s) -> set_ok (bad s1) -> G s1 < G s.
Proof.
  intros U1 U2 Hn Hok. unfold G. rewrite U2. pose proof (set_ok_card _ Hok) as Hc.
  rewrite U1 in *. rewrite card_add in * by exact Hn. lia.
Qed.

Lemma step_progress s a :
  inv s -> len (a_data a) < 4294967296 -> progress s (step false s a).
Proof.
  intros Hinv Hlen. pose proof Hinv as [Hoc [Hok [Htop [Hu [Hb Hp]]]]].
  destruct (stack s) as [|r rest] eqn:Es; [destruct Htop|].
  cbn [top_ok] in Htop. pose proof Hok as Hok'. cbn [stack_ok] in Hok'.
  destruct Hok' as [[Hlo [Hhi Hatt]] [Hpar Hrest]].
  unfold step. destruct Hp as [Hp|[Hp [Hm1 [Hm2 [Hm3 Hm4]]]]]; rewrite Hp.
  - (* BranchComplete *)
    unfold branch_complete. destruct (decode (a_data a)) as [| |u|] eqn:Ed.
    + (* timeout *)
      rewrite Es.
      destruct rest as [|r2 rest'].
      * rewrite (free_current_single s r Es).
        set (s1 := set_tc _ _).
        assert (Hs : sent s1 (send false s1) (phi_b (stack s1) false)) by (apply send_spec; [exact I|exact Hoc]).
        apply (sent_progress s s1 _ _ Hs); [exact Hu | exact Hb | reflexivity |].
        right. split; [reflexivity|]. rewrite (mu2_branch s Hp), Es. unfold s1; cbn [stack set_tc set_stack phi_b].
        unfold pw, phi_wait. pose proof (val_true_pos r Hatt). cbn [phi_b]. lia.
      * destruct (r_par r) as [k|] eqn:Ep; [|discriminate Hpar].
        rewrite (free_current_cons s r r2 rest' k Es Ep Hpar).
        set (s1 := set_stack _ _).
        assert (Hok1 : stack_ok (stack s1)).
        { unfold s1; cbn [stack set_stack]. apply stack_ok_upd; [apply f_add_pres | exact Hrest]. }
        pose proof (send_spec s1 Hok1 Hoc) as Hs.
        apply (sent_progress s s1 _ _ Hs); [exact Hu | exact Hb | reflexivity |].
        right. split; [reflexivity|]. rewrite (mu2_branch s Hp), Es. unfold s1; cbn [stack set_stack].
        pose proof (phi_b_add_ud k (r_ud r) (r2 :: rest') false) as H1. cbn [orb] in H1.
        unfold pw, phi_wait. pose proof (val_true_pos r Hatt).
        generalize dependent (phi_b (upd_bot k (r_add_ud (r_ud r)) (r2 :: rest')) false).
        generalize (phi_b (r2 :: rest') (0 <? r_ud r)). generalize dependent (val true r).
        clear. intros. lia.
    + (* collision *)
      assert (Hok0 : stack_ok (stack s)) by (rewrite Es; exact Hok).
      destruct (hc_spec s r rest Es Hok0 Hoc ltac:(lia)) as [b [Hs [_ Hlt]]].
      apply (sent_progress s s _ b Hs); [exact Hu | exact Hb | reflexivity |].
      right. split; [reflexivity|]. rewrite (mu2_branch s Hp), Es. specialize (Hlt Htop). lia.
    + (* a valid frame for u *)
      rewrite Es.
      assert (Hinv' : inv s) by exact Hinv.
      destruct (set_mem u (uids s)) eqn:Emu.
      * assert (Hk : forall s1, stack s1 = r_set_fail r (u32 (r_fail r + 1)) :: rest ->
                     uids s1 = uids s -> bad s1 = bad s -> completions s1 = completions s ->
                     on_complete s1 = true ->
                     progress s (split_around false u s1) /\ progress s (handle_collision false s1))
          by (intros; eapply k_case; eassumption).
        unfold top_fail_inc. rewrite Es.
        destruct (negb (set_mem u (split s))).
        -- apply Hk; reflexivity || exact Hoc.
        -- apply Hk; reflexivity || exact Hoc.
      * destruct (set_mem u (bad s)) eqn:Emb.
        -- assert (Hk : forall s1, stack s1 = r_set_fail r (u32 (r_fail r + 1)) :: rest ->
                     uids s1 = uids s -> bad s1 = bad s -> completions s1 = completions s ->
                     on_complete s1 = true ->
                     progress s (split_around false u s1) /\ progress s (handle_collision false s1))
             by (intros; eapply k_case; eassumption).
           unfold top_fail_inc. rewrite Es.
           destruct (negb (set_mem u (split s))); apply Hk; reflexivity || exact Hoc.
        -- (* new UID: mute it *)
           left. split; [|split].
           ++ unfold inv; cbn. rewrite Es. repeat split; try assumption; try apply Hu; try apply Hb.
              right. repeat split.
              ** intros Hi. apply set_mem_In in Hi. congruence.
              ** intros Hi. apply set_mem_In in Hi. congruence.
              ** eapply decode_valid_lt; exact Ed.
           ++ reflexivity.
           ++ right. split; [reflexivity|]. unfold mu2; cbn. rewrite Hp, Es. lia.
    + exfalso. exact (decode_no_oob _ Hlen Ed).
  - (* BranchMuteComplete *)
    unfold branch_mute_complete.
    assert (Hatt' : u32 (mute_att s + 1) = mute_att s + 1) by (unfold u32; apply N.mod_small; lia).
    rewrite Hatt'. destruct (a_ok a).
    + cbn [stack set_mute]. rewrite Es.
      set (s1 := set_stack _ _).
      assert (Hu1 : set_ok (uids s1)) by (unfold s1; cbn; apply set_add_ok; assumption).
      assert (Hok1 : stack_ok (stack s1)).
      { unfold s1; cbn [stack set_stack stack_ok]. unfold range_ok; cbn. auto. }
      pose proof (send_spec s1 Hok1 Hoc) as Hs.
      apply (sent_progress s s1 _ _ Hs); [exact Hu1 | exact Hb | reflexivity |].
      left. apply (G_add_uids s s1 (muting s)); [reflexivity | reflexivity | exact Hm1 | exact Hu1].
    + rewrite MAXM5. destruct (mute_att s + 1 <? 5) eqn:E5.
      * apply N.ltb_lt in E5. left. split; [|split].
        -- unfold inv; cbn. rewrite Es. repeat split; try assumption; try apply Hu; try apply Hb.
           right. repeat split; assumption.
        -- reflexivity.
        -- right. split; [reflexivity|]. unfold mu2; cbn [pending stack mute_att set_pending set_mute]. rewrite Hp.
           generalize (phi_wait (stack s) * 6). intros. lia.
      * set (s1 := set_bad _ _).
        assert (Hb1 : set_ok (bad s1)) by (unfold s1; cbn; apply set_add_ok; assumption).
        assert (Hok1 : stack_ok (stack s1)) by (unfold s1; cbn [stack set_bad set_mute]; rewrite Es; exact Hok).
        pose proof (send_spec s1 Hok1 Hoc) as Hs.
        apply (sent_progress s s1 _ _ Hs); [exact Hu | exact Hb1 | reflexivity |].
        left. apply (G_add_bad s s1 (muting s)); [reflexivity | reflexivity | exact Hm2 | exact Hb1].
Qed.
