(* C11 model: ola::rdm::DiscoveryAgent (common/rdm/DiscoveryAgent.cpp) as a step machine.
   One [step] = one callback from the DiscoveryTargetInterface (UnMuteComplete,
   IncrementalMuteComplete, BranchComplete, BranchMuteComplete) run to the point where the agent
   has issued its next request (or run the completion callback).
   UIDs are N below 2^48 (UID::cmp is the order of ToUInt64()).
   [legacy = true]  : the code before fixes/01 and fixes/02 (kept for the refutation witnesses);
   [legacy = false] : the code with both fixes applied (what the theorems are about). *)
From OlaBase Require Import Bytes.
From C11 Require Import Gen.
Local Open Scope N_scope.

Definition MAXE := MAX_EMPTY_BRANCH_ATTEMPTS.
Definition MAXF := MAX_BRANCH_FAILURES.
Definition MAXM := MAX_MUTE_ATTEMPTS.
Definition UNMUTES := BROADCAST_UNMUTE_REPEATS.

Definition TWO32 : N := 4294967296.
Definition TWO48 : N := 281474976710656.
Definition TWO64 : N := 18446744073709551616.
Definition ALL_DEVICES_UID : N := 281474976710655.   (* ffff:ffffffff *)

(* UID(uint64_t): esta_id = (uint16_t)(uid >> 32), device_id = (uint32_t) uid; ToUInt64 is the value *)
Definition uid_of_u64 (x : N) : N := u16 (x / TWO32) * TWO32 + u32 x.
Definition uid_of_parts (m d : N) : N := u16 m * TWO32 + u32 d.

(* ---------- UIDSet (std::set<UID>): strictly sorted list ---------- *)
Fixpoint set_add (x : N) (l : list N) : list N :=
  match l with
  | [] => [x]
  | y :: t => if x <? y then x :: l else if x =? y then l else y :: set_add x t
  end.
Definition set_mem (x : N) (l : list N) : bool := existsb (N.eqb x) l.
Definition set_remove (x : N) (l : list N) : list N := filter (fun y => negb (y =? x)) l.

(* ---------- UIDRange ---------- *)
Record range := mkR { r_lo : N; r_hi : N; r_par : option nat;   (* parent = its index from the stack bottom *)
                      r_att : N; r_fail : N; r_ud : N; r_cor : bool }.
Definition fresh (lo hi : N) (p : option nat) := mkR lo hi p 0 0 0 false.
Definition r_set_att r v := mkR (r_lo r) (r_hi r) (r_par r) v (r_fail r) (r_ud r) (r_cor r).
Definition r_set_fail r v := mkR (r_lo r) (r_hi r) (r_par r) (r_att r) v (r_ud r) (r_cor r).
Definition r_set_ud r v := mkR (r_lo r) (r_hi r) (r_par r) (r_att r) (r_fail r) v (r_cor r).
Definition r_set_cor r := mkR (r_lo r) (r_hi r) (r_par r) (r_att r) (r_fail r) (r_ud r) true.
Definition r_add_ud (x : N) r := r_set_ud r (u32 (r_ud r + x)).

(* the stack is a list with the top first; the element r :: l has bottom index (length l) *)
Fixpoint upd_bot (k : nat) (f : range -> range) (l : list range) : list range :=
  match l with
  | [] => []
  | r :: t => if Nat.eqb k (length t) then f r :: t else r :: upd_bot k f t
  end.

Inductive pend := PIdle | PUnmute | PMuteInc | PBranch | PMuteBr | PHazard.

Record st := mkSt {
  stack : list range; uids : list N; bad : list N; split : list N; queue : list N;
  muting : N; unmute_count : N; mute_att : N; tree_corrupt : bool;
  on_complete : bool;            (* m_on_complete != NULL *)
  pending : pend;                (* which request is outstanding at the target *)
  completions : N;               (* how often the completion callback ran *)
  result : option (bool * list N) }.

Definition set_stack s v := mkSt v (uids s) (bad s) (split s) (queue s) (muting s) (unmute_count s)
  (mute_att s) (tree_corrupt s) (on_complete s) (pending s) (completions s) (result s).
Definition set_pending s v := mkSt (stack s) (uids s) (bad s) (split s) (queue s) (muting s)
  (unmute_count s) (mute_att s) (tree_corrupt s) (on_complete s) v (completions s) (result s).
Definition set_tc s v := mkSt (stack s) (uids s) (bad s) (split s) (queue s) (muting s)
  (unmute_count s) (mute_att s) v (on_complete s) (pending s) (completions s) (result s).
Definition set_uids s v := mkSt (stack s) v (bad s) (split s) (queue s) (muting s) (unmute_count s)
  (mute_att s) (tree_corrupt s) (on_complete s) (pending s) (completions s) (result s).
Definition set_bad s v := mkSt (stack s) (uids s) v (split s) (queue s) (muting s) (unmute_count s)
  (mute_att s) (tree_corrupt s) (on_complete s) (pending s) (completions s) (result s).
Definition set_split s v := mkSt (stack s) (uids s) (bad s) v (queue s) (muting s) (unmute_count s)
  (mute_att s) (tree_corrupt s) (on_complete s) (pending s) (completions s) (result s).
Definition set_mute s (u : N) (att : N) (q : list N) := mkSt (stack s) (uids s) (bad s) (split s) q u
  (unmute_count s) att (tree_corrupt s) (on_complete s) (pending s) (completions s) (result s).
Definition set_unmute_count s v := mkSt (stack s) (uids s) (bad s) (split s) (queue s) (muting s) v
  (mute_att s) (tree_corrupt s) (on_complete s) (pending s) (completions s) (result s).
Definition hazard s := set_pending s PHazard.

Definition idle0 : st := mkSt [] [] [] [] [] 0 0 0 false false PIdle 0 None.

(* ---------- FreeCurrentRange ---------- *)
Definition free_current (s : st) : st :=
  match stack s with
  | [] => hazard s                                   (* top() of an empty stack *)
  | r :: [] => set_tc (set_stack s []) (if r_cor r then true else tree_corrupt s)
  | r :: rest =>
    match r_par r with
    | None => hazard s                               (* NULL parent dereferenced *)
    | Some k => if Nat.ltb k (length rest)
                then set_stack s (upd_bot k (r_add_ud (r_ud r)) rest)
                else hazard s                        (* parent no longer on the stack *)
    end
  end.

Definition limit_hit (legacy : bool) (x m : N) : bool := if legacy then x =? m else m <=? x.

(* ---------- SendDiscovery (recursion bounded by the stack depth) ---------- *)
Fixpoint send_disc (legacy : bool) (n : nat) (s : st) : st :=
  match stack s with
  | [] =>
    if on_complete s
    then mkSt [] (uids s) (bad s) (split s) (queue s) (muting s) (unmute_count s) (mute_att s)
              (tree_corrupt s) false PIdle (completions s + 1)
              (Some (negb (tree_corrupt s), uids s))
    else set_pending s PIdle
  | r :: rest =>
    let r1 := if r_ud r =? 0 then r_set_att r (u32 (r_att r + 1)) else r in
    if limit_hit legacy (r_fail r1) MAXF || limit_hit legacy (r_att r1) MAXE || r_cor r1 then
      match n with
      | O => hazard s                                (* fuel: excluded by send_disc_fuel *)
      | S n' =>
        match r_par r1 with
        | None => send_disc legacy n' (free_current (set_stack s (r1 :: rest)))
        | Some k =>
          if Nat.ltb k (length rest)
          then send_disc legacy n' (free_current (set_stack s (r1 :: upd_bot k r_set_cor rest)))
          else hazard s                              (* parent no longer on the stack *)
        end
      end
    else set_pending (set_stack s (r1 :: rest)) PBranch
  end.

Definition send (legacy : bool) (s : st) : st := send_disc legacy (length (stack s)) s.

(* ---------- HandleCollision ---------- *)
Definition handle_collision (legacy : bool) (s : st) : st :=
  match stack s with
  | [] => hazard s
  | r :: rest =>
    if r_lo r =? r_hi r then
      send legacy (set_stack s (r_set_fail r (u32 (r_fail r + 1)) :: rest))
    else
      let mid := u64 (r_lo r + r_hi r) / 2 in
      let mid_uid := uid_of_u64 mid in
      let mid1_uid := uid_of_u64 (u64 (mid + 1)) in
      let me := Some (length rest) in
      send legacy (set_stack s (fresh mid1_uid (r_hi r) me :: fresh (r_lo r) mid_uid me ::
                                r_set_ud r 0 :: rest))
  end.

(* ---------- SplitAroundBadUID ---------- *)
Definition split_around (legacy : bool) (b : N) (s : st) : st :=
  match stack s with
  | [] => hazard s
  | r :: rest =>
    if r_lo r =? r_hi r then
      send legacy (set_stack s (r_set_fail r (u32 (r_fail r + 1)) :: rest))
    else if (b <? r_lo r) || (r_hi r <? b) then handle_collision legacy s
    else
      let m1 := uid_of_u64 (u64 (b + TWO64 - 1)) in       (* UID(bad_uid.ToUInt64() - 1) *)
      let p1 := uid_of_u64 (u64 (b + 1)) in               (* UID(bad_uid.ToUInt64() + 1) *)
      let me := Some (length rest) in
      let r0 := r_set_ud r 0 in
      let push_lo := if legacy then r_lo r <=? m1 else r_lo r <? b in
      let push_hi := if legacy then p1 <=? r_hi r else b <? r_hi r in
      let st1 := if push_lo then [fresh (r_lo r) m1 me] else [] in
      let st2 := if push_hi then [fresh p1 (r_hi r) me] else [] in
      send legacy (set_stack s (st2 ++ st1 ++ r0 :: rest))
  end.

(* ---------- DUB reply decoding (BranchComplete up to "ok this is a valid response") ---------- *)
Inductive dres := DTimeout | DCollision | DValid (u : N) | DOob.

Definition byte_at (d : list N) (i : N) : option N :=
  match rd d i with Some b => Some (u8 b) | None => None end.

(* while (data[offset] != SEPARATOR && offset < PREAMBLE_SIZE - 1) { if (data[offset] != PREAMBLE) collision; offset++ }
   k = PREAMBLE_SIZE - 1 - offset *)
Fixpoint scan (d : list N) (off : N) (k : nat) : dres + N :=
  match byte_at d off with
  | None => inl DOob
  | Some b =>
    if b =? PREAMBLE_SEPARATOR then inr off
    else match k with
         | O => inr off
         | S k' => if b =? PREAMBLE then scan d (off + 1) k' else inl DCollision
         end
  end.

Definition bytes_at (d : list N) (off : N) (n : nat) : option (list N) :=
  let l := firstn n (drop off d) in
  if Nat.eqb (length l) n then Some (map u8 l) else None.

Definition decode (d : list N) : dres :=
  let length := len d in
  if length =? 0 then DTimeout
  else if length <? 1 + EUID_SIZE + CHECKSUM_SIZE then DCollision
  else match scan d 0 (N.to_nat (PREAMBLE_SIZE - 1)) with
       | inl r => r
       | inr off =>
         match byte_at d off with
         | None => DOob
         | Some b =>
           if negb (b =? PREAMBLE_SEPARATOR) then DCollision
           else
             let off1 := off + 1 in
             let remaining := usub32 length off1 in
             if remaining <? EUID_SIZE + CHECKSUM_SIZE then DCollision
             else match bytes_at d off1 16 with
                  | Some [e11; e10; e9; e8; e7; e6; e5; e4; e3; e2; e1; e0; c3; c2; c1; c0] =>
                    let calc := u16 (e11 + e10 + e9 + e8 + e7 + e6 + e5 + e4 + e3 + e2 + e1 + e0) in
                    let recov := join16 (N.land c3 c2) (N.land c1 c0) in
                    if negb (recov =? calc) then DCollision
                    else
                      let man := join16 (N.land e11 e10) (N.land e9 e8) in
                      let dev := ((N.land e7 e6 * 256 + N.land e5 e4) * 256 + N.land e3 e2) * 256
                                 + N.land e1 e0 in
                      DValid (uid_of_parts man dev)
                  | _ => DOob
                  end
         end
       end.

(* ---------- BranchComplete ---------- *)
Definition top_fail_inc (s : st) : st :=
  match stack s with
  | [] => hazard s
  | r :: rest => set_stack s (r_set_fail r (u32 (r_fail r + 1)) :: rest)
  end.

Definition branch_complete (legacy : bool) (data : list N) (s : st) : st :=
  match decode data with
  | DOob => hazard s
  | DTimeout =>
    send legacy (match stack s with [] => s | _ => free_current s end)
  | DCollision => handle_collision legacy s
  | DValid u =>
    match stack s with
    | [] => hazard s
    | _ =>
      if set_mem u (uids s) then
        let s1 := top_fail_inc s in
        if negb (set_mem u (split s)) then split_around legacy u (set_split s1 (set_add u (split s)))
        else handle_collision legacy s1
      else if set_mem u (bad s) then
        let s1 := top_fail_inc s in
        if negb (set_mem u (split s)) then split_around legacy u s1
        else handle_collision legacy s1
      else set_pending (set_mute s u 0 (queue s)) PMuteBr
    end
  end.

(* ---------- BranchMuteComplete ---------- *)
Definition branch_mute_complete (legacy : bool) (status : bool) (s : st) : st :=
  let att := u32 (mute_att s + 1) in
  let s0 := set_mute s (muting s) att (queue s) in
  if status then
    match stack s0 with
    | [] => hazard s0
    | r :: rest =>
      send legacy (set_stack (set_uids s0 (set_add (muting s) (uids s0))) (r_add_ud 1 r :: rest))
    end
  else if att <? MAXM then set_pending s0 PMuteBr
  else send legacy (set_bad s0 (set_add (muting s) (bad s0))).

(* ---------- MaybeMuteNextDevice / IncrementalMuteComplete / UnMuteComplete / InitDiscovery ---------- *)
Definition maybe_mute_next (legacy : bool) (s : st) : st :=
  match queue s with
  | [] => send legacy s
  | u :: q => set_pending (set_mute s u (mute_att s) q) PMuteInc
  end.

Definition inc_mute_complete (legacy : bool) (status : bool) (s : st) : st :=
  maybe_mute_next legacy (if status then s else set_uids s (set_remove (muting s) (uids s))).

Definition unmute_complete (legacy : bool) (s : st) : st :=
  match stack s with
  | [] => set_pending s PIdle                        (* Abort() was called *)
  | _ =>
    let c := u32 (unmute_count s + 1) in
    let s1 := set_unmute_count s c in
    if c <? UNMUTES then set_pending s1 PUnmute else maybe_mute_next legacy s1
  end.

(* StartFullDiscovery / StartIncrementalDiscovery when no discovery is running *)
Definition init (incremental : bool) (s : st) : st :=
  mkSt [fresh 0 ALL_DEVICES_UID None]
       (if incremental then uids s else []) [] []
       (if incremental then uids s else [])
       (muting s) 0 (mute_att s) false true PUnmute (completions s) None.

(* ---------- one callback from the target ---------- *)
Record answer := mkA { a_ok : bool; a_data : list N }.

Definition step (legacy : bool) (s : st) (a : answer) : st :=
  match pending s with
  | PUnmute => unmute_complete legacy s
  | PMuteInc => inc_mute_complete legacy (a_ok a) s
  | PBranch => branch_complete legacy (a_data a) s
  | PMuteBr => branch_mute_complete legacy (a_ok a) s
  | PIdle => s
  | PHazard => s
  end.

(* run against a fixed stream of answers *)
Fixpoint run (legacy : bool) (n : nat) (f : nat -> answer) (s : st) : st :=
  match n with
  | O => s
  | S m => run legacy m (fun i => f (S i)) (step legacy s (f O))
  end.

(* ---------- environments: who answers the requests ---------- *)
(* a responder on the line; behaviour flags (bits of p_kind):
   1  keeps answering DUBs while muted (ACKs the mute)         "obnoxious"
   2  never ACKs a mute and never mutes                        "non-muting"
   4  answers DUBs whatever the requested range
   8  DUB reply one byte short                                 "brief"
   16 DUB reply with a trailing byte                           "rambling"
   32 ACKs a mute only from the third attempt on               "flaky"
   64 DUB reply with a wrong checksum
   128 no preamble (reply starts at the separator)
   256 silent on DUB (still ACKs mute)
   512 sits behind a proxy: neither answers DUBs nor ACKs mutes while a proxy of the population is un-muted
   1024 is a proxy (otherwise an ordinary responder) *)
Record resp := mkP { p_uid : N; p_kind : N; p_muted : bool; p_cnt : N }.
Definition has (r : resp) (bit : N) : bool := N.testbit (p_kind r) bit.

Definition enc2 (b : N) : list N := [N.lor b 170; N.lor b 85].
Definition uid_bytes (u : N) : list N :=
  [u / 1099511627776 mod 256; u / 4294967296 mod 256; u / 16777216 mod 256; u / 65536 mod 256;
   u / 256 mod 256; u mod 256].
Definition euid (u : N) : list N := flat_map enc2 (uid_bytes u).
Definition dub_frame (preamble : bool) (ckdelta : N) (u : N) : list N :=
  let e := euid u in
  let ck := u16 (sum_bytes e + ckdelta) in
  (if preamble then repeat 254 7 else []) ++ [170] ++ e ++ enc2 (ck / 256) ++ enc2 (ck mod 256).

Definition resp_frame (r : resp) : list N :=
  let f := dub_frame (negb (has r 7)) (if has r 6 then 1 else 0) (p_uid r) in
  let f := if has r 3 then removelast f else f in
  if has r 4 then f ++ [82] else f.

Definition responds (r : resp) (lo hi : N) : bool :=
  negb (has r 8) && (has r 2 || ((lo <=? p_uid r) && (p_uid r <=? hi))) && (has r 0 || negb (p_muted r)).

Fixpoint or_bytes (a b : list N) : list N :=
  match a, b with
  | [], _ => b
  | _, [] => a
  | x :: a', y :: b' => N.lor x y :: or_bytes a' b'
  end.

Definition hidden (pop : list resp) (r : resp) : bool :=
  has r 9 && existsb (fun p => has p 10 && negb (p_muted p)) pop.

Definition line_branch (pop : list resp) (lo hi : N) : list N :=
  fold_left (fun acc r => if responds r lo hi && negb (hidden pop r) then or_bytes acc (resp_frame r) else acc) pop [].

Definition mute_one (u : N) (r : resp) : bool * resp :=
  if negb (p_uid r =? u) then (false, r)
  else if has r 1 then (false, r)
  else if has r 5 then
    let c := p_cnt r + 1 in
    if 2 <? c then (true, mkP (p_uid r) (p_kind r) true c) else (false, mkP (p_uid r) (p_kind r) (p_muted r) c)
  else (true, mkP (p_uid r) (p_kind r) true (p_cnt r)).

Fixpoint line_mute_in (all pop : list resp) (u : N) : bool * list resp :=
  match pop with
  | [] => (false, [])
  | r :: t => let '(a, r') := if hidden all r then (false, r) else mute_one u r in
              let '(b, t') := line_mute_in all t u in (a || b, r' :: t')
  end.
Definition line_mute (pop : list resp) (u : N) : bool * list resp := line_mute_in pop pop u.

Definition line_unmute (pop : list resp) : list resp :=
  map (fun r => mkP (p_uid r) (p_kind r) false (p_cnt r)) pop.

(* what the agent asked for (for the call log) *)
Inductive call := CUnmute | CMute (u : N) | CBranch (lo hi : N).
Definition call_of (s : st) : option call :=
  match pending s with
  | PUnmute => Some CUnmute
  | PMuteInc | PMuteBr => Some (CMute (muting s))
  | PBranch => match stack s with r :: _ => Some (CBranch (r_lo r) (r_hi r)) | [] => None end
  | _ => None
  end.

(* run against a population: returns the final agent state, the population and the call log (newest first) *)
Fixpoint run_pop (legacy : bool) (n : nat) (pop : list resp) (s : st) (log : list call)
  : st * list resp * list call :=
  match n with
  | O => (s, pop, log)
  | S m =>
    match call_of s with
    | None => (s, pop, log)
    | Some CUnmute => run_pop legacy m (line_unmute pop) (step legacy s (mkA true [])) (CUnmute :: log)
    | Some (CMute u) =>
      let '(ok, pop') := line_mute pop u in
      run_pop legacy m pop' (step legacy s (mkA ok [])) (CMute u :: log)
    | Some (CBranch lo hi) =>
      run_pop legacy m pop (step legacy s (mkA false (line_branch pop lo hi))) (CBranch lo hi :: log)
    end
  end.

(* run against a scripted stream (a finite prefix, then the [tail] cycle repeated) *)
Fixpoint run_script (legacy : bool) (n : nat) (pre tail cur : list answer) (s : st) (log : list call)
  : st * list call :=
  match n with
  | O => (s, log)
  | S m =>
    match call_of s with
    | None => (s, log)
    | Some c =>
      match pre with
      | a :: pre' => run_script legacy m pre' tail cur (step legacy s a) (c :: log)
      | [] =>
        match cur with
        | a :: cur' => run_script legacy m [] tail cur' (step legacy s a) (c :: log)
        | [] => match tail with
                | a :: cur' => run_script legacy m [] tail cur' (step legacy s a) (c :: log)
                | [] => run_script legacy m [] tail [] (step legacy s (mkA false [])) (c :: log)
                end
        end
      end
    end
  end.
