(* C11: the transaction bound for whole discovery runs against conforming responders. *)
From OlaBase Require Import Bytes.
From C11 Require Import Gen Model Lemmas Send Push E120 Complete Complete2 Term3 Bound.
Local Open Scope N_scope.

Lemma filter_length_le {A} (f : A -> bool) (l : list A) : (length (filter f l) <= length l)%nat.
Proof. induction l as [|x l IH]; cbn [filter length]; [lia|]. destruct (f x); cbn [length]; lia. Qed.

Section Bound2.
Variable S : list N.
Variable coll : list N -> list N.
Hypothesis S_nodup : NoDup S.
Hypothesis S_lt : forall x, In x S -> x < ALL_DEVICES_UID.
Hypothesis coll_bad : forall A, (2 <= length A)%nat -> decode (coll A) = DCollision.

Notation e_step := (e_step S coll).
Notation e_run := (e_run S coll).
Notation unmute_phase := (unmute_phase S coll).

Lemma S_lt48 : forall x, In x S -> x < TWO48.
Proof. intros x H. pose proof (S_lt x H) as H1. clear - H1. unfold ALL_DEVICES_UID, TWO48 in *. lia. Qed.

Lemma inc_phase_b : forall q s M,
  queue s = q -> stack s = [root] -> bad s = [] -> on_complete s = true ->
  (forall x, In x (uids s) -> In x M \/ In x q) ->
  (forall x, In x M -> In x (uids s) /\ In x S) ->
  (forall x, In x q -> In x S -> In x (uids s)) ->
  exists n s' M', n = length q /\ e_run n (maybe_mute_next false s) M = (send false s', M') /\
    stack s' = [root] /\ bad s' = [] /\ on_complete s' = true /\
    tree_corrupt s' = tree_corrupt s /\ completions s' = completions s /\
    (forall x, In x (uids s') <-> In x M') /\ (forall x, In x M' -> In x S).
Proof.
  induction q as [|u q IH]; intros s M Hq Hst Hb Hoc Ha Hbm Hc; unfold maybe_mute_next; rewrite Hq.
  - exists O, s, M. cbn [E120.e_run]. repeat split; try assumption; try reflexivity.
    + intros H. destruct (Ha x H) as [H1|[]]. exact H1.
    + intros H. apply Hbm. exact H.
    + intros x H. apply Hbm. exact H.
  - set (s1 := set_pending _ PMuteInc).
    destruct (set_mem u S) eqn:Eu.
    + (* still there: ACK *)
      assert (Hs : e_step s1 M = (maybe_mute_next false s1, u :: M)).
      { unfold E120.e_step, call_of, step, s1; cbn [pending set_pending muting set_mute]. rewrite Eu. reflexivity. }
      apply set_mem_In in Eu.
      destruct (IH s1 (u :: M)) as [n [s' [M' [Hn [E H]]]]]; try (unfold s1; cbn; assumption || reflexivity).
      * unfold s1; cbn. intros x Hx. destruct (Ha x Hx) as [H|[->|H]]; [left; right; exact H | left; left; reflexivity | right; exact H].
      * unfold s1; cbn. intros x [->|Hx]; [split; [apply Hc; [left; reflexivity | exact Eu] | exact Eu] | apply Hbm; exact Hx].
      * unfold s1; cbn. intros x Hx Hs'. apply Hc; [right; exact Hx | exact Hs'].
      * exists (Datatypes.S n), s', M'. split; [cbn [length]; lia|]. cbn [E120.e_run]. rewrite Hs. split; [exact E|]. exact H.
    + (* gone: no ACK, forget it *)
      set (s2 := set_uids s1 (set_remove (muting s1) (uids s1))).
      assert (Hs : e_step s1 M = (maybe_mute_next false s2, M)).
      { unfold E120.e_step, call_of, step, s1; cbn [pending set_pending muting set_mute]. rewrite Eu. reflexivity. }
      assert (Hnu : ~ In u S) by (intros Hi; apply set_mem_In in Hi; congruence).
      assert (Hrm : forall x, In x (set_remove u (uids s)) <-> In x (uids s) /\ x <> u).
      { intros x. unfold set_remove. rewrite filter_In, negb_true_iff, N.eqb_neq. reflexivity. }
      destruct (IH s2 M) as [n [s' [M' [Hn [E H]]]]]; try (unfold s2, s1; cbn; assumption || reflexivity).
      * unfold s2, s1; cbn. intros x Hx. apply Hrm in Hx. destruct Hx as [Hx Hne].
        destruct (Ha x Hx) as [H|[H|H]]; [left; exact H | congruence | right; exact H].
      * unfold s2, s1; cbn. intros x Hx. destruct (Hbm x Hx) as [H1 H2]. split; [|exact H2].
        apply Hrm. split; [exact H1 | intros ->; contradiction].
      * unfold s2, s1; cbn. intros x Hx Hs'. apply Hrm. split; [apply Hc; [right; exact Hx | exact Hs'] | intros ->; contradiction].
      * exists (Datatypes.S n), s', M'. split; [cbn [length]; lia|]. cbn [E120.e_run]. rewrite Hs. split; [exact E|]. exact H.
Qed.

Lemma finish_b s M :
  stack s = [root] -> bad s = [] -> on_complete s = true -> tree_corrupt s = false ->
  (forall x, In x (uids s) <-> In x M) -> (forall x, In x M -> In x S) ->
  exists n e Mf, (n <= 1 + 98 * length S)%nat /\ e_run n (send false s) M = (e, Mf) /\
    pending e = PIdle /\ completions e = completions s + 1 /\ result e = Some (true, uids e) /\
    (forall x, In x (uids e) <-> In x S).
Proof.
  intros Hst Hb Hoc Htc Hu Hm.
  set (root1 := r_set_att root (u32 (r_att root + 1))).
  assert (Hsend : send false s = set_pending (set_stack s [root1]) PBranch).
  { rewrite (send_top s root [] Hst); vm_compute; reflexivity. }
  set (sB := set_pending _ PBranch) in Hsend.
  destruct (process_b S coll S_nodup S_lt48 coll_bad 48%nat sB M root1 []
              ltac:(vm_compute; reflexivity) eq_refl eq_refl ltac:(vm_compute; discriminate) ltac:(vm_compute; reflexivity) eq_refl eq_refl eq_refl eq_refl)
    as [n [Hbn [sf [rf [M' [E [St [Par [Cor [[Rb [Roc [Ru Rs]]] [HM [Tc Cp]]]]]]]]]]]].
  { unfold rel, sB; cbn. auto. }
  assert (Hfc : free_current sf = set_tc (set_stack sf []) (tree_corrupt sf)).
  { rewrite (free_current_single sf rf St). rewrite Cor. reflexivity. }
  assert (Hfin : send false (free_current sf) =
                 mkSt [] (uids sf) (bad sf) (split sf) (queue sf) (muting sf) (unmute_count sf) (mute_att sf)
                      (tree_corrupt sf) false PIdle (completions sf + 1) (Some (negb (tree_corrupt sf), uids sf))).
  { rewrite Hfc. rewrite send_empty by (cbn; auto). reflexivity. }
  exists n. eexists. exists M'. split.
  { unfold B in Hbn. pose proof (filter_length_le (fun x => (r_lo root1 <=? x) && (x <=? r_hi root1) && negb (set_mem x M)) S) as Hl.
    unfold E120.answering in Hbn. lia. }
  rewrite Hsend, E, Hfin. split; [reflexivity|]. cbn.
  unfold sB in Tc, Cp; cbn in Tc, Cp. rewrite Tc, Htc, Cp. repeat split.
  - intros Hx. apply Ru in Hx. apply HM in Hx. destruct Hx as [Hx|Hx]; [apply Hm; exact Hx|].
    apply answering_In in Hx. apply Hx.
  - intros Hx. apply Ru. apply HM. destruct (in_dec N.eq_dec x M) as [Hi|Hn]; [left; exact Hi|].
    right. apply answering_In. change (r_lo root1) with 0. change (r_hi root1) with ALL_DEVICES_UID.
    specialize (S_lt x Hx). repeat split; try assumption; lia.
Qed.

Lemma discovery_b (inc : bool) s0 M0 :
  exists n e M, (n <= 4 + length (if inc then uids s0 else []) + 98 * length S)%nat /\
    e_run n (init inc s0) M0 = (e, M) /\
    pending e = PIdle /\ completions e = completions s0 + 1 /\ result e = Some (true, uids e) /\
    (forall x, In x (uids e) <-> In x S).
Proof.
  destruct (unmute_phase inc s0 M0) as [s3 [E3 [St3 [B3 [Oc3 [Tc3 [Cp3 [Q3 U3]]]]]]]].
  destruct (inc_phase_b (queue s3) s3 [] eq_refl St3 B3 Oc3) as [n1 [s' [M' [Hn1 [E1 [St' [B' [Oc' [Tc' [Cp' [Hu' Hm']]]]]]]]]]].
  - intros x Hx. right. rewrite Q3. rewrite U3 in Hx. exact Hx.
  - intros x [].
  - intros x Hx _. rewrite U3. rewrite Q3 in Hx. exact Hx.
  - destruct (finish_b s' M' St' B' Oc' ltac:(congruence) Hu' Hm') as [n2 [e [Mf [Hn2 [E2 H]]]]].
    exists (3 + (n1 + n2))%nat, e, Mf. split; [rewrite Q3 in Hn1; lia|].
    rewrite e_run_add, E3. rewrite e_run_add, E1. split; [exact E2|].
    rewrite Cp', Cp3 in H. exact H.
Qed.
End Bound2.

Lemma bounded_tx_w : forall (S : list N) (coll : list N -> list N) (inc : bool) (s0 : st) (M0 : list N),
  NoDup S -> (forall x, In x S -> x < 281474976710655) ->
  (forall A, (2 <= length A)%nat -> decode (coll A) = DCollision) ->
  exists n e M,
    (n <= 4 + length (if inc then uids s0 else []) + 98 * length S)%nat /\
    e_run S coll n (init inc s0) M0 = (e, M) /\
    pending e = PIdle /\ completions e = completions s0 + 1 /\
    result e = Some (true, uids e) /\ (forall x, In x (uids e) <-> In x S).
Proof. intros S coll inc s0 M0 H1 H2 H3. exact (discovery_b S coll H1 H2 H3 inc s0 M0). Qed.
