(* C11: statements about histories, in the form used by Properties.v. *)
From OlaBase Require Import Bytes.
From C11 Require Import Gen Model Session Lemmas Term3 SessWf SessInv E120 Complete2.
Local Open Scope N_scope.

Lemma sessions_w : forall ops : list op,
  (forall o, In o ops -> match o with OReply a => len (a_data a) < 4294967296 | _ => True end) ->
  let ss := run_ops ops sess0 in
  pending (ag ss) <> PHazard /\
  NoDup (map eid (events ss)) /\
  (forall i, In i (map eid (events ss)) -> i < next_id ss) /\
  (forall i, i < next_id ss ->
     In i (map eid (events ss)) \/ (on_complete (ag ss) = true /\ owner ss = i)) /\
  (on_complete (ag ss) = true -> ~ In (owner ss) (map eid (events ss))) /\
  (on_complete (ag ss) = true ->
   forall f : nat -> answer, (forall i, len (a_data (f i)) < 4294967296) ->
   exists k, In (owner ss) (map eid (events (s_replies k f ss)))).
Proof.
  intros ops Hok ss.
  assert (H : SI ss) by (apply SI_run; [apply SI_sess0 | exact Hok]).
  pose proof H as [H1 [H2 [H3 [H4 H5]]]].
  split; [apply wf_not_hazard; exact H1|]. split; [exact H2|]. split; [exact H3|]. split; [exact H5|].
  split; [intros E; apply (H4 E)|].
  intros E f Hf. exact (running_completes ss f H E Hf).
Qed.

Lemma refused_w : forall (ss : sess) (inc : bool) (act : cbact),
  on_complete (ag ss) = true ->
  In (next_id ss, false, []) (events (s_start inc act ss)) /\ ag (s_start inc act ss) = ag ss.
Proof.
  intros [a o c n ev] inc act H; cbn [ag next_id] in *. unfold s_start; cbn [ag owner owner_act next_id events].
  rewrite H. unfold nested; cbn [ag owner owner_act next_id events]. destruct act; cbn; auto.
Qed.

Lemma abort_w : forall ss : sess,
  (on_complete (ag ss) = true ->
     In (owner ss, false, []) (events (s_abort ss)) /\
     (owner_act ss = ANone ->
        on_complete (ag (s_abort ss)) = false /\ pending (ag (s_abort ss)) = PIdle /\
        stack (ag (s_abort ss)) = [] /\ uids (ag (s_abort ss)) = uids (ag ss) /\
        queue (ag (s_abort ss)) = queue (ag ss))) /\
  (on_complete (ag ss) = false -> events (s_abort ss) = events ss /\ next_id (s_abort ss) = next_id ss).
Proof.
  intros [a o c n ev]; cbn [ag owner owner_act events next_id]. unfold s_abort, fire, abort; cbn [ag owner owner_act next_id events].
  split; intros H; rewrite H; cbn.
  - unfold nested; cbn [ag owner owner_act next_id events].
    split; [destruct c; cbn; auto | intros ->; cbn; auto].
  - auto.
Qed.

Lemma destroy_w : forall ss : sess,
  ag (s_destroy ss) = idle0 /\
  (on_complete (ag ss) = true -> In (owner ss, false, []) (events (s_destroy ss))) /\
  (on_complete (ag ss) = false -> events (s_destroy ss) = events ss /\ next_id (s_destroy ss) = next_id ss).
Proof.
  intros [a o c n ev]; cbn [ag owner owner_act events next_id]. unfold s_destroy, fire, abort; cbn [ag owner owner_act next_id events].
  split; [reflexivity|]. split; intros H; rewrite H; cbn; auto.
Qed.

Lemma late_w : forall (ss : sess) (k : pend) (a : answer),
  stack (ag ss) = [] -> s_late k a ss = ss.
Proof.
  intros [a0 o c n ev] k a; cbn [ag]. intros H. unfold s_late, late, fire; cbn [ag owner owner_act next_id events].
  rewrite H. destruct (on_complete a0); reflexivity.
Qed.

Lemma late_after_abort_w : forall (ss : sess) (k : pend) (a : answer),
  owner_act ss = ANone -> s_late k a (s_abort ss) = s_abort ss.
Proof.
  intros ss k a H. apply late_w. destruct ss as [a0 o c n ev]; cbn [owner_act] in H; subst c.
  unfold s_abort, fire, abort; cbn [ag owner owner_act next_id events].
  destruct (on_complete a0) eqn:E; cbn; try reflexivity; rewrite ?E; reflexivity.
Qed.

Lemma nested_w : forall (ss : sess) (a : answer),
  on_complete (ag ss) = true -> on_complete (step false (ag ss) a) = false -> owner_act ss <> ANone ->
  events (s_reply a ss) =
    (owner ss, fst (res_of (step false (ag ss) a)), snd (res_of (step false (ag ss) a))) :: events ss /\
  owner (s_reply a ss) = next_id ss /\
  ag (s_reply a ss) = init (match owner_act ss with AInc => true | _ => false end) (step false (ag ss) a).
Proof.
  intros [a0 o c n ev] a; cbn [ag owner owner_act events next_id]. intros H1 H2 H3.
  unfold s_reply, fire; cbn [ag owner owner_act next_id events]. rewrite H1, H2. cbn [andb negb].
  destruct (res_of (step false a0 a)) as [st u]. unfold nested; cbn [ag owner owner_act next_id events].
  destruct c; [contradiction | |]; cbn; auto.
Qed.

Lemma complete_any_state_w :
  forall (ss : sess) (act : cbact) (S : list N) (coll : list N -> list N) (M0 : list N),
  on_complete (ag ss) = false ->
  NoDup S -> (forall x, In x S -> x < 281474976710655) ->
  (forall A, (2 <= length A)%nat -> decode (coll A) = DCollision) ->
  exists n e M, e_run S coll n (ag (s_start false act ss)) M0 = (e, M) /\
    pending e = PIdle /\ completions e = completions (ag ss) + 1 /\
    result e = Some (true, uids e) /\ (forall x, In x (uids e) <-> In x S).
Proof.
  intros [a o c n ev] act S coll M0 H H1 H2 H3; cbn [ag] in *. unfold s_start; cbn [ag owner owner_act next_id events].
  rewrite H. cbn [ag]. exact (complete_w S coll a M0 H1 H2 H3).
Qed.

Lemma uid_consts_w :
  ALL_DEVICES_UID = UID_BROADCAST_U64 /\ UID_BROADCAST_U64 = UID_ALL_MANUFACTURERS * TWO32 + UID_ALL_DEVICES /\
  TWO48 = UID_BROADCAST_U64 + 1 /\ UID_ALL_MANUFACTURERS = 65535 /\ UID_ALL_DEVICES = 4294967295 /\
  UID_SIZE = 6 /\ 281474976710655 = UID_BROADCAST_U64.
Proof. repeat split. Qed.
