(* C11: the conforming-responder line (E1.20) and facts about its answers. *)
From OlaBase Require Import Bytes.
From C11 Require Import Gen Model Lemmas Send Push.
Local Open Scope N_scope.

(* ---------- a valid DUB frame decodes to its UID ---------- *)
Definition byte_fact (b : N) : bool :=
  (N.lor b 170 <? 256) && (N.lor b 85 <? 256) && (N.land (N.lor b 170) (N.lor b 85) =? b).

Lemma byte_facts_all : forallb byte_fact (map N.of_nat (seq 0 256)) = true.
Proof. vm_compute. reflexivity. Qed.

Lemma byte_facts b : b < 256 ->
  u8 (N.lor b 170) = N.lor b 170 /\ u8 (N.lor b 85) = N.lor b 85 /\
  N.land (N.lor b 170) (N.lor b 85) = b /\ N.lor b 170 < 256 /\ N.lor b 85 < 256.
Proof.
  intros H. pose proof byte_facts_all as Ha. rewrite forallb_forall in Ha.
  assert (In b (map N.of_nat (seq 0 256))) as Hi.
  { apply in_map_iff. exists (N.to_nat b). split; [apply N2Nat.id | apply in_seq; lia]. }
  specialize (Ha _ Hi). unfold byte_fact in Ha.
  apply andb_true_iff in Ha. destruct Ha as [Ha H3]. apply andb_true_iff in Ha. destruct Ha as [H1 H2].
  apply N.ltb_lt in H1. apply N.ltb_lt in H2. apply N.eqb_eq in H3.
  unfold u8. rewrite !N.mod_small by assumption. auto.
Qed.

Lemma decode_frame_bytes b5 b4 b3 b2 b1 b0 :
  b5 < 256 -> b4 < 256 -> b3 < 256 -> b2 < 256 -> b1 < 256 -> b0 < 256 ->
  let e := flat_map enc2 [b5; b4; b3; b2; b1; b0] in
  let ck := u16 (sum_bytes e + 0) in
  decode (repeat 254 7 ++ [170] ++ e ++ enc2 (ck / 256) ++ enc2 (ck mod 256)) =
  DValid (uid_of_parts (join16 b5 b4) (((b3 * 256 + b2) * 256 + b1) * 256 + b0)).
Proof.
  intros H5 H4 H3 H2 H1 H0 e ck.
  assert (Hck : ck < 65536) by (unfold ck, u16; lia).
  assert (Hh : ck / 256 < 256) by lia.
  assert (Hl : ck mod 256 < 256) by lia.
  destruct (byte_facts _ H5) as [A5 [B5 [C5 [D5 E5]]]].
  destruct (byte_facts _ H4) as [A4 [B4 [C4 [D4 E4]]]].
  destruct (byte_facts _ H3) as [A3 [B3 [C3 [D3 E3]]]].
  destruct (byte_facts _ H2) as [A2 [B2 [C2 [D2 E2]]]].
  destruct (byte_facts _ H1) as [A1 [B1 [C1 [D1 E1]]]].
  destruct (byte_facts _ H0) as [A0 [B0 [C0 [D0 E0]]]].
  destruct (byte_facts _ Hh) as [Ah [Bh [Ch _]]].
  destruct (byte_facts _ Hl) as [Al [Bl [Cl _]]].
  assert (Hsum : ck = u16 (N.lor b5 170 + N.lor b5 85 + N.lor b4 170 + N.lor b4 85 + N.lor b3 170 +
                           N.lor b3 85 + N.lor b2 170 + N.lor b2 85 + N.lor b1 170 + N.lor b1 85 +
                           N.lor b0 170 + N.lor b0 85)).
  { unfold ck, e. cbn [flat_map enc2 app sum_bytes]. f_equal. lia. }
  generalize dependent ck. intros ck Hck Hh Hl Ah Bh Ch Al Bl Cl Hsum.
  unfold e. cbn [flat_map enc2 app repeat].
  unfold decode.
  match goal with |- context [len ?d] => set (dd := d) end.
  change (len dd) with 24.
  change (24 =? 0) with false. change (24 <? 1 + EUID_SIZE + CHECKSUM_SIZE) with false. cbv iota.
  change (scan dd 0 (N.to_nat (PREAMBLE_SIZE - 1))) with (@inr dres N 7).
  change (byte_at dd 7) with (Some 170).
  change (negb (170 =? PREAMBLE_SEPARATOR)) with false. cbv iota.
  change (usub32 24 (7 + 1)) with 16. change (16 <? EUID_SIZE + CHECKSUM_SIZE) with false. cbv iota.
  change (bytes_at dd (7 + 1) 16) with
    (Some [u8 (N.lor b5 170); u8 (N.lor b5 85); u8 (N.lor b4 170); u8 (N.lor b4 85);
           u8 (N.lor b3 170); u8 (N.lor b3 85); u8 (N.lor b2 170); u8 (N.lor b2 85);
           u8 (N.lor b1 170); u8 (N.lor b1 85); u8 (N.lor b0 170); u8 (N.lor b0 85);
           u8 (N.lor (ck / 256) 170); u8 (N.lor (ck / 256) 85);
           u8 (N.lor (ck mod 256) 170); u8 (N.lor (ck mod 256) 85)]).
  cbv iota.
  rewrite A5, B5, A4, B4, A3, B3, A2, B2, A1, B1, A0, B0, Ah, Bh, Al, Bl.
  rewrite C5, C4, C3, C2, C1, C0, Ch, Cl. rewrite <- Hsum.
  assert (join16 (ck / 256) (ck mod 256) = ck) as -> by (unfold join16; lia).
  rewrite N.eqb_refl. cbn [negb]. reflexivity.
Qed.

Lemma decode_frame x : x < TWO48 -> decode (dub_frame true 0 x) = DValid x.
Proof.
  intros Hx. unfold dub_frame, euid, uid_bytes. cbn [negb].
  assert (E40 : x / 1099511627776 = x / 256 / 256 / 256 / 256 / 256) by (rewrite !N.div_div by lia; reflexivity).
  assert (E32 : x / 4294967296 = x / 256 / 256 / 256 / 256) by (rewrite !N.div_div by lia; reflexivity).
  assert (E24 : x / 16777216 = x / 256 / 256 / 256) by (rewrite !N.div_div by lia; reflexivity).
  assert (E16 : x / 65536 = x / 256 / 256) by (rewrite !N.div_div by lia; reflexivity).
  rewrite E40, E32, E24, E16.
  set (q1 := x / 256). set (q2 := q1 / 256). set (q3 := q2 / 256). set (q4 := q3 / 256). set (q5 := q4 / 256).
  pose proof (N.div_mod' x 256) as D0. pose proof (N.div_mod' q1 256) as D1.
  pose proof (N.div_mod' q2 256) as D2. pose proof (N.div_mod' q3 256) as D3.
  pose proof (N.div_mod' q4 256) as D4.
  fold q1 in D0. fold q2 in D1. fold q3 in D2. fold q4 in D3. fold q5 in D4.
  pose proof (N.mod_lt x 256 ltac:(lia)) as B0. pose proof (N.mod_lt q1 256 ltac:(lia)) as B1.
  pose proof (N.mod_lt q2 256 ltac:(lia)) as B2. pose proof (N.mod_lt q3 256 ltac:(lia)) as B3.
  pose proof (N.mod_lt q4 256 ltac:(lia)) as B4.
  assert (B5 : q5 < 256) by (unfold TWO48 in Hx; lia).
  assert (M5 : q5 mod 256 = q5) by (apply N.mod_small; exact B5).
  rewrite M5.
  generalize dependent (x mod 256). generalize dependent (q1 mod 256). generalize dependent (q2 mod 256).
  generalize dependent (q3 mod 256). generalize dependent (q4 mod 256).
  intros d4 D4 B4 d3 D3 B3 d2 D2 B2 d1 D1 B1 d0 D0 B0.
  rewrite decode_frame_bytes by lia. f_equal.
  unfold uid_of_parts, join16, u16, u32, TWO32.
  rewrite (N.mod_small (q5 * 256 + d4)) by lia.
  rewrite (N.mod_small (((d3 * 256 + d2) * 256 + d1) * 256 + d0)) by lia.
  clearbody q1 q2 q3 q4 q5. lia.
Qed.

(* ---------- SendDiscovery in the cases a conforming line produces ---------- *)
Lemma send_top s r rest :
  stack s = r :: rest ->
  let r1 := if r_ud r =? 0 then r_set_att r (u32 (r_att r + 1)) else r in
  r_fail r < 5 -> r_att r1 < 5 -> r_cor r = false ->
  send false s = set_pending (set_stack s (r1 :: rest)) PBranch.
Proof.
  intros Es r1 Hf Ha Hc. unfold send. rewrite Es. cbn [length send_disc]. rewrite Es.
  fold r1. unfold limit_hit. rewrite MAXF5, MAXE5.
  assert (r_fail r1 = r_fail r /\ r_cor r1 = r_cor r) as [E1 E2] by (unfold r1; destruct (r_ud r =? 0); split; reflexivity).
  rewrite E1, E2, Hc.
  assert (5 <=? r_fail r = false) as -> by (apply N.leb_gt; exact Hf).
  assert (5 <=? r_att r1 = false) as -> by (apply N.leb_gt; exact Ha).
  reflexivity.
Qed.

Lemma send_empty s :
  stack s = [] -> on_complete s = true ->
  send false s = mkSt [] (uids s) (bad s) (split s) (queue s) (muting s) (unmute_count s) (mute_att s)
                      (tree_corrupt s) false PIdle (completions s + 1)
                      (Some (negb (tree_corrupt s), uids s)).
Proof. intros Es Hoc. unfold send. rewrite Es. cbn [length send_disc]. rewrite Es, Hoc. reflexivity. Qed.

Lemma upd_bot_here f r l : upd_bot (length l) f (r :: l) = f r :: l.
Proof. cbn [upd_bot]. rewrite Nat.eqb_refl. reflexivity. Qed.
Lemma upd_bot_skip f c r l : upd_bot (length l) f (c :: r :: l) = c :: f r :: l.
Proof.
  cbn [upd_bot length]. assert (Nat.eqb (length l) (S (length l)) = false) as -> by (apply Nat.eqb_neq; lia).
  rewrite Nat.eqb_refl. reflexivity.
Qed.

(* ---------- the conforming line ---------- *)
Section Line.
Variable S : list N.                 (* the connected responders *)
Variable coll : list N -> list N.    (* what the line carries when several responders answer *)

Definition answering (M : list N) (lo hi : N) : list N :=
  filter (fun x => (lo <=? x) && (x <=? hi) && negb (set_mem x M)) S.

Definition e_branch (M : list N) (lo hi : N) : list N :=
  match answering M lo hi with
  | [] => []
  | [x] => dub_frame true 0 x
  | A => coll A
  end.

(* one request answered; M = the muted responders *)
Definition e_step (s : st) (M : list N) : st * list N :=
  match call_of s with
  | None => (s, M)
  | Some CUnmute => (step false s (mkA true []), [])
  | Some (CMute u) => if set_mem u S then (step false s (mkA true []), u :: M)
                      else (step false s (mkA false []), M)
  | Some (CBranch lo hi) => (step false s (mkA false (e_branch M lo hi)), M)
  end.

Fixpoint e_run (n : nat) (s : st) (M : list N) : st * list N :=
  match n with
  | O => (s, M)
  | Datatypes.S m => let '(s1, M1) := e_step s M in e_run m s1 M1
  end.

Lemma e_run_add n m s M :
  e_run (n + m) s M = let '(s1, M1) := e_run n s M in e_run m s1 M1.
Proof.
  revert s M. induction n as [|n IH]; intros s M; cbn [e_run plus]; [reflexivity|].
  destruct (e_step s M) as [s1 M1]. apply IH.
Qed.

Lemma answering_In M lo hi x :
  In x (answering M lo hi) <-> In x S /\ lo <= x /\ x <= hi /\ ~ In x M.
Proof.
  unfold answering. rewrite filter_In. rewrite !andb_true_iff, negb_true_iff.
  rewrite !N.leb_le. split.
  - intros [H1 [[H2 H3] H4]]. repeat split; try assumption. intros Hi. apply set_mem_In in Hi. congruence.
  - intros [H1 [H2 [H3 H4]]]. repeat split; try assumption.
    destruct (set_mem x M) eqn:E; [|reflexivity]. apply set_mem_In in E. contradiction.
Qed.

Lemma answering_NoDup M lo hi : NoDup S -> NoDup (answering M lo hi).
Proof. intros H. apply NoDup_filter. exact H. Qed.

Lemma answering_nil M lo hi :
  (forall x, In x S -> lo <= x -> x <= hi -> In x M) -> answering M lo hi = [].
Proof.
  intros H. destruct (answering M lo hi) as [|x l] eqn:E; [reflexivity|].
  assert (In x (answering M lo hi)) as Hi by (rewrite E; left; reflexivity).
  apply answering_In in Hi. destruct Hi as [H1 [H2 [H3 H4]]]. exfalso. apply H4. apply H; assumption.
Qed.
End Line.
