(* C11: invariants of the range stack and the specification of SendDiscovery. *)
From OlaBase Require Import Bytes.
From C11 Require Import Gen Model Lemmas.
Local Open Scope N_scope.

Definition range_ok (r : range) : Prop := r_lo r <= r_hi r /\ r_hi r < TWO48 /\ r_att r < 5.

Fixpoint stack_ok (l : list range) : Prop :=
  match l with
  | [] => True
  | r :: t => range_ok r /\
              match r_par r with None => t = [] | Some k => (k < length t)%nat end /\ stack_ok t
  end.

Definition top_ok (l : list range) : Prop :=
  match l with r :: _ => r_fail r < 5 | [] => False end.

Lemma stack_ok_upd k f l :
  (forall r, r_lo (f r) = r_lo r /\ r_hi (f r) = r_hi r /\ r_att (f r) = r_att r /\ r_par (f r) = r_par r) ->
  stack_ok l -> stack_ok (upd_bot k f l).
Proof.
  intros Hf. induction l as [|r t IH]; cbn [upd_bot stack_ok]; [trivial|].
  intros [Hr [Hp Ht]]. destruct (Nat.eqb k (length t)); cbn [stack_ok].
  - destruct (Hf r) as [H1 [H2 [H3 H4]]]. unfold range_ok in *. rewrite H1, H2, H3, H4. auto.
  - split; [exact Hr|]. split; [|exact (IH Ht)].
    destruct (r_par r); [rewrite upd_bot_length; exact Hp | subst t; reflexivity].
Qed.

Lemma f_cor_pres r : r_lo (r_set_cor r) = r_lo r /\ r_hi (r_set_cor r) = r_hi r /\
  r_att (r_set_cor r) = r_att r /\ r_par (r_set_cor r) = r_par r.
Proof. repeat split. Qed.
Lemma f_add_pres x r : r_lo (r_add_ud x r) = r_lo r /\ r_hi (r_add_ud x r) = r_hi r /\
  r_att (r_add_ud x r) = r_att r /\ r_par (r_add_ud x r) = r_par r.
Proof. repeat split. Qed.

Lemma free_current_single s r :
  stack s = [r] -> free_current s = set_tc (set_stack s []) (if r_cor r then true else tree_corrupt s).
Proof. intros H. unfold free_current. rewrite H. reflexivity. Qed.

Lemma free_current_cons s r r2 rest k :
  stack s = r :: r2 :: rest -> r_par r = Some k -> (k < length (r2 :: rest))%nat ->
  free_current s = set_stack s (upd_bot k (r_add_ud (r_ud r)) (r2 :: rest)).
Proof.
  intros H Hp Hk. unfold free_current. rewrite H, Hp.
  apply Nat.ltb_lt in Hk. rewrite Hk. reflexivity.
Qed.

(* result of SendDiscovery on a consistent stack *)
Definition sent (s s' : st) (bound : N) : Prop :=
  uids s' = uids s /\ bad s' = bad s /\
  ((pending s' = PBranch /\ on_complete s' = true /\ completions s' = completions s /\
    stack_ok (stack s') /\ top_ok (stack s') /\ phi_wait (stack s') <= bound)
   \/ (pending s' = PIdle /\ completions s' = completions s + 1 /\ on_complete s' = false /\
       result s' = Some (negb (tree_corrupt s'), uids s'))).

Lemma MAXF5 : MAXF = 5. Proof. reflexivity. Qed.
Lemma MAXE5 : MAXE = 5. Proof. reflexivity. Qed.
Lemma MAXM5 : MAXM = 5. Proof. reflexivity. Qed.

Lemma send_disc_spec : forall n s,
  stack_ok (stack s) -> (length (stack s) <= n)%nat -> on_complete s = true ->
  sent s (send_disc false n s) (phi_b (stack s) false).
Proof.
  induction n as [|n IH]; intros s Hok Hlen Hoc; cbn [send_disc];
    destruct (stack s) as [|r rest] eqn:Es.
  - rewrite Hoc. unfold sent. cbn. auto 10.
  - cbn [length] in Hlen. lia.
  - rewrite Hoc. unfold sent. cbn. auto 10.
  - cbn [stack_ok] in Hok. destruct Hok as [[Hlo [Hhi Hatt]] [Hpar Hrest]].
    set (r1 := if r_ud r =? 0 then r_set_att r (u32 (r_att r + 1)) else r).
    assert (Hr1 : r_lo r1 = r_lo r /\ r_hi r1 = r_hi r /\ r_par r1 = r_par r /\ r_ud r1 = r_ud r /\
                  r_fail r1 = r_fail r /\ r_cor r1 = r_cor r /\
                  r_att r1 = (if r_ud r =? 0 then r_att r + 1 else r_att r)).
    { unfold r1. destruct (r_ud r =? 0); cbn; repeat split.
      unfold u32. apply N.mod_small. lia. }
    destruct Hr1 as [E1 [E2 [E3 [E4 [E5 [E6 E7]]]]]].
    unfold limit_hit. rewrite MAXF5, MAXE5.
    destruct ((5 <=? r_fail r1) || (5 <=? r_att r1) || r_cor r1) eqn:El.
    + (* limit reached: pop *)
      rewrite E3. destruct (r_par r) as [k|] eqn:Ep.
      * assert (Hk : Nat.ltb k (length rest) = true) by (apply Nat.ltb_lt; exact Hpar).
        rewrite Hk.
        destruct rest as [|r2 rest']; [cbn [length] in Hpar; lia|].
        set (restc := upd_bot k r_set_cor (r2 :: rest')).
        assert (Hlc : length restc = length (r2 :: rest')) by apply upd_bot_length.
        destruct restc as [|c2 restc'] eqn:Erc; [cbn [length] in Hlc; lia|].
        rewrite (free_current_cons _ r1 c2 restc' k); [| reflexivity | rewrite E3; reflexivity
                                                       | rewrite Hlc; exact Hpar ].
        set (s2 := set_stack _ _).
        assert (Hok2 : stack_ok (stack s2)).
        { unfold s2; cbn [stack set_stack]. apply stack_ok_upd; [apply f_add_pres|].
          rewrite <- Erc. unfold restc. apply stack_ok_upd; [apply f_cor_pres | exact Hrest]. }
        assert (Hl2 : (length (stack s2) <= n)%nat).
        { unfold s2; cbn [stack set_stack]. rewrite upd_bot_length, Hlc. cbn [length] in *. lia. }
        specialize (IH s2 Hok2 Hl2 Hoc).
        assert (Hb : phi_b (stack s2) false <= phi_b (r :: r2 :: rest') false).
        { unfold s2; cbn [stack set_stack].
          pose proof (phi_b_add_ud k (r_ud r1) (c2 :: restc') false) as H1.
          rewrite <- Erc in H1. unfold restc in H1. rewrite phi_b_set_cor in H1. rewrite E4 in H1.
          rewrite <- Erc. unfold restc. rewrite E4.
          cbn [phi_b orb] in *. etransitivity; [exact H1|].
          match goal with |- ?b <= ?a + ?b => generalize a; generalize b end. clear. intros; lia. }
        unfold sent in *. destruct IH as [U1 [U2 IH]]. split; [exact U1|]. split; [exact U2|].
        destruct IH as [[P1 [P2 [P3 [P4 [P5 P6]]]]]|IH]; [left | right; exact IH].
        repeat split; try assumption. exact (N.le_trans _ _ _ P6 Hb).
      * subst rest.
        rewrite (free_current_single _ r1) by reflexivity.
        set (s2 := set_tc _ _).
        assert (Hok2 : stack_ok (stack s2)) by (unfold s2; cbn; trivial).
        assert (Hl2 : (length (stack s2) <= n)%nat) by (unfold s2; cbn; lia).
        specialize (IH s2 Hok2 Hl2 Hoc).
        unfold sent in *. destruct IH as [U1 [U2 IH]]. split; [exact U1|]. split; [exact U2|].
        destruct IH as [[P1 [P2 [P3 [P4 [P5 P6]]]]]|IH]; [left | right; exact IH].
        repeat split; try assumption. unfold s2 in P6. cbn in P6. etransitivity; [exact P6|]. apply N.le_0_l.
    + (* a DUB is sent for r1 *)
      apply orb_false_iff in El. destruct El as [El Ec]. apply orb_false_iff in El.
      destruct El as [Ef Ea]. apply N.leb_gt in Ef. apply N.leb_gt in Ea.
      unfold sent. cbn. split; [reflexivity|]. split; [reflexivity|]. left.
      repeat split; try assumption; try reflexivity; try lia.
      * rewrite E3. exact Hpar.
      * (* potential *)
        rewrite E4. unfold val, unit_of, width. rewrite E1, E2, E5, E7.
        destruct (r_ud r =? 0) eqn:Eu.
        -- apply N.eqb_eq in Eu. rewrite Eu. cbn [N.ltb N.compare orb].
           replace (0 <? 0) with false by reflexivity. cbn [orb].
           assert (5 - (r_att r + 1) - 0 = 5 - r_att r - 1) as -> by lia. lia.
        -- apply N.eqb_neq in Eu. assert (0 <? r_ud r = true) as -> by (apply N.ltb_lt; lia).
           cbn [orb]. lia.
Qed.

Lemma send_spec s :
  stack_ok (stack s) -> on_complete s = true -> sent s (send false s) (phi_b (stack s) false).
Proof. intros H1 H2. unfold send. apply send_disc_spec; [exact H1 | lia | exact H2]. Qed.
