(* C11: the client side of DiscoveryAgent - histories of StartFullDiscovery / StartIncrementalDiscovery /
   Abort interleaved with replies from the line, with state carried from run to run, and completion
   callbacks that start another discovery.  Definitions only (executable; used by the model driver). *)
From OlaBase Require Import Bytes.
From C11 Require Import Gen Model.
Local Open Scope N_scope.

(* DiscoveryAgent::Abort(): the stack is emptied; a pending completion callback is cleared FIRST and
   then run with (false, {}).  m_uids, m_uids_to_mute, the bad/split sets and the counters are kept.
   The request that is in flight at the target is dropped by the line (pending := PIdle). *)
Definition abort (s : st) : st :=
  if on_complete s
  then mkSt [] (uids s) (bad s) (split s) (queue s) (muting s) (unmute_count s) (mute_att s)
            (tree_corrupt s) false PIdle (completions s + 1) (Some (false, []))
  else set_pending (set_stack s []) PIdle.

(* what a completion callback does *)
Inductive cbact := ANone | AFull | AInc.

(* a completion event: which Start it belongs to, status, UID set *)
Definition event : Type := N * bool * list N.

Record sess := mkSess {
  ag : st;
  owner : N;               (* id of the Start whose callback is m_on_complete *)
  owner_act : cbact;
  next_id : N;
  events : list event      (* newest first *)
}.

Definition sess0 : sess := mkSess idle0 0 ANone 0 [].

Definition res_of (s : st) : bool * list N :=
  match result s with Some r => r | None => (false, []) end.

(* a Start issued from inside a completion callback.
   [cleared] = was m_on_complete already NULL when the callback ran: true for Abort and (fixes/04) for
   SendDiscovery; false for the callback of a refused Start, which runs while the other discovery's
   m_on_complete is still set. *)
Definition nested (cleared : bool) (act : cbact) (ss : sess) : sess :=
  match act with
  | ANone => ss
  | _ =>
    let inc := match act with AInc => true | _ => false end in
    let id := next_id ss in
    if cleared
    then mkSess (init inc (ag ss)) id ANone (id + 1) (events ss)        (* accepted: a new run *)
    else mkSess (ag ss) (owner ss) (owner_act ss) (id + 1) ((id, false, []) :: events ss)  (* refused *)
  end.

(* after an agent operation: did it run the completion callback (m_on_complete went to NULL)? *)
Definition fire (cleared : bool) (ss : sess) (a' : st) : sess :=
  if on_complete (ag ss) && negb (on_complete a')
  then let '(st, u) := res_of a' in
       nested cleared (owner_act ss)
              (mkSess a' (owner ss) ANone (next_id ss) ((owner ss, st, u) :: events ss))
  else mkSess a' (owner ss) (owner_act ss) (next_id ss) (events ss).

(* StartFullDiscovery / StartIncrementalDiscovery from outside any callback *)
Definition s_start (inc : bool) (act : cbact) (ss : sess) : sess :=
  let id := next_id ss in
  if on_complete (ag ss)
  then (* refused: its callback runs at once with (false, {}), while m_on_complete is still set *)
       nested false act (mkSess (ag ss) (owner ss) (owner_act ss) (id + 1) ((id, false, []) :: events ss))
  else mkSess (init inc (ag ss)) id act (id + 1) (events ss).

(* a reply from the line (ignored when nothing is outstanding) *)
Definition s_reply (a : answer) (ss : sess) : sess := fire true ss (step false (ag ss) a).

Definition s_abort (ss : sess) : sess := fire true ss (abort (ag ss)).

(* A reply that arrives for a request of kind [k] that was in flight when Abort() was called (the target
   cannot cancel it).  All four callbacks start with "if (m_uid_ranges.empty()) return;" (fixes/03). *)
Definition late (k : pend) (a : answer) (s : st) : st :=
  match stack s with
  | [] => s
  | _ => step false (set_pending s k) a
  end.
Definition s_late (k : pend) (a : answer) (ss : sess) : sess := fire true ss (late k a (ag ss)).

(* ~DiscoveryAgent(): calls Abort() (a pending callback runs once with (false, {})); the agent is gone,
   a new one is constructed afterwards.  The dying agent's callback does not start another run. *)
Definition s_destroy (ss : sess) : sess :=
  let ss1 := fire true (mkSess (ag ss) (owner ss) ANone (next_id ss) (events ss)) (abort (ag ss)) in
  mkSess idle0 (owner ss1) ANone (next_id ss1) (events ss1).

(* replies of a responder population *)
Definition pop_answer (pop : list resp) (c : call) : answer * list resp :=
  match c with
  | CUnmute => (mkA true [], line_unmute pop)
  | CMute u => let '(ok, pop') := line_mute pop u in (mkA ok [], pop')
  | CBranch lo hi => (mkA false (line_branch pop lo hi), pop)
  end.
