(* C11: completeness WITHOUT the hypothesis that a collision fails validation.  When several conforming
   responders answer, the line carries [coll A], any non-empty byte string that is a function of the
   set A of responders answering (e.g. the byte-wise OR of their frames): it may decode as a valid frame
   of a phantom UID, of a connected responder, or not at all. *)
From OlaBase Require Import Bytes.
From C11 Require Import Gen Model Lemmas Send Push E120 Complete Term Term3 Bound2.
Local Open Scope N_scope.

Lemma decode_cases d : d <> [] -> len d < 4294967296 ->
  decode d = DCollision \/ exists p, decode d = DValid p /\ p < TWO48.
Proof.
  intros Hne Hl. destruct (decode d) as [| |p|] eqn:E.
  - exfalso. unfold decode in E. destruct (len d =? 0) eqn:E0.
    + apply N.eqb_eq in E0. unfold len in E0. destruct d; [contradiction | cbn in E0; lia].
    + destruct (len d <? 1 + EUID_SIZE + CHECKSUM_SIZE); [discriminate|].
      destruct (scan d 0 (N.to_nat (PREAMBLE_SIZE - 1))) as [r|off] eqn:Es.
      { destruct (scan_inl _ _ _ _ Es) as [->| ->]; discriminate E. }
      repeat match type of E with
             | context [if ?c then _ else _] => destruct c
             | context [match ?x with _ => _ end] => destruct x
             end; discriminate E.
  - left; reflexivity.
  - right. exists p. split; [reflexivity | exact (decode_valid_lt d p E)].
  - exfalso. exact (decode_no_oob d Hl E).
Qed.

(* branch_complete on a valid frame of an already known / already bad UID *)
Lemma bc_valid_known s d p r rest :
  decode d = DValid p -> stack s = r :: rest -> set_mem p (uids s) = true ->
  branch_complete false d s =
  let s1 := set_stack s (r_set_fail r (u32 (r_fail r + 1)) :: rest) in
  if negb (set_mem p (split s)) then split_around false p (set_split s1 (set_add p (split s)))
  else handle_collision false s1.
Proof. intros H Es H1. unfold branch_complete, top_fail_inc. rewrite H, Es, H1. reflexivity. Qed.

Lemma bc_valid_bad s d p r rest :
  decode d = DValid p -> stack s = r :: rest -> set_mem p (uids s) = false -> set_mem p (bad s) = true ->
  branch_complete false d s =
  let s1 := set_stack s (r_set_fail r (u32 (r_fail r + 1)) :: rest) in
  if negb (set_mem p (split s)) then split_around false p s1 else handle_collision false s1.
Proof. intros H Es H1 H2. unfold branch_complete, top_fail_inc. rewrite H, Es, H1, H2. reflexivity. Qed.

(* SplitAroundBadUID in range: which children are pushed *)
Lemma sa_split s r rest p :
  stack s = r :: rest -> r_lo r < r_hi r -> r_hi r < TWO48 -> r_lo r <= p -> p <= r_hi r ->
  split_around false p s =
  send false (set_stack s ((if p <? r_hi r then [fresh (p + 1) (r_hi r) (Some (length rest))] else []) ++
                           (if r_lo r <? p then [fresh (r_lo r) (p - 1) (Some (length rest))] else []) ++
                           r_set_ud r 0 :: rest)).
Proof.
  intros Es Hlt Hhi H1 H2. unfold split_around. rewrite Es.
  assert (r_lo r =? r_hi r = false) as -> by (apply N.eqb_neq; lia).
  assert ((p <? r_lo r) || (r_hi r <? p) = false) as ->.
  { apply orb_false_iff. split; apply N.ltb_ge; lia. }
  destruct (p <? r_hi r) eqn:E1; destruct (r_lo r <? p) eqn:E2; cbn [app];
    rewrite ?N.ltb_lt, ?N.ltb_ge in *.
  all: repeat f_equal.
  all: try (assert (u64 (p + 1) = p + 1) as -> by (unfold u64; apply N.mod_small; unfold TWO48 in *; lia);
            rewrite uid_of_u64_id by lia; reflexivity).
  all: try (assert (u64 (p + TWO64 - 1) = p - 1) as ->
              by (unfold u64, TWO64, TWO48 in *;
                  replace (p + 18446744073709551616 - 1) with ((p - 1) + 1 * 18446744073709551616) by lia;
                  rewrite N.mod_add by lia; apply N.mod_small; lia);
            rewrite uid_of_u64_id by lia; reflexivity).
Qed.

Lemma sa_out s r rest p :
  stack s = r :: rest -> r_lo r < r_hi r -> (p < r_lo r \/ r_hi r < p) ->
  split_around false p s = handle_collision false s.
Proof.
  intros Es Hlt H. unfold split_around. rewrite Es.
  assert (r_lo r =? r_hi r = false) as -> by (apply N.eqb_neq; lia).
  assert ((p <? r_lo r) || (r_hi r <? p) = true) as ->; [|reflexivity].
  apply orb_true_iff. destruct H; [left | right]; apply N.ltb_lt; assumption.
Qed.

Lemma filter_length_lt {A} (f f' : A -> bool) (p : A) (l : list A) :
  (forall x, f' x = true -> f x = true) -> In p l -> f p = true -> f' p = false ->
  (length (filter f' l) < length (filter f l))%nat.
Proof.
  intros Himp. induction l as [|x l IH]; intros Hin Hp Hp'; [destruct Hin|].
  cbn [filter]. destruct Hin as [->|Hin].
  - rewrite Hp, Hp'. cbn [length].
    assert (length (filter f' l) <= length (filter f l))%nat; [|lia].
    clear - Himp. induction l as [|y l IH]; cbn [filter]; [lia|].
    destruct (f' y) eqn:E; [rewrite (Himp _ E); cbn [length]; lia | destruct (f y); cbn [length]; lia].
  - specialize (IH Hin Hp Hp'). destruct (f' x) eqn:E; [rewrite (Himp _ E); cbn [length]; lia|].
    destruct (f x); cbn [length]; lia.
Qed.

Section Wired.
Variable S : list N.
Variable coll : list N -> list N.
Hypothesis S_nodup : NoDup S.
Hypothesis S_lt : forall x, In x S -> x < TWO48.
Hypothesis S_small : N.of_nat (length S) < 4294967296.
Hypothesis coll_ok : forall A, (2 <= length A)%nat -> coll A <> [] /\ len (coll A) < 4294967296.

Notation e_step := (e_step S coll).
Notation e_run := (e_run S coll).
Notation answering := (answering S).
Notation timeout_step := (timeout_step S coll).
Notation estep_branch := (estep_branch S coll).

Definition unmuted (M : list N) : list N := filter (fun x => negb (set_mem x M)) S.
Definition U (M : list N) : N := N.of_nat (length (unmuted M)).

Lemma U_le M : U M < 4294967296.
Proof.
  unfold U, unmuted. pose proof (Bound2.filter_length_le (fun x => negb (set_mem x M)) S). lia.
Qed.

Lemma U_mute p M : In p S -> ~ In p M -> U (p :: M) < U M.
Proof.
  intros Hp Hn. unfold U, unmuted.
  assert (length (filter (fun x => negb (set_mem x (p :: M))) S) < length (filter (fun x => negb (set_mem x M)) S))%nat; [|lia].
  apply (filter_length_lt _ _ p); try assumption.
  - intros x. unfold set_mem; cbn [existsb]. rewrite !negb_true_iff, orb_false_iff. intros [_ H]. exact H.
  - apply negb_true_iff. destruct (set_mem p M) eqn:E; [apply set_mem_In in E; contradiction | reflexivity].
  - apply negb_false_iff. unfold set_mem; cbn [existsb]. rewrite N.eqb_refl. reflexivity.
Qed.

Definition rel' (s : st) (M : list N) : Prop :=
  (forall x, In x (bad s) -> ~ In x S) /\ on_complete s = true /\
  (forall x, In x (uids s) <-> In x M) /\ (forall x, In x M -> In x S).

Definition outcome' (s : st) (M : list N) (lo hi : N) (par : option nat) (rest : list range)
           (res : st * list N) : Prop :=
  exists sfin rfin M',
    res = (send false (free_current sfin), M') /\ stack sfin = rfin :: rest /\
    r_par rfin = par /\ r_cor rfin = false /\ rel' sfin M' /\
    (forall x, In x M -> In x M') /\
    (forall x, In x S -> lo <= x -> x <= hi -> In x M') /\
    tree_corrupt sfin = tree_corrupt s /\ completions sfin = completions s.

(* the statement proved by induction on the width *)
Definition proc (w : N) : Prop :=
  forall (u : nat) s M r rest,
    width r = w -> N.to_nat (U M) = u -> pending s = PBranch -> stack s = r :: rest ->
    r_lo r <= r_hi r -> r_hi r < TWO48 -> r_att r = 1 -> r_fail r = 0 -> r_cor r = false ->
    r_ud r + U M < 4294967296 -> rel' s M ->
    exists n, outcome' s M (r_lo r) (r_hi r) (r_par r) rest (e_run n s M).

(* the parent is current again and everything inside its range is muted *)
Lemma finish_parent sZ M rp rest :
  stack sZ = rp :: rest -> r_fail rp < 5 -> r_att rp <= 3 -> r_cor rp = false -> rel' sZ M ->
  (forall x, In x S -> r_lo rp <= x -> x <= r_hi rp -> In x M) ->
  outcome' sZ M (r_lo rp) (r_hi rp) (r_par rp) rest (e_run 1 (send false sZ) M).
Proof.
  intros Es Hf Ha Hc Hrel Hall.
  set (r4 := if r_ud rp =? 0 then r_set_att rp (u32 (r_att rp + 1)) else rp).
  assert (Hr4 : r_lo r4 = r_lo rp /\ r_hi r4 = r_hi rp /\ r_par r4 = r_par rp /\ r_cor r4 = false /\ r_att r4 < 5).
  { unfold r4. destruct (r_ud rp =? 0); cbn; repeat split; try assumption; try lia.
    unfold u32. rewrite N.mod_small by lia. lia. }
  destruct Hr4 as [L4 [H4 [P4 [C4 A4]]]].
  assert (Hsend : send false sZ = set_pending (set_stack sZ (r4 :: rest)) PBranch).
  { rewrite (send_top sZ rp rest Es); fold r4; try assumption. reflexivity. }
  set (s4 := set_pending _ PBranch) in Hsend.
  assert (Ha4 : answering M (r_lo r4) (r_hi r4) = []).
  { apply answering_nil. intros z Hz H1 H2. rewrite L4 in H1. rewrite H4 in H2. apply Hall; assumption. }
  cbn [E120.e_run]. rewrite Hsend. rewrite (timeout_step s4 M r4 rest eq_refl eq_refl Ha4).
  exists s4, r4, M. unfold s4; cbn. repeat split; try assumption; try reflexivity; try apply Hrel; auto.
Qed.

Definition is_child (k : nat) (c : range) : Prop :=
  r_att c = 0 /\ r_fail c = 0 /\ r_ud c = 0 /\ r_cor c = false /\ r_par c = Some k /\
  r_lo c <= r_hi c /\ r_hi c < TWO48.

(* a fresh child on top of the stack is processed and popped *)
Lemma run_child w (IH : forall w', w' < w -> proc w') sY M c below k :
  stack sY = c :: below -> is_child k c -> width c < w -> rel' sY M ->
  exists n sf rf M',
    e_run n (send false sY) M = (send false (free_current sf), M') /\
    stack sf = rf :: below /\ r_par rf = Some k /\ rel' sf M' /\
    (forall x, In x M -> In x M') /\
    (forall x, In x S -> r_lo c <= x -> x <= r_hi c -> In x M') /\
    tree_corrupt sf = tree_corrupt sY /\ completions sf = completions sY.
Proof.
  intros Es [Ca [Cf [Cu [Cc [Cp [Cl Ch]]]]]] Hw Hrel.
  set (c' := r_set_att c (u32 (r_att c + 1))).
  assert (Hsend : send false sY = set_pending (set_stack sY (c' :: below)) PBranch).
  { rewrite (send_top sY c below Es).
    - rewrite Cu. reflexivity.
    - rewrite Cf. lia.
    - rewrite Cu. cbn. rewrite Ca. cbn. lia.
    - exact Cc. }
  set (s1 := set_pending _ PBranch) in Hsend.
  assert (Hatt : r_att c' = 1) by (unfold c'; cbn; rewrite Ca; reflexivity).
  destruct (IH (width c') ltac:(exact Hw) (N.to_nat (U M)) s1 M c' below
              eq_refl eq_refl eq_refl eq_refl Cl Ch Hatt Cf Cc)
    as [n [sf [rf [M' [E [St [Par [Cor [Rel [Mono [Cov [Tc Cp']]]]]]]]]]]].
  - change (r_ud c') with (r_ud c). rewrite Cu. pose proof (U_le M). lia.
  - unfold rel', s1; cbn. exact Hrel.
  - exists n, sf, rf, M'. rewrite Hsend. split; [exact E|]. split; [exact St|].
    split; [rewrite Par; exact Cp|]. split; [exact Rel|]. split; [exact Mono|]. split; [exact Cov|].
    split; [exact Tc | exact Cp'].
Qed.

(* after a split: the children (one or two, top first) are processed, then the parent *)
Lemma split_phase w (IH : forall w', w' < w -> proc w') sY M cs r0 rest :
  stack sY = cs ++ r0 :: rest ->
  (exists c, cs = [c]) \/ (exists c2 c1, cs = [c2; c1]) ->
  (forall c, In c cs -> is_child (length rest) c /\ width c < w) ->
  r_fail r0 < 5 -> r_att r0 <= 2 -> r_cor r0 = false -> r_ud r0 = 0 -> rel' sY M ->
  (forall x, In x S -> r_lo r0 <= x -> x <= r_hi r0 -> ~ In x M ->
     exists c, In c cs /\ r_lo c <= x /\ x <= r_hi c) ->
  exists n, outcome' sY M (r_lo r0) (r_hi r0) (r_par r0) rest (e_run n (send false sY) M).
Proof.
  intros Es Hcs Hch Hf Ha Hc Hu Hrel Hcov.
  destruct Hcs as [[c ->]|[c2 [c1 ->]]]; cbn [app] in Es.
  - destruct (Hch c (or_introl eq_refl)) as [Hc1 Hw1].
    destruct (run_child w IH sY M c (r0 :: rest) (length rest) Es Hc1 Hw1 Hrel)
      as [n [sf [rf [M' [E [St [Par [Rel [Mono [Cov [Tc Cp]]]]]]]]]]].
    set (r0' := r_add_ud (r_ud rf) r0).
    assert (Hfc : free_current sf = set_stack sf (r0' :: rest)).
    { rewrite (free_current_cons sf rf r0 rest (length rest) St Par) by (cbn [length]; lia).
      rewrite upd_bot_here. reflexivity. }
    pose proof (finish_parent (set_stack sf (r0' :: rest)) M' r0' rest eq_refl) as Hfin.
    exists (n + 1)%nat. rewrite e_run_add, E, Hfc.
    destruct Hfin as [sfin [rfin [M'' [F1 [F2 [F3 [F4 [F5 [F6 [F7 [F8 F9]]]]]]]]]]];
      try (unfold r0'; cbn; assumption || lia).
    + intros x Hx H1 H2. change (r_lo r0') with (r_lo r0) in H1. change (r_hi r0') with (r_hi r0) in H2.
      destruct (in_dec N.eq_dec x M) as [Hi|Hn]; [apply Mono; exact Hi|].
      destruct (Hcov x Hx H1 H2 Hn) as [c' [[<-|[]] [G1 G2]]]. apply Cov; assumption.
    + exists sfin, rfin, M''. change (r_lo r0') with (r_lo r0) in F7. change (r_hi r0') with (r_hi r0) in F7.
      change (r_par r0') with (r_par r0) in F3. cbn in F8, F9.
      repeat split; try assumption; try (apply F5); try congruence.
      intros x Hx. apply F6. apply Mono. exact Hx.
  - destruct (Hch c2 (or_introl eq_refl)) as [Hc2 Hw2].
    destruct (Hch c1 (or_intror (or_introl eq_refl))) as [Hc1 Hw1].
    destruct (run_child w IH sY M c2 (c1 :: r0 :: rest) (length rest) Es Hc2 Hw2 Hrel)
      as [n2 [sf2 [rf2 [M2 [E2 [St2 [Par2 [Rel2 [Mono2 [Cov2 [Tc2 Cp2]]]]]]]]]]].
    set (r0' := r_add_ud (r_ud rf2) r0).
    assert (Hfc2 : free_current sf2 = set_stack sf2 (c1 :: r0' :: rest)).
    { rewrite (free_current_cons sf2 rf2 c1 (r0 :: rest) (length rest) St2 Par2) by (cbn [length]; lia).
      rewrite upd_bot_skip. reflexivity. }
    destruct (run_child w IH (set_stack sf2 (c1 :: r0' :: rest)) M2 c1 (r0' :: rest) (length rest)
                eq_refl Hc1 Hw1 Rel2)
      as [n3 [sf3 [rf3 [M3 [E3 [St3 [Par3 [Rel3 [Mono3 [Cov3 [Tc3 Cp3]]]]]]]]]]].
    set (r0'' := r_add_ud (r_ud rf3) r0').
    assert (Hfc3 : free_current sf3 = set_stack sf3 (r0'' :: rest)).
    { rewrite (free_current_cons sf3 rf3 r0' rest (length rest) St3 Par3) by (cbn [length]; lia).
      rewrite upd_bot_here. reflexivity. }
    pose proof (finish_parent (set_stack sf3 (r0'' :: rest)) M3 r0'' rest eq_refl) as Hfin.
    exists (n2 + (n3 + 1))%nat. rewrite e_run_add, E2, Hfc2. rewrite e_run_add, E3, Hfc3.
    destruct Hfin as [sfin [rfin [M'' [F1 [F2 [F3 [F4 [F5 [F6 [F7 [F8 F9]]]]]]]]]]];
      try (unfold r0'', r0'; cbn; assumption || lia).
    + intros x Hx H1 H2. change (r_lo r0'') with (r_lo r0) in H1. change (r_hi r0'') with (r_hi r0) in H2.
      destruct (in_dec N.eq_dec x M) as [Hi|Hn]; [apply Mono3; apply Mono2; exact Hi|].
      destruct (Hcov x Hx H1 H2 Hn) as [c' [[<-|[<-|[]]] [G1 G2]]].
      * apply Mono3. apply Cov2; assumption.
      * apply Cov3; assumption.
    + exists sfin, rfin, M''. change (r_lo r0'') with (r_lo r0) in F7. change (r_hi r0'') with (r_hi r0) in F7.
      change (r_par r0'') with (r_par r0) in F3. cbn in F8, F9, Tc3, Cp3.
      repeat split; try assumption; try (apply F5); try congruence.
      intros x Hx. apply F6. apply Mono3. apply Mono2. exact Hx.
Qed.

Lemma outcome_transfer s s' M lo hi par rest res :
  tree_corrupt s' = tree_corrupt s -> completions s' = completions s ->
  outcome' s' M lo hi par rest res -> outcome' s M lo hi par rest res.
Proof.
  intros H1 H2 [sf [rf [M' [F1 [F2 [F3 [F4 [F5 [F6 [F7 [F8 F9]]]]]]]]]]].
  exists sf, rf, M'. repeat split; try assumption; try apply F5; congruence.
Qed.

Lemma hc_phase w (IH : forall w', w' < w -> proc w') sx M r' rest :
  width r' = w -> stack sx = r' :: rest -> r_lo r' < r_hi r' -> r_hi r' < TWO48 ->
  r_fail r' < 5 -> r_att r' <= 2 -> r_cor r' = false -> rel' sx M ->
  exists n, outcome' sx M (r_lo r') (r_hi r') (r_par r') rest (e_run n (handle_collision false sx) M).
Proof.
  intros Hw Es Hlt Hhi Hf Ha Hc Hrel. rewrite (hc_split sx r' rest Es Hlt Hhi).
  set (mid := (r_lo r' + r_hi r') / 2).
  assert (Hmid : r_lo r' <= mid /\ mid < r_hi r') by (unfold mid; lia).
  set (c2 := fresh (mid + 1) (r_hi r') (Some (length rest))).
  set (c1 := fresh (r_lo r') mid (Some (length rest))).
  set (sY := set_stack sx (c2 :: c1 :: r_set_ud r' 0 :: rest)).
  destruct (split_phase w IH sY M [c2; c1] (r_set_ud r' 0) rest eq_refl) as [n Hn]; try assumption; try reflexivity.
  - right. exists c2, c1. reflexivity.
  - intros c [<-|[<-|[]]]; unfold is_child, c2, c1, fresh, width in *; cbn; repeat split; try lia; auto.
  - intros x Hx H1 H2 _. cbn in H1, H2. destruct (N.le_gt_cases x mid) as [Hle|Hgt].
    + exists c1. split; [right; left; reflexivity|]. cbn. lia.
    + exists c2. split; [left; reflexivity|]. cbn. lia.
  - exists n. exact Hn.
Qed.

Lemma sa_phase w (IH : forall w', w' < w -> proc w') sx M r' rest p :
  width r' = w -> stack sx = r' :: rest -> r_lo r' < r_hi r' -> r_hi r' < TWO48 ->
  r_fail r' < 5 -> r_att r' <= 2 -> r_cor r' = false -> rel' sx M ->
  (~ In p S \/ In p M) ->
  exists n, outcome' sx M (r_lo r') (r_hi r') (r_par r') rest (e_run n (split_around false p sx) M).
Proof.
  intros Hw Es Hlt Hhi Hf Ha Hc Hrel Hp.
  destruct (N.lt_ge_cases p (r_lo r')) as [H1|H1];
    [rewrite (sa_out sx r' rest p Es Hlt (or_introl H1)); apply (hc_phase w IH); assumption|].
  destruct (N.lt_ge_cases (r_hi r') p) as [H2|H2];
    [rewrite (sa_out sx r' rest p Es Hlt (or_intror H2)); apply (hc_phase w IH); assumption|].
  rewrite (sa_split sx r' rest p Es Hlt Hhi H1 H2).
  set (cs := (if p <? r_hi r' then [fresh (p + 1) (r_hi r') (Some (length rest))] else []) ++
             (if r_lo r' <? p then [fresh (r_lo r') (p - 1) (Some (length rest))] else [])).
  set (sY := set_stack sx (cs ++ r_set_ud r' 0 :: rest)).
  destruct (split_phase w IH sY M cs (r_set_ud r' 0) rest) as [n Hn]; try assumption; try reflexivity.
  - unfold cs. destruct (p <? r_hi r') eqn:E1; destruct (r_lo r' <? p) eqn:E2; cbn [app];
      rewrite ?N.ltb_lt, ?N.ltb_ge in *; try lia; eauto.
  - intros c Hc'. unfold cs in Hc'. apply in_app_or in Hc'. destruct Hc' as [Hc'|Hc'].
    + destruct (p <? r_hi r') eqn:E1; [|destruct Hc']. destruct Hc' as [<-|[]]. apply N.ltb_lt in E1.
      unfold is_child, fresh, width in *; cbn; repeat split; try lia; auto.
    + destruct (r_lo r' <? p) eqn:E1; [|destruct Hc']. destruct Hc' as [<-|[]]. apply N.ltb_lt in E1.
      unfold is_child, fresh, width in *; cbn; repeat split; try lia; auto.
  - intros x Hx G1 G2 Hn. cbn in G1, G2.
    assert (x <> p) by (intros ->; destruct Hp; contradiction).
    destruct (N.lt_ge_cases x p) as [Hl|Hg].
    + exists (fresh (r_lo r') (p - 1) (Some (length rest))). split; [|cbn; lia].
      unfold cs. apply in_or_app. right. assert (r_lo r' <? p = true) as -> by (apply N.ltb_lt; lia). left; reflexivity.
    + exists (fresh (p + 1) (r_hi r') (Some (length rest))). split; [|cbn; lia].
      unfold cs. apply in_or_app. left. assert (p <? r_hi r' = true) as -> by (apply N.ltb_lt; lia). left; reflexivity.
  - exists n. unfold sY, cs in Hn. rewrite <- app_assoc in Hn. exact Hn.
Qed.

(* a valid frame of a UID that is already known (muted) or already bad: failures++, then split *)
Lemma known_phase w (IH : forall w', w' < w -> proc w') s M r rest d p :
  width r = w -> stack s = r :: rest -> r_lo r < r_hi r -> r_hi r < TWO48 ->
  r_fail r = 0 -> r_att r <= 2 -> r_cor r = false -> rel' s M ->
  decode d = DValid p ->
  (set_mem p (uids s) = true \/ (set_mem p (uids s) = false /\ set_mem p (bad s) = true)) ->
  exists n, outcome' s M (r_lo r) (r_hi r) (r_par r) rest (e_run n (branch_complete false d s) M).
Proof.
  intros Hw Es Hlt Hhi Hf Ha Hc Hrel Hd Hk.
  set (r' := r_set_fail r (u32 (r_fail r + 1))).
  assert (Hr' : r_fail r' < 5) by (unfold r'; cbn; rewrite Hf; cbn; lia).
  assert (Hp : ~ In p S \/ In p M).
  { destruct Hrel as [Rb [_ [Ru _]]]. destruct Hk as [Hk|[_ Hk]]; apply set_mem_In in Hk.
    - right. apply Ru. exact Hk.
    - left. apply Rb. exact Hk. }
  set (s1 := set_stack s (r' :: rest)).
  assert (Hrel1 : rel' s1 M) by (unfold rel', s1; cbn; exact Hrel).
  assert (Hrel2 : rel' (set_split s1 (set_add p (split s))) M) by (unfold rel', s1; cbn; exact Hrel).
  assert (E : exists sx, (branch_complete false d s = split_around false p sx \/
                          branch_complete false d s = handle_collision false sx) /\
                         stack sx = r' :: rest /\ rel' sx M /\
                         tree_corrupt sx = tree_corrupt s /\ completions sx = completions s).
  { destruct Hk as [Hk|[Hk1 Hk2]].
    - rewrite (bc_valid_known s d p r rest Hd Es Hk). cbv zeta. fold r'. fold s1.
      destruct (negb (set_mem p (split s))).
      + exists (set_split s1 (set_add p (split s))). split; [left; reflexivity|]. split; [reflexivity|]. split; [exact Hrel2|]. split; reflexivity.
      + exists s1. split; [right; reflexivity|]. split; [reflexivity|]. split; [exact Hrel1|]. split; reflexivity.
    - rewrite (bc_valid_bad s d p r rest Hd Es Hk1 Hk2). cbv zeta. fold r'. fold s1.
      destruct (negb (set_mem p (split s))); exists s1; (split; [(left; reflexivity) || (right; reflexivity)|]); (split; [reflexivity|]); (split; [exact Hrel1|]); split; reflexivity. }
  destruct E as [sx [Eop [Esx [Relx [Tcx Cpx]]]]].
  assert (Hw' : width r' = w) by exact Hw.
  destruct Eop as [-> | ->].
  - destruct (sa_phase w IH sx M r' rest p Hw' Esx Hlt Hhi Hr' Ha Hc Relx Hp) as [n Hn].
    exists n. apply (outcome_transfer s sx); assumption.
  - destruct (hc_phase w IH sx M r' rest Hw' Esx Hlt Hhi Hr' Ha Hc Relx) as [n Hn].
    exists n. apply (outcome_transfer s sx); assumption.
Qed.

(* five refused mutes of a UID that is not connected *)
Lemma mute_nack s M :
  pending s = PMuteBr -> set_mem (muting s) S = false ->
  e_step s M = (branch_mute_complete false false s, M).
Proof. intros Hp Hm. unfold E120.e_step, call_of, step. rewrite Hp, Hm. reflexivity. Qed.

Lemma nack5 s M p :
  set_mem p S = false ->
  e_run 5 (set_pending (set_mute s p 0 (queue s)) PMuteBr) M =
  (send false (set_bad (set_mute (set_pending (set_mute s p 0 (queue s)) PMuteBr) p 5 (queue s))
                       (set_add p (bad s))), M).
Proof.
  intros Hm.
  assert (Hstep : forall a, a < 4 ->
            e_step (set_pending (set_mute s p a (queue s)) PMuteBr) M =
            (set_pending (set_mute s p (a + 1) (queue s)) PMuteBr, M)).
  { intros a Ha. rewrite mute_nack by (cbn; auto). unfold branch_mute_complete; cbn.
    assert (u32 (a + 1) = a + 1) as -> by (unfold u32; apply N.mod_small; lia).
    rewrite MAXM5. assert (a + 1 <? 5 = true) as -> by (apply N.ltb_lt; lia). reflexivity. }
  cbn [E120.e_run].
  rewrite (Hstep 0) by lia. rewrite (Hstep (0 + 1)) by lia. rewrite (Hstep (0 + 1 + 1)) by lia.
  rewrite (Hstep (0 + 1 + 1 + 1)) by lia.
  rewrite mute_nack by (cbn; auto). unfold branch_mute_complete; cbn. reflexivity.
Qed.

(* a valid frame of a connected, un-muted responder: it is muted and the same range is asked again *)
Lemma real_mute s M r rest d p :
  pending s = PBranch -> stack s = r :: rest -> decode d = DValid p -> In p S -> ~ In p M ->
  r_att r = 1 -> r_fail r = 0 -> r_cor r = false -> r_ud r + U M < 4294967296 -> rel' s M ->
  exists s2,
    (let '(s1, M1) := (branch_complete false d s, M) in e_run 1 s1 M1) = (s2, p :: M) /\
    pending s2 = PBranch /\ stack s2 = r_add_ud 1 r :: rest /\ rel' s2 (p :: M) /\
    tree_corrupt s2 = tree_corrupt s /\ completions s2 = completions s /\
    r_ud (r_add_ud 1 r) + U (p :: M) < 4294967296.
Proof.
  intros Hp Es Hd HpS HpM Hatt Hf Hc Hud [Rb [Roc [Ru Rs]]].
  assert (Hm1 : set_mem p (uids s) = false).
  { destruct (set_mem p (uids s)) eqn:E; [|reflexivity]. apply set_mem_In in E. apply Ru in E. contradiction. }
  assert (Hm2 : set_mem p (bad s) = false).
  { destruct (set_mem p (bad s)) eqn:E; [|reflexivity]. apply set_mem_In in E. apply Rb in E. contradiction. }
  rewrite (bc_valid_new s d p r rest Hd Es Hm1 Hm2).
  set (s1 := set_pending _ PMuteBr).
  assert (Hs1 : e_step s1 M = (branch_mute_complete false true s1, p :: M)).
  { unfold E120.e_step, call_of, step, s1; cbn [pending set_pending muting set_mute].
    assert (set_mem p S = true) as -> by (apply set_mem_In; exact HpS). reflexivity. }
  cbn [E120.e_run]. rewrite Hs1.
  set (r' := r_add_ud 1 r).
  set (s2pre := set_stack (set_uids (set_mute s1 (muting s1) (u32 (mute_att s1 + 1)) (queue s1))
                                    (set_add p (uids s))) (r' :: rest)).
  assert (Hbm : branch_mute_complete false true s1 = send false s2pre).
  { unfold branch_mute_complete, s1; cbn [stack set_mute set_pending uids muting]. rewrite Es. reflexivity. }
  rewrite Hbm.
  pose proof (U_mute p M HpS HpM) as HU.
  assert (Hud' : r_ud r' = r_ud r + 1).
  { unfold r', r_add_ud; cbn. unfold u32. apply N.mod_small. lia. }
  assert (Hst : send false s2pre = set_pending (set_stack s2pre (r' :: rest)) PBranch).
  { rewrite (send_top s2pre r' rest eq_refl).
    - assert (r_ud r' =? 0 = false) as -> by (apply N.eqb_neq; lia). reflexivity.
    - unfold r'; cbn. rewrite Hf. reflexivity.
    - assert (r_ud r' =? 0 = false) as -> by (apply N.eqb_neq; lia). unfold r'; cbn. rewrite Hatt. reflexivity.
    - unfold r'; cbn. exact Hc. }
  rewrite Hst. eexists. split; [reflexivity|]. split; [reflexivity|]. split; [reflexivity|].
  split; [|split; [reflexivity|split; [reflexivity|fold r'; rewrite Hud'; lia]]].
  unfold rel'; cbn. repeat split; try assumption.
  - intros Hi. apply set_add_In in Hi. destruct Hi as [->|Hi]; [left; reflexivity | right; apply Ru; exact Hi].
  - intros [->|Hi]; apply set_add_In; [left; reflexivity | right; apply Ru; exact Hi].
  - intros z [->|Hi]; [exact HpS | apply Rs; exact Hi].
Qed.

Lemma process_w : forall w, proc w.
Proof.
  induction w as [w IH] using (well_founded_induction N.lt_wf_0). unfold proc.
  induction u as [u IHu] using lt_wf_ind.
  intros s M r rest Hw Hu Hp Es Hlo Hhi Hatt Hfail Hcor Hud Hrel.
  pose proof Hrel as [Rb [Roc [Ru Rs]]].
  (* re-asking the same range after a connected responder p was muted *)
  assert (Hreal : forall d p, e_branch S coll M (r_lo r) (r_hi r) = d -> decode d = DValid p ->
                    In p S -> ~ In p M ->
                    exists n, outcome' s M (r_lo r) (r_hi r) (r_par r) rest (e_run n s M)).
  { intros d p Ed Hd HpS HpM.
    destruct (real_mute s M r rest d p Hp Es Hd HpS HpM Hatt Hfail Hcor Hud Hrel)
      as [s2 [E2 [P2 [St2 [Rel2 [Tc2 [Cp2 Ud2]]]]]]].
    destruct (IHu (N.to_nat (U (p :: M))) ltac:(pose proof (U_mute p M HpS HpM); lia)
                s2 (p :: M) (r_add_ud 1 r) rest Hw eq_refl P2 St2 Hlo Hhi Hatt Hfail Hcor Ud2 Rel2)
      as [n [sf [rf [M' [F1 [F2 [F3 [F4 [F5 [F6 [F7 [F8 F9]]]]]]]]]]]].
    exists (1 + (1 + n))%nat. cbn [plus E120.e_run].
    rewrite (estep_branch s M r rest Hp Es), Ed. cbn [E120.e_run] in E2. 
    destruct (e_step (branch_complete false d s) M) as [sa Ma] eqn:Ea. injection E2 as E2a E2b; subst sa Ma.
    exists sf, rf, M'. change (r_lo (r_add_ud 1 r)) with (r_lo r) in F7. change (r_hi (r_add_ud 1 r)) with (r_hi r) in F7.
    repeat split; try assumption; try apply F5; try congruence.
    intros z Hz. exact (F6 z (or_intror Hz)). }
  destruct (answering M (r_lo r) (r_hi r)) as [|x [|y A]] eqn:EA.
  - (* nobody answers *)
    exists 1%nat. cbn [E120.e_run]. rewrite (timeout_step s M r rest Hp Es EA).
    exists s, r, M. repeat split; try assumption; try reflexivity; try (apply Ru; assumption); auto.
    intros z Hz H1 H2. destruct (in_dec N.eq_dec z M) as [Hi|Hn]; [exact Hi|].
    assert (In z (answering M (r_lo r) (r_hi r))) as Hi by (apply answering_In; auto). rewrite EA in Hi. destruct Hi.
  - (* exactly one responder *)
    assert (Hx : In x (answering M (r_lo r) (r_hi r))) by (rewrite EA; left; reflexivity).
    apply answering_In in Hx. destruct Hx as [HxS [_ [_ HxM]]].
    apply (Hreal (dub_frame true 0 x) x); auto.
    + unfold e_branch. rewrite EA. reflexivity.
    + apply decode_frame. apply S_lt. exact HxS.
  - (* several responders: whatever the line carries *)
    assert (Hx : In x (answering M (r_lo r) (r_hi r))) by (rewrite EA; left; reflexivity).
    assert (Hy : In y (answering M (r_lo r) (r_hi r))) by (rewrite EA; right; left; reflexivity).
    assert (Hxy : x <> y).
    { pose proof (answering_NoDup S M (r_lo r) (r_hi r) S_nodup) as Hn. rewrite EA in Hn.
      inversion Hn as [|? ? Hn1 _]; subst. intros ->. apply Hn1. left. reflexivity. }
    apply answering_In in Hx. apply answering_In in Hy.
    assert (Hlt : r_lo r < r_hi r) by lia.
    assert (Ed : e_branch S coll M (r_lo r) (r_hi r) = coll (x :: y :: A)) by (unfold e_branch; rewrite EA; reflexivity).
    destruct (coll_ok (x :: y :: A) ltac:(cbn [length]; lia)) as [Hne Hlen].
    destruct (decode_cases _ Hne Hlen) as [Hd|[p [Hd Hp48]]].
    + (* it does not decode: collision *)
      destruct (hc_phase w IH s M r rest Hw Es Hlt Hhi ltac:(lia) ltac:(lia) Hcor Hrel) as [n Hn].
      exists (Datatypes.S n). cbn [E120.e_run]. rewrite (estep_branch s M r rest Hp Es), Ed, (bc_collision s _ Hd). exact Hn.
    + destruct (set_mem p (uids s)) eqn:Emu.
      * (* decodes as an already muted responder *)
        destruct (known_phase w IH s M r rest _ p Hw Es Hlt Hhi Hfail ltac:(lia) Hcor Hrel Hd (or_introl Emu)) as [n Hn].
        exists (Datatypes.S n). cbn [E120.e_run]. rewrite (estep_branch s M r rest Hp Es), Ed. exact Hn.
      * destruct (set_mem p (bad s)) eqn:Emb.
        -- destruct (known_phase w IH s M r rest _ p Hw Es Hlt Hhi Hfail ltac:(lia) Hcor Hrel Hd (or_intror (conj Emu Emb))) as [n Hn].
           exists (Datatypes.S n). cbn [E120.e_run]. rewrite (estep_branch s M r rest Hp Es), Ed. exact Hn.
        -- destruct (in_dec N.eq_dec p S) as [HpS|HpS].
           ++ (* decodes as a connected, un-muted responder *)
              apply (Hreal _ p Ed Hd HpS). intros Hi. apply Ru in Hi. apply set_mem_In in Hi. congruence.
           ++ (* a phantom: five refused mutes, marked bad, then the same frame again *)
              assert (Hms : set_mem p S = false).
              { destruct (set_mem p S) eqn:E; [apply set_mem_In in E; contradiction | reflexivity]. }
              set (s1 := set_pending (set_mute s p 0 (queue s)) PMuteBr).
              set (sBpre := set_bad (set_mute s1 p 5 (queue s)) (set_add p (bad s))).
              set (rB := if r_ud r =? 0 then r_set_att r (u32 (r_att r + 1)) else r).
              assert (HrB : r_lo rB = r_lo r /\ r_hi rB = r_hi r /\ r_par rB = r_par r /\ r_cor rB = false /\
                            r_fail rB = 0 /\ r_att rB <= 2 /\ width rB = w).
              { unfold rB. destruct (r_ud r =? 0); cbn; rewrite ?Hatt; repeat split; auto; cbn; lia. }
              destruct HrB as [LB [HB [PB [CB [FB [AB WB]]]]]].
              assert (Hsend : send false sBpre = set_pending (set_stack sBpre (rB :: rest)) PBranch).
              { rewrite (send_top sBpre r rest Es); fold rB; try assumption; try lia. reflexivity. }
              set (sB := set_pending _ PBranch) in Hsend.
              assert (RelB : rel' sB M).
              { unfold rel', sB, sBpre, s1; cbn. repeat split; try assumption; try apply Ru.
                intros z Hz. apply set_add_In in Hz. destruct Hz as [->|Hz]; [exact HpS | apply Rb; exact Hz]. }
              assert (EdB : e_branch S coll M (r_lo rB) (r_hi rB) = coll (x :: y :: A)) by (rewrite LB, HB; exact Ed).
              assert (EmuB : set_mem p (uids sB) = false) by exact Emu.
              assert (EmbB : set_mem p (bad sB) = true).
              { apply set_mem_In. unfold sB, sBpre; cbn. apply set_add_In. left. reflexivity. }
              destruct (known_phase w IH sB M rB rest _ p WB eq_refl ltac:(lia) ltac:(lia) FB AB CB RelB Hd
                          (or_intror (conj EmuB EmbB))) as [n Hn].
              exists (1 + (5 + (1 + n)))%nat.
              rewrite (e_run_add S coll 1 (5 + (1 + n))). cbn [E120.e_run].
              rewrite (estep_branch s M r rest Hp Es), Ed.
              rewrite (bc_valid_new s _ p r rest Hd Es Emu Emb).
              rewrite (e_run_add S coll 5 (1 + n)). rewrite (nack5 s M p Hms). fold s1. fold sBpre. rewrite Hsend.
              rewrite (e_run_add S coll 1 n). cbn [E120.e_run].
              rewrite (estep_branch sB M rB rest eq_refl eq_refl), EdB.
              rewrite LB, HB, PB in Hn. apply (outcome_transfer s sB); [reflexivity | reflexivity | exact Hn].
Qed.
End Wired.
