From Coq Require Extraction.
From Coq Require Import ExtrOcamlBasic.
From OlaBase Require Import Bytes.
From C11 Require Import Gen Model Session.
Extraction Language OCaml.
Extraction "model.ml" io_witness N.div_eucl idle0 init step call_of run_pop run_script decode dub_frame
  line_branch line_mute line_unmute sess0 s_start s_reply s_abort s_destroy s_late pop_answer.
