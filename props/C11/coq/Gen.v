(* REGENERATED from the repository headers on every run. Do not edit.  *)
From Coq Require Import NArith.
Local Open Scope N_scope.
Definition MAX_EMPTY_BRANCH_ATTEMPTS : N := 5.
Definition MAX_BRANCH_FAILURES : N := 5.
Definition MAX_MUTE_ATTEMPTS : N := 5.
Definition BROADCAST_UNMUTE_REPEATS : N := 3.
Definition PREAMBLE_SIZE : N := 8.
Definition EUID_SIZE : N := 12.
Definition CHECKSUM_SIZE : N := 4.
Definition PREAMBLE : N := 254.
Definition PREAMBLE_SEPARATOR : N := 170.
Definition UID_ALL_MANUFACTURERS : N := 65535.
Definition UID_ALL_DEVICES : N := 4294967295.
Definition UID_BROADCAST_U64 : N := 281474976710655.
Definition UID_SIZE : N := 6.
