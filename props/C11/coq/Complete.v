(* C11: with conforming responders, processing a range mutes and records exactly the un-muted
   responders inside it (big-step lemma by strong induction on the range width). *)
From OlaBase Require Import Bytes.
From C11 Require Import Gen Model Lemmas Send Push E120.
Local Open Scope N_scope.

Lemma bc_timeout s r rest :
  stack s = r :: rest -> branch_complete false [] s = send false (free_current s).
Proof. intros Es. unfold branch_complete. change (decode []) with DTimeout. cbv iota. rewrite Es. reflexivity. Qed.

Lemma bc_collision s d : decode d = DCollision -> branch_complete false d s = handle_collision false s.
Proof. intros H. unfold branch_complete. rewrite H. reflexivity. Qed.

Lemma bc_valid_new s d x r rest :
  decode d = DValid x -> stack s = r :: rest -> set_mem x (uids s) = false -> set_mem x (bad s) = false ->
  branch_complete false d s = set_pending (set_mute s x 0 (queue s)) PMuteBr.
Proof. intros H Es H1 H2. unfold branch_complete. rewrite H, Es, H1, H2. reflexivity. Qed.

Lemma hc_split s r rest :
  stack s = r :: rest -> r_lo r < r_hi r -> r_hi r < TWO48 ->
  let mid := (r_lo r + r_hi r) / 2 in
  handle_collision false s =
  send false (set_stack s (fresh (mid + 1) (r_hi r) (Some (length rest)) ::
                           fresh (r_lo r) mid (Some (length rest)) :: r_set_ud r 0 :: rest)).
Proof.
  intros Es Hlt Hhi mid. unfold handle_collision. rewrite Es.
  assert (r_lo r =? r_hi r = false) as -> by (apply N.eqb_neq; lia).
  assert (Hsum : u64 (r_lo r + r_hi r) = r_lo r + r_hi r).
  { unfold u64. apply N.mod_small. unfold TWO48 in *. lia. }
  rewrite Hsum. fold mid.
  assert (Hmid : r_lo r <= mid /\ mid < r_hi r) by (unfold mid; lia).
  assert (Hm1 : u64 (mid + 1) = mid + 1) by (unfold u64; apply N.mod_small; unfold TWO48 in *; lia).
  rewrite Hm1. rewrite !uid_of_u64_id by lia. reflexivity.
Qed.

Section Complete.
Variable S : list N.
Variable coll : list N -> list N.
Hypothesis S_nodup : NoDup S.
Hypothesis S_lt : forall x, In x S -> x < TWO48.
Hypothesis coll_bad : forall A, (2 <= length A)%nat -> decode (coll A) = DCollision.

Notation e_step := (e_step S coll).
Notation e_run := (e_run S coll).
Notation answering := (answering S).

(* the agent's view agrees with the line *)
Definition rel (s : st) (M : list N) : Prop :=
  bad s = [] /\ on_complete s = true /\ (forall x, In x (uids s) <-> In x M) /\ (forall x, In x M -> In x S).

Lemma estep_branch s M r rest :
  pending s = PBranch -> stack s = r :: rest ->
  e_step s M = (branch_complete false (e_branch S coll M (r_lo r) (r_hi r)) s, M).
Proof. intros Hp Es. unfold E120.e_step, call_of, step. rewrite Hp, Es. reflexivity. Qed.

Lemma timeout_step s M r rest :
  pending s = PBranch -> stack s = r :: rest -> answering M (r_lo r) (r_hi r) = [] ->
  e_step s M = (send false (free_current s), M).
Proof.
  intros Hp Es Ha. rewrite (estep_branch s M r rest Hp Es). unfold e_branch. rewrite Ha.
  rewrite (bc_timeout s r rest Es). reflexivity.
Qed.

Definition outcome (s : st) (M : list N) (r : range) (rest : list range) (res : st * list N) : Prop :=
  exists sfin rfin M',
    res = (send false (free_current sfin), M') /\ stack sfin = rfin :: rest /\
    r_par rfin = r_par r /\ r_cor rfin = false /\ rel sfin M' /\
    (forall x, In x M' <-> In x M \/ In x (answering M (r_lo r) (r_hi r))) /\
    tree_corrupt sfin = tree_corrupt s /\ completions sfin = completions s.

Lemma process : forall w s M r rest,
  width r = w -> pending s = PBranch -> stack s = r :: rest ->
  r_lo r <= r_hi r -> r_hi r < TWO48 -> r_att r = 1 -> r_fail r = 0 -> r_ud r = 0 -> r_cor r = false ->
  rel s M -> exists n, outcome s M r rest (e_run n s M).
Proof.
  induction w as [w IH] using (well_founded_induction N.lt_wf_0).
  intros s M r rest Hw Hp Es Hlo Hhi Hatt Hfail Hud Hcor [Rb [Roc [Ru Rs]]].
  destruct (answering M (r_lo r) (r_hi r)) as [|x [|y A]] eqn:EA.
  - (* nobody answers *)
    exists 1%nat. cbn [E120.e_run]. rewrite (timeout_step s M r rest Hp Es EA).
    exists s, r, M. repeat split; try assumption; try reflexivity; try (apply Ru; assumption).
    + intros H; left; exact H.
    + intros [H|H]; [exact H | rewrite EA in H; destruct H].
  - (* exactly one responder x answers *)
    assert (Hx : In x (answering M (r_lo r) (r_hi r))) by (rewrite EA; left; reflexivity).
    apply answering_In in Hx. destruct Hx as [HxS [Hx1 [Hx2 HxM]]].
    exists 3%nat. cbn [E120.e_run].
    rewrite (estep_branch s M r rest Hp Es). unfold e_branch. rewrite EA.
    assert (Hm1 : set_mem x (uids s) = false).
    { destruct (set_mem x (uids s)) eqn:E; [|reflexivity]. apply set_mem_In in E. apply Ru in E. contradiction. }
    rewrite (bc_valid_new s _ x r rest (decode_frame x (S_lt x HxS)) Es Hm1) by (rewrite Rb; reflexivity).
    set (s1 := set_pending _ PMuteBr).
    assert (Hs1 : e_step s1 M = (branch_mute_complete false true s1, x :: M)).
    { unfold E120.e_step, call_of, step, s1; cbn [pending set_pending muting set_mute].
      assert (set_mem x S = true) as -> by (apply set_mem_In; exact HxS). reflexivity. }
    rewrite Hs1.
    set (r' := r_add_ud 1 r).
    set (s2pre := set_stack (set_uids (set_mute s1 (muting s1) (u32 (mute_att s1 + 1)) (queue s1))
                                      (set_add x (uids s))) (r' :: rest)).
    assert (Hbm : branch_mute_complete false true s1 = send false s2pre).
    { unfold branch_mute_complete, s1; cbn [stack set_mute set_pending uids muting]. rewrite Es. reflexivity. }
    rewrite Hbm.
    assert (Hud' : r_ud r' = 1) by (unfold r', r_add_ud; cbn; rewrite Hud; reflexivity).
    assert (Hst : send false s2pre = set_pending (set_stack s2pre (r' :: rest)) PBranch).
    { rewrite (send_top s2pre r' rest eq_refl); rewrite ?Hud'; cbn [N.eqb];
        try (unfold r', r_add_ud; cbn; lia); try reflexivity.
      unfold r'; cbn. exact Hcor. }
    rewrite Hst. set (s2 := set_pending _ PBranch).
    assert (Ha2 : answering (x :: M) (r_lo r') (r_hi r') = []).
    { apply answering_nil. intros z Hz H1 H2. change (r_lo r') with (r_lo r) in H1. change (r_hi r') with (r_hi r) in H2.
      destruct (in_dec N.eq_dec z M) as [Hi|Hn]; [right; exact Hi|]. left.
      assert (In z (answering M (r_lo r) (r_hi r))) as Hi by (apply answering_In; auto).
      rewrite EA in Hi. destruct Hi as [->|[]]. reflexivity. }
    rewrite (timeout_step s2 (x :: M) r' rest eq_refl eq_refl Ha2).
    exists s2, r', (x :: M). repeat split; try reflexivity; try assumption.
    + cbn. intros Hi. apply set_add_In in Hi. destruct Hi as [->|Hi]; [left; reflexivity | right; apply Ru; exact Hi].
    + cbn. intros [->|Hi]; apply set_add_In; [left; reflexivity | right; apply Ru; exact Hi].
    + intros z [->|Hi]; [exact HxS | apply Rs; exact Hi].
    + intros [->|Hi]; [right; rewrite EA; left; reflexivity | left; exact Hi].
    + intros [Hi|Hi]; [right; exact Hi | rewrite EA in Hi; destruct Hi as [->|[]]; left; reflexivity].
  - (* several answer: collision, split, recurse *)
    assert (Hx : In x (answering M (r_lo r) (r_hi r))) by (rewrite EA; left; reflexivity).
    assert (Hy : In y (answering M (r_lo r) (r_hi r))) by (rewrite EA; right; left; reflexivity).
    assert (Hxy : x <> y).
    { pose proof (answering_NoDup S M (r_lo r) (r_hi r) S_nodup) as Hn. rewrite EA in Hn.
      inversion Hn as [|? ? Hn1 _]; subst. intros ->. apply Hn1. left. reflexivity. }
    apply answering_In in Hx. apply answering_In in Hy.
    assert (Hlt : r_lo r < r_hi r) by lia.
    set (mid := (r_lo r + r_hi r) / 2).
    assert (Hmid : r_lo r <= mid /\ mid < r_hi r) by (unfold mid; lia).
    set (k := Some (length rest)).
    set (c2 := fresh (mid + 1) (r_hi r) k). set (c1 := fresh (r_lo r) mid k). set (r0 := r_set_ud r 0).
    (* first step: the collision *)
    assert (Hst1 : e_step s M = (send false (set_stack s (c2 :: c1 :: r0 :: rest)), M)).
    { rewrite (estep_branch s M r rest Hp Es). unfold e_branch. rewrite EA.
      rewrite bc_collision by (apply coll_bad; cbn [length]; lia).
      rewrite (hc_split s r rest Es Hlt Hhi). reflexivity. }
    set (c2' := r_set_att c2 (u32 (r_att c2 + 1))).
    assert (Hsend1 : send false (set_stack s (c2 :: c1 :: r0 :: rest)) =
                     set_pending (set_stack (set_stack s (c2 :: c1 :: r0 :: rest)) (c2' :: c1 :: r0 :: rest)) PBranch).
    { rewrite (send_top (set_stack s (c2 :: c1 :: r0 :: rest)) c2 (c1 :: r0 :: rest) eq_refl); cbn; try reflexivity; lia. }
    set (s1 := set_pending _ PBranch) in Hsend1.
    (* upper child *)
    assert (Hw2 : width c2' < w) by (rewrite <- Hw; unfold c2', c2, width; cbn [r_lo r_hi r_set_att fresh]; lia).
    destruct (IH (width c2') Hw2 s1 M c2' (c1 :: r0 :: rest)
                eq_refl eq_refl eq_refl ltac:(cbn; lia) ltac:(cbn; lia) eq_refl eq_refl eq_refl eq_refl)
      as [n2 [sf2 [rf2 [M2 [E2 [St2 [Par2 [Cor2 [[Rb2 [Roc2 [Ru2 Rs2]]] [HM2 [Tc2 Cp2]]]]]]]]]]].
    { unfold rel, s1; cbn. auto. }
    change (r_lo c2') with (mid + 1) in HM2. change (r_hi c2') with (r_hi r) in HM2.
    change (r_par c2') with k in Par2.
    (* the upper child is popped, the lower child becomes current *)
    set (r0' := r_add_ud (r_ud rf2) r0).
    assert (Hfc2 : free_current sf2 = set_stack sf2 (c1 :: r0' :: rest)).
    { rewrite (free_current_cons sf2 rf2 c1 (r0 :: rest) (length rest) St2 Par2) by (cbn [length]; lia).
      rewrite upd_bot_skip. reflexivity. }
    set (c1' := r_set_att c1 (u32 (r_att c1 + 1))).
    assert (Hsend2 : send false (free_current sf2) =
                     set_pending (set_stack (set_stack sf2 (c1 :: r0' :: rest)) (c1' :: r0' :: rest)) PBranch).
    { rewrite Hfc2. rewrite (send_top (set_stack sf2 (c1 :: r0' :: rest)) c1 (r0' :: rest) eq_refl); cbn; try reflexivity; lia. }
    set (s3 := set_pending _ PBranch) in Hsend2.
    assert (Hw1 : width c1' < w) by (rewrite <- Hw; unfold c1', c1, width; cbn [r_lo r_hi r_set_att fresh]; lia).
    destruct (IH (width c1') Hw1 s3 M2 c1' (r0' :: rest)
                eq_refl eq_refl eq_refl ltac:(cbn; lia) ltac:(cbn; lia) eq_refl eq_refl eq_refl eq_refl)
      as [n3 [sf3 [rf3 [M3 [E3 [St3 [Par3 [Cor3 [[Rb3 [Roc3 [Ru3 Rs3]]] [HM3 [Tc3 Cp3]]]]]]]]]]].
    { unfold rel, s3; cbn. auto. }
    change (r_lo c1') with (r_lo r) in HM3. change (r_hi c1') with mid in HM3.
    change (r_par c1') with k in Par3.
    (* the lower child is popped, the parent is current again *)
    set (r0'' := r_add_ud (r_ud rf3) r0').
    assert (Hfc3 : free_current sf3 = set_stack sf3 (r0'' :: rest)).
    { rewrite (free_current_cons sf3 rf3 r0' rest (length rest) St3 Par3) by (cbn [length]; lia).
      rewrite upd_bot_here. reflexivity. }
    set (r4 := if r_ud r0'' =? 0 then r_set_att r0'' (u32 (r_att r0'' + 1)) else r0'').
    assert (Hatt0 : r_att r0'' = 1) by (unfold r0'', r0', r0; cbn; exact Hatt).
    assert (Hsend3 : send false (free_current sf3) =
                     set_pending (set_stack (set_stack sf3 (r0'' :: rest)) (r4 :: rest)) PBranch).
    { rewrite Hfc3. rewrite (send_top (set_stack sf3 (r0'' :: rest)) r0'' rest eq_refl); fold r4.
      - reflexivity.
      - unfold r0'', r0', r0; cbn. lia.
      - unfold r4. destruct (r_ud r0'' =? 0); cbn [r_att r_set_att]; rewrite Hatt0; [cbn|]; lia.
      - unfold r0'', r0', r0; cbn. exact Hcor. }
    set (s4 := set_pending _ PBranch) in Hsend3.
    assert (Hr4 : r_lo r4 = r_lo r /\ r_hi r4 = r_hi r /\ r_par r4 = r_par r /\ r_cor r4 = false).
    { unfold r4. destruct (r_ud r0'' =? 0); unfold r0'', r0', r0; cbn; auto. }
    destruct Hr4 as [L4 [H4 [P4 C4]]].
    (* everything inside the range is muted now *)
    assert (HM3' : forall z, In z M3 <-> In z M \/ In z (answering M (r_lo r) (r_hi r))).
    { intros z. rewrite HM3, HM2. rewrite !answering_In. rewrite HM2. rewrite answering_In.
      split.
      - intros [[H|H]|H]; [left; exact H | right | right].
        + destruct H as [H1 [H2 [H3 H5]]]. repeat split; try assumption; lia.
        + destruct H as [H1 [H2 [H3 H5]]]. repeat split; try assumption; try lia.
          intros Hi. apply H5. left. exact Hi.
      - intros [H|[H1 [H2 [H3 H5]]]]; [left; left; exact H|].
        destruct (N.le_gt_cases z mid) as [Hle|Hgt].
        + right. repeat split; try assumption. intros [Hi|[_ [Hi _]]]; [contradiction | lia].
        + left. right. repeat split; try assumption; lia. }
    assert (Ha4 : answering M3 (r_lo r4) (r_hi r4) = []).
    { apply answering_nil. intros z Hz H1 H2. rewrite L4 in H1. rewrite H4 in H2.
      apply HM3'. destruct (in_dec N.eq_dec z M) as [Hi|Hn]; [left; exact Hi|].
      right. apply answering_In. auto. }
    exists (1 + (n2 + (n3 + 1)))%nat.
    change (1 + (n2 + (n3 + 1)))%nat with (Datatypes.S (n2 + (n3 + 1))). cbn [E120.e_run].
    rewrite Hst1, Hsend1. rewrite e_run_add, E2, Hsend2. rewrite e_run_add, E3, Hsend3.
    cbn [E120.e_run]. rewrite (timeout_step s4 M3 r4 rest eq_refl eq_refl Ha4).
    exists s4, r4, M3. unfold rel, s4; cbn.
    repeat split; try assumption; try (apply Ru3; assumption); try (apply HM3'; assumption); try congruence.
    + unfold s3 in Tc3; cbn in Tc3. unfold s1 in Tc2; cbn in Tc2. congruence.
    + unfold s3 in Cp3; cbn in Cp3. unfold s1 in Cp2; cbn in Cp2. congruence.
Qed.
End Complete.
