(* C11: UID sets, the pigeonhole bound and the potential function of the termination proof. *)
From OlaBase Require Import Bytes.
From C11 Require Import Gen Model.
Local Open Scope N_scope.

(* ---------- sets ---------- *)
Definition set_ok (l : list N) : Prop := NoDup l /\ forall x, In x l -> x < TWO48.

Lemma set_mem_In x l : set_mem x l = true <-> In x l.
Proof.
  unfold set_mem. rewrite existsb_exists. split.
  - intros [y [H1 H2]]. apply N.eqb_eq in H2. subst. exact H1.
  - intros H. exists x. split; [exact H | apply N.eqb_refl].
Qed.

Lemma set_add_In x y l : In y (set_add x l) <-> y = x \/ In y l.
Proof.
  induction l as [|z t IH]; cbn [set_add In].
  - intuition.
  - destruct (x <? z) eqn:E1; [cbn [In]; intuition|].
    destruct (x =? z) eqn:E2.
    + apply N.eqb_eq in E2. subst. cbn [In]. intuition.
    + cbn [In]. rewrite IH. intuition.
Qed.

Lemma set_add_NoDup x l : ~ In x l -> NoDup l -> NoDup (set_add x l).
Proof.
  induction l as [|z t IH]; cbn [set_add]; intros Hn H.
  - constructor; [intros []|constructor].
  - destruct (x <? z) eqn:E1.
    + constructor; assumption.
    + destruct (x =? z) eqn:E2; [exact H|].
      inversion H as [|? ? Hz Ht]; subst.
      constructor.
      * rewrite set_add_In. intros [->|Hi]; [apply Hn; left; reflexivity | exact (Hz Hi)].
      * apply IH; [intros Hi; apply Hn; right; exact Hi | exact Ht].
Qed.

Lemma set_add_length x l : ~ In x l -> length (set_add x l) = S (length l).
Proof.
  induction l as [|z t IH]; cbn [set_add length]; intros Hn; [reflexivity|].
  destruct (x <? z) eqn:E1; [reflexivity|].
  destruct (x =? z) eqn:E2.
  - apply N.eqb_eq in E2. subst. exfalso. apply Hn. left. reflexivity.
  - cbn [length]. rewrite IH; [reflexivity|]. intros Hi. apply Hn. right. exact Hi.
Qed.

Lemma set_add_ok x l : ~ In x l -> x < TWO48 -> set_ok l -> set_ok (set_add x l).
Proof.
  intros Hn Hx [H1 H2]. split.
  - apply set_add_NoDup; assumption.
  - intros y Hy. apply set_add_In in Hy. destruct Hy as [->|Hy]; [exact Hx | exact (H2 _ Hy)].
Qed.

Lemma set_remove_ok x l : set_ok l -> set_ok (set_remove x l).
Proof.
  intros [H1 H2]. unfold set_remove. split.
  - apply NoDup_filter. exact H1.
  - intros y Hy. apply filter_In in Hy. exact (H2 _ (proj1 Hy)).
Qed.

Lemma set_ok_nil : set_ok [].
Proof. split; [constructor | intros x []]. Qed.

(* pigeonhole: a duplicate-free list of numbers below m has at most m elements *)
Lemma nodup_bound (m : nat) (l : list N) :
  NoDup l -> (forall x, In x l -> (N.to_nat x < m)%nat) -> (length l <= m)%nat.
Proof.
  intros Hn Hb.
  assert (incl l (map N.of_nat (seq 0 m))) as Hi.
  { intros x Hx. apply in_map_iff. exists (N.to_nat x). split; [apply N2Nat.id|].
    apply in_seq. specialize (Hb _ Hx). lia. }
  pose proof (NoDup_incl_length Hn Hi) as H. rewrite map_length, seq_length in H. exact H.
Qed.

Definition card (l : list N) : N := N.of_nat (length l).

Lemma set_ok_card l : set_ok l -> card l <= TWO48.
Proof.
  intros [H1 H2]. unfold card.
  assert (length l <= N.to_nat TWO48)%nat as H.
  { apply nodup_bound; [exact H1|]. intros x Hx. specialize (H2 _ Hx). lia. }
  lia.
Qed.

Lemma card_add x l : ~ In x l -> card (set_add x l) = card l + 1.
Proof. intros H. unfold card. rewrite set_add_length by exact H. lia. Qed.

(* ---------- potential ---------- *)
Definition width (r : range) : N := r_hi r - r_lo r.
Definition unit_of (r : range) : N := 19 ^ width r.
Definition val (zz : bool) (r : range) : N :=
  unit_of r * ((5 - r_att r - (if zz then 0 else 1)) + (5 - r_fail r)).

Fixpoint phi_b (l : list range) (z : bool) : N :=
  match l with
  | [] => 0
  | r :: t => let zz := z || (0 <? r_ud r) in val zz r + phi_b t zz
  end.

Definition phi_wait (l : list range) : N :=
  match l with
  | [] => 0
  | r :: t => val true r + phi_b t (0 <? r_ud r)
  end.

Lemma val_mono r : val false r <= val true r.
Proof. unfold val. apply N.mul_le_mono_l. lia. Qed.

Lemma phi_b_mono l : forall z, phi_b l false <= phi_b l z.
Proof.
  induction l as [|r t IH]; intros z; cbn [phi_b]; [lia|].
  destruct z; cbn [orb]; [|lia].
  destruct (0 <? r_ud r); [lia|].
  pose proof (val_mono r). pose proof (IH true). lia.
Qed.

Lemma phi_b_mono2 l z1 z2 : (z1 = true -> z2 = true) -> phi_b l z1 <= phi_b l z2.
Proof.
  intros H. destruct z1.
  - rewrite (H eq_refl). lia.
  - apply phi_b_mono.
Qed.

Lemma unit_pos r : 1 <= unit_of r.
Proof. unfold unit_of. pose proof (N.pow_nonzero 19 (width r)). lia. Qed.

Lemma upd_bot_length k f l : length (upd_bot k f l) = length l.
Proof.
  induction l as [|r t IH]; cbn [upd_bot]; [reflexivity|].
  destruct (Nat.eqb k (length t)); cbn [length]; [reflexivity | rewrite IH; reflexivity].
Qed.

(* marking the parent corrupt does not change the potential *)
Lemma phi_b_set_cor k l : forall z, phi_b (upd_bot k r_set_cor l) z = phi_b l z.
Proof.
  induction l as [|r t IH]; intros z; cbn [upd_bot]; [reflexivity|].
  destruct (Nat.eqb k (length t)); cbn [phi_b]; [reflexivity | rewrite IH; reflexivity].
Qed.

(* crediting the discovered count to the parent: covered by the "something above is non-zero" flag *)
Lemma phi_b_add_ud k x l : forall z, phi_b (upd_bot k (r_add_ud x) l) z <= phi_b l (z || (0 <? x)).
Proof.
  induction l as [|r t IH]; intros z; cbn [upd_bot]; [cbn [phi_b]; lia|].
  destruct (Nat.eqb k (length t)).
  - cbn [phi_b].
    assert (Hz : (z || (0 <? r_ud (r_add_ud x r))) = true -> ((z || (0 <? x)) || (0 <? r_ud r)) = true).
    { unfold r_add_ud, r_set_ud; cbn [r_ud]. unfold u32. intros H.
      destruct z; cbn [orb] in *; [reflexivity|].
      destruct (0 <? x) eqn:E1; cbn [orb]; [reflexivity|].
      destruct (0 <? r_ud r) eqn:E2; [reflexivity|].
      apply N.ltb_ge in E1. apply N.ltb_ge in E2. apply N.ltb_lt in H.
      assert (r_ud r + x = 0) as H0 by lia. rewrite H0 in H. cbn in H. lia. }
    set (za := z || (0 <? r_ud (r_add_ud x r))) in *.
    set (zb := (z || (0 <? x)) || (0 <? r_ud r)) in *.
    assert (val za (r_add_ud x r) <= val zb r) as Hv.
    { unfold val, unit_of, width, r_add_ud, r_set_ud; cbn [r_lo r_hi r_att r_fail].
      apply N.mul_le_mono_l. destruct za; [rewrite (Hz eq_refl); lia | destruct zb; lia]. }
    pose proof (phi_b_mono2 t za zb Hz). lia.
  - cbn [phi_b]. specialize (IH (z || (0 <? r_ud r))).
    assert ((z || (0 <? r_ud r)) || (0 <? x) = (z || (0 <? x)) || (0 <? r_ud r)) as He.
    { destruct z, (0 <? r_ud r), (0 <? x); reflexivity. }
    rewrite He in IH.
    assert (val (z || (0 <? r_ud r)) r <= val ((z || (0 <? x)) || (0 <? r_ud r)) r) as Hv.
    { unfold val. apply N.mul_le_mono_l. destruct z, (0 <? r_ud r), (0 <? x); cbn [orb]; lia. }
    lia.
Qed.
