// Abort() while a request is in flight, then the target delivers its (late) reply.
#include <stdio.h>
#include <string.h>
#include "ola/Callback.h"
#include "ola/Logging.h"
#include "ola/rdm/DiscoveryAgent.h"
using namespace ola::rdm;
struct T : public DiscoveryTargetInterface {
  MuteDeviceCallback *m; UnMuteDeviceCallback *u; BranchCallback *b; int k; int sent;
  T() : m(0), u(0), b(0), k(0), sent(0) {}
  void MuteDevice(const UID&, MuteDeviceCallback *c) { k = 1; m = c; sent++; }
  void UnMuteAll(UnMuteDeviceCallback *c) { k = 2; u = c; sent++; }
  void Branch(const UID&, const UID&, BranchCallback *c) { k = 3; b = c; sent++; }
};
struct C { int calls; void Done(bool ok, const UIDSet&) { calls++; printf("callback #%d ok=%d\n", calls, ok); fflush(stdout); } };
int main(int argc, char **argv) {
  ola::InitLogging(ola::OLA_LOG_WARN, ola::OLA_LOG_STDERR);
  int mode = argc > 1 ? atoi(argv[1]) : 0;
  T t; DiscoveryAgent a(&t); C c; c.calls = 0;
  a.StartFullDiscovery(ola::NewSingleCallback(&c, &C::Done));
  t.u->Run(); t.u->Run(); t.u->Run();        // three un-mutes -> first DUB in flight
  if (mode == 1) {                            // answer it with a valid frame -> MUTE in flight
    uint8_t f[24] = {0xfe,0xfe,0xfe,0xfe,0xfe,0xfe,0xfe,0xaa, 0xaa,0x55,0xaa,0x55,0xaa,0x55,0xaa,0x55,0xaa,0x55,0xab,0x55, 0xae,0x57,0xfb,0x55};
    t.b->Run(f, 24);
    printf("k=%d (1 = mute in flight)\n", t.k); fflush(stdout);
  }
  a.Abort();
  int before = t.sent;
  if (mode == 0) { uint8_t junk[24]; memset(junk, 0xff, 24); t.b->Run(junk, 24); }   // late collision
  else { t.m->Run(true); }                                                            // late mute ACK
  printf("survived; requests sent after Abort: %d\n", t.sent - before);
  return 0;
}
