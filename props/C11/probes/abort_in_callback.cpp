#include <stdio.h>
#include "ola/Callback.h"
#include "ola/Logging.h"
#include "ola/rdm/DiscoveryAgent.h"
using namespace ola::rdm;
struct T : public DiscoveryTargetInterface {
  MuteDeviceCallback *m; UnMuteDeviceCallback *u; BranchCallback *b; int k;
  T() : m(0), u(0), b(0), k(0) {}
  void MuteDevice(const UID&, MuteDeviceCallback *c) { k = 1; m = c; }
  void UnMuteAll(UnMuteDeviceCallback *c) { k = 2; u = c; }
  void Branch(const UID&, const UID&, BranchCallback *c) { k = 3; b = c; }
  bool Step() { int x = k; k = 0; if (x == 1) m->Run(false); else if (x == 2) u->Run(); else if (x == 3) b->Run(NULL, 0); return x != 0; }
};
struct C { DiscoveryAgent *a; int calls; void Done(bool ok, const UIDSet&) { calls++; printf("callback #%d ok=%d\n", calls, ok); if (calls == 1) a->Abort(); } };
int main() {
  ola::InitLogging(ola::OLA_LOG_WARN, ola::OLA_LOG_STDERR);
  T t; DiscoveryAgent a(&t); C c; c.a = &a; c.calls = 0;
  a.StartFullDiscovery(ola::NewSingleCallback(&c, &C::Done));
  while (t.Step()) {}
  printf("calls=%d\n", c.calls);
  return 0;
}
