(* C06 model driver, shared part (assembled into driver.ml by prop.py: d_00_common.ml, d_<proto>.ml ...,
   d_zz_main.ml).  Only parsing/printing; all logic is in the extracted Model. *)
let ops : (string, string list -> string) Hashtbl.t = Hashtbl.create 16
let register (name : string) (f : string list -> string) = Hashtbl.replace ops name f

let rec take_l k l = if k <= 0 then [] else match l with [] -> [] | x :: r -> x :: take_l (k - 1) r
(* the receive buffer recvfrom leaves behind: datagram (truncated to the capacity) followed by stale
   bytes; returns (buffer, received length) *)
let mkbuf (cap : int) (d : n list) : n list * n =
  let l = List.length d in
  if l >= cap then (take_l cap d, n_of_int cap)
  else (d @ List.init (cap - l) (fun _ -> n_of_int 0xA5), n_of_int l)
let hazard_s (h : hazard) = match h with Oob -> "oob" | OutOfFuel -> "fuel" | Div0 -> "div0"
let dbuf_s (b : n list option) = match b with None -> "none" | Some l -> hex_of_bytes l
let dbuf_of_s (s : string) : n list option = if s = "none" then None else Some (bytes_of_hex s)

(* a trace: steps are appended as ;s<k>=<obs>; the first hazard ends it *)
type trace = { mutable hz : string; mutable steps : string list; mutable cls : string list;
               mutable outs : (int * string) list }
let new_trace () = { hz = "none"; steps = []; cls = []; outs = [] }
(* the node's OUTPUT after the step just pushed (property-determined key o<k>) *)
let trace_out (t : trace) (o : string) = t.outs <- (List.length t.steps - 1, o) :: t.outs
let trace_result_tw (t : trace) (proto : string) (twin : bool) : string =
  let b = Buffer.create 256 in
  Buffer.add_string b ("hz=" ^ t.hz ^ ";twin=" ^ (if twin then "1" else "0"));
  List.iteri (fun k s -> Buffer.add_string b (Printf.sprintf ";s%d=%s" k s)) (List.rev t.steps);
  List.iter (fun (k, o) -> Buffer.add_string b (Printf.sprintf ";o%d=%s" k o)) (List.rev t.outs);
  Buffer.add_string b (";class=" ^ proto ^ ":" ^ String.concat "," (List.rev t.cls));
  Buffer.contents b
let trace_result (t : trace) (proto : string) : string = trace_result_tw t proto true
(* the same with a chosen stale byte *)
let mkbuf_p (cap : int) (d : n list) (poison : int) : n list * n =
  let l = List.length d in
  if l >= cap then (take_l cap d, n_of_int cap)
  else (d @ List.init (cap - l) (fun _ -> n_of_int poison), n_of_int l)
(* sockrx <capacity> <size>...: the recvfrom contract every model assumes (hypothesis n <= CAP of the theorems):
   UDPSocket::RecvFrom reports min(size, capacity) bytes, equal to the front of the datagram *)
let () = register "sockrx" (fun args ->
  match args with
  | _ :: cap :: sizes ->
    let cap = ios cap in
    let b = Buffer.create 64 in
    Buffer.add_string b "hz=none;twin=1";
    List.iteri (fun k s -> Buffer.add_string b (Printf.sprintf ";s%d=ok:1|n:%d|same:1" k (min (ios s) cap))) sizes;
    Buffer.add_string b ";class=sockrx:contract";
    Buffer.contents b
  | _ -> "bad-args")
