"""C06 / Art-Net part: sources, constants, generator."""
import os
NAME = 'artnet'
CXX_SOURCES = ['plugins/artnet/ArtNetNode.cpp']
HARNESS = 'h_artnet.cpp'
COQ_FILES = ['GenArtNet.v', 'ArtNet.v']
EXTRACT = ['artnet_handle', 'AN_PACKET_SIZE', 'mk_an_state']
RULE = ('Art-Net controller side: input port with a pending RDM request re-queued from its completion callback x ArtRdm responses matching / not matching (UIDs, PID, sub device, command class, response type, checksum), padded, and cut at every length right after the full response || Art-Net merge: two output ports on the same / different port addresses x HTP/LTP x ArtDmx from 1-4 source IPs (second source enters merge mode and triggers ArtPollReply-on-change in mid-dispatch, third finds no room) x callbacks that transmit ArtPoll/ArtDmx/ArtTodData from inside the dispatch || Art-Net: valid ArtPoll/ArtPollReply/ArtDmx/ArtTodRequest/ArtTodData/ArtTodControl/ArtRdm/ArtIpProg packets '
        'built from the struct layout (plus the ignored opcodes) x mutation of every version/net/address/command/'
        'length/count field to the boundary values of every comparison x every truncation length around the 10-byte '
        'header, each sub-header and the end of the data x maximum-size/oversize datagrams (1227/1228/1229 bytes) x '
        'random bytes behind a valid id+opcode; 0-2 earlier datagrams; output port 0 and input port 0 enabled on '
        'and output port 1 on the same/another address (or disabled) with unallocated/short/full DMX buffers, HTP/LTP; single source IP; a third '
        'node instance receives every datagram over the bytes of the previous one')
TRUSTED = ['modelled rather than verified: ArtNetNodeImpl::SocketReady/HandlePacket/Handle{Poll,Reply,Data,TodRequest,'
           'TodData,TodControl,Rdm,IPProgram}Packet, UpdatePortFromTodPacket, UpdatePortFromSource for a single source '
           '(copy), RDMCommand::VerifyData/RDMRequest::InflateFromData as a function of the block read; ArtRdm '
           'responses for input ports without a pending request produce no output (RDMReply::FromFrame not modelled)']

A = 'ola::plugin::artnet::'
I = A + 'ArtNetNodeImpl::'


def _off(s, f):
    return 'offsetof(%s%s, %s)' % (A, s, f)


def _ents():
    e = [
        ('AN_PACKET_SIZE', 'sizeof(%sartnet_packet)' % A),
        ('AN_HEADER_SIZE', 'sizeof(%sartnet_packet) - sizeof(((%sartnet_packet*)0)->data)' % (A, A)),
        ('AN_OFF_op_code', _off('artnet_packet', 'op_code')),
        ('AN_MAX_PORTS', A + 'ARTNET_MAX_PORTS'),
        ('AN_VERSION', I + 'ARTNET_VERSION'),
        ('AN_RDM_VERSION', I + 'RDM_VERSION'),
        ('AN_TOD_FLUSH_COMMAND', I + 'TOD_FLUSH_COMMAND'),
        ('AN_MAX_RDM_ADDRESS_COUNT', A + 'ARTNET_MAX_RDM_ADDRESS_COUNT'),
        ('AN_UID_SIZE', 'ola::rdm::UID::UID_SIZE'),
    ]
    for n in ('POLL', 'REPLY', 'DMX', 'SYNC', 'TODREQUEST', 'TODDATA', 'TODCONTROL', 'RDM', 'RDM_SUB', 'TIME_CODE',
              'IP_PROGRAM'):
        e.append(('AN_OP_' + n, A + 'ARTNET_' + n))
    e += [
        ('AN_POLL_SIZE', 'sizeof(%sartnet_poll_t)' % A),
        ('AN_POLL_version', _off('artnet_poll_t', 'version')),
        ('AN_POLL_talk_to_me', _off('artnet_poll_t', 'talk_to_me')),
        ('AN_REPLY_MIN', 'sizeof(%sartnet_reply_t) - sizeof(((%sartnet_reply_t*)0)->filler) - 1 - 1 - '
                         'sizeof(((%sartnet_reply_t*)0)->bind_ip)' % (A, A, A)),
        ('AN_REPLY_net_address', _off('artnet_reply_t', 'net_address')),
        ('AN_REPLY_number_ports', _off('artnet_reply_t', 'number_ports')),
        ('AN_REPLY_port_types', _off('artnet_reply_t', 'port_types')),
        ('AN_REPLY_sw_out', _off('artnet_reply_t', 'sw_out')),
        ('AN_DMX_HDR', 'sizeof(%sartnet_dmx_t) - ola::DMX_UNIVERSE_SIZE' % A),
        ('AN_DMX_version', _off('artnet_dmx_t', 'version')),
        ('AN_DMX_universe', _off('artnet_dmx_t', 'universe')),
        ('AN_DMX_net', _off('artnet_dmx_t', 'net')),
        ('AN_DMX_length', _off('artnet_dmx_t', 'length')),
        ('AN_DMX_data', _off('artnet_dmx_t', 'data')),
        ('AN_TRQ_HDR', 'sizeof(%sartnet_todrequest_t) - sizeof(((%sartnet_todrequest_t*)0)->addresses)' % (A, A)),
        ('AN_TRQ_version', _off('artnet_todrequest_t', 'version')),
        ('AN_TRQ_net', _off('artnet_todrequest_t', 'net')),
        ('AN_TRQ_command', _off('artnet_todrequest_t', 'command')),
        ('AN_TRQ_address_count', _off('artnet_todrequest_t', 'address_count')),
        ('AN_TRQ_addresses', _off('artnet_todrequest_t', 'addresses')),
        ('AN_TD_HDR', 'sizeof(%sartnet_toddata_t) - sizeof(((%sartnet_toddata_t*)0)->tod)' % (A, A)),
        ('AN_TD_version', _off('artnet_toddata_t', 'version')),
        ('AN_TD_rdm_version', _off('artnet_toddata_t', 'rdm_version')),
        ('AN_TD_net', _off('artnet_toddata_t', 'net')),
        ('AN_TD_command_response', _off('artnet_toddata_t', 'command_response')),
        ('AN_TD_address', _off('artnet_toddata_t', 'address')),
        ('AN_TD_uid_total', _off('artnet_toddata_t', 'uid_total')),
        ('AN_TD_uid_count', _off('artnet_toddata_t', 'uid_count')),
        ('AN_TD_tod', _off('artnet_toddata_t', 'tod')),
        ('AN_TC_SIZE', 'sizeof(%sartnet_todcontrol_t)' % A),
        ('AN_TC_version', _off('artnet_todcontrol_t', 'version')),
        ('AN_TC_net', _off('artnet_todcontrol_t', 'net')),
        ('AN_TC_command', _off('artnet_todcontrol_t', 'command')),
        ('AN_TC_address', _off('artnet_todcontrol_t', 'address')),
        ('AN_RDM_HDR', 'sizeof(%sartnet_rdm_t) - %sARTNET_MAX_RDM_DATA' % (A, A)),
        ('AN_RDM_version', _off('artnet_rdm_t', 'version')),
        ('AN_RDM_rdm_version', _off('artnet_rdm_t', 'rdm_version')),
        ('AN_RDM_net', _off('artnet_rdm_t', 'net')),
        ('AN_RDM_command', _off('artnet_rdm_t', 'command')),
        ('AN_RDM_address', _off('artnet_rdm_t', 'address')),
        ('AN_RDM_data', _off('artnet_rdm_t', 'data')),
        ('AN_IP_SIZE', 'sizeof(%sartnet_ip_prog_t)' % A),
        ('AN_IP_version', _off('artnet_ip_prog_t', 'version')),
        ('AN_REPLY_TX_SIZE', 'sizeof(%sartnet_reply_t) + sizeof(((%sartnet_packet*)0)->id) + 2' % (A, A)),
        ('RDMH_SIZE', 'sizeof(ola::rdm::RDMCommandHeader)'),
        ('RDMH_sub_start_code', 'offsetof(ola::rdm::RDMCommandHeader, sub_start_code)'),
        ('RDMH_message_length', 'offsetof(ola::rdm::RDMCommandHeader, message_length)'),
        ('RDMH_destination_uid', 'offsetof(ola::rdm::RDMCommandHeader, destination_uid)'),
        ('RDMH_command_class', 'offsetof(ola::rdm::RDMCommandHeader, command_class)'),
        ('RDMH_param_data_length', 'offsetof(ola::rdm::RDMCommandHeader, param_data_length)'),
        ('RDMH_source_uid', 'offsetof(ola::rdm::RDMCommandHeader, source_uid)'),
        ('RDMH_port_id', 'offsetof(ola::rdm::RDMCommandHeader, port_id)'),
        ('RDMH_sub_device', 'offsetof(ola::rdm::RDMCommandHeader, sub_device)'),
        ('RDMH_param_id', 'offsetof(ola::rdm::RDMCommandHeader, param_id)'),
        ('RDM_UID_SIZE', 'ola::rdm::UID::UID_SIZE'),
        ('RDM_CC_DISCOVER_RESPONSE', 'ola::rdm::RDMCommand::DISCOVER_COMMAND_RESPONSE'),
        ('RDM_CC_GET_RESPONSE', 'ola::rdm::RDMCommand::GET_COMMAND_RESPONSE'),
        ('RDM_CC_SET_RESPONSE', 'ola::rdm::RDMCommand::SET_COMMAND_RESPONSE'),
        ('RDM_ACK_OVERFLOW', 'ola::rdm::ACK_OVERFLOW'),
        ('RDM_PID_QUEUED_MESSAGE', 'ola::rdm::PID_QUEUED_MESSAGE'),
        ('RDM_ALL_SUBDEVICES', 'ola::rdm::ALL_RDM_SUBDEVICES'),
        ('RDM_START_CODE', 'ola::rdm::START_CODE'),
        ('RDM_SUB_START_CODE', 'ola::rdm::SUB_START_CODE'),
        ('RDM_CC_DISCOVER', 'ola::rdm::RDMCommand::DISCOVER_COMMAND'),
        ('RDM_CC_GET', 'ola::rdm::RDMCommand::GET_COMMAND'),
        ('RDM_CC_SET', 'ola::rdm::RDMCommand::SET_COMMAND'),
    ]
    return e


def gen_consts(v):
    return v.gen_consts_cpp('C06/artnet', ['ola/Constants.h', 'ola/rdm/RDMPacket.h', 'ola/rdm/RDMCommand.h',
                                           'plugins/artnet/ArtNetNode.h'], _ents(),
                            os.path.join(v.VERIF, 'props', 'C06', 'coq', 'GenArtNet.v'))


# ---------------------------------------------------------------- packets (layout literals mirror GenArtNet.v;
# a wrong literal here only makes the generator less effective, never the check unsound)
ID = list(b'Art-Net\0')
OPS = dict(poll=0x2000, reply=0x2100, dmx=0x5000, sync=0x5200, todreq=0x8000, toddata=0x8100, todctl=0x8200,
           rdm=0x8300, rdmsub=0x8400, timecode=0x9700, ipprog=0xf800, ipreply=0xf900)


def hx(bs):
    return ''.join('%02x' % (b & 255) for b in bs) if bs else '-'


def hdr(op, ident=None):
    return list(ident if ident is not None else ID) + [op & 255, (op >> 8) & 255]


def poll(ver=14, ttm=2, op=OPS['poll']):
    return hdr(op) + [ver >> 8, ver & 255, ttm, 0]


def reply(net=4, nports=4, types=(0x80, 0x80, 0x80, 0x80), sw_out=(0x23, 0, 0, 0), full=True, rng=None):
    p = hdr(OPS['reply']) + [10, 0, 0, 2, 0x36, 0x19, 0, 14, net, 2, 4, 0x31, 0, 0xd2, 0x70, 0x7a]
    p += [0x41] * 18 + [0x42] * 64 + [0x43] * 64 + [0, nports]
    p += list(types) + [8] * 4 + [0x80] * 4 + [0] * 4 + list(sw_out) + [0] * 7 + [1, 2, 3, 4, 5, 6]
    if full:
        p += [10, 0, 0, 2, 0, 8] + [0] * 26
    return p


def dmx(ver=14, uni=0x23, net=4, length=None, data=(), op=OPS['dmx']):
    if length is None:
        length = len(data)
    return hdr(op) + [ver >> 8, ver & 255, 0, 1, uni, net, (length >> 8) & 255, length & 255] + list(data)


def todreq(ver=14, net=4, cmd=0, count=None, addrs=(0x23,)):
    if count is None:
        count = len(addrs)
    return hdr(OPS['todreq']) + [ver >> 8, ver & 255] + [0] * 9 + [net, cmd, count & 255] + list(addrs)


def toddata(ver=14, rdmver=1, net=4, resp=0, addr=0x25, total=None, count=None, uids=()):
    if count is None:
        count = len(uids)
    if total is None:
        total = len(uids)
    p = hdr(OPS['toddata']) + [ver >> 8, ver & 255, rdmver, 1] + [0] * 7 + [net, resp, addr, (total >> 8) & 255,
                                                                          total & 255, 0, count & 255]
    for u in uids:
        p += list(u)
    return p


def todctl(ver=14, net=4, cmd=1, addr=0x23):
    return hdr(OPS['todctl']) + [ver >> 8, ver & 255] + [0] * 9 + [net, cmd, addr]


def rdm_msg(rng, cc=0x20, pdl=None, ml=None, ssc=1, badsum=False):
    if pdl is None:
        pdl = rng.choice([0, 0, 1, 4, 32, 231])
    pd = [rng.randrange(256) for _ in range(pdl)]
    m = [ssc, 0] + [0x7a, 0x70, 0, 0, 0, rng.randrange(3)] + [0x12, 0x34, 0, 0, 0, rng.randrange(3)]
    m += [rng.randrange(256), 1, 0, 0, rng.randrange(3), cc, 0, rng.choice([0x60, 0xf0, 0x20]), pdl] + pd
    m[1] = (len(m) + 1) if ml is None else ml
    k = min(len(m), max(0, m[1] - 1))
    cs = (0xcc + sum(m[:k])) & 0xffff
    if badsum:
        cs ^= 1
    m = m[:k] + [cs >> 8, cs & 255] + m[k + 2:] if len(m) > k else m + [cs >> 8, cs & 255]
    return m


def rdm(ver=14, rdmver=1, net=4, cmd=0, addr=0x23, data=()):
    return hdr(OPS['rdm']) + [ver >> 8, ver & 255, rdmver] + [0] * 8 + [net, cmd, addr] + list(data)


def ipprog(ver=14):
    return hdr(OPS['ipprog']) + [ver >> 8, ver & 255, 0, 0, 0, 0] + [10, 0, 0, 9, 255, 0, 0, 0, 0x19, 0x36] + [0] * 8


def uid(rng):
    return [rng.choice([0, 0x7a, 0xff]), rng.choice([0x70, 0xff]), 0, 0, rng.randrange(2), rng.randrange(4)]


def frame(rng):
    n = rng.choice([2, 2, 3, 4, 5, 24, 100, 511, 512])
    return [rng.randrange(256) for _ in range(n)]


def pending(rng):
    """a pending RDM request on input port 0: cc:pid:sub:source uid:destination uid"""
    return '%d:%d:%d:%s:%s' % (rng.choice([0x20, 0x20, 0x30]), rng.choice([0x60, 0x60, 0xf0, 0x20]),
                               rng.choice([0, 0, 1, 0xffff]), '7a7000000001', '123400000002')


def rdm_resp(rng, pend, pdl=None, **mut):
    """a response to the pending request; mut overrides: dst, src (6-byte lists), pid, sub, cc, rtype, badsum, ml"""
    cc, pid, sub, su, du = pend.split(':')
    cc, pid, sub = int(cc), int(pid), int(sub)
    if pdl is None:
        pdl = rng.choice([0, 1, 4, 32, 231])
    pd = [rng.randrange(1, 256) for _ in range(pdl)]
    dst = mut.get('dst', list(bytes.fromhex(su)))
    src = mut.get('src', list(bytes.fromhex(du)))
    rsub = mut.get('sub', 0 if sub == 0xffff else sub)
    rpid = mut.get('pid', pid if pid != 0x20 else 0x60)
    rcc = mut.get('cc', cc + 1)
    m = [1, 0] + dst + src + [rng.randrange(256), mut.get('rtype', 0), rng.randrange(3), rsub >> 8, rsub & 255, rcc,
                              rpid >> 8, rpid & 255, pdl] + pd
    m[1] = mut.get('ml', len(m) + 1) & 255
    cs = (0xcc + sum(m)) & 0xffff
    if mut.get('badsum'):
        cs ^= 1
    return m + [cs >> 8, cs & 255]


def config(rng):
    # port addresses / net equal to the poison bytes (0x00, 0xA5) make comparisons against stale bytes succeed
    net = rng.choice([4, 4, 0, 0, 127])
    sub = rng.choice([2, 2, 0, 10, 10, 15])
    ou = rng.choice([3, 0, 5, 5, 15]) if sub != 0 else rng.choice([0, 0, 3])
    iu = rng.choice([5, 5, 3, 0])
    c = rng.choice(['none', 'none', 'short', 'full'])
    if c == 'none':
        b = 'none'
    else:
        b = hx([rng.randrange(1, 256) for _ in range(512 if c == 'full' else rng.choice([1, 5, 100, 511]))])
    if rng.random() < 0.08:
        ou = 16     # output port 0 disabled
    if rng.random() < 0.08:
        iu = 16     # input port 0 disabled
    # output port 1: disabled, on the same universe as port 0, or on another one
    ou2 = rng.choice([16, 16, ou, ou, (ou + 1) & 15, 1])
    b2 = rng.choice(['none', 'none', hx([rng.randrange(1, 256) for _ in range(rng.choice([3, 512]))])])
    return (net, sub, ou, iu, b, rng.choice([0, 0, 1]), ou2, b2, rng.choice([0, 0, 1]),
            rng.choice(['-', '-', pending(rng)]))


def cfg_s(c):
    return '%d,%d,%d,%d,%s,%d,%d,%s,%d,%s' % (tuple(c) + ('-',) * (10 - len(c)))


def valid_any(rng, c):
    net, sub, ou, iu = c[:4]
    oa, ia = (sub << 4) | (ou & 15), (sub << 4) | (iu & 15)
    k = rng.choice(['poll', 'reply', 'dmx', 'dmx', 'todreq', 'toddata', 'todctl', 'rdm', 'ipprog'])
    if k == 'poll':
        return k, poll(ttm=rng.choice([0, 2, 3]))
    if k == 'reply':
        return k, reply(net=net, sw_out=(ia, 0, 0, 0), full=rng.random() < 0.5)
    if k == 'dmx':
        return k, dmx(uni=oa, net=net, data=frame(rng))
    if k == 'todreq':
        return k, todreq(net=net, addrs=[rng.choice([oa, 1, 0xff]) for _ in range(rng.choice([1, 2, 5, 32]))] + [oa])
    if k == 'toddata':
        return k, toddata(net=net, addr=ia, uids=[uid(rng) for _ in range(rng.choice([0, 1, 2, 5, 40, 200]))])
    if k == 'todctl':
        return k, todctl(net=net, addr=oa)
    if k == 'rdm':
        return k, rdm(net=net, addr=rng.choice([oa, oa, ia]), data=rdm_msg(rng, cc=rng.choice([0x10, 0x20, 0x30])))
    return k, ipprog()


def mutants(rng, quick, c):
    net, sub, ou, iu = c[:4]
    oa, ia = (sub << 4) | (ou & 15), (sub << 4) | (iu & 15)
    onet = (net + 1) & 127
    ob = (sub << 4) | (c[6] & 15)
    # ---- poll
    for ver in (13, 14, 15, 0x0e00):
        yield 'poll-ver', poll(ver=ver)
    for t in (0, 1, 2, 3, 255):
        yield 'poll-ttm', poll(ttm=t)
    # ---- every opcode (handled and ignored), and a wrong id
    for name, op in sorted(OPS.items()):
        yield 'op-' + name, hdr(op) + [0, 14] + [rng.randrange(256) for _ in range(rng.choice([0, 2, 12, 40]))]
    yield 'badid', hdr(OPS['dmx'], ident=b'Art-Nex\0') + dmx(uni=oa, net=net, data=frame(rng))[10:]
    yield 'op-unknown', hdr(rng.randrange(65536)) + [0, 14, 0, 0]
    # ---- reply
    for full in (True, False):
        yield 'reply', reply(net=net, sw_out=(ia, 0, 0, 0), full=full)
    yield 'reply-net', reply(net=onet, sw_out=(ia, 0, 0, 0))
    for np in (0, 1, 3, 4, 5, 255):
        yield 'reply-nports', reply(net=net, nports=np, sw_out=(0, 0, 0, ia) if np != 1 else (ia, 0, 0, 0))
    yield 'reply-types', reply(net=net, types=(0x40, 0x80, 0x7f, 0xc0), sw_out=(ia, 1, ia, 2))
    yield 'reply-types', reply(net=net, types=(0x40, 0x40, 0x7f, 0xc0), sw_out=(ia, ia, ia, ia))
    full = reply(net=net, sw_out=(0, ia, 0, ia))
    for cut in (172, 173, 174, 175, 178, 190, 191, 192, 194, 196, 206, 207, 208):   # number_ports / port_types / sw_out / minimum
        yield 'reply-cut', full[:cut], [full]
    # ---- dmx
    f = frame(rng)
    base = dmx(uni=oa, net=net, data=f)
    yield 'dmx', base
    for ver in (13, 15, 0x0e00):
        yield 'dmx-ver', dmx(ver=ver, uni=oa, net=net, data=f)
    yield 'dmx-net', dmx(uni=oa, net=onet, data=f)
    yield 'dmx-uni', dmx(uni=(oa + 1) & 255, net=net, data=f)
    for ln in (0, 1, 2, len(f) - 1, len(f), len(f) + 1, 511, 512, 513, 0xffff, 0x0200, 0x0002):
        yield 'dmx-len', dmx(uni=oa, net=net, length=ln & 0xffff, data=f)
    for dl in (0, 1, 2, 3):
        yield 'dmx-short', dmx(uni=oa, net=net, length=rng.choice([2, 512]), data=f[:dl]), [dmx(uni=oa, net=net, data=f)]
    # ---- tod request
    addrs = [rng.choice([oa, ob, 1, 0xff]) for _ in range(rng.choice([1, 2, 5]))]
    yield 'todreq', todreq(net=net, addrs=addrs + [oa])
    yield 'todreq-2', todreq(net=net, addrs=[ob, oa, ob, oa])
    yield 'dmx-2', dmx(uni=ob, net=net, data=frame(rng))
    yield 'todctl-2', todctl(net=net, addr=ob)
    yield 'rdm-2', rdm(net=net, addr=ob, data=rdm_msg(rng, cc=0x20))
    yield 'todreq-ver', todreq(ver=13, net=net, addrs=[oa])
    yield 'todreq-net', todreq(net=onet, addrs=[oa])
    yield 'todreq-cmd', todreq(net=net, cmd=1, addrs=[oa])
    for cnt in (0, 1, 2, 3, 4, 31, 32, 33, 255):
        for have in (0, 1, 2, 31, 32, 33, 40):
            if quick and rng.random() < 0.6:
                continue
            # the matching address is the LAST one claimed / the first one not received
            a = [1] * have
            if have:
                a[-1] = oa
            yield 'todreq-cnt', todreq(net=net, count=cnt, addrs=a), \
                ([todreq(net=net, addrs=[oa] * 32)] if rng.random() < 0.5 else None)
    # ---- tod data
    us = [uid(rng) for _ in range(rng.choice([1, 2, 3, 5]))]
    yield 'toddata', toddata(net=net, addr=ia, uids=us)
    yield 'toddata-ver', toddata(ver=15, net=net, addr=ia, uids=us)
    yield 'toddata-rdmver', toddata(rdmver=2, net=net, addr=ia, uids=us)
    yield 'toddata-net', toddata(net=onet, addr=ia, uids=us)
    yield 'toddata-resp', toddata(resp=1, net=net, addr=ia, uids=us)
    yield 'toddata-addr', toddata(net=net, addr=(ia + 1) & 255, uids=us)
    for cnt in (0, 1, len(us) - 1, len(us), len(us) + 1, 200, 201, 255):
        for total in (0, cnt, cnt + 1, 0x100, 0xffff):
            yield 'toddata-cnt', toddata(net=net, addr=ia, count=cnt & 255, total=total & 0xffff, uids=us)
    p = toddata(net=net, addr=ia, count=len(us), uids=us)
    for cut in (1, 5, 6, 7):
        yield 'toddata-cut', p[:len(p) - cut], [p]
    # ---- tod control
    yield 'todctl', todctl(net=net, addr=oa)
    yield 'todctl-ver', todctl(ver=13, net=net, addr=oa)
    yield 'todctl-net', todctl(net=onet, addr=oa)
    for cmd in (0, 2, 255):
        yield 'todctl-cmd', todctl(net=net, cmd=cmd, addr=oa)
    yield 'todctl-addr', todctl(net=net, addr=(oa + 1) & 255)
    # ---- rdm
    for cc in (0x10, 0x20, 0x30, 0x21, 0x11, 0):
        yield 'rdm', rdm(net=net, addr=oa, data=rdm_msg(rng, cc=cc))
    yield 'rdm-in', rdm(net=net, addr=ia, data=rdm_msg(rng, cc=0x21))
    yield 'rdm-ver', rdm(ver=13, net=net, addr=oa, data=rdm_msg(rng))
    yield 'rdm-rdmver', rdm(rdmver=0, net=net, addr=oa, data=rdm_msg(rng))
    yield 'rdm-cmd', rdm(cmd=1, net=net, addr=oa, data=rdm_msg(rng))
    yield 'rdm-net', rdm(net=onet, addr=oa, data=rdm_msg(rng))
    yield 'rdm-addr', rdm(net=net, addr=(oa + 1) & 255, data=rdm_msg(rng))
    yield 'rdm-ssc', rdm(net=net, addr=oa, data=rdm_msg(rng, ssc=2))
    yield 'rdm-sum', rdm(net=net, addr=oa, data=rdm_msg(rng, badsum=True))
    m = rdm_msg(rng, pdl=4)
    for ml in (0, 1, 22, 23, 24, 25, len(m) - 3, len(m) - 2, len(m) - 1, len(m), 255):
        yield 'rdm-ml', rdm(net=net, addr=oa, data=rdm_msg(rng, pdl=4, ml=ml))
    for pdl_claim in (0, 3, 5, 6, 255):
        mm = rdm_msg(rng, pdl=4)
        mm[22] = pdl_claim
        k = mm[1] - 1
        cs = (0xcc + sum(mm[:k])) & 0xffff
        mm[k], mm[k + 1] = cs >> 8, cs & 255
        yield 'rdm-pdl', rdm(net=net, addr=oa, data=mm)
    for cut in range(0, 28):
        yield 'rdm-cut', rdm(net=net, addr=oa, data=m[:cut]), ([rdm(net=net, addr=oa, data=m)] if (cut % 2 or cut > 20) else None)
    yield 'rdm-tail', rdm(net=net, addr=oa, data=m + [rng.randrange(256) for _ in range(rng.choice([1, 2, 600]))])
    # ---- ip program
    yield 'ipprog', ipprog()
    yield 'ipprog-ver', ipprog(ver=13)
    # ---- minimum-size packets of every kind, 1 and 2 bytes short, after the complete packet
    mins = [poll(), reply(net=net, sw_out=(ia, 0, 0, ia), full=False), dmx(uni=oa, net=net, data=f[:2]),
            todreq(net=net, addrs=[]), todreq(net=net, addrs=[oa]), toddata(net=net, addr=ia, uids=[]),
            toddata(net=net, addr=ia, uids=us[:1]), todctl(net=net, addr=oa), rdm(net=net, addr=oa, data=[1]),
            rdm(net=net, addr=oa, data=m), ipprog()]
    for v in mins:
        for k in (1, 2):
            yield 'min-%d' % k, v[:len(v) - k], [v]
        yield 'min+tail', v + [rng.randrange(256)], [v]
    # ---- truncations of valid packets
    for _k in range(3 if quick else 8):
        kind, v = valid_any(rng, c)
        cuts = set(range(0, 32)) | {len(v) - k for k in range(0, 4)}
        if kind == 'reply':
            cuts |= set(range(180, 212))
        if quick:
            cuts |= {rng.randrange(len(v) + 1) for _ in range(3)}
            cuts = {x for x in cuts if x < 9 or rng.random() < 0.5}
        else:
            cuts |= set(range(0, len(v) + 1))
        for x in sorted(x for x in cuts if 0 <= x <= len(v)):
            # preceded by the complete packet: the stale tail is exactly the rest of a valid packet
            yield 'trunc-' + kind, v[:x], ([v] if rng.random() < 0.7 else None)
    # ---- maximum-size / oversize datagrams
    for ln in (1227, 1228, 1229, 1500):
        yield 'max-toddata', (toddata(net=net, addr=ia, count=rng.choice([200, 201, 255]), total=0,
                                      uids=[uid(rng) for _ in range(210)]))[:ln]
        yield 'max-rdm', (rdm(net=net, addr=oa, data=rdm_msg(rng) + [rng.randrange(256) for _ in range(1500)]))[:ln]
        yield 'max-dmx', (dmx(net=net, uni=oa, length=rng.choice([512, 1210, 0xffff]),
                              data=[rng.randrange(256) for _ in range(1500)]))[:ln]
        yield 'max-todreq', (todreq(net=net, count=255, addrs=[1] * 1500))[:ln]


def merge_cases(rng, quick):
    """several ports on one port address + several source IPs: a second source makes a port enter merge mode, which
    sends an ArtPollReply (reply-on-change) in the middle of HandleDataPacket; a third source finds no room; with the
    config's last field set the DMX/RDM callbacks transmit packets of their own while the datagram is dispatched"""
    for _ in range(40 if quick else 1500):
        net, sub = rng.choice([4, 0, 127]), rng.choice([2, 0, 15])
        ou = rng.choice([3, 0, 5])
        ou2 = rng.choice([ou, ou, ou, (ou + 1) & 15, 16])
        oa, ob = (sub << 4) | ou, (sub << 4) | (ou2 & 15)
        def init():
            return rng.choice(['none', hx([rng.randrange(1, 256) for _ in range(rng.choice([3, 512]))])])
        c = (net, sub, ou, rng.choice([5, 16]), init(), rng.choice([0, 1]), ou2, init(), rng.choice([0, 1, 1]), '-')
        dgs = []
        if rng.random() < 0.7:
            dgs.append(hx(poll(ttm=rng.choice([2, 2, 0, 3]))))
        for _k in range(rng.choice([2, 3, 4, 6])):
            src = rng.choice([0, 1, 1, 2, 3])
            uni = rng.choice([oa, oa, oa, ob])
            n = rng.choice([2, 3, 24, 511, 512])
            d = dmx(uni=uni, net=net, data=[rng.randrange(256) for _ in range(n)])
            if rng.random() < 0.15:
                d = d[:rng.choice([18, 19, 20, 21, 30])]
            dgs.append(('s%d.' % src if src else '') + hx(d))
            if rng.random() < 0.15:
                dgs.append(hx(poll(ttm=rng.choice([0, 2]))))
        yield 'artnet %s %s' % (cfg_s(c), ' '.join(dgs))


def rdmresp_cases(rng, quick):
    """controller side: an input port with a pending RDM request (re-queued from the completion callback); ArtRdm
    responses that match / do not match it (UIDs, PID, sub device, command class, response type, checksum), padded,
    and cut at every length - each cut copy sent right after the full response, so that the bytes the full one left in
    the receive buffer would complete the message and its checksum"""
    for _ in range(12 if quick else 300):
        net, sub = rng.choice([4, 0]), rng.choice([2, 0, 10])
        iu = rng.choice([5, 3])
        ou = rng.choice([iu, 3, 16])     # sometimes an output port on the same address sees the datagram as well
        ia = (sub << 4) | iu
        pend = pending(rng)
        c = (net, sub, ou, iu, 'none', 0, 16, 'none', rng.choice([0, 1]), pend)
        full = rdm_resp(rng, pend)
        base = rdm(net=net, addr=ia, data=full)
        muts = [dict(), dict(rtype=3), dict(rtype=4), dict(badsum=True), dict(pid=0x61), dict(sub=2),
                dict(cc=0x21), dict(cc=0x31), dict(cc=0x11), dict(cc=0x20), dict(dst=[0x7a, 0x70, 0, 0, 0, 9]),
                dict(src=[0x12, 0x34, 0, 0, 0, 9])]
        if quick:
            muts = [dict()] + rng.sample(muts[1:], 3)
        for mu in muts:
            yield 'artnet %s %s' % (cfg_s(c), ' '.join([hx(base), hx(rdm(net=net, addr=ia, data=rdm_resp(rng, pend, **mu)))]))
        # padded
        yield 'artnet %s %s' % (cfg_s(c), hx(base + [rng.randrange(256) for _ in range(rng.choice([1, 2, 40]))]))
        # the full response, then the same cut at every length (quick: around the headers, the length byte and the end)
        cuts = set(range(24, len(base))) if not quick else (
            {24, 25, 26, 27, 30, 47, 48, 49, len(base) - 3, len(base) - 2, len(base) - 1} | {rng.randrange(24, len(base)) for _ in range(3)})
        for cut in sorted(x for x in cuts if 10 < x < len(base)):
            yield 'artnet %s %s %s' % (cfg_s(c), hx(base), hx(base[:cut]))
        # other address / no pending request
        yield 'artnet %s %s' % (cfg_s(c), hx(rdm(net=net, addr=(ia + 1) & 255, data=full)))
        yield 'artnet %s %s' % (cfg_s(c[:9] + ('-',)), hx(base))


def gen_cases(rng, tier):
    quick = tier == 'quick'
    for c in merge_cases(rng, quick):
        yield c
    for c in rdmresp_cases(rng, quick):
        yield c
    # quick: many node configurations, each with a random third of the mutants
    for _ in range(14 if quick else 30):
        c = config(rng)
        for m in mutants(rng, quick, c):
            if quick and rng.random() >= 0.3:
                continue
            cls, dg = m[0], m[1]
            pre = []
            if len(m) > 2 and m[2] is not None:
                yield 'artnet %s %s' % (cfg_s(c), ' '.join([hx(x) for x in m[2]] + [hx(dg)]))
                continue
            for _k in range(rng.choice([0, 0, 1, 2])):
                pre.append(hx(valid_any(rng, c)[1]) if rng.random() < 0.85
                           else hx([rng.randrange(256) for _ in range(rng.choice([3, 11, 30, 1228, 1400]))]))
            yield 'artnet %s %s' % (cfg_s(c), ' '.join(pre + [hx(dg)]))
    ops = sorted(OPS.values())
    for _ in range(300 if quick else 20000):
        c = config(rng)
        net, sub, ou, iu = c[:4]
        oa, ia = (sub << 4) | (ou & 15), (sub << 4) | (iu & 15)
        n = rng.choice([0, 1, 9, 10, 11, 12, 14, 18, 20, 24, 28, 30, 60, 207, 239, 1228, 1400, rng.randrange(1, 1400)])
        bs = [rng.randrange(256) for _ in range(n)]
        if n >= 10 and rng.random() < 0.9:
            op = rng.choice(ops)
            bs[0:10] = hdr(op)
        if n >= 12 and rng.random() < 0.8:
            bs[10:12] = [0, 14]
        if n >= 24 and rng.random() < 0.7:
            bs[12] = rng.choice([1, bs[12]])
            bs[14] = rng.choice([oa, ia, bs[14]])
            bs[15] = rng.choice([net, bs[15]])
            bs[21] = rng.choice([net, bs[21]])
            bs[22] = rng.choice([0, 1, bs[22]])
            bs[23] = rng.choice([oa, ia, bs[23]])
        yield 'artnet %s %s' % (cfg_s(c), hx(bs))


def nontrivial(payload, md):
    return any(not v.startswith('e:-') for k, v in md.items() if k.startswith('s'))
