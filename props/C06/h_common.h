// C06 correspondence harness, shared part: link-time recvfrom/sendto interposers with a
// poison-filling receive, op registry, twin-trace helper.
#ifndef VERIF_C06_H_COMMON_H_
#define VERIF_C06_H_COMMON_H_
#include <stdint.h>
#include <string>
#include <vector>
#include "vh.h"
#include "ola/DmxBuffer.h"
#include "ola/network/Interface.h"

namespace c06 {
// datagrams captured from sendto() (cleared by the protocol code when it wants)
extern std::vector<std::vector<uint8_t> > g_sent;
// byte the recvfrom wrapper fills the WHOLE destination buffer with before copying the datagram
extern uint8_t g_poison;
// third instance: when set, the recvfrom wrapper does not poison; the destination buffer gets what a
// persistent receive buffer would hold: the earlier datagrams of this case (0xA5 where nothing was ever
// received) with the new datagram copied over the front.  Reset at the start of every case.
extern bool g_prev_mode;
// fourth instance: when set, the armed datagram travels through the KERNEL: it is sent over a real loopback UDP
// socket pair and received with the real recvfrom() into the caller's buffer with the caller's length and flags
// (on a substitute descriptor), so the return value and truncation are the kernel's (this is what validates the
// models' hypothesis `received length <= capacity` against UDPSocket::RecvFrom / common/network/Socket.cpp).
// The buffer is pre-filled like the third instance's persistent buffer.
extern bool g_kernel_mode;
// one datagram through the kernel into (buf, len) with `flags`; returns what the real recvfrom returned
ssize_t kernel_roundtrip(const std::vector<uint8_t> &dgram, void *buf, size_t len, int flags);
// number of recvfrom calls that found a datagram / bytes of capacity offered by the last call
extern unsigned g_rx_calls;
extern size_t g_rx_cap;
// arm the next recvfrom(): it returns this datagram (truncated to the caller's buffer), once
void set_rx(const std::vector<uint8_t> &dgram, const char *src_ip = "10.0.0.2", uint16_t src_port = 4321);

typedef std::string (*Op)(const std::vector<std::string> &args);   // args[0] = op name
struct Reg { Reg(const char *name, Op f); };

// "none" for a DmxBuffer without a block, hex of the slots otherwise ("-" when m_length == 0)
std::string buf_s(const ola::DmxBuffer &b);
void buf_init(ola::DmxBuffer *b, const std::string &s);   // inverse of buf_s
ola::network::Interface iface();                           // 10.0.0.1/8

// Every datagram is delivered to twin node instances (poison 0x00 and 0xA5) with identical prior
// state; add(a, b) records the observation of step k (must not contain ';' or '=') and checks that
// the twins agree.
struct Trace {
  bool twin_ok;
  int step;
  std::string s;
  Trace() : twin_ok(true), step(0) {}
  void add(const std::string &a, const std::string &b) {
    if (a != b) twin_ok = false;
    s += ";s" + vh::str(step++) + "=" + a;
  }
  // the same with the third (previous-datagram) instance
  void add3(const std::string &a, const std::string &b, const std::string &c) {
    if (a != c) twin_ok = false;
    add(a, b);
  }
  void add4(const std::string &a, const std::string &b, const std::string &c, const std::string &d) {
    if (a != d) twin_ok = false;
    add3(a, b, c);
  }
  // the node's OUTPUT after the step just added (handler DMX data, priority, callbacks): a property-determined key
  void out(const std::string &o) { s += ";o" + vh::str(step - 1) + "=" + o; }
  std::string result() const { return std::string("hz=none;twin=") + (twin_ok ? "1" : "0") + s; }
};
static const uint8_t POISON[4] = {0x00, 0xA5, 0xA5, 0xA5};
// RAII: deliveries inside the scope go to the persistent (previous-datagram) buffer
struct KernelMode { KernelMode() { g_kernel_mode = true; } ~KernelMode() { g_kernel_mode = false; } };
struct PrevMode { PrevMode() { g_prev_mode = true; } ~PrevMode() { g_prev_mode = false; } };
}  // namespace c06
#endif  // VERIF_C06_H_COMMON_H_
