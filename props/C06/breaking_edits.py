# usage: cd <worktree of /repo> && python3 breaking_edits.py <name|none>   -- applies ONE realistic breaking edit to
# plugins/artnet/ArtNetNode.cpp (after resetting the file); every one must make `VERIF_REPO=<worktree> ./check C06` report VIOLATION
import sys,subprocess
edits={
'replymin':("""      sizeof(packet.bind_ip));
  if (!CheckPacketSize(source_address, "ArtPollReply", packet_size,""","""      sizeof(packet.bind_ip) - 40);
  if (!CheckPacketSize(source_address, "ArtPollReply", packet_size,"""),
'todreqclamp':("""  unsigned int addresses = std::min(
      packet_size - header_size,
      static_cast<unsigned int>(packet.address_count));
""","""  unsigned int addresses = static_cast<unsigned int>(packet.address_count);
"""),
'todctl-1':("""  if (!CheckPacketSize(source_address, "ArtTodControl", packet_size,
                       sizeof(packet))) {""","""  if (!CheckPacketSize(source_address, "ArtTodControl", packet_size,
                       sizeof(packet) - 1)) {"""),
'dmxclamp':("""  uint16_t data_size = std::min(
      (unsigned int) ((packet.length[0] << 8) + packet.length[1]),
      packet_size - header_size);""","""  uint16_t data_size = (packet.length[0] << 8) + packet.length[1];"""),
'rdm+1':("""  unsigned int rdm_length = packet_size - header_size;
  if (!rdm_length) {""","""  unsigned int rdm_length = packet_size - header_size + 1;
  if (!rdm_length) {"""),
'toduid':("""  unsigned int uid_count = std::min(tod_size / ola::rdm::UID::UID_SIZE,
                                    (unsigned int) packet.uid_count);""","""  unsigned int uid_count = packet.uid_count; (void) tod_size;"""),
'pollsize':("""  if (!CheckPacketSize(source_address,
                       "ArtPoll",
                       packet_size,
                       sizeof(packet))) {
    return;
  }
""",""""""),
'todhdr':("""  unsigned int expected_size = sizeof(packet) - sizeof(packet.tod);
  if (!CheckPacketSize(source_address, "ArtTodData", packet_size,""","""  unsigned int expected_size = sizeof(packet) - sizeof(packet.tod) - 4;
  if (!CheckPacketSize(source_address, "ArtTodData", packet_size,"""),
}
p='plugins/artnet/ArtNetNode.cpp'
subprocess.check_call(['git','checkout','-q',p])
if sys.argv[1]!='none':
    s=open(p).read(); o,n=edits[sys.argv[1]]; assert o in s; open(p,'w').write(s.replace(o,n))
