(* C06 model driver, shared part (assembled into driver.ml by prop.py: d_00_common.ml, d_<proto>.ml ...,
   d_zz_main.ml).  Only parsing/printing; all logic is in the extracted Model. *)
let ops : (string, string list -> string) Hashtbl.t = Hashtbl.create 16
let register (name : string) (f : string list -> string) = Hashtbl.replace ops name f

let rec take_l k l = if k <= 0 then [] else match l with [] -> [] | x :: r -> x :: take_l (k - 1) r
(* the receive buffer recvfrom leaves behind: datagram (truncated to the capacity) followed by stale
   bytes; returns (buffer, received length) *)
let mkbuf (cap : int) (d : n list) : n list * n =
  let l = List.length d in
  if l >= cap then (take_l cap d, n_of_int cap)
  else (d @ List.init (cap - l) (fun _ -> n_of_int 0xA5), n_of_int l)
let hazard_s (h : hazard) = match h with Oob -> "oob" | OutOfFuel -> "fuel" | Div0 -> "div0"
let dbuf_s (b : n list option) = match b with None -> "none" | Some l -> hex_of_bytes l
let dbuf_of_s (s : string) : n list option = if s = "none" then None else Some (bytes_of_hex s)

(* a trace: steps are appended as ;s<k>=<obs>; the first hazard ends it *)
type trace = { mutable hz : string; mutable steps : string list; mutable cls : string list;
               mutable outs : (int * string) list }
let new_trace () = { hz = "none"; steps = []; cls = []; outs = [] }
(* the node's OUTPUT after the step just pushed (property-determined key o<k>) *)
let trace_out (t : trace) (o : string) = t.outs <- (List.length t.steps - 1, o) :: t.outs
let trace_result_tw (t : trace) (proto : string) (twin : bool) : string =
  let b = Buffer.create 256 in
  Buffer.add_string b ("hz=" ^ t.hz ^ ";twin=" ^ (if twin then "1" else "0"));
  List.iteri (fun k s -> Buffer.add_string b (Printf.sprintf ";s%d=%s" k s)) (List.rev t.steps);
  List.iter (fun (k, o) -> Buffer.add_string b (Printf.sprintf ";o%d=%s" k o)) (List.rev t.outs);
  Buffer.add_string b (";class=" ^ proto ^ ":" ^ String.concat "," (List.rev t.cls));
  Buffer.contents b
let trace_result (t : trace) (proto : string) : string = trace_result_tw t proto true
(* the same with a chosen stale byte *)
let mkbuf_p (cap : int) (d : n list) (poison : int) : n list * n =
  let l = List.length d in
  if l >= cap then (take_l cap d, n_of_int cap)
  else (d @ List.init (cap - l) (fun _ -> n_of_int poison), n_of_int l)
(* sockrx <capacity> <size>...: the recvfrom contract every model assumes (hypothesis n <= CAP of the theorems):
   UDPSocket::RecvFrom reports min(size, capacity) bytes, equal to the front of the datagram *)
let () = register "sockrx" (fun args ->
  match args with
  | _ :: cap :: sizes ->
    let cap = ios cap in
    let b = Buffer.create 64 in
    Buffer.add_string b "hz=none;twin=1";
    List.iteri (fun k s -> Buffer.add_string b (Printf.sprintf ";s%d=ok:1|n:%d|same:1" k (min (ios s) cap))) sizes;
    Buffer.add_string b ";class=sockrx:contract";
    Buffer.contents b
  | _ -> "bad-args")

(* ShowNet: payload  shownet <u:init,...|-> <datagram> ...
   The model is faithful to the code as it is (finding C06-shownet-sizeof-pointer), so it is run like the
   harness runs the twins: once per stale byte (0x00 / 0xA5), each with its own state. *)
(* C06_SHOWNET_MODEL=fixed selects the model of the proposed fix (fixes-needing-test-edit/01), for checking a
   tree on which that fix has been applied *)
let sn_fixed = (try Sys.getenv "C06_SHOWNET_MODEL" = "fixed" with Not_found -> false)
let sn_handle n st = if sn_fixed then shownet_handle_fixed n st else shownet_handle n st
let sn_in d st = sn_fixed || sn_within d st
let shownet_op (args : string list) : string =
  match args with
  | _ :: spec :: dgs ->
    let st0 = if spec = "-" then [] else
      List.map (fun h -> match String.split_on_char ':' h with
                         | [u; i] -> (n_of_int (ios u), dbuf_of_s i) | _ -> failwith "bad handler")
               (String.split_on_char ',' spec) in
    let t = new_trace () in
    let sta = ref st0 and stb = ref st0 and stc = ref st0 in
    (* third instance: a persistent receive buffer (0xA5 where nothing was ever received) *)
    let persist = ref (List.init (int_of_n sN_PACKET_SIZE) (fun _ -> n_of_int 0xA5)) in
    let rec drop_l k l = if k <= 0 then l else match l with [] -> [] | _ :: r -> drop_l (k - 1) r in
    let twin = ref true and known = ref false and crash = ref false in
    let cap = int_of_n sN_PACKET_SIZE in
    let obs st hit =
      let hs = match hit with None -> "-" | Some u -> Printf.sprintf "%dx1" (int_of_n u) in
      "h:" ^ hs ^ String.concat "" (List.map (fun (u, b) -> Printf.sprintf "|%d:%s" (int_of_n u) (dbuf_s b)) st) in
    (try List.iter (fun dg ->
      let d = take_l cap (bytes_of_hex dg) in
      if not (sn_in d !sta) then known := true;
      let bufa, n = mkbuf_p cap d 0x00 in
      let bufb, _ = mkbuf_p cap d 0xA5 in
      persist := d @ drop_l (List.length d) !persist;
      match run bufa (sn_handle n !sta), run bufb (sn_handle n !stb), run !persist (sn_handle n !stc) with
      | Hazard Oob, _, _ | _, Hazard Oob, _ | _, _, Hazard Oob -> crash := true; raise Exit
      | Hazard h, _, _ | _, Hazard h, _ | _, _, Hazard h -> t.hz <- hazard_s h; raise Exit
      | Done (sa, ha), Done (sb, hb), Done (sc, hc) ->
        sta := sa; stb := sb; stc := sc;
        let oa = obs sa ha and ob = obs sb hb and oc = obs sc hc in
        if oa <> ob || oa <> oc then twin := false;
        t.cls <- ((match ha with None -> "drop" | Some _ -> "handled") ^ (if sn_in d !sta then "" else "!")) :: t.cls;
        t.steps <- oa :: t.steps)
      dgs with Exit -> ());
    let k = if !known then ";known=C06-shownet-sizeof-pointer" else "" in
    if !crash then "crash=ASAN:stack-buffer-overflow" ^ k ^ ";class=shownet:overread"
    else begin
      let r = trace_result_tw t "shownet" !twin in
      r ^ k
    end
  | _ -> "bad-args"
let () = register "shownet" shownet_op

(* E1.31 / ACN: payload  acn <ign>[,<u>:<init>...] <datagram> ... *)
let acn_op (args : string list) : string =
  match args with
  | _ :: spec :: dgs ->
    let parts = String.split_on_char ',' spec in
    let ign = (List.hd parts = "1") in
    let hs0 = List.map (fun h -> match String.split_on_char ':' h with
                         | [u; i] -> { u_uni = n_of_int (ios u); u_buf = dbuf_of_s i; u_ap = n_of_int 0; u_srcs = [] }
                         | _ -> failwith "bad handler") (List.tl parts) in
    let t = new_trace () in
    let hs = ref hs0 in
    let ts = ref [] in
    let ni n = string_of_int (int_of_n n) in
    let ev_s e = match e with
      | AcnEvData u -> "d" ^ ni u
      | EvPage (cid, page, last, us) ->
        "p" ^ hex_of_bytes cid ^ "." ^ ni page ^ "." ^ ni last ^ "." ^ String.concat "_" (List.map ni us)
      | EvRdm133 (seq, ep, d) -> "r" ^ string_of_n seq ^ "." ^ ni ep ^ "." ^ hex_of_bytes d
      | EvLlrp (cid, tn, d) -> "l" ^ hex_of_bytes cid ^ "." ^ string_of_n tn ^ "." ^ hex_of_bytes d
      | EvSrc l -> "s" ^ string_of_int (List.length l) ^ "." ^ hex_of_bytes l in
    (try List.iter (fun dg ->
      let buf, n = mkbuf (int_of_n aCN_MAX_DATAGRAM) (bytes_of_hex dg) in
      match run buf (acn_handle ign n !hs) with
      | Hazard h -> t.hz <- hazard_s h; raise Exit
      | Done (hs', evs) ->
        let changed = (hs' <> !hs) in
        hs := hs';
        let evs = List.rev evs in
        ts := track_events !ts [] evs;
        let known = (match List.sort compare (List.map (fun s -> hex_of_bytes s.t_cid ^ "." ^ hex_of_bytes s.t_name ^ "." ^
                         (if s.t_unis = [] then "-" else String.concat "_" (List.map ni s.t_unis))) !ts) with
                     | [] -> "-" | l -> String.concat "," l) in
        t.cls <- (if List.exists (fun e -> match e with EvRdm133 _ -> true | _ -> false) evs then "e133"
                  else if List.exists (fun e -> match e with EvLlrp _ -> true | _ -> false) evs then "llrp"
                  else if List.exists (fun e -> match e with EvPage _ -> true | _ -> false) evs then "page"
                  else if List.exists (fun e -> match e with AcnEvData _ -> true | _ -> false) evs then "data"
                  else if evs <> [] then "dmp" else if changed then "state" else "drop") :: t.cls;
        let es = if evs = [] then "-" else String.concat "+" (List.map ev_s evs) in
        let src_s s = hex_of_bytes s.s_cid ^ "." ^ ni s.s_seq ^ "." ^ dbuf_s s.s_buf in
        let h_s h = "|u" ^ ni h.u_uni ^ ":" ^ dbuf_s h.u_buf ^ ":" ^ ni h.u_ap ^ ":" ^
                    String.concat "," (List.map src_s h.u_srcs) in
        t.steps <- ("e:" ^ es ^ String.concat "" (List.map h_s hs') ^ "|k:" ^ known) :: t.steps;
        trace_out t ("e:" ^ es ^ String.concat "" (List.map (fun h -> "|u" ^ ni h.u_uni ^ ":" ^ dbuf_s h.u_buf ^ ":" ^ ni h.u_ap) hs') ^ "|k:" ^ known))
      dgs with Exit -> ());
    trace_result t "acn"
  | _ -> "bad-args"
let () = register "acn" acn_op

(* dmpaddr <size> <type> <data>: DecodeAddress on exactly these bytes (capacity = their number) *)
let () = register "dmpaddr" (fun args ->
  match args with
  | [_; size; typ; data] ->
    let d = bytes_of_hex data in
    (match run d (decode_address (n_of_int (ios size)) (n_of_int (ios typ)) (n_of_int (List.length d))) with
     | Hazard h -> "hz=" ^ hazard_s h ^ ";twin=1;class=dmpaddr:hazard"
     | Done (a, len) ->
       let o = (match a with None -> "a:null" | Some ((s, i), n) -> "a:" ^ string_of_n s ^ "." ^ string_of_n i ^ "." ^ string_of_n n)
               ^ "|len:" ^ string_of_n len in
       "hz=none;twin=1;s0=" ^ o ^ ";o0=" ^ o ^ ";class=dmpaddr:" ^ (match a with None -> "null" | Some _ -> "decoded"))
  | _ -> "bad-args")

(* Art-Net: payload  artnet <net>,<subnet>,<out uni>,<in uni>,<buffer init>,<merge mode> <datagram>   (universe 16 = port disabled = address 256 in the model) ... *)
let artnet_op (args : string list) : string =
  match args with
  | _ :: spec :: dgs ->
    let st0 = match String.split_on_char ',' spec with
      | net :: sub :: ou :: iu :: b :: rest ->
        let ou2, b2 = (match rest with _ :: o2 :: b2 :: _ -> (ios o2, b2) | _ -> (16, "none")) in
        let net = ios net land 0x7f and sub = ios sub and ou = ios ou and iu = ios iu in
        { a_net = n_of_int net; a_oa = n_of_int (if ou >= 16 then 256 else ((sub lsl 4) lor (ou land 15)) land 255);
          a_ia = n_of_int (if iu >= 16 then 256 else ((sub lsl 4) lor (iu land 15)) land 255); a_buf = dbuf_of_s b; a_uids = [];
          a_sub = false; a_roc = true;
          a_ob = n_of_int (if ou2 >= 16 then 256 else ((sub lsl 4) lor (ou2 land 15)) land 255); a_buf2 = dbuf_of_s b2;
          a_from = n_of_int 2; a_ltp = (match rest with m :: _ -> m = "1" | [] -> false);
          a_s0 = (None, None); a_s1 = (None, None);
          a_pend = (match rest with _ :: _ :: _ :: _ :: p :: _ when p <> "-" ->
                      (match String.split_on_char ':' p with
                       | [cc; pid; sub; su; du] -> Some ((((bytes_of_hex su, bytes_of_hex du), n_of_int (ios pid)), n_of_int (ios sub)), n_of_int (ios cc))
                       | _ -> failwith "bad pending request")
                    | _ -> None) }
      | _ -> failwith "bad config" in
    let t = new_trace () in
    let st = ref st0 in
    let uid_s u = Printf.sprintf "%012x" (int_of_n u) in
    let ev_s e = match e with
      | EvTx -> "P" | EvData p -> "D" ^ string_of_int (int_of_n p) | EvDisc p -> "Q" ^ string_of_int (int_of_n p)
      | EvFlush p -> "F" ^ string_of_int (int_of_n p)
      | EvRdm (p, r) -> "R" ^ string_of_int (int_of_n p) ^ hex_of_bytes r
      | EvTod us -> "T" ^ String.concat "," (List.map uid_s us)
      | EvResp r -> "A0." ^ hex_of_bytes r in
    let ev_c e = match e with
      | EvTx -> "poll" | EvData _ -> "dmx" | EvDisc _ -> "discover" | EvFlush _ -> "flush" | EvRdm _ -> "rdm" | EvTod _ -> "tod" | EvResp _ -> "rdmresp" in
    (try List.iter (fun dg ->
      (* optional prefix s<k>. : the datagram comes from 10.0.0.(2+k) *)
      let from, dg = (if String.length dg > 2 && dg.[0] = 's' then
                        let i = String.index dg '.' in
                        (2 + ios (String.sub dg 1 (i - 1)), String.sub dg (i + 1) (String.length dg - i - 1))
                      else (2, dg)) in
      st := { !st with a_from = n_of_int from };
      let buf, n = mkbuf (int_of_n aN_PACKET_SIZE) (bytes_of_hex dg) in
      match run buf (artnet_handle n !st) with
      | Hazard h -> t.hz <- hazard_s h; raise Exit
      | Done (st', evs) ->
        let changed = (st' <> !st) in
        st := st';
        t.cls <- (match evs with [] -> if changed then "state" else "drop"
                                | [e] -> ev_c e | e :: _ -> ev_c e ^ "x" ^ string_of_int (List.length evs)) :: t.cls;
        (* the harness lists the callbacks first, then the packets sent *)
        let evs = List.filter (fun e -> e <> EvTx) evs @ List.filter (fun e -> e = EvTx) evs in
        let es = match evs with [] -> "-" | _ -> String.concat "+" (List.map ev_s evs) in
        t.steps <- (Printf.sprintf "e:%s|b:%s|c:%s|s:%s|r:%s" es (dbuf_s st'.a_buf) (dbuf_s st'.a_buf2) (bool01 st'.a_sub) (bool01 st'.a_roc)) :: t.steps;
        trace_out t (Printf.sprintf "e:%s|b:%s|c:%s" es (dbuf_s st'.a_buf) (dbuf_s st'.a_buf2)))
      dgs with Exit -> ());
    trace_result t "artnet"
  | _ -> "bad-args"
let () = register "artnet" artnet_op

(* ESP Net: payload  espnet <u:init,...|-> [@]<datagram> ...   ('@' = sent from our own address) *)
let espnet_op (args : string list) : string =
  match args with
  | _ :: spec :: dgs ->
    let st0 = if spec = "-" then [] else
      List.map (fun h -> match String.split_on_char ':' h with
                         | [u; i] -> (n_of_int (ios u), dbuf_of_s i) | _ -> failwith "bad handler")
               (String.split_on_char ',' spec) in
    let t = new_trace () in
    let st = ref st0 in
    (try List.iter (fun dg ->
      let self = String.length dg > 0 && dg.[0] = '@' in
      let dg = if self then String.sub dg 1 (String.length dg - 1) else dg in
      let buf, n = mkbuf (int_of_n eS_PACKET_SIZE) (bytes_of_hex dg) in
      match run buf (es_handle n self !st) with
      | Hazard h -> t.hz <- hazard_s h; raise Exit
      | Done ((st', hit), tx) ->
        st := st';
        let hs = match hit with None -> "-" | Some u -> Printf.sprintf "%dx1" (int_of_n u) in
        let txs = match tx with EsTxNone -> "-" | EsTxAck -> "ack" | EsTxReply -> "reply" in
        t.cls <- (match hit, tx with None, EsTxNone -> "drop" | None, _ -> "poll" | Some _, _ -> "data") :: t.cls;
        t.steps <- ("h:" ^ hs ^ String.concat "" (List.map (fun (u, b) -> Printf.sprintf "|%d:%s" (int_of_n u) (dbuf_s b)) st')
                    ^ "|tx:" ^ txs) :: t.steps)
      dgs with Exit -> ());
    trace_result t "espnet"
  | _ -> "bad-args"
let () = register "espnet" espnet_op

(* SandNet: payload  sandnet <g.u:init,...|-> [@][!]<datagram> ...   ('@' = from our own address, '!' = control socket) *)
let sandnet_op (args : string list) : string =
  match args with
  | _ :: spec :: dgs ->
    let st0 = if spec = "-" then [] else
      List.map (fun h -> match String.split_on_char ':' h with
                         | [k; i] -> (match String.split_on_char '.' k with
                                      | [g; u] -> ((n_of_int (ios g), n_of_int (ios u)), dbuf_of_s i)
                                      | _ -> failwith "bad key")
                         | _ -> failwith "bad handler")
               (String.split_on_char ',' spec) in
    let t = new_trace () in
    let st = ref st0 in
    let strip c s = if String.length s > 0 && s.[0] = c then (true, String.sub s 1 (String.length s - 1)) else (false, s) in
    (try List.iter (fun dg ->
      let self, dg = strip '@' dg in
      let _, dg = strip '!' dg in
      let buf, n = mkbuf (int_of_n sA_PACKET_SIZE) (bytes_of_hex dg) in
      match run buf (sa_handle n self !st) with
      | Hazard h -> t.hz <- hazard_s h; raise Exit
      | Done (st', hit) ->
        let changed = st' <> !st in
        st := st';
        let hs = match hit with None -> "-" | Some (g, u) -> Printf.sprintf "%d.%dx1" (int_of_n g) (int_of_n u) in
        t.cls <- (match hit with None -> if changed then "partial" else "drop" | Some _ -> "handled") :: t.cls;
        t.steps <- ("h:" ^ hs ^ String.concat "" (List.map (fun ((g, u), b) ->
                      Printf.sprintf "|%d.%d:%s" (int_of_n g) (int_of_n u) (dbuf_s b)) st')) :: t.steps)
      dgs with Exit -> ());
    trace_result t "sandnet"
  | _ -> "bad-args"
let () = register "sandnet" sandnet_op

(* Pathport: payload  pathport <device_id>/<from_self>/<u:init,...|-> <datagram> ... *)
let pathport_op (args : string list) : string =
  match args with
  | _ :: cfg :: dgs ->
    let dev, self_, spec = match String.split_on_char '/' cfg with
      | [d; s; h] -> (n_of_string d, s = "1", h) | _ -> failwith "bad config" in
    let hs0 = if spec = "-" then [] else
      List.map (fun h -> match String.split_on_char ':' h with
                         | [u; i] -> (n_of_int (ios u), dbuf_of_s i) | _ -> failwith "bad handler")
               (String.split_on_char ',' spec) in
    let t = new_trace () in
    let hs = ref hs0 in
    (try List.iter (fun dg ->
      let buf, n = mkbuf (int_of_n pP_PACKET_SIZE) (bytes_of_hex dg) in
      let st = { pp_dev = dev; pp_self = self_; pp_ip = List.map n_of_int [10; 0; 0; 1]; pp_seq = n_of_int 1; pp_hs = !hs } in
      match run buf (pathport_handle n st) with
      | Hazard h -> t.hz <- hazard_s h; raise Exit
      | Done ((hs', hits), sent) ->
        hs := hs';
        let hit_s = List.filter_map (fun (u, _) -> if List.mem u hits then Some (Printf.sprintf "%dx1" (int_of_n u)) else None) hs' in
        let k = List.length hits in
        t.cls <- (match sent with Some _ -> "arpreq" | None -> if k > 0 then Printf.sprintf "dmx%d" k else "drop") :: t.cls;
        t.steps <- ("h:" ^ (if hit_s = [] then "-" else String.concat "+" hit_s)
                    ^ String.concat "" (List.map (fun (u, b) -> Printf.sprintf "|%d:%s" (int_of_n u) (dbuf_s b)) hs')
                    ^ "|tx:" ^ (match sent with None -> "-" | Some p -> hex_of_bytes p)
                    ^ Printf.sprintf "|seq:1|n:%d" (List.length hs')) :: t.steps)
      dgs with Exit -> ());
    trace_result t "pathport"
  | _ -> "bad-args"
let () = register "pathport" pathport_op

(* KiNET: payload  kinet <initial transaction number> <datagram> ... *)
let kinet_op (args : string list) : string =
  match args with
  | _ :: txn :: dgs ->
    let t = new_trace () in
    let st = ref { kn_txn = n_of_string txn; kn_queued = n_of_int 0 } in
    (try List.iter (fun dg ->
      let cap = int_of_n kN_PACKET_SIZE in
      let buf, n = mkbuf cap (bytes_of_hex dg) in
      match run buf (kinet_handle n !st) with
      | Hazard h -> t.hz <- hazard_s h; raise Exit
      | Done (st', sent) ->
        st := st';
        t.cls <- (if int_of_n n = cap then "full" else if int_of_n n = 0 then "empty" else "discard") :: t.cls;
        t.steps <- (Printf.sprintf "rx:1|cap:%d|n:%d|tx:%s|txn:%s|q:%d" cap (int_of_n n)
                      (if sent = [] then "-" else String.concat "+" (List.map hex_of_bytes sent))
                      (string_of_n st'.kn_txn) (int_of_n st'.kn_queued)) :: t.steps)
      dgs with Exit -> ());
    trace_result t "kinet"
  | _ -> "bad-args"
let () = register "kinet" kinet_op

let handle (p : string) : string =
  match split p with
  | op :: _ as args -> (match Hashtbl.find_opt ops op with Some f -> f args | None -> "bad-op")
  | [] -> "bad-op"
let () = vh_run handle
