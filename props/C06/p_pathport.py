"""C06 / Pathport part: sources, constants, generator."""
import os
NAME = 'pathport'
CXX_SOURCES = ['plugins/pathport/PathportNode.cpp']
HARNESS = 'h_pathport.cpp'
COQ_FILES = ['GenPathport.v', 'Pathport.v']
EXTRACT = ['pathport_handle', 'PP_PACKET_SIZE']
RULE = ('Pathport: valid xDMX data packets (start offsets 0/1/511/512/513/.../127*512+511, 1-1468 slots, spanning up to '
        '4 universes), ARP request/reply and other pdu types x mutation of protocol/version/destination, pdu type, xdmx '
        'type, start code, offset and channel_count (-1/0/+1 around the received data length, 512-offset, 0, 0xffff) x '
        'every truncation length around the 20/24/32-byte headers and the end of the data x 1499/1500/1501/1600-byte '
        'datagrams x random bytes behind a valid header; 0-2 earlier datagrams; handlers on 0-5 consecutive universes '
        'around the addressed one (incl. 126-129) with unallocated/short/full buffers; own-source datagrams')
TRUSTED = ['modelled rather than verified: PathportNode::SocketReady/ValidateHeader/HandleDmxData/SendArpReply (first pdu '
           'only, as the code), DmxBuffer::SetRange']

HDR, PDU, DAT = 20, 4, 8
DEV = 0x12345678
DESTS = [DEV, 0xffffffff, 0xefffedff, 0xefffed02, 0xefffed01]


def gen_consts(v):
    pp = 'ola::plugin::pathport::'
    nd = pp + 'PathportNode::'
    ents = [
        ('PP_PACKET_SIZE', 'sizeof(%spathport_packet_s)' % pp),
        ('PP_HEADER_SIZE', 'sizeof(%spathport_packet_header)' % pp),
        ('PP_PDU_HEADER_SIZE', 'sizeof(%spathport_pdu_header)' % pp),
        ('PP_PDU_DATA_SIZE', 'sizeof(%spathport_pdu_data)' % pp),
        ('PP_ARP_REPLY_SIZE', 'sizeof(%spathport_pdu_arp_reply)' % pp),
        ('PP_OFF_protocol', 'offsetof(%spathport_packet_header, protocol)' % pp),
        ('PP_OFF_version_major', 'offsetof(%spathport_packet_header, version_major)' % pp),
        ('PP_OFF_version_minor', 'offsetof(%spathport_packet_header, version_minor)' % pp),
        ('PP_OFF_destination', 'offsetof(%spathport_packet_header, destination)' % pp),
        ('PP_OFF_pdu', 'offsetof(%spathport_packet_s, d)' % pp),
        ('PP_OFF_pdu_type', 'offsetof(%spathport_pdu_header, type)' % pp),
        ('PP_OFF_pdu_d', 'offsetof(%spathport_packet_pdu, d)' % pp),
        ('PP_OFF_d_type', 'offsetof(%spathport_pdu_data, type)' % pp),
        ('PP_OFF_d_channel_count', 'offsetof(%spathport_pdu_data, channel_count)' % pp),
        ('PP_OFF_d_start_code', 'offsetof(%spathport_pdu_data, start_code)' % pp),
        ('PP_OFF_d_offset', 'offsetof(%spathport_pdu_data, offset)' % pp),
        ('PP_OFF_d_data', 'offsetof(%spathport_pdu_data, data)' % pp),
        ('PP_MAX_UNIVERSES', nd + 'MAX_UNIVERSES'),
        ('PP_PROTOCOL', nd + 'PATHPORT_PROTOCOL'),
        ('PP_MAJOR_VERSION', nd + 'MAJOR_VERSION'),
        ('PP_MINOR_VERSION', nd + 'MINOR_VERSION'),
        ('PP_ID_BROADCAST', nd + 'PATHPORT_ID_BROADCAST'),
        ('PP_STATUS_GROUP', nd + 'PATHPORT_STATUS_GROUP'),
        ('PP_CONFIG_GROUP', nd + 'PATHPORT_CONFIG_GROUP'),
        ('PP_DATA_GROUP', nd + 'PATHPORT_DATA_GROUP'),
        ('PP_DATA', pp + 'PATHPORT_DATA'),
        ('PP_ARP_REQUEST', pp + 'PATHPORT_ARP_REQUEST'),
        ('PP_ARP_REPLY', pp + 'PATHPORT_ARP_REPLY'),
        ('PP_XDMX_DATA_FLAT', nd + 'XDMX_DATA_FLAT'),
        ('PP_NODE_MANUF_ZP_TECH', nd + 'NODE_MANUF_ZP_TECH'),
        ('PP_NODE_CLASS_DMX_NODE', nd + 'NODE_CLASS_DMX_NODE'),
        ('PP_NODE_DEVICE_PATHPORT', nd + 'NODE_DEVICE_PATHPORT'),
    ]
    return v.gen_consts_cpp('C06/pathport', ['ola/Constants.h', 'plugins/pathport/PathportNode.h'], ents,
                            os.path.join(v.VERIF, 'props', 'C06', 'coq', 'GenPathport.v'))


def hx(bs):
    return ''.join('%02x' % (b & 255) for b in bs) if bs else '-'


def be16(x):
    return [(x >> 8) & 255, x & 255]


def be32(x):
    return be16(x >> 16) + be16(x)


def packet(rng, proto=0xed01, maj=2, mnr=0, dest=None, ptype=0x0100, dtype=0x0101, count=None, sc=0, off=0, data=(),
           plen=None):
    if dest is None:
        dest = rng.choice(DESTS)
    if count is None:
        count = len(data)
    p = be16(proto) + [maj, mnr] + be16(rng.randrange(65536)) + [0] * 6 + be32(rng.randrange(1 << 32)) + be32(dest)
    p += be16(ptype) + be16(plen if plen is not None else (len(data) + DAT) & 0xffff)
    p += be16(dtype) + be16(count & 0xffff) + [rng.choice([0, 0, 7]), sc] + be16(off & 0xffff) + list(data)
    return p


def arp(rng, ptype=0x0301, extra=0):
    p = be16(0xed01) + [2, 0] + be16(rng.randrange(65536)) + [0] * 6 + be32(rng.randrange(1 << 32)) + be32(rng.choice(DESTS))
    return p + be16(ptype) + be16(extra) + [rng.randrange(256) for _ in range(extra)]


def frame(rng, n=None):
    if n is None:
        n = rng.choice([1, 2, 3, 4, 5, 24, 100, 511, 512, 513, 600, 1023, 1024, 1025, 1467, 1468])
    return [rng.randrange(1, 256) for _ in range(n)]


def handlers(rng, uni):
    """handlers on consecutive universes around `uni` (map key is uint8_t: distinct keys only)"""
    k = rng.choice([0, 1, 2, 3, 3, 4, 5])
    first = uni + rng.choice([-1, 0, 0, 0, 1])
    us = sorted({u for u in range(first, first + k) if 0 <= u <= 255})
    if rng.random() < 0.1:
        us = sorted(set(us) | {rng.choice([0, 127, 128, 255])})
    if not us:
        return '-'
    def init():
        c = rng.choice(['none', 'none', 'short', 'full'])
        if c == 'none':
            return 'none'
        n = 512 if c == 'full' else rng.choice([1, 5, 100, 511])
        return hx([rng.randrange(1, 256) for _ in range(n)])
    return ','.join('%d:%s' % (u, init()) for u in us)


UNIS = [0, 0, 1, 2, 63, 125, 126, 127, 127]
STARTS = [0, 0, 0, 1, 100, 510, 511]


def valid(rng):
    return dict(off=rng.choice(UNIS) * 512 + rng.choice(STARTS), data=frame(rng))


def mutants(rng, quick):
    """yield (class, datagram bytes, universe addressed)"""
    v = valid(rng)
    uni, start, dl = v['off'] // 512, v['off'] % 512, len(v['data'])
    base = packet(rng, **v)
    yield 'valid', base, uni
    for c in (0, 1, dl - 1, dl, dl + 1, 512 - start - 1, 512 - start, 512 - start + 1, 1024 - start, 1024 - start + 1,
              1468, 1469, 0x7fff, 0x8000, 0xffff):
        yield 'count', packet(rng, **dict(v, count=c)), uni
    for o in (0, 1, 511, 512, 513, 1023, 1024, 126 * 512 + 511, 127 * 512 - 1, 127 * 512, 127 * 512 + 1, 127 * 512 + 511,
              0xfffe, 0xffff, 128 * 512 - 2):
        yield 'offset', packet(rng, **dict(v, off=o)), (o & 0xffff) // 512
    for d in (0, DEV - 1, DEV + 1, 0xefffed00, 0xefffed03, 0xfffffffe, 0x78563412):
        yield 'dest', packet(rng, **dict(v, dest=d)), uni
    for d in DESTS:
        yield 'destok', packet(rng, **dict(v, dest=d)), uni
    for kw in (dict(proto=0xed00), dict(proto=0x01ed), dict(proto=0xed02), dict(maj=1), dict(maj=3), dict(mnr=1), dict(mnr=255)):
        yield 'hdr', packet(rng, **dict(v, **kw)), uni
    for t in (0, 0x00ff, 0x0001, 0x0101, 0x0200, 0x0210, 0x0222, 0x0223, 0x0300, 0x0301, 0x0302, 0x0303, 0x0400, 0x0103, 0xffff):
        yield 'ptype', packet(rng, **dict(v, ptype=t)), uni
    for t in (0, 0x0100, 0x0102, 0x0103, 0x0001, 0x0201):
        yield 'dtype', packet(rng, **dict(v, dtype=t)), uni
    for s in (1, 0x80, 0xff):
        yield 'startcode', packet(rng, **dict(v, sc=s)), uni
    for pl in (0, 1, 0xffff):     # the pdu len field is never read
        yield 'plen', packet(rng, **dict(v, plen=pl)), uni
    # ARP
    for e in (0, 0, 12, 100):
        yield 'arpreq', arp(rng, 0x0301, e), uni
    yield 'arprep', arp(rng, 0x0302, 12), uni
    a = arp(rng, 0x0301, 0)
    for c in range(18, len(a) + 1):
        yield 'arptrunc', a[:c], uni
    # truncations
    cuts = set(range(0, 40)) | {len(base) - k for k in range(0, 4)} | {32 + 512 - start + k for k in (-1, 0, 1)}
    if quick:
        cuts |= {rng.randrange(len(base) + 1) for _ in range(4)}
    else:
        cuts |= set(range(0, len(base) + 1))
    for c in sorted(x for x in cuts if 0 <= x <= len(base)):
        yield 'trunc', base[:c], uni
    # claims beyond the datagram (the stale-data region)
    for extra in (1, 2, 50, 512, 1468 - dl if dl < 1468 else 3):
        yield 'claim+%d' % extra, packet(rng, **dict(v, count=dl + extra)), uni
    # maximum-size / oversize datagrams
    for ln in (1499, 1500, 1501, 1600):
        for (cnt, st) in ((1468, 0), (1469, 0), (1467, 1), (1468, 511), (0xffff, 0), (0xffff, 511), (1500, 100)):
            u = rng.choice([0, 1, 124, 125, 126, 127])
            p = packet(rng, off=u * 512 + st, count=cnt, data=frame(rng, 1468))[:ln]
            p += [rng.randrange(256) for _ in range(ln - len(p))]
            yield 'max%d' % ln, p, u


def payload(rng, uni, pre, dg, self_=None):
    if self_ is None:
        self_ = 1 if rng.random() < 0.03 else 0
    return 'pathport %d/%d/%s %s' % (DEV, self_, handlers(rng, uni), ' '.join(pre + [hx(dg)]))


def gen_cases(rng, tier):
    quick = tier == 'quick'
    for _ in range(4 if quick else 120):
        for cls, dg, uni in mutants(rng, quick):
            pre = []
            for _k in range(rng.choice([0, 0, 1, 2])):
                r = rng.random()
                if r < 0.7:
                    pre.append(hx(packet(rng, off=max(0, uni + rng.choice([-1, 0, 0, 1])) * 512 + rng.choice(STARTS),
                                         data=frame(rng))))
                elif r < 0.8:
                    pre.append(hx(arp(rng)))
                else:
                    pre.append(hx([rng.randrange(256) for _ in range(rng.choice([3, 31, 32, 1500, 1600]))]))
            yield payload(rng, uni, pre, dg)
    for _ in range(300 if quick else 20000):
        n = rng.choice([0, 1, 19, 20, 21, 23, 24, 25, 31, 32, 33, 60, 544, 1500, 1600, rng.randrange(1, 1500)])
        bs = [rng.randrange(256) for _ in range(n)]
        if rng.random() < 0.85:
            fix = be16(0xed01) + [2, 0]
            bs[0:4] = fix[:min(4, n)]
            if n >= 20:
                bs[16:20] = be32(rng.choice(DESTS))
            if n >= 22 and rng.random() < 0.8:
                bs[20:22] = be16(rng.choice([0x0100, 0x0100, 0x0100, 0x0301, 0x0302]))
            if n >= 26 and rng.random() < 0.8:
                bs[24:26] = be16(0x0101)
            if n >= 30 and rng.random() < 0.7:
                bs[29] = 0
        uni = ((bs[30] << 8 | bs[31]) // 512) if n >= 32 else 0
        yield payload(rng, uni, [], bs)


def nontrivial(payload, md):
    return any(v.startswith('h:') and (not v.startswith('h:-') or '|tx:-|' not in v)
               for k, v in md.items() if k.startswith('s'))
