"""C06 — received datagrams are handled within bounds and without stale-data influence.
The check is assembled from per-protocol parts found next to this file:
  p_<proto>.py   sources, regenerated constants, case generator (see p_shownet.py)
  h_<proto>.cpp  harness part (registers its op with c06::Reg)
  d_<proto>.ml   model-driver part (registers its op with `register`)
  coq/<files>    model + proofs, coq/props_<proto>.v the protocol's theorems for Properties.v
`assemble()` (run from gen_consts, i.e. at the start of every check) regenerates the derived files
coq/_CoqProject, coq/Extract.v, coq/Properties.v and driver.ml from the parts; they are rewritten only
when their content changes."""
import glob
import importlib.util
import os

ID = 'C06'
HERE = os.path.dirname(os.path.abspath(__file__))
ORDER = ['shownet', 'acn', 'artnet', 'espnet', 'sandnet', 'pathport', 'kinet']


def _parts():
    out = []
    for f in glob.glob(os.path.join(HERE, 'p_*.py')):
        spec = importlib.util.spec_from_file_location('c06_' + os.path.basename(f)[:-3], f)
        m = importlib.util.module_from_spec(spec)
        spec.loader.exec_module(m)
        out.append(m)
    out.sort(key=lambda m: (ORDER.index(m.NAME) if m.NAME in ORDER else 99, m.NAME))
    only = os.environ.get('C06_ONLY')
    if only:
        out = [m for m in out if m.NAME in only.split(',')]
    return out


PARTS = _parts()
GROUPS = ['common'] + sorted({g for m in PARTS for g in getattr(m, 'GROUPS', [])})
CXX_SOURCES = []
for _m in PARTS:
    for _s in _m.CXX_SOURCES:
        if _s not in CXX_SOURCES:
            CXX_SOURCES.append(_s)
HARNESS_SOURCES = ['harness.cpp'] + [m.HARNESS for m in PARTS]
CXXFLAGS = sorted({f for m in PARTS for f in getattr(m, 'CXXFLAGS', [])})
WRAP = ['sendto', 'recvfrom'] + sorted({w for m in PARTS for w in getattr(m, 'WRAP', [])})
LIBS = sorted({l for m in PARTS for l in getattr(m, 'LIBS', [])})
COQ_TIMEOUT = 1200
# o<k>: the node's outputs after datagram k (events, handler DMX data, active priority); s<k> also carries internals
SPEC_KEYS = ['hz', 'twin'] + ['o%d' % i for i in range(320)]
INTERNAL_KEYS = []


def _write(path, text):
    old = open(path).read() if os.path.exists(path) else None
    if old != text:
        with open(path, 'w') as f:
            f.write(text)


def assemble():
    coq = os.path.join(HERE, 'coq')
    files = ['Gen.v', 'Prog.v', 'Dmx.v']
    for m in PARTS:
        files += [f for f in m.COQ_FILES if f not in files]
    _write(os.path.join(coq, '_CoqProject'),
           '-Q ../../../coq/Base OlaBase\n-Q . C06\n' + '\n'.join(files + ['Properties.v', 'Extract.v']) + '\n')
    mods = ' '.join(f[:-2] for f in files)
    names = ['io_witness', 'N.div_eucl', 'run']
    for m in PARTS:
        names += [n for n in m.EXTRACT if n not in names]
    _write(os.path.join(coq, 'Extract.v'),
           '(* ASSEMBLED by prop.py from the p_<proto>.py parts. *)\n'
           'From Coq Require Extraction.\nFrom Coq Require Import ExtrOcamlBasic.\n'
           'From OlaBase Require Import Bytes.\nFrom C06 Require Import %s.\nExtraction Language OCaml.\n'
           'Extraction "model.ml" %s.\n' % (mods, ' '.join(names)))
    props = ['(* C06 - received datagrams are handled within bounds and without stale-data influence.\n'
             '   ASSEMBLED by prop.py from coq/props_<proto>.v (edit those).  Only theorem statements here.\n'
             '   A handler is a program over the receive buffer (Prog.v): `run buf p` executes it with plain memory\n'
             '   semantics - a read below the capacity `len buf` returns the byte that is there (datagram or stale),\n'
             '   a read at or beyond the capacity is the hazard Oob; loops run on fuel (hazard OutOfFuel);\n'
             '   a division by zero is the hazard Div0.  buf = datagram ++ stale tail, n = received length. *)\n'
             'From OlaBase Require Import Bytes.\nFrom C06 Require Import %s.\nLocal Open Scope N_scope.\n' % mods]
    for m in PARTS:
        props.append(open(os.path.join(coq, 'props_%s.v' % m.NAME)).read())
    _write(os.path.join(coq, 'Properties.v'), '\n'.join(props))
    drv = [open(os.path.join(HERE, 'd_00_common.ml')).read()]
    drv += [open(os.path.join(HERE, 'd_%s.ml' % m.NAME)).read() for m in PARTS]
    drv.append(open(os.path.join(HERE, 'd_zz_main.ml')).read())
    _write(os.path.join(HERE, 'driver.ml'), '\n'.join(drv))


def gen_consts(v):
    assemble()
    err = v.gen_consts_cpp(ID, ['ola/Constants.h', 'ola/dmx/RunLengthEncoder.h'],
                           [('DMX_UNIVERSE_SIZE', 'ola::DMX_UNIVERSE_SIZE'),
                            ('REPEAT_FLAG', 'ola::dmx::RunLengthEncoder::REPEAT_FLAG')],
                           os.path.join(HERE, 'coq', 'Gen.v'))
    for m in PARTS:
        err = err or m.gen_consts(v)
    return err


CAPS = {'shownet': 1316, 'acn': 1472, 'artnet': 1228, 'espnet': 521, 'sandnet': 524, 'pathport': 1500, 'kinet': 1500}


def gen_cases(rng, tier):
    quick = tier == 'quick'
    pool = {}
    for m in PARTS:
        seen = 0
        for c in m.gen_cases(rng, tier):
            yield c
            # reservoir of cases whose last datagram is a real packet, to be re-sent oversized
            last = c.rsplit(' ', 1)[-1]
            if len(last) >= 60:
                seen += 1
                r = pool.setdefault(m.NAME, [])
                if len(r) < (6 if quick else 60):
                    r.append(c)
                elif rng.randrange(seen) < len(r):
                    r[rng.randrange(len(r))] = c
    # datagrams LARGER than the receive buffer (the fourth instance sends them through the kernel and the real
    # UDPSocket::RecvFrom): capacity+1, capacity+200, 64 KB - 29; valid packet in front, random bytes behind
    for name in sorted(pool):
        cap = CAPS.get(name)
        if not cap:
            continue
        for c in pool[name]:
            head, last = c.rsplit(' ', 1)
            pre = last[:len(last) - len(last.lstrip('@!'))]
            body = last[len(pre):]
            for total in (cap + 1, cap + 200, 65507):
                extra = total - len(body) // 2
                if extra <= 0:
                    continue
                pad = ''.join('%02x' % rng.randrange(256) for _ in range(extra))
                big = '%s %s%s%s' % (head, pre, body, pad)
                ok = [getattr(m, 'predictable', None) for m in PARTS if m.NAME == name][0]
                if ok is None or ok(big):
                    yield big
    # the socket layer's contract itself
    for cap in sorted(set(CAPS.values())) + [1, 100]:
        yield 'sockrx %d %s' % (cap, ' '.join(str(x) for x in (0, 1, cap - 1, cap, cap + 1, cap + 200, 65507)))


def nontrivial(payload, md):
    op = payload.split(' ', 1)[0]
    for m in PARTS:
        if m.NAME == op or op in getattr(m, 'OPS', []):
            return m.nontrivial(payload, md)
    return False


RULE = ('every datagram is delivered to twin real node objects whose receive buffers are pre-filled with 0x00 / 0xA5 '
        'to a third instance whose receive buffer still holds the previous datagrams of the case, to a fourth instance that receives the datagram through the kernel over real loopback UDP sockets (all via the link-time recvfrom wrapper; oversized datagrams included) and to the extracted model; compared after every datagram. '
        + ' || '.join(m.RULE for m in PARTS) +
        '; non-trivial = at least one datagram of the case was accepted and changed handler state/output; '
        'distinct = distinct model output line')
ASSUMPTIONS = ['received length <= capacity of the receive buffer: the hypothesis n <= CAP of every theorem is what the socket '
               'layer (ola::network::UDPSocket::RecvFrom over recvfrom) guarantees; validated by the sockrx cases and by '
               'the fourth (kernel) instance receiving oversized datagrams over real loopback sockets',
               'little-endian x86-64 host', 'operator new does not fail',
               'one datagram is handled to completion before the next (single-threaded SelectServer)']
TRUSTED = [t for m in PARTS for t in m.TRUSTED] + [
    'dispatch inventory (every packet type the receive paths switch on): Art-Net HandlePacket cases Poll, PollReply, Dmx, '
    'TodRequest, TodData, TodControl, Rdm, IpProgram (size/version check then ignored), Sync/RdmSub/TimeCode/default (ignored; '
    'OpAddress/OpInput are not cases of the switch): all in the proved model, including the ArtRdm RESPONSE path for an input port '
    'with a pending RDM request (HandleRDMResponse / RDMReply::FromFrame / RDMResponse::InflateFromData; the harness re-queues the '
    'request from the completion callback; an RDM timeout and ACK_OVERFLOW continuation are not driven).  E1.31: root vectors E131 / E131_REV2 proved; RPT(E1.33) / LLRP + RDM inflators proved but added to the root '
    'by the harness only (olad does not register them); framing vectors DATA and DISCOVERY proved, anything else (incl. SYNC) is '
    'not handled by the code; DMP vector SET_PROPERTY proved.  ShowNet: COMPRESSED_DMX modelled as-is, DMX_PACKET (0x202f) ignored '
    'by the code.  SandNet: DMX, COMPRESSED_DMX proved, ADVERTISEMENT/default ignored by the code.  ESP Net: POLL, REPLY, DMX '
    '(RAW/RLE; PAIRS ignored), ACK proved; the bytes of the reply/ack packets are compared with a reference node, not modelled.  '
    'Pathport: first PDU only (as the code): DATA (XDMX_DATA_FLAT) proved, ARP_REQUEST proved incl. reply bytes, ARP_REPLY/default '
    'ignored.  KiNET: receive and discard (no dispatch).',
    'typed by hand (cannot be named from outside the function / are literals in the C++ as well): E131DiscoveryInflator page_header '
    'size 2 and its field offsets 0/1, DecodeLength sizes 2/3, RLE masks 127 = 255 - REPEAT_FLAG, Art-Net port-type bit 0x80; KiNET '
    'buffer size is regenerated from the source text of SocketReady and cross-checked against the capacity offered to RecvFrom']
_PROVED = [m.NAME for m in PARTS if getattr(m, 'PROVED', True) and m.NAME != 'shownet']
_ALL = ['shownet', 'acn', 'artnet', 'espnet', 'sandnet', 'pathport', 'kinet']
_MISSING = [x for x in _ALL if x not in [m.NAME for m in PARTS]]
LEVEL_TEXT = ('Each receive handler is modelled in Coq as a program of explicit reads over the receive buffer (datagram ++ '
              'arbitrary stale tail, capacity from regenerated sizeof/offsetof); for every datagram, every received '
              'length <= capacity and every prior handler state it is proved that the handler never reads at or beyond '
              'the received length (hence never out of bounds and never influenced by stale bytes), never runs out of '
              'fuel and never divides by zero, for: ' + ', '.join(_PROVED) + '.  PARTIAL: ShowNet is modelled as the '
              'code is (sizeof-of-a-pointer bound, known finding C06-shownet-sizeof-pointer): no-Oob and stale-freedom '
              'are refuted by witnesses and proved for datagrams on which the handler reads nothing at or beyond the '
              'received length (sn_within), in particular for every datagram satisfying the syntactic guard sn_syn '
              '(dropped before an unreceived field is read, or the whole claimed block was received; proved to imply '
              'sn_within, and sn_within proved to imply its header part); termination / no division by zero hold for '
              'all; the handler with the proposed fix is proved for all datagrams and proved to agree with the code as it is '
              'inside the guard.  HISTORY level: for every protocol, any sequence of datagrams with arbitrary stale tails '
              'from any initial state ends in no hazard and gives outputs and final state independent of the tails '
              '(ShowNet: under the state-independent guard sn_all).  CAPACITY-INDEPENDENT: for a buffer of any size and any '
              'reported length < 2^31 every handler returns and does not divide by zero, and reads nothing at or beyond n '
              'when the buffer holds n bytes; loop-level termination theorems state the measures.  All regenerated '
              'constants are pinned by c06_<proto>_consts.  The ACN model also covers the '
              'E1.33 (RPT) / LLRP / RDM inflators\' header decoders, which olad does not register.  ' +
              ('NOT covered at all: ' + ', '.join(_MISSING) + '.  ' if _MISSING else '') +
              'What plugins do with accepted data afterwards (merging, RDM processing) is outside this property\'s models.')
LEVEL_NOTE = ('Trusted: Coq kernel, extraction (ExtrOcamlBasic), OCaml/C++ glue incl. the link-time recvfrom/sendto '
              'interposers and poison-filling mock sockets; model = code (in particular: that the Read nodes are exactly '
              'the reads the C++ performs) is validated by differential testing on real node objects under ASan/UBSan '
              'with three instances per case: receive buffers pre-filled with 0x00, with 0xA5, and a persistent buffer that '
              'still holds the earlier datagrams of the case (Art-Net and KiNET use their own poison-filling socket; KiNET '
              'has no third instance), not proved; a stale read whose effect is the same for all three is invisible; '
              'received length <= capacity (n <= CAP in every theorem) is what UDPSocket::RecvFrom guarantees; it is not proved but '
              'validated: a fourth instance per case receives the datagram through the kernel (real loopback UDP socket pair, '
              'real recvfrom with the caller\'s buffer, length and flags) and the real UDPSocket::RecvFrom, including datagrams of '
              'capacity+1, capacity+200 and 65507 bytes, and the sockrx cases test the contract directly.')
TECHNIQUE = 'Coq proof on hand-written executable model + extracted-model/implementation differential correspondence'
DESIGN_REF = 'DESIGN.md §4 C06'
