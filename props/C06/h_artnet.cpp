// C06 / Art-Net: twin (+1) real ArtNetNodeImpl objects on a poison-filling UDPSocketInterface, datagrams delivered
// through the node's real SocketReady().
// payload: artnet <net>,<subnet>,<out universe>,<in universe>,<dmx buffer init>,<0 HTP|1 LTP>,<out universe port 1>,<dmx buffer 1 init> <datagram hex> [<datagram hex> ...]
#include <string.h>
#include <memory>
#include <string>
#include <vector>
#include <map>
#include <sstream>
#include <iostream>
#include <queue>
#include <deque>
#include <list>
#include <set>
#include <algorithm>
#include "ola/Callback.h"
#include "ola/io/SelectServer.h"
#include "ola/network/Socket.h"
#include "ola/network/SocketAddress.h"
#include "ola/rdm/RDMCommand.h"
#include "ola/rdm/RDMReply.h"
#include "ola/rdm/RDMControllerInterface.h"
#include "ola/rdm/UID.h"
#include "ola/rdm/UIDSet.h"
#define private public
#define protected public
#include "plugins/artnet/ArtNetNode.h"
#undef private
#undef protected
#include "h_common.h"

using ola::DmxBuffer;
using ola::network::IPV4Address;
using ola::network::IPV4SocketAddress;
using ola::plugin::artnet::ArtNetNodeImpl;
using ola::plugin::artnet::ArtNetNodeOptions;
using ola::rdm::RDMRequest;
using ola::rdm::RDMCallback;
using ola::rdm::UID;
using ola::rdm::UIDSet;
using std::string;
using std::vector;

namespace {
// RecvFrom fills the WHOLE destination buffer with the poison byte, then copies the armed datagram.
class PoisonSocket: public ola::network::UDPSocketInterface {
 public:
  PoisonSocket() : armed(false), poison(0), overlay_prev(false), kernel(false), real(NULL), src_octet(2) {}
  ~PoisonSocket() { delete real; }
  bool Init() { return true; }
  bool Bind(const IPV4SocketAddress &) { return true; }
  bool GetSocketAddress(IPV4SocketAddress *) const { return false; }
  bool Close() { return true; }
  ola::io::DescriptorHandle ReadDescriptor() const { return ola::io::INVALID_DESCRIPTOR; }
  ola::io::DescriptorHandle WriteDescriptor() const { return ola::io::INVALID_DESCRIPTOR; }
  ssize_t SendTo(const uint8_t *buffer, unsigned int size, const IPV4Address &, unsigned short) const {
    sent.push_back(vector<uint8_t>(buffer, buffer + size));
    return size;
  }
  ssize_t SendTo(const uint8_t *buffer, unsigned int size, const IPV4SocketAddress &) const {
    sent.push_back(vector<uint8_t>(buffer, buffer + size));
    return size;
  }
  ssize_t SendTo(ola::io::IOVecInterface *, const IPV4Address &, unsigned short) const { return 0; }
  ssize_t SendTo(ola::io::IOVecInterface *, const IPV4SocketAddress &) const { return 0; }
  bool RecvFrom(uint8_t *, ssize_t *) const { return false; }
  bool RecvFrom(uint8_t *, ssize_t *, IPV4Address &) const { return false; }  // NOLINT
  bool RecvFrom(uint8_t *, ssize_t *, IPV4Address &, uint16_t &) const { return false; }  // NOLINT
  bool RecvFrom(uint8_t *buffer, ssize_t *data_read, IPV4SocketAddress *source) {
    if (!armed) return false;
    armed = false;
    if (kernel) {
      // fourth instance: through the real ola::network::UDPSocket::RecvFrom and the kernel (loopback datagram)
      if (!real) { real = new ola::network::UDPSocket(); real->Init(); }
      c06::set_rx(dgram);
      bool ok;
      { c06::KernelMode km; ok = real->RecvFrom(buffer, data_read, source); }
      IPV4Address ksrc;
      IPV4Address::FromString("10.0.0." + vh::str(src_octet), &ksrc);
      *source = IPV4SocketAddress(ksrc, 6454);
      return ok;
    }
    size_t cap = static_cast<size_t>(*data_read);
    memset(buffer, poison, cap);
    // third twin: the stale bytes are what the previous datagram left in the buffer
    if (overlay_prev && !prev.empty()) memcpy(buffer, prev.data(), std::min(cap, prev.size()));
    prev = dgram;
    size_t n = std::min(cap, dgram.size());
    if (n) memcpy(buffer, dgram.data(), n);
    *data_read = static_cast<ssize_t>(n);
    IPV4Address src;
    IPV4Address::FromString("10.0.0." + vh::str(src_octet), &src);
    *source = IPV4SocketAddress(src, 6454);
    return true;
  }
  bool EnableBroadcast() { return true; }
  bool SetMulticastInterface(const IPV4Address &) { return true; }
  bool JoinMulticast(const IPV4Address &, const IPV4Address &, bool) { return true; }
  bool LeaveMulticast(const IPV4Address &, const IPV4Address &) { return true; }
  bool SetTos(uint8_t) { return true; }

  bool armed;
  uint8_t poison;
  bool overlay_prev;
  unsigned src_octet;   // the datagram's source is 10.0.0.<src_octet>
  bool kernel;
  ola::network::UDPSocket *real;
  vector<uint8_t> dgram, prev;
  mutable vector<vector<uint8_t> > sent;
};

struct Twin {
  ola::io::SelectServer ss;
  PoisonSocket *sock;   // owned by the node
  std::auto_ptr<ArtNetNodeImpl> node;
  DmxBuffer buf, buf2;
  vector<string> ev;
  bool tx;   // callbacks transmit while the datagram is still being dispatched
  Twin() : sock(NULL), tx(false) {}
  // what a plugin may do from inside a callback: send packets of its own (their bytes are not part of the observation)
  void transmit(unsigned port) {
    if (!tx) return;
    size_t k = sock->sent.size();
    node->SendPoll();
    node->SendDMX(0, buf);
    node->SendTod(port, UIDSet());
    sock->sent.resize(k);
  }

  void on_data(unsigned port) { ev.push_back("D" + vh::str(port)); transmit(port); }
  void on_discover(unsigned port) { ev.push_back("Q" + vh::str(port)); transmit(port); }
  void on_flush(unsigned port) { ev.push_back("F" + vh::str(port)); transmit(port); }
  void on_rdm(unsigned port, RDMRequest *req, RDMCallback *cb) {
    vector<uint8_t> b(21);
    req->DestinationUID().Pack(&b[0], 6);
    req->SourceUID().Pack(&b[6], 6);
    b[12] = req->TransactionNumber();
    b[13] = req->PortId();
    b[14] = req->MessageCount();
    b[15] = req->SubDevice() >> 8;
    b[16] = req->SubDevice() & 0xff;
    b[17] = static_cast<uint8_t>(req->CommandClass());
    b[18] = req->ParamId() >> 8;
    b[19] = req->ParamId() & 0xff;
    b[20] = req->ParamDataSize();
    if (req->ParamDataSize()) b.insert(b.end(), req->ParamData(), req->ParamData() + req->ParamDataSize());
    ev.push_back("R" + vh::str(port) + vh::hex(b));
    delete req;
    delete cb;
  }
  // pending RDM request on input port 0 (controller side): cc:pid:sub:src uid:dst uid, or "-"
  string pend;
  unsigned tn;
  void send_request() {
    vector<string> f = vh::split(pend, ':');
    vector<uint8_t> su = vh::unhex(f[3]), du = vh::unhex(f[4]);
    UID src(su.data()), dst(du.data());
    RDMRequest *req;
    if (vh::num(f[0]) == 0x30)
      req = new ola::rdm::RDMSetRequest(src, dst, tn++, 1, vh::num(f[2]), vh::num(f[1]), NULL, 0);
    else
      req = new ola::rdm::RDMGetRequest(src, dst, tn++, 1, vh::num(f[2]), vh::num(f[1]), NULL, 0);
    size_t k = sock->sent.size();
    node->SendRDMRequest(0, req, ola::NewSingleCallback(this, &Twin::on_reply));
    sock->sent.resize(k);   // the ArtRdm request itself is not part of the observation
  }
  void on_reply(ola::rdm::RDMReply *reply) {
    const ola::rdm::RDMResponse *r = reply->Response();
    string e = "A" + vh::str(static_cast<unsigned>(reply->StatusCode()));
    if (r) {
      vector<uint8_t> b(21);
      r->DestinationUID().Pack(&b[0], 6);
      r->SourceUID().Pack(&b[6], 6);
      b[12] = r->TransactionNumber();
      b[13] = r->ResponseType();
      b[14] = r->MessageCount();
      b[15] = r->SubDevice() >> 8;
      b[16] = r->SubDevice() & 0xff;
      b[17] = static_cast<uint8_t>(r->CommandClass());
      b[18] = r->ParamId() >> 8;
      b[19] = r->ParamId() & 0xff;
      b[20] = r->ParamDataSize();
      if (r->ParamDataSize()) b.insert(b.end(), r->ParamData(), r->ParamData() + r->ParamDataSize());
      e += "." + vh::hex(b);
    }
    ev.push_back(e);
    // what QueueingRDMController does: the next request goes out from the completion callback
    if (reply->StatusCode() == ola::rdm::RDM_COMPLETED_OK) send_request();
  }
  void on_tod(const UIDSet &uids) {
    string s = "T";
    bool first = true;
    for (UIDSet::Iterator it = uids.Begin(); it != uids.End(); ++it) {
      uint8_t b[6];
      it->Pack(b, 6);
      s += (first ? "" : ",") + vh::hex(b, 6);
      first = false;
    }
    ev.push_back(s);
  }

  void setup(const string &spec) {
    vector<string> f = vh::split(spec, ',');
    sock = new PoisonSocket();
    ArtNetNodeOptions options;
    node.reset(new ArtNetNodeImpl(c06::iface(), &ss, options, sock));
    // configured before the node runs (nothing is sent), exactly as ArtNetDevice does
    node->SetNetAddress(vh::num(f[0]));
    node->SetSubnetAddress(vh::num(f[1]));
    // universe 16 = leave the port disabled (its handlers are still registered)
    if (vh::num(f[2]) < 16) node->SetOutputPortUniverse(0, vh::num(f[2]));
    if (vh::num(f[3]) < 16) node->SetInputPortUniverse(0, vh::num(f[3]));
    if (f.size() > 5 && f[5] == "1") node->SetMergeMode(0, ola::plugin::artnet::ARTNET_MERGE_LTP);
    if (f.size() > 6 && vh::num(f[6]) < 16) node->SetOutputPortUniverse(1, vh::num(f[6]));
    c06::buf_init(&buf, f[4]);
    c06::buf_init(&buf2, f.size() > 7 ? f[7] : "none");
    tx = f.size() > 8 && f[8] == "1";
    DmxBuffer *bufs[2] = {&buf, &buf2};
    for (unsigned p = 0; p < 2; p++) {
      node->SetDMXHandler(p, bufs[p], ola::NewCallback(this, &Twin::on_data, p));
      node->SetOutputPortRDMHandlers(p, ola::NewCallback(this, &Twin::on_discover, p),
                                     ola::NewCallback(this, &Twin::on_flush, p),
                                     ola::NewCallback(this, &Twin::on_rdm, p));
    }
    node->SetUnsolicitedUIDSetHandler(0, ola::NewCallback(this, &Twin::on_tod));
    node->m_running = true;   // Start() without the network set-up and the initial ArtPoll/ArtPollReply
    pend = f.size() > 9 ? f[9] : "-";
    tn = 0;
    if (pend != "-") send_request();
  }
  void teardown() { node->m_running = false; node.reset(); }

  string deliver(uint8_t poison, const vector<uint8_t> &d, vector<vector<uint8_t> > *tx) {
    ev.clear();
    sock->sent.clear();
    sock->poison = poison;
    sock->dgram = d;
    sock->armed = true;
    node->SocketReady();
    *tx = sock->sent;
    for (size_t i = 0; i < sock->sent.size(); i++) {
      const vector<uint8_t> &p = sock->sent[i];
      // ArtPollReply is the only packet the receive side sends; anything else is reported by opcode and size
      if (p.size() == sizeof(ola::plugin::artnet::artnet_reply_t) + 10 && p[8] == 0x00 && p[9] == 0x21)
        ev.push_back("P");
      else
        ev.push_back("X" + vh::hex(p.data() + 8, p.size() > 10 ? 2 : 0) + "n" + vh::str(p.size()));
    }
    string r = "e:";
    if (ev.empty()) r += "-";
    for (size_t i = 0; i < ev.size(); i++) r += (i ? "+" : "") + ev[i];
    r += "|b:" + c06::buf_s(buf) + "|c:" + c06::buf_s(buf2);
    vector<IPV4Address> nodes;
    node->GetSubscribedNodes(0, &nodes);
    r += "|s:" + vh::str(nodes.size());
    r += string("|r:") + (node->m_send_reply_on_change ? "1" : "0");
    return r;
  }
};

string do_artnet(const vector<string> &a) {
  if (a.size() < 3) return "bad-args";
  Twin t[4];
  t[0].setup(a[1]);
  t[1].setup(a[1]);
  t[2].setup(a[1]);
  t[3].setup(a[1]);
  t[2].sock->overlay_prev = true;
  t[3].sock->kernel = true;
  c06::Trace tr;
  for (size_t k = 2; k < a.size(); k++) {
    // optional prefix s<k>. : the datagram comes from 10.0.0.(2+k)
    string tok = a[k];
    unsigned octet = 2;
    if (tok.size() > 2 && tok[0] == 's') {
      size_t dot = tok.find('.');
      octet = 2 + vh::num(tok.substr(1, dot - 1));
      tok = tok.substr(dot + 1);
    }
    for (int i = 0; i < 4; i++) t[i].sock->src_octet = octet;
    vector<uint8_t> d = vh::unhex(tok);
    vector<vector<uint8_t> > tx0, tx1, tx2;
    string o0 = t[0].deliver(c06::POISON[0], d, &tx0);
    string o1 = t[1].deliver(c06::POISON[1], d, &tx1);
    if (tx0 != tx1) o1 += "|txdiff";    // the bytes of the packets sent must not depend on the stale bytes either
    // third instance: receive buffer = previous datagram's bytes (then 0xA5) under the new datagram
    string o2 = t[2].deliver(c06::POISON[1], d, &tx2);
    if (o2 != o0 || tx2 != tx0) o1 += "|prevdiff";
    vector<vector<uint8_t> > tx3;
    string o3 = t[3].deliver(c06::POISON[1], d, &tx3);
    if (o3 != o0 || tx3 != tx0) o1 += "|kerneldiff";
    tr.add(o0, o1);
    // the node's outputs: callbacks run / packets sent, and the DMX data of both output ports
    tr.out(o0.substr(0, o0.find("|s:")));
  }
  t[0].teardown();
  t[1].teardown();
  t[2].teardown();
  t[3].teardown();
  return tr.result();
}
c06::Reg reg("artnet", do_artnet);
}  // namespace
