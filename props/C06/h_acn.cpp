// C06 / E1.31 (ACN): twin real receive chains wired exactly as ola::acn::E131Node's constructor does
// (UDPSocket + IncomingUDPTransport -> RootInflator -> E131Inflator / E131InflatorRev2 -> DMPE131Inflator,
// E131DiscoveryInflator), datagrams delivered through IncomingUDPTransport::Receive() so that the real
// m_recv_buffer is used.
// payload: acn <ignore_preview 0|1>[,<universe>:<buffer init>...] <datagram hex> [<datagram hex> ...]
#include <memory>
#include <string>
#include <vector>
#include <map>
#include <sstream>
#include <iostream>
#include <queue>
#include <deque>
#include <list>
#include <set>
#include <algorithm>
#define private public
#define protected public
#include "libs/acn/UDPTransport.h"
#include "libs/acn/RootInflator.h"
#include "libs/acn/E131Inflator.h"
#include "libs/acn/DMPE131Inflator.h"
#include "libs/acn/E131DiscoveryInflator.h"
#include "libs/acn/E133Inflator.h"
#include "libs/acn/LLRPInflator.h"
#include "libs/acn/RDMInflator.h"
#include "libs/acn/DMPAddress.h"
#include "libs/acn/E131Node.h"
#include "ola/io/SelectServer.h"
#undef private
#undef protected
#include "h_common.h"
#include "ola/Callback.h"
#include "ola/acn/CID.h"
#include "ola/network/Socket.h"

using ola::DmxBuffer;
using ola::acn::CID;
using ola::acn::DMPE131Inflator;
using ola::acn::E131DiscoveryInflator;
using ola::acn::HeaderSet;
using std::string;
using std::vector;

namespace {
string cid_s(const CID &c) {
  uint8_t b[CID::CID_LENGTH];
  c.Pack(b);
  return vh::hex(b, sizeof(b));
}

struct Twin;
// the real DMPE131Inflator; HandlePDUData additionally records the source name of the E1.31 header it is handed
struct RecDmp : public DMPE131Inflator {
  Twin *t;
  RecDmp(bool ignore_preview, Twin *twin) : DMPE131Inflator(ignore_preview), t(twin) {}
  bool HandlePDUData(uint32_t vector, const HeaderSet &headers, const uint8_t *data, unsigned int pdu_len);
};

struct Twin {
  ola::network::UDPSocket socket;
  ola::acn::RootInflator root;
  ola::acn::E131Inflator e131;
  ola::acn::E131InflatorRev2 rev2;
  std::auto_ptr<DMPE131Inflator> dmp;
  std::auto_ptr<E131DiscoveryInflator> disc;
  std::auto_ptr<ola::acn::IncomingUDPTransport> transport;
  // E1.33 / LLRP header decoders (not part of E131Node; added to the root so that they are exercised)
  ola::acn::E133Inflator e133;
  ola::acn::LLRPInflator llrp;
  ola::acn::RDMInflator rdm133;
  ola::acn::RDMInflator rdmllrp;
  // a real E131Node (enable_draft_discovery) as the recipient of the discovery pages: NewDiscoveryPage /
  // TrackedSource::NewPage / GetKnownControllers are its real code; it is never Start()ed (no network)
  ola::io::SelectServer ess;
  std::auto_ptr<ola::acn::E131Node> enode;
  vector<unsigned> unis;
  vector<DmxBuffer*> bufs;
  string events;

  Twin() : rdm133(ola::acn::VECTOR_FRAMING_RDMNET), rdmllrp(ola::acn::VECTOR_LLRP_RDM_CMD) {}
  ~Twin() { for (size_t i = 0; i < bufs.size(); i++) delete bufs[i]; }
  void ev(const string &s) { events += (events.empty() ? "" : "+") + s; }
  void hit(unsigned uni) { ev("d" + vh::str(uni)); }
  void src(const HeaderSet &headers) {
    const string n = headers.GetE131Header().Source();
    ev("s" + vh::str(n.size()) + "." + vh::hex(n));
  }
  void page(const HeaderSet &headers, const E131DiscoveryInflator::DiscoveryPage &p) {
    src(headers);
    if (enode.get()) enode->NewDiscoveryPage(headers, p);
    string s = "p" + cid_s(headers.GetRootHeader().GetCid()) + "." + vh::str(static_cast<unsigned>(p.page_number)) + "." +
               vh::str(static_cast<unsigned>(p.last_page)) + ".";
    for (size_t i = 0; i < p.universes.size(); i++) s += (i ? "_" : "") + vh::str(static_cast<unsigned>(p.universes[i]));
    ev(s);
  }
  void on_rdm133(const HeaderSet *headers, const string &msg) {
    const ola::acn::E133Header &h = headers->GetE133Header();
    ev("r" + vh::str(h.Sequence()) + "." + vh::str(static_cast<unsigned>(h.Endpoint())) + "." + vh::hex(msg));
  }
  void on_llrp(const HeaderSet *headers, const string &msg) {
    const ola::acn::LLRPHeader &h = headers->GetLLRPHeader();
    ev("l" + cid_s(h.DestinationCid()) + "." + vh::str(h.TransactionNumber()) + "." + vh::hex(msg));
  }
  void setup(const string &spec) {
    vector<string> hs = vh::split(spec, ',');
    dmp.reset(new RecDmp(hs[0] == "1", this));
    disc.reset(new E131DiscoveryInflator(ola::NewCallback(this, &Twin::page)));
    transport.reset(new ola::acn::IncomingUDPTransport(&socket, &root));
    socket.Init();
    {
      ola::acn::E131Node::Options opts;
      opts.enable_draft_discovery = true;
      enode.reset(new ola::acn::E131Node(&ess, "", opts));
    }
    // E131Node::E131Node
    root.AddInflator(&e131);
    root.AddInflator(&rev2);
    e131.AddInflator(dmp.get());
    e131.AddInflator(disc.get());
    rev2.AddInflator(dmp.get());
    root.AddInflator(&e133);
    root.AddInflator(&llrp);
    e133.AddInflator(&rdm133);
    llrp.AddInflator(&rdmllrp);
    rdm133.SetGenericRDMHandler(ola::NewCallback(this, &Twin::on_rdm133));
    rdmllrp.SetGenericRDMHandler(ola::NewCallback(this, &Twin::on_llrp));
    for (size_t i = 1; i < hs.size(); i++) {
      vector<string> kv = vh::split(hs[i], ':');
      unis.push_back(vh::num(kv[0]));
      bufs.push_back(new DmxBuffer());
      c06::buf_init(bufs.back(), kv[1]);
      dmp->SetHandler(unis.back(), bufs.back(), NULL,
                      ola::NewCallback(this, &Twin::hit, static_cast<unsigned>(unis.back())));
    }
  }
  string deliver(uint8_t poison, const vector<uint8_t> &d) {
    events.clear();
    c06::g_poison = poison;
    c06::set_rx(d);
    transport->Receive();
    string r = "e:" + (events.empty() ? string("-") : events);
    DMPE131Inflator::UniverseHandlers::const_iterator it = dmp->m_handlers.begin();
    for (; it != dmp->m_handlers.end(); ++it) {
      r += "|u" + vh::str(it->first) + ":" + c06::buf_s(*it->second.buffer) + ":" +
           vh::str(static_cast<unsigned>(it->second.active_priority)) + ":";
      for (size_t i = 0; i < it->second.sources.size(); i++) {
        const DMPE131Inflator::dmx_source &s = it->second.sources[i];
        r += (i ? "," : "") + cid_s(s.cid) + "." + vh::str(static_cast<unsigned>(s.sequence)) + "." +
             c06::buf_s(s.buffer);
      }
    }
    r += "|k:" + known();
    return r;
  }
  // E131Node::GetKnownControllers(), sorted by CID
  string known() {
    std::vector<ola::acn::E131Node::KnownController> cs;
    enode->GetKnownControllers(&cs);
    vector<string> out;
    for (size_t i = 0; i < cs.size(); i++) {
      string u;
      for (std::set<uint16_t>::const_iterator it = cs[i].universes.begin(); it != cs[i].universes.end(); ++it)
        u += (u.empty() ? "" : "_") + vh::str(static_cast<unsigned>(*it));
      out.push_back(cid_s(cs[i].cid) + "." + vh::hex(cs[i].source_name) + "." + (u.empty() ? "-" : u));
    }
    std::sort(out.begin(), out.end());
    string r;
    for (size_t i = 0; i < out.size(); i++) r += (i ? "," : "") + out[i];
    return r.empty() ? "-" : r;
  }
};

bool RecDmp::HandlePDUData(uint32_t vector, const HeaderSet &headers, const uint8_t *data, unsigned int pdu_len) {
  t->src(headers);
  return DMPE131Inflator::HandlePDUData(vector, headers, data, pdu_len);
}

string do_acn(const vector<string> &a) {
  if (a.size() < 3) return "bad-args";
  Twin t[4];
  t[0].setup(a[1]);
  t[1].setup(a[1]);
  t[2].setup(a[1]);
  t[3].setup(a[1]);
  c06::Trace tr;
  for (size_t k = 2; k < a.size(); k++) {
    vector<uint8_t> d = vh::unhex(a[k]);
    string o0 = t[0].deliver(c06::POISON[0], d);
    string o1 = t[1].deliver(c06::POISON[1], d);
    string o2;
    { c06::PrevMode pm; o2 = t[2].deliver(c06::POISON[2], d); }
    string o3;
    { c06::KernelMode km; o3 = t[3].deliver(c06::POISON[3], d); }
    tr.add4(o0, o1, o2, o3);
    // outputs only: events + each universe's DMX data and active priority (without the per-source bookkeeping)
    {
      string o;
      vector<string> f = vh::split(o0, '|');
      for (size_t i = 0; i < f.size(); i++) {
        if (i == 0) { o = f[0]; continue; }
        vector<string> g = vh::split(f[i], ':');
        if (g[0] == "k") { o += "|" + f[i]; continue; }
        o += "|" + g[0] + ":" + (g.size() > 1 ? g[1] : "") + ":" + (g.size() > 2 ? g[2] : "");
      }
      tr.out(o);
    }
  }
  return tr.result();
}
c06::Reg reg("acn", do_acn);

// dmpaddr <size> <type> <data hex>: ola::acn::DecodeAddress on an exact-size heap copy of the data
string do_dmpaddr(const vector<string> &a) {
  if (a.size() != 4) return "bad-args";
  vh::Exact d(vh::unhex(a[3]));
  unsigned int len = d.n;
  std::auto_ptr<const ola::acn::BaseDMPAddress> addr(ola::acn::DecodeAddress(
      static_cast<ola::acn::dmp_address_size>(vh::num(a[1])), static_cast<ola::acn::dmp_address_type>(vh::num(a[2])),
      d.p, &len));
  string r = "hz=none;twin=1;s0=";
  string o = addr.get() ? "a:" + vh::str(addr->Start()) + "." + vh::str(addr->Increment()) + "." + vh::str(addr->Number())
                        : string("a:null");
  o += "|len:" + vh::str(len);
  return r + o + ";o0=" + o;
}
c06::Reg reg_dmpaddr("dmpaddr", do_dmpaddr);
}  // namespace
