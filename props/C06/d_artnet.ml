(* Art-Net: payload  artnet <net>,<subnet>,<out uni>,<in uni>,<buffer init>,<merge mode> <datagram>   (universe 16 = port disabled = address 256 in the model) ... *)
let artnet_op (args : string list) : string =
  match args with
  | _ :: spec :: dgs ->
    let st0 = match String.split_on_char ',' spec with
      | net :: sub :: ou :: iu :: b :: rest ->
        let ou2, b2 = (match rest with _ :: o2 :: b2 :: _ -> (ios o2, b2) | _ -> (16, "none")) in
        let net = ios net land 0x7f and sub = ios sub and ou = ios ou and iu = ios iu in
        { a_net = n_of_int net; a_oa = n_of_int (if ou >= 16 then 256 else ((sub lsl 4) lor (ou land 15)) land 255);
          a_ia = n_of_int (if iu >= 16 then 256 else ((sub lsl 4) lor (iu land 15)) land 255); a_buf = dbuf_of_s b; a_uids = [];
          a_sub = false; a_roc = true;
          a_ob = n_of_int (if ou2 >= 16 then 256 else ((sub lsl 4) lor (ou2 land 15)) land 255); a_buf2 = dbuf_of_s b2;
          a_from = n_of_int 2; a_ltp = (match rest with m :: _ -> m = "1" | [] -> false);
          a_s0 = (None, None); a_s1 = (None, None);
          a_pend = (match rest with _ :: _ :: _ :: _ :: p :: _ when p <> "-" ->
                      (match String.split_on_char ':' p with
                       | [cc; pid; sub; su; du] -> Some ((((bytes_of_hex su, bytes_of_hex du), n_of_int (ios pid)), n_of_int (ios sub)), n_of_int (ios cc))
                       | _ -> failwith "bad pending request")
                    | _ -> None) }
      | _ -> failwith "bad config" in
    let t = new_trace () in
    let st = ref st0 in
    let uid_s u = Printf.sprintf "%012x" (int_of_n u) in
    let ev_s e = match e with
      | EvTx -> "P" | EvData p -> "D" ^ string_of_int (int_of_n p) | EvDisc p -> "Q" ^ string_of_int (int_of_n p)
      | EvFlush p -> "F" ^ string_of_int (int_of_n p)
      | EvRdm (p, r) -> "R" ^ string_of_int (int_of_n p) ^ hex_of_bytes r
      | EvTod us -> "T" ^ String.concat "," (List.map uid_s us)
      | EvResp r -> "A0." ^ hex_of_bytes r in
    let ev_c e = match e with
      | EvTx -> "poll" | EvData _ -> "dmx" | EvDisc _ -> "discover" | EvFlush _ -> "flush" | EvRdm _ -> "rdm" | EvTod _ -> "tod" | EvResp _ -> "rdmresp" in
    (try List.iter (fun dg ->
      (* optional prefix s<k>. : the datagram comes from 10.0.0.(2+k) *)
      let from, dg = (if String.length dg > 2 && dg.[0] = 's' then
                        let i = String.index dg '.' in
                        (2 + ios (String.sub dg 1 (i - 1)), String.sub dg (i + 1) (String.length dg - i - 1))
                      else (2, dg)) in
      st := { !st with a_from = n_of_int from };
      let buf, n = mkbuf (int_of_n aN_PACKET_SIZE) (bytes_of_hex dg) in
      match run buf (artnet_handle n !st) with
      | Hazard h -> t.hz <- hazard_s h; raise Exit
      | Done (st', evs) ->
        let changed = (st' <> !st) in
        st := st';
        t.cls <- (match evs with [] -> if changed then "state" else "drop"
                                | [e] -> ev_c e | e :: _ -> ev_c e ^ "x" ^ string_of_int (List.length evs)) :: t.cls;
        (* the harness lists the callbacks first, then the packets sent *)
        let evs = List.filter (fun e -> e <> EvTx) evs @ List.filter (fun e -> e = EvTx) evs in
        let es = match evs with [] -> "-" | _ -> String.concat "+" (List.map ev_s evs) in
        t.steps <- (Printf.sprintf "e:%s|b:%s|c:%s|s:%s|r:%s" es (dbuf_s st'.a_buf) (dbuf_s st'.a_buf2) (bool01 st'.a_sub) (bool01 st'.a_roc)) :: t.steps;
        trace_out t (Printf.sprintf "e:%s|b:%s|c:%s" es (dbuf_s st'.a_buf) (dbuf_s st'.a_buf2)))
      dgs with Exit -> ());
    trace_result t "artnet"
  | _ -> "bad-args"
let () = register "artnet" artnet_op
