"""C06 / SandNet part: sources, constants, generator."""
import os
NAME = 'sandnet'
CXX_SOURCES = ['plugins/sandnet/SandNetNode.cpp']
HARNESS = 'h_sandnet.cpp'
COQ_FILES = ['GenSandNet.v', 'SandNet.v']
EXTRACT = ['sa_handle', 'SA_PACKET_SIZE']
RULE = ('SandNet: valid DMX / compressed DMX / advertisement / control packets (groups and universes 0-255) x every '
        'truncation length around the 2/5/12-byte headers and the data end x RLE streams cut inside a literal / repeat '
        'segment x capacity-1/capacity/capacity+1 datagrams x unknown opcodes x datagrams from our own address x data '
        'and control socket x random bytes; 0-2 earlier datagrams; handlers on 0-3 (group, universe) pairs with '
        'unallocated/short/full buffers')
TRUSTED = ['modelled rather than verified: SandNetNode::SocketReady/HandleDMX/HandleCompressedDMX, '
           'RunLengthEncoder::Decode, DmxBuffer::Set/SetRange/SetRangeToValue']


def gen_consts(v):
    s = 'ola::plugin::sandnet::'
    ents = [
        ('SA_PACKET_SIZE', 'sizeof(%ssandnet_packet)' % s),
        ('SA_OPCODE_SIZE', 'sizeof(((%ssandnet_packet*)0)->opcode)' % s),
        ('SA_OFF_opcode', 'offsetof(%ssandnet_packet, opcode)' % s),
        ('SA_OFF_contents', 'offsetof(%ssandnet_packet, contents)' % s),
        ('SA_DMX_SIZE', 'sizeof(%ssandnet_dmx)' % s),
        ('SA_DMX_DATA', 'sizeof(((%ssandnet_dmx*)0)->dmx)' % s),
        ('SA_OFF_dmx_group', 'offsetof(%ssandnet_dmx, group)' % s),
        ('SA_OFF_dmx_universe', 'offsetof(%ssandnet_dmx, universe)' % s),
        ('SA_OFF_dmx_dmx', 'offsetof(%ssandnet_dmx, dmx)' % s),
        ('SA_CDMX_SIZE', 'sizeof(%ssandnet_compressed_dmx)' % s),
        ('SA_CDMX_DATA', 'sizeof(((%ssandnet_compressed_dmx*)0)->dmx)' % s),
        ('SA_OFF_cdmx_group', 'offsetof(%ssandnet_compressed_dmx, group)' % s),
        ('SA_OFF_cdmx_universe', 'offsetof(%ssandnet_compressed_dmx, universe)' % s),
        ('SA_OFF_cdmx_dmx', 'offsetof(%ssandnet_compressed_dmx, dmx)' % s),
        ('SA_ADVERTISEMENT_SIZE', 'sizeof(%ssandnet_advertisement)' % s),
        ('SA_OP_DMX', '%sSANDNET_DMX' % s),
        ('SA_OP_COMPRESSED_DMX', '%sSANDNET_COMPRESSED_DMX' % s),
        ('SA_OP_ADVERTISEMENT', '%sSANDNET_ADVERTISEMENT' % s),
    ]
    return v.gen_consts_cpp('C06/sandnet', ['ola/Constants.h', 'plugins/sandnet/SandNetNode.h'], ents,
                            os.path.join(v.VERIF, 'props', 'C06', 'coq', 'GenSandNet.v'))


CAP = 524


def hx(bs):
    return ''.join('%02x' % (b & 255) for b in bs) if bs else '-'


def be16(x):
    return [(x >> 8) & 255, x & 255]


def rle(f):
    out, i, n = [], 0, len(f)
    while i < n:
        j = i + 1
        while j < n and f[j] == f[i] and j - i < 127:
            j += 1
        if j - i > 2:
            out += [0x80 | (j - i), f[i]]
            i = j
        else:
            j = i + 1
            while j < n and j - i < 127 and not (j + 2 < n and f[j] == f[j + 1] == f[j + 2]):
                j += 1
            out += [j - i] + f[i:j]
            i = j
    return out


def dmx(g=0, u=0, port=0, data=()):
    return be16(0x0300) + [g & 255, u & 255, port] + list(data)


def cdmx(g=0, u=0, port=0, data=(), length=None):
    data = list(data)
    if length is None:
        length = len(data)
    return be16(0x0a00) + [g & 255, u & 255, port, 0, 0, 0, 0, 2] + be16(length & 0xffff) + data


def frame(rng):
    n = rng.choice([1, 2, 3, 4, 5, 24, 100, 127, 128, 129, 300, 511, 512])
    k = rng.choice(['rand', 'eq', 'few'])
    if k == 'rand':
        return [rng.randrange(256) for _ in range(n)]
    if k == 'eq':
        return [rng.randrange(256)] * n
    return [rng.choice([0, 0, 0, 255, 9]) for _ in range(n)]


KEYS = [(0, 0), (0, 0), (0, 1), (1, 0), (2, 7), (255, 255), (7, 2)]


def handlers(rng, must=None):
    k = rng.choice([0, 1, 1, 1, 2, 3])
    ks = set(rng.sample(KEYS, k))
    if must is not None and rng.random() < 0.85:
        ks.add(must)
    ks = sorted(ks)
    if not ks:
        return '-'

    def init():
        c = rng.choice(['none', 'none', 'short', 'full'])
        if c == 'none':
            return 'none'
        n = 512 if c == 'full' else rng.choice([1, 5, 100, 511])
        return hx([rng.randrange(1, 256) for _ in range(n)])
    return ','.join('%d.%d:%s' % (g, u, init()) for (g, u) in ks)


def valid(rng):
    f = frame(rng)
    g, u = rng.choice(KEYS)
    if rng.random() < 0.55:
        return (g, u), cdmx(g, u, rng.randrange(2), rle(f)[:512])
    return (g, u), dmx(g, u, rng.randrange(2), f)


def mutants(rng, quick):
    key, base = valid(rng)
    g, u = key
    comp = base[1] == 0x0a
    hdr = 12 if comp else 5
    yield 'valid', key, base
    for op in (0x0100, 0x0200, 0x0300, 0x0400, 0x0500, 0x0600, 0x0700, 0x0a00, 0x0003, 0x000a, 0, 0xffff):
        yield 'opcode', key, be16(op) + base[2:]
    for (gg, uu) in ((0, 0), (u, g), (g, (u + 1) & 255), ((g + 1) & 255, u), (255, 255)):
        yield 'key', (gg, uu), base[:2] + [gg, uu] + base[4:]
    cuts = set(range(0, 16)) | {len(base) - k for k in range(0, 4)}
    if quick:
        cuts |= {rng.randrange(len(base) + 1) for _ in range(4)}
    else:
        cuts |= set(range(0, len(base) + 1))
    for c in sorted(x for x in cuts if 0 <= x <= len(base)):
        yield 'trunc', key, base[:c]
    if comp:
        for ln in (0, 1, len(base) - 13, len(base) - 11, 512, 0xffff):
            yield 'lenfield', key, base[:10] + be16(max(ln, 0)) + base[12:]
    # RLE streams cut inside a segment
    for d in ([0x85], [0x05], [0x05, 1, 2, 3, 4], [5, 1, 2, 3, 4, 5, 0x83], [0x7f, 1, 2], [0x80, 9], [0x00], [0xff, 1, 0xff],
              [3, 1, 2, 3, 0x7f] + [7] * 126, [3, 1, 2, 3, 0x7f] + [7] * 127):
        yield 'rlecut', key, cdmx(g, u, 0, d)
    # dest index running beyond the universe
    yield 'rlelong', key, cdmx(g, u, 0, [0xff, 1] * 6)
    yield 'rlelong', key, cdmx(g, u, 0, ([0x7f] + [3] * 127) * 3 + [0x7f] + [4] * rng.choice([126, 127]))
    # maximum-size / oversize datagrams
    for ln in (CAP - 2, CAP - 1, CAP, CAP + 1, 600):
        yield 'max%d' % ln, key, dmx(g, u, 0, [rng.randrange(256) for _ in range(ln - 5)])
        body = []
        while len(body) < ln - 12:
            body += rng.choice([[0x80 | rng.randrange(128), rng.randrange(256)],
                                [3, 1, 2, 3], [1, rng.randrange(256)]])
        yield 'max%d' % ln, key, cdmx(g, u, 0, body[:ln - 12])
        yield 'max%d' % ln, key, cdmx(g, u, 0, body[:ln - 13] + [rng.choice([0x85, 0x7f, 0x01])])
    # advertisement / control packets of all sizes
    adv = be16(0x0100) + [rng.randrange(256) for _ in range(233)]
    for c in (2, 3, 12, 234, 235):
        yield 'adv', key, adv[:c]
    yield 'adv', key, adv + [0, 0]
    yield 'ctl', key, be16(0x0200) + [rng.randrange(256) for _ in range(128)]


def token(rng, dg):
    # '@' = the datagram comes from our own address, '!' = it arrives on the control socket
    return ('@' if rng.random() < 0.04 else '') + ('!' if rng.random() < 0.15 else '') + hx(dg)


def earlier(rng):
    pre = []
    for _k in range(rng.choice([0, 0, 1, 2])):
        if rng.random() < 0.8:
            pre.append(hx(valid(rng)[1]))
        else:
            pre.append(hx([rng.randrange(256) for _ in range(rng.choice([1, 5, 12, 524, 600]))]))
    return pre


def gen_cases(rng, tier):
    quick = tier == 'quick'
    for _ in range(10 if quick else 250):
        for cls, key, dg in mutants(rng, quick):
            yield 'sandnet %s %s' % (handlers(rng, key), ' '.join(earlier(rng) + [token(rng, dg)]))
    for _ in range(300 if quick else 20000):
        n = rng.choice([0, 1, 2, 3, 5, 6, 12, 13, 14, 60, 200, 523, 524, 525, rng.randrange(1, 600)])
        bs = [rng.randrange(256) for _ in range(n)]
        key = None
        if n >= 2 and rng.random() < 0.85:
            bs[0:2] = be16(rng.choice([0x0300, 0x0a00, 0x0a00, 0x0a00, 0x0100]))
        if n >= 4 and rng.random() < 0.8:
            key = rng.choice(KEYS)
            bs[2], bs[3] = key
            if rng.random() < 0.5:
                for k in range(12, n):
                    if rng.random() < 0.7:
                        bs[k] = rng.choice([1, 2, 0x81, 0x83, 0])
        yield 'sandnet %s %s' % (handlers(rng, key), ' '.join(earlier(rng) + [token(rng, bs)]))


def nontrivial(payload, md):
    return any('h:' in v and not v.startswith('h:-') for k, v in md.items() if k.startswith('s') and k[1:].isdigit())
