"""C06 / ShowNet part: sources, constants, generator."""
import os
NAME = 'shownet'
CXX_SOURCES = ['plugins/shownet/ShowNetNode.cpp']
HARNESS = 'h_shownet.cpp'
COQ_FILES = ['GenShowNet.v', 'ShowNet.v']
EXTRACT = ['shownet_handle', 'shownet_handle_fixed', 'sn_within', 'SN_PACKET_SIZE']
RULE = ('ShowNet: valid compressed packets (RLE and raw blocks, start channels 0/1/511, universes 0-8) x mutation of '
        'indexBlock[0]/[1], netSlot, slotSize to the boundary values of every comparison x every truncation length '
        'around the 6/47-byte headers and the end of the data block x maximum-size/oversize datagrams x RLE data cut '
        'inside a segment x random bytes; 0-2 earlier datagrams; handlers on 0-3 universes with unallocated/short/full '
        'buffers')
TRUSTED = ['modelled rather than verified: ShowNetNode::SocketReady/HandlePacket/HandleCompressedPacket (as it is, '
           'including the sizeof(pointer) size computation), RunLengthEncoder::Decode, DmxBuffer::SetRange/'
           'SetRangeToValue; ShowNet over-reads are compared as ASan verdicts and only generated when they end '
           'within 100 bytes after the packet (inside the stack redzone)']


def gen_consts(v):
    sn = 'ola::plugin::shownet::'
    ents = [
        ('SN_PACKET_SIZE', 'sizeof(%sshownet_packet)' % sn),
        ('SN_HEADER_SIZE', 'sizeof(%sshownet_packet) - sizeof(((%sshownet_packet*)0)->data)' % (sn, sn)),
        ('SN_COMPRESSED_SIZE', 'sizeof(%sshownet_compressed_dmx)' % sn),
        ('SN_COMPRESSED_DATA_LENGTH', '%sSHOWNET_COMPRESSED_DATA_LENGTH' % sn),
        ('SN_OFF_type', 'offsetof(%sshownet_packet, type)' % sn),
        ('SN_OFF_netSlot', 'offsetof(%sshownet_compressed_dmx, netSlot)' % sn),
        ('SN_OFF_slotSize', 'offsetof(%sshownet_compressed_dmx, slotSize)' % sn),
        ('SN_OFF_indexBlock', 'offsetof(%sshownet_compressed_dmx, indexBlock)' % sn),
        ('SN_OFF_data', 'offsetof(%sshownet_compressed_dmx, data)' % sn),
        ('SN_MAGIC_INDEX_OFFSET', '%sShowNetNode::MAGIC_INDEX_OFFSET' % sn),
        ('SN_COMPRESSED_DMX_PACKET', '%sCOMPRESSED_DMX_PACKET' % sn),
        ('SN_PTR_SIZE', 'sizeof(const %sshownet_compressed_dmx*)' % sn),
    ]
    return v.gen_consts_cpp('C06/shownet', ['ola/Constants.h', 'plugins/shownet/ShowNetNode.h'], ents,
                            os.path.join(v.VERIF, 'props', 'C06', 'coq', 'GenShowNet.v'))


def hx(bs):
    return ''.join('%02x' % (b & 255) for b in bs) if bs else '-'


def rle(f):
    out, i, n = [], 0, len(f)
    while i < n:
        j = i + 1
        while j < n and f[j] == f[i] and j - i < 127:
            j += 1
        if j - i > 2:
            out += [0x80 | (j - i), f[i]]
            i = j
        else:
            j = i + 1
            while j < n and j - i < 127 and not (j + 2 < n and f[j] == f[j + 1] == f[j + 2]):
                j += 1
            out += [j - i] + f[i:j]
            i = j
    return out


def le16(x):
    return [x & 255, (x >> 8) & 255]


def packet(ty=0x808f, net_slot=1, slot_size=4, ib0=11, ib1=15, data=(), pad=0, rng=None):
    p = [ty >> 8, ty & 255, 10, 0, 0, 2]
    p += le16(net_slot) + [0] * 6 + le16(slot_size) + [0] * 6 + le16(ib0) + le16(ib1) + [0] * 6
    p += [0, 7, 0, 0, 0, 0] + list(b'console\0\0')
    p += [rng.randrange(256) if rng else 0 for _ in range(pad)] + list(data)
    return p


def frame(rng):
    n = rng.choice([1, 2, 3, 4, 5, 24, 100, 127, 128, 129, 300, 511, 512])
    k = rng.choice(['rand', 'eq', 'few'])
    if k == 'rand':
        return [rng.randrange(256) for _ in range(n)]
    if k == 'eq':
        return [rng.randrange(256)] * n
    return [rng.choice([0, 0, 0, 255, 9]) for _ in range(n)]


def handlers(rng, must=None):
    k = rng.choice([0, 1, 1, 1, 2, 3])
    us = rng.sample([0, 0, 1, 2, 7, 8, 127], k)
    if must is not None and rng.random() < 0.85:
        us.append(must)
    us = sorted(set(us))
    if not us:
        return '-'
    def init():
        c = rng.choice(['none', 'none', 'short', 'full'])
        if c == 'none':
            return 'none'
        n = 512 if c == 'full' else rng.choice([1, 5, 100, 511])
        return hx([rng.randrange(1, 256) for _ in range(n)])
    return ','.join('%d:%s' % (u, init()) for u in us)


def valid(rng, uni=None):
    f = frame(rng)
    raw = rng.random() < 0.3
    data = f if raw else rle(f)
    if not raw and len(data) == len(f):
        raw = True
        data = f
    off = rng.choice([0, 0, 0, 1, 5, 100])
    start = rng.choice([0, 0, 1, 100, 511])
    if uni is None:
        uni = rng.choice([0, 0, 1, 2, 7, 8, 127])
    return dict(net_slot=(uni * 512 + start + 1) & 0xffff, slot_size=len(f) if len(f) != len(data) or raw else len(f) + 1,
                ib0=11 + off, ib1=11 + off + len(data), data=data, pad=off)


def mutants(rng, quick):
    """yield (class, datagram bytes)"""
    v = valid(rng, uni=0 if rng.random() < 0.5 else None)
    base = packet(rng=rng, **v)
    enc, off = len(v['data']), v['pad']
    yield 'valid', base
    # length/offset/count fields to the boundaries of the model's ifs
    for ib0 in (0, 10, 11, 12, 11 + off + enc, 0xffff):
        yield 'ib0', packet(rng=rng, **dict(v, ib0=ib0))
    for d in (-1, 0, 1, 2, enc - 1, enc + 1, 1269 - off, 1270 - off, 0xffff - v['ib0']):
        yield 'ib1', packet(rng=rng, **dict(v, ib1=(v['ib0'] + d) & 0xffff))
    for ns in (0, 1, 2, 512, 513, 514, 4096, 4097, 0xffff):
        yield 'netslot', packet(rng=rng, **dict(v, net_slot=ns))
    for ss in (0, 1, enc - 1, enc, enc + 1, 512, 0xffff):
        yield 'slotsize', packet(rng=rng, **dict(v, slot_size=ss & 0xffff))
    for ty in (0x202f, 0x808e, 0x8f80, 0):
        yield 'type', packet(rng=rng, **dict(v, ty=ty))
    # truncations: everything around the headers and the end of the data block
    cuts = set(range(0, 50)) | {len(base) - k for k in range(0, 4)} | {47 + off + k for k in (-1, 0, 1)}
    if not quick:
        cuts |= set(range(0, len(base) + 1))
    else:
        cuts |= {rng.randrange(len(base) + 1) for _ in range(4)}
    for c in sorted(x for x in cuts if 0 <= x <= len(base)):
        yield 'trunc', base[:c]
    # data block that just fits / just exceeds what was received, and the array end
    for extra in (0, 1, 2, 50):
        yield 'claim+%d' % extra, packet(rng=rng, **dict(v, ib1=v['ib0'] + enc + extra))
    big = [rng.randrange(256) for _ in range(1269)]
    for ln in (1315, 1316, 1317, 1500):
        for (o, e) in ((0, 1269), (0, 1270), (1, 1268), (1, 1269), (1268, 1), (1268, 2), (1269, 1), (600, 669), (600, 670)):
            p = packet(rng=rng, net_slot=1, slot_size=rng.choice([e, 512]), ib0=11 + o, ib1=11 + o + e, data=big)[:ln]
            p += [rng.randrange(256) for _ in range(ln - len(p))]
            yield 'max%d' % ln, p
    # RLE stream cut inside a segment (length field says so, datagram agrees)
    d = v['data']
    for c in sorted({1, 2, max(1, enc - 1), max(1, enc // 2)}):
        yield 'rlecut', packet(rng=rng, **dict(v, ib1=v['ib0'] + c, data=d[:c], slot_size=512))
    # the bound the code really applies (packet_size + 1261, finding C06-shownet-sizeof-pointer): -1/0/+1
    for nn in (26, 30, 47, 48, 60, 100):
        for dlt in (-1, 0, 1):
            o = rng.choice([1200, 1260, 1268])
            e = (nn - 6) + 1261 + dlt - o
            p = packet(rng=rng, net_slot=v['net_slot'], slot_size=rng.choice([e, 512]), ib0=11 + o, ib1=11 + o + e,
                       data=[rng.randrange(256) for _ in range(60)])[:nn]
            yield 'lenient%+d' % dlt, p
    yield 'rleflag', packet(rng=rng, **dict(v, ib1=v['ib0'] + 3, data=[5, 1, 0x85], slot_size=512))
    yield 'rlelit', packet(rng=rng, **dict(v, ib1=v['ib0'] + 3, data=[0x7f, 1, 2], slot_size=512))


def region(dg):
    """where a datagram falls w.r.t. finding C06-shownet-sizeof-pointer: 'ok', 'stale' (bytes at or after the
    received length are read) or ('over', end) (bytes after the 1316-byte packet are read when a handler exists)"""
    n = min(len(dg), 1316)
    if n <= 6 or dg[0] != 0x80 or dg[1] != 0x8f:
        return 'ok'
    if n < 26:
        return 'stale'
    ib0, ib1, ns = dg[22] + 256 * dg[23], dg[24] + 256 * dg[25], dg[6] + 256 * dg[7]
    if ib0 < 11 or ib1 < ib0 + 1 or ns == 0:
        return 'ok'
    off, enc, psz = ib0 - 11, ib1 - ib0, n - 6
    if off + enc > psz + 1261 or (psz >= 41 and off + enc <= psz - 41):
        return 'ok'
    return ('over', off, 47 + off + enc) if 47 + off + enc > 1316 else 'stale'


def predictable(payload):
    """over-reads are compared as ASan verdicts: keep only those that start inside the packet and end inside
    its redzone, where ASan is certain to see them"""
    for h in payload.split(' ')[2:]:
        r = region([] if h == '-' else list(bytes.fromhex(h)))
        if isinstance(r, tuple) and (r[1] > 1268 or r[2] > 1416):
            return False
    return True


def gen_cases(rng, tier):
    for c in gen_cases_all(rng, tier):
        if predictable(c):
            yield c


def gen_cases_all(rng, tier):
    quick = tier == 'quick'
    rounds = 6 if quick else 150
    for _ in range(rounds):
        for cls, dg in mutants(rng, quick):
            hs = handlers(rng, must=((dg[6] + 256 * dg[7] - 1) & 0xffff) // 512 if len(dg) > 7 else None)
            pre = []
            for _k in range(rng.choice([0, 0, 1, 2])):
                pre.append(hx(packet(rng=rng, **valid(rng))) if rng.random() < 0.8
                           else hx([rng.randrange(256) for _ in range(rng.choice([3, 47, 1316, 1400]))]))
            yield 'shownet %s %s' % (hs, ' '.join(pre + [hx(dg)]))
    for _ in range(300 if quick else 20000):
        n = rng.choice([0, 1, 6, 7, 46, 47, 48, 60, 200, 1316, 1400, rng.randrange(1, 1400)])
        bs = [rng.randrange(256) for _ in range(n)]
        if n >= 2 and rng.random() < 0.8:
            bs[0], bs[1] = 0x80, 0x8f
        if n >= 26 and rng.random() < 0.6:
            bs[22:24] = le16(rng.choice([11, 12, 40]))
            bs[24:26] = le16(bs[22] + rng.choice([1, 5, 20, 1200]))
            bs[6:8] = le16(rng.choice([1, 2, 513]))
        yield 'shownet %s %s' % (handlers(rng), hx(bs))


def nontrivial(payload, md):
    return any('h:' in v and not v.startswith('h:-') for k, v in md.items() if k.startswith('s'))
