(* ShowNet: payload  shownet <u:init,...|-> <datagram> ...
   The model is faithful to the code as it is (finding C06-shownet-sizeof-pointer), so it is run like the
   harness runs the twins: once per stale byte (0x00 / 0xA5), each with its own state. *)
(* C06_SHOWNET_MODEL=fixed selects the model of the proposed fix (fixes-needing-test-edit/01), for checking a
   tree on which that fix has been applied *)
let sn_fixed = (try Sys.getenv "C06_SHOWNET_MODEL" = "fixed" with Not_found -> false)
let sn_handle n st = if sn_fixed then shownet_handle_fixed n st else shownet_handle n st
let sn_in d st = sn_fixed || sn_within d st
let shownet_op (args : string list) : string =
  match args with
  | _ :: spec :: dgs ->
    let st0 = if spec = "-" then [] else
      List.map (fun h -> match String.split_on_char ':' h with
                         | [u; i] -> (n_of_int (ios u), dbuf_of_s i) | _ -> failwith "bad handler")
               (String.split_on_char ',' spec) in
    let t = new_trace () in
    let sta = ref st0 and stb = ref st0 and stc = ref st0 in
    (* third instance: a persistent receive buffer (0xA5 where nothing was ever received) *)
    let persist = ref (List.init (int_of_n sN_PACKET_SIZE) (fun _ -> n_of_int 0xA5)) in
    let rec drop_l k l = if k <= 0 then l else match l with [] -> [] | _ :: r -> drop_l (k - 1) r in
    let twin = ref true and known = ref false and crash = ref false in
    let cap = int_of_n sN_PACKET_SIZE in
    let obs st hit =
      let hs = match hit with None -> "-" | Some u -> Printf.sprintf "%dx1" (int_of_n u) in
      "h:" ^ hs ^ String.concat "" (List.map (fun (u, b) -> Printf.sprintf "|%d:%s" (int_of_n u) (dbuf_s b)) st) in
    (try List.iter (fun dg ->
      let d = take_l cap (bytes_of_hex dg) in
      if not (sn_in d !sta) then known := true;
      let bufa, n = mkbuf_p cap d 0x00 in
      let bufb, _ = mkbuf_p cap d 0xA5 in
      persist := d @ drop_l (List.length d) !persist;
      match run bufa (sn_handle n !sta), run bufb (sn_handle n !stb), run !persist (sn_handle n !stc) with
      | Hazard Oob, _, _ | _, Hazard Oob, _ | _, _, Hazard Oob -> crash := true; raise Exit
      | Hazard h, _, _ | _, Hazard h, _ | _, _, Hazard h -> t.hz <- hazard_s h; raise Exit
      | Done (sa, ha), Done (sb, hb), Done (sc, hc) ->
        sta := sa; stb := sb; stc := sc;
        let oa = obs sa ha and ob = obs sb hb and oc = obs sc hc in
        if oa <> ob || oa <> oc then twin := false;
        t.cls <- ((match ha with None -> "drop" | Some _ -> "handled") ^ (if sn_in d !sta then "" else "!")) :: t.cls;
        t.steps <- oa :: t.steps)
      dgs with Exit -> ());
    let k = if !known then ";known=C06-shownet-sizeof-pointer" else "" in
    if !crash then "crash=ASAN:stack-buffer-overflow" ^ k ^ ";class=shownet:overread"
    else begin
      let r = trace_result_tw t "shownet" !twin in
      r ^ k
    end
  | _ -> "bad-args"
let () = register "shownet" shownet_op
