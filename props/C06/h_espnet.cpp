// C06 / ESP Net: twin real EspNetNode objects, datagrams delivered through SocketReady().
// payload: espnet <u:init,u:init,...|-> [@]<datagram hex> ...     ('@': datagram comes from our own address)
#include <memory>
#include <string>
#include <vector>
#include <map>
#include <sstream>
#include <iostream>
#include <queue>
#include <deque>
#include <list>
#include <set>
#include <algorithm>
#define private public
#define protected public
#include "plugins/espnet/EspNetNode.h"
#undef private
#undef protected
#include "h_common.h"
#include "ola/Callback.h"
#include "ola/network/IPV4Address.h"
#include "ola/network/Socket.h"

using ola::DmxBuffer;
using ola::network::IPV4Address;
using ola::plugin::espnet::EspNetNode;
using std::string;
using std::vector;

namespace {
struct EsTwin {
  EspNetNode node;
  vector<unsigned> unis;
  vector<DmxBuffer*> bufs;
  vector<int> calls;
  EsTwin() : node("") {}
  ~EsTwin() { for (size_t i = 0; i < bufs.size(); i++) delete bufs[i]; }
  void hit(unsigned idx) { calls[idx]++; }
  void setup(const string &spec) {
    node.m_interface = c06::iface();
    node.m_socket.Init();
    node.m_running = true;
    if (spec == "-") return;
    vector<string> hs = vh::split(spec, ',');
    calls.reserve(hs.size());
    for (size_t i = 0; i < hs.size(); i++) {
      vector<string> kv = vh::split(hs[i], ':');
      unis.push_back(vh::num(kv[0]));
      bufs.push_back(new DmxBuffer());
      c06::buf_init(bufs.back(), kv[1]);
      calls.push_back(0);
      node.SetHandler(unis.back(), bufs.back(), ola::NewCallback(this, &EsTwin::hit, static_cast<unsigned>(i)));
    }
  }
  // ref_ack / ref_reply: what SendEspAck(src, 0, 0) / SendEspPollReply(src) emit on a node with this configuration
  string deliver(uint8_t poison, const vector<uint8_t> &d, bool self,
                 const vector<uint8_t> &ref_ack, const vector<uint8_t> &ref_reply) {
    for (size_t i = 0; i < calls.size(); i++) calls[i] = 0;
    c06::g_sent.clear();
    c06::g_poison = poison;
    if (self) c06::set_rx(d, "10.0.0.1", 3333); else c06::set_rx(d);
    node.SocketReady();
    string r = "h:";
    bool any = false;
    for (size_t i = 0; i < calls.size(); i++)
      if (calls[i]) { r += (any ? "+" : "") + vh::str(unis[i]) + "x" + vh::str(calls[i]); any = true; }
    if (!any) r += "-";
    for (size_t i = 0; i < bufs.size(); i++) r += "|" + vh::str(unis[i]) + ":" + c06::buf_s(*bufs[i]);
    r += "|tx:";
    if (c06::g_sent.empty()) r += "-";
    for (size_t i = 0; i < c06::g_sent.size(); i++) {
      const vector<uint8_t> &p = c06::g_sent[i];
      if (i) r += "+";
      if (p == ref_ack) r += "ack";
      else if (p == ref_reply) r += "reply";
      else r += "?" + vh::hex(p.data(), p.size());
    }
    c06::g_sent.clear();
    return r;
  }
};

string do_espnet(const vector<string> &a) {
  if (a.size() < 3) return "bad-args";
  vector<uint8_t> ref_ack, ref_reply;
  {
    EsTwin ref;
    ref.setup("-");
    IPV4Address src;
    IPV4Address::FromString("10.0.0.2", &src);
    c06::g_sent.clear();
    ref.node.SendEspAck(src, 0, 0);
    ref.node.SendEspPollReply(src);
    if (c06::g_sent.size() != 2) return "bad-ref";
    ref_ack = c06::g_sent[0];
    ref_reply = c06::g_sent[1];
    c06::g_sent.clear();
  }
  EsTwin t[4];
  t[0].setup(a[1]);
  t[1].setup(a[1]);
  t[2].setup(a[1]);
  t[3].setup(a[1]);
  c06::Trace tr;
  for (size_t k = 2; k < a.size(); k++) {
    bool self = !a[k].empty() && a[k][0] == '@';
    vector<uint8_t> d = vh::unhex(self ? a[k].substr(1) : a[k]);
    string o0 = t[0].deliver(c06::POISON[0], d, self, ref_ack, ref_reply);
    string o1 = t[1].deliver(c06::POISON[1], d, self, ref_ack, ref_reply);
    string o2;
    { c06::PrevMode pm; o2 = t[2].deliver(c06::POISON[2], d, self, ref_ack, ref_reply); }
    string o3;
    { c06::KernelMode km; o3 = t[3].deliver(c06::POISON[3], d, self, ref_ack, ref_reply); }
    tr.add4(o0, o1, o2, o3);
  }
  return tr.result();
}
c06::Reg reg("espnet", do_espnet);
}  // namespace
