// C06 / SandNet: twin real SandNetNode objects, datagrams delivered through SocketReady(socket).
// payload: sandnet <g.u:init,...|-> [@][!]<datagram hex> ...   ('@': from our own address, '!': control socket)
#include <memory>
#include <string>
#include <vector>
#include <map>
#include <sstream>
#include <iostream>
#include <queue>
#include <deque>
#include <list>
#include <set>
#include <algorithm>
#define private public
#define protected public
#include "plugins/sandnet/SandNetNode.h"
#undef private
#undef protected
#include "h_common.h"
#include "ola/Callback.h"
#include "ola/network/IPV4Address.h"
#include "ola/network/Socket.h"
#include "ola/network/SocketAddress.h"

using ola::DmxBuffer;
using ola::network::IPV4Address;
using ola::network::IPV4SocketAddress;
using ola::plugin::sandnet::SandNetNode;
using std::string;
using std::vector;

namespace {
struct SaTwin {
  SandNetNode node;
  vector<string> keys;
  vector<DmxBuffer*> bufs;
  vector<int> calls;
  SaTwin() : node("") {}
  ~SaTwin() { for (size_t i = 0; i < bufs.size(); i++) delete bufs[i]; }
  void hit(unsigned idx) { calls[idx]++; }
  void setup(const string &spec) {
    node.m_interface = c06::iface();
    node.m_data_socket.Init();
    node.m_control_socket.Init();
    IPV4Address ip;
    IPV4Address::FromString("237.1.2.1", &ip);
    node.m_data_addr = IPV4SocketAddress(ip, 37900);
    node.m_control_addr = IPV4SocketAddress(ip, 37895);
    node.m_running = true;
    if (spec == "-") return;
    vector<string> hs = vh::split(spec, ',');
    calls.reserve(hs.size());
    for (size_t i = 0; i < hs.size(); i++) {
      vector<string> kv = vh::split(hs[i], ':');
      vector<string> gu = vh::split(kv[0], '.');
      keys.push_back(kv[0]);
      bufs.push_back(new DmxBuffer());
      c06::buf_init(bufs.back(), kv[1]);
      calls.push_back(0);
      node.SetHandler(vh::num(gu[0]), vh::num(gu[1]), bufs.back(),
                      ola::NewCallback(this, &SaTwin::hit, static_cast<unsigned>(i)));
    }
  }
  string deliver(uint8_t poison, const vector<uint8_t> &d, bool self, bool control) {
    for (size_t i = 0; i < calls.size(); i++) calls[i] = 0;
    c06::g_sent.clear();
    c06::g_poison = poison;
    if (self) c06::set_rx(d, "10.0.0.1", 37900); else c06::set_rx(d);
    node.SocketReady(control ? &node.m_control_socket : &node.m_data_socket);
    string r = "h:";
    bool any = false;
    for (size_t i = 0; i < calls.size(); i++)
      if (calls[i]) { r += (any ? "+" : "") + keys[i] + "x" + vh::str(calls[i]); any = true; }
    if (!any) r += "-";
    for (size_t i = 0; i < bufs.size(); i++) r += "|" + keys[i] + ":" + c06::buf_s(*bufs[i]);
    for (size_t i = 0; i < c06::g_sent.size(); i++)   // the receive path never sends
      r += "|tx?" + vh::hex(c06::g_sent[i].data(), c06::g_sent[i].size());
    c06::g_sent.clear();
    return r;
  }
};

string do_sandnet(const vector<string> &a) {
  if (a.size() < 3) return "bad-args";
  SaTwin t[4];
  t[0].setup(a[1]);
  t[1].setup(a[1]);
  t[2].setup(a[1]);
  t[3].setup(a[1]);
  c06::Trace tr;
  for (size_t k = 2; k < a.size(); k++) {
    string s = a[k];
    bool self = !s.empty() && s[0] == '@';
    if (self) s = s.substr(1);
    bool control = !s.empty() && s[0] == '!';
    if (control) s = s.substr(1);
    vector<uint8_t> d = vh::unhex(s);
    string o0 = t[0].deliver(c06::POISON[0], d, self, control);
    string o1 = t[1].deliver(c06::POISON[1], d, self, control);
    string o2;
    { c06::PrevMode pm; o2 = t[2].deliver(c06::POISON[2], d, self, control); }
    string o3;
    { c06::KernelMode km; o3 = t[3].deliver(c06::POISON[3], d, self, control); }
    tr.add4(o0, o1, o2, o3);
  }
  return tr.result();
}
c06::Reg reg("sandnet", do_sandnet);
}  // namespace
