(* REGENERATED from the repository headers on every run. Do not edit.  *)
From Coq Require Import NArith.
Local Open Scope N_scope.
Definition ES_PACKET_SIZE : N := 521.
Definition ES_HEAD_SIZE : N := 4.
Definition ES_POLL_SIZE : N := 5.
Definition ES_REPLY_SIZE : N := 33.
Definition ES_ACK_SIZE : N := 6.
Definition ES_DATA_SIZE : N := 521.
Definition ES_OFF_poll_type : N := 4.
Definition ES_OFF_universe : N := 4.
Definition ES_OFF_type : N := 6.
Definition ES_OFF_size : N := 7.
Definition ES_OFF_data : N := 9.
Definition ES_POLL : N := 1163087952.
Definition ES_REPLY : N := 1163087954.
Definition ES_DMX : N := 1163084868.
Definition ES_ACK : N := 1163084112.
Definition ES_DATA_RAW : N := 1.
Definition ES_DATA_PAIRS : N := 2.
Definition ES_DATA_RLE : N := 4.
Definition ES_REPEAT_VALUE : N := 254.
Definition ES_ESCAPE_VALUE : N := 253.
