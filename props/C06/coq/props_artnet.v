(* ---------------------------------------------------------------- Art-Net
   Receive buffer: the artnet_packet on SocketReady's stack (1228 bytes).  n = bytes received,
   st = net address, port addresses of output ports 0, 1 / input port 0, the DMX buffers, the known UIDs,
   subscription and reply-on-change flags (any values). *)
Theorem c06_artnet_layout :
  (AN_PACKET_SIZE, AN_HEADER_SIZE, AN_DMX_HDR, AN_TRQ_HDR, AN_TD_HDR, AN_TC_SIZE, AN_RDM_HDR, AN_REPLY_MIN, AN_UID_SIZE) =
  (1228, 10, 8, 14, 18, 14, 14, 197, 6).
Proof. reflexivity. Qed.
Print Assumptions c06_artnet_layout.

(* every constant the artnet model takes from the repository (sizeof / offsetof of the packed wire structs, opcodes,
   vectors, masks), regenerated into GenArtNet.v on each run, pinned to the value the proofs and statements were written
   for: a change of the wire layout or of a constant in /repo breaks this obligation deterministically *)
Theorem c06_artnet_consts :
  AN_PACKET_SIZE = 1228 /\
  AN_HEADER_SIZE = 10 /\
  AN_OFF_op_code = 8 /\
  AN_MAX_PORTS = 4 /\
  AN_VERSION = 14 /\
  AN_RDM_VERSION = 1 /\
  AN_TOD_FLUSH_COMMAND = 1 /\
  AN_MAX_RDM_ADDRESS_COUNT = 32 /\
  AN_UID_SIZE = 6 /\
  AN_OP_POLL = 8192 /\
  AN_OP_REPLY = 8448 /\
  AN_OP_DMX = 20480 /\
  AN_OP_SYNC = 20992 /\
  AN_OP_TODREQUEST = 32768 /\
  AN_OP_TODDATA = 33024 /\
  AN_OP_TODCONTROL = 33280 /\
  AN_OP_RDM = 33536 /\
  AN_OP_RDM_SUB = 33792 /\
  AN_OP_TIME_CODE = 38656 /\
  AN_OP_IP_PROGRAM = 63488 /\
  AN_POLL_SIZE = 4 /\
  AN_POLL_version = 0 /\
  AN_POLL_talk_to_me = 2 /\
  AN_REPLY_MIN = 197 /\
  AN_REPLY_net_address = 8 /\
  AN_REPLY_number_ports = 162 /\
  AN_REPLY_port_types = 164 /\
  AN_REPLY_sw_out = 180 /\
  AN_DMX_HDR = 8 /\
  AN_DMX_version = 0 /\
  AN_DMX_universe = 4 /\
  AN_DMX_net = 5 /\
  AN_DMX_length = 6 /\
  AN_DMX_data = 8 /\
  AN_TRQ_HDR = 14 /\
  AN_TRQ_version = 0 /\
  AN_TRQ_net = 11 /\
  AN_TRQ_command = 12 /\
  AN_TRQ_address_count = 13 /\
  AN_TRQ_addresses = 14 /\
  AN_TD_HDR = 18 /\
  AN_TD_version = 0 /\
  AN_TD_rdm_version = 2 /\
  AN_TD_net = 11 /\
  AN_TD_command_response = 12 /\
  AN_TD_address = 13 /\
  AN_TD_uid_total = 14 /\
  AN_TD_uid_count = 17 /\
  AN_TD_tod = 18 /\
  AN_TC_SIZE = 14 /\
  AN_TC_version = 0 /\
  AN_TC_net = 11 /\
  AN_TC_command = 12 /\
  AN_TC_address = 13 /\
  AN_RDM_HDR = 14 /\
  AN_RDM_version = 0 /\
  AN_RDM_rdm_version = 2 /\
  AN_RDM_net = 11 /\
  AN_RDM_command = 12 /\
  AN_RDM_address = 13 /\
  AN_RDM_data = 14 /\
  AN_IP_SIZE = 24 /\
  AN_IP_version = 0 /\
  AN_REPLY_TX_SIZE = 239 /\
  RDMH_SIZE = 23 /\
  RDMH_sub_start_code = 0 /\
  RDMH_message_length = 1 /\
  RDMH_destination_uid = 2 /\
  RDMH_command_class = 19 /\
  RDMH_param_data_length = 22 /\
  RDM_START_CODE = 204 /\
  RDM_SUB_START_CODE = 1 /\
  RDM_CC_DISCOVER = 16 /\
  RDM_CC_GET = 32 /\
  RDM_CC_SET = 48.
Proof. repeat split; reflexivity. Qed.
Print Assumptions c06_artnet_consts.

Theorem c06_artnet_no_oob : forall buf n st,
  bytes_ok buf = true -> len buf = 1228 -> n <= len buf ->
  run buf (artnet_handle n st) <> Hazard Oob.
Proof. intros buf n st Hb Hl Hn. apply (bounded_no_hazard n); auto. apply artnet_bounded. unfold AN_PACKET_SIZE. lia. Qed.
Print Assumptions c06_artnet_no_oob.

Theorem c06_artnet_terminates : forall buf n st,
  bytes_ok buf = true -> len buf = 1228 -> n <= len buf ->
  run buf (artnet_handle n st) <> Hazard OutOfFuel.
Proof. intros buf n st Hb Hl Hn. apply (bounded_no_hazard n); auto. apply artnet_bounded. unfold AN_PACKET_SIZE. lia. Qed.
Print Assumptions c06_artnet_terminates.

Theorem c06_artnet_no_div0 : forall buf n st,
  bytes_ok buf = true -> len buf = 1228 -> n <= len buf ->
  run buf (artnet_handle n st) <> Hazard Div0 /\ AN_UID_SIZE <> 0.
Proof.
  intros buf n st Hb Hl Hn. split; [|discriminate].
  apply (bounded_no_hazard n); auto. apply artnet_bounded. unfold AN_PACKET_SIZE. lia.
Qed.
Print Assumptions c06_artnet_no_div0.

(* outputs and next state do not depend on what follows the datagram in the receive buffer *)
Theorem c06_artnet_stale_free : forall d t1 t2 st,
  bytes_ok d = true -> len d + len t1 = 1228 -> len t2 = len t1 ->
  run (d ++ t1) (artnet_handle (len d) st) = run (d ++ t2) (artnet_handle (len d) st).
Proof.
  intros d t1 t2 st Hb Hl _. apply bounded_stale_free; auto. apply artnet_bounded.
  unfold AN_PACKET_SIZE. lia.
Qed.
Print Assumptions c06_artnet_stale_free.

(* independent of the capacity and of what the socket layer reports: for a receive buffer of ANY size and ANY reported
   length n < 2^31 the handler returns (its loops end within their fuel: port / address / UID loops: fuel = the clamped count) and never divides by zero; and if
   the buffer does hold n bytes it reads nothing at or beyond n *)
Theorem c06_artnet_any_length : forall buf n st,
  bytes_ok buf = true -> n <= 2147483647 ->
  (forall z, z <> Oob -> run buf (artnet_handle n st) <> Hazard z) /\
  (n <= len buf -> forall z, run buf (artnet_handle n st) <> Hazard z).
Proof.
  intros buf n st Hb Hn. pose proof (artnet_bounded_any n st Hn) as B. split.
  - intros z Hz E. apply Hz. exact (nofail_run _ (bounded_nofail _ _ B) buf z Hb E).
  - intros Hl z. apply (bounded_no_hazard n); assumption.
Qed.
Print Assumptions c06_artnet_any_length.

(* history level: any sequence of datagrams (each with its sender's address), each followed in the receive buffer by arbitrary stale bytes, from any
   initial state: no datagram ends in a hazard, and every output and the final state are the same whatever the
   stale tails are *)
Theorem c06_artnet_history : forall (h1 h2 : list (N * list N * list N)) s,
  Forall (fun x => let '(_, d, t) := x in bytes_ok d = true /\ bytes_ok t = true /\ len d <= 1228) h1 ->
  Forall2 (fun x y => fst x = fst y) h1 h2 ->
  (exists r, run_hist (fun from n st => artnet_handle n (set_from st from)) (fun _ r => fst r) s h1 = Done r) /\
  run_hist (fun from n st => artnet_handle n (set_from st from)) (fun _ r => fst r) s h1 = run_hist (fun from n st => artnet_handle n (set_from st from)) (fun _ r => fst r) s h2.
Proof.
  intros h1 h2 s Hok H2.
  assert (Hb : forall i n st, n <= AN_PACKET_SIZE -> bounded n ((fun from n st => artnet_handle n (set_from st from)) i n st)) by (intros; apply artnet_bounded; assumption).
  split.
  - apply (hist_safe AN_PACKET_SIZE _ _ Hb). exact Hok.
  - apply (hist_stale_free AN_PACKET_SIZE _ _ Hb); assumption.
Qed.
Print Assumptions c06_artnet_history.

(* an ArtDmx for universe 0x23 on net 4 carrying 3 slots, then stale bytes: accepted, buffer replaced *)
Example ex_artnet_handled :
  run ([65; 114; 116; 45; 78; 101; 116; 0; 0; 80] ++ [0; 14; 0; 1; 35; 4; 0; 3] ++ [7; 8; 9] ++ repeat 165 1207)
      (artnet_handle 21 (mk_an_state 4 35 37 None [] false true 256 None 2 false (None, None) (None, None) None))
  = Done (mk_an_state 4 35 37 (Some [7; 8; 9]) [] false true 256 None 2 false (Some (2, Some [7; 8; 9]), None) (None, None) None, [EvData 0]).
Proof. vm_compute. reflexivity. Qed.
