(* ---------------------------------------------------------------- Art-Net
   Receive buffer: the artnet_packet on SocketReady's stack (1228 bytes).  n = bytes received,
   st = net address, port addresses of output ports 0, 1 / input port 0, the DMX buffers, the known UIDs,
   subscription and reply-on-change flags (any values). *)
Theorem c06_artnet_layout :
  (AN_PACKET_SIZE, AN_HEADER_SIZE, AN_DMX_HDR, AN_TRQ_HDR, AN_TD_HDR, AN_TC_SIZE, AN_RDM_HDR, AN_REPLY_MIN, AN_UID_SIZE) =
  (1228, 10, 8, 14, 18, 14, 14, 197, 6).
Proof. reflexivity. Qed.
Print Assumptions c06_artnet_layout.

Theorem c06_artnet_no_oob : forall buf n st,
  bytes_ok buf = true -> len buf = 1228 -> n <= len buf ->
  run buf (artnet_handle n st) <> Hazard Oob.
Proof. intros buf n st Hb Hl Hn. apply (bounded_no_hazard n); auto. apply artnet_bounded. unfold AN_PACKET_SIZE. lia. Qed.
Print Assumptions c06_artnet_no_oob.

Theorem c06_artnet_terminates : forall buf n st,
  bytes_ok buf = true -> len buf = 1228 -> n <= len buf ->
  run buf (artnet_handle n st) <> Hazard OutOfFuel.
Proof. intros buf n st Hb Hl Hn. apply (bounded_no_hazard n); auto. apply artnet_bounded. unfold AN_PACKET_SIZE. lia. Qed.
Print Assumptions c06_artnet_terminates.

Theorem c06_artnet_no_div0 : forall buf n st,
  bytes_ok buf = true -> len buf = 1228 -> n <= len buf ->
  run buf (artnet_handle n st) <> Hazard Div0 /\ AN_UID_SIZE <> 0.
Proof.
  intros buf n st Hb Hl Hn. split; [|discriminate].
  apply (bounded_no_hazard n); auto. apply artnet_bounded. unfold AN_PACKET_SIZE. lia.
Qed.
Print Assumptions c06_artnet_no_div0.

(* outputs and next state do not depend on what follows the datagram in the receive buffer *)
Theorem c06_artnet_stale_free : forall d t1 t2 st,
  bytes_ok d = true -> len d + len t1 = 1228 -> len t2 = len t1 ->
  run (d ++ t1) (artnet_handle (len d) st) = run (d ++ t2) (artnet_handle (len d) st).
Proof.
  intros d t1 t2 st Hb Hl _. apply bounded_stale_free; auto. apply artnet_bounded.
  unfold AN_PACKET_SIZE. lia.
Qed.
Print Assumptions c06_artnet_stale_free.

(* an ArtDmx for universe 0x23 on net 4 carrying 3 slots, then stale bytes: accepted, buffer replaced *)
Example ex_artnet_handled :
  run ([65; 114; 116; 45; 78; 101; 116; 0; 0; 80] ++ [0; 14; 0; 1; 35; 4; 0; 3] ++ [7; 8; 9] ++ repeat 165 1207)
      (artnet_handle 21 (mk_an_state 4 35 37 None [] false true 256 None))
  = Done (mk_an_state 4 35 37 (Some [7; 8; 9]) [] false true 256 None, [EvData 0]).
Proof. vm_compute. reflexivity. Qed.
