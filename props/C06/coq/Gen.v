(* REGENERATED from the repository headers on every run. Do not edit.  *)
From Coq Require Import NArith.
Local Open Scope N_scope.
Definition DMX_UNIVERSE_SIZE : N := 512.
Definition REPEAT_FLAG : N := 128.
