(* C06 — PathportNode::SocketReady / ValidateHeader / HandleDmxData / SendArpReply
   (plugins/pathport/PathportNode.cpp, unchanged).  The receive buffer is the `pathport_packet_s packet`
   on SocketReady's stack (PP_PACKET_SIZE bytes); n is what recvfrom returned.
   Only the FIRST pdu of a datagram is looked at (the code has a TODO for more). *)
From OlaBase Require Import Bytes.
From C06 Require Import Gen GenPathport Prog Dmx.
Local Open Scope N_scope.

(* m_handlers: std::map<uint8_t, {DmxBuffer*, closure}> (the closures only count calls) *)
Definition pp_handlers := list (N * dbuf).
Fixpoint pp_find (st : pp_handlers) (u : N) : option dbuf :=
  match st with [] => None | (k, b) :: r => if k =? u then Some b else pp_find r u end.
Fixpoint pp_update (st : pp_handlers) (u : N) (nb : dbuf) : pp_handlers :=
  match st with [] => [] | (k, b) :: r => if k =? u then (k, nb) :: r else (k, b) :: pp_update r u nb end.

(* node state the receive path reads: m_device_id, the handlers; from_self = (source.Host() ==
   m_interface.ip_address), our_ip = the 4 bytes of m_interface.ip_address, seq = m_sequence_number *)
Record pp_state := { pp_dev : N; pp_self : bool; pp_ip : list N; pp_seq : N; pp_hs : pp_handlers }.

(* result: handler buffers, universes whose closure ran (latest first), datagram sent (ARP reply) *)
Definition pp_out := (pp_handlers * list N * option (list N))%type.

Definition be16 (x : N) : list N := [u8 (x / 256); u8 x].
Definition be32 (x : N) : list N := be16 (u16 (x / 65536)) ++ be16 (u16 x).

(* SendArpReply(): PopulateHeader(PATHPORT_STATUS_GROUP) + arp reply pdu; every byte sent is assigned *)
Definition pp_arp_reply (st : pp_state) : list N :=
  be16 PP_PROTOCOL ++ [PP_MAJOR_VERSION; PP_MINOR_VERSION] ++ be16 (pp_seq st) ++ repeat 0 6
  ++ be32 (pp_dev st) ++ be32 PP_STATUS_GROUP
  ++ be16 PP_ARP_REPLY ++ be16 PP_ARP_REPLY_SIZE
  ++ be32 (pp_dev st) ++ pp_ip st ++ [PP_NODE_MANUF_ZP_TECH; PP_NODE_CLASS_DMX_NODE; PP_NODE_DEVICE_PATHPORT; 1].

Definition PP_D : N := PP_OFF_pdu + PP_OFF_pdu_d.      (* offset of pdu->d.data in the receive buffer *)

(* while (data_size > 0 && universe <= MAX_UNIVERSES) { ... }   pos = offset of dmx_data in the receive buffer *)
Fixpoint pp_loop (pos data_size offset universe : N) (hs : pp_handlers) (hits : list N) (fuel : nat)
  : prog (pp_handlers * list N) :=
  match fuel with
  | O => Fail OutOfFuel
  | S k =>
    if (0 <? data_size) && (universe <=? PP_MAX_UNIVERSES) then
      (* channels_for_this_universe = std::min(data_size, DMX_UNIVERSE_SIZE - offset) *)
      let ch := N.min data_size (usub32 DMX_UNIVERSE_SIZE offset) in
      (* m_handlers.find(universe): the key type is uint8_t *)
      match pp_find hs (u8 universe) with
      | Some b =>
        ReadBlk pos ch (fun d =>
          pp_loop (pos + ch) (usub32 data_size ch) 0 (universe + 1)
                  (pp_update hs (u8 universe) (set_range b offset d)) (universe :: hits) k)
      | None => pp_loop (pos + ch) (usub32 data_size ch) 0 (universe + 1) hs hits k
      end
    else Ret (hs, hits)
  end.

Definition PP_LOOP_FUEL : nat := S (S (N.to_nat PP_MAX_UNIVERSES)).

Definition pathport_handle (n : N) (st : pp_state) : prog pp_out :=
  let drop_ := Ret (pp_hs st, [], None) in
  (* skip packets sent by us *)
  if pp_self st then drop_
  (* if (packet_size < sizeof(packet.header)) return; *)
  else if n <? PP_HEADER_SIZE then drop_
  else
    let psz := n - PP_HEADER_SIZE in
    (* ValidateHeader: protocol && version_major && version_minor (short-circuit) *)
    rd16be PP_OFF_protocol (fun proto =>
    if negb (proto =? PP_PROTOCOL) then drop_
    else Read PP_OFF_version_major (fun maj =>
    if negb (maj =? PP_MAJOR_VERSION) then drop_
    else Read PP_OFF_version_minor (fun mnr =>
    if negb (mnr =? PP_MINOR_VERSION) then drop_
    else rd32be PP_OFF_destination (fun dest =>
    if negb ((dest =? pp_dev st) || (dest =? PP_ID_BROADCAST) || (dest =? PP_STATUS_GROUP)
             || (dest =? PP_CONFIG_GROUP) || (dest =? PP_DATA_GROUP)) then drop_
    (* if (packet_size < sizeof(pathport_pdu_header)) return; *)
    else if psz <? PP_PDU_HEADER_SIZE then drop_
    else
      let size := psz - PP_PDU_HEADER_SIZE in
      rd16be (PP_OFF_pdu + PP_OFF_pdu_type) (fun ty =>
      if ty =? PP_DATA then
        (* HandleDmxData(pdu->d.data, packet_size) *)
        if size <? PP_PDU_DATA_SIZE then drop_
        else rd16be (PP_D + PP_OFF_d_type) (fun dty =>
          if negb (dty =? PP_XDMX_DATA_FLAT) then drop_
          else Read (PP_D + PP_OFF_d_start_code) (fun sc =>
            if negb (sc =? 0) then drop_
            else rd16be (PP_D + PP_OFF_d_offset) (fun off16 =>
              let offset := off16 mod DMX_UNIVERSE_SIZE in
              let universe := off16 / DMX_UNIVERSE_SIZE in
              rd16be (PP_D + PP_OFF_d_channel_count) (fun count =>
                (* std::min(channel_count, (uint16_t)(size - sizeof(pathport_pdu_data))) *)
                let data_size := N.min count (u16 (usub32 size PP_PDU_DATA_SIZE)) in
                bind (pp_loop (PP_D + PP_OFF_d_data) data_size offset universe (pp_hs st) [] PP_LOOP_FUEL)
                     (fun r => Ret (fst r, snd r, None))))))
      else if ty =? PP_ARP_REQUEST then Ret (pp_hs st, [], Some (pp_arp_reply st))
      else drop_ (* PATHPORT_ARP_REPLY and everything else: logged only *) ))))).

(* ---------------------------------------------------------------- proof *)
Lemma usub32_small a b : b <= a -> a < 4294967296 -> usub32 a b = a - b.
Proof.
  intros Hb Ha. unfold usub32, u32. rewrite (N.mod_small b) by lia.
  replace (a + 4294967296 - b) with ((a - b) + 1 * 4294967296) by lia.
  rewrite N.mod_add by lia. apply N.mod_small. lia.
Qed.

(* every SetRange source lies below the received length; the loop ends within the fuel *)
Lemma pp_loop_bounded n : forall fuel pos ds off uni hs hits,
  pos + ds <= n -> ds < 4294967296 -> off < DMX_UNIVERSE_SIZE ->
  uni <= PP_MAX_UNIVERSES + 1 -> PP_MAX_UNIVERSES + 2 <= uni + N.of_nat fuel ->
  bounded n (pp_loop pos ds off uni hs hits fuel).
Proof.
  induction fuel as [|k IH]; intros pos ds off uni hs hits Hp Hd Ho Hu Hf; cbn [pp_loop].
  - lia.
  - destruct ((0 <? ds) && (uni <=? PP_MAX_UNIVERSES)) eqn:E; [|constructor].
    apply andb_prop in E. destruct E as [E1 E2]. apply N.ltb_lt in E1. apply N.leb_le in E2.
    cbv zeta. unfold DMX_UNIVERSE_SIZE in *.
    rewrite (usub32_small 512 off) by lia.
    assert (Hm : N.min ds (512 - off) <= ds) by lia.
    assert (Hm1 : 1 <= N.min ds (512 - off)) by lia.
    rewrite (usub32_small ds (N.min ds (512 - off))) by lia.
    destruct (pp_find hs (u8 uni)).
    + apply bBlk; [right; lia|]. intros dat Hl _. apply IH; lia.
    + apply IH; lia.
Qed.

Lemma pathport_bounded_any n st : n <= 2147483647 -> bounded n (pathport_handle n st).
Proof.
  intros Hn. unfold pathport_handle, PP_D, PP_PACKET_SIZE, PP_HEADER_SIZE, PP_PDU_HEADER_SIZE, PP_PDU_DATA_SIZE,
    PP_OFF_protocol, PP_OFF_version_major, PP_OFF_version_minor, PP_OFF_destination, PP_OFF_pdu, PP_OFF_pdu_type,
    PP_OFF_pdu_d, PP_OFF_d_type, PP_OFF_d_start_code, PP_OFF_d_offset, PP_OFF_d_channel_count, PP_OFF_d_data in *.
  cbv zeta.
  repeat bstep.
  apply bounded_bind; [|intros a; constructor].
  repeat match goal with H : (_ <? _) = false |- _ => apply N.ltb_ge in H end.
  rewrite (usub32_small (n - 20 - 4) 8) by lia.
  assert (H16 : u16 (n - 20 - 4 - 8) <= n - 20 - 4 - 8) by (unfold u16; apply N.mod_le; discriminate).
  assert (H16b : u16 (n - 20 - 4 - 8) < 65536) by apply u16_lt.
  apply pp_loop_bounded.
  - lia.
  - lia.
  - unfold DMX_UNIVERSE_SIZE. apply N.mod_lt. discriminate.
  - unfold PP_MAX_UNIVERSES. unfold DMX_UNIVERSE_SIZE.
    match goal with |- ?q / 512 <= _ => assert (H512 : q / 512 < 128) by (apply N.div_lt_upper_bound; lia) end. lia.
  - change (N.of_nat PP_LOOP_FUEL) with 129. unfold PP_MAX_UNIVERSES.
    match goal with |- context [?q / ?d] => generalize (q / d); intros end. lia.
Qed.

(* for the capacity of the real receive buffer *)
Lemma pathport_bounded n st : n <= PP_PACKET_SIZE -> bounded n (pathport_handle n st).
Proof. intros Hn. apply pathport_bounded_any. unfold PP_PACKET_SIZE in Hn. lia. Qed.
