(* ---------------------------------------------------------------- ShowNet
   Receive buffer: the shownet_packet on SocketReady's stack (1316 bytes).  n = bytes received,
   st = the registered handlers (any universes, any buffers).  `shownet_handle` models the code as it
   is, which computes the received-data size with sizeof of a pointer (known finding
   C06-shownet-sizeof-pointer; ShowNetNodeTest depends on the lenient bound, so the tree is not fixed):
   the no-Oob and stale-free clauses are REFUTED for it and proved only for the (datagram, state) pairs
   on which the handler reads nothing at or beyond the received length (`sn_within`).  Termination
   and absence of division by zero hold for every datagram.  `shownet_handle_fixed` is the handler
   with the proposed (unapplied) fix: for it all clauses are proved. *)
Theorem c06_shownet_layout :
  (SN_PACKET_SIZE, SN_HEADER_SIZE, SN_COMPRESSED_SIZE, SN_COMPRESSED_DATA_LENGTH, SN_OFF_data, SN_PTR_SIZE) =
  (1316, 6, 1310, 1269, 41, 8).
Proof. reflexivity. Qed.
Print Assumptions c06_shownet_layout.

(* every constant the shownet model takes from the repository (sizeof / offsetof of the packed wire structs, opcodes,
   vectors, masks), regenerated into GenShowNet.v on each run, pinned to the value the proofs and statements were written
   for: a change of the wire layout or of a constant in /repo breaks this obligation deterministically *)
Theorem c06_shownet_consts :
  SN_PACKET_SIZE = 1316 /\
  SN_HEADER_SIZE = 6 /\
  SN_COMPRESSED_SIZE = 1310 /\
  SN_COMPRESSED_DATA_LENGTH = 1269 /\
  SN_OFF_type = 0 /\
  SN_OFF_netSlot = 0 /\
  SN_OFF_slotSize = 8 /\
  SN_OFF_indexBlock = 16 /\
  SN_OFF_data = 41 /\
  SN_MAGIC_INDEX_OFFSET = 11 /\
  SN_COMPRESSED_DMX_PACKET = 32911 /\
  SN_PTR_SIZE = 8 /\
  DMX_UNIVERSE_SIZE = 512 /\
  REPEAT_FLAG = 128.
Proof. repeat split; reflexivity. Qed.
Print Assumptions c06_shownet_consts.

Theorem c06_shownet_terminates : forall buf n st,
  bytes_ok buf = true -> run buf (shownet_handle n st) <> Hazard OutOfFuel.
Proof. intros buf n st Hb E. pose proof (nofail_run _ (shownet_nofail n st) buf _ Hb E). discriminate. Qed.
Print Assumptions c06_shownet_terminates.

Theorem c06_shownet_no_div0 : forall buf n st,
  bytes_ok buf = true -> run buf (shownet_handle n st) <> Hazard Div0 /\ DMX_UNIVERSE_SIZE <> 0.
Proof.
  intros buf n st Hb. split; [|discriminate].
  intros E. pose proof (nofail_run _ (shownet_nofail n st) buf _ Hb E). discriminate.
Qed.
Print Assumptions c06_shownet_no_div0.

(* "never fails to return", loop by loop.  RunLengthEncoder::Decode (ShowNet, SandNet): wherever it is pointed
   (any base, any length < 2^32, any buffer) it ends within fuel = length + 1; measure: length - i, every turn
   consumes at least the flag byte *)
Theorem c06_rle_decode_returns : forall buf start base length b,
  bytes_ok buf = true -> length < 4294967296 ->
  run buf (rle_decode start base length b) <> Hazard OutOfFuel.
Proof.
  intros buf start base length b Hb Hl E.
  pose proof (nofail_run _ (rle_decode_nofail start base length b Hl) buf _ Hb E) as H. discriminate H.
Qed.
Print Assumptions c06_rle_decode_returns.

(* a full-size datagram whose raw block is data[1268..1270): one byte past the packet is read *)
Definition sn_over : list N :=
  [128; 143; 10; 0; 0; 2] ++ [1; 0] ++ repeat 0 6 ++ [2; 0] ++ repeat 0 6 ++ [255; 4; 1; 5] ++ repeat 0 6
  ++ repeat 0 15 ++ repeat 7 1269.
Theorem c06_shownet_no_oob_refuted : exists buf n st,
  bytes_ok buf = true /\ len buf = 1316 /\ n <= len buf /\ run buf (shownet_handle n st) = Hazard Oob.
Proof. exists sn_over, 1316, [(0, None)]. vm_compute. repeat split; try reflexivity. discriminate. Qed.
Print Assumptions c06_shownet_no_oob_refuted.

(* a 49-byte datagram that claims a 4-byte raw block: two of the four slots come from the stale tail *)
Definition sn_short : list N :=
  [128; 143; 10; 0; 0; 2] ++ [1; 0] ++ repeat 0 6 ++ [4; 0] ++ repeat 0 6 ++ [11; 0; 15; 0] ++ repeat 0 6
  ++ repeat 0 15 ++ [1; 2].
Theorem c06_shownet_stale_free_refuted : exists d t1 t2 st,
  bytes_ok d = true /\ len d + len t1 = 1316 /\ len t2 = len t1 /\
  run (d ++ t1) (shownet_handle (len d) st) <> run (d ++ t2) (shownet_handle (len d) st).
Proof.
  exists sn_short, (repeat 0 1267), (repeat 165 1267), [(0, None)].
  repeat split; try reflexivity. vm_compute. discriminate.
Qed.
Print Assumptions c06_shownet_stale_free_refuted.

(* outside the finding: when the handler, run on the datagram alone, completes (it then read nothing at or
   beyond the received length), no byte beyond the capacity is read and the result does not depend on the
   stale tail, whatever the tail is *)
Theorem c06_shownet_no_oob_partial : forall d t st,
  sn_within d st = true -> run (d ++ t) (shownet_handle (len d) st) <> Hazard Oob.
Proof.
  intros d t st H. unfold sn_within, completes in H.
  destruct (run d (shownet_handle (len d) st)) as [a|h] eqn:E; [|discriminate].
  rewrite (run_app_mono _ _ t _ E). discriminate.
Qed.
Print Assumptions c06_shownet_no_oob_partial.

Theorem c06_shownet_stale_free_partial : forall d t1 t2 st,
  sn_within d st = true ->
  run (d ++ t1) (shownet_handle (len d) st) = run (d ++ t2) (shownet_handle (len d) st).
Proof.
  intros d t1 t2 st H. unfold sn_within, completes in H.
  destruct (run d (shownet_handle (len d) st)) as [a|h] eqn:E; [|discriminate].
  rewrite (run_app_mono _ _ t1 _ E), (run_app_mono _ _ t2 _ E). reflexivity.
Qed.
Print Assumptions c06_shownet_stale_free_partial.

(* the guard, syntactically: `sn_syn d st` is a boolean over the datagram's own fields, in the handler's test
   order (n <= 6; type; indexBlock[0] received and >= 11; indexBlock[1] received; enc_len >= 1 and netSlot <> 0;
   not beyond the lenient bound n + 1255; slotSize <> 0; a handler exists; 47 + data_offset + enc_len <= n).
   It implies sn_within; conversely sn_within implies its header part `sn_hdr` (all of the above except the
   last conjunct).  The gap between the two is the data stage only: an RLE stream that stops early, or a
   SetRange that clamps its copy, may leave the unreceived part of a claimed block unread. *)
Theorem c06_shownet_guard_syntactic : forall d st,
  bytes_ok d = true -> len d <= 1316 ->
  (sn_syn d st = true -> sn_within d st = true) /\ (sn_within d st = true -> sn_hdr d st = true).
Proof. intros d st Hb Hn. split; [apply sn_syn_within|apply sn_within_hdr]; auto. Qed.
Print Assumptions c06_shownet_guard_syntactic.

Theorem c06_shownet_syntactic_partial : forall d t1 t2 st,
  bytes_ok d = true -> len d <= 1316 -> sn_syn d st = true ->
  run (d ++ t1) (shownet_handle (len d) st) <> Hazard Oob /\
  run (d ++ t1) (shownet_handle (len d) st) = run (d ++ t2) (shownet_handle (len d) st).
Proof.
  intros d t1 t2 st Hb Hn Hs. pose proof (sn_syn_within d st Hb Hn Hs) as H.
  unfold sn_within, completes in H.
  destruct (run d (shownet_handle (len d) st)) as [a|h] eqn:E; [|discriminate].
  rewrite (run_app_mono _ _ t1 _ E), (run_app_mono _ _ t2 _ E). split; [discriminate|reflexivity].
Qed.
Print Assumptions c06_shownet_syntactic_partial.

(* the handler with the proposed fix (fixes-needing-test-edit/01): all clauses, every datagram *)
Theorem c06_shownet_proposedfix_safe : forall buf n st h,
  bytes_ok buf = true -> len buf = 1316 -> n <= len buf ->
  run buf (shownet_handle_fixed n st) <> Hazard h.
Proof.
  intros buf n st h Hb Hl Hn. apply (bounded_no_hazard n); auto.
  apply shownet_fixed_bounded. unfold SN_PACKET_SIZE. lia.
Qed.
Print Assumptions c06_shownet_proposedfix_safe.

Theorem c06_shownet_proposedfix_stale_free : forall d t1 t2 st,
  bytes_ok d = true -> len d + len t1 = 1316 -> len t2 = len t1 ->
  run (d ++ t1) (shownet_handle_fixed (len d) st) = run (d ++ t2) (shownet_handle_fixed (len d) st).
Proof.
  intros d t1 t2 st Hb Hl _. apply bounded_stale_free; auto. apply shownet_fixed_bounded.
  unfold SN_PACKET_SIZE. lia.
Qed.
Print Assumptions c06_shownet_proposedfix_stale_free.

(* history level, for the code as it is: any sequence of datagrams each satisfying the state-independent syntactic
   guard `sn_all` (sn_syn for a node that has a handler for the datagram's own universe), from any handler state,
   with arbitrary stale tails: no hazard, and all outputs and the final state independent of the tails *)
Theorem c06_shownet_history_partial : forall (h1 h2 : list (unit * list N * list N)) st,
  Forall (fun x => let '(_, d, _) := x in bytes_ok d = true /\ len d <= 1316 /\ sn_all d = true) h1 ->
  Forall2 (fun x y => fst x = fst y) h1 h2 ->
  run_hist sn_step sn_next st h1 = run_hist sn_step sn_next st h2 /\
  exists r, run_hist sn_step sn_next st h1 = Done r.
Proof.
  intros h1 h2 st Hok H2. apply hist_within_stale_free; [exact H2|].
  assert (E : map fst h1 = map (fun d => (tt, d)) (map (fun x => snd (fst x)) h1)).
  { rewrite map_map. apply map_ext. intros [[[] d] t]. reflexivity. }
  rewrite E. apply sn_hist_within. apply Forall_map.
  eapply Forall_impl; [|exact Hok]. intros [[[] d] t] H. exact H.
Qed.
Print Assumptions c06_shownet_history_partial.

(* and with the proposed fix: every history *)
Theorem c06_shownet_proposedfix_history : forall (h1 h2 : list (unit * list N * list N)) st,
  Forall (fun x => let '(_, d, t) := x in bytes_ok d = true /\ bytes_ok t = true /\ len d <= 1316) h1 ->
  Forall2 (fun x y => fst x = fst y) h1 h2 ->
  (exists r, run_hist (fun (_ : unit) n s => shownet_handle_fixed n s) sn_next st h1 = Done r) /\
  run_hist (fun (_ : unit) n s => shownet_handle_fixed n s) sn_next st h1 = run_hist (fun (_ : unit) n s => shownet_handle_fixed n s) sn_next st h2.
Proof.
  intros h1 h2 st Hok H2.
  assert (Hb : forall (i : unit) n s, n <= SN_PACKET_SIZE -> bounded n (shownet_handle_fixed n s))
    by (intros; apply shownet_fixed_bounded; assumption).
  split.
  - apply (hist_safe SN_PACKET_SIZE _ _ Hb). exact Hok.
  - apply (hist_stale_free SN_PACKET_SIZE _ _ Hb); assumption.
Qed.
Print Assumptions c06_shownet_proposedfix_history.

(* the proposed fix changes nothing for traffic inside the guard: same outputs, same next state *)
Theorem c06_shownet_fix_compatible : forall d t st,
  bytes_ok d = true -> len d <= 1316 -> sn_syn d st = true ->
  run (d ++ t) (shownet_handle_fixed (len d) st) = run (d ++ t) (shownet_handle (len d) st).
Proof.
  intros d t st Hb Hn Hs. pose proof (sn_syn_within d st Hb Hn Hs) as Hw.
  pose proof (sn_fix_compat_alone d st Hb Hn Hs) as Hc.
  unfold sn_within, completes in Hw.
  destruct (run d (shownet_handle (len d) st)) as [r|z] eqn:E; [|discriminate].
  rewrite (run_app_mono _ _ t _ E), (run_app_mono _ _ t _ Hc). reflexivity.
Qed.
Print Assumptions c06_shownet_fix_compatible.

(* the guard is satisfiable by an accepted datagram; the two witnesses are outside it *)
Definition sn_good : list N :=
  [128; 143; 10; 0; 0; 2] ++ [1; 0] ++ repeat 0 6 ++ [4; 0] ++ repeat 0 6 ++ [11; 0; 13; 0] ++ repeat 0 6
  ++ repeat 0 15 ++ [131; 9].
Example ex_shownet_handled :
  sn_within sn_good [(0, None)] = true /\
  run (sn_good ++ repeat 165 1267) (shownet_handle 49 [(0, None)])
  = Done ([(0, Some ([9; 9; 9] ++ repeat 0 509))], Some 0).
Proof. vm_compute. split; reflexivity. Qed.
Example ex_shownet_outside : sn_within sn_short [(0, None)] = false /\ sn_within sn_over [(0, None)] = false.
Proof. vm_compute. split; reflexivity. Qed.
Example ex_shownet_all : sn_all sn_good = true /\ sn_all sn_short = false.
Proof. vm_compute. split; reflexivity. Qed.
Example ex_shownet_syn : sn_syn sn_good [(0, None)] = true /\ sn_syn sn_short [(0, None)] = false /\
  sn_hdr sn_short [(0, None)] = true /\ sn_syn sn_over [(0, None)] = false.
Proof. vm_compute. repeat split; reflexivity. Qed.

(* a two-datagram history inside the guard: both accepted, the second overwrites slot 0-2 again; stale tails differ *)
Example ex_shownet_history :
  Forall (fun x => let '(_, d, _) := x in bytes_ok d = true /\ len d <= 1316 /\ sn_all d = true)
         [(tt, sn_good, repeat 0 1267); (tt, sn_good, repeat 165 1267)] /\
  run_hist sn_step sn_next [(0, None)] [(tt, sn_good, repeat 0 1267); (tt, sn_good, repeat 165 1267)]
  = Done ([(0, Some ([9; 9; 9] ++ repeat 0 509))],
          [([(0, Some ([9; 9; 9] ++ repeat 0 509))], Some 0); ([(0, Some ([9; 9; 9] ++ repeat 0 509))], Some 0)]).
Proof.
  split; [|vm_compute; reflexivity].
  repeat (apply Forall_cons; [vm_compute; repeat split; try reflexivity; discriminate|]). apply Forall_nil.
Qed.
