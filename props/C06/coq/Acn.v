(* C06 — E1.31 / ACN receive path:
   IncomingUDPTransport::Receive (libs/acn/UDPTransport.cpp)
   BaseInflator::InflatePDUBlock / DecodeLength / DecodeVector / InflatePDU (libs/acn/BaseInflator.cpp)
   RootInflator / E131Inflator / E131InflatorRev2 / DMPInflator ::DecodeHeader
   E131DiscoveryInflator::InflatePDUBlock (after fixes/02)
   DMPE131Inflator::HandlePDUData + TrackSourceIfRequired, DecodeAddress (TWO_BYTES / RANGE_EQUAL, the only
   combination HandlePDUData lets through).
   The receive buffer is m_recv_buffer (ACN_MAX_DATAGRAM bytes); the inflators read through pointers into it,
   so every read is at (offset of the PDU in the datagram + local offset).
   Inheritance state (m_vector_set / m_last_vector / m_last_header) is reset by ResetPDUFields() at the start of
   every InflatePDUBlock, so it lives only inside one block: `lstate`. *)
From OlaBase Require Import Bytes.
From C06 Require Import Gen GenAcn Prog Dmx.
Local Open Scope N_scope.

(* ---------------------------------------------------------------- node state (DMPE131Inflator) *)
Record src := mk_src { s_cid : list N; s_seq : N; s_buf : dbuf }.
Record uh := mk_uh { u_uni : N; u_buf : dbuf; u_ap : N; u_srcs : list src }.
Inductive event :=
| AcnEvData (uni : N)                                   (* the universe's closure ran *)
| EvPage (cid : list N) (page last : N) (unis : list N)    (* discovery page callback *)
| EvRdm133 (seq endpoint : N) (data : list N)           (* RDMInflator under E133Inflator: generic RDM handler *)
| EvLlrp (dest : list N) (tn : N) (data : list N)
| EvSrc (name : list N).   (* the E1.31 header's source name as handed to DMPE131Inflator::HandlePDUData / the discovery callback *)       (* RDMInflator under LLRPInflator: generic RDM handler *)
(* m_handlers, and the callbacks run so far (in reverse order) *)
Definition nstate := (list uh * list event)%type.

Fixpoint find_u (hs : list uh) (u : N) : option uh :=
  match hs with [] => None | h :: r => if u_uni h =? u then Some h else find_u r u end.
Fixpoint update_u (hs : list uh) (nh : uh) : list uh :=
  match hs with [] => [] | h :: r => if u_uni h =? u_uni nh then nh :: r else h :: update_u r nh end.

Fixpoint list_eqb (a b : list N) : bool :=
  match a, b with
  | [], [] => true
  | x :: a', y :: b' => (x =? y) && list_eqb a' b'
  | _, _ => false
  end.
Fixpoint find_src (l : list src) (cid : list N) (i : nat) : option (nat * src) :=
  match l with [] => None | s :: r => if list_eqb (s_cid s) cid then Some (i, s) else find_src r cid (S i) end.
Fixpoint erase {A} (l : list A) (i : nat) : list A :=
  match l, i with [] , _ => [] | _ :: r, O => r | x :: r, S k => x :: erase r k end.
Fixpoint replace {A} (l : list A) (i : nat) (y : A) : list A :=
  match l, i with [] , _ => [] | _ :: r, O => y :: r | x :: r, S k => x :: replace r k y end.

(* int8_t seq_diff = (int8_t)(seq - last): as a signed value in [-128, 127]; true when
   seq_diff <= 0 && seq_diff > SEQUENCE_DIFF_THRESHOLD *)
Definition old_packet (seq last : N) : bool :=
  let d := u8 (seq + 256 - last) in
  (d =? 0) || ((128 <=? d) && (256 - SEQ_DIFF_THRESHOLD_NEG <? d)).

(* TrackSourceIfRequired with a clock that does not reach EXPIRY_INTERVAL (2.5 s) between datagrams.
   Result: (handler', remerge?, index of the source buffer to fill) *)
Definition track (h : uh) (cid : list N) (seq prio : N) (term : bool) : uh * bool * option nat :=
  let ap := match u_srcs h with [] => 0 | _ => u_ap h end in
  let h := mk_uh (u_uni h) (u_buf h) ap (u_srcs h) in
  match find_src (u_srcs h) cid O with
  | None =>
    if term || (prio <? ap) then (h, false, None)
    else
      let '(srcs, ap) := if ap <? prio then ([], prio) else (u_srcs h, ap) in
      let h := mk_uh (u_uni h) (u_buf h) ap srcs in
      if len srcs =? MAX_MERGE_SOURCES then (h, false, None)
      else (mk_uh (u_uni h) (u_buf h) ap (srcs ++ [mk_src cid seq None]), true, Some (length srcs))
  | Some (i, s) =>
    if old_packet seq (s_seq s) then (h, false, None)
    else
      let s := mk_src (s_cid s) seq (s_buf s) in
      let srcs := replace (u_srcs h) i s in
      if term then
        let srcs := erase srcs i in
        (mk_uh (u_uni h) (u_buf h) (match srcs with [] => 0 | _ => ap end) srcs, true, None)
      else if prio <? ap then
        match srcs with
        | [_] => (mk_uh (u_uni h) (u_buf h) prio srcs, true, Some i)
        | _ => (mk_uh (u_uni h) (u_buf h) ap (erase srcs i), true, None)
        end
      else if ap <? prio then
        match srcs with
        | [_] => (mk_uh (u_uni h) (u_buf h) prio srcs, true, Some i)
        | _ => (mk_uh (u_uni h) (u_buf h) prio [s], true, Some O)
        end
      else (mk_uh (u_uni h) (u_buf h) ap srcs, true, Some i)
  end.

(* DmxBuffer::Set(const DmxBuffer &other): Set(other.m_data, other.m_length) fails on a NULL block *)
Definition buf_copy (b other : dbuf) : dbuf := match other with None => b | Some l => buf_set l end.
Definition merge_sources (h : uh) : uh * bool :=
  match u_srcs h with
  | [] => (mk_uh (u_uni h) (buf_reset (u_buf h)) (u_ap h) (u_srcs h), false)
  | [s] => (mk_uh (u_uni h) (buf_copy (u_buf h) (s_buf s)) (u_ap h) (u_srcs h), true)
  | l => (mk_uh (u_uni h) (fold_left (fun b s => htp_merge b (s_buf s)) l (buf_reset (u_buf h))) (u_ap h) (u_srcs h), true)
  end.

(* ---------------------------------------------------------------- E131Node::NewDiscoveryPage / TrackedSource::NewPage
   (libs/acn/E131Node.cpp, enable_draft_discovery): what the node remembers about the controllers it has heard
   universe-discovery pages from; E131Node::GetKnownControllers() is an output of the node.  It is a function of
   the discovery callbacks (EvSrc name, EvPage cid page last universes) in order. *)
Record tsrc := mk_tsrc { t_cid : list N; t_name : list N; t_unis : list N; t_total : N; t_pages : list N; t_new : list N }.
(* std::set insert: ascending, no duplicates *)
Fixpoint set_ins (x : N) (l : list N) : list N :=
  match l with
  | [] => [x]
  | y :: r => if x <? y then x :: l else if x =? y then l else y :: set_ins x r
  end.
(* uint8_t expected_page = 0; for each received page p, ascending: if p != expected_page return; expected_page++ (8 bit) *)
Fixpoint pages_expected (l : list N) (e : N) : option N :=
  match l with [] => Some e | p :: r => if p =? e then pages_expected r (u8 (e + 1)) else None end.
(* NewPage(page_number, last_page, sequence_number = 0, rx_universes); current_sequence_number stays 0 *)
Definition new_page (s : tsrc) (page last : N) (unis : list N) : tsrc :=
  let '(pages0, new0) := if negb (t_total s =? last) then ([], []) else (t_pages s, t_new s) in
  let pages := set_ins page pages0 in
  let new := fold_left (fun acc u => set_ins u acc) unis new0 in
  match pages_expected pages 0 with
  | Some e => if e =? last + 1 then mk_tsrc (t_cid s) (t_name s) new 0 [] []
              else mk_tsrc (t_cid s) (t_name s) (t_unis s) last pages new
  | None => mk_tsrc (t_cid s) (t_name s) (t_unis s) last pages new
  end.
Fixpoint list_ltb (a b : list N) : bool :=
  match a, b with
  | [], [] => false | [], _ => true | _, [] => false
  | x :: a', y :: b' => if x <? y then true else if y <? x then false else list_ltb a' b'
  end.
Fixpoint list_eqb0 (a b : list N) : bool :=
  match a, b with [], [] => true | x :: a', y :: b' => (x =? y) && list_eqb0 a' b' | _, _ => false end.
(* m_discovered_sources: std::map keyed by CID *)
Fixpoint tracked_page (ts : list tsrc) (cid name : list N) (page last : N) (unis : list N) : list tsrc :=
  match ts with
  | [] => [new_page (mk_tsrc cid name [] 0 [] []) page last unis]
  | s :: r =>
    if list_eqb0 (t_cid s) cid then new_page (mk_tsrc cid name (t_unis s) (t_total s) (t_pages s) (t_new s)) page last unis :: r
    else if list_ltb cid (t_cid s) then new_page (mk_tsrc cid name [] 0 [] []) page last unis :: ts
    else s :: tracked_page r cid name page last unis
  end.

(* the callbacks of one datagram, oldest first: a page callback is preceded by its EvSrc *)
Fixpoint track_events (ts : list tsrc) (name : list N) (evs : list event) : list tsrc :=
  match evs with
  | [] => ts
  | EvSrc nm :: r => track_events ts nm r
  | EvPage cid page last us :: r => track_events (tracked_page ts cid name page last us) name r
  | _ :: r => track_events ts name r
  end.

(* ---------------------------------------------------------------- headers *)
Record e131h := mk_e131h { e_prio : N; e_seq : N; e_uni : N; e_preview : bool; e_term : bool; e_rev2 : bool;
                            e_src : list N }.
(* std::string(raw_header.source) after raw_header.source[LEN - 1] = 0: the bytes before the first NUL among the
   first LEN - 1 *)
Fixpoint cstr (k : nat) (l : list N) : list N :=
  match k, l with S k', x :: r => if x =? 0 then [] else x :: cstr k' r | _, _ => [] end.

(* DecodeAddress: (type == NON_RANGE ? 1 : 3) * DMPSizeToByteSize(TWO_BYTES) *)
(* start, increment, number: three fields of DMPSizeToByteSize(TWO_BYTES) bytes each (regenerated) *)
Definition DMP_ADDR_BYTES : N := 3 * DMP_ADDR_UNIT.
Definition acn_be16 (l : list N) (i : nat) : N := 256 * nth i l 0 + nth (S i) l 0.

(* the tail of HandlePDUData: merge the sources, run the closure *)
Definition dmp_finish (hs : list uh) (evs : list event) (h2 : uh) : prog nstate :=
  let '(h3, ran) := merge_sources h2 in
  Ret (update_u hs h3, if ran then AcnEvData (u_uni h3) :: evs else evs).

(* HandlePDUData from the start-code test on; start_code -1 is None; doff = offset of data + available_length *)
Definition dmp_go (hs : list uh) (evs : list event) (h : uh) (cid : list N) (e : e131h)
    (doff remaining number : N) (start_code : option N) : prog nstate :=
  (* if (start_code && !StreamTerminated) return *)
  if negb (match start_code with Some 0 => true | _ => false end) && negb (e_term e) then Ret (hs, evs)
  else
    let '(h1, remerge, target) := track h cid (e_seq e) (e_prio e) (e_term e) in
    if negb remerge then Ret (update_u hs h1, evs)
    else
      match target, start_code with
      | Some i, Some 0 =>
        let channels := N.min remaining number in
        let '(o, c) := if e_rev2 e then (doff, channels) else (doff + 1, usub32 channels 1) in
        (* DmxBuffer::Set copies min(length, DMX_UNIVERSE_SIZE) bytes *)
        ReadBlk o (N.min c DMX_UNIVERSE_SIZE) (fun d =>
          match nth_error (u_srcs h1) i with
          | Some s => dmp_finish hs evs (mk_uh (u_uni h1) (u_buf h1) (u_ap h1)
                                (replace (u_srcs h1) i (mk_src (s_cid s) (s_seq s) (buf_set d))))
          | None => dmp_finish hs evs h1
          end)
      | _, _ => dmp_finish hs evs h1
      end.

(* DMPE131Inflator::HandlePDUData(vector, headers, data = buffer + off, pdu_len = plen) *)
Definition dmp_handle0 (ign : bool) (cid : list N) (e : e131h) (vector dmph off plen : N) (st : nstate)
  : prog nstate :=
  let '(hs, evs) := st in
  if negb (vector =? DMP_SET_PROPERTY_VECTOR) then Ret st
  else if e_preview e && ign then Ret st
  else match find_u hs (e_uni e) with
  | None => Ret st
  | Some h =>
    if (N.land dmph DMP_VIRTUAL_MASK =? 0) || negb (N.land dmph DMP_RELATIVE_MASK =? 0)
       || negb (N.land dmph DMP_SIZE_MASK =? DMP_TWO_BYTES)
       || negb (N.shiftr (N.land dmph DMP_TYPE_MASK) 4 =? DMP_RANGE_EQUAL) then Ret st
    else if MAX_E131_PRIORITY <? e_prio e then Ret st
    else
      (* DecodeAddress(TWO_BYTES, RANGE_EQUAL, data, &available_length): byte_count = 3 * 2 *)
      if plen <? DMP_ADDR_BYTES then Ret st
      else ReadBlk off DMP_ADDR_BYTES (fun a =>
        let start := acn_be16 a 0 in let incr := acn_be16 a 2 in let number := acn_be16 a 4 in
        if negb (incr =? 1) then Ret st
        else
          let remaining := plen - DMP_ADDR_BYTES in
          let doff := off + DMP_ADDR_BYTES in
          if e_rev2 e then dmp_go hs evs h cid e doff remaining number (Some start)
          else if negb (remaining =? 0) && negb (number =? 0)
               then Read doff (fun sc => dmp_go hs evs h cid e doff remaining number (Some sc))
          else dmp_go hs evs h cid e doff remaining number None)
  end.

(* the harness records headers.GetE131Header().Source() on entry of HandlePDUData *)
Definition dmp_handle (ign : bool) (cid : list N) (e : e131h) (vector dmph off plen : N) (st : nstate)
  : prog nstate :=
  dmp_handle0 ign cid e vector dmph off plen (fst st, EvSrc (e_src e) :: snd st).

(* sizeof(page_header): a struct local to E131DiscoveryInflator::InflatePDUBlock, pinned there by
   STATIC_ASSERT(sizeof(page_header) == 2); it cannot be named from outside the function *)
Definition DISC_PAGE_HEADER : N := 2.
(* PreamblePacker::ACN_HEADER *)
Definition ACN_PREAMBLE : list N :=
  [ACN_PRE_0; ACN_PRE_1; ACN_PRE_2; ACN_PRE_3; ACN_PRE_4; ACN_PRE_5; ACN_PRE_6; ACN_PRE_7;
   ACN_PRE_8; ACN_PRE_9; ACN_PRE_10; ACN_PRE_11; ACN_PRE_12; ACN_PRE_13; ACN_PRE_14; ACN_PRE_15].

(* E131DiscoveryInflator::InflatePDUBlock (after fixes/02): universes at data + o, o + 2 <= len *)
Fixpoint disc_loop (base plen o : N) (acc : list N) (fuel : nat) : prog (list N) :=
  match fuel with
  | O => Fail OutOfFuel
  | S k => if o + 2 <=? plen then rd16be (base + o) (fun u => disc_loop base plen (o + 2) (u :: acc) k)
           else Ret (rev acc)
  end.
Definition disc_handle (cid src : list N) (off plen : N) (st : nstate) : prog nstate :=
  if plen <? DISC_PAGE_HEADER then Ret st
  else Read off (fun page => Read (off + 1) (fun last =>
    bind (disc_loop off plen DISC_PAGE_HEADER [] (S (N.to_nat plen)))
         (fun us => Ret (fst st, EvPage cid page last us :: EvSrc src :: snd st)))).

(* ---------------------------------------------------------------- BaseInflator, generic in the level *)
Section Level.
  Variable H : Type.                  (* decoded header of this level *)
  Variable vsize : N.                 (* m_vector_size *)
  Variable hsize : N.                 (* bytes DecodeHeader needs and uses when the H flag is set *)
  Variable dec_hdr : N -> prog H.     (* DecodeHeader(data = buffer + off, length >= hsize) *)
  Variable inherit_ok : H -> bool.    (* DecodeHeader(NULL): may the last header be reused *)
  Variable handle : N -> H -> N -> N -> nstate -> prog nstate.
        (* child->InflatePDUBlock / HandlePDUData (vector, header, data offset, data length) *)
  Variable init_h : option H.         (* Some: DecodeHeader(NULL) succeeds without an earlier header (RDMInflator) *)

  (* m_vector_set, m_last_vector, last header (None after ResetHeaderField) *)
  Definition lstate := (bool * N * option H)%type.

  Fixpoint rd_vec (k : nat) (o acc : N) (f : N -> prog (lstate * nstate)) : prog (lstate * nstate) :=
    match k with O => f acc | S k' => Read o (fun b => rd_vec k' (o + 1) (256 * acc + b) f) end.

  (* BaseInflator::InflatePDU(headers, flags, data = buffer + voff, pdu_len = plen), after DecodeVector:
     vector, data_offset = doff, and the new m_vector_set / m_last_vector *)
  Definition pdu_after (voff plen : N) (st : nstate) (vector doff : N) (vs : bool) (lv : N)
      (h : H) (used : N) (lasth' : option H) : prog (lstate * nstate) :=
    let d := doff + used in
    bind (handle vector h (voff + d) (plen - d) st) (fun st' => Ret ((vs, lv, lasth'), st')).
  Definition pdu_cont (flags voff plen : N) (lasth : option H) (st : nstate) (vector doff : N) (vs : bool) (lv : N)
      : prog (lstate * nstate) :=
    if negb (N.land flags HFLAG_MASK =? 0) then
      if plen - doff <? hsize then Ret ((vs, lv, lasth), st)
      else bind (dec_hdr (voff + doff)) (fun h => pdu_after voff plen st vector doff vs lv h hsize (Some h))
    else match lasth with
         | Some h => if inherit_ok h then pdu_after voff plen st vector doff vs lv h 0 lasth
                     else Ret ((vs, lv, lasth), st)
         | None => Ret ((vs, lv, lasth), st)
         end.
  Definition inflate_pdu (flags voff plen : N) (s : lstate * nstate) : prog (lstate * nstate) :=
    let '((vset, lastv, lasth), st) := s in
    if negb (N.land flags VFLAG_MASK =? 0) then
      if plen <? vsize then Ret s
      else rd_vec (N.to_nat vsize) voff 0 (fun v => pdu_cont flags voff plen lasth st v vsize true v)
    else if vset then pdu_cont flags voff plen lasth st lastv 0 vset lastv
    else Ret s.

  (* one turn of the do/while of BaseInflator::InflatePDUBlock after DecodeLength succeeded *)
  Definition blk_next (rec : N -> lstate * nstate -> prog (lstate * nstate)) (base length offset flags : N)
      (s : lstate * nstate) (pdu_length bytes_used : N) : prog (lstate * nstate) :=
    if pdu_length <? bytes_used then Ret s
    else
      bind (if offset + pdu_length <=? length
            then inflate_pdu flags (base + offset + bytes_used) (pdu_length - bytes_used) s else Ret s)
           (fun s' => let offset' := offset + pdu_length in
                      if offset' <? length then rec offset' s' else Ret s').

  (* the do/while of BaseInflator::InflatePDUBlock(headers, data = buffer + base, length); offset < length *)
  Fixpoint blk_loop (base length offset : N) (s : lstate * nstate) (fuel : nat) : prog (lstate * nstate) :=
    match fuel with
    | O => Fail OutOfFuel
    | S k =>
      let rem := length - offset in
      let p := base + offset in
      (* DecodeLength(data + offset, length - offset) *)
      Read p (fun flags =>
        let next := blk_next (fun o s' => blk_loop base length o s' k) base length offset flags s in
        if negb (N.land flags LFLAG_MASK =? 0) then
          if rem <? 3 then Ret s
          else Read (p + 1) (fun b1 => Read (p + 2) (fun b2 =>
                 next (65536 * N.land flags LENGTH_MASK + 256 * b1 + b2) 3))
        else
          if rem <? 2 then Ret s
          else Read (p + 1) (fun b1 => next (256 * N.land flags LENGTH_MASK + b1) 2))
    end.

  Definition inflate_block (base length : N) (st : nstate) : prog nstate :=
    if length =? 0 then Ret st
    else bind (blk_loop base length 0 ((false, 0, init_h), st) (S (N.to_nat length))) (fun s => Ret (snd s)).

  (* ------------------------------------------------------------ boundedness, generic *)
  Variable n : N.
  Hypothesis dec_hdr_b : forall off, off + hsize <= n -> bounded n (dec_hdr off).
  Hypothesis handle_b : forall v h off l st, off + l <= n -> bounded n (handle v h off l st).

  Lemma rd_vec_bounded k : forall o acc f, o + N.of_nat k <= n ->
    (forall v, bounded n (f v)) -> bounded n (rd_vec k o acc f).
  Proof.
    induction k as [|k IH]; intros o acc f Ho Hf; cbn [rd_vec].
    - apply Hf.
    - apply bRead; [lia|]. intros b Hb. apply IH; [lia|assumption].
  Qed.

  Lemma pdu_after_bounded voff plen st vector doff vs lv h used lasth' :
    voff + plen <= n -> doff + used <= plen ->
    bounded n (pdu_after voff plen st vector doff vs lv h used lasth').
  Proof.
    intros Hn Hd. unfold pdu_after. cbv zeta.
    apply bounded_bind; [apply handle_b; lia|]. intros; constructor.
  Qed.

  Lemma pdu_cont_bounded flags voff plen lasth st vector doff vs lv :
    voff + plen <= n -> doff <= plen -> bounded n (pdu_cont flags voff plen lasth st vector doff vs lv).
  Proof.
    intros Hn Hd. unfold pdu_cont.
    destruct (negb (N.land flags HFLAG_MASK =? 0)).
    - destruct (plen - doff <? hsize) eqn:E; [constructor|]. apply N.ltb_ge in E.
      apply bounded_bind; [apply dec_hdr_b; lia|]. intros h.
      apply pdu_after_bounded; lia.
    - destruct lasth as [h|]; [|constructor].
      destruct (inherit_ok h); [|constructor].
      apply pdu_after_bounded; lia.
  Qed.

  Lemma inflate_pdu_bounded flags voff plen s : voff + plen <= n -> bounded n (inflate_pdu flags voff plen s).
  Proof.
    intros Hn. unfold inflate_pdu. destruct s as [[[vset lastv] lasth] st].
    destruct (negb (N.land flags VFLAG_MASK =? 0)).
    - destruct (plen <? vsize) eqn:E; [constructor|]. apply N.ltb_ge in E.
      apply rd_vec_bounded; [rewrite N2Nat.id; lia|]. intros v. apply pdu_cont_bounded; lia.
    - destruct vset; [|constructor]. apply pdu_cont_bounded; lia.
  Qed.

  Lemma blk_next_bounded rec base length offset flags s pl bu :
    base + length <= n ->
    (forall o s', offset + 2 <= o -> o < length -> bounded n (rec o s')) ->
    2 <= bu -> bounded n (blk_next rec base length offset flags s pl bu).
  Proof.
    intros Hn Hrec Hbu. unfold blk_next.
    destruct (pl <? bu) eqn:E; [constructor|]. apply N.ltb_ge in E.
    apply bounded_bind.
    - destruct (offset + pl <=? length) eqn:E2; [|constructor]. apply N.leb_le in E2.
      apply inflate_pdu_bounded. lia.
    - intros s'. cbv zeta. destruct (offset + pl <? length) eqn:E3; [|constructor]. apply N.ltb_lt in E3.
      apply Hrec; lia.
  Qed.

  Lemma blk_loop_bounded base length : base + length <= n ->
    forall fuel offset s, offset < length -> length <= offset + N.of_nat fuel ->
    bounded n (blk_loop base length offset s fuel).
  Proof.
    intros Hn. induction fuel as [|k IH]; intros offset s Ho Hf; cbn [blk_loop].
    - lia.
    - apply bRead; [lia|]. intros flags Hfl. cbv zeta.
      assert (Hrec : forall o s', offset + 2 <= o -> o < length -> bounded n (blk_loop base length o s' k)).
      { intros o s' H1 H2. apply IH; lia. }
      destruct (negb (N.land flags LFLAG_MASK =? 0)).
      + destruct (length - offset <? 3) eqn:E; [constructor|]. apply N.ltb_ge in E.
        apply bRead; [lia|]. intros b1 Hb1. apply bRead; [lia|]. intros b2 Hb2.
        apply blk_next_bounded; auto; lia.
      + destruct (length - offset <? 2) eqn:E; [constructor|]. apply N.ltb_ge in E.
        apply bRead; [lia|]. intros b1 Hb1. apply blk_next_bounded; auto; lia.
  Qed.

  Lemma inflate_block_bounded base length st : base + length <= n -> bounded n (inflate_block base length st).
  Proof.
    intros Hn. unfold inflate_block. destruct (length =? 0) eqn:E; [constructor|]. apply N.eqb_neq in E.
    apply bounded_bind; [|intros; constructor].
    apply blk_loop_bounded; lia.
  Qed.
End Level.

(* ---------------------------------------------------------------- the three levels *)
(* DMPInflator::DecodeHeader: DMPHeader header(data[0]) *)
Definition dmp_dec_hdr (off : N) : prog N := Read off (fun b => Ret b).
Definition dmp_block (ign : bool) (cid : list N) (e : e131h) : N -> N -> nstate -> prog nstate :=
  inflate_block N DMP_VECTOR_SIZE DMP_HEADER_SIZE dmp_dec_hdr (fun _ => true)
    (fun vector h off l st => dmp_handle ign cid e vector h off l st) None.

(* E131Inflator::DecodeHeader: memcpy of the whole e131_pdu_header, then the fields *)
Definition e131_dec_hdr (off : N) : prog e131h :=
  ReadBlk off E131_HEADER_SIZE (fun l =>
    let b i := nth (N.to_nat i) l 0 in
    let opt := b E131_OFF_options in
    Ret (mk_e131h (b E131_OFF_priority) (b E131_OFF_sequence)
                  (256 * b E131_OFF_universe + b (E131_OFF_universe + 1))
                  (negb (N.land opt E131_PREVIEW_MASK =? 0)) (negb (N.land opt E131_TERMINATED_MASK =? 0)) false
                  (cstr (N.to_nat (E131_SOURCE_NAME_LEN - 1)) (drop E131_OFF_source l)))).
Definition rev2_dec_hdr (off : N) : prog e131h :=
  ReadBlk off REV2_HEADER_SIZE (fun l =>
    let b i := nth (N.to_nat i) l 0 in
    Ret (mk_e131h (b REV2_OFF_priority) (b REV2_OFF_sequence)
                  (256 * b REV2_OFF_universe + b (REV2_OFF_universe + 1)) false false true
                  (cstr (N.to_nat (REV2_SOURCE_NAME_LEN - 1)) (drop REV2_OFF_source l)))).

(* E131Inflator children: DMPE131Inflator (VECTOR_E131_DATA), E131DiscoveryInflator; anything else ends in
   BaseInflator::HandlePDUData which only logs *)
Definition e131_handle (ign : bool) (cid : list N) (vector : N) (e : e131h) (off l : N) (st : nstate) : prog nstate :=
  if vector =? VECTOR_E131_DATA then dmp_block ign cid e off l st
  else if vector =? VECTOR_E131_DISCOVERY then disc_handle cid (e_src e) off l st
  else Ret st.
Definition rev2_handle (ign : bool) (cid : list N) (vector : N) (e : e131h) (off l : N) (st : nstate) : prog nstate :=
  if vector =? VECTOR_E131_DATA then dmp_block ign cid e off l st else Ret st.

Definition e131_block (ign : bool) (cid : list N) : N -> N -> nstate -> prog nstate :=
  inflate_block e131h E131_VECTOR_SIZE E131_HEADER_SIZE e131_dec_hdr (fun _ => true) (e131_handle ign cid) None.
Definition rev2_block (ign : bool) (cid : list N) : N -> N -> nstate -> prog nstate :=
  inflate_block e131h E131_VECTOR_SIZE REV2_HEADER_SIZE rev2_dec_hdr (fun _ => true) (rev2_handle ign cid) None.

(* ---- E1.33 / LLRP header decoders (not wired into olad's E131Node; the harness adds them to the root inflator)
   RDMInflator (vector size ONE_BYTE, a 0-byte header that DecodeHeader always accepts): HandlePDUData passes the
   pdu_len bytes to the generic handler when the vector is VECTOR_RDM_CMD_RDM_DATA *)
Definition rdm_block {T} (mk : T -> list N -> event) (hdr : T) : N -> N -> nstate -> prog nstate :=
  inflate_block unit RDM_VECTOR_SIZE 0 (fun _ => Ret tt) (fun _ => true)
    (fun vector _ off l st =>
       if negb (vector =? VECTOR_RDM_CMD_RDM_DATA) then Ret st
       else ReadBlk off l (fun d => Ret (fst st, mk hdr d :: snd st)))
    (Some tt).
(* E133Inflator::DecodeHeader: memcpy of the e133_pdu_header; sequence, endpoint *)
Definition e133_dec_hdr (off : N) : prog (N * N) :=
  ReadBlk off E133_HEADER_SIZE (fun l =>
    let b i := nth (N.to_nat i) l 0 in
    let o := E133_OFF_sequence in
    Ret (16777216 * b o + 65536 * b (o + 1) + 256 * b (o + 2) + b (o + 3),
         256 * b E133_OFF_endpoint + b (E133_OFF_endpoint + 1))).
Definition e133_block : N -> N -> nstate -> prog nstate :=
  inflate_block (N * N)%type E131_VECTOR_SIZE E133_HEADER_SIZE e133_dec_hdr (fun _ => true)
    (fun vector h off l st =>
       if vector =? VECTOR_FRAMING_RDMNET then rdm_block (fun h d => EvRdm133 (fst h) (snd h) d) h off l st else Ret st)
    None.
(* LLRPInflator::DecodeHeader: memcpy of the llrp_pdu_header; destination CID, transaction number *)
Definition llrp_dec_hdr (off : N) : prog (list N * N) :=
  ReadBlk off LLRP_HEADER_SIZE (fun l =>
    let b i := nth (N.to_nat i) l 0 in
    let o := LLRP_OFF_transaction in
    Ret (firstn (N.to_nat CID_LENGTH) l, 16777216 * b o + 65536 * b (o + 1) + 256 * b (o + 2) + b (o + 3))).
Definition llrp_block : N -> N -> nstate -> prog nstate :=
  inflate_block (list N * N)%type E131_VECTOR_SIZE LLRP_HEADER_SIZE llrp_dec_hdr (fun _ => true)
    (fun vector h off l st =>
       if vector =? VECTOR_LLRP_RDM_CMD then rdm_block (fun h d => EvLlrp (fst h) (snd h) d) h off l st else Ret st)
    None.

(* RootInflator::DecodeHeader: CID::FromData(data); inheriting needs a non-nil CID *)
Definition root_dec_hdr (off : N) : prog (list N) := ReadBlk off CID_LENGTH (fun l => Ret l).
Definition cid_not_nil (c : list N) : bool := negb (forallb (fun b => b =? 0) c).
Definition root_handle (ign : bool) (vector : N) (cid : list N) (off l : N) (st : nstate) : prog nstate :=
  if vector =? VECTOR_ROOT_E131 then e131_block ign cid off l st
  else if vector =? VECTOR_ROOT_E131_REV2 then rev2_block ign cid off l st
  else if vector =? VECTOR_ROOT_RPT then e133_block off l st
  else if vector =? VECTOR_ROOT_LLRP then llrp_block off l st
  else Ret st.
Definition root_block (ign : bool) : N -> N -> nstate -> prog nstate :=
  inflate_block (list N) ROOT_VECTOR_SIZE CID_LENGTH root_dec_hdr cid_not_nil (root_handle ign) None.

(* memcmp(m_recv_buffer, ACN_HEADER, header_size): all ACN_HEADER_SIZE bytes are inside the datagram *)
Definition acn_handle (ign : bool) (n : N) (hs : list uh) : prog nstate :=
  let st := (hs, []) in
  if n <? ACN_HEADER_SIZE then Ret st
  else ReadBlk 0 ACN_HEADER_SIZE (fun pre =>
    if negb (list_eqb pre ACN_PREAMBLE) then Ret st
    else root_block ign ACN_HEADER_SIZE (usub32 n ACN_HEADER_SIZE) st).

(* ---------------------------------------------------------------- proof *)
Lemma disc_loop_bounded n base plen : base + plen <= n ->
  forall fuel o acc, o <= plen -> plen + 2 <= o + 2 * N.of_nat fuel -> bounded n (disc_loop base plen o acc fuel).
Proof.
  intros Hn. induction fuel as [|k IH]; intros o acc Ho Hf; cbn [disc_loop].
  - lia.
  - destruct (o + 2 <=? plen) eqn:E; [|constructor]. apply N.leb_le in E.
    apply bounded_rd16be; [lia|]. intros u Hu. apply IH; lia.
Qed.

Lemma disc_handle_bounded n cid src off l st : off + l <= n -> bounded n (disc_handle cid src off l st).
Proof.
  intros Hn. unfold disc_handle, DISC_PAGE_HEADER.
  destruct (l <? 2) eqn:E; [constructor|]. apply N.ltb_ge in E.
  apply bRead; [lia|]. intros page Hp. apply bRead; [lia|]. intros last Hl.
  apply bounded_bind; [|intros; constructor].
  apply disc_loop_bounded; lia.
Qed.

Lemma dmp_finish_bounded n hs evs h2 : bounded n (dmp_finish hs evs h2).
Proof. unfold dmp_finish. destruct (merge_sources h2). constructor. Qed.

Lemma nth_byte l : bytes_ok l = true -> forall i, nth i l 0 < 256.
Proof.
  induction l as [|x l IH]; intros Hb i.
  - destruct i; cbn; lia.
  - cbn in Hb. apply andb_prop in Hb. destruct Hb as [Hx Hl].
    destruct i; cbn [nth]; [apply N.ltb_lt; exact Hx|apply IH; exact Hl].
Qed.
Lemma acn_be16_lt l i : bytes_ok l = true -> acn_be16 l i < 65536.
Proof. intros Hb. unfold acn_be16. pose proof (nth_byte l Hb i). pose proof (nth_byte l Hb (S i)). lia. Qed.

Lemma dmp_go_bounded n hs evs h cid e doff remaining number sc :
  doff + remaining <= n -> number < 65536 ->
  (e_rev2 e = false -> sc = Some 0 -> 1 <= remaining /\ 1 <= number) ->
  bounded n (dmp_go hs evs h cid e doff remaining number sc).
Proof.
  intros Hn Hnum Hr. unfold dmp_go.
  destruct (negb (match sc with Some 0 => true | _ => false end) && negb (e_term e)); [constructor|].
  destruct (track h cid (e_seq e) (e_prio e) (e_term e)) as [[h1 remerge] target].
  destruct (negb remerge); [constructor|].
  destruct target as [i|]; [|apply dmp_finish_bounded].
  destruct sc as [[|p]|]; try apply dmp_finish_bounded.
  cbv zeta. destruct (e_rev2 e) eqn:Er.
  - apply bBlk; [right; lia|]. intros d Hd _. destruct (nth_error (u_srcs h1) i); apply dmp_finish_bounded.
  - destruct (Hr eq_refl eq_refl) as [Hr1 Hr2].
    assert (Hu : usub32 (N.min remaining number) 1 = N.min remaining number - 1).
    { unfold usub32, u32. rewrite (N.mod_small 1) by lia.
      replace (N.min remaining number + 4294967296 - 1) with ((N.min remaining number - 1) + 1 * 4294967296) by lia.
      rewrite N.mod_add by lia. apply N.mod_small. lia. }
    rewrite Hu. apply bBlk; [lia|]. intros d Hd _.
    destruct (nth_error (u_srcs h1) i); apply dmp_finish_bounded.
Qed.

Lemma dmp_handle0_bounded n ign cid e v h off l st : off + l <= n -> bounded n (dmp_handle0 ign cid e v h off l st).
Proof.
  intros Hn. unfold dmp_handle0. destruct st as [hs evs].
  destruct (negb (v =? DMP_SET_PROPERTY_VECTOR)); [constructor|].
  destruct (e_preview e && ign); [constructor|].
  destruct (find_u hs (e_uni e)) as [uhd|]; [|constructor].
  match goal with |- bounded _ (if ?c then _ else _) => destruct c end; [constructor|].
  destruct (MAX_E131_PRIORITY <? e_prio e); [constructor|].
  unfold DMP_ADDR_BYTES, DMP_ADDR_UNIT.
  destruct (l <? 3 * 2) eqn:E; [constructor|]. apply N.ltb_ge in E.
  apply bBlk; [right; lia|]. intros a Ha Hok. cbv zeta.
  destruct (negb (acn_be16 a 2 =? 1)); [constructor|].
  pose proof (acn_be16_lt a 4 Hok) as Hnum.
  destruct (e_rev2 e) eqn:Er.
  - apply dmp_go_bounded; [lia|assumption|]. rewrite Er. discriminate.
  - destruct (negb (l - 3 * 2 =? 0) && negb (acn_be16 a 4 =? 0)) eqn:E2.
    + apply andb_prop in E2. destruct E2 as [E2 E3].
      apply negb_true_iff in E2. apply N.eqb_neq in E2. apply negb_true_iff in E3. apply N.eqb_neq in E3.
      apply bRead; [lia|]. intros sc Hsc. apply dmp_go_bounded; [lia|assumption|]. intros _ _. lia.
    + (* start_code = -1 *)
      apply dmp_go_bounded; [lia|assumption|]. intros _ Hx. discriminate Hx.
Qed.

Lemma dmp_handle_bounded n ign cid e v h off l st : off + l <= n -> bounded n (dmp_handle ign cid e v h off l st).
Proof. intros Hn. unfold dmp_handle. apply dmp_handle0_bounded. assumption. Qed.

Lemma dmp_block_bounded n ign cid e off l st : off + l <= n -> bounded n (dmp_block ign cid e off l st).
Proof.
  intros Hn. unfold dmp_block. apply inflate_block_bounded; auto.
  - intros o Ho. unfold dmp_dec_hdr. unfold DMP_HEADER_SIZE in Ho. apply bRead; [lia|]. intros; constructor.
  - intros. apply dmp_handle_bounded; assumption.
Qed.

Lemma e131_block_bounded n ign cid off l st : off + l <= n -> bounded n (e131_block ign cid off l st).
Proof.
  intros Hn. unfold e131_block. apply inflate_block_bounded; auto.
  - intros o Ho. unfold e131_dec_hdr. apply bBlk; [right; lia|]. intros; constructor.
  - intros v h o ln s Ho. unfold e131_handle.
    destruct (v =? VECTOR_E131_DATA); [apply dmp_block_bounded; assumption|].
    destruct (v =? VECTOR_E131_DISCOVERY); [apply disc_handle_bounded; assumption|constructor].
Qed.

Lemma rev2_block_bounded n ign cid off l st : off + l <= n -> bounded n (rev2_block ign cid off l st).
Proof.
  intros Hn. unfold rev2_block. apply inflate_block_bounded; auto.
  - intros o Ho. unfold rev2_dec_hdr. apply bBlk; [right; lia|]. intros; constructor.
  - intros v h o ln s Ho. unfold rev2_handle.
    destruct (v =? VECTOR_E131_DATA); [apply dmp_block_bounded; assumption|constructor].
Qed.

Lemma rdm_block_bounded {T} n (mk : T -> list N -> event) hdr off l st :
  off + l <= n -> bounded n (rdm_block mk hdr off l st).
Proof.
  intros Hn. unfold rdm_block. apply inflate_block_bounded; auto.
  - intros; constructor.
  - intros v h o ln s Ho. destruct (negb (v =? VECTOR_RDM_CMD_RDM_DATA)); [constructor|].
    apply bBlk; [right; lia|]. intros; constructor.
Qed.
Lemma e133_block_bounded n off l st : off + l <= n -> bounded n (e133_block off l st).
Proof.
  intros Hn. unfold e133_block. apply inflate_block_bounded; auto.
  - intros o Ho. unfold e133_dec_hdr. apply bBlk; [right; lia|]. intros; constructor.
  - intros v h o ln s Ho. destruct (v =? VECTOR_FRAMING_RDMNET); [apply rdm_block_bounded; assumption|constructor].
Qed.
Lemma llrp_block_bounded n off l st : off + l <= n -> bounded n (llrp_block off l st).
Proof.
  intros Hn. unfold llrp_block. apply inflate_block_bounded; auto.
  - intros o Ho. unfold llrp_dec_hdr. apply bBlk; [right; lia|]. intros; constructor.
  - intros v h o ln s Ho. destruct (v =? VECTOR_LLRP_RDM_CMD); [apply rdm_block_bounded; assumption|constructor].
Qed.

Lemma root_block_bounded n ign off l st : off + l <= n -> bounded n (root_block ign off l st).
Proof.
  intros Hn. unfold root_block. apply inflate_block_bounded; auto.
  - intros o Ho. unfold root_dec_hdr. apply bBlk; [right; lia|]. intros; constructor.
  - intros v h o ln s Ho. unfold root_handle.
    destruct (v =? VECTOR_ROOT_E131); [apply e131_block_bounded; assumption|].
    destruct (v =? VECTOR_ROOT_E131_REV2); [apply rev2_block_bounded; assumption|].
    destruct (v =? VECTOR_ROOT_RPT); [apply e133_block_bounded; assumption|].
    destruct (v =? VECTOR_ROOT_LLRP); [apply llrp_block_bounded; assumption|constructor].
Qed.

Lemma acn_bounded_any ign n hs : n <= 2147483647 -> bounded n (acn_handle ign n hs).
Proof.
  intros Hn. unfold acn_handle. cbv zeta.
  destruct (n <? ACN_HEADER_SIZE) eqn:E; [constructor|]. apply N.ltb_ge in E.
  apply bBlk; [right; lia|]. intros pre Hp _.
  destruct (negb (list_eqb pre ACN_PREAMBLE)); [constructor|].
  apply root_block_bounded.
  unfold usub32, u32. unfold ACN_MAX_DATAGRAM in Hn. unfold ACN_HEADER_SIZE in *.
  rewrite (N.mod_small 16) by lia.
  replace (n + 4294967296 - 16) with ((n - 16) + 1 * 4294967296) by lia.
  rewrite N.mod_add by lia. rewrite N.mod_small by lia. lia.
Qed.

(* for the capacity of the real receive buffer *)
Lemma acn_bounded ign n hs : n <= ACN_MAX_DATAGRAM -> bounded n (acn_handle ign n hs).
Proof. intros Hn. apply acn_bounded_any. unfold ACN_MAX_DATAGRAM in Hn. lia. Qed.

(* ---------------------------------------------------------------- DecodeAddress, every size and type
   (libs/acn/DMPAddress.cpp) with the proposed, unapplied fix fixes-optional-not-applied/03 (the NON_RANGE cases copy
   one field, not three); identical to the code as it is for every RANGE type and for one-byte addresses, in
   particular for TWO_BYTES / RANGE_EQUAL, the only combination the receive path reaches and the check exercises.  data = buffer + 0,
   *length = n on entry.  Result: (start, increment, number) or NULL, and *length on return. *)
Definition dmp_unit (size : N) : N :=
  if size =? DMP_ONE_BYTES then 1 else if size =? DMP_TWO_BYTES then 2 else if size =? DMP_FOUR_BYTES then 4 else 0.
Definition rd_field {A} (u off : N) (k : N -> prog A) : prog A :=
  if u =? 1 then Read off k else if u =? 2 then rd16be off k else rd32be off k.
Definition decode_address (size typ n : N) : prog (option (N * N * N) * N) :=
  let u := dmp_unit size in
  let byte_count := (if typ =? DMP_NON_RANGE then 1 else 3) * u in
  if (size =? DMP_RES_BYTES) || (n <? byte_count) then Ret (None, 0)
  else if u =? 0 then Ret (None, byte_count)
  else if typ =? DMP_NON_RANGE then rd_field u 0 (fun a => Ret (Some (a, 0, 1), byte_count))
  else rd_field u 0 (fun a => rd_field u u (fun b => rd_field u (2 * u) (fun c => Ret (Some (a, b, c), byte_count)))).

Lemma rd_field_bounded {A} n u off (k : N -> prog A) :
  (u = 1 \/ u = 2 \/ u = 4) -> off + u <= n -> (forall v, bounded n (k v)) -> bounded n (rd_field u off k).
Proof.
  intros Hu Ho Hk. unfold rd_field. destruct Hu as [H1 | [H1 | H1]]; rewrite H1; cbn [N.eqb Pos.eqb].
  - apply bRead; [lia|auto].
  - apply bounded_rd16be; [lia|auto].
  - apply bounded_rd32be; [lia|auto].
Qed.
Lemma decode_address_bounded size typ n : bounded n (decode_address size typ n).
Proof.
  unfold decode_address. cbv zeta.
  assert (Hu : dmp_unit size = 0 \/ dmp_unit size = 1 \/ dmp_unit size = 2 \/ dmp_unit size = 4).
  { unfold dmp_unit. destruct (size =? DMP_ONE_BYTES); [auto|]. destruct (size =? DMP_TWO_BYTES); [auto|].
    destruct (size =? DMP_FOUR_BYTES); auto. }
  destruct ((size =? DMP_RES_BYTES) || (n <? (if typ =? DMP_NON_RANGE then 1 else 3) * dmp_unit size)) eqn:E; [constructor|].
  apply orb_false_iff in E. destruct E as [_ E]. apply N.ltb_ge in E.
  destruct (dmp_unit size =? 0) eqn:E0; [constructor|]. apply N.eqb_neq in E0.
  assert (Hu' : dmp_unit size = 1 \/ dmp_unit size = 2 \/ dmp_unit size = 4) by (destruct Hu as [H|H]; [contradiction|exact H]).
  destruct (typ =? DMP_NON_RANGE).
  - apply rd_field_bounded; [assumption|lia|intros; constructor].
  - apply rd_field_bounded; [assumption|lia|intros a].
    apply rd_field_bounded; [assumption|lia|intros b].
    apply rd_field_bounded; [assumption|lia|intros c]. constructor.
Qed.
