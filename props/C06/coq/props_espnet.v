(* ---------------------------------------------------------------- ESP Net
   Receive buffer: the espnet_packet_union_t on SocketReady's stack (521 bytes).  n = bytes received,
   self = the datagram came from our own address, st = the registered handlers (any universes, any buffers). *)
Theorem c06_espnet_layout :
  (ES_PACKET_SIZE, ES_HEAD_SIZE, ES_POLL_SIZE, ES_REPLY_SIZE, ES_ACK_SIZE, ES_DATA_SIZE, ES_DATA_HEADER, ES_OFF_data) =
  (521, 4, 5, 33, 6, 521, 9, 9).
Proof. reflexivity. Qed.
Print Assumptions c06_espnet_layout.

(* every constant the espnet model takes from the repository (sizeof / offsetof of the packed wire structs, opcodes,
   vectors, masks), regenerated into GenEspNet.v on each run, pinned to the value the proofs and statements were written
   for: a change of the wire layout or of a constant in /repo breaks this obligation deterministically *)
Theorem c06_espnet_consts :
  ES_PACKET_SIZE = 521 /\
  ES_HEAD_SIZE = 4 /\
  ES_POLL_SIZE = 5 /\
  ES_REPLY_SIZE = 33 /\
  ES_ACK_SIZE = 6 /\
  ES_DATA_SIZE = 521 /\
  ES_OFF_poll_type = 4 /\
  ES_OFF_universe = 4 /\
  ES_OFF_type = 6 /\
  ES_OFF_size = 7 /\
  ES_OFF_data = 9 /\
  ES_POLL = 1163087952 /\
  ES_REPLY = 1163087954 /\
  ES_DMX = 1163084868 /\
  ES_ACK = 1163084112 /\
  ES_DATA_RAW = 1 /\
  ES_DATA_PAIRS = 2 /\
  ES_DATA_RLE = 4 /\
  ES_REPEAT_VALUE = 254 /\
  ES_ESCAPE_VALUE = 253.
Proof. repeat split; reflexivity. Qed.
Print Assumptions c06_espnet_consts.

Theorem c06_espnet_no_oob : forall buf n self st,
  bytes_ok buf = true -> len buf = 521 -> n <= len buf ->
  run buf (es_handle n self st) <> Hazard Oob.
Proof. intros buf n self st Hb Hl Hn. apply (bounded_no_hazard n); auto. apply espnet_bounded. unfold ES_PACKET_SIZE. lia. Qed.
Print Assumptions c06_espnet_no_oob.

Theorem c06_espnet_terminates : forall buf n self st,
  bytes_ok buf = true -> len buf = 521 -> n <= len buf ->
  run buf (es_handle n self st) <> Hazard OutOfFuel.
Proof. intros buf n self st Hb Hl Hn. apply (bounded_no_hazard n); auto. apply espnet_bounded. unfold ES_PACKET_SIZE. lia. Qed.
Print Assumptions c06_espnet_terminates.

(* the ESP Net receive path contains no division *)
Theorem c06_espnet_no_div0 : forall buf n self st,
  bytes_ok buf = true -> len buf = 521 -> n <= len buf ->
  run buf (es_handle n self st) <> Hazard Div0.
Proof. intros buf n self st Hb Hl Hn. apply (bounded_no_hazard n); auto. apply espnet_bounded. unfold ES_PACKET_SIZE. lia. Qed.
Print Assumptions c06_espnet_no_div0.

(* outputs (handler buffers, closure run, packet sent) do not depend on what follows the datagram in the receive buffer *)
Theorem c06_espnet_stale_free : forall d t1 t2 self st,
  bytes_ok d = true -> len d + len t1 = 521 -> len t2 = len t1 ->
  run (d ++ t1) (es_handle (len d) self st) = run (d ++ t2) (es_handle (len d) self st).
Proof.
  intros d t1 t2 self st Hb Hl _. apply bounded_stale_free; auto. apply espnet_bounded.
  unfold ES_PACKET_SIZE. lia.
Qed.
Print Assumptions c06_espnet_stale_free.

(* "never fails to return": espnet RunLengthDecoder::Decode, wherever it is pointed, ends within
   fuel = length + 1; measure: length - p, every turn consumes at least one byte *)
Theorem c06_espnet_rle_returns : forall buf base length b z,
  bytes_ok buf = true -> z <> Oob -> run buf (es_rle_decode base length b) <> Hazard z.
Proof.
  intros buf base length b z Hb Hz E. apply Hz.
  exact (nofail_run _ (bounded_nofail _ _ (es_rle_decode_bounded (base + length) base length b (N.le_refl _))) buf z Hb E).
Qed.
Print Assumptions c06_espnet_rle_returns.

(* independent of the capacity and of what the socket layer reports: for a receive buffer of ANY size and ANY reported
   length n < 2^31 the handler returns (its loops end within their fuel: RLE decoder: fuel = data length + 1, every turn consumes at least one byte) and never divides by zero; and if
   the buffer does hold n bytes it reads nothing at or beyond n *)
Theorem c06_espnet_any_length : forall buf n self st,
  bytes_ok buf = true -> n <= 2147483647 ->
  (forall z, z <> Oob -> run buf (es_handle n self st) <> Hazard z) /\
  (n <= len buf -> forall z, run buf (es_handle n self st) <> Hazard z).
Proof.
  intros buf n self st Hb Hn. pose proof (espnet_bounded_any n self st Hn) as B. split.
  - intros z Hz E. apply Hz. exact (nofail_run _ (bounded_nofail _ _ B) buf z Hb E).
  - intros Hl z. apply (bounded_no_hazard n); assumption.
Qed.
Print Assumptions c06_espnet_any_length.

(* history level: any sequence of datagrams (each from our own address or not), each followed in the receive buffer by arbitrary stale bytes, from any
   initial state: no datagram ends in a hazard, and every output and the final state are the same whatever the
   stale tails are *)
Theorem c06_espnet_history : forall (h1 h2 : list (bool * list N * list N)) s,
  Forall (fun x => let '(_, d, t) := x in bytes_ok d = true /\ bytes_ok t = true /\ len d <= 521) h1 ->
  Forall2 (fun x y => fst x = fst y) h1 h2 ->
  (exists r, run_hist (fun self n st => es_handle n self st) (fun _ r => fst (fst r)) s h1 = Done r) /\
  run_hist (fun self n st => es_handle n self st) (fun _ r => fst (fst r)) s h1 = run_hist (fun self n st => es_handle n self st) (fun _ r => fst (fst r)) s h2.
Proof.
  intros h1 h2 s Hok H2.
  assert (Hb : forall i n st, n <= ES_PACKET_SIZE -> bounded n ((fun self n st => es_handle n self st) i n st)) by (intros; apply espnet_bounded; assumption).
  split.
  - apply (hist_safe ES_PACKET_SIZE _ _ Hb). exact Hok.
  - apply (hist_stale_free ES_PACKET_SIZE _ _ Hb); assumption.
Qed.
Print Assumptions c06_espnet_history.

(* an RLE data packet "ESDD" universe 0, type RLE, size 6: 7, REPEAT 3 x 9, ESCAPE 0xFE; the trailing REPEAT of a
   7-byte variant is not decoded (see ex_espnet_tail) *)
Example ex_espnet_handled :
  run ([69; 83; 68; 68; 0; 0; 4; 0; 6; 7; 254; 3; 9; 253; 254] ++ repeat 165 506)
      (es_handle 15 false [(0, Some [1; 2])])
  = Done ([(0, Some [7; 9; 9; 9; 254])], Some 0, EsTxNone).
Proof. vm_compute. reflexivity. Qed.

Example ex_espnet_tail :
  run ([69; 83; 68; 68; 0; 0; 4; 0; 7; 7; 254; 3; 9; 253; 254; 254] ++ repeat 165 505)
      (es_handle 16 false [(0, None)])
  = Done ([(0, Some ([7; 9; 9; 9; 254] ++ repeat 0 507))], Some 0, EsTxNone).
Proof. vm_compute. reflexivity. Qed.

Example ex_espnet_poll :
  run ([69; 83; 80; 80; 1] ++ repeat 165 516) (es_handle 5 false []) = Done ([], None, EsTxReply).
Proof. vm_compute. reflexivity. Qed.

(* a two-datagram history meeting the hypotheses of c06_espnet_history: an RLE data packet, then a poll *)
Example ex_espnet_history :
  run_hist (fun self n st => es_handle n self st) (fun _ r => fst (fst r)) [(0, Some [1; 2])]
    [(false, [69; 83; 68; 68; 0; 0; 4; 0; 6; 7; 254; 3; 9; 253; 254], repeat 165 506);
     (false, [69; 83; 80; 80; 1], repeat 0 516)]
  = Done ([(0, Some [7; 9; 9; 9; 254])],
          [([(0, Some [7; 9; 9; 9; 254])], Some 0, EsTxNone); ([(0, Some [7; 9; 9; 9; 254])], None, EsTxReply)]).
Proof. vm_compute. reflexivity. Qed.
