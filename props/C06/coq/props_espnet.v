(* ---------------------------------------------------------------- ESP Net
   Receive buffer: the espnet_packet_union_t on SocketReady's stack (521 bytes).  n = bytes received,
   self = the datagram came from our own address, st = the registered handlers (any universes, any buffers). *)
Theorem c06_espnet_layout :
  (ES_PACKET_SIZE, ES_HEAD_SIZE, ES_POLL_SIZE, ES_REPLY_SIZE, ES_ACK_SIZE, ES_DATA_SIZE, ES_DATA_HEADER, ES_OFF_data) =
  (521, 4, 5, 33, 6, 521, 9, 9).
Proof. reflexivity. Qed.
Print Assumptions c06_espnet_layout.

Theorem c06_espnet_no_oob : forall buf n self st,
  bytes_ok buf = true -> len buf = 521 -> n <= len buf ->
  run buf (es_handle n self st) <> Hazard Oob.
Proof. intros buf n self st Hb Hl Hn. apply (bounded_no_hazard n); auto. apply espnet_bounded. unfold ES_PACKET_SIZE. lia. Qed.
Print Assumptions c06_espnet_no_oob.

Theorem c06_espnet_terminates : forall buf n self st,
  bytes_ok buf = true -> len buf = 521 -> n <= len buf ->
  run buf (es_handle n self st) <> Hazard OutOfFuel.
Proof. intros buf n self st Hb Hl Hn. apply (bounded_no_hazard n); auto. apply espnet_bounded. unfold ES_PACKET_SIZE. lia. Qed.
Print Assumptions c06_espnet_terminates.

(* the ESP Net receive path contains no division *)
Theorem c06_espnet_no_div0 : forall buf n self st,
  bytes_ok buf = true -> len buf = 521 -> n <= len buf ->
  run buf (es_handle n self st) <> Hazard Div0.
Proof. intros buf n self st Hb Hl Hn. apply (bounded_no_hazard n); auto. apply espnet_bounded. unfold ES_PACKET_SIZE. lia. Qed.
Print Assumptions c06_espnet_no_div0.

(* outputs (handler buffers, closure run, packet sent) do not depend on what follows the datagram in the receive buffer *)
Theorem c06_espnet_stale_free : forall d t1 t2 self st,
  bytes_ok d = true -> len d + len t1 = 521 -> len t2 = len t1 ->
  run (d ++ t1) (es_handle (len d) self st) = run (d ++ t2) (es_handle (len d) self st).
Proof.
  intros d t1 t2 self st Hb Hl _. apply bounded_stale_free; auto. apply espnet_bounded.
  unfold ES_PACKET_SIZE. lia.
Qed.
Print Assumptions c06_espnet_stale_free.

(* an RLE data packet "ESDD" universe 0, type RLE, size 6: 7, REPEAT 3 x 9, ESCAPE 0xFE; the trailing REPEAT of a
   7-byte variant is not decoded (see ex_espnet_tail) *)
Example ex_espnet_handled :
  run ([69; 83; 68; 68; 0; 0; 4; 0; 6; 7; 254; 3; 9; 253; 254] ++ repeat 165 506)
      (es_handle 15 false [(0, Some [1; 2])])
  = Done ([(0, Some [7; 9; 9; 9; 254])], Some 0, EsTxNone).
Proof. vm_compute. reflexivity. Qed.

Example ex_espnet_tail :
  run ([69; 83; 68; 68; 0; 0; 4; 0; 7; 7; 254; 3; 9; 253; 254; 254] ++ repeat 165 505)
      (es_handle 16 false [(0, None)])
  = Done ([(0, Some ([7; 9; 9; 9; 254] ++ repeat 0 507))], Some 0, EsTxNone).
Proof. vm_compute. reflexivity. Qed.

Example ex_espnet_poll :
  run ([69; 83; 80; 80; 1] ++ repeat 165 516) (es_handle 5 false []) = Done ([], None, EsTxReply).
Proof. vm_compute. reflexivity. Qed.
