(* ---------------------------------------------------------------- E1.31 / ACN
   Receive buffer: IncomingUDPTransport::m_recv_buffer (1472 bytes).  n = bytes received, hs = the universe
   handlers of DMPE131Inflator with their tracked sources (any), ign = ignore_preview. *)
Theorem c06_acn_layout :
  (ACN_MAX_DATAGRAM, ACN_HEADER_SIZE, CID_LENGTH, E131_HEADER_SIZE, REV2_HEADER_SIZE, DMP_HEADER_SIZE,
   ROOT_VECTOR_SIZE, E131_VECTOR_SIZE, DMP_VECTOR_SIZE) =
  (1472, 16, 16, 71, 36, 1, 4, 4, 1).
Proof. reflexivity. Qed.
Print Assumptions c06_acn_layout.

Theorem c06_acn_no_oob : forall buf ign n hs,
  bytes_ok buf = true -> len buf = 1472 -> n <= len buf ->
  run buf (acn_handle ign n hs) <> Hazard Oob.
Proof. intros buf ign n hs Hb Hl Hn. apply (bounded_no_hazard n); auto. apply acn_bounded. unfold ACN_MAX_DATAGRAM. lia. Qed.
Print Assumptions c06_acn_no_oob.

Theorem c06_acn_terminates : forall buf ign n hs,
  bytes_ok buf = true -> len buf = 1472 -> n <= len buf ->
  run buf (acn_handle ign n hs) <> Hazard OutOfFuel.
Proof. intros buf ign n hs Hb Hl Hn. apply (bounded_no_hazard n); auto. apply acn_bounded. unfold ACN_MAX_DATAGRAM. lia. Qed.
Print Assumptions c06_acn_terminates.

Theorem c06_acn_no_div0 : forall buf ign n hs,
  bytes_ok buf = true -> len buf = 1472 -> n <= len buf ->
  run buf (acn_handle ign n hs) <> Hazard Div0.
Proof. intros buf ign n hs Hb Hl Hn. apply (bounded_no_hazard n); auto. apply acn_bounded. unfold ACN_MAX_DATAGRAM. lia. Qed.
Print Assumptions c06_acn_no_div0.

(* outputs and next state do not depend on what follows the datagram in the receive buffer *)
Theorem c06_acn_stale_free : forall d t1 t2 ign hs,
  bytes_ok d = true -> len d + len t1 = 1472 -> len t2 = len t1 ->
  run (d ++ t1) (acn_handle ign (len d) hs) = run (d ++ t2) (acn_handle ign (len d) hs).
Proof.
  intros d t1 t2 ign hs Hb Hl _. apply bounded_stale_free; auto. apply acn_bounded.
  unfold ACN_MAX_DATAGRAM. lia.
Qed.
Print Assumptions c06_acn_stale_free.

Example ex_acn_data_handled :
  run ([0; 16; 0; 0; 65; 83; 67; 45; 69; 49; 46; 49; 55; 0; 0; 0; 112; 113; 0; 0; 0; 4; 17; 17; 17; 17; 17; 17; 17; 17; 17; 17; 17; 17; 17; 17; 17; 1; 112; 91; 0; 0; 0; 2; 115; 111; 117; 114; 99; 101; 0; 0; 0; 0; 0; 0; 0; 0; 0; 0; 0; 0; 0; 0; 0; 0; 0; 0; 0; 0; 0; 0; 0; 0; 0; 0; 0; 0; 0; 0; 0; 0; 0; 0; 0; 0; 0; 0; 0; 0; 0; 0; 0; 0; 0; 0; 0; 0; 0; 0; 0; 0; 0; 0; 0; 0; 0; 0; 100; 0; 0; 7; 0; 0; 1; 112; 14; 2; 161; 0; 0; 0; 1; 0; 4; 0; 9; 8; 7] ++ repeat 165 1343)
      (acn_handle false 129 [mk_uh 1 None 0 []])
  = Done ([mk_uh 1 (Some [9; 8; 7]) 100 [mk_src [17; 17; 17; 17; 17; 17; 17; 17; 17; 17; 17; 17; 17; 17; 17; 1] 7 (Some [9; 8; 7])]], [AcnEvData 1; EvSrc [115; 111; 117; 114; 99; 101]]).
Proof. vm_compute. reflexivity. Qed.

Example ex_acn_discovery_handled :
  run ([0; 16; 0; 0; 65; 83; 67; 45; 69; 49; 46; 49; 55; 0; 0; 0; 112; 105; 0; 0; 0; 4; 18; 18; 18; 18; 18; 18; 18; 18; 18; 18; 18; 18; 18; 18; 18; 2; 112; 83; 0; 0; 0; 4; 115; 111; 117; 114; 99; 101; 0; 0; 0; 0; 0; 0; 0; 0; 0; 0; 0; 0; 0; 0; 0; 0; 0; 0; 0; 0; 0; 0; 0; 0; 0; 0; 0; 0; 0; 0; 0; 0; 0; 0; 0; 0; 0; 0; 0; 0; 0; 0; 0; 0; 0; 0; 0; 0; 0; 0; 0; 0; 0; 0; 0; 0; 0; 0; 50; 0; 0; 179; 0; 0; 1; 0; 0; 1; 2; 0; 3] ++ repeat 165 1351)
      (acn_handle false 121 [])
  = Done ([], [EvPage [18; 18; 18; 18; 18; 18; 18; 18; 18; 18; 18; 18; 18; 18; 18; 2] 0 0 [258; 3]; EvSrc [115; 111; 117; 114; 99; 101]]).
Proof. vm_compute. reflexivity. Qed.

(* the E1.33 (RPT) and LLRP header decoders accept a well-formed packet (they are added to the root inflator by the
   harness; olad's E131Node does not register them) *)
Definition acn_e133_pkt : list N := [0; 16; 0; 0; 65; 83; 67; 45; 69; 49; 46; 49; 55; 0; 0; 0; 112; 105; 0; 0; 0; 5; 17; 17; 17; 17; 17; 17; 17; 17; 17; 17; 17; 17; 17; 17; 17; 1; 112; 83; 0; 0; 0; 1; 114; 112; 116; 45; 115; 111; 117; 114; 99; 101; 0; 0; 0; 0; 0; 0; 0; 0; 0; 0; 0; 0; 0; 0; 0; 0; 0; 0; 0; 0; 0; 0; 0; 0; 0; 0; 0; 0; 0; 0; 0; 0; 0; 0; 0; 0; 0; 0; 0; 0; 0; 0; 0; 0; 0; 0; 0; 0; 0; 0; 0; 0; 0; 0; 215; 33; 13; 255; 127; 131; 0; 112; 6; 204; 130; 183; 14].
Example ex_acn_e133 : match run (acn_e133_pkt ++ repeat 165 1351) (acn_handle false 121 []) with
  | Done (_, [EvRdm133 _ _ d]) => d = [130; 183; 14] | _ => False end.
Proof. vm_compute. reflexivity. Qed.

Definition acn_llrp_pkt : list N := [0; 16; 0; 0; 65; 83; 67; 45; 69; 49; 46; 49; 55; 0; 0; 0; 112; 54; 0; 0; 0; 10; 17; 17; 17; 17; 17; 17; 17; 17; 17; 17; 17; 17; 17; 17; 17; 1; 112; 32; 0; 0; 0; 3; 19; 19; 19; 19; 19; 19; 19; 19; 19; 19; 19; 19; 19; 19; 19; 3; 63; 31; 101; 168; 112; 6; 204; 26; 80; 57].
Example ex_acn_llrp : match run (acn_llrp_pkt ++ repeat 165 1402) (acn_handle false 70 []) with
  | Done (_, [EvLlrp _ _ d]) => d = [26; 80; 57] | _ => False end.
Proof. vm_compute. reflexivity. Qed.
