(* ---------------------------------------------------------------- E1.31 / ACN
   Receive buffer: IncomingUDPTransport::m_recv_buffer (1472 bytes).  n = bytes received, hs = the universe
   handlers of DMPE131Inflator with their tracked sources (any), ign = ignore_preview. *)
Theorem c06_acn_layout :
  (ACN_MAX_DATAGRAM, ACN_HEADER_SIZE, CID_LENGTH, E131_HEADER_SIZE, REV2_HEADER_SIZE, DMP_HEADER_SIZE,
   ROOT_VECTOR_SIZE, E131_VECTOR_SIZE, DMP_VECTOR_SIZE) =
  (1472, 16, 16, 71, 36, 1, 4, 4, 1).
Proof. reflexivity. Qed.
Print Assumptions c06_acn_layout.

(* every constant the acn model takes from the repository (sizeof / offsetof of the packed wire structs, opcodes,
   vectors, masks), regenerated into GenAcn.v on each run, pinned to the value the proofs and statements were written
   for: a change of the wire layout or of a constant in /repo breaks this obligation deterministically *)
Theorem c06_acn_consts :
  ACN_MAX_DATAGRAM = 1472 /\
  ACN_HEADER_SIZE = 16 /\
  ACN_PRE_0 = 0 /\
  ACN_PRE_1 = 16 /\
  ACN_PRE_2 = 0 /\
  ACN_PRE_3 = 0 /\
  ACN_PRE_4 = 65 /\
  ACN_PRE_5 = 83 /\
  ACN_PRE_6 = 67 /\
  ACN_PRE_7 = 45 /\
  ACN_PRE_8 = 69 /\
  ACN_PRE_9 = 49 /\
  ACN_PRE_10 = 46 /\
  ACN_PRE_11 = 49 /\
  ACN_PRE_12 = 55 /\
  ACN_PRE_13 = 0 /\
  ACN_PRE_14 = 0 /\
  ACN_PRE_15 = 0 /\
  LFLAG_MASK = 128 /\
  LENGTH_MASK = 15 /\
  VFLAG_MASK = 64 /\
  HFLAG_MASK = 32 /\
  CID_LENGTH = 16 /\
  ROOT_VECTOR_SIZE = 4 /\
  E131_VECTOR_SIZE = 4 /\
  DMP_VECTOR_SIZE = 1 /\
  E131_HEADER_SIZE = 71 /\
  E131_OFF_priority = 64 /\
  E131_OFF_sequence = 67 /\
  E131_OFF_options = 68 /\
  E131_OFF_universe = 69 /\
  E131_PREVIEW_MASK = 128 /\
  E131_TERMINATED_MASK = 64 /\
  REV2_HEADER_SIZE = 36 /\
  REV2_OFF_priority = 32 /\
  REV2_OFF_sequence = 33 /\
  REV2_OFF_universe = 34 /\
  DMP_HEADER_SIZE = 1 /\
  DMP_VIRTUAL_MASK = 128 /\
  DMP_RELATIVE_MASK = 64 /\
  DMP_TYPE_MASK = 48 /\
  DMP_SIZE_MASK = 3 /\
  DMP_TWO_BYTES = 1 /\
  DMP_ADDR_UNIT = 2 /\
  DMP_RANGE_EQUAL = 2 /\
  VECTOR_ROOT_E131 = 4 /\
  VECTOR_ROOT_E131_REV2 = 3 /\
  VECTOR_E131_DATA = 2 /\
  VECTOR_E131_DISCOVERY = 4 /\
  DMP_SET_PROPERTY_VECTOR = 2 /\
  E131_SOURCE_NAME_LEN = 64 /\
  E131_OFF_source = 0 /\
  REV2_SOURCE_NAME_LEN = 32 /\
  REV2_OFF_source = 0 /\
  VECTOR_ROOT_RPT = 5 /\
  VECTOR_ROOT_LLRP = 10 /\
  VECTOR_FRAMING_RDMNET = 1 /\
  VECTOR_LLRP_RDM_CMD = 3 /\
  VECTOR_RDM_CMD_RDM_DATA = 204 /\
  RDM_VECTOR_SIZE = 1 /\
  E133_HEADER_SIZE = 71 /\
  E133_OFF_sequence = 64 /\
  E133_OFF_endpoint = 68 /\
  LLRP_HEADER_SIZE = 20 /\
  LLRP_OFF_transaction = 16 /\
  MAX_E131_PRIORITY = 200 /\
  MAX_MERGE_SOURCES = 6 /\
  SEQ_DIFF_THRESHOLD_NEG = 20.
Proof. repeat split; reflexivity. Qed.
Print Assumptions c06_acn_consts.

Theorem c06_acn_no_oob : forall buf ign n hs,
  bytes_ok buf = true -> len buf = 1472 -> n <= len buf ->
  run buf (acn_handle ign n hs) <> Hazard Oob.
Proof. intros buf ign n hs Hb Hl Hn. apply (bounded_no_hazard n); auto. apply acn_bounded. unfold ACN_MAX_DATAGRAM. lia. Qed.
Print Assumptions c06_acn_no_oob.

Theorem c06_acn_terminates : forall buf ign n hs,
  bytes_ok buf = true -> len buf = 1472 -> n <= len buf ->
  run buf (acn_handle ign n hs) <> Hazard OutOfFuel.
Proof. intros buf ign n hs Hb Hl Hn. apply (bounded_no_hazard n); auto. apply acn_bounded. unfold ACN_MAX_DATAGRAM. lia. Qed.
Print Assumptions c06_acn_terminates.

Theorem c06_acn_no_div0 : forall buf ign n hs,
  bytes_ok buf = true -> len buf = 1472 -> n <= len buf ->
  run buf (acn_handle ign n hs) <> Hazard Div0.
Proof. intros buf ign n hs Hb Hl Hn. apply (bounded_no_hazard n); auto. apply acn_bounded. unfold ACN_MAX_DATAGRAM. lia. Qed.
Print Assumptions c06_acn_no_div0.

(* outputs and next state do not depend on what follows the datagram in the receive buffer *)
Theorem c06_acn_stale_free : forall d t1 t2 ign hs,
  bytes_ok d = true -> len d + len t1 = 1472 -> len t2 = len t1 ->
  run (d ++ t1) (acn_handle ign (len d) hs) = run (d ++ t2) (acn_handle ign (len d) hs).
Proof.
  intros d t1 t2 ign hs Hb Hl _. apply bounded_stale_free; auto. apply acn_bounded.
  unfold ACN_MAX_DATAGRAM. lia.
Qed.
Print Assumptions c06_acn_stale_free.

(* "never fails to return": the PDU block walkers (BaseInflator::InflatePDUBlock at the root, E1.31, E1.31 rev2,
   DMP, E1.33, LLRP and RDM levels, nested) and the discovery page walk, for a block at any offset and of any
   length: fuel = block length + 1; measure: length - offset, every PDU advances the offset by at least the two
   bytes of its length field (a PDU shorter than its own length field ends the walk) *)
Theorem c06_acn_walkers_return : forall buf ign cid src off l st z,
  bytes_ok buf = true -> z <> Oob ->
  run buf (root_block ign off l st) <> Hazard z /\ run buf (e131_block ign cid off l st) <> Hazard z /\
  run buf (rev2_block ign cid off l st) <> Hazard z /\ run buf (e133_block off l st) <> Hazard z /\
  run buf (llrp_block off l st) <> Hazard z /\ run buf (disc_handle cid src off l st) <> Hazard z.
Proof.
  intros buf ign cid src off l st z Hb Hz.
  repeat split; intros E; apply Hz.
  - exact (nofail_run _ (bounded_nofail _ _ (root_block_bounded (off + l) ign off l st (N.le_refl _))) buf z Hb E).
  - exact (nofail_run _ (bounded_nofail _ _ (e131_block_bounded (off + l) ign cid off l st (N.le_refl _))) buf z Hb E).
  - exact (nofail_run _ (bounded_nofail _ _ (rev2_block_bounded (off + l) ign cid off l st (N.le_refl _))) buf z Hb E).
  - exact (nofail_run _ (bounded_nofail _ _ (e133_block_bounded (off + l) off l st (N.le_refl _))) buf z Hb E).
  - exact (nofail_run _ (bounded_nofail _ _ (llrp_block_bounded (off + l) off l st (N.le_refl _))) buf z Hb E).
  - exact (nofail_run _ (bounded_nofail _ _ (disc_handle_bounded (off + l) cid src off l st (N.le_refl _))) buf z Hb E).
Qed.
Print Assumptions c06_acn_walkers_return.

(* DecodeAddress (libs/acn/DMPAddress.cpp) for the only combination a received datagram can reach
   (DMPE131Inflator::HandlePDUData returns unless Size() == TWO_BYTES && Type() == RANGE_EQUAL): on a buffer of any
   size holding n bytes it reads nothing at or beyond n.  For this combination the code as it is and the proposed
   fix coincide (`decode_address` differs from the unchanged code only for NON_RANGE two-/four-byte addresses). *)
Theorem c06_acn_decode_address : forall buf n z,
  bytes_ok buf = true -> n <= len buf -> run buf (decode_address DMP_TWO_BYTES DMP_RANGE_EQUAL n) <> Hazard z.
Proof. intros buf n z Hb Hn. apply (bounded_no_hazard n); auto. apply decode_address_bounded. Qed.
Print Assumptions c06_acn_decode_address.

(* with the proposed, UNAPPLIED fix (fixes-optional-not-applied/03: NON_RANGE copies one field, not three) the same
   holds for every address size and type; in the unchanged tree NON_RANGE two-/four-byte addresses read 6 / 12 bytes
   after checking 2 / 4 - a latent defect of the library function that no received datagram can reach *)
Theorem c06_acn_decode_address_proposedfix : forall buf size typ n z,
  bytes_ok buf = true -> n <= len buf -> run buf (decode_address size typ n) <> Hazard z.
Proof. intros buf size typ n z Hb Hn. apply (bounded_no_hazard n); auto. apply decode_address_bounded. Qed.
Print Assumptions c06_acn_decode_address_proposedfix.

(* IncomingUDPTransport::Receive accepts exactly one preamble: a datagram whose first 16 bytes differ from
   PreamblePacker::ACN_HEADER in ANY byte - the preamble-size / post-amble-size fields included - is discarded
   without a callback or a state change, whatever follows *)
Theorem c06_acn_preamble_strict : forall buf ign n hs,
  n <= len buf -> list_eqb (slice buf 0 ACN_HEADER_SIZE) ACN_PREAMBLE = false ->
  run buf (acn_handle ign n hs) = Done (hs, []).
Proof.
  intros buf ign n hs Hn Hp. unfold acn_handle. cbv zeta.
  destruct (n <? ACN_HEADER_SIZE) eqn:E; [reflexivity|]. apply N.ltb_ge in E.
  cbn [run]. change (ACN_HEADER_SIZE =? 0) with false. cbv iota.
  destruct (0 + ACN_HEADER_SIZE <=? len buf) eqn:E2; [|apply N.leb_gt in E2; lia].
  rewrite Hp. reflexivity.
Qed.
Print Assumptions c06_acn_preamble_strict.

(* independent of the capacity and of what the socket layer reports: for a receive buffer of ANY size and ANY reported
   length n < 2^31 the handler returns (its loops end within their fuel: PDU block walks: fuel = block length + 1, each PDU advances the offset by at least its 2-byte length field; discovery page walk: 2 bytes per turn) and never divides by zero; and if
   the buffer does hold n bytes it reads nothing at or beyond n *)
Theorem c06_acn_any_length : forall buf n ign hs,
  bytes_ok buf = true -> n <= 2147483647 ->
  (forall z, z <> Oob -> run buf (acn_handle ign n hs) <> Hazard z) /\
  (n <= len buf -> forall z, run buf (acn_handle ign n hs) <> Hazard z).
Proof.
  intros buf n ign hs Hb Hn. pose proof (acn_bounded_any ign n hs Hn) as B. split.
  - intros z Hz E. apply Hz. exact (nofail_run _ (bounded_nofail _ _ B) buf z Hb E).
  - intros Hl z. apply (bounded_no_hazard n); assumption.
Qed.
Print Assumptions c06_acn_any_length.

(* history level: any sequence of datagrams (with the node's ignore-preview setting), each followed in the receive buffer by arbitrary stale bytes, from any
   initial state: no datagram ends in a hazard, and every output and the final state are the same whatever the
   stale tails are *)
Theorem c06_acn_history : forall (h1 h2 : list (bool * list N * list N)) s,
  Forall (fun x => let '(_, d, t) := x in bytes_ok d = true /\ bytes_ok t = true /\ len d <= 1472) h1 ->
  Forall2 (fun x y => fst x = fst y) h1 h2 ->
  (exists r, run_hist (fun ign n hs => acn_handle ign n hs) (fun _ r => fst r) s h1 = Done r) /\
  run_hist (fun ign n hs => acn_handle ign n hs) (fun _ r => fst r) s h1 = run_hist (fun ign n hs => acn_handle ign n hs) (fun _ r => fst r) s h2.
Proof.
  intros h1 h2 s Hok H2.
  assert (Hb : forall i n st, n <= ACN_MAX_DATAGRAM -> bounded n ((fun ign n hs => acn_handle ign n hs) i n st)) by (intros; apply acn_bounded; assumption).
  split.
  - apply (hist_safe ACN_MAX_DATAGRAM _ _ Hb). exact Hok.
  - apply (hist_stale_free ACN_MAX_DATAGRAM _ _ Hb); assumption.
Qed.
Print Assumptions c06_acn_history.

Example ex_acn_data_handled :
  run ([0; 16; 0; 0; 65; 83; 67; 45; 69; 49; 46; 49; 55; 0; 0; 0; 112; 113; 0; 0; 0; 4; 17; 17; 17; 17; 17; 17; 17; 17; 17; 17; 17; 17; 17; 17; 17; 1; 112; 91; 0; 0; 0; 2; 115; 111; 117; 114; 99; 101; 0; 0; 0; 0; 0; 0; 0; 0; 0; 0; 0; 0; 0; 0; 0; 0; 0; 0; 0; 0; 0; 0; 0; 0; 0; 0; 0; 0; 0; 0; 0; 0; 0; 0; 0; 0; 0; 0; 0; 0; 0; 0; 0; 0; 0; 0; 0; 0; 0; 0; 0; 0; 0; 0; 0; 0; 0; 0; 100; 0; 0; 7; 0; 0; 1; 112; 14; 2; 161; 0; 0; 0; 1; 0; 4; 0; 9; 8; 7] ++ repeat 165 1343)
      (acn_handle false 129 [mk_uh 1 None 0 []])
  = Done ([mk_uh 1 (Some [9; 8; 7]) 100 [mk_src [17; 17; 17; 17; 17; 17; 17; 17; 17; 17; 17; 17; 17; 17; 17; 1] 7 (Some [9; 8; 7])]], [AcnEvData 1; EvSrc [115; 111; 117; 114; 99; 101]]).
Proof. vm_compute. reflexivity. Qed.

Example ex_acn_discovery_handled :
  run ([0; 16; 0; 0; 65; 83; 67; 45; 69; 49; 46; 49; 55; 0; 0; 0; 112; 105; 0; 0; 0; 4; 18; 18; 18; 18; 18; 18; 18; 18; 18; 18; 18; 18; 18; 18; 18; 2; 112; 83; 0; 0; 0; 4; 115; 111; 117; 114; 99; 101; 0; 0; 0; 0; 0; 0; 0; 0; 0; 0; 0; 0; 0; 0; 0; 0; 0; 0; 0; 0; 0; 0; 0; 0; 0; 0; 0; 0; 0; 0; 0; 0; 0; 0; 0; 0; 0; 0; 0; 0; 0; 0; 0; 0; 0; 0; 0; 0; 0; 0; 0; 0; 0; 0; 0; 0; 0; 0; 50; 0; 0; 179; 0; 0; 1; 0; 0; 1; 2; 0; 3] ++ repeat 165 1351)
      (acn_handle false 121 [])
  = Done ([], [EvPage [18; 18; 18; 18; 18; 18; 18; 18; 18; 18; 18; 18; 18; 18; 18; 2] 0 0 [258; 3]; EvSrc [115; 111; 117; 114; 99; 101]]).
Proof. vm_compute. reflexivity. Qed.

(* the E1.33 (RPT) and LLRP header decoders accept a well-formed packet (they are added to the root inflator by the
   harness; olad's E131Node does not register them) *)
Definition acn_e133_pkt : list N := [0; 16; 0; 0; 65; 83; 67; 45; 69; 49; 46; 49; 55; 0; 0; 0; 112; 105; 0; 0; 0; 5; 17; 17; 17; 17; 17; 17; 17; 17; 17; 17; 17; 17; 17; 17; 17; 1; 112; 83; 0; 0; 0; 1; 114; 112; 116; 45; 115; 111; 117; 114; 99; 101; 0; 0; 0; 0; 0; 0; 0; 0; 0; 0; 0; 0; 0; 0; 0; 0; 0; 0; 0; 0; 0; 0; 0; 0; 0; 0; 0; 0; 0; 0; 0; 0; 0; 0; 0; 0; 0; 0; 0; 0; 0; 0; 0; 0; 0; 0; 0; 0; 0; 0; 0; 0; 0; 0; 215; 33; 13; 255; 127; 131; 0; 112; 6; 204; 130; 183; 14].
Example ex_acn_e133 : match run (acn_e133_pkt ++ repeat 165 1351) (acn_handle false 121 []) with
  | Done (_, [EvRdm133 _ _ d]) => d = [130; 183; 14] | _ => False end.
Proof. vm_compute. reflexivity. Qed.

Definition acn_llrp_pkt : list N := [0; 16; 0; 0; 65; 83; 67; 45; 69; 49; 46; 49; 55; 0; 0; 0; 112; 54; 0; 0; 0; 10; 17; 17; 17; 17; 17; 17; 17; 17; 17; 17; 17; 17; 17; 17; 17; 1; 112; 32; 0; 0; 0; 3; 19; 19; 19; 19; 19; 19; 19; 19; 19; 19; 19; 19; 19; 19; 19; 3; 63; 31; 101; 168; 112; 6; 204; 26; 80; 57].
Example ex_acn_llrp : match run (acn_llrp_pkt ++ repeat 165 1402) (acn_handle false 70 []) with
  | Done (_, [EvLlrp _ _ d]) => d = [26; 80; 57] | _ => False end.
Proof. vm_compute. reflexivity. Qed.
