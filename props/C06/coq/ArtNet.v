(* C06 — ArtNetNodeImpl::SocketReady / HandlePacket / Handle*Packet / UpdatePortFromTodPacket
   (plugins/artnet/ArtNetNode.cpp).  The receive buffer is the `artnet_packet packet` on SocketReady's
   stack (AN_PACKET_SIZE bytes); n is what RecvFrom returned.
   Node configuration covered by the state: output ports 0 and 1 on port addresses a_oa / a_ob, each with a DMX
   buffer and on_data/on_discover/on_flush/on_rdm_request handlers; input port 0 enabled on port address a_ia with an
   unsolicited-TOD handler, no discovery running and no pending RDM request; every other port disabled;
   every datagram from the same source IP (which is not the node's own IP).
   a_oa / a_ob / a_ia = 256 (no byte equals it) stands for "that port is disabled". *)
From OlaBase Require Import Bytes.
From C06 Require Import Gen GenArtNet Prog Dmx.
Local Open Scope N_scope.

Record an_state := mk_an_state {
  a_net : N;            (* m_net_address *)
  a_oa : N;             (* m_output_ports[0].universe_address *)
  a_ia : N;             (* m_input_ports[0]->PortAddress() *)
  a_buf : dbuf;         (* *m_output_ports[0].buffer *)
  a_uids : list N;      (* keys of m_input_ports[0]->uids, ascending (48-bit numbers) *)
  a_sub : bool;         (* the source is in m_input_ports[0]->subscribed_nodes *)
  a_roc : bool;         (* m_send_reply_on_change *)
  a_ob : N;             (* m_output_ports[1].universe_address *)
  a_buf2 : dbuf;        (* *m_output_ports[1].buffer *)
  a_from : N;           (* per-datagram input, set before each datagram: the sender's IP (its last octet; never 0) *)
  a_ltp : bool;         (* m_output_ports[0].merge_mode == ARTNET_MERGE_LTP (port 1 is HTP) *)
  a_s0 : option (N * dbuf) * option (N * dbuf);   (* m_output_ports[0].sources[0..1]: None = wildcard address *)
  a_s1 : option (N * dbuf) * option (N * dbuf);   (* m_output_ports[1].sources[0..1] *)
  a_pend : option (list N * list N * N * N * N)
     (* m_input_ports[0]->pending_request: source UID, destination UID (6 bytes each), ParamId, SubDevice,
        CommandClass.  The completion callback queues the same request again (what QueueingRDMController does with
        its next request), so a matched response leaves it pending. *)
}.
Definition upd st (buf : dbuf) (uids : list N) (sub roc : bool) (buf2 : dbuf) s0 s1 :=
  mk_an_state (a_net st) (a_oa st) (a_ia st) buf uids sub roc (a_ob st) buf2 (a_from st) (a_ltp st) s0 s1 (a_pend st).
Definition set_buf st b := upd st b (a_uids st) (a_sub st) (a_roc st) (a_buf2 st) (a_s0 st) (a_s1 st).
Definition set_buf2 st b := upd st (a_buf st) (a_uids st) (a_sub st) (a_roc st) b (a_s0 st) (a_s1 st).
Definition set_uids st u := upd st (a_buf st) u (a_sub st) (a_roc st) (a_buf2 st) (a_s0 st) (a_s1 st).
Definition set_sub st x := upd st (a_buf st) (a_uids st) x (a_roc st) (a_buf2 st) (a_s0 st) (a_s1 st).
Definition set_roc st r := upd st (a_buf st) (a_uids st) (a_sub st) r (a_buf2 st) (a_s0 st) (a_s1 st).
Definition set_from st f :=
  mk_an_state (a_net st) (a_oa st) (a_ia st) (a_buf st) (a_uids st) (a_sub st) (a_roc st) (a_ob st) (a_buf2 st) f
              (a_ltp st) (a_s0 st) (a_s1 st) (a_pend st).

(* UpdatePortFromSource(port, source) for a port whose tracked sources are `srcs`, from address `from` with
   buffer `nb` (no source ever times out: the harness's clock does not advance).  Result: None = "No room at the
   inn" (nothing changes, on_data does not run); Some (sources', port buffer, entered merge mode) *)
Definition an_update (ltp : bool) (srcs : option (N * dbuf) * option (N * dbuf)) (from : N) (nb : dbuf)
  : option ((option (N * dbuf) * option (N * dbuf)) * dbuf * bool) :=
  let '(x, y) := srcs in
  let is_me o := match o with Some (a, _) => a =? from | None => false end in
  let active o := match o with Some _ => negb (is_me o) | None => false end in
  let slot := if is_me x then Some 0 else if is_me y then Some 1 else None in
  let n_active := (if active x then 1 else 0) + (if active y then 1 else 0) in
  let first_empty := match x, y with None, _ => Some 0 | Some _, None => Some 1 | _, _ => None end in
  let place k := if k =? 0 then (Some (from, nb), y) else (x, Some (from, nb)) in
  let go srcs' entered :=
    let '(x', y') := srcs' in
    let buf := if ltp then nb
               else match x', y' with
                    | Some (_, b0), Some (_, b1) => htp_merge b0 b1
                    | Some (_, b0), None => b0
                    | None, Some (_, b1) => b1
                    | None, None => nb
                    end in
    Some (srcs', buf, entered) in
  match slot with
  | Some k => go (place k) false
  | None => match first_empty with
            | None => None
            | Some k => go (place k) (negb (n_active =? 0))
            end
  end.

Inductive an_event :=
| EvTx                      (* an ArtPollReply was sent *)
| EvData (port : N)         (* on_data of that output port ran (after its buffer was updated) *)
| EvDisc (port : N)         (* on_discover ran *)
| EvFlush (port : N)        (* on_flush ran *)
| EvRdm (port : N) (req : list N)  (* on_rdm_request ran; req = the request's header fields from destination_uid on + param data *)
| EvTod (uids : list N)     (* the TOD callback ran with these UIDs *)
| EvResp (resp : list N).   (* the pending request's callback ran with this response (fields from destination_uid on + param data) *)

Definition an_out := (an_state * list an_event)%type.
Definition ev_if (c : bool) (e : an_event) : list an_event := if c then [e] else [].

(* for (i = 0; i < lim; i++) body *)
Fixpoint for_loop {S} (fuel : nat) (i lim : N) (body : N -> S -> prog S) (s : S) : prog S :=
  match fuel with
  | O => Fail OutOfFuel
  | S k => if i <? lim then bind (body i s) (fun s' => for_loop k (i + 1) lim body s') else Ret s
  end.

Lemma for_loop_bounded {S} n lim (body : N -> S -> prog S) :
  (forall i s, i < lim -> bounded n (body i s)) ->
  forall fuel i s, i <= lim -> lim < i + N.of_nat fuel -> bounded n (for_loop fuel i lim body s).
Proof.
  intros Hb. induction fuel as [|k IH]; intros i s Hi Hf; cbn [for_loop].
  - lia.
  - destruct (i <? lim) eqn:E; [|constructor].
    apply N.ltb_lt in E. apply bounded_bind; [apply Hb; assumption|].
    intros s'. apply IH; lia.
Qed.

(* ---------------------------------------------------------------- UIDs (6 bytes, big-endian order) *)
Definition uid_num (l : list N) : N := fold_left (fun a b => 256 * a + b) l 0.
Fixpoint uid_insert (u : N) (l : list N) : list N :=
  match l with
  | [] => [u]
  | x :: r => if u <? x then u :: l else if u =? x then l else x :: uid_insert u r
  end.
Definition uid_add_all (us : list N) (l : list N) : list N := fold_left (fun acc u => uid_insert u acc) us l.

(* ---------------------------------------------------------------- RDMCommand::VerifyData + RDMRequest::InflateFromData
   as a function of the rdm_length bytes at packet.data *)
Definition gb (d : list N) (i : N) : N := match rd d i with Some v => v | None => 0 end.

(* RDMCommand::VerifyData(data, length, &header) == RDM_COMPLETED_OK; gives the param data length *)
Definition rdm_verify (d : list N) : option N :=
  let length := len d in
  if length <? RDMH_SIZE then None
  else if negb (gb d RDMH_sub_start_code =? RDM_SUB_START_CODE) then None
  else
    let ml := gb d RDMH_message_length in
    if length <? ml + 1 then None
    else if ml <? RDMH_SIZE + 1 then None
    else
      let cs := u16 (RDM_START_CODE + sum_bytes (take (ml - 1) d)) in
      let actual := join16 (gb d (ml - 1)) (gb d ml) in
      if negb (actual =? cs) then None
      else
        let pdl := gb d RDMH_param_data_length in
        if length - RDMH_SIZE - 2 <? pdl then None else Some pdl.

(* RDMRequest::InflateFromData *)
Definition rdm_inflate (d : list N) : option (list N) :=
  match rdm_verify d with
  | None => None
  | Some pdl =>
    let cc := gb d RDMH_command_class in
    if (cc =? RDM_CC_DISCOVER) || (cc =? RDM_CC_GET) || (cc =? RDM_CC_SET)
    then Some (slice d RDMH_destination_uid (RDMH_SIZE - RDMH_destination_uid + pdl))
    else None
  end.

(* RDMReply::FromFrame(RDMFrame(packet.data, rdm_length, prepend start code)) -> RDMResponse::InflateFromData(d, len d,
   &status, NULL): verification, response type <= ACK_OVERFLOW, one of the three response command classes *)
Definition rdm_resp_inflate (d : list N) : option (list N) :=
  match rdm_verify d with
  | None => None
  | Some pdl =>
    let cc := gb d RDMH_command_class in
    if RDM_ACK_OVERFLOW <? gb d RDMH_port_id then None
    else if (cc =? RDM_CC_DISCOVER_RESPONSE) || (cc =? RDM_CC_GET_RESPONSE) || (cc =? RDM_CC_SET_RESPONSE)
    then Some (slice d RDMH_destination_uid (RDMH_SIZE - RDMH_destination_uid + pdl))
    else None
  end.
Fixpoint list_eqbN (a b : list N) : bool :=
  match a, b with [], [] => true | x :: a', y :: b' => (x =? y) && list_eqbN a' b' | _, _ => false end.
(* HandleRDMResponse(port, frame, source): does the response belong to the pending request? (the IP test holds:
   every ArtRdm comes from the address the TOD came from, or the destination is the broadcast address) *)
Definition resp_matches (pend : list N * list N * N * N * N) (d : list N) : bool :=
  let '(rsrc, rdst, rpid, rsub, rcc) := pend in
  let dst := slice d RDMH_destination_uid RDM_UID_SIZE in
  let src := slice d RDMH_source_uid RDM_UID_SIZE in
  let pid := join16 (gb d RDMH_param_id) (gb d (RDMH_param_id + 1)) in
  let sub := join16 (gb d RDMH_sub_device) (gb d (RDMH_sub_device + 1)) in
  let cc := gb d RDMH_command_class in
  let queued := rpid =? RDM_PID_QUEUED_MESSAGE in
  list_eqbN rsrc dst && list_eqbN rdst src
  && (queued || (rpid =? pid))
  && (queued || (rsub =? RDM_ALL_SUBDEVICES) || (rsub =? sub))
  && negb ((rcc =? RDM_CC_GET) && negb (cc =? RDM_CC_GET_RESPONSE) && negb queued)
  && negb ((rcc =? RDM_CC_SET) && negb (cc =? RDM_CC_SET_RESPONSE)).

(* ---------------------------------------------------------------- the handlers; H = offset of packet.data,
   psz = packet_size - header_size as passed by HandlePacket *)
Section Handlers.
Variable n : N.
Variable st : an_state.
Let H := AN_HEADER_SIZE.
Let psz := n - AN_HEADER_SIZE.
Let drop_ : prog an_out := Ret (st, []).

(* CheckPacketVersion: NetworkToHost(version) != ARTNET_VERSION *)
Definition chk_version (off : N) (k : prog an_out) : prog an_out :=
  rd16be off (fun v => if negb (v =? AN_VERSION) then drop_ else k).
(* if (packet.<field> != <expected>) return; *)
Definition chk_eq (off want : N) (k : prog an_out) : prog an_out :=
  Read off (fun v => if negb (v =? want) then drop_ else k).

Definition handle_poll : prog an_out :=
  if psz <? AN_POLL_SIZE then drop_
  else chk_version (H + AN_POLL_version)
    (Read (H + AN_POLL_talk_to_me) (fun t =>
       Ret (set_roc st (negb (N.land t 2 =? 0)), [EvTx]))).

Definition handle_reply : prog an_out :=
  if psz <? AN_REPLY_MIN then drop_
  else chk_eq (H + AN_REPLY_net_address) (a_net st)
    (Read (H + AN_REPLY_number_ports + 1) (fun np =>
       let port_limit := N.min AN_MAX_PORTS np in
       bind (for_loop (S (N.to_nat AN_MAX_PORTS)) 0 port_limit
               (fun i hit =>
                  Read (H + AN_REPLY_port_types + i) (fun pt =>
                    if negb (N.land pt 128 =? 0) then
                      Read (H + AN_REPLY_sw_out + i) (fun u => Ret (hit || (u =? a_ia st)))
                    else Ret hit))
               false)
            (fun hit => Ret (if hit then set_sub st true else st, [])))).

Definition handle_dmx : prog an_out :=
  if psz <? AN_DMX_HDR + 2 then drop_
  else chk_version (H + AN_DMX_version)
    (chk_eq (H + AN_DMX_net) (a_net st)
      (Read (H + AN_DMX_universe) (fun universe_id =>
         Read (H + AN_DMX_length) (fun l0 =>
           Read (H + AN_DMX_length + 1) (fun l1 =>
             (* uint16_t data_size = std::min((unsigned)((l0 << 8) + l1), packet_size - header_size) *)
             let data_size := u16 (N.min (256 * l0 + l1) (psz - AN_DMX_HDR)) in
             let m0 := a_oa st =? universe_id in
             let m1 := a_ob st =? universe_id in
             if m0 || m1 then
               (* per matching port, in port order: source.buffer.Set(packet.data, data_size); UpdatePortFromSource:
                  a new source next to an active one enters merge mode => SendPollReplyIfRequired() *)
               ReadBlk (H + AN_DMX_data) data_size (fun d =>
                 let nb := buf_set d in
                 let '(st1, ev1) :=
                   if m0 then match an_update (a_ltp st) (a_s0 st) (a_from st) nb with
                              | Some (s', b, ent) =>
                                (upd st b (a_uids st) (a_sub st) (a_roc st) (a_buf2 st) s' (a_s1 st),
                                 ev_if (ent && a_roc st) EvTx ++ [EvData 0])
                              | None => (st, [])
                              end
                   else (st, []) in
                 let '(st2, ev2) :=
                   if m1 then match an_update false (a_s1 st1) (a_from st1) nb with
                              | Some (s', b, ent) =>
                                (upd st1 (a_buf st1) (a_uids st1) (a_sub st1) (a_roc st1) b (a_s0 st1) s',
                                 ev_if (ent && a_roc st1) EvTx ++ [EvData 1])
                              | None => (st1, [])
                              end
                   else (st1, []) in
                 Ret (st2, ev1 ++ ev2))
             else drop_))))).

Definition handle_todrequest : prog an_out :=
  if psz <? AN_TRQ_HDR then drop_
  else chk_version (H + AN_TRQ_version)
    (chk_eq (H + AN_TRQ_net) (a_net st)
      (chk_eq (H + AN_TRQ_command) 0
        (Read (H + AN_TRQ_address_count) (fun ac =>
           let addresses := N.min AN_MAX_RDM_ADDRESS_COUNT (N.min (psz - AN_TRQ_HDR) ac) in
           bind (for_loop (S (N.to_nat AN_MAX_RDM_ADDRESS_COUNT)) 0 addresses
                   (fun i (s : bool * bool * list an_event) =>
                      Read (H + AN_TRQ_addresses + i) (fun a =>
                        (* per port: enabled && universe_address == addresses[i] && !handler_called[port] *)
                        let r0 := (a_oa st =? a) && negb (fst (fst s)) in
                        let r1 := (a_ob st =? a) && negb (snd (fst s)) in
                        Ret (fst (fst s) || r0, snd (fst s) || r1,
                             snd s ++ ev_if r0 (EvDisc 0) ++ ev_if r1 (EvDisc 1))))
                   (false, false, []))
                (fun s => Ret (st, snd s)))))).

Definition handle_toddata : prog an_out :=
  if psz <? AN_TD_HDR then drop_
  else chk_version (H + AN_TD_version)
    (chk_eq (H + AN_TD_rdm_version) AN_RDM_VERSION
      (chk_eq (H + AN_TD_net) (a_net st)
        (chk_eq (H + AN_TD_command_response) 0
          (chk_eq (H + AN_TD_address) (a_ia st)
            (* UpdatePortFromTodPacket *)
            (let tod_size := psz - AN_TD_HDR in
             Read (H + AN_TD_uid_count) (fun uc =>
               let uid_count := N.min (tod_size / AN_UID_SIZE) uc in
               bind (for_loop (S 256) 0 uid_count
                       (fun i acc => ReadBlk (H + AN_TD_tod + AN_UID_SIZE * i) AN_UID_SIZE
                                       (fun u => Ret (acc ++ [uid_num u])))
                       [])
                    (fun us =>
                       rd16be (H + AN_TD_uid_total) (fun uid_total =>
                         (* if (uid_count >= uid_total): drop this source's uids that are not in the packet *)
                         let uids := if uid_total <=? uid_count then uid_add_all us []
                                     else uid_add_all us (a_uids st) in
                         Ret (set_uids st uids, [EvTod uids]))))))))).

Definition handle_todcontrol : prog an_out :=
  if psz <? AN_TC_SIZE then drop_
  else chk_version (H + AN_TC_version)
    (chk_eq (H + AN_TC_net) (a_net st)
      (chk_eq (H + AN_TC_command) AN_TOD_FLUSH_COMMAND
        (Read (H + AN_TC_address) (fun a =>
           Ret (st, ev_if (a_oa st =? a) (EvFlush 0) ++ ev_if (a_ob st =? a) (EvFlush 1)))))).

Definition handle_rdm : prog an_out :=
  if psz <? AN_RDM_HDR then drop_
  else chk_version (H + AN_RDM_version)
    (chk_eq (H + AN_RDM_rdm_version) AN_RDM_VERSION
      (chk_eq (H + AN_RDM_command) 0
        (chk_eq (H + AN_RDM_net) (a_net st)
          (let rdm_length := psz - AN_RDM_HDR in
           if rdm_length =? 0 then drop_
           else
             Read (H + AN_RDM_address) (fun a =>
               (* InflateFromData(packet.data, rdm_length) / RDMFrame(packet.data, rdm_length) *)
               ReadBlk (H + AN_RDM_data) rdm_length (fun d =>
                 (* output ports (requests), then the enabled input port on that address (responses) *)
                 let req_evs :=
                   if (a_oa st =? a) || (a_ob st =? a) then
                     match rdm_inflate d with
                     | Some r => ev_if (a_oa st =? a) (EvRdm 0 r) ++ ev_if (a_ob st =? a) (EvRdm 1 r)
                     | None => []
                     end
                   else [] in
                 let resp_evs :=
                   if a_ia st =? a then
                     match rdm_resp_inflate d, a_pend st with
                     | Some r, Some pend => if resp_matches pend d then [EvResp r] else []
                     | _, _ => []
                     end
                   else [] in
                 Ret (st, req_evs ++ resp_evs))))))).

Definition handle_ipprogram : prog an_out :=
  if psz <? AN_IP_SIZE then drop_
  else chk_version (H + AN_IP_version) drop_.

Definition artnet_handle : prog an_out :=
  (* HandlePacket: if (packet_size <= header_size) return;   (the id is not looked at) *)
  if n <=? AN_HEADER_SIZE then drop_
  else rd16le AN_OFF_op_code (fun op =>
    if op =? AN_OP_POLL then handle_poll
    else if op =? AN_OP_REPLY then handle_reply
    else if op =? AN_OP_DMX then handle_dmx
    else if op =? AN_OP_TODREQUEST then handle_todrequest
    else if op =? AN_OP_TODDATA then handle_toddata
    else if op =? AN_OP_TODCONTROL then handle_todcontrol
    else if op =? AN_OP_RDM then handle_rdm
    else if op =? AN_OP_IP_PROGRAM then handle_ipprogram
    else drop_).
End Handlers.

(* ---------------------------------------------------------------- proof *)
Ltac an_unfold :=
  unfold chk_version, chk_eq,
    AN_PACKET_SIZE, AN_HEADER_SIZE, AN_OFF_op_code, AN_MAX_PORTS, AN_MAX_RDM_ADDRESS_COUNT, AN_UID_SIZE,
    AN_POLL_SIZE, AN_POLL_version, AN_POLL_talk_to_me,
    AN_REPLY_MIN, AN_REPLY_net_address, AN_REPLY_number_ports, AN_REPLY_port_types, AN_REPLY_sw_out,
    AN_DMX_HDR, AN_DMX_version, AN_DMX_universe, AN_DMX_net, AN_DMX_length, AN_DMX_data,
    AN_TRQ_HDR, AN_TRQ_version, AN_TRQ_net, AN_TRQ_command, AN_TRQ_address_count, AN_TRQ_addresses,
    AN_TD_HDR, AN_TD_version, AN_TD_rdm_version, AN_TD_net, AN_TD_command_response, AN_TD_address,
    AN_TD_uid_total, AN_TD_uid_count, AN_TD_tod,
    AN_TC_SIZE, AN_TC_version, AN_TC_net, AN_TC_command, AN_TC_address,
    AN_RDM_HDR, AN_RDM_version, AN_RDM_rdm_version, AN_RDM_net, AN_RDM_command, AN_RDM_address, AN_RDM_data,
    AN_IP_SIZE, AN_IP_version in *; cbv zeta.

Ltac an_ineq :=
  repeat match goal with
         | E : (_ <? _) = false |- _ => apply N.ltb_ge in E
         | E : (_ <? _) = true |- _ => apply N.ltb_lt in E
         | E : (_ <=? _) = false |- _ => apply N.leb_gt in E
         | E : (_ =? _) = false |- _ => apply N.eqb_neq in E
         end.

Lemma poll_bounded n st : AN_HEADER_SIZE < n -> bounded n (handle_poll n st).
Proof. intros Hn. unfold handle_poll. an_unfold. repeat bstep. Qed.

Lemma reply_bounded n st : AN_HEADER_SIZE < n -> bounded n (handle_reply n st).
Proof.
  intros Hn. unfold handle_reply. an_unfold. repeat bstep.
  apply bounded_bind; [|intros; constructor].
  apply for_loop_bounded; [|lia|cbn; lia].
  intros i s Hi. an_ineq. repeat bstep.
Qed.

Lemma dmx_bounded n st : AN_HEADER_SIZE < n -> bounded n (handle_dmx n st).
Proof.
  intros Hn. unfold handle_dmx. an_unfold. repeat bstep.
  apply bBlk; [|intros; repeat match goal with |- bounded _ (let '(_, _) := ?x in _) => destruct x end; constructor].
  right. an_ineq.
  unfold u16.
  match goal with |- _ + (?x mod 65536) <= _ => pose proof (N.mod_le x 65536 ltac:(lia)) end. lia.
Qed.

Lemma todrequest_bounded n st : AN_HEADER_SIZE < n -> bounded n (handle_todrequest n st).
Proof.
  intros Hn. unfold handle_todrequest. an_unfold. repeat bstep.
  apply bounded_bind; [|intros; constructor].
  apply for_loop_bounded; [|lia|cbn; lia].
  intros i s Hi. an_ineq. repeat bstep.
Qed.

Lemma toddata_bounded n st : AN_HEADER_SIZE < n -> bounded n (handle_toddata n st).
Proof.
  intros Hn. unfold handle_toddata. an_unfold. repeat bstep.
  apply bounded_bind.
  - apply for_loop_bounded; [|lia|cbn; lia].
    intros i s Hi. an_ineq.
    apply bBlk; [|intros; constructor].
    right.
    assert (Hd : 6 * ((n - 10 - 18) / 6) <= n - 10 - 18) by (apply N.mul_div_le; lia).
    nia.
  - intros us. repeat bstep.
Qed.

Lemma todcontrol_bounded n st : AN_HEADER_SIZE < n -> bounded n (handle_todcontrol n st).
Proof. intros Hn. unfold handle_todcontrol. an_unfold. repeat bstep. Qed.

Lemma rdm_bounded n st : AN_HEADER_SIZE < n -> bounded n (handle_rdm n st).
Proof.
  intros Hn. unfold handle_rdm. an_unfold. repeat bstep.
  all: try constructor.
Qed.

Lemma ipprogram_bounded n st : AN_HEADER_SIZE < n -> bounded n (handle_ipprogram n st).
Proof. intros Hn. unfold handle_ipprogram. an_unfold. repeat bstep. Qed.

Lemma artnet_bounded_any n st : n <= 2147483647 -> bounded n (artnet_handle n st).
Proof.
  intros Hn. unfold artnet_handle.
  destruct (n <=? AN_HEADER_SIZE) eqn:E0; [constructor|].
  apply N.leb_gt in E0.
  apply bounded_rd16le; [unfold AN_OFF_op_code, AN_HEADER_SIZE in *; lia|]. intros op Hop.
  destruct (op =? AN_OP_POLL); [apply poll_bounded; assumption|].
  destruct (op =? AN_OP_REPLY); [apply reply_bounded; assumption|].
  destruct (op =? AN_OP_DMX); [apply dmx_bounded; assumption|].
  destruct (op =? AN_OP_TODREQUEST); [apply todrequest_bounded; assumption|].
  destruct (op =? AN_OP_TODDATA); [apply toddata_bounded; assumption|].
  destruct (op =? AN_OP_TODCONTROL); [apply todcontrol_bounded; assumption|].
  destruct (op =? AN_OP_RDM); [apply rdm_bounded; assumption|].
  destruct (op =? AN_OP_IP_PROGRAM); [apply ipprogram_bounded; assumption|].
  constructor.
Qed.

(* for the capacity of the real receive buffer *)
Lemma artnet_bounded n st : n <= AN_PACKET_SIZE -> bounded n (artnet_handle n st).
Proof. intros Hn. apply artnet_bounded_any. unfold AN_PACKET_SIZE in Hn. lia. Qed.
