(* C06 — receive handlers as programs over a receive buffer.
   A handler is a tree of explicit reads (`prog`): every byte the C++ reads from the receive
   buffer is a `Read`/`ReadBlk` node, every hazard an explicit `Fail`.  `run buf p` executes the
   program on a concrete buffer with plain memory semantics: a read inside the buffer returns
   whatever byte is there (datagram byte or stale byte), a read at or beyond the capacity
   (`len buf`) is the hazard `Oob`.
   `bounded n p` says: p contains no Fail node and every read is below n, whatever the bytes read.
   Two generic theorems turn `bounded (received length) handler` into the C06 clauses. *)
From OlaBase Require Import Bytes.
Local Open Scope N_scope.

Inductive hazard := Oob | OutOfFuel | Div0.

Inductive prog (A : Type) : Type :=
| Ret (a : A)
| Fail (h : hazard)
| Read (i : N) (k : N -> prog A)                 (* one byte at offset i of the receive buffer *)
| ReadBlk (off cnt : N) (k : list N -> prog A).  (* memcpy-style read of cnt bytes at off *)
Arguments Ret {A} _.
Arguments Fail {A} _.
Arguments Read {A} _ _.
Arguments ReadBlk {A} _ _ _.

Inductive outcome (A : Type) : Type := Done (a : A) | Hazard (h : hazard).
Arguments Done {A} _.
Arguments Hazard {A} _.

Definition slice (l : list N) (off cnt : N) : list N := take cnt (drop off l).

Fixpoint run {A} (buf : list N) (p : prog A) : outcome A :=
  match p with
  | Ret a => Done a
  | Fail h => Hazard h
  | Read i k => match rd buf i with Some v => run buf (k v) | None => Hazard Oob end
  | ReadBlk off cnt k =>
    if cnt =? 0 then run buf (k [])
    else if off + cnt <=? len buf then run buf (k (slice buf off cnt)) else Hazard Oob
  end.

Fixpoint bind {A B} (p : prog A) (f : A -> prog B) : prog B :=
  match p with
  | Ret a => f a
  | Fail h => Fail h
  | Read i k => Read i (fun v => bind (k v) f)
  | ReadBlk o c k => ReadBlk o c (fun l => bind (k l) f)
  end.

(* multi-byte reads as the C++ does them (NetworkToHost / LittleEndianToHost on a packed field) *)
Definition rd16be {A} (o : N) (k : N -> prog A) : prog A :=
  Read o (fun a => Read (o + 1) (fun b => k (256 * a + b))).
Definition rd16le {A} (o : N) (k : N -> prog A) : prog A :=
  Read o (fun a => Read (o + 1) (fun b => k (a + 256 * b))).
Definition rd32be {A} (o : N) (k : N -> prog A) : prog A :=
  rd16be o (fun a => rd16be (o + 2) (fun b => k (65536 * a + b))).
Definition rd32le {A} (o : N) (k : N -> prog A) : prog A :=
  rd16le o (fun a => rd16le (o + 2) (fun b => k (a + 65536 * b))).

Inductive bounded {A} (n : N) : prog A -> Prop :=
| bRet a : bounded n (Ret a)
| bRead i k : i < n -> (forall v, v < 256 -> bounded n (k v)) -> bounded n (Read i k)
| bBlk off cnt k : (cnt = 0 \/ off + cnt <= n) ->
    (forall l, len l = cnt -> bytes_ok l = true -> bounded n (k l)) -> bounded n (ReadBlk off cnt k).

(* ---------------------------------------------------------------- list facts *)
Lemma slice_len l off cnt : off + cnt <= len l -> len (slice l off cnt) = cnt.
Proof. intros H. unfold slice. apply take_len. rewrite drop_len. lia. Qed.

Lemma bytes_ok_slice l off cnt : bytes_ok l = true -> bytes_ok (slice l off cnt) = true.
Proof.
  intros H. unfold slice.
  destruct (bytes_ok_take_drop off l H) as [_ Hd].
  destruct (bytes_ok_take_drop cnt _ Hd) as [Ht _]. exact Ht.
Qed.

Lemma slice_app_l a b off cnt : off + cnt <= len a -> slice (a ++ b) off cnt = slice a off cnt.
Proof.
  intros H. unfold slice, take, drop, len in *.
  rewrite skipn_app, firstn_app, skipn_length.
  assert (E : (N.to_nat cnt - (length a - N.to_nat off) = 0)%nat) by lia.
  rewrite E. cbn [firstn]. apply app_nil_r.
Qed.

(* ---------------------------------------------------------------- generic theorems *)
(* a bounded program run on a buffer holding at least n bytes finishes without any hazard *)
Theorem bounded_safe {A} (n : N) (p : prog A) :
  bounded n p -> forall buf, bytes_ok buf = true -> n <= len buf -> exists a, run buf p = Done a.
Proof.
  induction 1 as [a|i k Hi Hk IH|off cnt k Hc Hk IH]; intros buf Hb Hn; cbn [run].
  - eauto.
  - destruct (rd_lt_some buf i ltac:(lia)) as [v Hv]. rewrite Hv.
    apply IH; auto. exact (bytes_ok_rd _ _ _ Hb Hv).
  - destruct (cnt =? 0) eqn:E.
    + apply IH; auto. apply N.eqb_eq in E. subst. reflexivity.
    + destruct Hc as [Hc|Hc]; [apply N.eqb_neq in E; contradiction|].
      destruct (off + cnt <=? len buf) eqn:E2; [|apply N.leb_gt in E2; lia].
      apply IH; auto.
      * apply slice_len. lia.
      * apply bytes_ok_slice; assumption.
Qed.

(* a program bounded by the datagram length computes the same result whatever follows the
   datagram in the receive buffer *)
Theorem bounded_stale_free {A} (d : list N) (p : prog A) :
  bounded (len d) p -> bytes_ok d = true -> forall t1 t2, run (d ++ t1) p = run (d ++ t2) p.
Proof.
  induction 1 as [a|i k Hi Hk IH|off cnt k Hc Hk IH]; intros Hb t1 t2; cbn [run].
  - reflexivity.
  - rewrite !rd_app_l by assumption.
    destruct (rd d i) as [v|] eqn:Hv; [|reflexivity].
    apply IH; auto. exact (bytes_ok_rd _ _ _ Hb Hv).
  - destruct (cnt =? 0) eqn:E.
    + apply IH; auto. apply N.eqb_eq in E. subst. reflexivity.
    + destruct Hc as [Hc|Hc]; [apply N.eqb_neq in E; contradiction|].
      rewrite !len_app.
      destruct (off + cnt <=? len d + len t1) eqn:E1; [|apply N.leb_gt in E1; lia].
      destruct (off + cnt <=? len d + len t2) eqn:E2; [|apply N.leb_gt in E2; lia].
      rewrite !slice_app_l by assumption.
      apply IH; auto.
      * apply slice_len. lia.
      * apply bytes_ok_slice; assumption.
Qed.

Lemma bounded_bind {A B} n (p : prog A) (f : A -> prog B) :
  bounded n p -> (forall a, bounded n (f a)) -> bounded n (bind p f).
Proof.
  induction 1 as [a|i k Hi Hk IH|off cnt k Hc Hk IH]; intros Hf; cbn [bind].
  - apply Hf.
  - constructor; auto.
  - constructor; auto.
Qed.

Lemma bounded_mono {A} n m (p : prog A) : bounded n p -> n <= m -> bounded m p.
Proof.
  induction 1 as [a|i k Hi Hk IH|off cnt k Hc Hk IH]; intros Hm.
  - constructor.
  - constructor; [lia|auto].
  - constructor; [lia|auto].
Qed.

Lemma bounded_rd16be {A} n o (k : N -> prog A) :
  o + 1 < n -> (forall v, v < 65536 -> bounded n (k v)) -> bounded n (rd16be o k).
Proof. intros Ho Hk. unfold rd16be. constructor; [lia|]. intros a Ha. constructor; [lia|]. intros b Hb. apply Hk. lia. Qed.
Lemma bounded_rd16le {A} n o (k : N -> prog A) :
  o + 1 < n -> (forall v, v < 65536 -> bounded n (k v)) -> bounded n (rd16le o k).
Proof. intros Ho Hk. unfold rd16le. constructor; [lia|]. intros a Ha. constructor; [lia|]. intros b Hb. apply Hk. lia. Qed.
Lemma bounded_rd32be {A} n o (k : N -> prog A) :
  o + 3 < n -> (forall v, v < 4294967296 -> bounded n (k v)) -> bounded n (rd32be o k).
Proof.
  intros Ho Hk. unfold rd32be. apply bounded_rd16be; [lia|]. intros a Ha.
  apply bounded_rd16be; [lia|]. intros b Hb. apply Hk. lia.
Qed.
Lemma bounded_rd32le {A} n o (k : N -> prog A) :
  o + 3 < n -> (forall v, v < 4294967296 -> bounded n (k v)) -> bounded n (rd32le o k).
Proof.
  intros Ho Hk. unfold rd32le. apply bounded_rd16le; [lia|]. intros a Ha.
  apply bounded_rd16le; [lia|]. intros b Hb. apply Hk. lia.
Qed.

(* the three hazards are excluded at once by `bounded_safe`; these corollaries give the C06 wording *)
Corollary bounded_no_hazard {A} n (p : prog A) buf h :
  bounded n p -> bytes_ok buf = true -> n <= len buf -> run buf p <> Hazard h.
Proof. intros Hp Hb Hn. destruct (bounded_safe n p Hp buf Hb Hn) as [a E]. rewrite E. discriminate. Qed.


(* ---------------------------------------------------------------- weaker, unconditional facts *)
(* no Fail node is reachable, whatever bytes are read (reads themselves may still go anywhere) *)
Inductive nofail {A} : prog A -> Prop :=
| nfRet a : nofail (Ret a)
| nfRead i k : (forall v, v < 256 -> nofail (k v)) -> nofail (Read i k)
| nfBlk off cnt k : (forall l, len l = cnt -> bytes_ok l = true -> nofail (k l)) -> nofail (ReadBlk off cnt k).

(* such a program can only end in Done or in the hazard Oob: it terminates and never divides by zero *)
Theorem nofail_run {A} (p : prog A) : nofail p ->
  forall buf h, bytes_ok buf = true -> run buf p = Hazard h -> h = Oob.
Proof.
  induction 1 as [a|i k Hk IH|off cnt k Hk IH]; intros buf h Hb; cbn [run].
  - discriminate.
  - destruct (rd buf i) as [v|] eqn:Hv; [|congruence].
    apply IH; auto. exact (bytes_ok_rd _ _ _ Hb Hv).
  - destruct (cnt =? 0) eqn:E.
    + apply IH; auto. apply N.eqb_eq in E. subst. reflexivity.
    + destruct (off + cnt <=? len buf) eqn:E2; [|congruence].
      apply N.leb_le in E2. apply IH; auto.
      * apply slice_len. lia.
      * apply bytes_ok_slice; assumption.
Qed.

Lemma bounded_nofail {A} n (p : prog A) : bounded n p -> nofail p.
Proof. induction 1; constructor; auto. Qed.

Lemma nofail_bind {A B} (p : prog A) (f : A -> prog B) :
  nofail p -> (forall a, nofail (f a)) -> nofail (bind p f).
Proof. induction 1; intros Hf; cbn [bind]; [apply Hf|constructor; auto|constructor; auto]. Qed.

(* a run that completes on the datagram alone (capacity = received length: every read was below
   the received length) gives the same result whatever is appended to the datagram *)
Theorem run_app_mono {A} (p : prog A) : forall d t a, run d p = Done a -> run (d ++ t) p = Done a.
Proof.
  induction p as [a0|h|i k IH|off cnt k IH]; intros d t a; cbn [run]; auto.
  - destruct (rd d i) as [v|] eqn:Hv; [|discriminate].
    rewrite rd_app_l by (exact (rd_some_lt _ _ _ Hv)). rewrite Hv. apply IH.
  - destruct (cnt =? 0) eqn:E; [apply IH|].
    destruct (off + cnt <=? len d) eqn:E2; [|discriminate]. apply N.leb_le in E2.
    rewrite len_app. destruct (off + cnt <=? len d + len t) eqn:E3; [|apply N.leb_gt in E3; lia].
    rewrite slice_app_l by assumption. apply IH.
Qed.

Definition completes {A} (o : outcome A) : bool := match o with Done _ => true | Hazard _ => false end.

(* Ltac: walk a straight-line handler: case-split every `if`, discharge every read bound by lia *)
Ltac bstep :=
  match goal with
  | |- bounded _ (Ret _) => constructor
  | |- bounded _ (if ?c then _ else _) => let E := fresh "E" in destruct c eqn:E
  | |- bounded _ (rd16be _ _) => apply bounded_rd16be; [lia|intros ? ?]
  | |- bounded _ (rd16le _ _) => apply bounded_rd16le; [lia|intros ? ?]
  | |- bounded _ (rd32be _ _) => apply bounded_rd32be; [lia|intros ? ?]
  | |- bounded _ (rd32le _ _) => apply bounded_rd32le; [lia|intros ? ?]
  | |- bounded _ (Read _ _) => apply bRead; [lia|intros ? ?]
  | |- bounded _ (ReadBlk _ _ _) => apply bBlk; [lia|intros ? ? ?]
  | |- bounded _ (match ?x with Some _ => _ | None => _ end) => let E := fresh "E" in destruct x eqn:E
  | |- bounded _ (let '(_, _) := ?x in _) => let E := fresh "E" in destruct x eqn:E
  end.

Ltac nfstep :=
  match goal with
  | |- nofail (Ret _) => constructor
  | |- nofail (if ?c then _ else _) => let E := fresh "E" in destruct c eqn:E
  | |- nofail (rd16be _ _) => unfold rd16be
  | |- nofail (rd16le _ _) => unfold rd16le
  | |- nofail (rd32be _ _) => unfold rd32be
  | |- nofail (rd32le _ _) => unfold rd32le
  | |- nofail (Read _ _) => apply nfRead; intros ? ?
  | |- nofail (ReadBlk _ _ _) => apply nfBlk; intros ? ? ?
  | |- nofail (match ?x with Some _ => _ | None => _ end) => let E := fresh "E" in destruct x eqn:E
  end.

(* ---------------------------------------------------------------- running on a known datagram *)
Definition byte_at (d : list N) (o : N) : N := nth (N.to_nat o) d 0.
Definition g16le (d : list N) (o : N) : N := byte_at d o + 256 * byte_at d (o + 1).
Definition g16be (d : list N) (o : N) : N := 256 * byte_at d o + byte_at d (o + 1).

Lemma rd_byte_at d i : i < len d -> rd d i = Some (byte_at d i).
Proof. unfold rd, byte_at, len. intros H. apply nth_error_nth'. lia. Qed.
Lemma byte_at_lt d i : bytes_ok d = true -> byte_at d i < 256.
Proof.
  intros Hb. destruct (N.ltb_spec i (len d)) as [H|H].
  - exact (bytes_ok_rd _ _ _ Hb (rd_byte_at d i H)).
  - unfold byte_at, len in *. rewrite nth_overflow by lia. lia.
Qed.
Lemma run_read {A} d i (k : N -> prog A) : i < len d -> run d (Read i k) = run d (k (byte_at d i)).
Proof. intros H. cbn [run]. rewrite (rd_byte_at d i H). reflexivity. Qed.
Lemma run_rd16le {A} d o (k : N -> prog A) : o + 1 < len d -> run d (rd16le o k) = run d (k (g16le d o)).
Proof. intros H. unfold rd16le, g16le. rewrite run_read by lia. rewrite run_read by lia. reflexivity. Qed.
Lemma run_rd16be {A} d o (k : N -> prog A) : o + 1 < len d -> run d (rd16be o k) = run d (k (g16be d o)).
Proof. intros H. unfold rd16be, g16be. rewrite run_read by lia. rewrite run_read by lia. reflexivity. Qed.
Lemma g16le_lt d o : bytes_ok d = true -> g16le d o < 65536.
Proof. intros Hb. unfold g16le. pose proof (byte_at_lt d o Hb). pose proof (byte_at_lt d (o + 1) Hb). lia. Qed.
Lemma completes_bounded {A} n (p : prog A) d :
  bounded n p -> bytes_ok d = true -> n <= len d -> completes (run d p) = true.
Proof. intros Hp Hb Hn. destruct (bounded_safe n p Hp d Hb Hn) as [a E]. rewrite E. reflexivity. Qed.

(* ---------------------------------------------------------------- histories of datagrams *)
(* A node handles one datagram after the other.  A history item is (per-datagram extra input, datagram,
   stale tail that happens to follow it in the receive buffer); `step i n s` is the handler on state s,
   `next s r` the state it leaves behind, the results r are the observable outputs in order. *)
Section History.
  Context {I S R : Type}.
  Variable cap : N.
  Variable step : I -> N -> S -> prog R.
  Variable next : S -> R -> S.

  Fixpoint run_hist (s : S) (h : list (I * list N * list N)) : outcome (S * list R) :=
    match h with
    | [] => Done (s, [])
    | (i, d, t) :: h' =>
      match run (d ++ t) (step i (len d) s) with
      | Hazard z => Hazard z
      | Done r =>
        match run_hist (next s r) h' with
        | Hazard z => Hazard z
        | Done (s', rs) => Done (s', r :: rs)
        end
      end
    end.

  Hypothesis step_bounded : forall i n s, n <= cap -> bounded n (step i n s).

  Definition item_ok (x : I * list N * list N) : Prop :=
    let '(_, d, t) := x in bytes_ok d = true /\ bytes_ok t = true /\ len d <= cap.

  (* no datagram of any history ends in a hazard (out-of-bounds read, fuel, division by zero) *)
  Theorem hist_safe : forall h s, Forall item_ok h -> exists r, run_hist s h = Done r.
  Proof.
    induction h as [|[[i d] t] h IH]; intros s Hh; cbn [run_hist].
    - eauto.
    - inversion Hh as [|x l Hx Hr]; subst. unfold item_ok in Hx. destruct Hx as (Hd & Ht & Hl).
      destruct (bounded_safe (len d) _ (step_bounded i (len d) s Hl) (d ++ t)) as [r Er].
      + rewrite bytes_ok_app, Hd, Ht. reflexivity.
      + rewrite len_app. lia.
      + rewrite Er. destruct (IH (next s r) Hr) as [[s' rs] E]. rewrite E. eauto.
  Qed.

  (* two histories with the same datagrams (and extra inputs) but arbitrary, different stale tails give the
     same outputs after every datagram and the same final state *)
  Theorem hist_stale_free : forall h1 h2 s,
    Forall2 (fun x y => fst x = fst y) h1 h2 -> Forall item_ok h1 ->
    run_hist s h1 = run_hist s h2.
  Proof.
    induction h1 as [|[[i d] t1] h1 IH]; intros h2 s H2 Hh; inversion H2 as [|x y l1 l2 Hxy Hr]; subst.
    - reflexivity.
    - destruct y as [[i2 d2] t2]. cbn [fst] in Hxy. inversion Hxy; subst i2 d2.
      inversion Hh as [|x l Hx Hrest]; subst. unfold item_ok in Hx. destruct Hx as (Hd & Ht & Hl). cbn [run_hist].
      rewrite (bounded_stale_free d _ (step_bounded i (len d) s Hl) Hd t1 t2).
      destruct (run (d ++ t2) (step i (len d) s)) as [r|z]; [|reflexivity].
      rewrite (IH l2 (next s r) Hr Hrest). reflexivity.
  Qed.
End History.

(* the same for a handler that is NOT bounded for every datagram (a known finding): the guard is that along the
   history every datagram, run alone (capacity = its own length), completes *)
Section HistoryWithin.
  Context {I S R : Type}.
  Variable step : I -> N -> S -> prog R.
  Variable next : S -> R -> S.
  Fixpoint within_hist (s : S) (h : list (I * list N)) : Prop :=
    match h with
    | [] => True
    | (i, d) :: h' => exists r, run d (step i (len d) s) = Done r /\ within_hist (next s r) h'
    end.
  Theorem hist_within_stale_free : forall h1 h2 s,
    Forall2 (fun x y => fst x = fst y) h1 h2 -> within_hist s (map fst h1) ->
    run_hist step next s h1 = run_hist step next s h2 /\ exists r, run_hist step next s h1 = Done r.
  Proof.
    induction h1 as [|[[i d] t1] h1 IH]; intros h2 s H2 Hw; inversion H2 as [|x y l1 l2 Hxy Hr]; subst.
    - split; [reflexivity|cbn; eauto].
    - destruct y as [[i2 d2] t2]. cbn [fst] in Hxy. inversion Hxy; subst i2 d2.
      cbn [map fst within_hist] in Hw. destruct Hw as (r & Er & Hw). cbn [run_hist].
      rewrite (run_app_mono _ _ t1 _ Er), (run_app_mono _ _ t2 _ Er).
      destruct (IH l2 (next s r) Hr Hw) as (E & (r' & E')). rewrite <- E, E'.
      destruct r' as [s' rs]. split; eauto.
  Qed.
End HistoryWithin.
