(* C06 — KiNetNode::SocketReady (plugins/kinet/KiNetNode.cpp, unchanged): receives into `uint8_t packet[1500]`
   on its stack and discards the datagram ("Right now we discard all packets"): not one byte of the receive
   buffer is read, nothing is sent, no member changes.  The handler is therefore the program without reads. *)
From OlaBase Require Import Bytes.
From C06 Require Import Gen GenKiNet Prog.
Local Open Scope N_scope.

(* the node state a receive could touch: m_transaction_number, bytes queued in m_output_queue *)
Record kn_state := { kn_txn : N; kn_queued : N }.
(* result: next state, datagrams sent *)
Definition kn_out := (kn_state * list (list N))%type.

Definition kinet_handle (n : N) (st : kn_state) : prog kn_out := Ret (st, []).

Lemma kinet_bounded n st : n <= KN_PACKET_SIZE -> bounded n (kinet_handle n st).
Proof. intros _. constructor. Qed.
