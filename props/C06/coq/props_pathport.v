(* ---------------------------------------------------------------- Pathport
   Receive buffer: the pathport_packet_s on SocketReady's stack (1500 bytes).  n = bytes received,
   st = device id, source-is-us flag, our IP, sequence number, registered handlers (any universes, any buffers). *)
Theorem c06_pathport_layout :
  (PP_PACKET_SIZE, PP_HEADER_SIZE, PP_PDU_HEADER_SIZE, PP_PDU_DATA_SIZE, PP_OFF_pdu + PP_OFF_pdu_d + PP_OFF_d_data,
   PP_MAX_UNIVERSES) = (1500, 20, 4, 8, 32, 127).
Proof. reflexivity. Qed.
Print Assumptions c06_pathport_layout.

Theorem c06_pathport_no_oob : forall buf n st,
  bytes_ok buf = true -> len buf = 1500 -> n <= len buf ->
  run buf (pathport_handle n st) <> Hazard Oob.
Proof. intros buf n st Hb Hl Hn. apply (bounded_no_hazard n); auto. apply pathport_bounded. unfold PP_PACKET_SIZE. lia. Qed.
Print Assumptions c06_pathport_no_oob.

(* the universe-spanning loop of HandleDmxData ends within MAX_UNIVERSES + 2 tests of its condition *)
Theorem c06_pathport_terminates : forall buf n st,
  bytes_ok buf = true -> len buf = 1500 -> n <= len buf ->
  run buf (pathport_handle n st) <> Hazard OutOfFuel.
Proof. intros buf n st Hb Hl Hn. apply (bounded_no_hazard n); auto. apply pathport_bounded. unfold PP_PACKET_SIZE. lia. Qed.
Print Assumptions c06_pathport_terminates.

Theorem c06_pathport_no_div0 : forall buf n st,
  bytes_ok buf = true -> len buf = 1500 -> n <= len buf ->
  run buf (pathport_handle n st) <> Hazard Div0 /\ DMX_UNIVERSE_SIZE <> 0.
Proof.
  intros buf n st Hb Hl Hn. split; [|discriminate].
  apply (bounded_no_hazard n); auto. apply pathport_bounded. unfold PP_PACKET_SIZE. lia.
Qed.
Print Assumptions c06_pathport_no_div0.

(* handler buffers, closures run and the ARP reply sent do not depend on what follows the datagram in the receive buffer *)
Theorem c06_pathport_stale_free : forall d t1 t2 st,
  bytes_ok d = true -> len d + len t1 = 1500 -> len t2 = len t1 ->
  run (d ++ t1) (pathport_handle (len d) st) = run (d ++ t2) (pathport_handle (len d) st).
Proof.
  intros d t1 t2 st Hb Hl _. apply bounded_stale_free; auto. apply pathport_bounded.
  unfold PP_PACKET_SIZE. lia.
Qed.
Print Assumptions c06_pathport_stale_free.

(* a 3-slot frame at offset 511 of universe 1 lands in the handlers of universes 1 and 2 *)
Example ex_pathport_handled :
  run ([237; 1; 2; 0; 0; 9] ++ repeat 0 6 ++ [0; 0; 0; 7] ++ [255; 255; 255; 255] ++ [1; 0; 0; 11]
       ++ [1; 1; 0; 3; 0; 0; 3; 255] ++ [7; 8; 9] ++ repeat 165 1465)
      (pathport_handle 35 {| pp_dev := 5; pp_self := false; pp_ip := [10; 0; 0; 1]; pp_seq := 1;
                             pp_hs := [(1, Some (repeat 1 512)); (2, Some [4; 4; 4])] |})
  = Done ([(1, Some (repeat 1 511 ++ [7])); (2, Some [8; 9; 4])], [2; 1], None).
Proof. vm_compute. reflexivity. Qed.

Example ex_pathport_arp :
  run ([237; 1; 2; 0; 0; 9] ++ repeat 0 6 ++ [0; 0; 0; 7] ++ [0; 0; 0; 5] ++ [3; 1; 0; 0] ++ repeat 165 1476)
      (pathport_handle 24 {| pp_dev := 5; pp_self := false; pp_ip := [10; 0; 0; 1]; pp_seq := 1; pp_hs := [] |})
  = Done ([], [], Some ([237; 1; 2; 0; 0; 1] ++ repeat 0 6 ++ [0; 0; 0; 5] ++ [239; 255; 237; 255] ++ [3; 2; 0; 12]
                        ++ [0; 0; 0; 5] ++ [10; 0; 0; 1] ++ [40; 0; 0; 1])).
Proof. vm_compute. reflexivity. Qed.
