(* ---------------------------------------------------------------- Pathport
   Receive buffer: the pathport_packet_s on SocketReady's stack (1500 bytes).  n = bytes received,
   st = device id, source-is-us flag, our IP, sequence number, registered handlers (any universes, any buffers). *)
Theorem c06_pathport_layout :
  (PP_PACKET_SIZE, PP_HEADER_SIZE, PP_PDU_HEADER_SIZE, PP_PDU_DATA_SIZE, PP_OFF_pdu + PP_OFF_pdu_d + PP_OFF_d_data,
   PP_MAX_UNIVERSES) = (1500, 20, 4, 8, 32, 127).
Proof. reflexivity. Qed.
Print Assumptions c06_pathport_layout.

(* every constant the pathport model takes from the repository (sizeof / offsetof of the packed wire structs, opcodes,
   vectors, masks), regenerated into GenPathport.v on each run, pinned to the value the proofs and statements were written
   for: a change of the wire layout or of a constant in /repo breaks this obligation deterministically *)
Theorem c06_pathport_consts :
  PP_PACKET_SIZE = 1500 /\
  PP_HEADER_SIZE = 20 /\
  PP_PDU_HEADER_SIZE = 4 /\
  PP_PDU_DATA_SIZE = 8 /\
  PP_ARP_REPLY_SIZE = 12 /\
  PP_OFF_protocol = 0 /\
  PP_OFF_version_major = 2 /\
  PP_OFF_version_minor = 3 /\
  PP_OFF_destination = 16 /\
  PP_OFF_pdu = 20 /\
  PP_OFF_pdu_type = 0 /\
  PP_OFF_pdu_d = 4 /\
  PP_OFF_d_type = 0 /\
  PP_OFF_d_channel_count = 2 /\
  PP_OFF_d_start_code = 5 /\
  PP_OFF_d_offset = 6 /\
  PP_OFF_d_data = 8 /\
  PP_MAX_UNIVERSES = 127 /\
  PP_PROTOCOL = 60673 /\
  PP_MAJOR_VERSION = 2 /\
  PP_MINOR_VERSION = 0 /\
  PP_ID_BROADCAST = 4294967295 /\
  PP_STATUS_GROUP = 4026527231 /\
  PP_CONFIG_GROUP = 4026526978 /\
  PP_DATA_GROUP = 4026526977 /\
  PP_DATA = 256 /\
  PP_ARP_REQUEST = 769 /\
  PP_ARP_REPLY = 770 /\
  PP_XDMX_DATA_FLAT = 257 /\
  PP_NODE_MANUF_ZP_TECH = 40 /\
  PP_NODE_CLASS_DMX_NODE = 0 /\
  PP_NODE_DEVICE_PATHPORT = 0.
Proof. repeat split; reflexivity. Qed.
Print Assumptions c06_pathport_consts.

Theorem c06_pathport_no_oob : forall buf n st,
  bytes_ok buf = true -> len buf = 1500 -> n <= len buf ->
  run buf (pathport_handle n st) <> Hazard Oob.
Proof. intros buf n st Hb Hl Hn. apply (bounded_no_hazard n); auto. apply pathport_bounded. unfold PP_PACKET_SIZE. lia. Qed.
Print Assumptions c06_pathport_no_oob.

(* the universe-spanning loop of HandleDmxData ends within MAX_UNIVERSES + 2 tests of its condition *)
Theorem c06_pathport_terminates : forall buf n st,
  bytes_ok buf = true -> len buf = 1500 -> n <= len buf ->
  run buf (pathport_handle n st) <> Hazard OutOfFuel.
Proof. intros buf n st Hb Hl Hn. apply (bounded_no_hazard n); auto. apply pathport_bounded. unfold PP_PACKET_SIZE. lia. Qed.
Print Assumptions c06_pathport_terminates.

Theorem c06_pathport_no_div0 : forall buf n st,
  bytes_ok buf = true -> len buf = 1500 -> n <= len buf ->
  run buf (pathport_handle n st) <> Hazard Div0 /\ DMX_UNIVERSE_SIZE <> 0.
Proof.
  intros buf n st Hb Hl Hn. split; [|discriminate].
  apply (bounded_no_hazard n); auto. apply pathport_bounded. unfold PP_PACKET_SIZE. lia.
Qed.
Print Assumptions c06_pathport_no_div0.

(* handler buffers, closures run and the ARP reply sent do not depend on what follows the datagram in the receive buffer *)
Theorem c06_pathport_stale_free : forall d t1 t2 st,
  bytes_ok d = true -> len d + len t1 = 1500 -> len t2 = len t1 ->
  run (d ++ t1) (pathport_handle (len d) st) = run (d ++ t2) (pathport_handle (len d) st).
Proof.
  intros d t1 t2 st Hb Hl _. apply bounded_stale_free; auto. apply pathport_bounded.
  unfold PP_PACKET_SIZE. lia.
Qed.
Print Assumptions c06_pathport_stale_free.

(* "never fails to return": the universe-spanning loop of HandleDmxData ends within fuel >= MAX_UNIVERSES + 2 -
   universe (the universe number grows by one per turn and the loop stops above MAX_UNIVERSES), for any position,
   data size < 2^32, offset < 512 and starting universe <= MAX_UNIVERSES + 1 *)
Theorem c06_pathport_loop_returns : forall buf fuel pos ds off uni hs hits z,
  bytes_ok buf = true -> ds < 4294967296 -> off < 512 -> uni <= PP_MAX_UNIVERSES + 1 ->
  PP_MAX_UNIVERSES + 2 <= uni + N.of_nat fuel -> z <> Oob ->
  run buf (pp_loop pos ds off uni hs hits fuel) <> Hazard z.
Proof.
  intros buf fuel pos ds off uni hs hits z Hb Hd Ho Hu Hf Hz E. apply Hz.
  assert (B : bounded (pos + ds) (pp_loop pos ds off uni hs hits fuel))
    by (apply pp_loop_bounded; auto; unfold DMX_UNIVERSE_SIZE; lia).
  exact (nofail_run _ (bounded_nofail _ _ B) buf z Hb E).
Qed.
Print Assumptions c06_pathport_loop_returns.

(* independent of the capacity and of what the socket layer reports: for a receive buffer of ANY size and ANY reported
   length n < 2^31 the handler returns (its loops end within their fuel: universe-spanning loop: fuel = MAX_UNIVERSES + 2 - universe, the universe number grows by one per turn) and never divides by zero; and if
   the buffer does hold n bytes it reads nothing at or beyond n *)
Theorem c06_pathport_any_length : forall buf n st,
  bytes_ok buf = true -> n <= 2147483647 ->
  (forall z, z <> Oob -> run buf (pathport_handle n st) <> Hazard z) /\
  (n <= len buf -> forall z, run buf (pathport_handle n st) <> Hazard z).
Proof.
  intros buf n st Hb Hn. pose proof (pathport_bounded_any n st Hn) as B. split.
  - intros z Hz E. apply Hz. exact (nofail_run _ (bounded_nofail _ _ B) buf z Hb E).
  - intros Hl z. apply (bounded_no_hazard n); assumption.
Qed.
Print Assumptions c06_pathport_any_length.

(* history level: any sequence of datagrams, each followed in the receive buffer by arbitrary stale bytes, from any
   initial state: no datagram ends in a hazard, and every output and the final state are the same whatever the
   stale tails are *)
Theorem c06_pathport_history : forall (h1 h2 : list (unit * list N * list N)) s,
  Forall (fun x => let '(_, d, t) := x in bytes_ok d = true /\ bytes_ok t = true /\ len d <= 1500) h1 ->
  Forall2 (fun x y => fst x = fst y) h1 h2 ->
  (exists r, run_hist (fun (_ : unit) n st => pathport_handle n st) (fun st r => {| pp_dev := pp_dev st; pp_self := pp_self st; pp_ip := pp_ip st; pp_seq := pp_seq st; pp_hs := fst (fst r) |}) s h1 = Done r) /\
  run_hist (fun (_ : unit) n st => pathport_handle n st) (fun st r => {| pp_dev := pp_dev st; pp_self := pp_self st; pp_ip := pp_ip st; pp_seq := pp_seq st; pp_hs := fst (fst r) |}) s h1 = run_hist (fun (_ : unit) n st => pathport_handle n st) (fun st r => {| pp_dev := pp_dev st; pp_self := pp_self st; pp_ip := pp_ip st; pp_seq := pp_seq st; pp_hs := fst (fst r) |}) s h2.
Proof.
  intros h1 h2 s Hok H2.
  assert (Hb : forall i n st, n <= PP_PACKET_SIZE -> bounded n ((fun (_ : unit) n st => pathport_handle n st) i n st)) by (intros; apply pathport_bounded; assumption).
  split.
  - apply (hist_safe PP_PACKET_SIZE _ _ Hb). exact Hok.
  - apply (hist_stale_free PP_PACKET_SIZE _ _ Hb); assumption.
Qed.
Print Assumptions c06_pathport_history.

(* a 3-slot frame at offset 511 of universe 1 lands in the handlers of universes 1 and 2 *)
Example ex_pathport_handled :
  run ([237; 1; 2; 0; 0; 9] ++ repeat 0 6 ++ [0; 0; 0; 7] ++ [255; 255; 255; 255] ++ [1; 0; 0; 11]
       ++ [1; 1; 0; 3; 0; 0; 3; 255] ++ [7; 8; 9] ++ repeat 165 1465)
      (pathport_handle 35 {| pp_dev := 5; pp_self := false; pp_ip := [10; 0; 0; 1]; pp_seq := 1;
                             pp_hs := [(1, Some (repeat 1 512)); (2, Some [4; 4; 4])] |})
  = Done ([(1, Some (repeat 1 511 ++ [7])); (2, Some [8; 9; 4])], [2; 1], None).
Proof. vm_compute. reflexivity. Qed.

Example ex_pathport_arp :
  run ([237; 1; 2; 0; 0; 9] ++ repeat 0 6 ++ [0; 0; 0; 7] ++ [0; 0; 0; 5] ++ [3; 1; 0; 0] ++ repeat 165 1476)
      (pathport_handle 24 {| pp_dev := 5; pp_self := false; pp_ip := [10; 0; 0; 1]; pp_seq := 1; pp_hs := [] |})
  = Done ([], [], Some ([237; 1; 2; 0; 0; 1] ++ repeat 0 6 ++ [0; 0; 0; 5] ++ [239; 255; 237; 255] ++ [3; 2; 0; 12]
                        ++ [0; 0; 0; 5] ++ [10; 0; 0; 1] ++ [40; 0; 0; 1])).
Proof. vm_compute. reflexivity. Qed.
