(* ---------------------------------------------------------------- KiNET
   Receive buffer: `uint8_t packet[1500]` on SocketReady's stack.  The node discards every datagram without
   reading a byte of it, so these theorems are TRIVIAL (the handler program is `Ret`): they record that the
   receive path has no reads, no loop and no division; the correspondence check is what ties that to the code. *)
Theorem c06_kinet_layout : KN_PACKET_SIZE = 1500.
Proof. reflexivity. Qed.
Print Assumptions c06_kinet_layout.

(* every constant the kinet model takes from the repository (sizeof / offsetof of the packed wire structs, opcodes,
   vectors, masks), regenerated into GenKiNet.v on each run, pinned to the value the proofs and statements were written
   for: a change of the wire layout or of a constant in /repo breaks this obligation deterministically *)
Theorem c06_kinet_consts :
  KN_PACKET_SIZE = 1500.
Proof. repeat split; reflexivity. Qed.
Print Assumptions c06_kinet_consts.

Theorem c06_kinet_no_oob : forall buf n st,
  bytes_ok buf = true -> len buf = 1500 -> n <= len buf ->
  run buf (kinet_handle n st) <> Hazard Oob.
Proof. intros buf n st Hb Hl Hn. apply (bounded_no_hazard n); auto. apply kinet_bounded. unfold KN_PACKET_SIZE. lia. Qed.
Print Assumptions c06_kinet_no_oob.

Theorem c06_kinet_terminates : forall buf n st,
  bytes_ok buf = true -> len buf = 1500 -> n <= len buf ->
  run buf (kinet_handle n st) <> Hazard OutOfFuel.
Proof. intros buf n st Hb Hl Hn. apply (bounded_no_hazard n); auto. apply kinet_bounded. unfold KN_PACKET_SIZE. lia. Qed.
Print Assumptions c06_kinet_terminates.

Theorem c06_kinet_no_div0 : forall buf n st,
  bytes_ok buf = true -> len buf = 1500 -> n <= len buf ->
  run buf (kinet_handle n st) <> Hazard Div0.
Proof. intros buf n st Hb Hl Hn. apply (bounded_no_hazard n); auto. apply kinet_bounded. unfold KN_PACKET_SIZE. lia. Qed.
Print Assumptions c06_kinet_no_div0.

(* state and output after a datagram do not depend on the receive buffer at all *)
Theorem c06_kinet_stale_free : forall d t1 t2 st,
  bytes_ok d = true -> len d + len t1 = 1500 -> len t2 = len t1 ->
  run (d ++ t1) (kinet_handle (len d) st) = run (d ++ t2) (kinet_handle (len d) st).
Proof.
  intros d t1 t2 st Hb Hl _. apply bounded_stale_free; auto. apply kinet_bounded.
  unfold KN_PACKET_SIZE. lia.
Qed.
Print Assumptions c06_kinet_stale_free.

(* history level: any sequence of datagrams, each followed in the receive buffer by arbitrary stale bytes, from any
   initial state: no datagram ends in a hazard, and every output and the final state are the same whatever the
   stale tails are *)
Theorem c06_kinet_history : forall (h1 h2 : list (unit * list N * list N)) s,
  Forall (fun x => let '(_, d, t) := x in bytes_ok d = true /\ bytes_ok t = true /\ len d <= 1500) h1 ->
  Forall2 (fun x y => fst x = fst y) h1 h2 ->
  (exists r, run_hist (fun (_ : unit) n st => kinet_handle n st) (fun _ r => fst r) s h1 = Done r) /\
  run_hist (fun (_ : unit) n st => kinet_handle n st) (fun _ r => fst r) s h1 = run_hist (fun (_ : unit) n st => kinet_handle n st) (fun _ r => fst r) s h2.
Proof.
  intros h1 h2 s Hok H2.
  assert (Hb : forall i n st, n <= KN_PACKET_SIZE -> bounded n ((fun (_ : unit) n st => kinet_handle n st) i n st)) by (intros; apply kinet_bounded; assumption).
  split.
  - apply (hist_safe KN_PACKET_SIZE _ _ Hb). exact Hok.
  - apply (hist_stale_free KN_PACKET_SIZE _ _ Hb); assumption.
Qed.
Print Assumptions c06_kinet_history.

Example ex_kinet_discarded :
  run ([4; 1; 220; 74; 1; 0; 1; 1] ++ repeat 165 1492) (kinet_handle 8 {| kn_txn := 7; kn_queued := 0 |})
  = Done ({| kn_txn := 7; kn_queued := 0 |}, []).
Proof. reflexivity. Qed.
