(* ---------------------------------------------------------------- KiNET
   Receive buffer: `uint8_t packet[1500]` on SocketReady's stack.  The node discards every datagram without
   reading a byte of it, so these theorems are TRIVIAL (the handler program is `Ret`): they record that the
   receive path has no reads, no loop and no division; the correspondence check is what ties that to the code. *)
Theorem c06_kinet_layout : KN_PACKET_SIZE = 1500.
Proof. reflexivity. Qed.
Print Assumptions c06_kinet_layout.

Theorem c06_kinet_no_oob : forall buf n st,
  bytes_ok buf = true -> len buf = 1500 -> n <= len buf ->
  run buf (kinet_handle n st) <> Hazard Oob.
Proof. intros buf n st Hb Hl Hn. apply (bounded_no_hazard n); auto. apply kinet_bounded. unfold KN_PACKET_SIZE. lia. Qed.
Print Assumptions c06_kinet_no_oob.

Theorem c06_kinet_terminates : forall buf n st,
  bytes_ok buf = true -> len buf = 1500 -> n <= len buf ->
  run buf (kinet_handle n st) <> Hazard OutOfFuel.
Proof. intros buf n st Hb Hl Hn. apply (bounded_no_hazard n); auto. apply kinet_bounded. unfold KN_PACKET_SIZE. lia. Qed.
Print Assumptions c06_kinet_terminates.

Theorem c06_kinet_no_div0 : forall buf n st,
  bytes_ok buf = true -> len buf = 1500 -> n <= len buf ->
  run buf (kinet_handle n st) <> Hazard Div0.
Proof. intros buf n st Hb Hl Hn. apply (bounded_no_hazard n); auto. apply kinet_bounded. unfold KN_PACKET_SIZE. lia. Qed.
Print Assumptions c06_kinet_no_div0.

(* state and output after a datagram do not depend on the receive buffer at all *)
Theorem c06_kinet_stale_free : forall d t1 t2 st,
  bytes_ok d = true -> len d + len t1 = 1500 -> len t2 = len t1 ->
  run (d ++ t1) (kinet_handle (len d) st) = run (d ++ t2) (kinet_handle (len d) st).
Proof.
  intros d t1 t2 st Hb Hl _. apply bounded_stale_free; auto. apply kinet_bounded.
  unfold KN_PACKET_SIZE. lia.
Qed.
Print Assumptions c06_kinet_stale_free.

Example ex_kinet_discarded :
  run ([4; 1; 220; 74; 1; 0; 1; 1] ++ repeat 165 1492) (kinet_handle 8 {| kn_txn := 7; kn_queued := 0 |})
  = Done ({| kn_txn := 7; kn_queued := 0 |}, []).
Proof. reflexivity. Qed.
