(* REGENERATED from the repository headers on every run. Do not edit.  *)
From Coq Require Import NArith.
Local Open Scope N_scope.
Definition PP_PACKET_SIZE : N := 1500.
Definition PP_HEADER_SIZE : N := 20.
Definition PP_PDU_HEADER_SIZE : N := 4.
Definition PP_PDU_DATA_SIZE : N := 8.
Definition PP_ARP_REPLY_SIZE : N := 12.
Definition PP_OFF_protocol : N := 0.
Definition PP_OFF_version_major : N := 2.
Definition PP_OFF_version_minor : N := 3.
Definition PP_OFF_destination : N := 16.
Definition PP_OFF_pdu : N := 20.
Definition PP_OFF_pdu_type : N := 0.
Definition PP_OFF_pdu_d : N := 4.
Definition PP_OFF_d_type : N := 0.
Definition PP_OFF_d_channel_count : N := 2.
Definition PP_OFF_d_start_code : N := 5.
Definition PP_OFF_d_offset : N := 6.
Definition PP_OFF_d_data : N := 8.
Definition PP_MAX_UNIVERSES : N := 127.
Definition PP_PROTOCOL : N := 60673.
Definition PP_MAJOR_VERSION : N := 2.
Definition PP_MINOR_VERSION : N := 0.
Definition PP_ID_BROADCAST : N := 4294967295.
Definition PP_STATUS_GROUP : N := 4026527231.
Definition PP_CONFIG_GROUP : N := 4026526978.
Definition PP_DATA_GROUP : N := 4026526977.
Definition PP_DATA : N := 256.
Definition PP_ARP_REQUEST : N := 769.
Definition PP_ARP_REPLY : N := 770.
Definition PP_XDMX_DATA_FLAT : N := 257.
Definition PP_NODE_MANUF_ZP_TECH : N := 40.
Definition PP_NODE_CLASS_DMX_NODE : N := 0.
Definition PP_NODE_DEVICE_PATHPORT : N := 0.
