(* REGENERATED from the repository source (plugins/kinet/KiNetNode.cpp, SocketReady) on every run. Do not edit. *)
From Coq Require Import NArith.
Local Open Scope N_scope.
Definition KN_PACKET_SIZE : N := 1500.
