(* C06 — SandNetNode::SocketReady / HandleDMX / HandleCompressedDMX (plugins/sandnet/SandNetNode.cpp,
   unchanged).  The receive buffer is the `sandnet_packet packet` on SocketReady's stack
   (SA_PACKET_SIZE bytes); n is what recvfrom returned.  The same function serves the data and
   the control socket. *)
From OlaBase Require Import Bytes.
From C06 Require Import Gen GenSandNet Prog Dmx.
Local Open Scope N_scope.

(* m_handlers: (group, universe) -> DmxBuffer (the closures only count calls) *)
Definition sa_handlers := list ((N * N) * dbuf).
Definition sa_key_eq (a b : N * N) : bool := (fst a =? fst b) && (snd a =? snd b).
Fixpoint sa_find (st : sa_handlers) (key : N * N) : option dbuf :=
  match st with [] => None | (k, b) :: r => if sa_key_eq k key then Some b else sa_find r key end.
Fixpoint sa_update (st : sa_handlers) (key : N * N) (nb : dbuf) : sa_handlers :=
  match st with [] => [] | (k, b) :: r => if sa_key_eq k key then (k, nb) :: r else (k, b) :: sa_update r key nb end.

(* result: new handler buffers, and the key whose closure ran (None: none) *)
Definition sa_out := (sa_handlers * option (N * N))%type.

(* header_size = sizeof(dmx_packet) - sizeof(dmx_packet.dmx) *)
Definition SA_DMX_HEADER : N := SA_DMX_SIZE - SA_DMX_DATA.
Definition SA_CDMX_HEADER : N := SA_CDMX_SIZE - SA_CDMX_DATA.

(* self: source.Host() == m_interface.ip_address *)
Definition sa_handle (n : N) (self : bool) (st : sa_handlers) : prog sa_out :=
  let drop_ := Ret (st, None) in
  if self then drop_
  (* if (packet_size < sizeof(packet.opcode)) return; *)
  else if n <? SA_OPCODE_SIZE then drop_
  else rd16be SA_OFF_opcode (fun op =>
    let C := SA_OFF_contents in
    let size := n - SA_OPCODE_SIZE in
    if op =? SA_OP_DMX then
      (* HandleDMX(packet.contents.dmx, packet_size - sizeof(packet.opcode)) *)
      if size <=? SA_DMX_HEADER then drop_
      else Read (C + SA_OFF_dmx_group) (fun g => Read (C + SA_OFF_dmx_universe) (fun u =>
        match sa_find st (g, u) with
        | None => drop_
        | Some b =>
          let data_size := size - SA_DMX_HEADER in
          (* DmxBuffer::Set copies min(length, DMX_UNIVERSE_SIZE) bytes *)
          ReadBlk (C + SA_OFF_dmx_dmx) (N.min data_size DMX_UNIVERSE_SIZE) (fun d =>
            Ret (sa_update st (g, u) (buf_set d), Some (g, u)))
        end))
    else if op =? SA_OP_COMPRESSED_DMX then
      (* HandleCompressedDMX(packet.contents.compressed_dmx, packet_size - sizeof(packet.opcode)) *)
      if size <=? SA_CDMX_HEADER then drop_
      else Read (C + SA_OFF_cdmx_group) (fun g => Read (C + SA_OFF_cdmx_universe) (fun u =>
        match sa_find st (g, u) with
        | None => drop_
        | Some b =>
          let data_size := size - SA_CDMX_HEADER in
          (* m_encoder.Decode(0, dmx_packet.dmx, data_size, buffer); on failure the part decoded so far
             stays in the buffer and the closure is not run *)
          bind (rle_decode 0 (C + SA_OFF_cdmx_dmx) data_size b)
               (fun r => Ret (sa_update st (g, u) (fst r), if snd r then Some (g, u) else None))
        end))
    else drop_).   (* SANDNET_ADVERTISEMENT: break; default: log *)

(* ---------------------------------------------------------------- proof *)
Lemma sandnet_bounded_any n self st : n <= 2147483647 -> bounded n (sa_handle n self st).
Proof.
  intros Hn. unfold sa_handle, SA_DMX_HEADER, SA_CDMX_HEADER, SA_PACKET_SIZE, SA_OPCODE_SIZE,
    SA_OFF_opcode, SA_OFF_contents, SA_DMX_SIZE, SA_DMX_DATA, SA_OFF_dmx_group, SA_OFF_dmx_universe,
    SA_OFF_dmx_dmx, SA_CDMX_SIZE, SA_CDMX_DATA, SA_OFF_cdmx_group, SA_OFF_cdmx_universe,
    SA_OFF_cdmx_dmx, DMX_UNIVERSE_SIZE in *. cbv zeta.
  repeat bstep.
  apply bounded_bind.
  - apply rle_decode_bounded; lia.
  - intros a. constructor.
Qed.

(* for the capacity of the real receive buffer *)
Lemma sandnet_bounded n self st : n <= SA_PACKET_SIZE -> bounded n (sa_handle n self st).
Proof. intros Hn. apply sandnet_bounded_any. unfold SA_PACKET_SIZE in Hn. lia. Qed.
