(* REGENERATED from the repository headers on every run. Do not edit.  *)
From Coq Require Import NArith.
Local Open Scope N_scope.
Definition SN_PACKET_SIZE : N := 1316.
Definition SN_HEADER_SIZE : N := 6.
Definition SN_COMPRESSED_SIZE : N := 1310.
Definition SN_COMPRESSED_DATA_LENGTH : N := 1269.
Definition SN_OFF_type : N := 0.
Definition SN_OFF_netSlot : N := 0.
Definition SN_OFF_slotSize : N := 8.
Definition SN_OFF_indexBlock : N := 16.
Definition SN_OFF_data : N := 41.
Definition SN_MAGIC_INDEX_OFFSET : N := 11.
Definition SN_COMPRESSED_DMX_PACKET : N := 32911.
Definition SN_PTR_SIZE : N := 8.
