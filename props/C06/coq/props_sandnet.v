(* ---------------------------------------------------------------- SandNet
   Receive buffer: the sandnet_packet on SocketReady's stack (524 bytes).  n = bytes received, self = the datagram
   came from our own address, st = the registered handlers (any (group, universe) keys, any buffers). *)
Theorem c06_sandnet_layout :
  (SA_PACKET_SIZE, SA_OPCODE_SIZE, SA_OFF_contents, SA_DMX_HEADER, SA_CDMX_HEADER, SA_OFF_dmx_dmx, SA_OFF_cdmx_dmx,
   SA_ADVERTISEMENT_SIZE) = (524, 2, 2, 3, 10, 3, 10, 235).
Proof. reflexivity. Qed.
Print Assumptions c06_sandnet_layout.

Theorem c06_sandnet_no_oob : forall buf n self st,
  bytes_ok buf = true -> len buf = 524 -> n <= len buf ->
  run buf (sa_handle n self st) <> Hazard Oob.
Proof. intros buf n self st Hb Hl Hn. apply (bounded_no_hazard n); auto. apply sandnet_bounded. unfold SA_PACKET_SIZE. lia. Qed.
Print Assumptions c06_sandnet_no_oob.

Theorem c06_sandnet_terminates : forall buf n self st,
  bytes_ok buf = true -> len buf = 524 -> n <= len buf ->
  run buf (sa_handle n self st) <> Hazard OutOfFuel.
Proof. intros buf n self st Hb Hl Hn. apply (bounded_no_hazard n); auto. apply sandnet_bounded. unfold SA_PACKET_SIZE. lia. Qed.
Print Assumptions c06_sandnet_terminates.

(* the SandNet receive path contains no division *)
Theorem c06_sandnet_no_div0 : forall buf n self st,
  bytes_ok buf = true -> len buf = 524 -> n <= len buf ->
  run buf (sa_handle n self st) <> Hazard Div0.
Proof. intros buf n self st Hb Hl Hn. apply (bounded_no_hazard n); auto. apply sandnet_bounded. unfold SA_PACKET_SIZE. lia. Qed.
Print Assumptions c06_sandnet_no_div0.

(* outputs and next state do not depend on what follows the datagram in the receive buffer *)
Theorem c06_sandnet_stale_free : forall d t1 t2 self st,
  bytes_ok d = true -> len d + len t1 = 524 -> len t2 = len t1 ->
  run (d ++ t1) (sa_handle (len d) self st) = run (d ++ t2) (sa_handle (len d) self st).
Proof.
  intros d t1 t2 self st Hb Hl _. apply bounded_stale_free; auto. apply sandnet_bounded.
  unfold SA_PACKET_SIZE. lia.
Qed.
Print Assumptions c06_sandnet_stale_free.

(* compressed DMX for group 2 universe 7: repeat 3 x 9, literal [1; 2] *)
Example ex_sandnet_handled :
  run ([10; 0; 2; 7; 0; 0; 0; 0; 0; 2; 0; 5; 131; 9; 2; 1; 2] ++ repeat 165 507)
      (sa_handle 17 false [((2, 7), None)])
  = Done ([((2, 7), Some ([9; 9; 9; 1; 2] ++ repeat 0 507))], Some (2, 7)).
Proof. vm_compute. reflexivity. Qed.

Example ex_sandnet_dmx :
  run ([3; 0; 2; 7; 1; 4; 5; 6] ++ repeat 165 516)
      (sa_handle 8 false [((2, 7), Some [1])])
  = Done ([((2, 7), Some [4; 5; 6])], Some (2, 7)).
Proof. vm_compute. reflexivity. Qed.
