(* ---------------------------------------------------------------- SandNet
   Receive buffer: the sandnet_packet on SocketReady's stack (524 bytes).  n = bytes received, self = the datagram
   came from our own address, st = the registered handlers (any (group, universe) keys, any buffers). *)
Theorem c06_sandnet_layout :
  (SA_PACKET_SIZE, SA_OPCODE_SIZE, SA_OFF_contents, SA_DMX_HEADER, SA_CDMX_HEADER, SA_OFF_dmx_dmx, SA_OFF_cdmx_dmx,
   SA_ADVERTISEMENT_SIZE) = (524, 2, 2, 3, 10, 3, 10, 235).
Proof. reflexivity. Qed.
Print Assumptions c06_sandnet_layout.

(* every constant the sandnet model takes from the repository (sizeof / offsetof of the packed wire structs, opcodes,
   vectors, masks), regenerated into GenSandNet.v on each run, pinned to the value the proofs and statements were written
   for: a change of the wire layout or of a constant in /repo breaks this obligation deterministically *)
Theorem c06_sandnet_consts :
  SA_PACKET_SIZE = 524 /\
  SA_OPCODE_SIZE = 2 /\
  SA_OFF_opcode = 0 /\
  SA_OFF_contents = 2 /\
  SA_DMX_SIZE = 515 /\
  SA_DMX_DATA = 512 /\
  SA_OFF_dmx_group = 0 /\
  SA_OFF_dmx_universe = 1 /\
  SA_OFF_dmx_dmx = 3 /\
  SA_CDMX_SIZE = 522 /\
  SA_CDMX_DATA = 512 /\
  SA_OFF_cdmx_group = 0 /\
  SA_OFF_cdmx_universe = 1 /\
  SA_OFF_cdmx_dmx = 10 /\
  SA_ADVERTISEMENT_SIZE = 235 /\
  SA_OP_DMX = 768 /\
  SA_OP_COMPRESSED_DMX = 2560 /\
  SA_OP_ADVERTISEMENT = 256.
Proof. repeat split; reflexivity. Qed.
Print Assumptions c06_sandnet_consts.

Theorem c06_sandnet_no_oob : forall buf n self st,
  bytes_ok buf = true -> len buf = 524 -> n <= len buf ->
  run buf (sa_handle n self st) <> Hazard Oob.
Proof. intros buf n self st Hb Hl Hn. apply (bounded_no_hazard n); auto. apply sandnet_bounded. unfold SA_PACKET_SIZE. lia. Qed.
Print Assumptions c06_sandnet_no_oob.

Theorem c06_sandnet_terminates : forall buf n self st,
  bytes_ok buf = true -> len buf = 524 -> n <= len buf ->
  run buf (sa_handle n self st) <> Hazard OutOfFuel.
Proof. intros buf n self st Hb Hl Hn. apply (bounded_no_hazard n); auto. apply sandnet_bounded. unfold SA_PACKET_SIZE. lia. Qed.
Print Assumptions c06_sandnet_terminates.

(* the SandNet receive path contains no division *)
Theorem c06_sandnet_no_div0 : forall buf n self st,
  bytes_ok buf = true -> len buf = 524 -> n <= len buf ->
  run buf (sa_handle n self st) <> Hazard Div0.
Proof. intros buf n self st Hb Hl Hn. apply (bounded_no_hazard n); auto. apply sandnet_bounded. unfold SA_PACKET_SIZE. lia. Qed.
Print Assumptions c06_sandnet_no_div0.

(* outputs and next state do not depend on what follows the datagram in the receive buffer *)
Theorem c06_sandnet_stale_free : forall d t1 t2 self st,
  bytes_ok d = true -> len d + len t1 = 524 -> len t2 = len t1 ->
  run (d ++ t1) (sa_handle (len d) self st) = run (d ++ t2) (sa_handle (len d) self st).
Proof.
  intros d t1 t2 self st Hb Hl _. apply bounded_stale_free; auto. apply sandnet_bounded.
  unfold SA_PACKET_SIZE. lia.
Qed.
Print Assumptions c06_sandnet_stale_free.

(* independent of the capacity and of what the socket layer reports: for a receive buffer of ANY size and ANY reported
   length n < 2^31 the handler returns (its loops end within their fuel: RLE decoder: fuel = data length + 1, every turn consumes at least one byte) and never divides by zero; and if
   the buffer does hold n bytes it reads nothing at or beyond n *)
Theorem c06_sandnet_any_length : forall buf n self st,
  bytes_ok buf = true -> n <= 2147483647 ->
  (forall z, z <> Oob -> run buf (sa_handle n self st) <> Hazard z) /\
  (n <= len buf -> forall z, run buf (sa_handle n self st) <> Hazard z).
Proof.
  intros buf n self st Hb Hn. pose proof (sandnet_bounded_any n self st Hn) as B. split.
  - intros z Hz E. apply Hz. exact (nofail_run _ (bounded_nofail _ _ B) buf z Hb E).
  - intros Hl z. apply (bounded_no_hazard n); assumption.
Qed.
Print Assumptions c06_sandnet_any_length.

(* history level: any sequence of datagrams (each from our own address or not), each followed in the receive buffer by arbitrary stale bytes, from any
   initial state: no datagram ends in a hazard, and every output and the final state are the same whatever the
   stale tails are *)
Theorem c06_sandnet_history : forall (h1 h2 : list (bool * list N * list N)) s,
  Forall (fun x => let '(_, d, t) := x in bytes_ok d = true /\ bytes_ok t = true /\ len d <= 524) h1 ->
  Forall2 (fun x y => fst x = fst y) h1 h2 ->
  (exists r, run_hist (fun self n st => sa_handle n self st) (fun _ r => fst r) s h1 = Done r) /\
  run_hist (fun self n st => sa_handle n self st) (fun _ r => fst r) s h1 = run_hist (fun self n st => sa_handle n self st) (fun _ r => fst r) s h2.
Proof.
  intros h1 h2 s Hok H2.
  assert (Hb : forall i n st, n <= SA_PACKET_SIZE -> bounded n ((fun self n st => sa_handle n self st) i n st)) by (intros; apply sandnet_bounded; assumption).
  split.
  - apply (hist_safe SA_PACKET_SIZE _ _ Hb). exact Hok.
  - apply (hist_stale_free SA_PACKET_SIZE _ _ Hb); assumption.
Qed.
Print Assumptions c06_sandnet_history.

(* compressed DMX for group 2 universe 7: repeat 3 x 9, literal [1; 2] *)
Example ex_sandnet_handled :
  run ([10; 0; 2; 7; 0; 0; 0; 0; 0; 2; 0; 5; 131; 9; 2; 1; 2] ++ repeat 165 507)
      (sa_handle 17 false [((2, 7), None)])
  = Done ([((2, 7), Some ([9; 9; 9; 1; 2] ++ repeat 0 507))], Some (2, 7)).
Proof. vm_compute. reflexivity. Qed.

Example ex_sandnet_dmx :
  run ([3; 0; 2; 7; 1; 4; 5; 6] ++ repeat 165 516)
      (sa_handle 8 false [((2, 7), Some [1])])
  = Done ([((2, 7), Some [4; 5; 6])], Some (2, 7)).
Proof. vm_compute. reflexivity. Qed.
