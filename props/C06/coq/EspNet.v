(* C06 — EspNetNode::SocketReady / HandlePoll / HandleReply / HandleAck / HandleData
   (plugins/espnet/EspNetNode.cpp) and RunLengthDecoder::Decode (plugins/espnet/RunLengthDecoder.cpp,
   after fixes/08).  The receive buffer is the `espnet_packet_union_t packet` on SocketReady's
   stack (ES_PACKET_SIZE bytes); n is what recvfrom returned. *)
From OlaBase Require Import Bytes.
From C06 Require Import Gen GenEspNet Prog Dmx.
Local Open Scope N_scope.

(* m_handlers: universe (uint8) -> DmxBuffer (the closures only count calls) *)
Definition es_handlers := list (N * dbuf).
Fixpoint es_find (st : es_handlers) (u : N) : option dbuf :=
  match st with [] => None | (k, b) :: r => if k =? u then Some b else es_find r u end.
Fixpoint es_update (st : es_handlers) (u : N) (nb : dbuf) : es_handlers :=
  match st with [] => [] | (k, b) :: r => if k =? u then (k, nb) :: r else (k, b) :: es_update r u nb end.

(* what the node sends in response: nothing, SendEspAck(source, 0, 0) or SendEspPollReply(source) *)
Inductive es_tx := EsTxNone | EsTxAck | EsTxReply.

(* result: new handler buffers, the universe whose closure ran (None: none), packet sent *)
Definition es_out := (es_handlers * option N * es_tx)%type.

(* RunLengthDecoder::Decode(dst, src_data = buffer + base, length) after dst->Reset().
   p = value - src_data, i = destination channel. *)
Fixpoint es_rle_loop (base length p i : N) (b : dbuf) (fuel : nat) : prog dbuf :=
  match fuel with
  | O => Fail OutOfFuel
  | S k =>
    (* while (i < DMX_UNIVERSE_SIZE && value < end) *)
    if (i <? DMX_UNIVERSE_SIZE) && (p <? length) then
      Read (base + p) (fun c =>
        if c =? ES_REPEAT_VALUE then
          (* fixes/08: if (end - value < 3) return; *)
          if length - p <? 3 then Ret b
          else Read (base + p + 1) (fun count =>
               Read (base + p + 2) (fun v =>
                 es_rle_loop base length (p + 3) (i + count) (set_range_to_value b i v count) k))
        else if c =? ES_ESCAPE_VALUE then
          (* fixes/08: if (end - value < 2) return; *)
          if length - p <? 2 then Ret b
          else Read (base + p + 1) (fun v =>
                 es_rle_loop base length (p + 2) (i + 1) (set_channel b i v) k)
        else es_rle_loop base length (p + 1) (i + 1) (set_channel b i c) k)
    else Ret b
  end.

Definition es_rle_decode (base length : N) (b : dbuf) : prog dbuf :=
  es_rle_loop base length 0 0 (buf_reset b) (S (N.to_nat length)).

(* static const ssize_t header_size = sizeof(espnet_data_t) - DMX_UNIVERSE_SIZE *)
Definition ES_DATA_HEADER : N := ES_DATA_SIZE - DMX_UNIVERSE_SIZE.

(* self: source.Host() == m_interface.ip_address *)
Definition es_handle (n : N) (self : bool) (st : es_handlers) : prog es_out :=
  let drop_ := Ret (st, None, EsTxNone) in
  (* if (packet_size < sizeof(packet.poll.head)) return; *)
  if n <? ES_HEAD_SIZE then drop_
  else if self then drop_
  else rd32be 0 (fun head =>
    if head =? ES_POLL then
      (* HandlePoll *)
      if n <? ES_POLL_SIZE then drop_
      else Read ES_OFF_poll_type (fun ty =>
             Ret (st, None, if ty =? 0 then EsTxAck else EsTxReply))
    else if head =? ES_REPLY then drop_      (* HandleReply: size check only *)
    else if head =? ES_DMX then
      (* HandleData *)
      if n <? ES_DATA_HEADER then drop_
      else Read ES_OFF_universe (fun u =>
        match es_find st u with
        | None => drop_
        | Some b =>
          rd16be ES_OFF_size (fun sz =>
            (* data_size = std::min(length - header_size, (ssize_t) NetworkToHost(data.size)) *)
            let data_size := N.min (n - ES_DATA_HEADER) sz in
            Read ES_OFF_type (fun ty =>
              if ty =? ES_DATA_RAW then
                ReadBlk ES_OFF_data data_size (fun d => Ret (es_update st u (buf_set d), Some u, EsTxNone))
              else if ty =? ES_DATA_PAIRS then drop_
              else if ty =? ES_DATA_RLE then
                bind (es_rle_decode ES_OFF_data data_size b)
                     (fun b' => Ret (es_update st u b', Some u, EsTxNone))
              else drop_))
        end)
    else if head =? ES_ACK then drop_        (* HandleAck: size check only *)
    else drop_).

(* ---------------------------------------------------------------- proofs *)
Lemma es_rle_loop_bounded n base length : base + length <= n ->
  forall fuel p i b, p <= length -> length + 1 <= p + N.of_nat fuel ->
  bounded n (es_rle_loop base length p i b fuel).
Proof.
  intros Hn. induction fuel as [|k IH]; intros p i b Hp Hf; cbn [es_rle_loop].
  - lia.
  - destruct ((i <? DMX_UNIVERSE_SIZE) && (p <? length)) eqn:E; [|constructor].
    apply andb_true_iff in E. destruct E as [_ E]. apply N.ltb_lt in E.
    apply bRead; [lia|]. intros c Hc.
    destruct (c =? ES_REPEAT_VALUE).
    + destruct (length - p <? 3) eqn:E3; [constructor|]. apply N.ltb_ge in E3.
      apply bRead; [lia|]. intros count _. apply bRead; [lia|]. intros v _.
      apply IH; lia.
    + destruct (c =? ES_ESCAPE_VALUE).
      * destruct (length - p <? 2) eqn:E2; [constructor|]. apply N.ltb_ge in E2.
        apply bRead; [lia|]. intros v _. apply IH; lia.
      * apply IH; lia.
Qed.

Lemma es_rle_decode_bounded n base length b :
  base + length <= n -> bounded n (es_rle_decode base length b).
Proof. intros. unfold es_rle_decode. apply es_rle_loop_bounded; auto; lia. Qed.

Lemma espnet_bounded_any n self st : n <= 2147483647 -> bounded n (es_handle n self st).
Proof.
  intros Hn. unfold es_handle, ES_DATA_HEADER, ES_PACKET_SIZE, ES_HEAD_SIZE, ES_POLL_SIZE,
    ES_DATA_SIZE, DMX_UNIVERSE_SIZE, ES_OFF_poll_type, ES_OFF_universe, ES_OFF_type, ES_OFF_size,
    ES_OFF_data in *. cbv zeta.
  repeat bstep.
  apply bounded_bind.
  - apply es_rle_decode_bounded. lia.
  - intros a. constructor.
Qed.

(* for the capacity of the real receive buffer *)
Lemma espnet_bounded n self st : n <= ES_PACKET_SIZE -> bounded n (es_handle n self st).
Proof. intros Hn. apply espnet_bounded_any. unfold ES_PACKET_SIZE in Hn. lia. Qed.
