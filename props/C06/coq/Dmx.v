(* C06 — DmxBuffer operations used by receive handlers, and RunLengthEncoder::Decode
   (common/dmx/RunLengthEncoder.cpp, after C07's fixes) as a program over the receive buffer. *)
From OlaBase Require Import Bytes.
From C06 Require Import Gen Prog.
Local Open Scope N_scope.

(* None: no block allocated (m_data == NULL); Some l: m_length = len l, contents l *)
Definition dbuf := option (list N).
Definition zeros (n : N) : list N := repeat 0 (N.to_nat n).
Definition materialise (b : dbuf) : list N :=
  match b with None => zeros DMX_UNIVERSE_SIZE | Some l => l end.

(* DmxBuffer::SetRange(offset, data, length), data != NULL *)
Definition set_range (b : dbuf) (off : N) (data : list N) : dbuf :=
  if DMX_UNIVERSE_SIZE <=? off then b
  else
    let l := materialise b in
    if len l <? off then Some l
    else
      let cl := N.min (len data) (DMX_UNIVERSE_SIZE - off) in
      Some (take off l ++ take cl data ++ drop (off + cl) l).

(* DmxBuffer::SetRange(offset, buffer + base, length) with the memcpy as the read it is: exactly
   min(length, 512 - offset) bytes are read, and none when the call returns early *)
Definition set_range_rd {A} (b : dbuf) (off base cnt : N) (k : dbuf -> prog A) : prog A :=
  if DMX_UNIVERSE_SIZE <=? off then k b
  else
    let l := materialise b in
    if len l <? off then k (Some l)
    else
      let cl := N.min cnt (DMX_UNIVERSE_SIZE - off) in
      ReadBlk base cl (fun data => k (Some (take off l ++ data ++ drop (off + cl) l))).

(* DmxBuffer::SetRangeToValue(offset, value, length) *)
Definition set_range_to_value (b : dbuf) (off v cnt : N) : dbuf :=
  if DMX_UNIVERSE_SIZE <=? off then b
  else
    let l := materialise b in
    if len l <? off then Some l
    else
      let cl := N.min cnt (DMX_UNIVERSE_SIZE - off) in
      Some (take off l ++ repeat v (N.to_nat cl) ++ drop (off + cl) l).

(* DmxBuffer::SetChannel(channel, value) *)
Definition set_channel (b : dbuf) (ch v : N) : dbuf :=
  if DMX_UNIVERSE_SIZE <=? ch then b
  else
    let l := materialise b in
    if len l <? ch then Some l
    else Some (take ch l ++ [v] ++ drop (ch + 1) l).

(* DmxBuffer::Set(data, length), data != NULL *)
Definition buf_set (data : list N) : dbuf := Some (take DMX_UNIVERSE_SIZE data).

Fixpoint max_zip (a b : list N) : list N :=
  match a, b with x :: a', y :: b' => N.max x y :: max_zip a' b' | _, _ => [] end.
(* DmxBuffer::HTPMerge(other) *)
Definition htp_merge (b other : dbuf) : dbuf :=
  let l := match b with None => [] | Some l => l end in
  let o := match other with None => [] | Some o => take DMX_UNIVERSE_SIZE o end in
  let m := N.min (len l) (len o) in
  Some (max_zip l o ++ (if len l <? len o then drop m o else drop m l)).


(* DmxBuffer::Reset(): m_length = 0 when a block exists *)
Definition buf_reset (b : dbuf) : dbuf := match b with None => None | Some _ => Some [] end.

(* RunLengthEncoder::Decode(start_channel, src_data = buffer + base, length, dst).
   i is the read index, dest = destination_index. *)
Fixpoint rle_loop (base length i dest : N) (b : dbuf) (fuel : nat) : prog (dbuf * bool) :=
  match fuel with
  | O => Fail OutOfFuel
  | S k =>
    if i <? length then
      Read (base + i) (fun c =>
        let seg := N.land c 127 in
        if N.land c REPEAT_FLAG =? 0 then
          let i1 := i + 1 in
          (* if (segment_length > length - i) return false; *)
          if usub32 length i1 <? seg then Ret (b, false)
          else set_range_rd b dest (base + i1) seg (fun b' =>
                 rle_loop base length (i1 + seg) (dest + seg) b' k)
        else
          let i1 := i + 1 in
          (* if (i >= length) return false; *)
          if length <=? i1 then Ret (b, false)
          else Read (base + i1) (fun v =>
                 rle_loop base length (i1 + 1) (dest + seg) (set_range_to_value b dest v seg) k))
    else Ret (b, true)
  end.

Definition rle_decode (start base length : N) (b : dbuf) : prog (dbuf * bool) :=
  rle_loop base length 0 start b (S (N.to_nat length)).

Lemma set_range_rd_bounded {A} n b off base cnt (k : dbuf -> prog A) :
  (cnt = 0 \/ base + cnt <= n) -> (forall b', bounded n (k b')) -> bounded n (set_range_rd b off base cnt k).
Proof.
  intros Hc Hk. unfold set_range_rd.
  destruct (DMX_UNIVERSE_SIZE <=? off); [apply Hk|]. cbv zeta.
  destruct (len (materialise b) <? off); [apply Hk|].
  apply bBlk; [lia|]. intros; apply Hk.
Qed.
Lemma set_range_rd_nofail {A} b off base cnt (k : dbuf -> prog A) :
  (forall b', nofail (k b')) -> nofail (set_range_rd b off base cnt k).
Proof.
  intros Hk. unfold set_range_rd.
  destruct (DMX_UNIVERSE_SIZE <=? off); [apply Hk|]. cbv zeta.
  destruct (len (materialise b) <? off); [apply Hk|].
  apply nfBlk. intros; apply Hk.
Qed.

(* every read of the decoder lies inside [base, base+length); the fuel suffices *)
Lemma rle_loop_bounded n base length : base + length <= n -> length < 4294967296 ->
  forall fuel i dest b, i <= length -> length + 1 <= i + N.of_nat fuel ->
  bounded n (rle_loop base length i dest b fuel).
Proof.
  intros Hn Hl. induction fuel as [|k IH]; intros i dest b Hi Hf; cbn [rle_loop].
  - lia.
  - destruct (i <? length) eqn:E; [|constructor].
    apply bRead; [lia|]. intros c Hc. cbv zeta.
    destruct (N.land c REPEAT_FLAG =? 0) eqn:Ef.
    + destruct (usub32 length (i + 1) <? N.land c 127) eqn:Es; [constructor|].
      assert (Hu : usub32 length (i + 1) = length - (i + 1)).
      { unfold usub32, u32. rewrite (N.mod_small (i + 1)) by lia.
        replace (length + 4294967296 - (i + 1)) with ((length - (i + 1)) + 1 * 4294967296) by lia.
        rewrite N.mod_add by lia. apply N.mod_small. lia. }
      rewrite Hu in Es.
      apply set_range_rd_bounded; [right; lia|]. intros b'. apply IH; lia.
    + destruct (length <=? i + 1) eqn:El; [constructor|].
      apply bRead; [lia|]. intros v Hv. apply IH; lia.
Qed.

Lemma rle_decode_bounded n start base length b :
  base + length <= n -> length < 4294967296 -> bounded n (rle_decode start base length b).
Proof. intros. unfold rle_decode. apply rle_loop_bounded; auto; lia. Qed.

(* whatever it is pointed at, the decoder terminates (fuel = length + 1 suffices) *)
Lemma rle_loop_nofail base length : length < 4294967296 ->
  forall fuel i dest b, i <= length -> length + 1 <= i + N.of_nat fuel ->
  nofail (rle_loop base length i dest b fuel).
Proof.
  intros Hl. induction fuel as [|k IH]; intros i dest b Hi Hf; cbn [rle_loop].
  - lia.
  - destruct (i <? length) eqn:E; [|constructor].
    apply nfRead. intros c Hc. cbv zeta.
    destruct (N.land c REPEAT_FLAG =? 0) eqn:Ef.
    + destruct (usub32 length (i + 1) <? N.land c 127) eqn:Es; [constructor|].
      assert (Hu : usub32 length (i + 1) = length - (i + 1)).
      { unfold usub32, u32. rewrite (N.mod_small (i + 1)) by lia.
        replace (length + 4294967296 - (i + 1)) with ((length - (i + 1)) + 1 * 4294967296) by lia.
        rewrite N.mod_add by lia. apply N.mod_small. lia. }
      rewrite Hu in Es.
      apply set_range_rd_nofail. intros b'. apply IH; lia.
    + destruct (length <=? i + 1) eqn:El; [constructor|].
      apply nfRead. intros v Hv. apply IH; lia.
Qed.
Lemma rle_decode_nofail start base length b : length < 4294967296 -> nofail (rle_decode start base length b).
Proof. intros. unfold rle_decode. apply rle_loop_nofail; auto; lia. Qed.
