(* C06 - received datagrams are handled within bounds and without stale-data influence.
   ASSEMBLED by prop.py from coq/props_<proto>.v (edit those).  Only theorem statements here.
   A handler is a program over the receive buffer (Prog.v): `run buf p` executes it with plain memory
   semantics - a read below the capacity `len buf` returns the byte that is there (datagram or stale),
   a read at or beyond the capacity is the hazard Oob; loops run on fuel (hazard OutOfFuel);
   a division by zero is the hazard Div0.  buf = datagram ++ stale tail, n = received length. *)
From OlaBase Require Import Bytes.
From C06 Require Import Gen Prog Dmx GenShowNet ShowNet GenAcn Acn GenArtNet ArtNet GenEspNet EspNet GenSandNet SandNet GenPathport Pathport GenKiNet KiNet.
Local Open Scope N_scope.

(* ---------------------------------------------------------------- ShowNet
   Receive buffer: the shownet_packet on SocketReady's stack (1316 bytes).  n = bytes received,
   st = the registered handlers (any universes, any buffers).  `shownet_handle` models the code as it
   is, which computes the received-data size with sizeof of a pointer (known finding
   C06-shownet-sizeof-pointer; ShowNetNodeTest depends on the lenient bound, so the tree is not fixed):
   the no-Oob and stale-free clauses are REFUTED for it and proved only for the (datagram, state) pairs
   on which the handler reads nothing at or beyond the received length (`sn_within`).  Termination
   and absence of division by zero hold for every datagram.  `shownet_handle_fixed` is the handler
   with the proposed (unapplied) fix: for it all clauses are proved. *)
Theorem c06_shownet_layout :
  (SN_PACKET_SIZE, SN_HEADER_SIZE, SN_COMPRESSED_SIZE, SN_COMPRESSED_DATA_LENGTH, SN_OFF_data, SN_PTR_SIZE) =
  (1316, 6, 1310, 1269, 41, 8).
Proof. reflexivity. Qed.
Print Assumptions c06_shownet_layout.

Theorem c06_shownet_terminates : forall buf n st,
  bytes_ok buf = true -> run buf (shownet_handle n st) <> Hazard OutOfFuel.
Proof. intros buf n st Hb E. pose proof (nofail_run _ (shownet_nofail n st) buf _ Hb E). discriminate. Qed.
Print Assumptions c06_shownet_terminates.

Theorem c06_shownet_no_div0 : forall buf n st,
  bytes_ok buf = true -> run buf (shownet_handle n st) <> Hazard Div0 /\ DMX_UNIVERSE_SIZE <> 0.
Proof.
  intros buf n st Hb. split; [|discriminate].
  intros E. pose proof (nofail_run _ (shownet_nofail n st) buf _ Hb E). discriminate.
Qed.
Print Assumptions c06_shownet_no_div0.

(* a full-size datagram whose raw block is data[1268..1270): one byte past the packet is read *)
Definition sn_over : list N :=
  [128; 143; 10; 0; 0; 2] ++ [1; 0] ++ repeat 0 6 ++ [2; 0] ++ repeat 0 6 ++ [255; 4; 1; 5] ++ repeat 0 6
  ++ repeat 0 15 ++ repeat 7 1269.
Theorem c06_shownet_no_oob_refuted : exists buf n st,
  bytes_ok buf = true /\ len buf = 1316 /\ n <= len buf /\ run buf (shownet_handle n st) = Hazard Oob.
Proof. exists sn_over, 1316, [(0, None)]. vm_compute. repeat split; try reflexivity. discriminate. Qed.
Print Assumptions c06_shownet_no_oob_refuted.

(* a 49-byte datagram that claims a 4-byte raw block: two of the four slots come from the stale tail *)
Definition sn_short : list N :=
  [128; 143; 10; 0; 0; 2] ++ [1; 0] ++ repeat 0 6 ++ [4; 0] ++ repeat 0 6 ++ [11; 0; 15; 0] ++ repeat 0 6
  ++ repeat 0 15 ++ [1; 2].
Theorem c06_shownet_stale_free_refuted : exists d t1 t2 st,
  bytes_ok d = true /\ len d + len t1 = 1316 /\ len t2 = len t1 /\
  run (d ++ t1) (shownet_handle (len d) st) <> run (d ++ t2) (shownet_handle (len d) st).
Proof.
  exists sn_short, (repeat 0 1267), (repeat 165 1267), [(0, None)].
  repeat split; try reflexivity. vm_compute. discriminate.
Qed.
Print Assumptions c06_shownet_stale_free_refuted.

(* outside the finding: when the handler, run on the datagram alone, completes (it then read nothing at or
   beyond the received length), no byte beyond the capacity is read and the result does not depend on the
   stale tail, whatever the tail is *)
Theorem c06_shownet_no_oob_partial : forall d t st,
  sn_within d st = true -> run (d ++ t) (shownet_handle (len d) st) <> Hazard Oob.
Proof.
  intros d t st H. unfold sn_within, completes in H.
  destruct (run d (shownet_handle (len d) st)) as [a|h] eqn:E; [|discriminate].
  rewrite (run_app_mono _ _ t _ E). discriminate.
Qed.
Print Assumptions c06_shownet_no_oob_partial.

Theorem c06_shownet_stale_free_partial : forall d t1 t2 st,
  sn_within d st = true ->
  run (d ++ t1) (shownet_handle (len d) st) = run (d ++ t2) (shownet_handle (len d) st).
Proof.
  intros d t1 t2 st H. unfold sn_within, completes in H.
  destruct (run d (shownet_handle (len d) st)) as [a|h] eqn:E; [|discriminate].
  rewrite (run_app_mono _ _ t1 _ E), (run_app_mono _ _ t2 _ E). reflexivity.
Qed.
Print Assumptions c06_shownet_stale_free_partial.

(* the guard, syntactically: `sn_syn d st` is a boolean over the datagram's own fields, in the handler's test
   order (n <= 6; type; indexBlock[0] received and >= 11; indexBlock[1] received; enc_len >= 1 and netSlot <> 0;
   not beyond the lenient bound n + 1255; slotSize <> 0; a handler exists; 47 + data_offset + enc_len <= n).
   It implies sn_within; conversely sn_within implies its header part `sn_hdr` (all of the above except the
   last conjunct).  The gap between the two is the data stage only: an RLE stream that stops early, or a
   SetRange that clamps its copy, may leave the unreceived part of a claimed block unread. *)
Theorem c06_shownet_guard_syntactic : forall d st,
  bytes_ok d = true -> len d <= 1316 ->
  (sn_syn d st = true -> sn_within d st = true) /\ (sn_within d st = true -> sn_hdr d st = true).
Proof. intros d st Hb Hn. split; [apply sn_syn_within|apply sn_within_hdr]; auto. Qed.
Print Assumptions c06_shownet_guard_syntactic.

Theorem c06_shownet_syntactic_partial : forall d t1 t2 st,
  bytes_ok d = true -> len d <= 1316 -> sn_syn d st = true ->
  run (d ++ t1) (shownet_handle (len d) st) <> Hazard Oob /\
  run (d ++ t1) (shownet_handle (len d) st) = run (d ++ t2) (shownet_handle (len d) st).
Proof.
  intros d t1 t2 st Hb Hn Hs. pose proof (sn_syn_within d st Hb Hn Hs) as H.
  unfold sn_within, completes in H.
  destruct (run d (shownet_handle (len d) st)) as [a|h] eqn:E; [|discriminate].
  rewrite (run_app_mono _ _ t1 _ E), (run_app_mono _ _ t2 _ E). split; [discriminate|reflexivity].
Qed.
Print Assumptions c06_shownet_syntactic_partial.

(* the handler with the proposed fix (fixes-needing-test-edit/01): all clauses, every datagram *)
Theorem c06_shownet_proposedfix_safe : forall buf n st h,
  bytes_ok buf = true -> len buf = 1316 -> n <= len buf ->
  run buf (shownet_handle_fixed n st) <> Hazard h.
Proof.
  intros buf n st h Hb Hl Hn. apply (bounded_no_hazard n); auto.
  apply shownet_fixed_bounded. unfold SN_PACKET_SIZE. lia.
Qed.
Print Assumptions c06_shownet_proposedfix_safe.

Theorem c06_shownet_proposedfix_stale_free : forall d t1 t2 st,
  bytes_ok d = true -> len d + len t1 = 1316 -> len t2 = len t1 ->
  run (d ++ t1) (shownet_handle_fixed (len d) st) = run (d ++ t2) (shownet_handle_fixed (len d) st).
Proof.
  intros d t1 t2 st Hb Hl _. apply bounded_stale_free; auto. apply shownet_fixed_bounded.
  unfold SN_PACKET_SIZE. lia.
Qed.
Print Assumptions c06_shownet_proposedfix_stale_free.

(* the guard is satisfiable by an accepted datagram; the two witnesses are outside it *)
Definition sn_good : list N :=
  [128; 143; 10; 0; 0; 2] ++ [1; 0] ++ repeat 0 6 ++ [4; 0] ++ repeat 0 6 ++ [11; 0; 13; 0] ++ repeat 0 6
  ++ repeat 0 15 ++ [131; 9].
Example ex_shownet_handled :
  sn_within sn_good [(0, None)] = true /\
  run (sn_good ++ repeat 165 1267) (shownet_handle 49 [(0, None)])
  = Done ([(0, Some ([9; 9; 9] ++ repeat 0 509))], Some 0).
Proof. vm_compute. split; reflexivity. Qed.
Example ex_shownet_outside : sn_within sn_short [(0, None)] = false /\ sn_within sn_over [(0, None)] = false.
Proof. vm_compute. split; reflexivity. Qed.
Example ex_shownet_syn : sn_syn sn_good [(0, None)] = true /\ sn_syn sn_short [(0, None)] = false /\
  sn_hdr sn_short [(0, None)] = true /\ sn_syn sn_over [(0, None)] = false.
Proof. vm_compute. repeat split; reflexivity. Qed.

(* ---------------------------------------------------------------- E1.31 / ACN
   Receive buffer: IncomingUDPTransport::m_recv_buffer (1472 bytes).  n = bytes received, hs = the universe
   handlers of DMPE131Inflator with their tracked sources (any), ign = ignore_preview. *)
Theorem c06_acn_layout :
  (ACN_MAX_DATAGRAM, ACN_HEADER_SIZE, CID_LENGTH, E131_HEADER_SIZE, REV2_HEADER_SIZE, DMP_HEADER_SIZE,
   ROOT_VECTOR_SIZE, E131_VECTOR_SIZE, DMP_VECTOR_SIZE) =
  (1472, 16, 16, 71, 36, 1, 4, 4, 1).
Proof. reflexivity. Qed.
Print Assumptions c06_acn_layout.

Theorem c06_acn_no_oob : forall buf ign n hs,
  bytes_ok buf = true -> len buf = 1472 -> n <= len buf ->
  run buf (acn_handle ign n hs) <> Hazard Oob.
Proof. intros buf ign n hs Hb Hl Hn. apply (bounded_no_hazard n); auto. apply acn_bounded. unfold ACN_MAX_DATAGRAM. lia. Qed.
Print Assumptions c06_acn_no_oob.

Theorem c06_acn_terminates : forall buf ign n hs,
  bytes_ok buf = true -> len buf = 1472 -> n <= len buf ->
  run buf (acn_handle ign n hs) <> Hazard OutOfFuel.
Proof. intros buf ign n hs Hb Hl Hn. apply (bounded_no_hazard n); auto. apply acn_bounded. unfold ACN_MAX_DATAGRAM. lia. Qed.
Print Assumptions c06_acn_terminates.

Theorem c06_acn_no_div0 : forall buf ign n hs,
  bytes_ok buf = true -> len buf = 1472 -> n <= len buf ->
  run buf (acn_handle ign n hs) <> Hazard Div0.
Proof. intros buf ign n hs Hb Hl Hn. apply (bounded_no_hazard n); auto. apply acn_bounded. unfold ACN_MAX_DATAGRAM. lia. Qed.
Print Assumptions c06_acn_no_div0.

(* outputs and next state do not depend on what follows the datagram in the receive buffer *)
Theorem c06_acn_stale_free : forall d t1 t2 ign hs,
  bytes_ok d = true -> len d + len t1 = 1472 -> len t2 = len t1 ->
  run (d ++ t1) (acn_handle ign (len d) hs) = run (d ++ t2) (acn_handle ign (len d) hs).
Proof.
  intros d t1 t2 ign hs Hb Hl _. apply bounded_stale_free; auto. apply acn_bounded.
  unfold ACN_MAX_DATAGRAM. lia.
Qed.
Print Assumptions c06_acn_stale_free.

Example ex_acn_data_handled :
  run ([0; 16; 0; 0; 65; 83; 67; 45; 69; 49; 46; 49; 55; 0; 0; 0; 112; 113; 0; 0; 0; 4; 17; 17; 17; 17; 17; 17; 17; 17; 17; 17; 17; 17; 17; 17; 17; 1; 112; 91; 0; 0; 0; 2; 115; 111; 117; 114; 99; 101; 0; 0; 0; 0; 0; 0; 0; 0; 0; 0; 0; 0; 0; 0; 0; 0; 0; 0; 0; 0; 0; 0; 0; 0; 0; 0; 0; 0; 0; 0; 0; 0; 0; 0; 0; 0; 0; 0; 0; 0; 0; 0; 0; 0; 0; 0; 0; 0; 0; 0; 0; 0; 0; 0; 0; 0; 0; 0; 100; 0; 0; 7; 0; 0; 1; 112; 14; 2; 161; 0; 0; 0; 1; 0; 4; 0; 9; 8; 7] ++ repeat 165 1343)
      (acn_handle false 129 [mk_uh 1 None 0 []])
  = Done ([mk_uh 1 (Some [9; 8; 7]) 100 [mk_src [17; 17; 17; 17; 17; 17; 17; 17; 17; 17; 17; 17; 17; 17; 17; 1] 7 (Some [9; 8; 7])]], [AcnEvData 1; EvSrc [115; 111; 117; 114; 99; 101]]).
Proof. vm_compute. reflexivity. Qed.

Example ex_acn_discovery_handled :
  run ([0; 16; 0; 0; 65; 83; 67; 45; 69; 49; 46; 49; 55; 0; 0; 0; 112; 105; 0; 0; 0; 4; 18; 18; 18; 18; 18; 18; 18; 18; 18; 18; 18; 18; 18; 18; 18; 2; 112; 83; 0; 0; 0; 4; 115; 111; 117; 114; 99; 101; 0; 0; 0; 0; 0; 0; 0; 0; 0; 0; 0; 0; 0; 0; 0; 0; 0; 0; 0; 0; 0; 0; 0; 0; 0; 0; 0; 0; 0; 0; 0; 0; 0; 0; 0; 0; 0; 0; 0; 0; 0; 0; 0; 0; 0; 0; 0; 0; 0; 0; 0; 0; 0; 0; 0; 0; 0; 0; 50; 0; 0; 179; 0; 0; 1; 0; 0; 1; 2; 0; 3] ++ repeat 165 1351)
      (acn_handle false 121 [])
  = Done ([], [EvPage [18; 18; 18; 18; 18; 18; 18; 18; 18; 18; 18; 18; 18; 18; 18; 2] 0 0 [258; 3]; EvSrc [115; 111; 117; 114; 99; 101]]).
Proof. vm_compute. reflexivity. Qed.

(* the E1.33 (RPT) and LLRP header decoders accept a well-formed packet (they are added to the root inflator by the
   harness; olad's E131Node does not register them) *)
Definition acn_e133_pkt : list N := [0; 16; 0; 0; 65; 83; 67; 45; 69; 49; 46; 49; 55; 0; 0; 0; 112; 105; 0; 0; 0; 5; 17; 17; 17; 17; 17; 17; 17; 17; 17; 17; 17; 17; 17; 17; 17; 1; 112; 83; 0; 0; 0; 1; 114; 112; 116; 45; 115; 111; 117; 114; 99; 101; 0; 0; 0; 0; 0; 0; 0; 0; 0; 0; 0; 0; 0; 0; 0; 0; 0; 0; 0; 0; 0; 0; 0; 0; 0; 0; 0; 0; 0; 0; 0; 0; 0; 0; 0; 0; 0; 0; 0; 0; 0; 0; 0; 0; 0; 0; 0; 0; 0; 0; 0; 0; 0; 0; 215; 33; 13; 255; 127; 131; 0; 112; 6; 204; 130; 183; 14].
Example ex_acn_e133 : match run (acn_e133_pkt ++ repeat 165 1351) (acn_handle false 121 []) with
  | Done (_, [EvRdm133 _ _ d]) => d = [130; 183; 14] | _ => False end.
Proof. vm_compute. reflexivity. Qed.

Definition acn_llrp_pkt : list N := [0; 16; 0; 0; 65; 83; 67; 45; 69; 49; 46; 49; 55; 0; 0; 0; 112; 54; 0; 0; 0; 10; 17; 17; 17; 17; 17; 17; 17; 17; 17; 17; 17; 17; 17; 17; 17; 1; 112; 32; 0; 0; 0; 3; 19; 19; 19; 19; 19; 19; 19; 19; 19; 19; 19; 19; 19; 19; 19; 3; 63; 31; 101; 168; 112; 6; 204; 26; 80; 57].
Example ex_acn_llrp : match run (acn_llrp_pkt ++ repeat 165 1402) (acn_handle false 70 []) with
  | Done (_, [EvLlrp _ _ d]) => d = [26; 80; 57] | _ => False end.
Proof. vm_compute. reflexivity. Qed.

(* ---------------------------------------------------------------- Art-Net
   Receive buffer: the artnet_packet on SocketReady's stack (1228 bytes).  n = bytes received,
   st = net address, port addresses of output ports 0, 1 / input port 0, the DMX buffers, the known UIDs,
   subscription and reply-on-change flags (any values). *)
Theorem c06_artnet_layout :
  (AN_PACKET_SIZE, AN_HEADER_SIZE, AN_DMX_HDR, AN_TRQ_HDR, AN_TD_HDR, AN_TC_SIZE, AN_RDM_HDR, AN_REPLY_MIN, AN_UID_SIZE) =
  (1228, 10, 8, 14, 18, 14, 14, 197, 6).
Proof. reflexivity. Qed.
Print Assumptions c06_artnet_layout.

Theorem c06_artnet_no_oob : forall buf n st,
  bytes_ok buf = true -> len buf = 1228 -> n <= len buf ->
  run buf (artnet_handle n st) <> Hazard Oob.
Proof. intros buf n st Hb Hl Hn. apply (bounded_no_hazard n); auto. apply artnet_bounded. unfold AN_PACKET_SIZE. lia. Qed.
Print Assumptions c06_artnet_no_oob.

Theorem c06_artnet_terminates : forall buf n st,
  bytes_ok buf = true -> len buf = 1228 -> n <= len buf ->
  run buf (artnet_handle n st) <> Hazard OutOfFuel.
Proof. intros buf n st Hb Hl Hn. apply (bounded_no_hazard n); auto. apply artnet_bounded. unfold AN_PACKET_SIZE. lia. Qed.
Print Assumptions c06_artnet_terminates.

Theorem c06_artnet_no_div0 : forall buf n st,
  bytes_ok buf = true -> len buf = 1228 -> n <= len buf ->
  run buf (artnet_handle n st) <> Hazard Div0 /\ AN_UID_SIZE <> 0.
Proof.
  intros buf n st Hb Hl Hn. split; [|discriminate].
  apply (bounded_no_hazard n); auto. apply artnet_bounded. unfold AN_PACKET_SIZE. lia.
Qed.
Print Assumptions c06_artnet_no_div0.

(* outputs and next state do not depend on what follows the datagram in the receive buffer *)
Theorem c06_artnet_stale_free : forall d t1 t2 st,
  bytes_ok d = true -> len d + len t1 = 1228 -> len t2 = len t1 ->
  run (d ++ t1) (artnet_handle (len d) st) = run (d ++ t2) (artnet_handle (len d) st).
Proof.
  intros d t1 t2 st Hb Hl _. apply bounded_stale_free; auto. apply artnet_bounded.
  unfold AN_PACKET_SIZE. lia.
Qed.
Print Assumptions c06_artnet_stale_free.

(* an ArtDmx for universe 0x23 on net 4 carrying 3 slots, then stale bytes: accepted, buffer replaced *)
Example ex_artnet_handled :
  run ([65; 114; 116; 45; 78; 101; 116; 0; 0; 80] ++ [0; 14; 0; 1; 35; 4; 0; 3] ++ [7; 8; 9] ++ repeat 165 1207)
      (artnet_handle 21 (mk_an_state 4 35 37 None [] false true 256 None))
  = Done (mk_an_state 4 35 37 (Some [7; 8; 9]) [] false true 256 None, [EvData 0]).
Proof. vm_compute. reflexivity. Qed.

(* ---------------------------------------------------------------- ESP Net
   Receive buffer: the espnet_packet_union_t on SocketReady's stack (521 bytes).  n = bytes received,
   self = the datagram came from our own address, st = the registered handlers (any universes, any buffers). *)
Theorem c06_espnet_layout :
  (ES_PACKET_SIZE, ES_HEAD_SIZE, ES_POLL_SIZE, ES_REPLY_SIZE, ES_ACK_SIZE, ES_DATA_SIZE, ES_DATA_HEADER, ES_OFF_data) =
  (521, 4, 5, 33, 6, 521, 9, 9).
Proof. reflexivity. Qed.
Print Assumptions c06_espnet_layout.

Theorem c06_espnet_no_oob : forall buf n self st,
  bytes_ok buf = true -> len buf = 521 -> n <= len buf ->
  run buf (es_handle n self st) <> Hazard Oob.
Proof. intros buf n self st Hb Hl Hn. apply (bounded_no_hazard n); auto. apply espnet_bounded. unfold ES_PACKET_SIZE. lia. Qed.
Print Assumptions c06_espnet_no_oob.

Theorem c06_espnet_terminates : forall buf n self st,
  bytes_ok buf = true -> len buf = 521 -> n <= len buf ->
  run buf (es_handle n self st) <> Hazard OutOfFuel.
Proof. intros buf n self st Hb Hl Hn. apply (bounded_no_hazard n); auto. apply espnet_bounded. unfold ES_PACKET_SIZE. lia. Qed.
Print Assumptions c06_espnet_terminates.

(* the ESP Net receive path contains no division *)
Theorem c06_espnet_no_div0 : forall buf n self st,
  bytes_ok buf = true -> len buf = 521 -> n <= len buf ->
  run buf (es_handle n self st) <> Hazard Div0.
Proof. intros buf n self st Hb Hl Hn. apply (bounded_no_hazard n); auto. apply espnet_bounded. unfold ES_PACKET_SIZE. lia. Qed.
Print Assumptions c06_espnet_no_div0.

(* outputs (handler buffers, closure run, packet sent) do not depend on what follows the datagram in the receive buffer *)
Theorem c06_espnet_stale_free : forall d t1 t2 self st,
  bytes_ok d = true -> len d + len t1 = 521 -> len t2 = len t1 ->
  run (d ++ t1) (es_handle (len d) self st) = run (d ++ t2) (es_handle (len d) self st).
Proof.
  intros d t1 t2 self st Hb Hl _. apply bounded_stale_free; auto. apply espnet_bounded.
  unfold ES_PACKET_SIZE. lia.
Qed.
Print Assumptions c06_espnet_stale_free.

(* an RLE data packet "ESDD" universe 0, type RLE, size 6: 7, REPEAT 3 x 9, ESCAPE 0xFE; the trailing REPEAT of a
   7-byte variant is not decoded (see ex_espnet_tail) *)
Example ex_espnet_handled :
  run ([69; 83; 68; 68; 0; 0; 4; 0; 6; 7; 254; 3; 9; 253; 254] ++ repeat 165 506)
      (es_handle 15 false [(0, Some [1; 2])])
  = Done ([(0, Some [7; 9; 9; 9; 254])], Some 0, EsTxNone).
Proof. vm_compute. reflexivity. Qed.

Example ex_espnet_tail :
  run ([69; 83; 68; 68; 0; 0; 4; 0; 7; 7; 254; 3; 9; 253; 254; 254] ++ repeat 165 505)
      (es_handle 16 false [(0, None)])
  = Done ([(0, Some ([7; 9; 9; 9; 254] ++ repeat 0 507))], Some 0, EsTxNone).
Proof. vm_compute. reflexivity. Qed.

Example ex_espnet_poll :
  run ([69; 83; 80; 80; 1] ++ repeat 165 516) (es_handle 5 false []) = Done ([], None, EsTxReply).
Proof. vm_compute. reflexivity. Qed.

(* ---------------------------------------------------------------- SandNet
   Receive buffer: the sandnet_packet on SocketReady's stack (524 bytes).  n = bytes received, self = the datagram
   came from our own address, st = the registered handlers (any (group, universe) keys, any buffers). *)
Theorem c06_sandnet_layout :
  (SA_PACKET_SIZE, SA_OPCODE_SIZE, SA_OFF_contents, SA_DMX_HEADER, SA_CDMX_HEADER, SA_OFF_dmx_dmx, SA_OFF_cdmx_dmx,
   SA_ADVERTISEMENT_SIZE) = (524, 2, 2, 3, 10, 3, 10, 235).
Proof. reflexivity. Qed.
Print Assumptions c06_sandnet_layout.

Theorem c06_sandnet_no_oob : forall buf n self st,
  bytes_ok buf = true -> len buf = 524 -> n <= len buf ->
  run buf (sa_handle n self st) <> Hazard Oob.
Proof. intros buf n self st Hb Hl Hn. apply (bounded_no_hazard n); auto. apply sandnet_bounded. unfold SA_PACKET_SIZE. lia. Qed.
Print Assumptions c06_sandnet_no_oob.

Theorem c06_sandnet_terminates : forall buf n self st,
  bytes_ok buf = true -> len buf = 524 -> n <= len buf ->
  run buf (sa_handle n self st) <> Hazard OutOfFuel.
Proof. intros buf n self st Hb Hl Hn. apply (bounded_no_hazard n); auto. apply sandnet_bounded. unfold SA_PACKET_SIZE. lia. Qed.
Print Assumptions c06_sandnet_terminates.

(* the SandNet receive path contains no division *)
Theorem c06_sandnet_no_div0 : forall buf n self st,
  bytes_ok buf = true -> len buf = 524 -> n <= len buf ->
  run buf (sa_handle n self st) <> Hazard Div0.
Proof. intros buf n self st Hb Hl Hn. apply (bounded_no_hazard n); auto. apply sandnet_bounded. unfold SA_PACKET_SIZE. lia. Qed.
Print Assumptions c06_sandnet_no_div0.

(* outputs and next state do not depend on what follows the datagram in the receive buffer *)
Theorem c06_sandnet_stale_free : forall d t1 t2 self st,
  bytes_ok d = true -> len d + len t1 = 524 -> len t2 = len t1 ->
  run (d ++ t1) (sa_handle (len d) self st) = run (d ++ t2) (sa_handle (len d) self st).
Proof.
  intros d t1 t2 self st Hb Hl _. apply bounded_stale_free; auto. apply sandnet_bounded.
  unfold SA_PACKET_SIZE. lia.
Qed.
Print Assumptions c06_sandnet_stale_free.

(* compressed DMX for group 2 universe 7: repeat 3 x 9, literal [1; 2] *)
Example ex_sandnet_handled :
  run ([10; 0; 2; 7; 0; 0; 0; 0; 0; 2; 0; 5; 131; 9; 2; 1; 2] ++ repeat 165 507)
      (sa_handle 17 false [((2, 7), None)])
  = Done ([((2, 7), Some ([9; 9; 9; 1; 2] ++ repeat 0 507))], Some (2, 7)).
Proof. vm_compute. reflexivity. Qed.

Example ex_sandnet_dmx :
  run ([3; 0; 2; 7; 1; 4; 5; 6] ++ repeat 165 516)
      (sa_handle 8 false [((2, 7), Some [1])])
  = Done ([((2, 7), Some [4; 5; 6])], Some (2, 7)).
Proof. vm_compute. reflexivity. Qed.

(* ---------------------------------------------------------------- Pathport
   Receive buffer: the pathport_packet_s on SocketReady's stack (1500 bytes).  n = bytes received,
   st = device id, source-is-us flag, our IP, sequence number, registered handlers (any universes, any buffers). *)
Theorem c06_pathport_layout :
  (PP_PACKET_SIZE, PP_HEADER_SIZE, PP_PDU_HEADER_SIZE, PP_PDU_DATA_SIZE, PP_OFF_pdu + PP_OFF_pdu_d + PP_OFF_d_data,
   PP_MAX_UNIVERSES) = (1500, 20, 4, 8, 32, 127).
Proof. reflexivity. Qed.
Print Assumptions c06_pathport_layout.

Theorem c06_pathport_no_oob : forall buf n st,
  bytes_ok buf = true -> len buf = 1500 -> n <= len buf ->
  run buf (pathport_handle n st) <> Hazard Oob.
Proof. intros buf n st Hb Hl Hn. apply (bounded_no_hazard n); auto. apply pathport_bounded. unfold PP_PACKET_SIZE. lia. Qed.
Print Assumptions c06_pathport_no_oob.

(* the universe-spanning loop of HandleDmxData ends within MAX_UNIVERSES + 2 tests of its condition *)
Theorem c06_pathport_terminates : forall buf n st,
  bytes_ok buf = true -> len buf = 1500 -> n <= len buf ->
  run buf (pathport_handle n st) <> Hazard OutOfFuel.
Proof. intros buf n st Hb Hl Hn. apply (bounded_no_hazard n); auto. apply pathport_bounded. unfold PP_PACKET_SIZE. lia. Qed.
Print Assumptions c06_pathport_terminates.

Theorem c06_pathport_no_div0 : forall buf n st,
  bytes_ok buf = true -> len buf = 1500 -> n <= len buf ->
  run buf (pathport_handle n st) <> Hazard Div0 /\ DMX_UNIVERSE_SIZE <> 0.
Proof.
  intros buf n st Hb Hl Hn. split; [|discriminate].
  apply (bounded_no_hazard n); auto. apply pathport_bounded. unfold PP_PACKET_SIZE. lia.
Qed.
Print Assumptions c06_pathport_no_div0.

(* handler buffers, closures run and the ARP reply sent do not depend on what follows the datagram in the receive buffer *)
Theorem c06_pathport_stale_free : forall d t1 t2 st,
  bytes_ok d = true -> len d + len t1 = 1500 -> len t2 = len t1 ->
  run (d ++ t1) (pathport_handle (len d) st) = run (d ++ t2) (pathport_handle (len d) st).
Proof.
  intros d t1 t2 st Hb Hl _. apply bounded_stale_free; auto. apply pathport_bounded.
  unfold PP_PACKET_SIZE. lia.
Qed.
Print Assumptions c06_pathport_stale_free.

(* a 3-slot frame at offset 511 of universe 1 lands in the handlers of universes 1 and 2 *)
Example ex_pathport_handled :
  run ([237; 1; 2; 0; 0; 9] ++ repeat 0 6 ++ [0; 0; 0; 7] ++ [255; 255; 255; 255] ++ [1; 0; 0; 11]
       ++ [1; 1; 0; 3; 0; 0; 3; 255] ++ [7; 8; 9] ++ repeat 165 1465)
      (pathport_handle 35 {| pp_dev := 5; pp_self := false; pp_ip := [10; 0; 0; 1]; pp_seq := 1;
                             pp_hs := [(1, Some (repeat 1 512)); (2, Some [4; 4; 4])] |})
  = Done ([(1, Some (repeat 1 511 ++ [7])); (2, Some [8; 9; 4])], [2; 1], None).
Proof. vm_compute. reflexivity. Qed.

Example ex_pathport_arp :
  run ([237; 1; 2; 0; 0; 9] ++ repeat 0 6 ++ [0; 0; 0; 7] ++ [0; 0; 0; 5] ++ [3; 1; 0; 0] ++ repeat 165 1476)
      (pathport_handle 24 {| pp_dev := 5; pp_self := false; pp_ip := [10; 0; 0; 1]; pp_seq := 1; pp_hs := [] |})
  = Done ([], [], Some ([237; 1; 2; 0; 0; 1] ++ repeat 0 6 ++ [0; 0; 0; 5] ++ [239; 255; 237; 255] ++ [3; 2; 0; 12]
                        ++ [0; 0; 0; 5] ++ [10; 0; 0; 1] ++ [40; 0; 0; 1])).
Proof. vm_compute. reflexivity. Qed.

(* ---------------------------------------------------------------- KiNET
   Receive buffer: `uint8_t packet[1500]` on SocketReady's stack.  The node discards every datagram without
   reading a byte of it, so these theorems are TRIVIAL (the handler program is `Ret`): they record that the
   receive path has no reads, no loop and no division; the correspondence check is what ties that to the code. *)
Theorem c06_kinet_layout : KN_PACKET_SIZE = 1500.
Proof. reflexivity. Qed.
Print Assumptions c06_kinet_layout.

Theorem c06_kinet_no_oob : forall buf n st,
  bytes_ok buf = true -> len buf = 1500 -> n <= len buf ->
  run buf (kinet_handle n st) <> Hazard Oob.
Proof. intros buf n st Hb Hl Hn. apply (bounded_no_hazard n); auto. apply kinet_bounded. unfold KN_PACKET_SIZE. lia. Qed.
Print Assumptions c06_kinet_no_oob.

Theorem c06_kinet_terminates : forall buf n st,
  bytes_ok buf = true -> len buf = 1500 -> n <= len buf ->
  run buf (kinet_handle n st) <> Hazard OutOfFuel.
Proof. intros buf n st Hb Hl Hn. apply (bounded_no_hazard n); auto. apply kinet_bounded. unfold KN_PACKET_SIZE. lia. Qed.
Print Assumptions c06_kinet_terminates.

Theorem c06_kinet_no_div0 : forall buf n st,
  bytes_ok buf = true -> len buf = 1500 -> n <= len buf ->
  run buf (kinet_handle n st) <> Hazard Div0.
Proof. intros buf n st Hb Hl Hn. apply (bounded_no_hazard n); auto. apply kinet_bounded. unfold KN_PACKET_SIZE. lia. Qed.
Print Assumptions c06_kinet_no_div0.

(* state and output after a datagram do not depend on the receive buffer at all *)
Theorem c06_kinet_stale_free : forall d t1 t2 st,
  bytes_ok d = true -> len d + len t1 = 1500 -> len t2 = len t1 ->
  run (d ++ t1) (kinet_handle (len d) st) = run (d ++ t2) (kinet_handle (len d) st).
Proof.
  intros d t1 t2 st Hb Hl _. apply bounded_stale_free; auto. apply kinet_bounded.
  unfold KN_PACKET_SIZE. lia.
Qed.
Print Assumptions c06_kinet_stale_free.

Example ex_kinet_discarded :
  run ([4; 1; 220; 74; 1; 0; 1; 1] ++ repeat 165 1492) (kinet_handle 8 {| kn_txn := 7; kn_queued := 0 |})
  = Done ({| kn_txn := 7; kn_queued := 0 |}, []).
Proof. reflexivity. Qed.
