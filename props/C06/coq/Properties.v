(* C06 - received datagrams are handled within bounds and without stale-data influence.
   ASSEMBLED by prop.py from coq/props_<proto>.v (edit those).  Only theorem statements here.
   A handler is a program over the receive buffer (Prog.v): `run buf p` executes it with plain memory
   semantics - a read below the capacity `len buf` returns the byte that is there (datagram or stale),
   a read at or beyond the capacity is the hazard Oob; loops run on fuel (hazard OutOfFuel);
   a division by zero is the hazard Div0.  buf = datagram ++ stale tail, n = received length. *)
From OlaBase Require Import Bytes.
From C06 Require Import Gen Prog Dmx GenShowNet ShowNet GenAcn Acn GenArtNet ArtNet GenEspNet EspNet GenSandNet SandNet GenPathport Pathport GenKiNet KiNet.
Local Open Scope N_scope.

(* ---------------------------------------------------------------- ShowNet
   Receive buffer: the shownet_packet on SocketReady's stack (1316 bytes).  n = bytes received,
   st = the registered handlers (any universes, any buffers).  `shownet_handle` models the code as it
   is, which computes the received-data size with sizeof of a pointer (known finding
   C06-shownet-sizeof-pointer; ShowNetNodeTest depends on the lenient bound, so the tree is not fixed):
   the no-Oob and stale-free clauses are REFUTED for it and proved only for the (datagram, state) pairs
   on which the handler reads nothing at or beyond the received length (`sn_within`).  Termination
   and absence of division by zero hold for every datagram.  `shownet_handle_fixed` is the handler
   with the proposed (unapplied) fix: for it all clauses are proved. *)
Theorem c06_shownet_layout :
  (SN_PACKET_SIZE, SN_HEADER_SIZE, SN_COMPRESSED_SIZE, SN_COMPRESSED_DATA_LENGTH, SN_OFF_data, SN_PTR_SIZE) =
  (1316, 6, 1310, 1269, 41, 8).
Proof. reflexivity. Qed.
Print Assumptions c06_shownet_layout.

(* every constant the shownet model takes from the repository (sizeof / offsetof of the packed wire structs, opcodes,
   vectors, masks), regenerated into GenShowNet.v on each run, pinned to the value the proofs and statements were written
   for: a change of the wire layout or of a constant in /repo breaks this obligation deterministically *)
Theorem c06_shownet_consts :
  SN_PACKET_SIZE = 1316 /\
  SN_HEADER_SIZE = 6 /\
  SN_COMPRESSED_SIZE = 1310 /\
  SN_COMPRESSED_DATA_LENGTH = 1269 /\
  SN_OFF_type = 0 /\
  SN_OFF_netSlot = 0 /\
  SN_OFF_slotSize = 8 /\
  SN_OFF_indexBlock = 16 /\
  SN_OFF_data = 41 /\
  SN_MAGIC_INDEX_OFFSET = 11 /\
  SN_COMPRESSED_DMX_PACKET = 32911 /\
  SN_PTR_SIZE = 8 /\
  DMX_UNIVERSE_SIZE = 512 /\
  REPEAT_FLAG = 128.
Proof. repeat split; reflexivity. Qed.
Print Assumptions c06_shownet_consts.

Theorem c06_shownet_terminates : forall buf n st,
  bytes_ok buf = true -> run buf (shownet_handle n st) <> Hazard OutOfFuel.
Proof. intros buf n st Hb E. pose proof (nofail_run _ (shownet_nofail n st) buf _ Hb E). discriminate. Qed.
Print Assumptions c06_shownet_terminates.

Theorem c06_shownet_no_div0 : forall buf n st,
  bytes_ok buf = true -> run buf (shownet_handle n st) <> Hazard Div0 /\ DMX_UNIVERSE_SIZE <> 0.
Proof.
  intros buf n st Hb. split; [|discriminate].
  intros E. pose proof (nofail_run _ (shownet_nofail n st) buf _ Hb E). discriminate.
Qed.
Print Assumptions c06_shownet_no_div0.

(* "never fails to return", loop by loop.  RunLengthEncoder::Decode (ShowNet, SandNet): wherever it is pointed
   (any base, any length < 2^32, any buffer) it ends within fuel = length + 1; measure: length - i, every turn
   consumes at least the flag byte *)
Theorem c06_rle_decode_returns : forall buf start base length b,
  bytes_ok buf = true -> length < 4294967296 ->
  run buf (rle_decode start base length b) <> Hazard OutOfFuel.
Proof.
  intros buf start base length b Hb Hl E.
  pose proof (nofail_run _ (rle_decode_nofail start base length b Hl) buf _ Hb E) as H. discriminate H.
Qed.
Print Assumptions c06_rle_decode_returns.

(* a full-size datagram whose raw block is data[1268..1270): one byte past the packet is read *)
Definition sn_over : list N :=
  [128; 143; 10; 0; 0; 2] ++ [1; 0] ++ repeat 0 6 ++ [2; 0] ++ repeat 0 6 ++ [255; 4; 1; 5] ++ repeat 0 6
  ++ repeat 0 15 ++ repeat 7 1269.
Theorem c06_shownet_no_oob_refuted : exists buf n st,
  bytes_ok buf = true /\ len buf = 1316 /\ n <= len buf /\ run buf (shownet_handle n st) = Hazard Oob.
Proof. exists sn_over, 1316, [(0, None)]. vm_compute. repeat split; try reflexivity. discriminate. Qed.
Print Assumptions c06_shownet_no_oob_refuted.

(* a 49-byte datagram that claims a 4-byte raw block: two of the four slots come from the stale tail *)
Definition sn_short : list N :=
  [128; 143; 10; 0; 0; 2] ++ [1; 0] ++ repeat 0 6 ++ [4; 0] ++ repeat 0 6 ++ [11; 0; 15; 0] ++ repeat 0 6
  ++ repeat 0 15 ++ [1; 2].
Theorem c06_shownet_stale_free_refuted : exists d t1 t2 st,
  bytes_ok d = true /\ len d + len t1 = 1316 /\ len t2 = len t1 /\
  run (d ++ t1) (shownet_handle (len d) st) <> run (d ++ t2) (shownet_handle (len d) st).
Proof.
  exists sn_short, (repeat 0 1267), (repeat 165 1267), [(0, None)].
  repeat split; try reflexivity. vm_compute. discriminate.
Qed.
Print Assumptions c06_shownet_stale_free_refuted.

(* outside the finding: when the handler, run on the datagram alone, completes (it then read nothing at or
   beyond the received length), no byte beyond the capacity is read and the result does not depend on the
   stale tail, whatever the tail is *)
Theorem c06_shownet_no_oob_partial : forall d t st,
  sn_within d st = true -> run (d ++ t) (shownet_handle (len d) st) <> Hazard Oob.
Proof.
  intros d t st H. unfold sn_within, completes in H.
  destruct (run d (shownet_handle (len d) st)) as [a|h] eqn:E; [|discriminate].
  rewrite (run_app_mono _ _ t _ E). discriminate.
Qed.
Print Assumptions c06_shownet_no_oob_partial.

Theorem c06_shownet_stale_free_partial : forall d t1 t2 st,
  sn_within d st = true ->
  run (d ++ t1) (shownet_handle (len d) st) = run (d ++ t2) (shownet_handle (len d) st).
Proof.
  intros d t1 t2 st H. unfold sn_within, completes in H.
  destruct (run d (shownet_handle (len d) st)) as [a|h] eqn:E; [|discriminate].
  rewrite (run_app_mono _ _ t1 _ E), (run_app_mono _ _ t2 _ E). reflexivity.
Qed.
Print Assumptions c06_shownet_stale_free_partial.

(* the guard, syntactically: `sn_syn d st` is a boolean over the datagram's own fields, in the handler's test
   order (n <= 6; type; indexBlock[0] received and >= 11; indexBlock[1] received; enc_len >= 1 and netSlot <> 0;
   not beyond the lenient bound n + 1255; slotSize <> 0; a handler exists; 47 + data_offset + enc_len <= n).
   It implies sn_within; conversely sn_within implies its header part `sn_hdr` (all of the above except the
   last conjunct).  The gap between the two is the data stage only: an RLE stream that stops early, or a
   SetRange that clamps its copy, may leave the unreceived part of a claimed block unread. *)
Theorem c06_shownet_guard_syntactic : forall d st,
  bytes_ok d = true -> len d <= 1316 ->
  (sn_syn d st = true -> sn_within d st = true) /\ (sn_within d st = true -> sn_hdr d st = true).
Proof. intros d st Hb Hn. split; [apply sn_syn_within|apply sn_within_hdr]; auto. Qed.
Print Assumptions c06_shownet_guard_syntactic.

Theorem c06_shownet_syntactic_partial : forall d t1 t2 st,
  bytes_ok d = true -> len d <= 1316 -> sn_syn d st = true ->
  run (d ++ t1) (shownet_handle (len d) st) <> Hazard Oob /\
  run (d ++ t1) (shownet_handle (len d) st) = run (d ++ t2) (shownet_handle (len d) st).
Proof.
  intros d t1 t2 st Hb Hn Hs. pose proof (sn_syn_within d st Hb Hn Hs) as H.
  unfold sn_within, completes in H.
  destruct (run d (shownet_handle (len d) st)) as [a|h] eqn:E; [|discriminate].
  rewrite (run_app_mono _ _ t1 _ E), (run_app_mono _ _ t2 _ E). split; [discriminate|reflexivity].
Qed.
Print Assumptions c06_shownet_syntactic_partial.

(* the handler with the proposed fix (fixes-needing-test-edit/01): all clauses, every datagram *)
Theorem c06_shownet_proposedfix_safe : forall buf n st h,
  bytes_ok buf = true -> len buf = 1316 -> n <= len buf ->
  run buf (shownet_handle_fixed n st) <> Hazard h.
Proof.
  intros buf n st h Hb Hl Hn. apply (bounded_no_hazard n); auto.
  apply shownet_fixed_bounded. unfold SN_PACKET_SIZE. lia.
Qed.
Print Assumptions c06_shownet_proposedfix_safe.

Theorem c06_shownet_proposedfix_stale_free : forall d t1 t2 st,
  bytes_ok d = true -> len d + len t1 = 1316 -> len t2 = len t1 ->
  run (d ++ t1) (shownet_handle_fixed (len d) st) = run (d ++ t2) (shownet_handle_fixed (len d) st).
Proof.
  intros d t1 t2 st Hb Hl _. apply bounded_stale_free; auto. apply shownet_fixed_bounded.
  unfold SN_PACKET_SIZE. lia.
Qed.
Print Assumptions c06_shownet_proposedfix_stale_free.

(* history level, for the code as it is: any sequence of datagrams each satisfying the state-independent syntactic
   guard `sn_all` (sn_syn for a node that has a handler for the datagram's own universe), from any handler state,
   with arbitrary stale tails: no hazard, and all outputs and the final state independent of the tails *)
Theorem c06_shownet_history_partial : forall (h1 h2 : list (unit * list N * list N)) st,
  Forall (fun x => let '(_, d, _) := x in bytes_ok d = true /\ len d <= 1316 /\ sn_all d = true) h1 ->
  Forall2 (fun x y => fst x = fst y) h1 h2 ->
  run_hist sn_step sn_next st h1 = run_hist sn_step sn_next st h2 /\
  exists r, run_hist sn_step sn_next st h1 = Done r.
Proof.
  intros h1 h2 st Hok H2. apply hist_within_stale_free; [exact H2|].
  assert (E : map fst h1 = map (fun d => (tt, d)) (map (fun x => snd (fst x)) h1)).
  { rewrite map_map. apply map_ext. intros [[[] d] t]. reflexivity. }
  rewrite E. apply sn_hist_within. apply Forall_map.
  eapply Forall_impl; [|exact Hok]. intros [[[] d] t] H. exact H.
Qed.
Print Assumptions c06_shownet_history_partial.

(* and with the proposed fix: every history *)
Theorem c06_shownet_proposedfix_history : forall (h1 h2 : list (unit * list N * list N)) st,
  Forall (fun x => let '(_, d, t) := x in bytes_ok d = true /\ bytes_ok t = true /\ len d <= 1316) h1 ->
  Forall2 (fun x y => fst x = fst y) h1 h2 ->
  (exists r, run_hist (fun (_ : unit) n s => shownet_handle_fixed n s) sn_next st h1 = Done r) /\
  run_hist (fun (_ : unit) n s => shownet_handle_fixed n s) sn_next st h1 = run_hist (fun (_ : unit) n s => shownet_handle_fixed n s) sn_next st h2.
Proof.
  intros h1 h2 st Hok H2.
  assert (Hb : forall (i : unit) n s, n <= SN_PACKET_SIZE -> bounded n (shownet_handle_fixed n s))
    by (intros; apply shownet_fixed_bounded; assumption).
  split.
  - apply (hist_safe SN_PACKET_SIZE _ _ Hb). exact Hok.
  - apply (hist_stale_free SN_PACKET_SIZE _ _ Hb); assumption.
Qed.
Print Assumptions c06_shownet_proposedfix_history.

(* the proposed fix changes nothing for traffic inside the guard: same outputs, same next state *)
Theorem c06_shownet_fix_compatible : forall d t st,
  bytes_ok d = true -> len d <= 1316 -> sn_syn d st = true ->
  run (d ++ t) (shownet_handle_fixed (len d) st) = run (d ++ t) (shownet_handle (len d) st).
Proof.
  intros d t st Hb Hn Hs. pose proof (sn_syn_within d st Hb Hn Hs) as Hw.
  pose proof (sn_fix_compat_alone d st Hb Hn Hs) as Hc.
  unfold sn_within, completes in Hw.
  destruct (run d (shownet_handle (len d) st)) as [r|z] eqn:E; [|discriminate].
  rewrite (run_app_mono _ _ t _ E), (run_app_mono _ _ t _ Hc). reflexivity.
Qed.
Print Assumptions c06_shownet_fix_compatible.

(* the guard is satisfiable by an accepted datagram; the two witnesses are outside it *)
Definition sn_good : list N :=
  [128; 143; 10; 0; 0; 2] ++ [1; 0] ++ repeat 0 6 ++ [4; 0] ++ repeat 0 6 ++ [11; 0; 13; 0] ++ repeat 0 6
  ++ repeat 0 15 ++ [131; 9].
Example ex_shownet_handled :
  sn_within sn_good [(0, None)] = true /\
  run (sn_good ++ repeat 165 1267) (shownet_handle 49 [(0, None)])
  = Done ([(0, Some ([9; 9; 9] ++ repeat 0 509))], Some 0).
Proof. vm_compute. split; reflexivity. Qed.
Example ex_shownet_outside : sn_within sn_short [(0, None)] = false /\ sn_within sn_over [(0, None)] = false.
Proof. vm_compute. split; reflexivity. Qed.
Example ex_shownet_all : sn_all sn_good = true /\ sn_all sn_short = false.
Proof. vm_compute. split; reflexivity. Qed.
Example ex_shownet_syn : sn_syn sn_good [(0, None)] = true /\ sn_syn sn_short [(0, None)] = false /\
  sn_hdr sn_short [(0, None)] = true /\ sn_syn sn_over [(0, None)] = false.
Proof. vm_compute. repeat split; reflexivity. Qed.

(* a two-datagram history inside the guard: both accepted, the second overwrites slot 0-2 again; stale tails differ *)
Example ex_shownet_history :
  Forall (fun x => let '(_, d, _) := x in bytes_ok d = true /\ len d <= 1316 /\ sn_all d = true)
         [(tt, sn_good, repeat 0 1267); (tt, sn_good, repeat 165 1267)] /\
  run_hist sn_step sn_next [(0, None)] [(tt, sn_good, repeat 0 1267); (tt, sn_good, repeat 165 1267)]
  = Done ([(0, Some ([9; 9; 9] ++ repeat 0 509))],
          [([(0, Some ([9; 9; 9] ++ repeat 0 509))], Some 0); ([(0, Some ([9; 9; 9] ++ repeat 0 509))], Some 0)]).
Proof.
  split; [|vm_compute; reflexivity].
  repeat (apply Forall_cons; [vm_compute; repeat split; try reflexivity; discriminate|]). apply Forall_nil.
Qed.

(* ---------------------------------------------------------------- E1.31 / ACN
   Receive buffer: IncomingUDPTransport::m_recv_buffer (1472 bytes).  n = bytes received, hs = the universe
   handlers of DMPE131Inflator with their tracked sources (any), ign = ignore_preview. *)
Theorem c06_acn_layout :
  (ACN_MAX_DATAGRAM, ACN_HEADER_SIZE, CID_LENGTH, E131_HEADER_SIZE, REV2_HEADER_SIZE, DMP_HEADER_SIZE,
   ROOT_VECTOR_SIZE, E131_VECTOR_SIZE, DMP_VECTOR_SIZE) =
  (1472, 16, 16, 71, 36, 1, 4, 4, 1).
Proof. reflexivity. Qed.
Print Assumptions c06_acn_layout.

(* every constant the acn model takes from the repository (sizeof / offsetof of the packed wire structs, opcodes,
   vectors, masks), regenerated into GenAcn.v on each run, pinned to the value the proofs and statements were written
   for: a change of the wire layout or of a constant in /repo breaks this obligation deterministically *)
Theorem c06_acn_consts :
  ACN_MAX_DATAGRAM = 1472 /\
  ACN_HEADER_SIZE = 16 /\
  ACN_PRE_0 = 0 /\
  ACN_PRE_1 = 16 /\
  ACN_PRE_2 = 0 /\
  ACN_PRE_3 = 0 /\
  ACN_PRE_4 = 65 /\
  ACN_PRE_5 = 83 /\
  ACN_PRE_6 = 67 /\
  ACN_PRE_7 = 45 /\
  ACN_PRE_8 = 69 /\
  ACN_PRE_9 = 49 /\
  ACN_PRE_10 = 46 /\
  ACN_PRE_11 = 49 /\
  ACN_PRE_12 = 55 /\
  ACN_PRE_13 = 0 /\
  ACN_PRE_14 = 0 /\
  ACN_PRE_15 = 0 /\
  LFLAG_MASK = 128 /\
  LENGTH_MASK = 15 /\
  VFLAG_MASK = 64 /\
  HFLAG_MASK = 32 /\
  CID_LENGTH = 16 /\
  ROOT_VECTOR_SIZE = 4 /\
  E131_VECTOR_SIZE = 4 /\
  DMP_VECTOR_SIZE = 1 /\
  E131_HEADER_SIZE = 71 /\
  E131_OFF_priority = 64 /\
  E131_OFF_sequence = 67 /\
  E131_OFF_options = 68 /\
  E131_OFF_universe = 69 /\
  E131_PREVIEW_MASK = 128 /\
  E131_TERMINATED_MASK = 64 /\
  REV2_HEADER_SIZE = 36 /\
  REV2_OFF_priority = 32 /\
  REV2_OFF_sequence = 33 /\
  REV2_OFF_universe = 34 /\
  DMP_HEADER_SIZE = 1 /\
  DMP_VIRTUAL_MASK = 128 /\
  DMP_RELATIVE_MASK = 64 /\
  DMP_TYPE_MASK = 48 /\
  DMP_SIZE_MASK = 3 /\
  DMP_TWO_BYTES = 1 /\
  DMP_ADDR_UNIT = 2 /\
  DMP_RANGE_EQUAL = 2 /\
  VECTOR_ROOT_E131 = 4 /\
  VECTOR_ROOT_E131_REV2 = 3 /\
  VECTOR_E131_DATA = 2 /\
  VECTOR_E131_DISCOVERY = 4 /\
  DMP_SET_PROPERTY_VECTOR = 2 /\
  E131_SOURCE_NAME_LEN = 64 /\
  E131_OFF_source = 0 /\
  REV2_SOURCE_NAME_LEN = 32 /\
  REV2_OFF_source = 0 /\
  VECTOR_ROOT_RPT = 5 /\
  VECTOR_ROOT_LLRP = 10 /\
  VECTOR_FRAMING_RDMNET = 1 /\
  VECTOR_LLRP_RDM_CMD = 3 /\
  VECTOR_RDM_CMD_RDM_DATA = 204 /\
  RDM_VECTOR_SIZE = 1 /\
  E133_HEADER_SIZE = 71 /\
  E133_OFF_sequence = 64 /\
  E133_OFF_endpoint = 68 /\
  LLRP_HEADER_SIZE = 20 /\
  LLRP_OFF_transaction = 16 /\
  MAX_E131_PRIORITY = 200 /\
  MAX_MERGE_SOURCES = 6 /\
  SEQ_DIFF_THRESHOLD_NEG = 20.
Proof. repeat split; reflexivity. Qed.
Print Assumptions c06_acn_consts.

Theorem c06_acn_no_oob : forall buf ign n hs,
  bytes_ok buf = true -> len buf = 1472 -> n <= len buf ->
  run buf (acn_handle ign n hs) <> Hazard Oob.
Proof. intros buf ign n hs Hb Hl Hn. apply (bounded_no_hazard n); auto. apply acn_bounded. unfold ACN_MAX_DATAGRAM. lia. Qed.
Print Assumptions c06_acn_no_oob.

Theorem c06_acn_terminates : forall buf ign n hs,
  bytes_ok buf = true -> len buf = 1472 -> n <= len buf ->
  run buf (acn_handle ign n hs) <> Hazard OutOfFuel.
Proof. intros buf ign n hs Hb Hl Hn. apply (bounded_no_hazard n); auto. apply acn_bounded. unfold ACN_MAX_DATAGRAM. lia. Qed.
Print Assumptions c06_acn_terminates.

Theorem c06_acn_no_div0 : forall buf ign n hs,
  bytes_ok buf = true -> len buf = 1472 -> n <= len buf ->
  run buf (acn_handle ign n hs) <> Hazard Div0.
Proof. intros buf ign n hs Hb Hl Hn. apply (bounded_no_hazard n); auto. apply acn_bounded. unfold ACN_MAX_DATAGRAM. lia. Qed.
Print Assumptions c06_acn_no_div0.

(* outputs and next state do not depend on what follows the datagram in the receive buffer *)
Theorem c06_acn_stale_free : forall d t1 t2 ign hs,
  bytes_ok d = true -> len d + len t1 = 1472 -> len t2 = len t1 ->
  run (d ++ t1) (acn_handle ign (len d) hs) = run (d ++ t2) (acn_handle ign (len d) hs).
Proof.
  intros d t1 t2 ign hs Hb Hl _. apply bounded_stale_free; auto. apply acn_bounded.
  unfold ACN_MAX_DATAGRAM. lia.
Qed.
Print Assumptions c06_acn_stale_free.

(* "never fails to return": the PDU block walkers (BaseInflator::InflatePDUBlock at the root, E1.31, E1.31 rev2,
   DMP, E1.33, LLRP and RDM levels, nested) and the discovery page walk, for a block at any offset and of any
   length: fuel = block length + 1; measure: length - offset, every PDU advances the offset by at least the two
   bytes of its length field (a PDU shorter than its own length field ends the walk) *)
Theorem c06_acn_walkers_return : forall buf ign cid src off l st z,
  bytes_ok buf = true -> z <> Oob ->
  run buf (root_block ign off l st) <> Hazard z /\ run buf (e131_block ign cid off l st) <> Hazard z /\
  run buf (rev2_block ign cid off l st) <> Hazard z /\ run buf (e133_block off l st) <> Hazard z /\
  run buf (llrp_block off l st) <> Hazard z /\ run buf (disc_handle cid src off l st) <> Hazard z.
Proof.
  intros buf ign cid src off l st z Hb Hz.
  repeat split; intros E; apply Hz.
  - exact (nofail_run _ (bounded_nofail _ _ (root_block_bounded (off + l) ign off l st (N.le_refl _))) buf z Hb E).
  - exact (nofail_run _ (bounded_nofail _ _ (e131_block_bounded (off + l) ign cid off l st (N.le_refl _))) buf z Hb E).
  - exact (nofail_run _ (bounded_nofail _ _ (rev2_block_bounded (off + l) ign cid off l st (N.le_refl _))) buf z Hb E).
  - exact (nofail_run _ (bounded_nofail _ _ (e133_block_bounded (off + l) off l st (N.le_refl _))) buf z Hb E).
  - exact (nofail_run _ (bounded_nofail _ _ (llrp_block_bounded (off + l) off l st (N.le_refl _))) buf z Hb E).
  - exact (nofail_run _ (bounded_nofail _ _ (disc_handle_bounded (off + l) cid src off l st (N.le_refl _))) buf z Hb E).
Qed.
Print Assumptions c06_acn_walkers_return.

(* DecodeAddress (libs/acn/DMPAddress.cpp) for the only combination a received datagram can reach
   (DMPE131Inflator::HandlePDUData returns unless Size() == TWO_BYTES && Type() == RANGE_EQUAL): on a buffer of any
   size holding n bytes it reads nothing at or beyond n.  For this combination the code as it is and the proposed
   fix coincide (`decode_address` differs from the unchanged code only for NON_RANGE two-/four-byte addresses). *)
Theorem c06_acn_decode_address : forall buf n z,
  bytes_ok buf = true -> n <= len buf -> run buf (decode_address DMP_TWO_BYTES DMP_RANGE_EQUAL n) <> Hazard z.
Proof. intros buf n z Hb Hn. apply (bounded_no_hazard n); auto. apply decode_address_bounded. Qed.
Print Assumptions c06_acn_decode_address.

(* with the proposed, UNAPPLIED fix (fixes-optional-not-applied/03: NON_RANGE copies one field, not three) the same
   holds for every address size and type; in the unchanged tree NON_RANGE two-/four-byte addresses read 6 / 12 bytes
   after checking 2 / 4 - a latent defect of the library function that no received datagram can reach *)
Theorem c06_acn_decode_address_proposedfix : forall buf size typ n z,
  bytes_ok buf = true -> n <= len buf -> run buf (decode_address size typ n) <> Hazard z.
Proof. intros buf size typ n z Hb Hn. apply (bounded_no_hazard n); auto. apply decode_address_bounded. Qed.
Print Assumptions c06_acn_decode_address_proposedfix.

(* IncomingUDPTransport::Receive accepts exactly one preamble: a datagram whose first 16 bytes differ from
   PreamblePacker::ACN_HEADER in ANY byte - the preamble-size / post-amble-size fields included - is discarded
   without a callback or a state change, whatever follows *)
Theorem c06_acn_preamble_strict : forall buf ign n hs,
  n <= len buf -> list_eqb (slice buf 0 ACN_HEADER_SIZE) ACN_PREAMBLE = false ->
  run buf (acn_handle ign n hs) = Done (hs, []).
Proof.
  intros buf ign n hs Hn Hp. unfold acn_handle. cbv zeta.
  destruct (n <? ACN_HEADER_SIZE) eqn:E; [reflexivity|]. apply N.ltb_ge in E.
  cbn [run]. change (ACN_HEADER_SIZE =? 0) with false. cbv iota.
  destruct (0 + ACN_HEADER_SIZE <=? len buf) eqn:E2; [|apply N.leb_gt in E2; lia].
  rewrite Hp. reflexivity.
Qed.
Print Assumptions c06_acn_preamble_strict.

(* independent of the capacity and of what the socket layer reports: for a receive buffer of ANY size and ANY reported
   length n < 2^31 the handler returns (its loops end within their fuel: PDU block walks: fuel = block length + 1, each PDU advances the offset by at least its 2-byte length field; discovery page walk: 2 bytes per turn) and never divides by zero; and if
   the buffer does hold n bytes it reads nothing at or beyond n *)
Theorem c06_acn_any_length : forall buf n ign hs,
  bytes_ok buf = true -> n <= 2147483647 ->
  (forall z, z <> Oob -> run buf (acn_handle ign n hs) <> Hazard z) /\
  (n <= len buf -> forall z, run buf (acn_handle ign n hs) <> Hazard z).
Proof.
  intros buf n ign hs Hb Hn. pose proof (acn_bounded_any ign n hs Hn) as B. split.
  - intros z Hz E. apply Hz. exact (nofail_run _ (bounded_nofail _ _ B) buf z Hb E).
  - intros Hl z. apply (bounded_no_hazard n); assumption.
Qed.
Print Assumptions c06_acn_any_length.

(* history level: any sequence of datagrams (with the node's ignore-preview setting), each followed in the receive buffer by arbitrary stale bytes, from any
   initial state: no datagram ends in a hazard, and every output and the final state are the same whatever the
   stale tails are *)
Theorem c06_acn_history : forall (h1 h2 : list (bool * list N * list N)) s,
  Forall (fun x => let '(_, d, t) := x in bytes_ok d = true /\ bytes_ok t = true /\ len d <= 1472) h1 ->
  Forall2 (fun x y => fst x = fst y) h1 h2 ->
  (exists r, run_hist (fun ign n hs => acn_handle ign n hs) (fun _ r => fst r) s h1 = Done r) /\
  run_hist (fun ign n hs => acn_handle ign n hs) (fun _ r => fst r) s h1 = run_hist (fun ign n hs => acn_handle ign n hs) (fun _ r => fst r) s h2.
Proof.
  intros h1 h2 s Hok H2.
  assert (Hb : forall i n st, n <= ACN_MAX_DATAGRAM -> bounded n ((fun ign n hs => acn_handle ign n hs) i n st)) by (intros; apply acn_bounded; assumption).
  split.
  - apply (hist_safe ACN_MAX_DATAGRAM _ _ Hb). exact Hok.
  - apply (hist_stale_free ACN_MAX_DATAGRAM _ _ Hb); assumption.
Qed.
Print Assumptions c06_acn_history.

Example ex_acn_data_handled :
  run ([0; 16; 0; 0; 65; 83; 67; 45; 69; 49; 46; 49; 55; 0; 0; 0; 112; 113; 0; 0; 0; 4; 17; 17; 17; 17; 17; 17; 17; 17; 17; 17; 17; 17; 17; 17; 17; 1; 112; 91; 0; 0; 0; 2; 115; 111; 117; 114; 99; 101; 0; 0; 0; 0; 0; 0; 0; 0; 0; 0; 0; 0; 0; 0; 0; 0; 0; 0; 0; 0; 0; 0; 0; 0; 0; 0; 0; 0; 0; 0; 0; 0; 0; 0; 0; 0; 0; 0; 0; 0; 0; 0; 0; 0; 0; 0; 0; 0; 0; 0; 0; 0; 0; 0; 0; 0; 0; 0; 100; 0; 0; 7; 0; 0; 1; 112; 14; 2; 161; 0; 0; 0; 1; 0; 4; 0; 9; 8; 7] ++ repeat 165 1343)
      (acn_handle false 129 [mk_uh 1 None 0 []])
  = Done ([mk_uh 1 (Some [9; 8; 7]) 100 [mk_src [17; 17; 17; 17; 17; 17; 17; 17; 17; 17; 17; 17; 17; 17; 17; 1] 7 (Some [9; 8; 7])]], [AcnEvData 1; EvSrc [115; 111; 117; 114; 99; 101]]).
Proof. vm_compute. reflexivity. Qed.

Example ex_acn_discovery_handled :
  run ([0; 16; 0; 0; 65; 83; 67; 45; 69; 49; 46; 49; 55; 0; 0; 0; 112; 105; 0; 0; 0; 4; 18; 18; 18; 18; 18; 18; 18; 18; 18; 18; 18; 18; 18; 18; 18; 2; 112; 83; 0; 0; 0; 4; 115; 111; 117; 114; 99; 101; 0; 0; 0; 0; 0; 0; 0; 0; 0; 0; 0; 0; 0; 0; 0; 0; 0; 0; 0; 0; 0; 0; 0; 0; 0; 0; 0; 0; 0; 0; 0; 0; 0; 0; 0; 0; 0; 0; 0; 0; 0; 0; 0; 0; 0; 0; 0; 0; 0; 0; 0; 0; 0; 0; 0; 0; 0; 0; 50; 0; 0; 179; 0; 0; 1; 0; 0; 1; 2; 0; 3] ++ repeat 165 1351)
      (acn_handle false 121 [])
  = Done ([], [EvPage [18; 18; 18; 18; 18; 18; 18; 18; 18; 18; 18; 18; 18; 18; 18; 2] 0 0 [258; 3]; EvSrc [115; 111; 117; 114; 99; 101]]).
Proof. vm_compute. reflexivity. Qed.

(* the E1.33 (RPT) and LLRP header decoders accept a well-formed packet (they are added to the root inflator by the
   harness; olad's E131Node does not register them) *)
Definition acn_e133_pkt : list N := [0; 16; 0; 0; 65; 83; 67; 45; 69; 49; 46; 49; 55; 0; 0; 0; 112; 105; 0; 0; 0; 5; 17; 17; 17; 17; 17; 17; 17; 17; 17; 17; 17; 17; 17; 17; 17; 1; 112; 83; 0; 0; 0; 1; 114; 112; 116; 45; 115; 111; 117; 114; 99; 101; 0; 0; 0; 0; 0; 0; 0; 0; 0; 0; 0; 0; 0; 0; 0; 0; 0; 0; 0; 0; 0; 0; 0; 0; 0; 0; 0; 0; 0; 0; 0; 0; 0; 0; 0; 0; 0; 0; 0; 0; 0; 0; 0; 0; 0; 0; 0; 0; 0; 0; 0; 0; 0; 0; 215; 33; 13; 255; 127; 131; 0; 112; 6; 204; 130; 183; 14].
Example ex_acn_e133 : match run (acn_e133_pkt ++ repeat 165 1351) (acn_handle false 121 []) with
  | Done (_, [EvRdm133 _ _ d]) => d = [130; 183; 14] | _ => False end.
Proof. vm_compute. reflexivity. Qed.

Definition acn_llrp_pkt : list N := [0; 16; 0; 0; 65; 83; 67; 45; 69; 49; 46; 49; 55; 0; 0; 0; 112; 54; 0; 0; 0; 10; 17; 17; 17; 17; 17; 17; 17; 17; 17; 17; 17; 17; 17; 17; 17; 1; 112; 32; 0; 0; 0; 3; 19; 19; 19; 19; 19; 19; 19; 19; 19; 19; 19; 19; 19; 19; 19; 3; 63; 31; 101; 168; 112; 6; 204; 26; 80; 57].
Example ex_acn_llrp : match run (acn_llrp_pkt ++ repeat 165 1402) (acn_handle false 70 []) with
  | Done (_, [EvLlrp _ _ d]) => d = [26; 80; 57] | _ => False end.
Proof. vm_compute. reflexivity. Qed.

(* ---------------------------------------------------------------- Art-Net
   Receive buffer: the artnet_packet on SocketReady's stack (1228 bytes).  n = bytes received,
   st = net address, port addresses of output ports 0, 1 / input port 0, the DMX buffers, the known UIDs,
   subscription and reply-on-change flags (any values). *)
Theorem c06_artnet_layout :
  (AN_PACKET_SIZE, AN_HEADER_SIZE, AN_DMX_HDR, AN_TRQ_HDR, AN_TD_HDR, AN_TC_SIZE, AN_RDM_HDR, AN_REPLY_MIN, AN_UID_SIZE) =
  (1228, 10, 8, 14, 18, 14, 14, 197, 6).
Proof. reflexivity. Qed.
Print Assumptions c06_artnet_layout.

(* every constant the artnet model takes from the repository (sizeof / offsetof of the packed wire structs, opcodes,
   vectors, masks), regenerated into GenArtNet.v on each run, pinned to the value the proofs and statements were written
   for: a change of the wire layout or of a constant in /repo breaks this obligation deterministically *)
Theorem c06_artnet_consts :
  AN_PACKET_SIZE = 1228 /\
  AN_HEADER_SIZE = 10 /\
  AN_OFF_op_code = 8 /\
  AN_MAX_PORTS = 4 /\
  AN_VERSION = 14 /\
  AN_RDM_VERSION = 1 /\
  AN_TOD_FLUSH_COMMAND = 1 /\
  AN_MAX_RDM_ADDRESS_COUNT = 32 /\
  AN_UID_SIZE = 6 /\
  AN_OP_POLL = 8192 /\
  AN_OP_REPLY = 8448 /\
  AN_OP_DMX = 20480 /\
  AN_OP_SYNC = 20992 /\
  AN_OP_TODREQUEST = 32768 /\
  AN_OP_TODDATA = 33024 /\
  AN_OP_TODCONTROL = 33280 /\
  AN_OP_RDM = 33536 /\
  AN_OP_RDM_SUB = 33792 /\
  AN_OP_TIME_CODE = 38656 /\
  AN_OP_IP_PROGRAM = 63488 /\
  AN_POLL_SIZE = 4 /\
  AN_POLL_version = 0 /\
  AN_POLL_talk_to_me = 2 /\
  AN_REPLY_MIN = 197 /\
  AN_REPLY_net_address = 8 /\
  AN_REPLY_number_ports = 162 /\
  AN_REPLY_port_types = 164 /\
  AN_REPLY_sw_out = 180 /\
  AN_DMX_HDR = 8 /\
  AN_DMX_version = 0 /\
  AN_DMX_universe = 4 /\
  AN_DMX_net = 5 /\
  AN_DMX_length = 6 /\
  AN_DMX_data = 8 /\
  AN_TRQ_HDR = 14 /\
  AN_TRQ_version = 0 /\
  AN_TRQ_net = 11 /\
  AN_TRQ_command = 12 /\
  AN_TRQ_address_count = 13 /\
  AN_TRQ_addresses = 14 /\
  AN_TD_HDR = 18 /\
  AN_TD_version = 0 /\
  AN_TD_rdm_version = 2 /\
  AN_TD_net = 11 /\
  AN_TD_command_response = 12 /\
  AN_TD_address = 13 /\
  AN_TD_uid_total = 14 /\
  AN_TD_uid_count = 17 /\
  AN_TD_tod = 18 /\
  AN_TC_SIZE = 14 /\
  AN_TC_version = 0 /\
  AN_TC_net = 11 /\
  AN_TC_command = 12 /\
  AN_TC_address = 13 /\
  AN_RDM_HDR = 14 /\
  AN_RDM_version = 0 /\
  AN_RDM_rdm_version = 2 /\
  AN_RDM_net = 11 /\
  AN_RDM_command = 12 /\
  AN_RDM_address = 13 /\
  AN_RDM_data = 14 /\
  AN_IP_SIZE = 24 /\
  AN_IP_version = 0 /\
  AN_REPLY_TX_SIZE = 239 /\
  RDMH_SIZE = 23 /\
  RDMH_sub_start_code = 0 /\
  RDMH_message_length = 1 /\
  RDMH_destination_uid = 2 /\
  RDMH_command_class = 19 /\
  RDMH_param_data_length = 22 /\
  RDM_START_CODE = 204 /\
  RDM_SUB_START_CODE = 1 /\
  RDM_CC_DISCOVER = 16 /\
  RDM_CC_GET = 32 /\
  RDM_CC_SET = 48.
Proof. repeat split; reflexivity. Qed.
Print Assumptions c06_artnet_consts.

Theorem c06_artnet_no_oob : forall buf n st,
  bytes_ok buf = true -> len buf = 1228 -> n <= len buf ->
  run buf (artnet_handle n st) <> Hazard Oob.
Proof. intros buf n st Hb Hl Hn. apply (bounded_no_hazard n); auto. apply artnet_bounded. unfold AN_PACKET_SIZE. lia. Qed.
Print Assumptions c06_artnet_no_oob.

Theorem c06_artnet_terminates : forall buf n st,
  bytes_ok buf = true -> len buf = 1228 -> n <= len buf ->
  run buf (artnet_handle n st) <> Hazard OutOfFuel.
Proof. intros buf n st Hb Hl Hn. apply (bounded_no_hazard n); auto. apply artnet_bounded. unfold AN_PACKET_SIZE. lia. Qed.
Print Assumptions c06_artnet_terminates.

Theorem c06_artnet_no_div0 : forall buf n st,
  bytes_ok buf = true -> len buf = 1228 -> n <= len buf ->
  run buf (artnet_handle n st) <> Hazard Div0 /\ AN_UID_SIZE <> 0.
Proof.
  intros buf n st Hb Hl Hn. split; [|discriminate].
  apply (bounded_no_hazard n); auto. apply artnet_bounded. unfold AN_PACKET_SIZE. lia.
Qed.
Print Assumptions c06_artnet_no_div0.

(* outputs and next state do not depend on what follows the datagram in the receive buffer *)
Theorem c06_artnet_stale_free : forall d t1 t2 st,
  bytes_ok d = true -> len d + len t1 = 1228 -> len t2 = len t1 ->
  run (d ++ t1) (artnet_handle (len d) st) = run (d ++ t2) (artnet_handle (len d) st).
Proof.
  intros d t1 t2 st Hb Hl _. apply bounded_stale_free; auto. apply artnet_bounded.
  unfold AN_PACKET_SIZE. lia.
Qed.
Print Assumptions c06_artnet_stale_free.

(* independent of the capacity and of what the socket layer reports: for a receive buffer of ANY size and ANY reported
   length n < 2^31 the handler returns (its loops end within their fuel: port / address / UID loops: fuel = the clamped count) and never divides by zero; and if
   the buffer does hold n bytes it reads nothing at or beyond n *)
Theorem c06_artnet_any_length : forall buf n st,
  bytes_ok buf = true -> n <= 2147483647 ->
  (forall z, z <> Oob -> run buf (artnet_handle n st) <> Hazard z) /\
  (n <= len buf -> forall z, run buf (artnet_handle n st) <> Hazard z).
Proof.
  intros buf n st Hb Hn. pose proof (artnet_bounded_any n st Hn) as B. split.
  - intros z Hz E. apply Hz. exact (nofail_run _ (bounded_nofail _ _ B) buf z Hb E).
  - intros Hl z. apply (bounded_no_hazard n); assumption.
Qed.
Print Assumptions c06_artnet_any_length.

(* history level: any sequence of datagrams (each with its sender's address), each followed in the receive buffer by arbitrary stale bytes, from any
   initial state: no datagram ends in a hazard, and every output and the final state are the same whatever the
   stale tails are *)
Theorem c06_artnet_history : forall (h1 h2 : list (N * list N * list N)) s,
  Forall (fun x => let '(_, d, t) := x in bytes_ok d = true /\ bytes_ok t = true /\ len d <= 1228) h1 ->
  Forall2 (fun x y => fst x = fst y) h1 h2 ->
  (exists r, run_hist (fun from n st => artnet_handle n (set_from st from)) (fun _ r => fst r) s h1 = Done r) /\
  run_hist (fun from n st => artnet_handle n (set_from st from)) (fun _ r => fst r) s h1 = run_hist (fun from n st => artnet_handle n (set_from st from)) (fun _ r => fst r) s h2.
Proof.
  intros h1 h2 s Hok H2.
  assert (Hb : forall i n st, n <= AN_PACKET_SIZE -> bounded n ((fun from n st => artnet_handle n (set_from st from)) i n st)) by (intros; apply artnet_bounded; assumption).
  split.
  - apply (hist_safe AN_PACKET_SIZE _ _ Hb). exact Hok.
  - apply (hist_stale_free AN_PACKET_SIZE _ _ Hb); assumption.
Qed.
Print Assumptions c06_artnet_history.

(* an ArtDmx for universe 0x23 on net 4 carrying 3 slots, then stale bytes: accepted, buffer replaced *)
Example ex_artnet_handled :
  run ([65; 114; 116; 45; 78; 101; 116; 0; 0; 80] ++ [0; 14; 0; 1; 35; 4; 0; 3] ++ [7; 8; 9] ++ repeat 165 1207)
      (artnet_handle 21 (mk_an_state 4 35 37 None [] false true 256 None 2 false (None, None) (None, None) None))
  = Done (mk_an_state 4 35 37 (Some [7; 8; 9]) [] false true 256 None 2 false (Some (2, Some [7; 8; 9]), None) (None, None) None, [EvData 0]).
Proof. vm_compute. reflexivity. Qed.

(* ---------------------------------------------------------------- ESP Net
   Receive buffer: the espnet_packet_union_t on SocketReady's stack (521 bytes).  n = bytes received,
   self = the datagram came from our own address, st = the registered handlers (any universes, any buffers). *)
Theorem c06_espnet_layout :
  (ES_PACKET_SIZE, ES_HEAD_SIZE, ES_POLL_SIZE, ES_REPLY_SIZE, ES_ACK_SIZE, ES_DATA_SIZE, ES_DATA_HEADER, ES_OFF_data) =
  (521, 4, 5, 33, 6, 521, 9, 9).
Proof. reflexivity. Qed.
Print Assumptions c06_espnet_layout.

(* every constant the espnet model takes from the repository (sizeof / offsetof of the packed wire structs, opcodes,
   vectors, masks), regenerated into GenEspNet.v on each run, pinned to the value the proofs and statements were written
   for: a change of the wire layout or of a constant in /repo breaks this obligation deterministically *)
Theorem c06_espnet_consts :
  ES_PACKET_SIZE = 521 /\
  ES_HEAD_SIZE = 4 /\
  ES_POLL_SIZE = 5 /\
  ES_REPLY_SIZE = 33 /\
  ES_ACK_SIZE = 6 /\
  ES_DATA_SIZE = 521 /\
  ES_OFF_poll_type = 4 /\
  ES_OFF_universe = 4 /\
  ES_OFF_type = 6 /\
  ES_OFF_size = 7 /\
  ES_OFF_data = 9 /\
  ES_POLL = 1163087952 /\
  ES_REPLY = 1163087954 /\
  ES_DMX = 1163084868 /\
  ES_ACK = 1163084112 /\
  ES_DATA_RAW = 1 /\
  ES_DATA_PAIRS = 2 /\
  ES_DATA_RLE = 4 /\
  ES_REPEAT_VALUE = 254 /\
  ES_ESCAPE_VALUE = 253.
Proof. repeat split; reflexivity. Qed.
Print Assumptions c06_espnet_consts.

Theorem c06_espnet_no_oob : forall buf n self st,
  bytes_ok buf = true -> len buf = 521 -> n <= len buf ->
  run buf (es_handle n self st) <> Hazard Oob.
Proof. intros buf n self st Hb Hl Hn. apply (bounded_no_hazard n); auto. apply espnet_bounded. unfold ES_PACKET_SIZE. lia. Qed.
Print Assumptions c06_espnet_no_oob.

Theorem c06_espnet_terminates : forall buf n self st,
  bytes_ok buf = true -> len buf = 521 -> n <= len buf ->
  run buf (es_handle n self st) <> Hazard OutOfFuel.
Proof. intros buf n self st Hb Hl Hn. apply (bounded_no_hazard n); auto. apply espnet_bounded. unfold ES_PACKET_SIZE. lia. Qed.
Print Assumptions c06_espnet_terminates.

(* the ESP Net receive path contains no division *)
Theorem c06_espnet_no_div0 : forall buf n self st,
  bytes_ok buf = true -> len buf = 521 -> n <= len buf ->
  run buf (es_handle n self st) <> Hazard Div0.
Proof. intros buf n self st Hb Hl Hn. apply (bounded_no_hazard n); auto. apply espnet_bounded. unfold ES_PACKET_SIZE. lia. Qed.
Print Assumptions c06_espnet_no_div0.

(* outputs (handler buffers, closure run, packet sent) do not depend on what follows the datagram in the receive buffer *)
Theorem c06_espnet_stale_free : forall d t1 t2 self st,
  bytes_ok d = true -> len d + len t1 = 521 -> len t2 = len t1 ->
  run (d ++ t1) (es_handle (len d) self st) = run (d ++ t2) (es_handle (len d) self st).
Proof.
  intros d t1 t2 self st Hb Hl _. apply bounded_stale_free; auto. apply espnet_bounded.
  unfold ES_PACKET_SIZE. lia.
Qed.
Print Assumptions c06_espnet_stale_free.

(* "never fails to return": espnet RunLengthDecoder::Decode, wherever it is pointed, ends within
   fuel = length + 1; measure: length - p, every turn consumes at least one byte *)
Theorem c06_espnet_rle_returns : forall buf base length b z,
  bytes_ok buf = true -> z <> Oob -> run buf (es_rle_decode base length b) <> Hazard z.
Proof.
  intros buf base length b z Hb Hz E. apply Hz.
  exact (nofail_run _ (bounded_nofail _ _ (es_rle_decode_bounded (base + length) base length b (N.le_refl _))) buf z Hb E).
Qed.
Print Assumptions c06_espnet_rle_returns.

(* independent of the capacity and of what the socket layer reports: for a receive buffer of ANY size and ANY reported
   length n < 2^31 the handler returns (its loops end within their fuel: RLE decoder: fuel = data length + 1, every turn consumes at least one byte) and never divides by zero; and if
   the buffer does hold n bytes it reads nothing at or beyond n *)
Theorem c06_espnet_any_length : forall buf n self st,
  bytes_ok buf = true -> n <= 2147483647 ->
  (forall z, z <> Oob -> run buf (es_handle n self st) <> Hazard z) /\
  (n <= len buf -> forall z, run buf (es_handle n self st) <> Hazard z).
Proof.
  intros buf n self st Hb Hn. pose proof (espnet_bounded_any n self st Hn) as B. split.
  - intros z Hz E. apply Hz. exact (nofail_run _ (bounded_nofail _ _ B) buf z Hb E).
  - intros Hl z. apply (bounded_no_hazard n); assumption.
Qed.
Print Assumptions c06_espnet_any_length.

(* history level: any sequence of datagrams (each from our own address or not), each followed in the receive buffer by arbitrary stale bytes, from any
   initial state: no datagram ends in a hazard, and every output and the final state are the same whatever the
   stale tails are *)
Theorem c06_espnet_history : forall (h1 h2 : list (bool * list N * list N)) s,
  Forall (fun x => let '(_, d, t) := x in bytes_ok d = true /\ bytes_ok t = true /\ len d <= 521) h1 ->
  Forall2 (fun x y => fst x = fst y) h1 h2 ->
  (exists r, run_hist (fun self n st => es_handle n self st) (fun _ r => fst (fst r)) s h1 = Done r) /\
  run_hist (fun self n st => es_handle n self st) (fun _ r => fst (fst r)) s h1 = run_hist (fun self n st => es_handle n self st) (fun _ r => fst (fst r)) s h2.
Proof.
  intros h1 h2 s Hok H2.
  assert (Hb : forall i n st, n <= ES_PACKET_SIZE -> bounded n ((fun self n st => es_handle n self st) i n st)) by (intros; apply espnet_bounded; assumption).
  split.
  - apply (hist_safe ES_PACKET_SIZE _ _ Hb). exact Hok.
  - apply (hist_stale_free ES_PACKET_SIZE _ _ Hb); assumption.
Qed.
Print Assumptions c06_espnet_history.

(* an RLE data packet "ESDD" universe 0, type RLE, size 6: 7, REPEAT 3 x 9, ESCAPE 0xFE; the trailing REPEAT of a
   7-byte variant is not decoded (see ex_espnet_tail) *)
Example ex_espnet_handled :
  run ([69; 83; 68; 68; 0; 0; 4; 0; 6; 7; 254; 3; 9; 253; 254] ++ repeat 165 506)
      (es_handle 15 false [(0, Some [1; 2])])
  = Done ([(0, Some [7; 9; 9; 9; 254])], Some 0, EsTxNone).
Proof. vm_compute. reflexivity. Qed.

Example ex_espnet_tail :
  run ([69; 83; 68; 68; 0; 0; 4; 0; 7; 7; 254; 3; 9; 253; 254; 254] ++ repeat 165 505)
      (es_handle 16 false [(0, None)])
  = Done ([(0, Some ([7; 9; 9; 9; 254] ++ repeat 0 507))], Some 0, EsTxNone).
Proof. vm_compute. reflexivity. Qed.

Example ex_espnet_poll :
  run ([69; 83; 80; 80; 1] ++ repeat 165 516) (es_handle 5 false []) = Done ([], None, EsTxReply).
Proof. vm_compute. reflexivity. Qed.

(* a two-datagram history meeting the hypotheses of c06_espnet_history: an RLE data packet, then a poll *)
Example ex_espnet_history :
  run_hist (fun self n st => es_handle n self st) (fun _ r => fst (fst r)) [(0, Some [1; 2])]
    [(false, [69; 83; 68; 68; 0; 0; 4; 0; 6; 7; 254; 3; 9; 253; 254], repeat 165 506);
     (false, [69; 83; 80; 80; 1], repeat 0 516)]
  = Done ([(0, Some [7; 9; 9; 9; 254])],
          [([(0, Some [7; 9; 9; 9; 254])], Some 0, EsTxNone); ([(0, Some [7; 9; 9; 9; 254])], None, EsTxReply)]).
Proof. vm_compute. reflexivity. Qed.

(* ---------------------------------------------------------------- SandNet
   Receive buffer: the sandnet_packet on SocketReady's stack (524 bytes).  n = bytes received, self = the datagram
   came from our own address, st = the registered handlers (any (group, universe) keys, any buffers). *)
Theorem c06_sandnet_layout :
  (SA_PACKET_SIZE, SA_OPCODE_SIZE, SA_OFF_contents, SA_DMX_HEADER, SA_CDMX_HEADER, SA_OFF_dmx_dmx, SA_OFF_cdmx_dmx,
   SA_ADVERTISEMENT_SIZE) = (524, 2, 2, 3, 10, 3, 10, 235).
Proof. reflexivity. Qed.
Print Assumptions c06_sandnet_layout.

(* every constant the sandnet model takes from the repository (sizeof / offsetof of the packed wire structs, opcodes,
   vectors, masks), regenerated into GenSandNet.v on each run, pinned to the value the proofs and statements were written
   for: a change of the wire layout or of a constant in /repo breaks this obligation deterministically *)
Theorem c06_sandnet_consts :
  SA_PACKET_SIZE = 524 /\
  SA_OPCODE_SIZE = 2 /\
  SA_OFF_opcode = 0 /\
  SA_OFF_contents = 2 /\
  SA_DMX_SIZE = 515 /\
  SA_DMX_DATA = 512 /\
  SA_OFF_dmx_group = 0 /\
  SA_OFF_dmx_universe = 1 /\
  SA_OFF_dmx_dmx = 3 /\
  SA_CDMX_SIZE = 522 /\
  SA_CDMX_DATA = 512 /\
  SA_OFF_cdmx_group = 0 /\
  SA_OFF_cdmx_universe = 1 /\
  SA_OFF_cdmx_dmx = 10 /\
  SA_ADVERTISEMENT_SIZE = 235 /\
  SA_OP_DMX = 768 /\
  SA_OP_COMPRESSED_DMX = 2560 /\
  SA_OP_ADVERTISEMENT = 256.
Proof. repeat split; reflexivity. Qed.
Print Assumptions c06_sandnet_consts.

Theorem c06_sandnet_no_oob : forall buf n self st,
  bytes_ok buf = true -> len buf = 524 -> n <= len buf ->
  run buf (sa_handle n self st) <> Hazard Oob.
Proof. intros buf n self st Hb Hl Hn. apply (bounded_no_hazard n); auto. apply sandnet_bounded. unfold SA_PACKET_SIZE. lia. Qed.
Print Assumptions c06_sandnet_no_oob.

Theorem c06_sandnet_terminates : forall buf n self st,
  bytes_ok buf = true -> len buf = 524 -> n <= len buf ->
  run buf (sa_handle n self st) <> Hazard OutOfFuel.
Proof. intros buf n self st Hb Hl Hn. apply (bounded_no_hazard n); auto. apply sandnet_bounded. unfold SA_PACKET_SIZE. lia. Qed.
Print Assumptions c06_sandnet_terminates.

(* the SandNet receive path contains no division *)
Theorem c06_sandnet_no_div0 : forall buf n self st,
  bytes_ok buf = true -> len buf = 524 -> n <= len buf ->
  run buf (sa_handle n self st) <> Hazard Div0.
Proof. intros buf n self st Hb Hl Hn. apply (bounded_no_hazard n); auto. apply sandnet_bounded. unfold SA_PACKET_SIZE. lia. Qed.
Print Assumptions c06_sandnet_no_div0.

(* outputs and next state do not depend on what follows the datagram in the receive buffer *)
Theorem c06_sandnet_stale_free : forall d t1 t2 self st,
  bytes_ok d = true -> len d + len t1 = 524 -> len t2 = len t1 ->
  run (d ++ t1) (sa_handle (len d) self st) = run (d ++ t2) (sa_handle (len d) self st).
Proof.
  intros d t1 t2 self st Hb Hl _. apply bounded_stale_free; auto. apply sandnet_bounded.
  unfold SA_PACKET_SIZE. lia.
Qed.
Print Assumptions c06_sandnet_stale_free.

(* independent of the capacity and of what the socket layer reports: for a receive buffer of ANY size and ANY reported
   length n < 2^31 the handler returns (its loops end within their fuel: RLE decoder: fuel = data length + 1, every turn consumes at least one byte) and never divides by zero; and if
   the buffer does hold n bytes it reads nothing at or beyond n *)
Theorem c06_sandnet_any_length : forall buf n self st,
  bytes_ok buf = true -> n <= 2147483647 ->
  (forall z, z <> Oob -> run buf (sa_handle n self st) <> Hazard z) /\
  (n <= len buf -> forall z, run buf (sa_handle n self st) <> Hazard z).
Proof.
  intros buf n self st Hb Hn. pose proof (sandnet_bounded_any n self st Hn) as B. split.
  - intros z Hz E. apply Hz. exact (nofail_run _ (bounded_nofail _ _ B) buf z Hb E).
  - intros Hl z. apply (bounded_no_hazard n); assumption.
Qed.
Print Assumptions c06_sandnet_any_length.

(* history level: any sequence of datagrams (each from our own address or not), each followed in the receive buffer by arbitrary stale bytes, from any
   initial state: no datagram ends in a hazard, and every output and the final state are the same whatever the
   stale tails are *)
Theorem c06_sandnet_history : forall (h1 h2 : list (bool * list N * list N)) s,
  Forall (fun x => let '(_, d, t) := x in bytes_ok d = true /\ bytes_ok t = true /\ len d <= 524) h1 ->
  Forall2 (fun x y => fst x = fst y) h1 h2 ->
  (exists r, run_hist (fun self n st => sa_handle n self st) (fun _ r => fst r) s h1 = Done r) /\
  run_hist (fun self n st => sa_handle n self st) (fun _ r => fst r) s h1 = run_hist (fun self n st => sa_handle n self st) (fun _ r => fst r) s h2.
Proof.
  intros h1 h2 s Hok H2.
  assert (Hb : forall i n st, n <= SA_PACKET_SIZE -> bounded n ((fun self n st => sa_handle n self st) i n st)) by (intros; apply sandnet_bounded; assumption).
  split.
  - apply (hist_safe SA_PACKET_SIZE _ _ Hb). exact Hok.
  - apply (hist_stale_free SA_PACKET_SIZE _ _ Hb); assumption.
Qed.
Print Assumptions c06_sandnet_history.

(* compressed DMX for group 2 universe 7: repeat 3 x 9, literal [1; 2] *)
Example ex_sandnet_handled :
  run ([10; 0; 2; 7; 0; 0; 0; 0; 0; 2; 0; 5; 131; 9; 2; 1; 2] ++ repeat 165 507)
      (sa_handle 17 false [((2, 7), None)])
  = Done ([((2, 7), Some ([9; 9; 9; 1; 2] ++ repeat 0 507))], Some (2, 7)).
Proof. vm_compute. reflexivity. Qed.

Example ex_sandnet_dmx :
  run ([3; 0; 2; 7; 1; 4; 5; 6] ++ repeat 165 516)
      (sa_handle 8 false [((2, 7), Some [1])])
  = Done ([((2, 7), Some [4; 5; 6])], Some (2, 7)).
Proof. vm_compute. reflexivity. Qed.

(* ---------------------------------------------------------------- Pathport
   Receive buffer: the pathport_packet_s on SocketReady's stack (1500 bytes).  n = bytes received,
   st = device id, source-is-us flag, our IP, sequence number, registered handlers (any universes, any buffers). *)
Theorem c06_pathport_layout :
  (PP_PACKET_SIZE, PP_HEADER_SIZE, PP_PDU_HEADER_SIZE, PP_PDU_DATA_SIZE, PP_OFF_pdu + PP_OFF_pdu_d + PP_OFF_d_data,
   PP_MAX_UNIVERSES) = (1500, 20, 4, 8, 32, 127).
Proof. reflexivity. Qed.
Print Assumptions c06_pathport_layout.

(* every constant the pathport model takes from the repository (sizeof / offsetof of the packed wire structs, opcodes,
   vectors, masks), regenerated into GenPathport.v on each run, pinned to the value the proofs and statements were written
   for: a change of the wire layout or of a constant in /repo breaks this obligation deterministically *)
Theorem c06_pathport_consts :
  PP_PACKET_SIZE = 1500 /\
  PP_HEADER_SIZE = 20 /\
  PP_PDU_HEADER_SIZE = 4 /\
  PP_PDU_DATA_SIZE = 8 /\
  PP_ARP_REPLY_SIZE = 12 /\
  PP_OFF_protocol = 0 /\
  PP_OFF_version_major = 2 /\
  PP_OFF_version_minor = 3 /\
  PP_OFF_destination = 16 /\
  PP_OFF_pdu = 20 /\
  PP_OFF_pdu_type = 0 /\
  PP_OFF_pdu_d = 4 /\
  PP_OFF_d_type = 0 /\
  PP_OFF_d_channel_count = 2 /\
  PP_OFF_d_start_code = 5 /\
  PP_OFF_d_offset = 6 /\
  PP_OFF_d_data = 8 /\
  PP_MAX_UNIVERSES = 127 /\
  PP_PROTOCOL = 60673 /\
  PP_MAJOR_VERSION = 2 /\
  PP_MINOR_VERSION = 0 /\
  PP_ID_BROADCAST = 4294967295 /\
  PP_STATUS_GROUP = 4026527231 /\
  PP_CONFIG_GROUP = 4026526978 /\
  PP_DATA_GROUP = 4026526977 /\
  PP_DATA = 256 /\
  PP_ARP_REQUEST = 769 /\
  PP_ARP_REPLY = 770 /\
  PP_XDMX_DATA_FLAT = 257 /\
  PP_NODE_MANUF_ZP_TECH = 40 /\
  PP_NODE_CLASS_DMX_NODE = 0 /\
  PP_NODE_DEVICE_PATHPORT = 0.
Proof. repeat split; reflexivity. Qed.
Print Assumptions c06_pathport_consts.

Theorem c06_pathport_no_oob : forall buf n st,
  bytes_ok buf = true -> len buf = 1500 -> n <= len buf ->
  run buf (pathport_handle n st) <> Hazard Oob.
Proof. intros buf n st Hb Hl Hn. apply (bounded_no_hazard n); auto. apply pathport_bounded. unfold PP_PACKET_SIZE. lia. Qed.
Print Assumptions c06_pathport_no_oob.

(* the universe-spanning loop of HandleDmxData ends within MAX_UNIVERSES + 2 tests of its condition *)
Theorem c06_pathport_terminates : forall buf n st,
  bytes_ok buf = true -> len buf = 1500 -> n <= len buf ->
  run buf (pathport_handle n st) <> Hazard OutOfFuel.
Proof. intros buf n st Hb Hl Hn. apply (bounded_no_hazard n); auto. apply pathport_bounded. unfold PP_PACKET_SIZE. lia. Qed.
Print Assumptions c06_pathport_terminates.

Theorem c06_pathport_no_div0 : forall buf n st,
  bytes_ok buf = true -> len buf = 1500 -> n <= len buf ->
  run buf (pathport_handle n st) <> Hazard Div0 /\ DMX_UNIVERSE_SIZE <> 0.
Proof.
  intros buf n st Hb Hl Hn. split; [|discriminate].
  apply (bounded_no_hazard n); auto. apply pathport_bounded. unfold PP_PACKET_SIZE. lia.
Qed.
Print Assumptions c06_pathport_no_div0.

(* handler buffers, closures run and the ARP reply sent do not depend on what follows the datagram in the receive buffer *)
Theorem c06_pathport_stale_free : forall d t1 t2 st,
  bytes_ok d = true -> len d + len t1 = 1500 -> len t2 = len t1 ->
  run (d ++ t1) (pathport_handle (len d) st) = run (d ++ t2) (pathport_handle (len d) st).
Proof.
  intros d t1 t2 st Hb Hl _. apply bounded_stale_free; auto. apply pathport_bounded.
  unfold PP_PACKET_SIZE. lia.
Qed.
Print Assumptions c06_pathport_stale_free.

(* "never fails to return": the universe-spanning loop of HandleDmxData ends within fuel >= MAX_UNIVERSES + 2 -
   universe (the universe number grows by one per turn and the loop stops above MAX_UNIVERSES), for any position,
   data size < 2^32, offset < 512 and starting universe <= MAX_UNIVERSES + 1 *)
Theorem c06_pathport_loop_returns : forall buf fuel pos ds off uni hs hits z,
  bytes_ok buf = true -> ds < 4294967296 -> off < 512 -> uni <= PP_MAX_UNIVERSES + 1 ->
  PP_MAX_UNIVERSES + 2 <= uni + N.of_nat fuel -> z <> Oob ->
  run buf (pp_loop pos ds off uni hs hits fuel) <> Hazard z.
Proof.
  intros buf fuel pos ds off uni hs hits z Hb Hd Ho Hu Hf Hz E. apply Hz.
  assert (B : bounded (pos + ds) (pp_loop pos ds off uni hs hits fuel))
    by (apply pp_loop_bounded; auto; unfold DMX_UNIVERSE_SIZE; lia).
  exact (nofail_run _ (bounded_nofail _ _ B) buf z Hb E).
Qed.
Print Assumptions c06_pathport_loop_returns.

(* independent of the capacity and of what the socket layer reports: for a receive buffer of ANY size and ANY reported
   length n < 2^31 the handler returns (its loops end within their fuel: universe-spanning loop: fuel = MAX_UNIVERSES + 2 - universe, the universe number grows by one per turn) and never divides by zero; and if
   the buffer does hold n bytes it reads nothing at or beyond n *)
Theorem c06_pathport_any_length : forall buf n st,
  bytes_ok buf = true -> n <= 2147483647 ->
  (forall z, z <> Oob -> run buf (pathport_handle n st) <> Hazard z) /\
  (n <= len buf -> forall z, run buf (pathport_handle n st) <> Hazard z).
Proof.
  intros buf n st Hb Hn. pose proof (pathport_bounded_any n st Hn) as B. split.
  - intros z Hz E. apply Hz. exact (nofail_run _ (bounded_nofail _ _ B) buf z Hb E).
  - intros Hl z. apply (bounded_no_hazard n); assumption.
Qed.
Print Assumptions c06_pathport_any_length.

(* history level: any sequence of datagrams, each followed in the receive buffer by arbitrary stale bytes, from any
   initial state: no datagram ends in a hazard, and every output and the final state are the same whatever the
   stale tails are *)
Theorem c06_pathport_history : forall (h1 h2 : list (unit * list N * list N)) s,
  Forall (fun x => let '(_, d, t) := x in bytes_ok d = true /\ bytes_ok t = true /\ len d <= 1500) h1 ->
  Forall2 (fun x y => fst x = fst y) h1 h2 ->
  (exists r, run_hist (fun (_ : unit) n st => pathport_handle n st) (fun st r => {| pp_dev := pp_dev st; pp_self := pp_self st; pp_ip := pp_ip st; pp_seq := pp_seq st; pp_hs := fst (fst r) |}) s h1 = Done r) /\
  run_hist (fun (_ : unit) n st => pathport_handle n st) (fun st r => {| pp_dev := pp_dev st; pp_self := pp_self st; pp_ip := pp_ip st; pp_seq := pp_seq st; pp_hs := fst (fst r) |}) s h1 = run_hist (fun (_ : unit) n st => pathport_handle n st) (fun st r => {| pp_dev := pp_dev st; pp_self := pp_self st; pp_ip := pp_ip st; pp_seq := pp_seq st; pp_hs := fst (fst r) |}) s h2.
Proof.
  intros h1 h2 s Hok H2.
  assert (Hb : forall i n st, n <= PP_PACKET_SIZE -> bounded n ((fun (_ : unit) n st => pathport_handle n st) i n st)) by (intros; apply pathport_bounded; assumption).
  split.
  - apply (hist_safe PP_PACKET_SIZE _ _ Hb). exact Hok.
  - apply (hist_stale_free PP_PACKET_SIZE _ _ Hb); assumption.
Qed.
Print Assumptions c06_pathport_history.

(* a 3-slot frame at offset 511 of universe 1 lands in the handlers of universes 1 and 2 *)
Example ex_pathport_handled :
  run ([237; 1; 2; 0; 0; 9] ++ repeat 0 6 ++ [0; 0; 0; 7] ++ [255; 255; 255; 255] ++ [1; 0; 0; 11]
       ++ [1; 1; 0; 3; 0; 0; 3; 255] ++ [7; 8; 9] ++ repeat 165 1465)
      (pathport_handle 35 {| pp_dev := 5; pp_self := false; pp_ip := [10; 0; 0; 1]; pp_seq := 1;
                             pp_hs := [(1, Some (repeat 1 512)); (2, Some [4; 4; 4])] |})
  = Done ([(1, Some (repeat 1 511 ++ [7])); (2, Some [8; 9; 4])], [2; 1], None).
Proof. vm_compute. reflexivity. Qed.

Example ex_pathport_arp :
  run ([237; 1; 2; 0; 0; 9] ++ repeat 0 6 ++ [0; 0; 0; 7] ++ [0; 0; 0; 5] ++ [3; 1; 0; 0] ++ repeat 165 1476)
      (pathport_handle 24 {| pp_dev := 5; pp_self := false; pp_ip := [10; 0; 0; 1]; pp_seq := 1; pp_hs := [] |})
  = Done ([], [], Some ([237; 1; 2; 0; 0; 1] ++ repeat 0 6 ++ [0; 0; 0; 5] ++ [239; 255; 237; 255] ++ [3; 2; 0; 12]
                        ++ [0; 0; 0; 5] ++ [10; 0; 0; 1] ++ [40; 0; 0; 1])).
Proof. vm_compute. reflexivity. Qed.

(* ---------------------------------------------------------------- KiNET
   Receive buffer: `uint8_t packet[1500]` on SocketReady's stack.  The node discards every datagram without
   reading a byte of it, so these theorems are TRIVIAL (the handler program is `Ret`): they record that the
   receive path has no reads, no loop and no division; the correspondence check is what ties that to the code. *)
Theorem c06_kinet_layout : KN_PACKET_SIZE = 1500.
Proof. reflexivity. Qed.
Print Assumptions c06_kinet_layout.

(* every constant the kinet model takes from the repository (sizeof / offsetof of the packed wire structs, opcodes,
   vectors, masks), regenerated into GenKiNet.v on each run, pinned to the value the proofs and statements were written
   for: a change of the wire layout or of a constant in /repo breaks this obligation deterministically *)
Theorem c06_kinet_consts :
  KN_PACKET_SIZE = 1500.
Proof. repeat split; reflexivity. Qed.
Print Assumptions c06_kinet_consts.

Theorem c06_kinet_no_oob : forall buf n st,
  bytes_ok buf = true -> len buf = 1500 -> n <= len buf ->
  run buf (kinet_handle n st) <> Hazard Oob.
Proof. intros buf n st Hb Hl Hn. apply (bounded_no_hazard n); auto. apply kinet_bounded. unfold KN_PACKET_SIZE. lia. Qed.
Print Assumptions c06_kinet_no_oob.

Theorem c06_kinet_terminates : forall buf n st,
  bytes_ok buf = true -> len buf = 1500 -> n <= len buf ->
  run buf (kinet_handle n st) <> Hazard OutOfFuel.
Proof. intros buf n st Hb Hl Hn. apply (bounded_no_hazard n); auto. apply kinet_bounded. unfold KN_PACKET_SIZE. lia. Qed.
Print Assumptions c06_kinet_terminates.

Theorem c06_kinet_no_div0 : forall buf n st,
  bytes_ok buf = true -> len buf = 1500 -> n <= len buf ->
  run buf (kinet_handle n st) <> Hazard Div0.
Proof. intros buf n st Hb Hl Hn. apply (bounded_no_hazard n); auto. apply kinet_bounded. unfold KN_PACKET_SIZE. lia. Qed.
Print Assumptions c06_kinet_no_div0.

(* state and output after a datagram do not depend on the receive buffer at all *)
Theorem c06_kinet_stale_free : forall d t1 t2 st,
  bytes_ok d = true -> len d + len t1 = 1500 -> len t2 = len t1 ->
  run (d ++ t1) (kinet_handle (len d) st) = run (d ++ t2) (kinet_handle (len d) st).
Proof.
  intros d t1 t2 st Hb Hl _. apply bounded_stale_free; auto. apply kinet_bounded.
  unfold KN_PACKET_SIZE. lia.
Qed.
Print Assumptions c06_kinet_stale_free.

(* history level: any sequence of datagrams, each followed in the receive buffer by arbitrary stale bytes, from any
   initial state: no datagram ends in a hazard, and every output and the final state are the same whatever the
   stale tails are *)
Theorem c06_kinet_history : forall (h1 h2 : list (unit * list N * list N)) s,
  Forall (fun x => let '(_, d, t) := x in bytes_ok d = true /\ bytes_ok t = true /\ len d <= 1500) h1 ->
  Forall2 (fun x y => fst x = fst y) h1 h2 ->
  (exists r, run_hist (fun (_ : unit) n st => kinet_handle n st) (fun _ r => fst r) s h1 = Done r) /\
  run_hist (fun (_ : unit) n st => kinet_handle n st) (fun _ r => fst r) s h1 = run_hist (fun (_ : unit) n st => kinet_handle n st) (fun _ r => fst r) s h2.
Proof.
  intros h1 h2 s Hok H2.
  assert (Hb : forall i n st, n <= KN_PACKET_SIZE -> bounded n ((fun (_ : unit) n st => kinet_handle n st) i n st)) by (intros; apply kinet_bounded; assumption).
  split.
  - apply (hist_safe KN_PACKET_SIZE _ _ Hb). exact Hok.
  - apply (hist_stale_free KN_PACKET_SIZE _ _ Hb); assumption.
Qed.
Print Assumptions c06_kinet_history.

Example ex_kinet_discarded :
  run ([4; 1; 220; 74; 1; 0; 1; 1] ++ repeat 165 1492) (kinet_handle 8 {| kn_txn := 7; kn_queued := 0 |})
  = Done ({| kn_txn := 7; kn_queued := 0 |}, []).
Proof. reflexivity. Qed.
