(* C06 — ShowNetNode::SocketReady / HandlePacket / HandleCompressedPacket (plugins/shownet/ShowNetNode.cpp).
   The receive buffer is the `shownet_packet packet` on SocketReady's stack (SN_PACKET_SIZE bytes);
   n is what recvfrom returned.
   `shownet_handle` is the code AS IT IS: the received-data size is computed with sizeof of a POINTER
   (known finding C06-shownet-sizeof-pointer; the repository's own ShowNetNodeTest relies on it, so
   it is not fixed here).  `shownet_handle_fixed` is the same handler with fixes-needing-test-edit/01 applied. *)
From OlaBase Require Import Bytes.
From C06 Require Import Gen GenShowNet Prog Dmx.
Local Open Scope N_scope.

(* m_handlers: universe id -> DmxBuffer (the closures only count calls) *)
Definition handlers := list (N * dbuf).
Fixpoint find_h (st : handlers) (u : N) : option dbuf :=
  match st with [] => None | (k, b) :: r => if k =? u then Some b else find_h r u end.
Fixpoint update_h (st : handlers) (u : N) (nb : dbuf) : handlers :=
  match st with [] => [] | (k, b) :: r => if k =? u then (k, nb) :: r else (k, b) :: update_h r u nb end.

(* result: new handler buffers, and the universe whose closure ran (None: datagram dropped) *)
Definition sn_out := (handlers * option N)%type.

Definition SN_CHDR : N := SN_COMPRESSED_SIZE - SN_COMPRESSED_DATA_LENGTH.  (* bytes before data[] *)
Definition usub64 (a b : N) : N := u64 (a + 18446744073709551616 - u64 b).

(* the part after the size computation, shared by both versions *)
Definition sn_tail (st : handlers) (received index_block net_slot ib1 : N) : prog sn_out :=
  let drop_ := Ret (st, None) in
  let H := SN_HEADER_SIZE in
  let enc_len := ib1 - index_block in
  let data_offset := index_block - SN_MAGIC_INDEX_OFFSET in
  (* if (data_offset + enc_len > received_data_size) return false; *)
  if received <? data_offset + enc_len then drop_
  else rd16le (H + SN_OFF_slotSize) (fun slot_size =>
    if slot_size =? 0 then drop_
    else
      let start_channel := (net_slot - 1) mod DMX_UNIVERSE_SIZE in
      let universe_id := (net_slot - 1) / DMX_UNIVERSE_SIZE in
      match find_h st universe_id with
      | None => drop_
      | Some b =>
        let base := H + SN_OFF_data + data_offset in
        if negb (slot_size =? enc_len) then
          bind (rle_decode start_channel base enc_len b)
               (fun r => Ret (update_h st universe_id (fst r), Some universe_id))
        else
          set_range_rd b start_channel base enc_len (fun b' =>
            Ret (update_h st universe_id b', Some universe_id))
      end).

(* ---------------------------------------------------------------- the code as it is *)
Definition shownet_handle (n : N) (st : handlers) : prog sn_out :=
  let drop_ := Ret (st, None) in
  (* HandlePacket: if (packet_size <= header_size) return false; *)
  if n <=? SN_HEADER_SIZE then drop_
  else rd16be SN_OFF_type (fun ty =>
    if negb (ty =? SN_COMPRESSED_DMX_PACKET) then drop_
    else
      (* HandleCompressedPacket(&packet->data.compressed_dmx, packet_size - header_size):
         the header fields are read without looking at packet_size *)
      let psz := n - SN_HEADER_SIZE in
      let H := SN_HEADER_SIZE in
      rd16le (H + SN_OFF_indexBlock) (fun index_block =>
        if index_block <? SN_MAGIC_INDEX_OFFSET then drop_
        else rd16le (H + SN_OFF_netSlot) (fun net_slot =>
          rd16le (H + SN_OFF_indexBlock + 2) (fun ib1 =>
            (* int enc_len = indexBlock[1] - index_block; if (enc_len < 1 || net_slot == 0) *)
            if (ib1 <? index_block + 1) || (net_slot =? 0) then drop_
            else
              (* unsigned int received_data_size =
                   packet_size - (sizeof(packet) - SHOWNET_COMPRESSED_DATA_LENGTH);
                 packet is a pointer: size_t arithmetic, truncated to unsigned int *)
              let received := u32 (usub64 psz (usub64 SN_PTR_SIZE SN_COMPRESSED_DATA_LENGTH)) in
              sn_tail st received index_block net_slot ib1)))).

(* ---------------------------------------------------------------- with the proposed fix *)
Definition shownet_handle_fixed (n : N) (st : handlers) : prog sn_out :=
  let drop_ := Ret (st, None) in
  if n <=? SN_HEADER_SIZE then drop_
  else rd16be SN_OFF_type (fun ty =>
    if negb (ty =? SN_COMPRESSED_DMX_PACKET) then drop_
    else
      let psz := n - SN_HEADER_SIZE in
      let H := SN_HEADER_SIZE in
      (* fix: if (packet_size < header_size) return false; -- before any field is read *)
      if psz <? SN_CHDR then drop_
      else rd16le (H + SN_OFF_indexBlock) (fun index_block =>
        if index_block <? SN_MAGIC_INDEX_OFFSET then drop_
        else rd16le (H + SN_OFF_netSlot) (fun net_slot =>
          rd16le (H + SN_OFF_indexBlock + 2) (fun ib1 =>
            if (ib1 <? index_block + 1) || (net_slot =? 0) then drop_
            else
              (* fix: received_data_size = packet_size - header_size *)
              sn_tail st (psz - SN_CHDR) index_block net_slot ib1)))).

(* the finding, stated on one (datagram, state): run on the datagram alone (capacity = received length)
   the handler does not complete, i.e. it reads at or beyond the received length *)
Definition sn_within (d : list N) (st : handlers) : bool :=
  completes (run d (shownet_handle (len d) st)).

(* ---------------------------------------------------------------- proofs *)
Ltac sn_unfold :=
  unfold shownet_handle, shownet_handle_fixed, sn_tail, SN_CHDR, SN_PACKET_SIZE, SN_HEADER_SIZE, SN_OFF_type,
    SN_COMPRESSED_SIZE, SN_COMPRESSED_DATA_LENGTH, SN_OFF_indexBlock, SN_OFF_netSlot,
    SN_OFF_slotSize, SN_OFF_data, SN_MAGIC_INDEX_OFFSET in *; cbv zeta.

(* the code as it is never runs out of fuel and never divides by zero, for every datagram *)
Lemma shownet_nofail n st : nofail (shownet_handle n st).
Proof.
  sn_unfold. repeat nfstep.
  - apply nofail_bind; [|intros; constructor]. apply rle_decode_nofail. lia.
  - apply set_range_rd_nofail. intros; constructor.
Qed.

(* with the fix every read is below the received length *)
Lemma shownet_fixed_bounded n st : n <= SN_PACKET_SIZE -> bounded n (shownet_handle_fixed n st).
Proof.
  intros Hn. sn_unfold. repeat bstep.
  - apply bounded_bind; [|intros; constructor]. apply rle_decode_bounded; lia.
  - apply set_range_rd_bounded; [right; lia|]. intros; constructor.
Qed.
