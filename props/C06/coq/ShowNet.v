(* C06 — ShowNetNode::SocketReady / HandlePacket / HandleCompressedPacket (plugins/shownet/ShowNetNode.cpp).
   The receive buffer is the `shownet_packet packet` on SocketReady's stack (SN_PACKET_SIZE bytes);
   n is what recvfrom returned.
   `shownet_handle` is the code AS IT IS: the received-data size is computed with sizeof of a POINTER
   (known finding C06-shownet-sizeof-pointer; the repository's own ShowNetNodeTest relies on it, so
   it is not fixed here).  `shownet_handle_fixed` is the same handler with fixes-needing-test-edit/01 applied. *)
From OlaBase Require Import Bytes.
From C06 Require Import Gen GenShowNet Prog Dmx.
Local Open Scope N_scope.

(* m_handlers: universe id -> DmxBuffer (the closures only count calls) *)
Definition handlers := list (N * dbuf).
Fixpoint find_h (st : handlers) (u : N) : option dbuf :=
  match st with [] => None | (k, b) :: r => if k =? u then Some b else find_h r u end.
Fixpoint update_h (st : handlers) (u : N) (nb : dbuf) : handlers :=
  match st with [] => [] | (k, b) :: r => if k =? u then (k, nb) :: r else (k, b) :: update_h r u nb end.

(* result: new handler buffers, and the universe whose closure ran (None: datagram dropped) *)
Definition sn_out := (handlers * option N)%type.

Definition SN_CHDR : N := SN_COMPRESSED_SIZE - SN_COMPRESSED_DATA_LENGTH.  (* bytes before data[] *)
Definition usub64 (a b : N) : N := u64 (a + 18446744073709551616 - u64 b).

(* the part after the size computation, shared by both versions *)
Definition sn_tail (st : handlers) (received index_block net_slot ib1 : N) : prog sn_out :=
  let drop_ := Ret (st, None) in
  let H := SN_HEADER_SIZE in
  let enc_len := ib1 - index_block in
  let data_offset := index_block - SN_MAGIC_INDEX_OFFSET in
  (* if (data_offset + enc_len > received_data_size) return false; *)
  if received <? data_offset + enc_len then drop_
  else rd16le (H + SN_OFF_slotSize) (fun slot_size =>
    if slot_size =? 0 then drop_
    else
      let start_channel := (net_slot - 1) mod DMX_UNIVERSE_SIZE in
      let universe_id := (net_slot - 1) / DMX_UNIVERSE_SIZE in
      match find_h st universe_id with
      | None => drop_
      | Some b =>
        let base := H + SN_OFF_data + data_offset in
        if negb (slot_size =? enc_len) then
          bind (rle_decode start_channel base enc_len b)
               (fun r => Ret (update_h st universe_id (fst r), Some universe_id))
        else
          set_range_rd b start_channel base enc_len (fun b' =>
            Ret (update_h st universe_id b', Some universe_id))
      end).

(* ---------------------------------------------------------------- the code as it is *)
Definition shownet_handle (n : N) (st : handlers) : prog sn_out :=
  let drop_ := Ret (st, None) in
  (* HandlePacket: if (packet_size <= header_size) return false; *)
  if n <=? SN_HEADER_SIZE then drop_
  else rd16be SN_OFF_type (fun ty =>
    if negb (ty =? SN_COMPRESSED_DMX_PACKET) then drop_
    else
      (* HandleCompressedPacket(&packet->data.compressed_dmx, packet_size - header_size):
         the header fields are read without looking at packet_size *)
      let psz := n - SN_HEADER_SIZE in
      let H := SN_HEADER_SIZE in
      rd16le (H + SN_OFF_indexBlock) (fun index_block =>
        if index_block <? SN_MAGIC_INDEX_OFFSET then drop_
        else rd16le (H + SN_OFF_netSlot) (fun net_slot =>
          rd16le (H + SN_OFF_indexBlock + 2) (fun ib1 =>
            (* int enc_len = indexBlock[1] - index_block; if (enc_len < 1 || net_slot == 0) *)
            if (ib1 <? index_block + 1) || (net_slot =? 0) then drop_
            else
              (* unsigned int received_data_size =
                   packet_size - (sizeof(packet) - SHOWNET_COMPRESSED_DATA_LENGTH);
                 packet is a pointer: size_t arithmetic, truncated to unsigned int *)
              let received := u32 (usub64 psz (usub64 SN_PTR_SIZE SN_COMPRESSED_DATA_LENGTH)) in
              sn_tail st received index_block net_slot ib1)))).

(* ---------------------------------------------------------------- with the proposed fix *)
Definition shownet_handle_fixed (n : N) (st : handlers) : prog sn_out :=
  let drop_ := Ret (st, None) in
  if n <=? SN_HEADER_SIZE then drop_
  else rd16be SN_OFF_type (fun ty =>
    if negb (ty =? SN_COMPRESSED_DMX_PACKET) then drop_
    else
      let psz := n - SN_HEADER_SIZE in
      let H := SN_HEADER_SIZE in
      (* fix: if (packet_size < header_size) return false; -- before any field is read *)
      if psz <? SN_CHDR then drop_
      else rd16le (H + SN_OFF_indexBlock) (fun index_block =>
        if index_block <? SN_MAGIC_INDEX_OFFSET then drop_
        else rd16le (H + SN_OFF_netSlot) (fun net_slot =>
          rd16le (H + SN_OFF_indexBlock + 2) (fun ib1 =>
            if (ib1 <? index_block + 1) || (net_slot =? 0) then drop_
            else
              (* fix: received_data_size = packet_size - header_size *)
              sn_tail st (psz - SN_CHDR) index_block net_slot ib1)))).

(* the finding, stated on one (datagram, state): run on the datagram alone (capacity = received length)
   the handler does not complete, i.e. it reads at or beyond the received length *)
Definition sn_within (d : list N) (st : handlers) : bool :=
  completes (run d (shownet_handle (len d) st)).

(* ---------------------------------------------------------------- proofs *)
Ltac sn_unfold :=
  unfold shownet_handle, shownet_handle_fixed, sn_tail, SN_CHDR, SN_PACKET_SIZE, SN_HEADER_SIZE, SN_OFF_type,
    SN_COMPRESSED_SIZE, SN_COMPRESSED_DATA_LENGTH, SN_OFF_indexBlock, SN_OFF_netSlot,
    SN_OFF_slotSize, SN_OFF_data, SN_MAGIC_INDEX_OFFSET in *; cbv zeta.

(* the code as it is never runs out of fuel and never divides by zero, for every datagram *)
Lemma shownet_nofail n st : nofail (shownet_handle n st).
Proof.
  sn_unfold. repeat nfstep.
  - apply nofail_bind; [|intros; constructor]. apply rle_decode_nofail. lia.
  - apply set_range_rd_nofail. intros; constructor.
Qed.

(* with the fix every read is below the received length *)
Lemma shownet_fixed_bounded_any n st : n <= 2147483647 -> bounded n (shownet_handle_fixed n st).
Proof.
  intros Hn. sn_unfold. repeat bstep.
  - apply bounded_bind; [|intros; constructor]. apply rle_decode_bounded; lia.
  - apply set_range_rd_bounded; [right; lia|]. intros; constructor.
Qed.

(* for the capacity of the real receive buffer *)
Lemma shownet_fixed_bounded n st : n <= SN_PACKET_SIZE -> bounded n (shownet_handle_fixed n st).
Proof. intros Hn. apply shownet_fixed_bounded_any. unfold SN_PACKET_SIZE in Hn. lia. Qed.

(* ---------------------------------------------------------------- a syntactic guard *)
(* Written from the datagram's own fields, in the order the handler tests them: the datagram is dropped
   before any field it does not contain is read, or everything its index block claims was received.
   (Sufficient for sn_within, not necessary: an RLE stream that stops early or a SetRange that clamps the
   copy may leave the unreceived part of a claimed block unread.) *)
Definition sn_guard (whole_block : N -> N -> bool) (d : list N) (st : handlers) : bool :=
  let n := len d in
  let H := SN_HEADER_SIZE in
  if n <=? SN_HEADER_SIZE then true
  else if negb (g16be d SN_OFF_type =? SN_COMPRESSED_DMX_PACKET) then true
  else if n <? H + SN_OFF_indexBlock + 2 then false           (* indexBlock[0] not received *)
  else
    let index_block := g16le d (H + SN_OFF_indexBlock) in
    if index_block <? SN_MAGIC_INDEX_OFFSET then true
    else if n <? H + SN_OFF_indexBlock + 4 then false         (* indexBlock[1] not received *)
    else
      let net_slot := g16le d (H + SN_OFF_netSlot) in
      let ib1 := g16le d (H + SN_OFF_indexBlock + 2) in
      if (ib1 <? index_block + 1) || (net_slot =? 0) then true
      else
        let enc_len := ib1 - index_block in
        let data_offset := index_block - SN_MAGIC_INDEX_OFFSET in
        (* what the code computes as received_data_size: packet_size + 1261 *)
        if (n - H) + (SN_COMPRESSED_DATA_LENGTH - SN_PTR_SIZE) <? data_offset + enc_len then true
        else if g16le d (H + SN_OFF_slotSize) =? 0 then true
        else match find_h st ((net_slot - 1) / DMX_UNIVERSE_SIZE) with
             | None => true
             | Some _ => whole_block (H + SN_OFF_data + data_offset + enc_len) n
             end.
(* the whole claimed block was received *)
Definition sn_syn : list N -> handlers -> bool := sn_guard (fun e n => e <=? n).
(* only: every HEADER field the handler reads was received (necessary for sn_within) *)
Definition sn_hdr : list N -> handlers -> bool := sn_guard (fun _ _ => true).

Lemma sn_received_eq psz : psz < 4294967296 - 1261 ->
  u32 (usub64 psz (usub64 SN_PTR_SIZE SN_COMPRESSED_DATA_LENGTH)) = psz + (SN_COMPRESSED_DATA_LENGTH - SN_PTR_SIZE).
Proof.
  intros H. unfold u32, usub64, u64, SN_PTR_SIZE, SN_COMPRESSED_DATA_LENGTH.
  change (8 mod 18446744073709551616) with 8. change (1269 mod 18446744073709551616) with 1269.
  change ((8 + 18446744073709551616 - 1269) mod 18446744073709551616) with 18446744073709550355.
  change (18446744073709550355 mod 18446744073709551616) with 18446744073709550355.
  replace (psz + 18446744073709551616 - 18446744073709550355) with (psz + 1261) by lia.
  rewrite (N.mod_small (psz + 1261)) by lia. rewrite N.mod_small by lia. lia.
Qed.

Lemma sn_syn_within d st :
  bytes_ok d = true -> len d <= SN_PACKET_SIZE -> sn_syn d st = true -> sn_within d st = true.
Proof.
  intros Hb Hn Hs. unfold sn_within, shownet_handle, sn_tail, sn_syn, sn_guard in *.
  rewrite sn_received_eq by (unfold SN_PACKET_SIZE in Hn; lia).
  pose proof (g16le_lt d (SN_HEADER_SIZE + SN_OFF_indexBlock) Hb) as B0.
  pose proof (g16le_lt d (SN_HEADER_SIZE + SN_OFF_indexBlock + 2) Hb) as B1.
  unfold SN_CHDR, SN_PACKET_SIZE, SN_HEADER_SIZE, SN_OFF_type, SN_COMPRESSED_SIZE, SN_COMPRESSED_DATA_LENGTH,
    SN_OFF_indexBlock, SN_OFF_netSlot, SN_OFF_slotSize, SN_OFF_data, SN_MAGIC_INDEX_OFFSET, SN_PTR_SIZE in *.
  cbv zeta in *.
  destruct (len d <=? 6) eqn:E1; [reflexivity|].
  rewrite run_rd16be by lia.
  destruct (negb (g16be d 0 =? SN_COMPRESSED_DMX_PACKET)) eqn:E2; [reflexivity|].
  destruct (len d <? 6 + 16 + 2) eqn:E3; [discriminate|].
  rewrite run_rd16le by lia.
  destruct (g16le d (6 + 16) <? 11) eqn:E4; [reflexivity|].
  destruct (len d <? 6 + 16 + 4) eqn:E5; [discriminate|].
  rewrite run_rd16le by lia. rewrite run_rd16le by lia.
  destruct ((g16le d (6 + 16 + 2) <? g16le d (6 + 16) + 1) || (g16le d (6 + 0) =? 0)) eqn:E6; [reflexivity|].
  destruct (len d - 6 + (1269 - 8) <? g16le d (6 + 16) - 11 + (g16le d (6 + 16 + 2) - g16le d (6 + 16))) eqn:E7;
    [reflexivity|].
  rewrite run_rd16le by lia.
  destruct (g16le d (6 + 8) =? 0) eqn:E8; [reflexivity|].
  destruct (find_h st ((g16le d (6 + 0) - 1) / DMX_UNIVERSE_SIZE)) as [b|] eqn:E9; [|reflexivity].
  apply N.leb_le in Hs.
  apply (completes_bounded (len d)); [|assumption|lia].
  destruct (negb (g16le d (6 + 8) =? g16le d (6 + 16 + 2) - g16le d (6 + 16))).
  - apply bounded_bind; [|intros; constructor]. apply rle_decode_bounded; lia.
  - apply set_range_rd_bounded; [right; lia|]. intros; constructor.
Qed.

Lemma run_rd16le_short {A} d o (k : N -> prog A) : len d <= o + 1 -> completes (run d (rd16le o k)) = false.
Proof.
  intros H. unfold rd16le. cbn [run].
  destruct (rd d o) as [a|] eqn:Ea; [|reflexivity]. cbn [run].
  destruct (rd d (o + 1)) as [b|] eqn:Eb; [|reflexivity].
  apply rd_some_lt in Eb. lia.
Qed.

(* conversely: whenever the handler completes on the datagram alone, every header field it read was received *)
Lemma sn_within_hdr d st :
  len d <= SN_PACKET_SIZE -> sn_within d st = true -> sn_hdr d st = true.
Proof.
  intros Hn Hs. unfold sn_within, shownet_handle, sn_tail, sn_hdr, sn_guard in *.
  rewrite sn_received_eq in Hs by (unfold SN_PACKET_SIZE in Hn; lia).
  unfold SN_CHDR, SN_PACKET_SIZE, SN_HEADER_SIZE, SN_OFF_type, SN_COMPRESSED_SIZE, SN_COMPRESSED_DATA_LENGTH,
    SN_OFF_indexBlock, SN_OFF_netSlot, SN_OFF_slotSize, SN_OFF_data, SN_MAGIC_INDEX_OFFSET, SN_PTR_SIZE in *.
  cbv zeta in *.
  destruct (len d <=? 6) eqn:E1; [reflexivity|].
  rewrite run_rd16be in Hs by lia.
  destruct (negb (g16be d 0 =? SN_COMPRESSED_DMX_PACKET)) eqn:E2; [reflexivity|].
  destruct (len d <? 6 + 16 + 2) eqn:E3.
  { rewrite run_rd16le_short in Hs by lia. discriminate. }
  rewrite run_rd16le in Hs by lia.
  destruct (g16le d (6 + 16) <? 11) eqn:E4; [reflexivity|].
  destruct (len d <? 6 + 16 + 4) eqn:E5.
  { rewrite run_rd16le in Hs by lia. rewrite run_rd16le_short in Hs by lia. discriminate. }
  destruct ((g16le d (6 + 16 + 2) <? g16le d (6 + 16) + 1) || (g16le d (6 + 0) =? 0)); [reflexivity|].
  destruct (len d - 6 + (1269 - 8) <? g16le d (6 + 16) - 11 + (g16le d (6 + 16 + 2) - g16le d (6 + 16)));
    [reflexivity|].
  destruct (g16le d (6 + 8) =? 0); [reflexivity|].
  destruct (find_h st ((g16le d (6 + 0) - 1) / DMX_UNIVERSE_SIZE)); reflexivity.
Qed.

(* ---------------------------------------------------------------- a state-independent guard, and histories *)
Definition sn_uni (d : list N) : N := (g16le d (SN_HEADER_SIZE + SN_OFF_netSlot) - 1) / DMX_UNIVERSE_SIZE.
(* sn_syn for a node that has a handler for exactly the datagram's universe: the strongest case *)
Definition sn_all (d : list N) : bool := sn_syn d [(sn_uni d, None)].

Lemma sn_all_any d st : sn_all d = true -> sn_syn d st = true.
Proof.
  unfold sn_all, sn_syn, sn_guard, sn_uni. cbv zeta. cbn [find_h]. rewrite N.eqb_refl.
  repeat match goal with |- context [if ?c then _ else _] => destruct c end;
    intros; try reflexivity; try discriminate; try assumption.
Qed.

Definition sn_step (_ : unit) (n : N) (st : handlers) : prog sn_out := shownet_handle n st.
Definition sn_next (_ : handlers) (r : sn_out) : handlers := fst r.

Lemma sn_hist_within : forall ds st,
  Forall (fun d => bytes_ok d = true /\ len d <= SN_PACKET_SIZE /\ sn_all d = true) ds ->
  within_hist sn_step sn_next st (map (fun d => (tt, d)) ds).
Proof.
  induction ds as [|d ds IH]; intros st Hf; cbn [map within_hist]; [exact Logic.I|].
  inversion Hf as [|x l (Hb & Hl & Ha) Hr]; subst.
  pose proof (sn_syn_within d st Hb Hl (sn_all_any d st Ha)) as Hw.
  unfold sn_within, completes in Hw. unfold sn_step at 1.
  destruct (run d (shownet_handle (len d) st)) as [r|z] eqn:E; [|discriminate].
  exists r. split; [reflexivity|]. apply IH. exact Hr.
Qed.

(* ---------------------------------------------------------------- the proposed fix changes nothing inside the guard *)
Lemma sn_fix_compat_alone d st :
  bytes_ok d = true -> len d <= SN_PACKET_SIZE -> sn_syn d st = true ->
  run d (shownet_handle_fixed (len d) st) = run d (shownet_handle (len d) st).
Proof.
  intros Hb Hn Hs. unfold shownet_handle, shownet_handle_fixed, sn_tail, sn_syn, sn_guard in *.
  rewrite sn_received_eq by (unfold SN_PACKET_SIZE in Hn; lia).
  pose proof (g16le_lt d (SN_HEADER_SIZE + SN_OFF_indexBlock) Hb) as B0.
  pose proof (g16le_lt d (SN_HEADER_SIZE + SN_OFF_indexBlock + 2) Hb) as B1.
  unfold SN_CHDR, SN_PACKET_SIZE, SN_HEADER_SIZE, SN_OFF_type, SN_COMPRESSED_SIZE, SN_COMPRESSED_DATA_LENGTH,
    SN_OFF_indexBlock, SN_OFF_netSlot, SN_OFF_slotSize, SN_OFF_data, SN_MAGIC_INDEX_OFFSET, SN_PTR_SIZE in *.
  cbv zeta in *.
  destruct (len d <=? 6) eqn:E1; [reflexivity|].
  rewrite !run_rd16be by lia.
  destruct (negb (g16be d 0 =? SN_COMPRESSED_DMX_PACKET)) eqn:E2; [reflexivity|].
  destruct (len d <? 6 + 16 + 2) eqn:E3; [discriminate|].
  rewrite (run_rd16le d (6 + 16)) by lia.
  destruct (len d - 6 <? 1310 - 1269) eqn:Ep.
  - (* fewer than 41 bytes of block header: the fix drops at once; inside the guard the code as it is drops too *)
    destruct (g16le d (6 + 16) <? 11) eqn:E4; [reflexivity|].
    destruct (len d <? 6 + 16 + 4) eqn:E5; [discriminate|].
    rewrite run_rd16le by lia. rewrite run_rd16le by lia.
    destruct ((g16le d (6 + 16 + 2) <? g16le d (6 + 16) + 1) || (g16le d (6 + 0) =? 0)) eqn:E6; [reflexivity|].
    destruct (len d - 6 + (1269 - 8) <? g16le d (6 + 16) - 11 + (g16le d (6 + 16 + 2) - g16le d (6 + 16))) eqn:E7;
      [reflexivity|].
    rewrite run_rd16le by lia.
    destruct (g16le d (6 + 8) =? 0) eqn:E8; [reflexivity|].
    destruct (find_h st ((g16le d (6 + 0) - 1) / DMX_UNIVERSE_SIZE)) as [b|] eqn:E9; [|reflexivity].
    apply N.leb_le in Hs. apply N.ltb_lt in Ep. lia.
  - rewrite (run_rd16le d (6 + 16)) by lia.
    destruct (g16le d (6 + 16) <? 11) eqn:E4; [reflexivity|].
    destruct (len d <? 6 + 16 + 4) eqn:E5; [discriminate|].
    rewrite !(run_rd16le d (6 + 0)) by lia. rewrite !(run_rd16le d (6 + 16 + 2)) by lia.
    destruct ((g16le d (6 + 16 + 2) <? g16le d (6 + 16) + 1) || (g16le d (6 + 0) =? 0)) eqn:E6; [reflexivity|].
    apply N.ltb_ge in Ep.
    destruct (len d - 6 + (1269 - 8) <? g16le d (6 + 16) - 11 + (g16le d (6 + 16 + 2) - g16le d (6 + 16))) eqn:E7.
    + destruct (len d - 6 - (1310 - 1269) <? g16le d (6 + 16) - 11 + (g16le d (6 + 16 + 2) - g16le d (6 + 16))) eqn:E7b;
        [reflexivity|]. apply N.ltb_lt in E7. apply N.ltb_ge in E7b. lia.
    + destruct (len d - 6 - (1310 - 1269) <? g16le d (6 + 16) - 11 + (g16le d (6 + 16 + 2) - g16le d (6 + 16))) eqn:E7b;
        [|reflexivity].
      (* the fix drops (claims beyond what was received): inside the guard the code as it is has no handler or slotSize 0 *)
      rewrite run_rd16le by lia.
      destruct (g16le d (6 + 8) =? 0) eqn:E8; [reflexivity|].
      destruct (find_h st ((g16le d (6 + 0) - 1) / DMX_UNIVERSE_SIZE)) as [b|] eqn:E9; [|reflexivity].
      apply N.leb_le in Hs. apply N.ltb_lt in E7b. lia.
Qed.
