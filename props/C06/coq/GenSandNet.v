(* REGENERATED from the repository headers on every run. Do not edit.  *)
From Coq Require Import NArith.
Local Open Scope N_scope.
Definition SA_PACKET_SIZE : N := 524.
Definition SA_OPCODE_SIZE : N := 2.
Definition SA_OFF_opcode : N := 0.
Definition SA_OFF_contents : N := 2.
Definition SA_DMX_SIZE : N := 515.
Definition SA_DMX_DATA : N := 512.
Definition SA_OFF_dmx_group : N := 0.
Definition SA_OFF_dmx_universe : N := 1.
Definition SA_OFF_dmx_dmx : N := 3.
Definition SA_CDMX_SIZE : N := 522.
Definition SA_CDMX_DATA : N := 512.
Definition SA_OFF_cdmx_group : N := 0.
Definition SA_OFF_cdmx_universe : N := 1.
Definition SA_OFF_cdmx_dmx : N := 10.
Definition SA_ADVERTISEMENT_SIZE : N := 235.
Definition SA_OP_DMX : N := 768.
Definition SA_OP_COMPRESSED_DMX : N := 2560.
Definition SA_OP_ADVERTISEMENT : N := 256.
