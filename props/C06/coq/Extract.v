(* ASSEMBLED by prop.py from the p_<proto>.py parts. *)
From Coq Require Extraction.
From Coq Require Import ExtrOcamlBasic.
From OlaBase Require Import Bytes.
From C06 Require Import Gen Prog Dmx GenShowNet ShowNet GenAcn Acn GenArtNet ArtNet GenEspNet EspNet GenSandNet SandNet GenPathport Pathport GenKiNet KiNet.
Extraction Language OCaml.
Extraction "model.ml" io_witness N.div_eucl run shownet_handle shownet_handle_fixed sn_within SN_PACKET_SIZE track_events decode_address acn_handle ACN_MAX_DATAGRAM artnet_handle AN_PACKET_SIZE mk_an_state es_handle ES_PACKET_SIZE sa_handle SA_PACKET_SIZE pathport_handle PP_PACKET_SIZE kinet_handle KN_PACKET_SIZE.
