(* E1.31 / ACN: payload  acn <ign>[,<u>:<init>...] <datagram> ... *)
let acn_op (args : string list) : string =
  match args with
  | _ :: spec :: dgs ->
    let parts = String.split_on_char ',' spec in
    let ign = (List.hd parts = "1") in
    let hs0 = List.map (fun h -> match String.split_on_char ':' h with
                         | [u; i] -> { u_uni = n_of_int (ios u); u_buf = dbuf_of_s i; u_ap = n_of_int 0; u_srcs = [] }
                         | _ -> failwith "bad handler") (List.tl parts) in
    let t = new_trace () in
    let hs = ref hs0 in
    let ts = ref [] in
    let ni n = string_of_int (int_of_n n) in
    let ev_s e = match e with
      | AcnEvData u -> "d" ^ ni u
      | EvPage (cid, page, last, us) ->
        "p" ^ hex_of_bytes cid ^ "." ^ ni page ^ "." ^ ni last ^ "." ^ String.concat "_" (List.map ni us)
      | EvRdm133 (seq, ep, d) -> "r" ^ string_of_n seq ^ "." ^ ni ep ^ "." ^ hex_of_bytes d
      | EvLlrp (cid, tn, d) -> "l" ^ hex_of_bytes cid ^ "." ^ string_of_n tn ^ "." ^ hex_of_bytes d
      | EvSrc l -> "s" ^ string_of_int (List.length l) ^ "." ^ hex_of_bytes l in
    (try List.iter (fun dg ->
      let buf, n = mkbuf (int_of_n aCN_MAX_DATAGRAM) (bytes_of_hex dg) in
      match run buf (acn_handle ign n !hs) with
      | Hazard h -> t.hz <- hazard_s h; raise Exit
      | Done (hs', evs) ->
        let changed = (hs' <> !hs) in
        hs := hs';
        let evs = List.rev evs in
        ts := track_events !ts [] evs;
        let known = (match List.sort compare (List.map (fun s -> hex_of_bytes s.t_cid ^ "." ^ hex_of_bytes s.t_name ^ "." ^
                         (if s.t_unis = [] then "-" else String.concat "_" (List.map ni s.t_unis))) !ts) with
                     | [] -> "-" | l -> String.concat "," l) in
        t.cls <- (if List.exists (fun e -> match e with EvRdm133 _ -> true | _ -> false) evs then "e133"
                  else if List.exists (fun e -> match e with EvLlrp _ -> true | _ -> false) evs then "llrp"
                  else if List.exists (fun e -> match e with EvPage _ -> true | _ -> false) evs then "page"
                  else if List.exists (fun e -> match e with AcnEvData _ -> true | _ -> false) evs then "data"
                  else if evs <> [] then "dmp" else if changed then "state" else "drop") :: t.cls;
        let es = if evs = [] then "-" else String.concat "+" (List.map ev_s evs) in
        let src_s s = hex_of_bytes s.s_cid ^ "." ^ ni s.s_seq ^ "." ^ dbuf_s s.s_buf in
        let h_s h = "|u" ^ ni h.u_uni ^ ":" ^ dbuf_s h.u_buf ^ ":" ^ ni h.u_ap ^ ":" ^
                    String.concat "," (List.map src_s h.u_srcs) in
        t.steps <- ("e:" ^ es ^ String.concat "" (List.map h_s hs') ^ "|k:" ^ known) :: t.steps;
        trace_out t ("e:" ^ es ^ String.concat "" (List.map (fun h -> "|u" ^ ni h.u_uni ^ ":" ^ dbuf_s h.u_buf ^ ":" ^ ni h.u_ap) hs') ^ "|k:" ^ known))
      dgs with Exit -> ());
    trace_result t "acn"
  | _ -> "bad-args"
let () = register "acn" acn_op

(* dmpaddr <size> <type> <data>: DecodeAddress on exactly these bytes (capacity = their number) *)
let () = register "dmpaddr" (fun args ->
  match args with
  | [_; size; typ; data] ->
    let d = bytes_of_hex data in
    (match run d (decode_address (n_of_int (ios size)) (n_of_int (ios typ)) (n_of_int (List.length d))) with
     | Hazard h -> "hz=" ^ hazard_s h ^ ";twin=1;class=dmpaddr:hazard"
     | Done (a, len) ->
       let o = (match a with None -> "a:null" | Some ((s, i), n) -> "a:" ^ string_of_n s ^ "." ^ string_of_n i ^ "." ^ string_of_n n)
               ^ "|len:" ^ string_of_n len in
       "hz=none;twin=1;s0=" ^ o ^ ";o0=" ^ o ^ ";class=dmpaddr:" ^ (match a with None -> "null" | Some _ -> "decoded"))
  | _ -> "bad-args")
