"""C06 / E1.31 (ACN) part: sources, constants, generator."""
import os
NAME = 'acn'
GROUPS = ['acn']
CXX_SOURCES = []
HARNESS = 'h_acn.cpp'
COQ_FILES = ['GenAcn.v', 'Acn.v']
EXTRACT = ['track_events', 'decode_address', 'acn_handle', 'ACN_MAX_DATAGRAM']
RULE = ('E1.31: valid data packets (current and rev2 framing) and discovery pages (0-680 universes) built from the '
        'layout x per PDU level (root/E1.31/DMP): 2- vs 3-byte length field, length field -7..+100 around the real '
        'length, absolute lengths 0..header size+2 and 0xfff/0xfffff, every V/H/D flag combination with and without a '
        'previous PDU in the block, blocks ending inside a length field, wrong vectors, zero CID x DMP address '
        'type/size nibbles, increment, number of slots (0, n-1..n+2, 512-514, 0xffff), start codes, options, '
        'priorities 199-201, universes x DMP data cut at 0/1/5/6/7/8 bytes x >512 slots (clamp) x DMP PDUs ending exactly at each field boundary with consistent outer lengths after a full packet for '
        'the same/another universe x blocks of 2-3 PDUs per layer whose last PDU claims remaining-1/remaining/+1/+40/its untruncated length/block/block+1 with V/H inheritance flags varied, after a longer datagram x 2-4 CIDs merged at one priority then a priority raise by the source tracked first/second/last, followed by datagrams from the raiser and the dropped sources (handler buffer, active priority and per-source buffers compared with the model after every datagram) x source names of LEN-2/LEN-1/LEN non-NUL bytes followed by non-zero bytes (decoded source name observed at HandlePDUData and the discovery callback) x histories on the long-lived inflator chain: a packet whose root/E1.31/DMP block ends in a malformed trailing PDU, then a shorter packet whose first PDU at that layer has D/V/H clear and nothing after its header / vector / length field, then a valid packet x ACN preambles with the right identifier but every combination of non-standard preamble-size / post-amble-size fields (0, 15-18, datagram length -1/0/+1, 0xffff; sums beyond the datagram) after a longer datagram x universe-discovery page histories of up to 258 datagrams driving the 8-bit page counters to 0/1/2/127/128/254/255 (all pages, shuffled, one missing/duplicated/beyond last, 1-2 CIDs) with E131Node::GetKnownControllers() compared after every datagram x E1.33 (RPT) / LLRP packets (root -> framing header -> RDM PDU) with the same '
        'length/flag/vector mutations x every truncation '
        'length 0-139 and around the end x datagrams of capacity-1/capacity/capacity+1/1600 bytes with consistent '
        'and inconsistent lengths x discovery pages with an odd payload length x 3-9 packet sequences from several '
        'CIDs/priorities/sequence numbers (source tracking and HTP merge are prior state) x random bytes behind a '
        'valid preamble / plausible root+E1.31 PDU headers; 0-2 earlier datagrams; 0-3 handlers with '
        'unallocated/short/full buffers; ignore_preview on/off')
TRUSTED = ['modelled rather than verified: IncomingUDPTransport::Receive, BaseInflator::InflatePDUBlock/DecodeLength/'
           'DecodeVector/InflatePDU, Root/E131/E131Rev2/DMP Inflator::DecodeHeader, E131DiscoveryInflator (after fixes/02), E133Inflator/LLRPInflator/RDMInflator DecodeHeader+HandlePDUData (added to the root inflator by the harness; olad does not listen with them), '
           'E131Node::NewDiscoveryPage/TrackedSource::NewPage/GetKnownControllers (a real E131Node with enable_draft_discovery receives the discovery callbacks), DMPE131Inflator::HandlePDUData/TrackSourceIfRequired with DecodeAddress for TWO_BYTES/RANGE_EQUAL, '
           'DmxBuffer::Set/Reset/HTPMerge',
           'E1.31 source expiry (2.5 s of silence) is not modelled: a case is handled within milliseconds',
           'E1.31 source names are decoded by the code but not observed (no output depends on them in this chain)',
           'the harness wires the inflators as E131Node::E131Node does but does not construct E131Node itself '
           '(its discovery bookkeeping, NewDiscoveryPage, is behind the callback that is recorded)']


def gen_consts(v):
    a = 'ola::acn::'
    eh = a + 'E131Header::e131_pdu_header'
    rh = a + 'E131Rev2Header::e131_rev2_pdu_header'
    ents = [
        ('ACN_MAX_DATAGRAM', a + 'PreamblePacker::MAX_DATAGRAM_SIZE'),
        ('ACN_HEADER_SIZE', a + 'PreamblePacker::ACN_HEADER_SIZE'),
    ] + [('ACN_PRE_%d' % i, a + 'PreamblePacker::ACN_HEADER[%d]' % i) for i in range(16)] + [
        ('LFLAG_MASK', a + 'BaseInflator::LFLAG_MASK'),
        ('LENGTH_MASK', a + 'BaseInflator::LENGTH_MASK'),
        ('VFLAG_MASK', a + 'VFLAG_MASK'),
        ('HFLAG_MASK', a + 'HFLAG_MASK'),
        ('CID_LENGTH', a + 'CID::CID_LENGTH'),
        # m_vector_size: RootInflator/E131Inflator use BaseInflator()'s default, DMPInflator passes PDU::ONE_BYTE
        # (constructor arguments in the headers; the objects cannot be built without linking all of libs/acn)
        ('ROOT_VECTOR_SIZE', a + 'PDU::FOUR_BYTES'),
        ('E131_VECTOR_SIZE', a + 'PDU::FOUR_BYTES'),
        ('DMP_VECTOR_SIZE', a + 'PDU::ONE_BYTE'),
        ('E131_HEADER_SIZE', 'sizeof(%s)' % eh),
        ('E131_OFF_priority', 'offsetof(%s, priority)' % eh),
        ('E131_OFF_sequence', 'offsetof(%s, sequence)' % eh),
        ('E131_OFF_options', 'offsetof(%s, options)' % eh),
        ('E131_OFF_universe', 'offsetof(%s, universe)' % eh),
        ('E131_PREVIEW_MASK', a + 'E131Header::PREVIEW_DATA_MASK'),
        ('E131_TERMINATED_MASK', a + 'E131Header::STREAM_TERMINATED_MASK'),
        ('REV2_HEADER_SIZE', 'sizeof(%s)' % rh),
        ('REV2_OFF_priority', 'offsetof(%s, priority)' % rh),
        ('REV2_OFF_sequence', 'offsetof(%s, sequence)' % rh),
        ('REV2_OFF_universe', 'offsetof(%s, universe)' % rh),
        ('DMP_HEADER_SIZE', a + 'DMPHeader::DMP_HEADER_SIZE'),
        ('DMP_VIRTUAL_MASK', a + 'DMPHeader::VIRTUAL_MASK'),
        ('DMP_RELATIVE_MASK', a + 'DMPHeader::RELATIVE_MASK'),
        ('DMP_TYPE_MASK', a + 'DMPHeader::TYPE_MASK'),
        ('DMP_SIZE_MASK', a + 'DMPHeader::SIZE_MASK'),
        ('DMP_TWO_BYTES', a + 'TWO_BYTES'),
        ('DMP_ONE_BYTES', a + 'ONE_BYTES'), ('DMP_FOUR_BYTES', a + 'FOUR_BYTES'), ('DMP_RES_BYTES', a + 'RES_BYTES'),
        ('DMP_NON_RANGE', a + 'NON_RANGE'),
        ('DMP_ADDR_UNIT', a + 'DMPSizeToByteSize(' + a + 'TWO_BYTES)'),
        ('DMP_RANGE_EQUAL', a + 'RANGE_EQUAL'),
        ('VECTOR_ROOT_E131', a + 'VECTOR_ROOT_E131'),
        ('VECTOR_ROOT_E131_REV2', a + 'VECTOR_ROOT_E131_REV2'),
        ('VECTOR_E131_DATA', a + 'VECTOR_E131_DATA'),
        ('VECTOR_E131_DISCOVERY', a + 'VECTOR_E131_DISCOVERY'),
        ('DMP_SET_PROPERTY_VECTOR', a + 'DMP_SET_PROPERTY_VECTOR'),
        ('E131_SOURCE_NAME_LEN', a + 'E131Header::SOURCE_NAME_LEN'),
        ('E131_OFF_source', 'offsetof(' + a + 'E131Header::e131_pdu_header, source)'),
        ('REV2_SOURCE_NAME_LEN', a + 'E131Rev2Header::REV2_SOURCE_NAME_LEN'),
        ('REV2_OFF_source', 'offsetof(' + a + 'E131Rev2Header::e131_rev2_pdu_header, source)'),
        ('VECTOR_ROOT_RPT', a + 'VECTOR_ROOT_RPT'), ('VECTOR_ROOT_LLRP', a + 'VECTOR_ROOT_LLRP'),
        ('VECTOR_FRAMING_RDMNET', a + 'VECTOR_FRAMING_RDMNET'), ('VECTOR_LLRP_RDM_CMD', a + 'VECTOR_LLRP_RDM_CMD'),
        ('VECTOR_RDM_CMD_RDM_DATA', a + 'VECTOR_RDM_CMD_RDM_DATA'),
        ('RDM_VECTOR_SIZE', a + 'PDU::ONE_BYTE'),
        ('E133_HEADER_SIZE', 'sizeof(' + a + 'E133Header::e133_pdu_header)'),
        ('E133_OFF_sequence', 'offsetof(' + a + 'E133Header::e133_pdu_header, sequence)'),
        ('E133_OFF_endpoint', 'offsetof(' + a + 'E133Header::e133_pdu_header, endpoint)'),
        ('LLRP_HEADER_SIZE', 'sizeof(' + a + 'LLRPHeader::llrp_pdu_header)'),
        ('LLRP_OFF_transaction', 'offsetof(' + a + 'LLRPHeader::llrp_pdu_header, transaction_number)'),
        ('MAX_E131_PRIORITY', a + 'DMPE131Inflator::MAX_E131_PRIORITY'),
        ('MAX_MERGE_SOURCES', a + 'DMPE131Inflator::MAX_MERGE_SOURCES'),
        ('SEQ_DIFF_THRESHOLD_NEG', '-(int)' + a + 'DMPE131Inflator::SEQUENCE_DIFF_THRESHOLD'),
    ]
    incs = ['ola/acn/ACNFlags.h', 'ola/acn/ACNVectors.h', 'libs/acn/PreamblePacker.h', 'libs/acn/BaseInflator.h',
            'libs/acn/RootInflator.h', 'libs/acn/E131Inflator.h', 'libs/acn/DMPInflator.h', 'libs/acn/DMPE131Inflator.h',
            'libs/acn/E131Header.h', 'libs/acn/DMPHeader.h', 'libs/acn/DMPAddress.h', 'libs/acn/E133Header.h',
            'libs/acn/LLRPHeader.h', 'libs/acn/PDU.h']
    return v.gen_consts_cpp('C06/acn', incs, ents, os.path.join(v.VERIF, 'props', 'C06', 'coq', 'GenAcn.v'),
                            extra_sources=['libs/acn/DMPAddress.cpp', 'libs/acn/PreamblePacker.cpp', 'common/network/NetworkUtils.cpp', 'common/base/Logging.cpp', 'common/utils/StringUtils.cpp', 'common/network/IPV4Address.cpp', 'common/network/SocketAddress.cpp', 'common/network/Interface.cpp', 'common/network/MACAddress.cpp', 'common/utils/Clock.cpp', 'common/base/SysExits.cpp', 'common/base/Flags.cpp', 'common/base/Version.cpp', 'common/file/Util.cpp', 'common/network/SocketCloser.cpp', 'common/math/Random.cpp'])


PRE = [0x00, 0x10, 0x00, 0x00] + list(b'ASC-E1.17\0\0\0')
UNIS = [1, 2, 7]


def hx(bs):
    return ''.join('%02x' % (b & 255) for b in bs) if bs else '-'


def be16(x):
    return [(x >> 8) & 255, x & 255]


def be32(x):
    return [(x >> 24) & 255, (x >> 16) & 255, (x >> 8) & 255, x & 255]


def pdu(vec, hdr, data, fl=0x70, L=False, dlen=0, alen=None):
    """one PDU; fl = V|H|D flags; the length field is the real length + dlen, or alen"""
    body = (list(vec) if fl & 0x40 else []) + (list(hdr) if fl & 0x20 else []) + list(data)
    n = len(body) + (3 if L else 2)
    ln = (n + dlen if alen is None else alen) & (0xfffff if L else 0xfff)
    if L:
        return [0x80 | (fl & 0x70) | (ln >> 16), (ln >> 8) & 255, ln & 255] + body
    return [(fl & 0x70) | (ln >> 8), ln & 255] + body


def cid_of(k):
    return [0x10 + k] * 15 + [k]


class P(object):
    """parameters of one E1.31 packet; build() composes the three PDU levels"""
    def __init__(self, rng, kind=None, **kw):
        self.kind = kind or rng.choice(['data', 'data', 'rev2', 'disc'])
        self.cid = cid_of(rng.choice([1, 1, 1, 2, 3]))
        self.prio = rng.choice([100, 100, 100, 0, 50, 200])
        self.seq = rng.randrange(256)
        self.opts = 0
        self.uni = rng.choice(UNIS + [UNIS[0]] * 3)
        self.dmph = 0xa1
        self.dmpvec = 2
        self.evec = None
        self.rvec = None
        self.start, self.incr = 0, 1
        self.sc = 0
        k = rng.choice([0, 1, 2, 5, 24, 511, 512])
        self.slots = [rng.randrange(256) for _ in range(k)]
        self.number = None
        self.unis = [rng.randrange(65536) for _ in range(rng.choice([0, 1, 2, 3, 17]))]
        self.page, self.last = rng.randrange(3), rng.randrange(3)
        self.r = dict(fl=0x70)
        self.e = dict(fl=0x70)
        self.d = dict(fl=0x70)
        self.r_more, self.e_more, self.d_more = [], [], []   # further PDUs of the block (raw bytes)
        self.r_pre, self.e_pre, self.d_pre = [], [], []      # PDUs in front
        self.name = None                                      # source name bytes (unpadded)
        self.resv = [0, 0]
        self.__dict__.update(kw)

    def ehdr(self):
        if self.kind == 'rev2':
            nm = list(b'src') if self.name is None else list(self.name)
            return (nm + [0] * 32)[:32] + [self.prio, self.seq] + be16(self.uni)
        nm = list(b'source') if self.name is None else list(self.name)
        return (nm + [0] * 64)[:64] + [self.prio] + list(self.resv) + [self.seq, self.opts] + be16(self.uni)

    def dmp_data(self):
        if self.kind == 'rev2':
            n = len(self.slots) if self.number is None else self.number
            return be16(self.sc) + be16(self.incr) + be16(n) + self.slots
        n = len(self.slots) + 1 if self.number is None else self.number
        return be16(self.start) + be16(self.incr) + be16(n) + [self.sc] + self.slots

    def dmp_pdu(self):
        return pdu([self.dmpvec], [self.dmph], self.dmp_data(), **self.d)

    def e_pdu(self):
        if self.kind == 'disc':
            data = [self.page, self.last] + sum((be16(u) for u in self.unis), [])
            vec = 4
        else:
            data = self.d_pre + self.dmp_pdu() + self.d_more
            vec = 2
        return pdu(be32(vec if self.evec is None else self.evec), self.ehdr(), data, **self.e)

    def r_pdu(self):
        vec = 3 if self.kind == 'rev2' else 4
        return pdu(be32(vec if self.rvec is None else self.rvec), self.cid, self.e_pre + self.e_pdu() + self.e_more,
                   **self.r)

    def build(self):
        return PRE + self.r_pre + self.r_pdu() + self.r_more


def clone(p, **kw):
    q = P.__new__(P)
    q.__dict__.update({k: (dict(v) if isinstance(v, dict) else v) for k, v in p.__dict__.items()})
    for k, v in kw.items():
        if k in ('r', 'e', 'd'):
            getattr(q, k).update(v)
        else:
            setattr(q, k, v)
    return q


def mutants(rng, quick, kind):
    """yield (class, datagram bytes)"""
    v = P(rng, kind=kind)
    if kind == 'disc' and len(v.unis) == 0 and rng.random() < 0.5:
        v.unis = [1, 2]
    base = v.build()
    yield 'valid', base
    disc = kind == 'disc'
    hs = {'r': 16, 'e': 36 if kind == 'rev2' else 71, 'd': 1}
    vs = {'r': 4, 'e': 4, 'd': 1}
    levels = ['r', 'e'] + ([] if disc else ['d'])
    for lv in levels:
        # 2- vs 3-byte length
        yield lv + '-L', clone(v, **{lv: dict(L=True)}).build()
        # length field around the real length; discovery payloads keep an even length here (see odd below)
        for dl in ((-2, 2, 4) if disc else (-1, 1, 2, -7, 100)):
            yield lv + '-len%+d' % dl, clone(v, **{lv: dict(dlen=dl)}).build()
            yield lv + '-Llen%+d' % dl, clone(v, **{lv: dict(dlen=dl, L=True)}).build()
        # absolute lengths: zero-length PDU, shorter than its own length field, around vector and header sizes
        for al in (0, 1, 2, 3, 4, 2 + vs[lv] - 1, 2 + vs[lv], 2 + vs[lv] + 1, 2 + vs[lv] + hs[lv] - 1,
                   2 + vs[lv] + hs[lv], 2 + vs[lv] + hs[lv] + 2, 0xfff):
            for L in (False, True):
                if disc and lv == 'e' and al > 2 + vs[lv] + hs[lv] and al != 0xfff:
                    continue
                yield lv + '-alen', clone(v, **{lv: dict(alen=al + (1 if L else 0), L=L)}).build()
        yield lv + '-alenmax', clone(v, **{lv: dict(alen=0xfffff, L=True)}).build()
        # inheritance flags without a previous PDU
        for fl in (0x30, 0x50, 0x10, 0x00, 0x60, 0x20, 0x40):
            yield lv + '-fl%02x-first' % fl, clone(v, **{lv: dict(fl=fl)}).build()
    # inheritance with a previous PDU in the same block, per level
    w = P(rng, kind=kind, cid=v.cid, prio=v.prio, seq=(v.seq + 1) & 255)
    for fl in (0x70, 0x30, 0x50, 0x10, 0x00):
        q = clone(w, r=dict(fl=fl))
        yield 'r-inherit%02x' % fl, clone(v, r_more=q.r_pdu()).build()
        q = clone(w, e=dict(fl=fl))
        yield 'e-inherit%02x' % fl, clone(v, e_more=q.e_pdu()).build()
        if not disc:
            q = clone(w, d=dict(fl=fl), slots=[rng.randrange(256) for _ in range(3)], seq=v.seq)
            yield 'd-inherit%02x' % fl, clone(v, d_more=q.dmp_pdu()).build()
    # a bad PDU first, then a good one inheriting / not inheriting
    yield 'r-badfirst', clone(v, r_pre=pdu(be32(9), cid_of(5), [1, 2, 3])).build()
    yield 'r-zerocid', clone(v, cid=[0] * 16, r_more=clone(w, r=dict(fl=0x50)).r_pdu()).build()
    yield 'e-badfirst', clone(v, e_pre=pdu(be32(7), v.ehdr(), [1, 2, 3])).build()
    # a block that ends in the middle of a PDU's length field (1 byte, or 2 bytes with the L flag)
    for tail in ([0xf0, 0x00], [0x70], [0xf0], [0xf0, 0x00, 0x02], [0x70, 0x01]):
        yield 'r-tail', base + tail
        yield 'e-tail', clone(v, e_more=tail).build()
        if not disc:
            yield 'd-tail', clone(v, d_more=tail).build()
    # vectors
    for rv in (0, 3, 4, 5, 0x04000000):
        yield 'rvec', clone(v, rvec=rv).build()
    for ev in (0, 2, 3, 4, 8, 0x02000000):
        if not (disc and ev == 4 and False):
            yield 'evec', clone(v, evec=ev).build()
    if not disc:
        for dv in (0, 1, 3):
            yield 'dvec', clone(v, dmpvec=dv).build()
        # the DMP address type / size nibbles
        for h in (0xa1, 0xa0, 0xa2, 0xa3, 0x81, 0x91, 0xb1, 0x21, 0xe1, 0x00, 0xff, rng.randrange(256)):
            yield 'dmph', clone(v, dmph=h).build()
        # address fields
        n = len(v.slots)
        for num in (0, 1, 2, n - 1, n, n + 1, n + 2, 512, 513, 514, 0xffff):
            yield 'number', clone(v, number=num & 0xffff).build()
        for inc in (0, 2, 0x100, 0xffff):
            yield 'incr', clone(v, incr=inc).build()
        for st in (1, 0xff, 0xdd00):
            yield 'start', clone(v, start=st, sc=(st if kind == 'rev2' else v.sc)).build()
        for sc in (1, 0xdd):
            yield 'startcode', clone(v, sc=sc).build()
            yield 'startcode-term', clone(v, sc=sc, opts=0x40).build()
        for o in (0x80, 0x40, 0xc0, 0x3f):
            yield 'opts', clone(v, opts=o).build()
        for pr in (0, 199, 200, 201, 255):
            yield 'prio', clone(v, prio=pr).build()
        for u in (0, 1, 2, 3, 7, 0x0100, 0xffff):
            yield 'uni', clone(v, uni=u).build()
        # DMP data cut to the address boundary: 5/6/7 bytes after the header
        for k in (0, 1, 5, 6, 7, 8):
            dd = v.dmp_data()[:k]
            q = clone(v)
            q.dmp_data = lambda dd=dd: dd
            yield 'dmpdata%d' % k, q.build()
        # more slots than a universe: clamp
        for k in (513, 600, 1300):
            yield 'clamp', clone(v, slots=[rng.randrange(256) for _ in range(k)]).build()
    else:
        for k in (0, 1, 2, 100, 512, 680):
            yield 'disc-n', clone(v, unis=[rng.randrange(65536) for _ in range(k)]).build()
    # truncation
    cuts = set(range(0, 140)) | {len(base) - k for k in range(0, 4)}
    if not quick:
        cuts |= set(range(0, len(base) + 1))
    else:
        cuts |= {rng.randrange(len(base) + 1) for _ in range(4)}
    for c in sorted(x for x in cuts if 0 <= x <= len(base)):
        yield 'trunc', base[:c]
    # capacity-1 / capacity / capacity+1 / larger: lengths consistent with the (truncated) datagram, or not
    for total in (1471, 1472, 1473, 1600):
        if disc:
            k = (total - len(clone(v, unis=[]).build())) // 2
            q = clone(v, unis=[rng.randrange(65536) for _ in range(k)])
        else:
            k = total - len(clone(v, slots=[]).build())
            q = clone(v, slots=[rng.randrange(256) for _ in range(k)])
        yield 'cap%d' % total, q.build()
        for tail in ([0xf0, 0x00], [0x70]):
            if disc:
                # whole universes only: an odd remainder is filled by a root PDU without a vector
                room = total - len(clone(v, unis=[]).build()) - len(tail)
                fill = [0x30, 0x03, 0x00] if room % 2 else []
                q2 = clone(q, unis=q.unis[:(room - len(fill)) // 2])
                tail = fill + tail
            else:
                q2 = clone(q, slots=q.slots[len(tail):])
            yield 'cap%d-tail' % total, q2.build() + tail
        yield 'cap%d+tail' % total, (q.build() + [rng.randrange(256) for _ in range(40)])
    big = clone(v, slots=[rng.randrange(256) for _ in range(1346)], unis=[7] * 680)
    yield 'cap-claim', clone(big, r=dict(dlen=1)).build()
    yield 'cap-claim', clone(big, e=dict(dlen=1)).build()


def dmp_boundaries(rng, quick):
    """yield (config, [datagrams]): E1.31 data packets whose DMP PDU ends exactly at each field boundary (after the
    length, vector, address type, first address, increment, count, start code, k values) with ALL outer lengths
    consistent with the shortened datagram, preceded by a full valid packet for the same / another universe
    (so that the bytes after the datagram in a persistent receive buffer are a plausible start code + slots)"""
    for kind in ('data', 'rev2'):
        for other in (False, True):
            for samecid in (True, False):
                seq = rng.randrange(200)
                nprev = rng.choice([512, 512, 24])
                prev = P(rng, kind=rng.choice([kind, kind, 'data']), uni=2 if other else 1, cid=cid_of(1), prio=100,
                         seq=seq, opts=0, slots=[rng.randrange(1, 256) for _ in range(nprev)])
                v = P(rng, kind=kind, uni=1, cid=cid_of(1 if samecid else 2), prio=100, seq=(seq + 1) & 255, opts=0,
                      slots=[rng.randrange(1, 256) for _ in range(5)])
                full = v.dmp_pdu()
                cuts = [2, 3, 4, 6, 8, 9, 10, 11, 12, 13, len(full) - 1, len(full)]
                if not quick:
                    cuts = list(range(0, len(full) + 1))
                for c in cuts:
                    for number in ((None, 0) if c == 10 else (None,)):
                        q = clone(v) if number is None else clone(v, number=number)
                        cut = q.dmp_pdu()[:c]
                        if c >= 2:
                            cut[0], cut[1] = 0x70 | (c >> 8), c & 255
                        q.dmp_pdu = lambda cut=cut: cut
                        cfg = '%s,1:%s,2:none' % (rng.choice('0001'), rng.choice(['none', hx([7] * 512)]))
                        yield cfg, [hx(prev.build()), hx(q.build())]


def rpt_packet(rng, kind, n=None, r=None, f=None, m=None, fvec=None, mvec=0xcc, more_f=(), more_m=()):
    """E1.33 (RPT) / LLRP packet: root -> framing (E133 / LLRP header) -> RDM PDU; r/f/m = pdu() keyword overrides"""
    data = [rng.randrange(256) for _ in range(rng.choice([0, 1, 3, 26, 200]) if n is None else n)]
    if kind == 'e133':
        hdr = list(b'rpt-source'.ljust(64, b'\0')) + be32(rng.randrange(1 << 32)) + be16(rng.randrange(65536)) + [0]
        rvec, fv = 5, 1
    else:
        hdr = cid_of(rng.randrange(1, 5)) + be32(rng.randrange(1 << 32))
        rvec, fv = 10, 3
    mp = pdu([mvec], [], data, **(m or dict(fl=0x70))) + list(more_m)
    fp = pdu(be32(fv if fvec is None else fvec), hdr, mp, **(f or dict(fl=0x70))) + list(more_f)
    return PRE + pdu(be32(rvec), cid_of(1), fp, **(r or dict(fl=0x70)))


def rpt_cases(rng, quick):
    """yield lists of datagrams for the E1.33 / LLRP header decoders"""
    for kind in ('e133', 'llrp'):
        hs = 71 if kind == 'e133' else 20
        full = rpt_packet(rng, kind, n=40)
        yield [full]
        for lv in ('r', 'f', 'm'):
            for dl in (-1, 1, 2, 100):
                yield [rpt_packet(rng, kind, **{lv: dict(fl=0x70, dlen=dl)})]
            yield [rpt_packet(rng, kind, **{lv: dict(fl=0x70, L=True)})]
            for fl in (0x30, 0x50, 0x10, 0x00, 0x60):
                yield [rpt_packet(rng, kind, **{lv: dict(fl=fl)})]
        # the framing PDU's length around vector and header sizes
        for al in (0, 1, 2, 5, 6, 7, 6 + hs - 1, 6 + hs, 6 + hs + 1, 6 + hs + 2, 6 + hs + 3, 6 + hs + 4):
            yield [rpt_packet(rng, kind, f=dict(fl=0x70, alen=al))]
        for al in (0, 1, 2, 3, 4):
            yield [rpt_packet(rng, kind, m=dict(fl=0x70, alen=al))]
        for fv in (0, 1, 2, 3, 4):
            yield [rpt_packet(rng, kind, fvec=fv)]
        for mv in (0, 0xcb, 0xcd):
            yield [rpt_packet(rng, kind, mvec=mv)]
        # second PDUs inheriting vector / header
        for fl in (0x70, 0x30, 0x50, 0x10, 0x00):
            yield [rpt_packet(rng, kind, more_m=pdu([0xcc], [], [1, 2, 3], fl=fl))]
            hdr2 = ([7] * hs)
            yield [rpt_packet(rng, kind, more_f=pdu(be32(1 if kind == 'e133' else 3), hdr2, pdu([0xcc], [], [9, 9]), fl=fl))]
        # truncation (outer lengths unchanged) after a full packet of the same kind
        cuts = set(range(16, 16 + 6 + 16 + 6 + hs + 8)) | {len(full) - 1, len(full)}
        if quick:
            cuts = set(sorted(cuts)[::3]) | {16 + 22 + 6 + hs + k for k in (-1, 0, 1, 2, 3)}
        for c in sorted(cuts):
            yield [rpt_packet(rng, kind, n=60), full[:c]]
        # maximum-size
        for total in (1471, 1472, 1473):
            k = total - len(rpt_packet(rng, kind, n=0))
            yield [rpt_packet(rng, kind, n=k)]


def long_names(rng, quick):
    """yield (config, [datagrams]): source names of LEN-2/LEN-1/LEN non-NUL bytes, every later byte of the datagram
    non-zero where the protocol allows it, datagram ending right after the last universe / slot, after a long one"""
    for kind in ('disc', 'data', 'rev2'):
        ln = 32 if kind == 'rev2' else 64
        for k in (ln - 2, ln - 1, ln):
            for prevlong in (False, True):
                nm = [rng.randrange(1, 256) for _ in range(k)]
                v = P(rng, kind=kind, name=nm, resv=[3, 4], prio=100, seq=rng.randrange(1, 256), opts=0x21, uni=0x0101,
                      start=0x0101, sc=0, slots=[rng.randrange(1, 256) for _ in range(5)],
                      unis=[0x0101 + i for i in range(rng.choice([0, 1, 3]))], page=1, last=2)
                prev = P(rng, kind='data', uni=1, slots=[rng.randrange(1, 256) for _ in range(512 if prevlong else 3)])
                yield '0,1:none,257:none', [hx(prev.build()), hx(v.build())]
                if not quick or k == ln:
                    big = 1472 - len(clone(v, unis=[], slots=[]).build())
                    w = clone(v, unis=[0x0101] * (big // 2), slots=[7] * big)
                    yield '0,1:none,257:none', [hx(w.build())]


def overclaim(rng, quick):
    """yield (config, [datagrams]): blocks of 2-3 PDUs at each layer (root / E1.31 framing / DMP) whose LAST PDU claims
    remaining-1 / remaining / remaining+1 / its full untruncated length (<= block total when the first PDU is big) /
    more than the block, the datagram ending inside that PDU; inheritance flags varied; after a longer datagram"""
    for kind in ('data', 'rev2'):
        for lv in ('r', 'e', 'd'):
            for fl in (0x70, 0x30, 0x50, 0x10):
                for nfirst in ((1, 2) if not quick else (rng.choice([1, 2]),)):
                    seq = rng.randrange(100)
                    first = P(rng, kind=kind, uni=1, cid=cid_of(1), prio=100, seq=seq, opts=0,
                              slots=[rng.randrange(1, 256) for _ in range(512)])
                    last = P(rng, kind=kind, uni=2 if lv != 'd' else 1, cid=cid_of(1 if lv != 'r' else 2), prio=100,
                             seq=(seq + 1) & 255, opts=0, slots=[rng.randrange(1, 256) for _ in range(200)])
                    getattr(last, lv)['fl'] = fl
                    full = {'r': last.r_pdu, 'e': last.e_pdu, 'd': last.dmp_pdu}[lv]()
                    keep = len(full) - 150           # the datagram ends after 50 of the 200 slots
                    total = {'r': first.r_pdu, 'e': first.e_pdu, 'd': first.dmp_pdu}[lv]()
                    block = len(total) * nfirst + keep
                    for claim in (keep - 1, keep, keep + 1, keep + 40, len(full), block, block + 1, 0xfff):
                        piece = full[:keep]
                        piece[0] = (piece[0] & 0xf0 & ~0x80) | ((claim >> 8) & 0xf)
                        piece[1] = claim & 255
                        extra = total * (nfirst - 1) + piece
                        q = clone(first, **{lv + '_more': extra})
                        prev = P(rng, kind=kind, uni=2, cid=cid_of(3), prio=100,
                                 slots=[rng.randrange(1, 256) for _ in range(512)])
                        pad = [rng.randrange(1, 256) for _ in range(400)]
                        yield '0,1:none,2:none', [hx(prev.build() + pad), hx(q.build())]


def prio_raise(rng, quick):
    """yield (config, [datagrams]): 2-4 sources (CIDs) merged at one priority on one universe, then a datagram with a
    HIGHER priority from the source tracked first / second / last (all other sources are dropped and the universe
    outputs that source's NEW slots), then further datagrams from it and from the dropped ones"""
    for kind in ('data', 'rev2'):
        for nsrc in (2, 3, 4):
            for who in range(nsrc):
                seqs = [rng.randrange(100) for _ in range(nsrc)]
                base = rng.choice([0, 100, 150])
                dgs = []
                def pk(i, prio, **kw):
                    seqs[i] = (seqs[i] + 1) & 255
                    n = rng.choice([1, 5, 24, 512])
                    return hx(P(rng, kind=kind, uni=1, cid=cid_of(i + 1), prio=prio, seq=seqs[i], opts=0,
                                slots=[rng.randrange(1, 256) for _ in range(n)], **kw).build())
                for rnd in range(rng.choice([1, 2])):
                    for i in range(nsrc):
                        dgs.append(pk(i, base))
                up = base + rng.choice([1, 50])
                dgs.append(pk(who, up))                       # the raise
                dgs.append(pk(who, up))                       # the raiser again
                dgs.append(pk((who + 1) % nsrc, base))        # a dropped source at the old priority: ignored
                dgs.append(pk((who + 1) % nsrc, up))          # joins at the new priority
                if rng.random() < 0.5:
                    dgs.append(pk(who, up - 1 if up > 0 else 0))   # the raiser lowers its priority
                yield '0,1:%s' % rng.choice(['none', hx([9] * 512)]), dgs


def disc_histories(rng, quick):
    """yield lists of datagrams: universe-discovery page sequences that drive the 8-bit page counters to their limits:
    last_page in {0, 1, 2, 127, 128, 254, 255}, all pages 0..last in order / shuffled / one missing / one duplicated /
    page > last, then one more page after completion; one or two CIDs; E131Node::GetKnownControllers() is compared
    after every datagram"""
    lasts = [0, 1, 2, 127, 128, 254, 255]
    for last in lasts:
        kinds = ['all', 'shuffled', 'missing', 'dup', 'beyond']
        if quick:
            kinds = ['all'] + ([rng.choice(kinds[1:])] if last < 100 else [])
        for kind in kinds:
            pages = list(range(last + 1))
            if kind == 'shuffled':
                rng.shuffle(pages)
            elif kind == 'missing' and last > 0:
                pages.remove(rng.randrange(last + 1))
            elif kind == 'dup':
                pages.insert(rng.randrange(len(pages)), rng.choice(pages))
            elif kind == 'beyond':
                pages.insert(rng.randrange(len(pages)), min(255, last + 1))
            cids = [cid_of(1)] if rng.random() < 0.7 else [cid_of(1), cid_of(2)]
            dgs = []
            for pg in pages:
                cid = rng.choice(cids)
                dgs.append(P(rng, kind='disc', cid=cid, page=pg, last=last,
                             unis=[(pg * 3 + k) & 0xffff for k in range(rng.choice([0, 1, 2]))],
                             name=list(b'ctl%d' % cid[15])).build())
            # after completion: one more page, and a page with another last_page
            dgs.append(P(rng, kind='disc', cid=cids[0], page=0, last=last, unis=[7], name=list(b'again')).build())
            dgs.append(P(rng, kind='disc', cid=cids[0], page=rng.choice([0, 1, 255]), last=rng.choice([0, 1, 255]),
                         unis=[9], name=list(b'ctl1')).build())
            yield dgs


def preambles(rng, quick):
    """yield lists of datagrams: a valid packet whose ACN preamble keeps the packet identifier but carries every
    combination of non-standard preamble-size / post-amble-size fields (0, 15, 16, 17, the datagram length -1/0/+1,
    0xffff; post-amble 0, 1, 16, what is left after the preamble -1/0/+1, the datagram length, 0xffff; sums that
    exceed the datagram), after a longer datagram; and identifiers that differ in one byte"""
    for kind in ('data', 'disc'):
        v = P(rng, kind=kind, uni=1, cid=cid_of(1), prio=100, opts=0, slots=[rng.randrange(1, 256) for _ in range(20)],
              unis=[1, 2, 3])
        base = v.build()
        n = len(base)
        prev = P(rng, kind='data', uni=1, cid=cid_of(2), prio=100, slots=[rng.randrange(1, 256) for _ in range(512)]).build()
        pres = [0, 15, 16, 17, 18, 38, n - 1, n, n + 1, 0xffff]
        posts = [0, 1, 16, 22, n - 17, n - 16, n - 15, n - 1, n, n + 1, 0xffff]
        combos = [(a, b) for a in pres for b in posts if (a, b) != (16, 0)]
        if quick:
            combos = rng.sample(combos, 30) + [(16, 1), (16, n - 16), (16, n - 15), (17, 0), (n, 0), (n, 1), (n - 1, 2)]
        for a, b in combos:
            d = list(base)
            d[0:4] = be16(a & 0xffff) + be16(b & 0xffff)
            yield [prev, d]
        for i in range(4, 16):
            d = list(base)
            d[i] ^= 1
            yield [prev, d]


def dflag_hist(rng, quick):
    """yield (config, [datagrams]): flag combinations the packers never produce, in histories on the long-lived
    inflator chain: datagram 1 is a valid data packet whose root / E1.31 / DMP block ends in a malformed trailing PDU
    (stray byte, half a length field, over-long length); datagram 2 is shorter and its first PDU at that layer has
    D (and V / H) clear with NOTHING after the header (or after the vector / length), all outer lengths consistent;
    then a valid packet.  The unchanged code ignores the D flag: a PDU without data has no data."""
    tails = ([0x70], [0xf0], [0xf0, 0x00], [0x70, 0x01], [0x7f, 0xff])
    for kind in ('data', 'rev2'):
        for lv in ('r', 'e', 'd'):
            for tail in (tails if not quick else rng.sample(tails, 2)):
                seq = rng.randrange(100)
                first = P(rng, kind=kind, uni=1, cid=cid_of(1), prio=100, seq=seq, opts=0,
                          slots=[rng.randrange(1, 256) for _ in range(rng.choice([24, 512]))])
                setattr(first, lv + '_more', list(tail))
                for fl in (0x60, 0x20, 0x40, 0x00, 0x50, 0x30):
                    for body in ('hdr', 'vec', 'none'):
                        if quick and rng.random() < 0.5 and not (body == 'hdr' and fl in (0x60, 0x20)):
                            continue
                        q = P(rng, kind=kind, uni=1, cid=cid_of(1), prio=100, seq=(seq + 1) & 255, opts=0, slots=[])
                        vec, hd = {'r': (be32(3 if kind == 'rev2' else 4), q.cid), 'e': (be32(2), q.ehdr()),
                                   'd': ([2], [0xa1])}[lv]
                        v2 = vec if body in ('hdr', 'vec') else []
                        h2 = hd if body == 'hdr' else []
                        raw = pdu(v2, h2, [], fl=0x70)
                        raw[0] = (raw[0] & 0x0f) | fl          # the flags say what they say, the body is what it is
                        if lv == 'd':
                            q.dmp_pdu = lambda raw=raw: raw
                        elif lv == 'e':
                            q.e_pdu = lambda raw=raw: raw
                        else:
                            q.r_pdu = lambda raw=raw: raw
                        last = P(rng, kind=kind, uni=1, cid=cid_of(1), prio=100, seq=(seq + 2) & 255, opts=0,
                                 slots=[rng.randrange(1, 256) for _ in range(5)])
                        yield '0,1:none,2:none', [hx(first.build()), hx(q.build()), hx(last.build())]


def odd_disc(rng):
    """discovery pages whose universe list has an odd number of bytes (fixes/02)"""
    v = P(rng, kind='disc', unis=[1, 2])
    q = clone(v)
    k = rng.choice([1, 3, 5])
    tail = [rng.randrange(256) for _ in range(k)]
    e = pdu(be32(4), v.ehdr(), [v.page, v.last] + tail)
    return PRE + pdu(be32(4), v.cid, e)


def config(rng):
    k = rng.choice([1, 1, 2, 3, 0])
    us = sorted(rng.sample(UNIS, k))
    def init():
        c = rng.choice(['none', 'none', 'short', 'full'])
        if c == 'none':
            return 'none'
        n = 512 if c == 'full' else rng.choice([1, 5, 100])
        return hx([rng.randrange(1, 256) for _ in range(n)])
    return ','.join([rng.choice('0001')] + ['%d:%s' % (u, init()) for u in us])


def earlier(rng):
    out = []
    for _k in range(rng.choice([0, 0, 1, 2])):
        r = rng.random()
        if r < 0.8:
            out.append(hx(P(rng, kind=rng.choice(['data', 'data', 'rev2'])).build()))
        elif r < 0.9:
            out.append(hx(P(rng, kind='disc').build()))
        else:
            out.append(hx(PRE + [rng.randrange(256) for _ in range(rng.choice([3, 47, 1456, 1500]))]))
    return out


OPS = ['dmpaddr']


def gen_cases(rng, tier):
    quick = tier == 'quick'
    # DecodeAddress directly, for the only combination a received datagram can reach (DMPE131Inflator::HandlePDUData
    # returns unless Size() == TWO_BYTES && Type() == RANGE_EQUAL): every data length around the 6 address bytes.
    # (The NON_RANGE two-/four-byte cases over-read in the unchanged tree - a latent defect of the library function,
    # outside the property; see fixes-optional-not-applied/03.)
    for n in list(range(0, 14)) + [64, 513]:
        for _k in range(1 if quick else 8):
            yield 'dmpaddr 1 2 %s' % hx([rng.randrange(256) for _ in range(n)])
    for _ in range(1 if quick else 30):
        for kind in ('data', 'rev2', 'disc'):
            for cls, dg in mutants(rng, quick, kind):
                yield 'acn %s %s' % (config(rng), ' '.join(earlier(rng) + [hx(dg)]))
    for _ in range(3 if quick else 200):
        yield 'acn %s %s' % (config(rng), ' '.join(earlier(rng) + [hx(odd_disc(rng))]))
    for _ in range(1 if quick else 10):
        for cfg, dgs in long_names(rng, quick):
            yield 'acn %s %s' % (cfg, ' '.join(dgs))
        for cfg, dgs in overclaim(rng, quick):
            yield 'acn %s %s' % (cfg, ' '.join(dgs))
        for cfg, dgs in prio_raise(rng, quick):
            yield 'acn %s %s' % (cfg, ' '.join(dgs))
    for _ in range(1 if quick else 3):
        for cfg, dgs in dflag_hist(rng, quick):
            yield 'acn %s %s' % (cfg, ' '.join(dgs))
    for _ in range(1 if quick else 4):
        for dgs in preambles(rng, quick):
            yield 'acn 0,1:none,2:none %s' % ' '.join(hx(d) for d in dgs)
    for _ in range(1 if quick else 4):
        for dgs in disc_histories(rng, quick):
            yield 'acn %s %s' % (config(rng), ' '.join(hx(d) for d in dgs))
    for _ in range(1 if quick else 10):
        for dgs in rpt_cases(rng, quick):
            yield 'acn %s %s' % (config(rng), ' '.join(hx(d) for d in dgs))
    for _ in range(1 if quick else 20):
        for cfg, dgs in dmp_boundaries(rng, quick):
            yield 'acn %s %s' % (cfg, ' '.join(dgs))
    # sequences from several sources / priorities (tracking state is prior state for the next datagram)
    for _ in range(60 if quick else 3000):
        many = rng.random() < 0.4     # up to 8 sources at one priority: MAX_MERGE_SOURCES is reached
        def one():
            if many:
                return P(rng, kind=rng.choice(['data', 'data', 'rev2']), cid=cid_of(rng.randrange(1, 9)),
                         prio=rng.choice([100, 100, 100, 100, 100, 100, 101, 99]), uni=UNIS[0],
                         opts=rng.choice([0] * 9 + [0x40]))
            return P(rng, kind=rng.choice(['data', 'rev2']), opts=rng.choice([0, 0, 0, 0x40]))
        yield 'acn %s %s' % (config(rng) if not many else '0,%d:none' % UNIS[0],
                             ' '.join(hx(one().build()) for _k in range(rng.choice([3, 4, 6, 9, 12]))))
    for _ in range(250 if quick else 20000):
        n = rng.choice([0, 1, 15, 16, 17, 18, 19, 40, 126, 200, 1472, 1500, rng.randrange(1, 1500)])
        bs = [rng.randrange(256) for _ in range(n)]
        if rng.random() < 0.9:
            bs[:16] = PRE[:min(n, 16)] if n else []
            bs = bs[:n]
        if n > 40 and rng.random() < 0.7:
            # a plausible root PDU in front of the noise
            ln = rng.choice([n - 16, n - 17, n - 15, 22, 30])
            bs[16:22] = [0x70 | ((ln >> 8) & 0xf), ln & 255] + be32(rng.choice([3, 4]))
            if rng.random() < 0.7:
                l2 = rng.choice([ln - 22, ln - 21, 10, 77])
                bs[38:44] = [0x70 | ((l2 >> 8) & 0xf), l2 & 255] + be32(rng.choice([2, 2, 4]))
        yield 'acn %s %s' % (config(rng), ' '.join(earlier(rng) + [hx(bs)]))


def nontrivial(payload, md):
    if payload.startswith('dmpaddr'):
        return 'a:null' not in md.get('s0', 'a:null')
    for k, v in md.items():
        if k.startswith('s') and v.startswith('e:'):
            evs = v[2:].split('|')[0].split('+')
            if any(e and e[0] in 'dprl' for e in evs):
                return True
    return False
