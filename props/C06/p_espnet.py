"""C06 / ESP Net part: sources, constants, generator."""
import os
NAME = 'espnet'
CXX_SOURCES = ['plugins/espnet/EspNetNode.cpp', 'plugins/espnet/RunLengthDecoder.cpp']
HARNESS = 'h_espnet.cpp'
COQ_FILES = ['GenEspNet.v', 'EspNet.v']
EXTRACT = ['es_handle', 'ES_PACKET_SIZE']
RULE = ('ESP Net: valid poll/reply/ack/dmx packets (RAW, PAIRS, RLE, unknown data types; universes 0-255) x size field '
        'at -1/0/+1 around the received data length, 0, 512, 513, 0xffff x every truncation length around the 4/5/6/9/33 '
        'byte headers and the data end x RLE streams ending in REPEAT / REPEAT+count / ESCAPE (by datagram end and by '
        'the size field) x capacity-1/capacity/capacity+1 datagrams x datagrams from our own address x random bytes; '
        '0-2 earlier datagrams; handlers on 0-3 universes with unallocated/short/full buffers')
TRUSTED = ['modelled rather than verified: EspNetNode::SocketReady/HandlePoll/HandleReply/HandleAck/HandleData, '
           'espnet RunLengthDecoder::Decode (after fixes/08), DmxBuffer::Set/Reset/SetChannel/SetRangeToValue; the poll '
           'reply / ack packets are compared byte for byte with what SendEspPollReply/SendEspAck produce on a '
           'reference node (their content is not modelled)']


def gen_consts(v):
    e = 'ola::plugin::espnet::'
    ents = [
        ('ES_PACKET_SIZE', 'sizeof(%sespnet_packet_union_t)' % e),
        ('ES_HEAD_SIZE', 'sizeof(((%sespnet_packet_union_t*)0)->poll.head)' % e),
        ('ES_POLL_SIZE', 'sizeof(%sespnet_poll_t)' % e),
        ('ES_REPLY_SIZE', 'sizeof(%sespnet_poll_reply_t)' % e),
        ('ES_ACK_SIZE', 'sizeof(%sespnet_ack_t)' % e),
        ('ES_DATA_SIZE', 'sizeof(%sespnet_data_t)' % e),
        ('ES_OFF_poll_type', 'offsetof(%sespnet_poll_t, type)' % e),
        ('ES_OFF_universe', 'offsetof(%sespnet_data_t, universe)' % e),
        ('ES_OFF_type', 'offsetof(%sespnet_data_t, type)' % e),
        ('ES_OFF_size', 'offsetof(%sespnet_data_t, size)' % e),
        ('ES_OFF_data', 'offsetof(%sespnet_data_t, data)' % e),
        ('ES_POLL', '(uint32_t)%sESPNET_POLL' % e),
        ('ES_REPLY', '(uint32_t)%sESPNET_REPLY' % e),
        ('ES_DMX', '(uint32_t)%sESPNET_DMX' % e),
        ('ES_ACK', '(uint32_t)%sESPNET_ACK' % e),
        ('ES_DATA_RAW', '%sEspNetNode::DATA_RAW' % e),
        ('ES_DATA_PAIRS', '%sEspNetNode::DATA_PAIRS' % e),
        ('ES_DATA_RLE', '%sEspNetNode::DATA_RLE' % e),
        ('ES_REPEAT_VALUE', '%sRunLengthDecoder::REPEAT_VALUE' % e),
        ('ES_ESCAPE_VALUE', '%sRunLengthDecoder::ESCAPE_VALUE' % e),
    ]
    return v.gen_consts_cpp('C06/espnet', ['ola/Constants.h', 'plugins/espnet/EspNetNode.h'], ents,
                            os.path.join(v.VERIF, 'props', 'C06', 'coq', 'GenEspNet.v'))


CAP = 521
HDR = 9


def hx(bs):
    return ''.join('%02x' % (b & 255) for b in bs) if bs else '-'


def be16(x):
    return [(x >> 8) & 255, x & 255]


def rle(f):
    """ESP Net run length encoding: 0xFE count value / 0xFD escape"""
    out, i, n = [], 0, len(f)
    while i < n:
        j = i + 1
        while j < n and f[j] == f[i] and j - i < 255:
            j += 1
        if j - i > 2:
            out += [0xFE, j - i, f[i]]
            i = j
        else:
            if f[i] in (0xFD, 0xFE):
                out.append(0xFD)
            out.append(f[i])
            i += 1
    return out


def dmx(u=0, ty=1, size=None, data=(), start=0):
    data = list(data)
    if size is None:
        size = len(data)
    return list(b'ESDD') + [u & 255, start, ty] + be16(size & 0xffff) + data


def poll(t=1):
    return list(b'ESPP') + [t]


def ack(rng):
    return list(b'ESAP') + [rng.randrange(256), rng.randrange(256)]


def reply(rng):
    return list(b'ESPR') + [rng.randrange(256) for _ in range(29)]


def frame(rng):
    n = rng.choice([1, 2, 3, 4, 5, 24, 100, 254, 255, 256, 300, 511, 512])
    k = rng.choice(['rand', 'eq', 'few', 'marks'])
    if k == 'rand':
        return [rng.randrange(256) for _ in range(n)]
    if k == 'eq':
        return [rng.randrange(256)] * n
    if k == 'marks':
        return [rng.choice([0xFD, 0xFE, 0xFE, 1, 7]) for _ in range(n)]
    return [rng.choice([0, 0, 0, 255, 9]) for _ in range(n)]


UNIS = [0, 0, 1, 2, 7, 127, 255]


def handlers(rng, must=None):
    k = rng.choice([0, 1, 1, 1, 2, 3])
    us = set(rng.sample(UNIS, k))
    if must is not None and rng.random() < 0.85:
        us.add(must)
    us = sorted(us)
    if not us:
        return '-'

    def init():
        c = rng.choice(['none', 'none', 'short', 'full'])
        if c == 'none':
            return 'none'
        n = 512 if c == 'full' else rng.choice([1, 5, 100, 511])
        return hx([rng.randrange(1, 256) for _ in range(n)])
    return ','.join('%d:%s' % (u, init()) for u in us)


def valid(rng):
    f = frame(rng)
    u = rng.choice(UNIS)
    if rng.random() < 0.5:
        return dict(u=u, ty=4, data=rle(f)[:512])
    return dict(u=u, ty=1, data=f)


def rle_tails(rng):
    """RLE streams whose last bytes are an incomplete REPEAT / ESCAPE"""
    pre = rle(frame(rng))[:rng.choice([0, 0, 1, 5, 200])]
    # do not let the prefix itself end inside a marker
    while pre and (pre[-1] in (0xFD, 0xFE) or (len(pre) > 1 and pre[-2] == 0xFE)):
        pre = pre[:-1]
    for tail in ([0xFE], [0xFE, rng.choice([0, 1, 5, 255])], [0xFD], [0xFE, 3, 9], [0xFD, 0xFE], [0xFD, 0xFD],
                 [0xFE, 0xFE], [0xFE, 0xFD], [0xFE, 0xFE, 0xFE], [0xFE, 0, 7], [0xFE, 255, 7, 0xFE, 255, 8, 0xFE, 255]):
        yield pre + tail


def mutants(rng, quick):
    v = valid(rng)
    base = dmx(**v)
    dl = len(v['data'])
    u = v['u']
    yield 'valid', u, base
    for sz in (0, 1, dl - 1, dl, dl + 1, dl + 2, 511, 512, 513, 0xffff):
        if 0 <= sz <= 0xffff:
            yield 'size', u, dmx(**dict(v, size=sz))
    for ty in (0, 1, 2, 3, 4, 5, 8, 255):
        yield 'dtype', u, dmx(**dict(v, ty=ty))
    for uu in (0, 1, 255, (u + 1) & 255):
        yield 'uni', uu, dmx(**dict(v, u=uu))
    for hd in (b'ESPP', b'ESPR', b'ESAP', b'ESDE', b'DDSE', b'\0\0\0\0'):
        yield 'head', u, list(hd) + base[4:]
    cuts = set(range(0, 14)) | {len(base) - k for k in range(0, 4)}
    if quick:
        cuts |= {rng.randrange(len(base) + 1) for _ in range(3)}
    else:
        cuts |= set(range(0, len(base) + 1))
    for c in sorted(x for x in cuts if 0 <= x <= len(base)):
        yield 'trunc', u, base[:c]
    # RLE streams ending inside a REPEAT / ESCAPE: by the end of the datagram and by the size field
    for t in rle_tails(rng):
        yield 'rletail', u, dmx(u=u, ty=4, data=t, size=rng.choice([len(t), len(t), 512, 0xffff]))
        more = t + [rng.randrange(256) for _ in range(rng.choice([1, 2, 3]))]
        yield 'rletail-size', u, dmx(u=u, ty=4, data=more, size=len(t))
    # full-size RLE/RAW datagrams: capacity -1 / capacity / +1 / oversize, ending in markers
    for ln in (CAP - 2, CAP - 1, CAP, CAP + 1, 600):
        for tail in ([0xFE], [0xFE, 4], [0xFD], [5, 6]):
            body = [rng.choice([1, 2, 3, 0xFD, 0xFE]) if rng.random() < 0.3 else rng.randrange(1, 250)
                    for _ in range(ln - HDR - len(tail))]
            if rng.random() < 0.5:
                body = [rng.randrange(1, 250) for _ in range(ln - HDR - len(tail))]
            yield 'max%d' % ln, u, dmx(u=u, ty=rng.choice([4, 4, 1]), data=body + tail,
                                       size=rng.choice([ln - HDR, 512, 513, 0xffff]))
    # control packets
    for t in (0, 1, 255):
        p = poll(t)
        for c in (4, 5):
            yield 'poll', u, p[:c]
        yield 'poll', u, p + [rng.randrange(256)]
    a = ack(rng)
    for c in (4, 5, 6):
        yield 'ack', u, a[:c]
    yield 'ack', u, a + [1]
    r = reply(rng)
    for c in (4, 10, 32, 33):
        yield 'reply', u, r[:c]
    yield 'reply', u, r + [0]


def token(rng, dg):
    # '@' = the datagram comes from our own address
    return ('@' if rng.random() < 0.04 else '') + hx(dg)


def earlier(rng):
    pre = []
    for _k in range(rng.choice([0, 0, 1, 2])):
        r = rng.random()
        if r < 0.6:
            pre.append(hx(dmx(**valid(rng))))
        elif r < 0.8:
            pre.append(hx(poll(rng.choice([0, 1]))))
        else:
            pre.append(hx([rng.randrange(256) for _ in range(rng.choice([3, 9, 521, 600]))]))
    return pre


def gen_cases(rng, tier):
    quick = tier == 'quick'
    for _ in range(8 if quick else 200):
        for cls, u, dg in mutants(rng, quick):
            yield 'espnet %s %s' % (handlers(rng, u), ' '.join(earlier(rng) + [token(rng, dg)]))
    for _ in range(300 if quick else 20000):
        n = rng.choice([0, 1, 3, 4, 5, 6, 8, 9, 10, 12, 60, 200, 520, 521, 522, rng.randrange(1, 600)])
        bs = [rng.randrange(256) for _ in range(n)]
        u = None
        if n >= 4 and rng.random() < 0.85:
            bs[0:4] = list(rng.choice([b'ESDD', b'ESDD', b'ESDD', b'ESPP', b'ESAP', b'ESPR']))
        if n >= 9 and rng.random() < 0.8:
            bs[4] = u = rng.choice(UNIS)
            bs[6] = rng.choice([1, 4, 4, 4, 2, 9])
            bs[7:9] = be16(rng.choice([n - 9, n - 8, n - 10 if n > 9 else 0, 512, 0xffff, 0]))
            if rng.random() < 0.5:
                for k in range(9, n):
                    if rng.random() < 0.2:
                        bs[k] = rng.choice([0xFD, 0xFE])
        yield 'espnet %s %s' % (handlers(rng, u), ' '.join(earlier(rng) + [token(rng, bs)]))


def nontrivial(payload, md):
    for k, v in md.items():
        if k.startswith('s') and k[1:].isdigit():
            if ('h:' in v and not v.startswith('h:-')) or not v.endswith('tx:-'):
                return True
    return False
