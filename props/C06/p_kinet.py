"""C06 / KiNET part: sources, constants, generator."""
import os
import re
NAME = 'kinet'
CXX_SOURCES = ['plugins/kinet/KiNetNode.cpp']
HARNESS = 'h_kinet.cpp'
COQ_FILES = ['GenKiNet.v', 'KiNet.v']
EXTRACT = ['kinet_handle', 'KN_PACKET_SIZE']
RULE = ('KiNET: valid v1 DMX-out / PORTOUT / discovery-style packets, every truncation of them, magic/version/type '
        'mutations, 0/1/1499/1500/1501/1600-byte datagrams, random bytes; 0-2 earlier datagrams; the node discards '
        'everything: observation = one RecvFrom with the 1500-byte stack buffer, nothing sent, transaction number and '
        'output queue unchanged')
TRUSTED = ['modelled rather than verified: KiNetNode::SocketReady (receive and discard; no byte of the buffer is read)']


def gen_consts(v):
    """The receive buffer is a local array: its size is taken from the source text of SocketReady (the harness
    cross-checks it on every case: cap: in the observation is the capacity the node offered to RecvFrom)."""
    src = open(v.repo_path('plugins/kinet/KiNetNode.cpp')).read()
    m = re.search(r'void KiNetNode::SocketReady\(\)\s*\{\s*uint8_t packet\[(\d+)\];\s*ssize_t packet_size = sizeof\(packet\);', src)
    if not m:
        return 'KiNetNode::SocketReady: receive buffer declaration not recognised'
    new = ('(* REGENERATED from the repository source (plugins/kinet/KiNetNode.cpp, SocketReady) on every run. Do not edit. *)\n'
           'From Coq Require Import NArith.\nLocal Open Scope N_scope.\nDefinition KN_PACKET_SIZE : N := %s.\n' % m.group(1))
    out = os.path.join(v.VERIF, 'props', 'C06', 'coq', 'GenKiNet.v')
    old = open(out).read() if os.path.exists(out) else None
    if old != new:
        with open(out, 'w') as f:
            f.write(new)
    return None


def hx(bs):
    return ''.join('%02x' % (b & 255) for b in bs) if bs else '-'


def be16(x):
    return [(x >> 8) & 255, x & 255]


def be32(x):
    return be16(x >> 16) + be16(x)


def dmxout(rng, n=None):
    n = rng.choice([1, 24, 512]) if n is None else n
    # magic, version (LE 1), type (LE 0x0101), sequence, port, flags, timer, universe, start code, data
    return be32(0x0401dc4a) + [1, 0, 1, 1] + be32(rng.randrange(1 << 32)) + [0, 0, 0, 0] + [255] * 4 + [0] + \
        [rng.randrange(256) for _ in range(n)]


def portout(rng, n=None):
    n = rng.choice([24, 150, 512]) if n is None else n
    return be32(0x0401dc4a) + [1, 0, 8, 1] + be32(rng.randrange(1 << 32)) + [255] * 4 + [rng.randrange(1, 17), 0, 0, 0] + \
        [n & 255, n >> 8, 0, 0] + [rng.randrange(256) for _ in range(n)]


def mutants(rng, quick):
    for mk in (dmxout, portout):
        base = mk(rng)
        yield base
        for o, val in ((0, 0), (3, 0x4b), (4, 2), (5, 1), (6, 0), (6, 2), (7, 0), (7, 0xff)):
            p = list(base)
            p[o] = val
            yield p
        cuts = set(range(0, 30)) | {len(base) - 1}
        if not quick:
            cuts |= set(range(0, len(base) + 1))
        for c in sorted(x for x in cuts if x <= len(base)):
            yield base[:c]
        for ln in (1499, 1500, 1501, 1600):
            p = mk(rng, 512)[:ln]
            yield p + [rng.randrange(256) for _ in range(ln - len(p))]
    for ln in (0, 1, 2, 1499, 1500, 1501, 1600, 3000):
        yield [rng.randrange(256) for _ in range(ln)]


def gen_cases(rng, tier):
    quick = tier == 'quick'
    for _ in range(2 if quick else 20):
        for dg in mutants(rng, quick):
            pre = [hx(rng.choice([dmxout, portout])(rng)) if rng.random() < 0.7
                   else hx([rng.randrange(256) for _ in range(rng.choice([3, 1500, 1600]))])
                   for _k in range(rng.choice([0, 0, 1, 2]))]
            yield 'kinet %d %s' % (rng.choice([0, 1, 7, 0xffffffff, rng.randrange(1 << 32)]), ' '.join(pre + [hx(dg)]))
    for _ in range(100 if quick else 3000):
        n = rng.choice([0, 1, 8, 21, 24, 100, 1500, 1600, rng.randrange(1, 1500)])
        yield 'kinet %d %s' % (rng.randrange(1 << 32), hx([rng.randrange(256) for _ in range(n)]))


def nontrivial(payload, md):
    # the node accepts nothing; a case counts when a non-empty datagram was received (and discarded)
    return any(v.startswith('rx:1|') and '|n:0|' not in v for k, v in md.items() if k.startswith('s'))
