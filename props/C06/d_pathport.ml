(* Pathport: payload  pathport <device_id>/<from_self>/<u:init,...|-> <datagram> ... *)
let pathport_op (args : string list) : string =
  match args with
  | _ :: cfg :: dgs ->
    let dev, self_, spec = match String.split_on_char '/' cfg with
      | [d; s; h] -> (n_of_string d, s = "1", h) | _ -> failwith "bad config" in
    let hs0 = if spec = "-" then [] else
      List.map (fun h -> match String.split_on_char ':' h with
                         | [u; i] -> (n_of_int (ios u), dbuf_of_s i) | _ -> failwith "bad handler")
               (String.split_on_char ',' spec) in
    let t = new_trace () in
    let hs = ref hs0 in
    (try List.iter (fun dg ->
      let buf, n = mkbuf (int_of_n pP_PACKET_SIZE) (bytes_of_hex dg) in
      let st = { pp_dev = dev; pp_self = self_; pp_ip = List.map n_of_int [10; 0; 0; 1]; pp_seq = n_of_int 1; pp_hs = !hs } in
      match run buf (pathport_handle n st) with
      | Hazard h -> t.hz <- hazard_s h; raise Exit
      | Done ((hs', hits), sent) ->
        hs := hs';
        let hit_s = List.filter_map (fun (u, _) -> if List.mem u hits then Some (Printf.sprintf "%dx1" (int_of_n u)) else None) hs' in
        let k = List.length hits in
        t.cls <- (match sent with Some _ -> "arpreq" | None -> if k > 0 then Printf.sprintf "dmx%d" k else "drop") :: t.cls;
        t.steps <- ("h:" ^ (if hit_s = [] then "-" else String.concat "+" hit_s)
                    ^ String.concat "" (List.map (fun (u, b) -> Printf.sprintf "|%d:%s" (int_of_n u) (dbuf_s b)) hs')
                    ^ "|tx:" ^ (match sent with None -> "-" | Some p -> hex_of_bytes p)
                    ^ Printf.sprintf "|seq:1|n:%d" (List.length hs')) :: t.steps)
      dgs with Exit -> ());
    trace_result t "pathport"
  | _ -> "bad-args"
let () = register "pathport" pathport_op
