let handle (p : string) : string =
  match split p with
  | op :: _ as args -> (match Hashtbl.find_opt ops op with Some f -> f args | None -> "bad-op")
  | [] -> "bad-op"
let () = vh_run handle
