(* KiNET: payload  kinet <initial transaction number> <datagram> ... *)
let kinet_op (args : string list) : string =
  match args with
  | _ :: txn :: dgs ->
    let t = new_trace () in
    let st = ref { kn_txn = n_of_string txn; kn_queued = n_of_int 0 } in
    (try List.iter (fun dg ->
      let cap = int_of_n kN_PACKET_SIZE in
      let buf, n = mkbuf cap (bytes_of_hex dg) in
      match run buf (kinet_handle n !st) with
      | Hazard h -> t.hz <- hazard_s h; raise Exit
      | Done (st', sent) ->
        st := st';
        t.cls <- (if int_of_n n = cap then "full" else if int_of_n n = 0 then "empty" else "discard") :: t.cls;
        t.steps <- (Printf.sprintf "rx:1|cap:%d|n:%d|tx:%s|txn:%s|q:%d" cap (int_of_n n)
                      (if sent = [] then "-" else String.concat "+" (List.map hex_of_bytes sent))
                      (string_of_n st'.kn_txn) (int_of_n st'.kn_queued)) :: t.steps)
      dgs with Exit -> ());
    trace_result t "kinet"
  | _ -> "bad-args"
let () = register "kinet" kinet_op
