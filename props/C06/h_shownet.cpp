// C06 / ShowNet: twin real ShowNetNode objects, datagrams delivered through SocketReady().
// payload: shownet <u:init,u:init,...|-> <datagram hex> [<datagram hex> ...]
#include <memory>
#include <string>
#include <vector>
#include <map>
#include <sstream>
#include <iostream>
#include <queue>
#include <deque>
#include <list>
#include <set>
#include <algorithm>
#define private public
#define protected public
#include "plugins/shownet/ShowNetNode.h"
#undef private
#undef protected
#include "h_common.h"
#include "ola/Callback.h"
#include "ola/network/Socket.h"

using ola::DmxBuffer;
using ola::plugin::shownet::ShowNetNode;
using std::string;
using std::vector;

namespace {
struct Twin {
  ShowNetNode node;
  vector<unsigned> unis;
  vector<DmxBuffer*> bufs;
  vector<int> calls;
  Twin() : node("") {}
  ~Twin() { for (size_t i = 0; i < bufs.size(); i++) delete bufs[i]; }
  void hit(unsigned idx) { calls[idx]++; }
  void setup(const string &spec) {
    node.m_interface = c06::iface();
    node.m_socket = new ola::network::UDPSocket();
    node.m_socket->Init();
    node.m_running = true;
    if (spec == "-") return;
    vector<string> hs = vh::split(spec, ',');
    calls.reserve(hs.size());
    for (size_t i = 0; i < hs.size(); i++) {
      vector<string> kv = vh::split(hs[i], ':');
      unis.push_back(vh::num(kv[0]));
      bufs.push_back(new DmxBuffer());
      c06::buf_init(bufs.back(), kv[1]);
      calls.push_back(0);
      node.SetHandler(unis.back(), bufs.back(), ola::NewCallback(this, &Twin::hit, static_cast<unsigned>(i)));
    }
  }
  string deliver(uint8_t poison, const vector<uint8_t> &d) {
    for (size_t i = 0; i < calls.size(); i++) calls[i] = 0;
    c06::g_poison = poison;
    c06::set_rx(d);
    node.SocketReady();
    string r = "h:";
    bool any = false;
    for (size_t i = 0; i < calls.size(); i++)
      if (calls[i]) { r += (any ? "+" : "") + vh::str(unis[i]) + "x" + vh::str(calls[i]); any = true; }
    if (!any) r += "-";
    for (size_t i = 0; i < bufs.size(); i++) r += "|" + vh::str(unis[i]) + ":" + c06::buf_s(*bufs[i]);
    return r;
  }
};

string do_shownet(const vector<string> &a) {
  if (a.size() < 3) return "bad-args";
  Twin t[4];
  t[0].setup(a[1]);
  t[1].setup(a[1]);
  t[2].setup(a[1]);
  t[3].setup(a[1]);
  c06::Trace tr;
  for (size_t k = 2; k < a.size(); k++) {
    vector<uint8_t> d = vh::unhex(a[k]);
    string o0 = t[0].deliver(c06::POISON[0], d);
    string o1 = t[1].deliver(c06::POISON[1], d);
    string o2;
    { c06::PrevMode pm; o2 = t[2].deliver(c06::POISON[2], d); }
    string o3;
    { c06::KernelMode km; o3 = t[3].deliver(c06::POISON[3], d); }
    tr.add4(o0, o1, o2, o3);
  }
  return tr.result();
}
c06::Reg reg("shownet", do_shownet);
}  // namespace
