// C06 correspondence harness core: interposers + dispatch.  Protocol code lives in h_<proto>.cpp.
#include <errno.h>
#include <netinet/in.h>
#include <arpa/inet.h>
#include <sys/socket.h>
#include <sys/types.h>
#include <map>
#include <unistd.h>
#include <stdio.h>
#include "h_common.h"
#include "ola/Logging.h"
#include "ola/network/IPV4Address.h"

namespace c06 {
std::vector<std::vector<uint8_t> > g_sent;
uint8_t g_poison = 0xA5;
bool g_prev_mode = false;
static std::vector<uint8_t> g_persist;
bool g_kernel_mode = false;
static std::vector<uint8_t> g_persist_k;
static int g_ktx = -1, g_krx = -1;
static struct sockaddr_in g_kaddr;
unsigned g_rx_calls = 0;
size_t g_rx_cap = 0;
static std::vector<uint8_t> g_rx;
static bool g_rx_valid = false;
static uint32_t g_rx_source = 0;
static uint16_t g_rx_port = 0;

void set_rx(const std::vector<uint8_t> &dgram, const char *src_ip, uint16_t src_port) {
  g_rx = dgram;
  g_rx_valid = true;
  g_rx_source = inet_addr(src_ip);
  g_rx_port = src_port;
}

extern "C" ssize_t __real_recvfrom(int, void *, size_t, int, struct sockaddr *, socklen_t *);
extern "C" ssize_t __real_sendto(int, const void *, size_t, int, const struct sockaddr *, socklen_t);

ssize_t kernel_roundtrip(const std::vector<uint8_t> &dgram, void *buf, size_t len, int flags) {
  if (g_krx < 0) {
    g_krx = socket(AF_INET, SOCK_DGRAM, 0);
    g_ktx = socket(AF_INET, SOCK_DGRAM, 0);
    int big = 1 << 20;
    setsockopt(g_krx, SOL_SOCKET, SO_RCVBUF, &big, sizeof(big));
    setsockopt(g_ktx, SOL_SOCKET, SO_SNDBUF, &big, sizeof(big));
    memset(&g_kaddr, 0, sizeof(g_kaddr));
    g_kaddr.sin_family = AF_INET;
    g_kaddr.sin_addr.s_addr = htonl(INADDR_LOOPBACK);
    g_kaddr.sin_port = 0;
    if (bind(g_krx, reinterpret_cast<struct sockaddr*>(&g_kaddr), sizeof(g_kaddr)) != 0) { perror("bind"); abort(); }
    socklen_t sl = sizeof(g_kaddr);
    getsockname(g_krx, reinterpret_cast<struct sockaddr*>(&g_kaddr), &sl);
  }
  uint8_t dummy = 0;
  if (__real_sendto(g_ktx, dgram.empty() ? &dummy : dgram.data(), dgram.size(), 0,
                    reinterpret_cast<struct sockaddr*>(&g_kaddr), sizeof(g_kaddr)) < 0) { perror("sendto"); abort(); }
  for (int tries = 0; tries < 2000; tries++) {
    ssize_t r = __real_recvfrom(g_krx, buf, len, flags | MSG_DONTWAIT, NULL, NULL);
    if (r >= 0 || (errno != EAGAIN && errno != EWOULDBLOCK)) return r;
    usleep(100);
  }
  fprintf(stderr, "kernel_roundtrip: datagram did not arrive\n");
  abort();
}

static std::map<std::string, Op> &ops() { static std::map<std::string, Op> m; return m; }
Reg::Reg(const char *name, Op f) { ops()[name] = f; }

std::string buf_s(const ola::DmxBuffer &b) {
  if (!b.GetRaw()) return "none";
  return vh::hex(b.GetRaw(), b.Size());
}
void buf_init(ola::DmxBuffer *b, const std::string &s) {
  if (s == "none") return;
  std::vector<uint8_t> v = vh::unhex(s);
  uint8_t dummy = 0;
  b->Set(v.empty() ? &dummy : v.data(), v.size());
}
ola::network::Interface iface() {
  ola::network::Interface i;
  ola::network::IPV4Address::FromString("10.0.0.1", &i.ip_address);
  ola::network::IPV4Address::FromString("10.255.255.255", &i.bcast_address);
  ola::network::IPV4Address::FromString("255.0.0.0", &i.subnet_mask);
  return i;
}
}  // namespace c06

extern "C" ssize_t __wrap_sendto(int, const void *buf, size_t len, int, const struct sockaddr *, socklen_t) {
  const uint8_t *p = static_cast<const uint8_t*>(buf);
  c06::g_sent.push_back(std::vector<uint8_t>(p, p + len));
  return static_cast<ssize_t>(len);
}

extern "C" ssize_t __wrap_recvfrom(int, void *buf, size_t len, int flags, struct sockaddr *src, socklen_t *slen) {
  using namespace c06;
  if (!g_rx_valid) { errno = EAGAIN; return -1; }
  g_rx_valid = false;
  g_rx_calls++;
  g_rx_cap = len;
  size_t n = g_rx.size() < len ? g_rx.size() : len;
  ssize_t ret = static_cast<ssize_t>(n);
  if (g_kernel_mode) {
    // persistent buffer contents underneath, then the kernel writes the datagram and decides the return value
    if (g_persist_k.size() < len) g_persist_k.resize(len, 0xA5);
    memcpy(buf, g_persist_k.data(), len);
    ret = kernel_roundtrip(g_rx, buf, len, flags);
    if (ret < 0) return ret;
    memcpy(g_persist_k.data(), buf, n);
  } else if (g_prev_mode) {
    // a persistent receive buffer: what earlier datagrams of this case left, new datagram over the front
    if (g_persist.size() < len) g_persist.resize(len, 0xA5);
    if (n) memcpy(g_persist.data(), g_rx.data(), n);
    memcpy(buf, g_persist.data(), len);
  } else {
    memset(buf, g_poison, len);            // the stale bytes an earlier, longer datagram left behind
    if (n) memcpy(buf, g_rx.data(), n);
    // what the kernel does: with MSG_TRUNC the real length of the datagram is returned
    if (flags & MSG_TRUNC) ret = static_cast<ssize_t>(g_rx.size());
  }
  if (src && slen && *slen >= sizeof(struct sockaddr_in)) {
    struct sockaddr_in *a = reinterpret_cast<struct sockaddr_in*>(src);
    memset(a, 0, sizeof(*a));
    a->sin_family = AF_INET;
    a->sin_port = htons(g_rx_port);
    a->sin_addr.s_addr = g_rx_source;
    *slen = sizeof(*a);
  }
  return ret;
}

// sockrx <capacity> <size> [<size>...]: the contract of ola::network::UDPSocket::RecvFrom the models rely on:
// a datagram of any size delivered by the kernel into a buffer of `capacity` bytes reports min(size, capacity)
// bytes and writes nothing beyond the buffer (exact-size heap block under ASan).
#include "ola/network/Socket.h"
#include "ola/network/SocketAddress.h"
static std::string do_sockrx(const std::vector<std::string> &a) {
  if (a.size() < 3) return "bad-args";
  size_t cap = vh::num(a[1]);
  ola::network::UDPSocket sock;
  sock.Init();
  std::string r = "hz=none;twin=1";
  for (size_t k = 2; k < a.size(); k++) {
    size_t size = vh::num(a[k]);
    std::vector<uint8_t> d(size);
    for (size_t i = 0; i < size; i++) d[i] = static_cast<uint8_t>(i * 7 + k);
    uint8_t *buf = new uint8_t[cap];
    ssize_t got = static_cast<ssize_t>(cap);
    ola::network::IPV4SocketAddress src;
    c06::set_rx(d);
    bool ok;
    { c06::KernelMode km; ok = sock.RecvFrom(buf, &got, &src); }
    bool same = ok && got >= 0 && static_cast<size_t>(got) <= cap && memcmp(buf, d.data(), static_cast<size_t>(got)) == 0;
    delete[] buf;
    r += ";s" + vh::str(k - 2) + "=ok:" + vh::str(ok ? 1 : 0) + "|n:" + vh::str(got) + "|same:" + vh::str(same ? 1 : 0);
  }
  return r;
}
static c06::Reg reg_sockrx("sockrx", do_sockrx);

static std::string handle(const std::string &p) {
  std::vector<std::string> a = vh::split(p);
  std::map<std::string, c06::Op>::iterator it = c06::ops().find(a[0]);
  if (it == c06::ops().end()) return "bad-op";
  c06::g_persist.clear();
  c06::g_persist_k.clear();
  c06::g_prev_mode = false;
  c06::g_kernel_mode = false;
  return it->second(a);
}

int main(int argc, char **argv) {
  ola::InitLogging(ola::OLA_LOG_NONE, ola::OLA_LOG_STDERR);
  return vh::run(argc, argv, handle, 40);  // ASan reports can take >10 s on a loaded box
}
