// C06 correspondence harness core: interposers + dispatch.  Protocol code lives in h_<proto>.cpp.
#include <errno.h>
#include <netinet/in.h>
#include <arpa/inet.h>
#include <sys/socket.h>
#include <sys/types.h>
#include <map>
#include "h_common.h"
#include "ola/Logging.h"
#include "ola/network/IPV4Address.h"

namespace c06 {
std::vector<std::vector<uint8_t> > g_sent;
uint8_t g_poison = 0xA5;
bool g_prev_mode = false;
static std::vector<uint8_t> g_persist;
unsigned g_rx_calls = 0;
size_t g_rx_cap = 0;
static std::vector<uint8_t> g_rx;
static bool g_rx_valid = false;
static uint32_t g_rx_source = 0;
static uint16_t g_rx_port = 0;

void set_rx(const std::vector<uint8_t> &dgram, const char *src_ip, uint16_t src_port) {
  g_rx = dgram;
  g_rx_valid = true;
  g_rx_source = inet_addr(src_ip);
  g_rx_port = src_port;
}

static std::map<std::string, Op> &ops() { static std::map<std::string, Op> m; return m; }
Reg::Reg(const char *name, Op f) { ops()[name] = f; }

std::string buf_s(const ola::DmxBuffer &b) {
  if (!b.GetRaw()) return "none";
  return vh::hex(b.GetRaw(), b.Size());
}
void buf_init(ola::DmxBuffer *b, const std::string &s) {
  if (s == "none") return;
  std::vector<uint8_t> v = vh::unhex(s);
  uint8_t dummy = 0;
  b->Set(v.empty() ? &dummy : v.data(), v.size());
}
ola::network::Interface iface() {
  ola::network::Interface i;
  ola::network::IPV4Address::FromString("10.0.0.1", &i.ip_address);
  ola::network::IPV4Address::FromString("10.255.255.255", &i.bcast_address);
  ola::network::IPV4Address::FromString("255.0.0.0", &i.subnet_mask);
  return i;
}
}  // namespace c06

extern "C" ssize_t __wrap_sendto(int, const void *buf, size_t len, int, const struct sockaddr *, socklen_t) {
  const uint8_t *p = static_cast<const uint8_t*>(buf);
  c06::g_sent.push_back(std::vector<uint8_t>(p, p + len));
  return static_cast<ssize_t>(len);
}

extern "C" ssize_t __wrap_recvfrom(int, void *buf, size_t len, int, struct sockaddr *src, socklen_t *slen) {
  using namespace c06;
  if (!g_rx_valid) { errno = EAGAIN; return -1; }
  g_rx_valid = false;
  g_rx_calls++;
  g_rx_cap = len;
  size_t n = g_rx.size() < len ? g_rx.size() : len;
  if (g_prev_mode) {
    // a persistent receive buffer: what earlier datagrams of this case left, new datagram over the front
    if (g_persist.size() < len) g_persist.resize(len, 0xA5);
    if (n) memcpy(g_persist.data(), g_rx.data(), n);
    memcpy(buf, g_persist.data(), len);
  } else {
    memset(buf, g_poison, len);            // the stale bytes an earlier, longer datagram left behind
    if (n) memcpy(buf, g_rx.data(), n);
  }
  if (src && slen && *slen >= sizeof(struct sockaddr_in)) {
    struct sockaddr_in *a = reinterpret_cast<struct sockaddr_in*>(src);
    memset(a, 0, sizeof(*a));
    a->sin_family = AF_INET;
    a->sin_port = htons(g_rx_port);
    a->sin_addr.s_addr = g_rx_source;
    *slen = sizeof(*a);
  }
  return static_cast<ssize_t>(n);
}

static std::string handle(const std::string &p) {
  std::vector<std::string> a = vh::split(p);
  std::map<std::string, c06::Op>::iterator it = c06::ops().find(a[0]);
  if (it == c06::ops().end()) return "bad-op";
  c06::g_persist.clear();
  c06::g_prev_mode = false;
  return it->second(a);
}

int main(int argc, char **argv) {
  ola::InitLogging(ola::OLA_LOG_NONE, ola::OLA_LOG_STDERR);
  return vh::run(argc, argv, handle, 40);  // ASan reports can take >10 s on a loaded box
}
