(* ESP Net: payload  espnet <u:init,...|-> [@]<datagram> ...   ('@' = sent from our own address) *)
let espnet_op (args : string list) : string =
  match args with
  | _ :: spec :: dgs ->
    let st0 = if spec = "-" then [] else
      List.map (fun h -> match String.split_on_char ':' h with
                         | [u; i] -> (n_of_int (ios u), dbuf_of_s i) | _ -> failwith "bad handler")
               (String.split_on_char ',' spec) in
    let t = new_trace () in
    let st = ref st0 in
    (try List.iter (fun dg ->
      let self = String.length dg > 0 && dg.[0] = '@' in
      let dg = if self then String.sub dg 1 (String.length dg - 1) else dg in
      let buf, n = mkbuf (int_of_n eS_PACKET_SIZE) (bytes_of_hex dg) in
      match run buf (es_handle n self !st) with
      | Hazard h -> t.hz <- hazard_s h; raise Exit
      | Done ((st', hit), tx) ->
        st := st';
        let hs = match hit with None -> "-" | Some u -> Printf.sprintf "%dx1" (int_of_n u) in
        let txs = match tx with EsTxNone -> "-" | EsTxAck -> "ack" | EsTxReply -> "reply" in
        t.cls <- (match hit, tx with None, EsTxNone -> "drop" | None, _ -> "poll" | Some _, _ -> "data") :: t.cls;
        t.steps <- ("h:" ^ hs ^ String.concat "" (List.map (fun (u, b) -> Printf.sprintf "|%d:%s" (int_of_n u) (dbuf_s b)) st')
                    ^ "|tx:" ^ txs) :: t.steps)
      dgs with Exit -> ());
    trace_result t "espnet"
  | _ -> "bad-args"
let () = register "espnet" espnet_op
