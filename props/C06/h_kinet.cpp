// C06 / KiNET: twin real KiNetNode objects on a poison-filling UDP socket, datagrams delivered through SocketReady().
// payload: kinet <initial transaction number> <datagram hex> [<datagram hex> ...]
#include <memory>
#include <string>
#include <vector>
#include <map>
#include <sstream>
#include <iostream>
#include <queue>
#include <deque>
#include <list>
#include <set>
#include <algorithm>
#include <string.h>
#define private public
#define protected public
#include "plugins/kinet/KiNetNode.h"
#undef private
#undef protected
#include "h_common.h"
#include "ola/io/SelectServer.h"
#include "ola/network/Socket.h"
#include "ola/network/SocketAddress.h"

using ola::network::IPV4Address;
using ola::network::IPV4SocketAddress;
using ola::plugin::kinet::KiNetNode;
using std::string;
using std::vector;

namespace {
// A UDP socket that is never bound: RecvFrom hands out the armed datagram after filling the WHOLE
// destination buffer with the poison byte; SendTo captures into c06::g_sent.
class PoisonSocket : public ola::network::UDPSocket {
 public:
  PoisonSocket() : armed(false), rx_calls(0), last_cap(0), last_n(0) {}
  void arm(const vector<uint8_t> &d) { dgram = d; armed = true; }
  bool RecvFrom(uint8_t *buffer, ssize_t *data_read, IPV4SocketAddress *source) {
    if (!armed) return false;
    armed = false;
    rx_calls++;
    size_t cap = static_cast<size_t>(*data_read);
    last_cap = cap;
    memset(buffer, c06::g_poison, cap);
    size_t n = dgram.size() < cap ? dgram.size() : cap;
    if (n) memcpy(buffer, dgram.data(), n);
    *data_read = static_cast<ssize_t>(n);
    last_n = n;
    IPV4Address a;
    IPV4Address::FromString("10.0.0.2", &a);
    *source = IPV4SocketAddress(a, 6038);
    return true;
  }
  ssize_t SendTo(const uint8_t *buffer, unsigned int size, const IPV4Address &, unsigned short) const {
    c06::g_sent.push_back(vector<uint8_t>(buffer, buffer + size));
    return size;
  }
  ssize_t SendTo(const uint8_t *buffer, unsigned int size, const IPV4SocketAddress &) const {
    c06::g_sent.push_back(vector<uint8_t>(buffer, buffer + size));
    return size;
  }
  vector<uint8_t> dgram;
  bool armed;
  unsigned rx_calls;
  size_t last_cap, last_n;
};

struct Twin {
  ola::io::SelectServer ss;
  PoisonSocket *sock;   // owned by the node
  KiNetNode node;
  Twin() : sock(new PoisonSocket()), node(&ss, sock) {}
  void setup(const string &txn) {
    node.m_interface = c06::iface();
    node.m_transaction_number.m_sequence_number = static_cast<uint32_t>(vh::num(txn));
  }
  string deliver(uint8_t poison, const vector<uint8_t> &d) {
    c06::g_sent.clear();
    c06::g_poison = poison;
    sock->rx_calls = 0;
    sock->arm(d);
    node.SocketReady();
    string r = "rx:" + vh::str(sock->rx_calls) + "|cap:" + vh::str(sock->last_cap) + "|n:" + vh::str(sock->last_n) + "|tx:";
    if (c06::g_sent.empty()) r += "-";
    for (size_t i = 0; i < c06::g_sent.size(); i++)
      r += (i ? "+" : "") + vh::hex(c06::g_sent[i].data(), c06::g_sent[i].size());
    r += "|txn:" + vh::str(node.m_transaction_number.m_sequence_number) + "|q:" + vh::str(node.m_output_queue.Size());
    return r;
  }
};

string do_kinet(const vector<string> &a) {
  if (a.size() < 3) return "bad-args";
  Twin t[2];
  t[0].setup(a[1]);
  t[1].setup(a[1]);
  c06::Trace tr;
  for (size_t k = 2; k < a.size(); k++) {
    vector<uint8_t> d = vh::unhex(a[k]);
    string o0 = t[0].deliver(c06::POISON[0], d);
    string o1 = t[1].deliver(c06::POISON[1], d);
    tr.add(o0, o1);
  }
  return tr.result();
}
c06::Reg reg("kinet", do_kinet);
}  // namespace
