(* SandNet: payload  sandnet <g.u:init,...|-> [@][!]<datagram> ...   ('@' = from our own address, '!' = control socket) *)
let sandnet_op (args : string list) : string =
  match args with
  | _ :: spec :: dgs ->
    let st0 = if spec = "-" then [] else
      List.map (fun h -> match String.split_on_char ':' h with
                         | [k; i] -> (match String.split_on_char '.' k with
                                      | [g; u] -> ((n_of_int (ios g), n_of_int (ios u)), dbuf_of_s i)
                                      | _ -> failwith "bad key")
                         | _ -> failwith "bad handler")
               (String.split_on_char ',' spec) in
    let t = new_trace () in
    let st = ref st0 in
    let strip c s = if String.length s > 0 && s.[0] = c then (true, String.sub s 1 (String.length s - 1)) else (false, s) in
    (try List.iter (fun dg ->
      let self, dg = strip '@' dg in
      let _, dg = strip '!' dg in
      let buf, n = mkbuf (int_of_n sA_PACKET_SIZE) (bytes_of_hex dg) in
      match run buf (sa_handle n self !st) with
      | Hazard h -> t.hz <- hazard_s h; raise Exit
      | Done (st', hit) ->
        let changed = st' <> !st in
        st := st';
        let hs = match hit with None -> "-" | Some (g, u) -> Printf.sprintf "%d.%dx1" (int_of_n g) (int_of_n u) in
        t.cls <- (match hit with None -> if changed then "partial" else "drop" | Some _ -> "handled") :: t.cls;
        t.steps <- ("h:" ^ hs ^ String.concat "" (List.map (fun ((g, u), b) ->
                      Printf.sprintf "|%d.%d:%s" (int_of_n g) (int_of_n u) (dbuf_s b)) st')) :: t.steps)
      dgs with Exit -> ());
    trace_result t "sandnet"
  | _ -> "bad-args"
let () = register "sandnet" sandnet_op
