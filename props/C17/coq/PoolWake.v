(* C17.PoolWake: ThreadPool (init_pool n), no lost wake-up, every schedule: whenever a closure is queued, either the owner
   is at the Signal that announces it (pc 19) or some worker is awake (not asleep, not finished) -- a queued closure always
   has somebody who will take it.  Built on the exact wait queues (WaitQ.WQI): the Signal wakes a thread that really sleeps
   on the pool's condition, and that thread is a worker. *)
From Coq Require Import List Arith Bool Lia Permutation.
Import ListNotations.
From C17 Require Import Sem Progs Static Annot Owner Effects Conserve WaitQ WaitQAll Pool PoolD PoolW1 PoolW2 PoolFin.

Definition awk (st : status) : Prop := match st with Asleep _ _ | Done => False | _ => True end.
Definition awake (s : state) (w : tid) : Prop := awk (stat (thr s w)).

Lemma awk_evol a b : stat_evol a b -> awk a -> awk b.
Proof. intros [->|[(c & m & -> & ->)|[-> ->]]] H; [exact H|destruct H|exact I]. Qed.

Definition NA (s : state) : Prop := que s 16 <> [] -> pc (thr s 0) = 19 \/ awake s 1 \/ awake s 2.

(* threads beyond the three of the scenario never run, so they never sleep *)
Definition OTH (s : state) : Prop := forall u, 3 <= u -> stat (thr s u) = NotStarted \/ stat (thr s u) = Fresh.

Lemma OTH_evol s s' : (forall u, 3 <= u -> stat_evol (stat (thr s u)) (stat (thr s' u))) -> OTH s -> OTH s'.
Proof.
  intros H O u Hu. specialize (H u Hu). destruct (O u Hu) as [X|X]; rewrite X in H;
  destruct H as [->|[(c & m & Y & _)|[_ ->]]]; try discriminate Y; auto.
Qed.

Lemma OTH_step s l s' : nthr s = 3 -> OTH s -> exec P s l = Some s' -> OTH s'.
Proof.
  intros Hn O E. destruct l as [t k|t].
  - pose proof (step_effects P s t k s' E) as [_ Ev _ _ _].
    assert (Hlt : t < 3).
    { unfold exec in E. destruct (fault s); [discriminate|]. rewrite Hn in E.
      destruct (t <? 3) eqn:X; [apply Nat.ltb_lt in X; exact X|discriminate]. }
    apply (OTH_evol s); [|exact O]. intros u Hu. apply Ev. lia.
  - destruct (spur_effects P s t s' E) as (_ & Ev & _). apply (OTH_evol s); [|exact O]. intros u _. apply Ev.
Qed.

(* a worker only ever sleeps on the pool's condition *)
Definition SLC (s : state) : Prop := forall w c m, w = 1 \/ w = 2 -> stat (thr s w) = Asleep c m -> c = 16.

Lemma SLC_evol s s' : (forall w, w = 1 \/ w = 2 -> stat_evol (stat (thr s w)) (stat (thr s' w))) -> SLC s -> SLC s'.
Proof.
  intros H S w c m Hw Hs. specialize (H w Hw). rewrite Hs in H.
  destruct H as [X|[(c0 & m0 & _ & X)|[_ X]]]; try discriminate X. exact (S w c m Hw (eq_sym X)).
Qed.

(* waking a sleeping thread u (not the stepping thread 0) leaves it awake *)
Lemma woken_awake S u th0 c m : u <> 0 -> stat (thr S u) = Asleep c m -> awake (set_thr (wake S u) 0 th0) u.
Proof.
  intros Hu Hs. unfold awake, wake. rewrite Hs. cbn. unfold upd.
  destruct (Nat.eqb u 0) eqn:E; [apply Nat.eqb_eq in E; contradiction|]. rewrite Nat.eqb_refl. exact I.
Qed.

(* the Signal instruction, spelled out *)
Lemma exec_signal Pg s t k c s' : fault s = None -> (t <? nthr s) = true -> stat (thr s t) = Ready ->
  fetch Pg (thr s t) = ISignal c -> exec Pg s (LStep t k) = Some s' ->
  s' = set_fault s UseAfterFree \/
  (wq s c = [] /\ s' = set_thr s t (next (thr s t))) \/
  (exists u0 L', In u0 (wq s c) /\
     s' = set_thr (wake (set_wq s c L') u0) t (next (thr (wake (set_wq s c L') u0) t))).
Proof.
  intros Hf Hl Hs EF E. unfold exec in E. rewrite Hf, Hl in E. cbn [negb] in E. rewrite Hs in E.
  unfold exec_instr in E. rewrite EF in E.
  destruct (negb (live s c)); [left; injection E as <-; reflexivity|].
  destruct (wq s c) as [|a l] eqn:Hq; [right; left; split; [reflexivity|injection E as <-; reflexivity]|].
  right; right. exists (nth (k mod length (a :: l)) (a :: l) 0), (remove_nth (k mod length (a :: l)) (a :: l)).
  split; [apply nth_In; apply Nat.mod_upper_bound; discriminate|]. injection E as <-. reflexivity.
Qed.

Lemma WK_step_w1 s k s' : Inv P An s -> PL s -> XD s -> NA s /\ SLC s -> exec P s (LStep 1 k) = Some s' -> NA s' /\ SLC s'.
Proof.
  intros HI (p0 & st0 & r0 & c0 & l0 & H0 & Hn & H1 & H2 & _) HX [HN HS] E.
  pose proof (step_effects P s 1 k s' E) as [Eo Ev En Er Es].
  pose proof (Ev 2 ltac:(discriminate)) as VO.
  clear Eo Ev En Er Es.
  destruct (thr s 1) as [pg pp stp rp cp lp cuw] eqn:Hw. cbn in H1. subst pg.
  destruct HX as (_ & _ & _ & _ & _ & _ & _ & _ & _ & _ & W1 & W2).
  unfold WI in W1. rewrite Hw in W1. cbn [pc stat] in W1. destruct W1 as (A & B & C & D).
  assert (FIN : forall pp' stp' rp' cp' lp' cuw',
     thr s' 1 = mkT 17 pp' stp' rp' cp' lp' cuw' ->
     (awk stp' \/ que s' 16 = []) -> (forall c m, stp' = Asleep c m -> c = 16) -> NA s' /\ SLC s').
  { intros pp' stp' rp' cp' lp' cuw' T a1 a2. split.
    - intros Hq. destruct a1 as [a1|a1]; [right; left; unfold awake; rewrite T; exact a1|contradiction].
    - intros w c m Hw' Hs'. destruct Hw' as [-> | ->].
      + rewrite T in Hs'; cbn in Hs'; exact (a2 c m Hs').
      + pose proof VO as V; rewrite Hs' in V; destruct V as [X|[(c0' & m0' & _ & X)|[_ X]]]; try discriminate X; exact (HS 2 c m (or_intror eq_refl) (eq_sym X)). }
  unfold exec in E. destruct (fault s); [discriminate|]. rewrite Hn in E. cbn [Nat.ltb Nat.leb negb] in E.
  rewrite Hw in E. cbn [stat] in E.
  destruct stp; try discriminate E.
  - (* Fresh *)
    inversion E; subst s'.
    eapply FIN; [cbn; unfold upd; cbn; reflexivity|left; exact I|intros c9 m9 XX; discriminate XX].
  - (* Ready *)
    destruct pp as [|[|[|[|[|[|[|[|[|[|[|[|[|[|[|[|pp]]]]]]]]]]]]]]]];
    cbn in E; try (destruct pp; cbn in E); unfold live, obj_of in E; cbn in E;
    repeat match type of E with
           | (if ?c then _ else _) = _ => destruct c eqn:?
           | match ?x with _ => _ end = _ => destruct x eqn:?
           end;
    try discriminate E; cbn in E; rewrite ?Hw in E; cbn in E; try discriminate E;
    repeat match type of E with
           | context [if ?c then _ else _] => destruct c eqn:?
           | context [match que s ?q with _ => _ end] => destruct (que s q) eqn:?
           | context [match wq s ?q with _ => _ end] => destruct (wq s q) eqn:?
           end;
    cbn in E; try discriminate E;
    (inversion E; subst s'; clear E);
    cbn in A, B, C, D; try discriminate D;
    (eapply FIN; [cbn; unfold upd; cbn;
                   rewrite ?wake_keep, ?wakes_keep by (cbn; rewrite ?Hw; reflexivity);
                   cbn; rewrite ?Hw; cbn; reflexivity
                 | first [left; exact I | (right; nv; first [(apply A; reflexivity) | exact (proj1 (B (or_intror eq_refl))) | assumption])]
                 | intros c9 m9 XX; first [discriminate XX | (inversion XX; reflexivity)] ]).
  - (* Asleep *)
    assert (Hpp : pp = 12).
    { pose proof (HI 1) as It. unfold habs in It. rewrite Hw in It. cbn [stat] in It. destruct It as ((cc & It) & _).
      destruct pp as [|[|[|[|[|[|[|[|[|[|[|[|[|[|[|[|pp]]]]]]]]]]]]]]]]; cbn in D; try discriminate D;
      cbn in It; destruct It as [It|It]; try discriminate It; reflexivity. }
    subst pp. cbn in E. discriminate E.
  - (* Woken *)
    assert (Hpp : pp = 12).
    { pose proof (HI 1) as It. unfold habs in It. rewrite Hw in It. cbn [stat] in It. destruct It as ((cc & It) & _).
      destruct pp as [|[|[|[|[|[|[|[|[|[|[|[|[|[|[|[|pp]]]]]]]]]]]]]]]]; cbn in D; try discriminate D;
      cbn in It; destruct It as [It|It]; try discriminate It; reflexivity. }
    subst pp. cbn in E.
    destruct (negb (live s m)).
    + inversion E; subst s'; clear E.
      eapply FIN; [cbn; rewrite Hw; reflexivity|left; exact I|intros c9 m9 XX; discriminate XX].
    + destruct (own s m); [discriminate E|].
      inversion E; subst s'; clear E.
      eapply FIN; [cbn; unfold upd; cbn; reflexivity|left; exact I|intros c9 m9 XX; discriminate XX].
Qed.

Lemma WK_step_w2 s k s' : Inv P An s -> PL s -> XD s -> NA s /\ SLC s -> exec P s (LStep 2 k) = Some s' -> NA s' /\ SLC s'.
Proof.
  intros HI (p0 & st0 & r0 & c0 & l0 & H0 & Hn & H1 & H2 & _) HX [HN HS] E.
  pose proof (step_effects P s 2 k s' E) as [Eo Ev En Er Es].
  pose proof (Ev 1 ltac:(discriminate)) as VO.
  clear Eo Ev En Er Es.
  destruct (thr s 2) as [pg pp stp rp cp lp cuw] eqn:Hw. cbn in H2. subst pg.
  destruct HX as (_ & _ & _ & _ & _ & _ & _ & _ & _ & _ & W1 & W2).
  unfold WI in W2. rewrite Hw in W2. cbn [pc stat] in W2. destruct W2 as (A & B & C & D).
  assert (FIN : forall pp' stp' rp' cp' lp' cuw',
     thr s' 2 = mkT 18 pp' stp' rp' cp' lp' cuw' ->
     (awk stp' \/ que s' 16 = []) -> (forall c m, stp' = Asleep c m -> c = 16) -> NA s' /\ SLC s').
  { intros pp' stp' rp' cp' lp' cuw' T a1 a2. split.
    - intros Hq. destruct a1 as [a1|a1]; [right; right; unfold awake; rewrite T; exact a1|contradiction].
    - intros w c m Hw' Hs'. destruct Hw' as [-> | ->].
      + pose proof VO as V; rewrite Hs' in V; destruct V as [X|[(c0' & m0' & _ & X)|[_ X]]]; try discriminate X; exact (HS 1 c m (or_introl eq_refl) (eq_sym X)).
      + rewrite T in Hs'; cbn in Hs'; exact (a2 c m Hs'). }
  unfold exec in E. destruct (fault s); [discriminate|]. rewrite Hn in E. cbn [Nat.ltb Nat.leb negb] in E.
  rewrite Hw in E. cbn [stat] in E.
  destruct stp; try discriminate E.
  - (* Fresh *)
    inversion E; subst s'.
    eapply FIN; [cbn; unfold upd; cbn; reflexivity|left; exact I|intros c9 m9 XX; discriminate XX].
  - (* Ready *)
    destruct pp as [|[|[|[|[|[|[|[|[|[|[|[|[|[|[|[|pp]]]]]]]]]]]]]]]];
    cbn in E; try (destruct pp; cbn in E); unfold live, obj_of in E; cbn in E;
    repeat match type of E with
           | (if ?c then _ else _) = _ => destruct c eqn:?
           | match ?x with _ => _ end = _ => destruct x eqn:?
           end;
    try discriminate E; cbn in E; rewrite ?Hw in E; cbn in E; try discriminate E;
    repeat match type of E with
           | context [if ?c then _ else _] => destruct c eqn:?
           | context [match que s ?q with _ => _ end] => destruct (que s q) eqn:?
           | context [match wq s ?q with _ => _ end] => destruct (wq s q) eqn:?
           end;
    cbn in E; try discriminate E;
    (inversion E; subst s'; clear E);
    cbn in A, B, C, D; try discriminate D;
    (eapply FIN; [cbn; unfold upd; cbn;
                   rewrite ?wake_keep, ?wakes_keep by (cbn; rewrite ?Hw; reflexivity);
                   cbn; rewrite ?Hw; cbn; reflexivity
                 | first [left; exact I | (right; nv; first [(apply A; reflexivity) | exact (proj1 (B (or_intror eq_refl))) | assumption])]
                 | intros c9 m9 XX; first [discriminate XX | (inversion XX; reflexivity)] ]).
  - (* Asleep *)
    assert (Hpp : pp = 12).
    { pose proof (HI 2) as It. unfold habs in It. rewrite Hw in It. cbn [stat] in It. destruct It as ((cc & It) & _).
      destruct pp as [|[|[|[|[|[|[|[|[|[|[|[|[|[|[|[|pp]]]]]]]]]]]]]]]]; cbn in D; try discriminate D;
      cbn in It; destruct It as [It|It]; try discriminate It; reflexivity. }
    subst pp. cbn in E. discriminate E.
  - (* Woken *)
    assert (Hpp : pp = 12).
    { pose proof (HI 2) as It. unfold habs in It. rewrite Hw in It. cbn [stat] in It. destruct It as ((cc & It) & _).
      destruct pp as [|[|[|[|[|[|[|[|[|[|[|[|[|[|[|[|pp]]]]]]]]]]]]]]]]; cbn in D; try discriminate D;
      cbn in It; destruct It as [It|It]; try discriminate It; reflexivity. }
    subst pp. cbn in E.
    destruct (negb (live s m)).
    + inversion E; subst s'; clear E.
      eapply FIN; [cbn; rewrite Hw; reflexivity|left; exact I|intros c9 m9 XX; discriminate XX].
    + destruct (own s m); [discriminate E|].
      inversion E; subst s'; clear E.
      eapply FIN; [cbn; unfold upd; cbn; reflexivity|left; exact I|intros c9 m9 XX; discriminate XX].
Qed.

Lemma WK_step_spur s t s' : NA s /\ SLC s -> exec P s (LSpur t) = Some s' -> NA s' /\ SLC s'.
Proof.
  intros [HN HS] E. destruct (spur_effects P s t s' E) as (Eo & Ev & _).
  assert (Hq : que s' = que s).
  { unfold exec in E. destruct (fault s); [discriminate|]. destruct (negb (t <? nthr s)); [discriminate|].
    destruct (stat (thr s t)); try discriminate. inversion E; subst. rewrite que_wake. reflexivity. }
  destruct (only_stat_fields _ _ (Eo 0)) as (_ & Q0 & _).
  split; [|apply (SLC_evol s); [intros w _; apply Ev|exact HS]].
  intros Hne. rewrite Hq in Hne. rewrite Q0. destruct (HN Hne) as [X|[X|X]];
    [left; exact X|right; left; exact (awk_evol _ _ (Ev 1) X)|right; right; exact (awk_evol _ _ (Ev 2) X)].
Qed.

Lemma WK_step_owner s k s' : Inv P An s -> PL s -> XD s -> WQI s -> OTH s -> NA s /\ SLC s ->
  exec P s (LStep 0 k) = Some s' -> NA s' /\ SLC s'.
Proof.
  intros HI (p0 & st0 & r0 & c0 & l0 & H0 & Hn & H1 & H2 & Hsub & Hs0 & Hc & Hwk & Hran) HX (WA & WB) HO [HN HS] E.
  pose proof (step_effects P s 0 k s' E) as [Eo Ev En Er Es].
  pose proof (Ev 1 ltac:(discriminate)) as V1. pose proof (Ev 2 ltac:(discriminate)) as V2.
  split; [|apply (SLC_evol s); [intros w [-> | ->]; apply Ev; discriminate|exact HS]].
  clear Eo Ev En Er Es.
  destruct HX as (_ & _ & _ & _ & _ & _ & _ & _ & _ & _ & W1 & W2).
  assert (KEEP : pc (thr s' 0) = 19 \/ (que s' 16 = que s 16 /\ pc (thr s 0) <> 19) -> NA s').
  { intros [H|[Hq Hne]] Hne'; [left; exact H|]. rewrite Hq in Hne'.
    destruct (HN Hne') as [X|[X|X]]; [contradiction|right; left; exact (awk_evol _ _ V1 X)|right; right; exact (awk_evol _ _ V2 X)]. }
  destruct (Nat.eq_dec p0 19) as [->|Hne].
  - (* the owner is at the Signal *)
    destruct st0.
    + unfold exec in E. destruct (fault s); [discriminate|]. rewrite Hn in E. cbn in E. rewrite H0 in E. discriminate E.
    + unfold exec in E. destruct (fault s); [discriminate|]. rewrite Hn in E. cbn in E. rewrite H0 in E. cbn in E.
      inversion E; subst s'. apply KEEP. left. cbn. unfold upd. cbn. rewrite ?H0. reflexivity.
    + (* Ready: the Signal itself *)
      assert (Hf : fault s = None) by (unfold exec in E; destruct (fault s); [discriminate E|reflexivity]).
      destruct (exec_signal P s 0 k 16 s' Hf) as [X|[[Hwq X]|(u0 & L' & Hin & X)]];
        [rewrite Hn; reflexivity|rewrite H0; reflexivity|unfold fetch; rewrite H0; reflexivity|exact E| | |].
      * subst s'. apply KEEP. left. cbn. rewrite H0. reflexivity.
      * (* nobody sleeps on the condition: both workers are awake *)
        subst s'. intros Hq. cbn in Hq. right. left. apply (awk_evol _ _ V1). unfold awake.
        destruct (stat (thr s 1)) eqn:Hs1; try exact I.
        -- exfalso. pose proof (HS 1 c m (or_introl eq_refl) Hs1) as ->.
           assert (Z : In 1 (wq s 16)) by (apply WA; exists m; exact Hs1). rewrite Hwq in Z. destruct Z.
        -- exfalso. destruct W1 as (_ & B & C & _). apply Hq. exact (proj1 (B (or_intror (C Hs1)))).
      * (* a sleeper is woken: it is a worker, and it is awake afterwards *)
        subst s'. intros _.
        destruct (proj2 (WA u0 16) Hin) as (m & Hsl).
        assert (Hu : u0 = 1 \/ u0 = 2).
        { destruct u0 as [|[|[|u0]]]; [rewrite H0 in Hsl; discriminate Hsl|left; reflexivity|right; reflexivity|].
          destruct (HO (S (S (S u0))) ltac:(lia)) as [Z|Z]; rewrite Z in Hsl; discriminate Hsl. }
        destruct Hu as [-> | ->]; [right; left|right; right]; apply (woken_awake _ _ _ 16 m); try discriminate; exact Hsl.
    + exfalso. cbn in Hwk. discriminate Hwk.
    + exfalso. cbn in Hwk. discriminate Hwk.
    + unfold exec in E. destruct (fault s); [discriminate|]. rewrite Hn in E. cbn in E. rewrite H0 in E. discriminate E.
  - (* any other owner step: the queue is unchanged, or it is the push and the owner moves to the Signal *)
    assert (FIN : forall p0' st0' r0' c0' l0',
       thr s' 0 = mkT 16 p0' st0' r0' c0' l0' None -> (p0' = 19 \/ que s' 16 = que s 16) -> NA s').
    { intros p0' st0' r0' c0' l0' T [a|a]; apply KEEP; [left; rewrite T; exact a|right; split; [exact a|rewrite H0; exact Hne]]. }
    unfold exec in E. destruct (fault s); [discriminate|]. rewrite Hn in E. cbn [Nat.ltb Nat.leb negb] in E.
    rewrite H0 in E. cbn [stat] in E.
    destruct st0; try discriminate E.
    + inversion E; subst s'. eapply FIN; [cbn; unfold upd; cbn; reflexivity|right; reflexivity].
    + destruct p0 as [|[|[|[|[|[|[|[|[|[|[|[|[|[|[|[|[|[|[|[|[|[|[|[|[|[|[|[|[|[|[|[|[|[|[|[|[|[|[|[|[|[|[|[|[|p0]]]]]]]]]]]]]]]]]]]]]]]]]]]]]]]]]]]]]]]]]]]]];
      try (exfalso; exact (Hne eq_refl));
      cbn in E; try (destruct p0; cbn in E); unfold live, obj_of in E; cbn in E;
      repeat match type of E with
             | (if ?c then _ else _) = _ => destruct c eqn:?
             | match ?x with _ => _ end = _ => destruct x eqn:?
             end;
      try discriminate E; cbn in E; rewrite ?H0 in E; cbn in E; try discriminate E;
      repeat match type of E with
             | context [if ?c then _ else _] => destruct c eqn:?
             | context [match que s ?q with _ => _ end] => destruct (que s q) eqn:?
             | context [match wq s ?q with _ => _ end] => destruct (wq s q) eqn:?
             end;
      cbn in E; try discriminate E;
      (inversion E; subst s'; clear E);
      (eapply FIN; [cbn; unfold upd; cbn;
                     rewrite ?wake_keep, ?wakes_keep by (cbn; rewrite ?H0; reflexivity);
                     cbn; rewrite ?H0; cbn; reflexivity
                   | first [left; reflexivity | (right; nv; reflexivity)] ]).
    + destruct (fetch P {| prog := 16; pc := p0; stat := Asleep c m; reg := r0; cnt := c0; lim := l0; cur := None |}) eqn:EF;
        try discriminate E.
      exfalso. unfold fetch in EF. cbn [prog pc] in EF. revert EF.
      do 46 (destruct p0 as [|p0]; [discriminate|]). discriminate.
    + destruct (negb (live s m)); [inversion E; subst s'; eapply FIN; [cbn; rewrite H0; reflexivity|right; reflexivity]|].
      destruct (own s m); [discriminate|]. inversion E; subst s'.
      eapply FIN; [cbn; unfold upd; cbn; reflexivity|right; reflexivity].
Qed.

Lemma pool_wk n s : reach P (init_pool n) s -> NA s /\ SLC s /\ OTH s.
Proof.
  intros R. induction R as [|s s' R IH [l E]].
  - split; [intros X; exfalso; apply X; reflexivity|]. split.
    + intros w c m [-> | ->] X; cbn in X; discriminate X.
    + intros u Hu. destruct u as [|[|[|u]]]; try lia. left. reflexivity.
  - destruct IH as (HN & HS & HO).
    destruct (pool_inv n s R) as (HP & HI & _). pose proof (pool_xd n s R) as HX.
    pose proof (WQI_reach P _ s (initial_wqi _ (init_pl n)) R) as HW.
    assert (Hn : nthr s = 3) by (destruct HP as (? & ? & ? & ? & ? & _ & Hn & _); exact Hn).
    assert (X : NA s' /\ SLC s').
    { destruct l as [t k|t].
      + destruct t as [|[|[|t]]].
        * exact (WK_step_owner s k s' HI HP HX HW HO (conj HN HS) E).
        * exact (WK_step_w1 s k s' HI HP HX (conj HN HS) E).
        * exact (WK_step_w2 s k s' HI HP HX (conj HN HS) E).
        * exfalso. unfold exec in E. destruct (fault s); [discriminate|]. rewrite Hn in E. discriminate E.
      + exact (WK_step_spur s t s' (conj HN HS) E). }
    destruct X as [X1 X2]. split; [exact X1|]. split; [exact X2|exact (OTH_step s l s' Hn HO E)].
Qed.

Lemma awk_iff st : awk st <-> (forall c m, st <> Asleep c m) /\ st <> Done.
Proof.
  destruct st as [| | |c m|m|]; cbn; split.
  1,3,5,9: (intros _; split; [intros c0 m0 H; discriminate H|intros H; discriminate H]).
  1,2,3,6: (intros _; exact I).
  - intros [].
  - intros [X _]. exact (X c m eq_refl).
  - intros [].
  - intros [_ Y]. exact (Y eq_refl).
Qed.

(* no lost wake-up: a queued closure always has somebody who will take it *)
Theorem pool_wakeup n s : reach P (init_pool n) s -> que s PQ <> [] ->
  pc (thr s 0) = 19 \/
  exists w, (w = 1 \/ w = 2) /\ (forall c m, stat (thr s w) <> Asleep c m) /\ stat (thr s w) <> Done.
Proof.
  intros R Hq. destruct (pool_wk n s R) as (HN & _). destruct (HN Hq) as [X|[X|X]]; [left; exact X| |];
  right; [exists 1|exists 2]; (split; [auto|]); apply awk_iff; exact X.
Qed.

(* both workers asleep with a closure queued: only in the instant before the owner's Signal; never while the owner is
   inside JoinAll() *)
Theorem pool_no_sleep_on_work n s : reach P (init_pool n) s ->
  (exists c m, stat (thr s 1) = Asleep c m) -> (exists c m, stat (thr s 2) = Asleep c m) ->
  pc (thr s 0) <> 19 -> que s PQ = [].
Proof.
  intros R (c1 & m1 & S1) (c2 & m2 & S2) Hp. destruct (que s PQ) eqn:Hq; [reflexivity|exfalso].
  destruct (pool_wk n s R) as (HN & _). unfold PQ in Hq.
  destruct HN as [X|[X|X]]; [rewrite Hq; discriminate|exact (Hp X)| |]; unfold awake in X; [rewrite S1 in X|rewrite S2 in X]; exact X.
Qed.
