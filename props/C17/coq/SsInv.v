(* C17.SsInv: the event loop's executor (SelectServer::Execute / DrainAndExecute / RunCallbacks /
   ~SelectServer DrainCallbacks) with N producer threads and callbacks that call Execute again:
   invariant describing every reachable state by the loop thread's pc/status plus a clause per producer. *)
From Coq Require Import List Arith Bool Lia.
Import ListNotations.
From C17 Require Import Sem Progs ExecInv.

Definition s0_ok (p0 : nat) (st0 : status) : bool :=
  match st0 with
  | Fresh => p0 =? 0
  | Ready => p0 <=? 37
  | Done => p0 =? 37
  | _ => false
  end.
Definition mI (p0 : nat) (st0 : status) : bool := is_ready st0 && inl p0 [10;11;16;17;25;26;27;32;33;36].
Definition screated (p0 c0 i : nat) : bool :=
  if p0 <=? 0 then false else if p0 <=? 3 then i <? c0 else true.
Definition sjoined (p0 c0 i : nat) : bool :=
  if p0 <=? 20 then false else if p0 <=? 23 then i <? c0 else true.

Lemma filt_push k (l : list cb) n :
  map snd (filter (fun c => fst c =? k) l) = seq 0 n ->
  map snd (filter (fun c => fst c =? k) (l ++ [(k, n)])) = seq 0 (S n).
Proof.
  intros H. rewrite seq_S, filter_app, map_app. f_equal; [exact H|]. cbn. rewrite Nat.eqb_refl. reflexivity.
Qed.
Lemma filt_push_other k k' (l : list cb) x : k' <> k ->
  map snd (filter (fun c => fst c =? k) (l ++ [(k', x)])) = map snd (filter (fun c => fst c =? k) l).
Proof.
  intros H. rewrite filter_app, map_app. cbn. apply Nat.eqb_neq in H. rewrite H. cbn. apply app_nil_r.
Qed.

Section S.
Variable lims rs : list nat.
Variable kk : nat.
Definition NS := length lims.

Definition sregok (p0 c0 l0 : nat) : Prop :=
  (inl p0 [1;2;3;21;22;23] = true -> l0 = NS /\ c0 <= NS) /\
  (inl p0 [2;22] = true -> c0 < NS).

Definition sPRi (s : state) (p0 c0 : nat) (om : option tid) (i : nat) : Prop :=
  exists pp stp rp cp,
    thr s (1 + i) = mkT 11 pp stp rp cp (nth i lims 0) None /\
    prodok pp stp = true /\
    is_ns stp = negb (screated p0 c0 i) /\
    (sjoined p0 c0 i = true -> stp = Done) /\
    (om = Some (1 + i) <-> powns pp stp = true) /\
    map snd (filter (fun c => fst c =? 1 + i) (subm s)) = seq 0 cp.

Definition sqfacts (s : state) (p0 : nat) : Prop :=
  (inl p0 [0;1;2;3;4;5;6;7;8;9;10;20;21;22;23;24;25;26;36;37] = true -> que s 3 = []) /\
  (inl p0 [13;29] = true -> que s 3 <> []) /\
  (inl p0 [36;37] = true -> que s 2 = []).

(* the wake-up invariant of the event loop: queued callbacks are announced by a byte in the wake-up pipe, or the
   loop thread is at a point from which it looks at the queue without sleeping in poll() first (between a
   successful poll and the swap, between its own push and pipe write, or in the destructor's drain), or a
   producer is between its push and its pipe write *)
Definition safe0 (p0 : nat) : bool :=
  inl p0 [8;9;10;17;18;20;21;22;23;24;25;26;27;28;29;30;31;32;33;34;35;36;37].
Definition spend (s : state) (i : nat) : Prop :=
  stat (thr s (1 + i)) = Ready /\ inl (pc (thr s (1 + i))) [3;4] = true.
Definition swk (s : state) (p0 : nat) : Prop :=
  que s 2 <> [] -> var s 2 <> 0 \/ safe0 p0 = true \/ (exists i, i < NS /\ spend s i).

Definition Rss (s : state) : Prop :=
  exists p0 st0 r0 c0 l0 cu0 om,
    thr s 0 = mkT 10 p0 st0 r0 c0 l0 cu0 /\
    own s 2 = om /\
    nthr s = 1 + NS /\ pars s 0 = NS /\ fault s = None /\
    s0_ok p0 st0 = true /\
    sregok p0 c0 l0 /\
    iscu cu0 = inl p0 [14;30] /\
    (mI p0 st0 = true <-> om = Some 0) /\
    (forall t, om = Some t -> t < 1 + NS) /\
    (forall r, r <> 2 -> own s r = None) /\
    (forall o, alive s o = true) /\
    sqfacts s p0 /\ swk s p0 /\
    subm s = map fst (ran s) ++ ol cu0 ++ que s 3 ++ que s 2 /\
    (forall c t, In (c, t) (ran s) -> t = 0) /\
    (forall c, In c (subm s) -> fst c < 1 + NS) /\
    map snd (filter (fun c => fst c =? 0) (subm s)) = seq 0 r0 /\
    (forall i, i < NS -> sPRi s p0 c0 om i).

Lemma Rss_init : Rss (init_ss lims rs kk).
Proof.
  unfold Rss. exists 0, Fresh, 0, 0, 0, None, None. cbn.
  repeat split; try reflexivity; try solve [intros; discriminate]; try solve [intros; reflexivity];
    try solve [intros ? ? []]; try solve [intros ? []]; try contradiction;
    try solve [intros XX; exfalso; apply XX; reflexivity].
  intros i Hi. unfold sPRi. exists 0, NotStarted, 0, 0.
  apply Nat.ltb_lt in Hi. unfold NS in Hi.
  unfold init_ss, base_state. cbn [thr subm Nat.add]. rewrite Hi. cbn.
  repeat split; try reflexivity; intros; discriminate.
Qed.
End S.
