(* C17.FutRaw: the FutureImpl protocol in the raw-pointer pattern of ExecutorThread::DrainCallbacks
   (owner thread: Future on its stack, Get, ~Future; setter thread: Set through a pointer, no reference).
   Every reachable state of every schedule is described exactly by the two program counters/statuses
   (an abstraction function proved inductive by exhaustive symbolic execution of each instruction). *)
From Coq Require Import List Arith Bool Lia.
Import ListNotations.
From C17 Require Import Sem Progs.

Definition inl (x : nat) (l : list nat) : bool := existsb (Nat.eqb x) l.
Definition is_ready (s : status) : bool := match s with Ready => true | _ => false end.
Definition is_asleep (s : status) : bool := match s with Asleep _ _ => true | _ => false end.

Definition main_owns (p0 : nat) (st0 : status) : bool := is_ready st0 && inl p0 [2;3;4;5;6;9;10].
Definition set_owns (p1 : nat) (st1 : status) : bool := is_ready st1 && inl p1 [1;2;3;4;5].
Definition st0_ok (p0 : nat) (st0 : status) : bool :=
  match st0 with
  | NotStarted => false
  | Fresh => p0 =? 0
  | Ready => (p0 <=? 16) && negb (p0 =? 12)
  | Asleep _ _ => p0 =? 3
  | Woken _ => p0 =? 3
  | Done => p0 =? 16
  end.
Definition st1_ok (p0 p1 : nat) (st1 : status) : bool :=
  match st1 with
  | NotStarted => (p1 =? 0) && (p0 =? 0)
  | Fresh => (p1 =? 0) && negb (p0 =? 0)
  | Ready => (p1 <=? 6) && negb (p0 =? 0)
  | Done => (p1 =? 6) && negb (p0 =? 0)
  | _ => false
  end.
Definition norm0 (st : status) : status :=
  match st with Asleep _ _ => Asleep 8 8 | Woken _ => Woken 8 | x => x end.
Definition cntf (p0 : nat) : nat := if p0 =? 0 then 0 else if p0 =? 15 then 0 else 1.

Definition okraw (p0 : nat) (st0 : status) (p1 : nat) (st1 : status) : bool :=
  st0_ok p0 st0 && st1_ok p0 p1 st1 && negb (main_owns p0 st0 && set_owns p1 st1) &&
  implb (5 <=? p0) (3 <=? p1) && implb (9 <=? p0) (6 <=? p1).
Definition regok (p0 r0 c0 : nat) : Prop :=
  (inl p0 [6;7] = true -> r0 = THE_VALUE) /\ (inl p0 [10;11] = true -> r0 = 0) /\ c0 = cntf p0.

Definition ownf (p0 : nat) (st0 : status) (p1 : nat) (st1 : status) : option tid :=
  if main_owns p0 st0 then Some 0 else if set_owns p1 st1 then Some 1 else None.

Definition Rraw (s : state) : Prop :=
  exists p0 st0 r0 c0 l0 p1 st1 r1 c1 l1,
    thr s 0 = mkT 4 p0 st0 r0 c0 l0 None /\
    thr s 1 = mkT 5 p1 st1 r1 c1 l1 None /\
    nthr s = 2 /\ fault s = None /\ st0 = norm0 st0 /\
    okraw p0 st0 p1 st1 = true /\ regok p0 r0 c0 /\
    own s 8 = ownf p0 st0 p1 st1 /\
    (forall r, r <> 8 -> own s r = None) /\
    wq s 8 = (if is_asleep st0 then [0] else []) /\
    (forall r, r <> 8 -> wq s r = []) /\
    var s 9 = (if 3 <=? p1 then 1 else 0) /\
    var s 10 = (if 4 <=? p1 then THE_VALUE else 0) /\
    var s 8 = (if p0 <=? 9 then 1 else 0) /\
    alive s 1 = (p0 <=? 13) /\
    outs s = (if p0 <=? 7 then [] else [(0, OUT_GET, THE_VALUE)]).

Lemma Rraw_init : Rraw init_fut_raw.
Proof.
  unfold Rraw. do 10 eexists. cbn.
  repeat split; try reflexivity; try solve [intros; discriminate]; intros r Hr; reflexivity.
Qed.

Ltac bools := repeat match goal with
  | H : _ && _ = true |- _ => apply andb_true_iff in H; destruct H
  | H : (_ =? _) = true |- _ => apply Nat.eqb_eq in H; subst
  end.

Ltac simp_in E Ht0 Ht1 Hown HownO Hwq HwqO Hv9 Hv10 Hv8 Hal :=
  do 4 (unfold live, obj_of, FM, FC, REF, ISSET, VALUE, busy8, wake in E; cbn in E; rewrite ?Ht0, ?Ht1, ?Hown, ?Hwq, ?Hv9, ?Hv10, ?Hv8, ?Hal in E;
        repeat rewrite HownO in E by discriminate; repeat rewrite HwqO in E by discriminate).

Ltac ptwise :=
  let r := fresh "r" in let Hr := fresh "Hr" in let Er := fresh "Er" in
  intros r Hr; cbn; unfold upd;
  try (destruct (Nat.eqb r 8) eqn:Er; [apply Nat.eqb_eq in Er; congruence|]); auto.

Ltac finish Ht0 Ht1 Hown HownO Hwq HwqO Hv9 Hv10 Hv8 Hal Houts :=
  unfold Rraw; do 10 eexists; cbn;
  rewrite ?Ht0, ?Ht1; cbn;
  (split; [reflexivity|]); (split; [reflexivity|]);
  rewrite ?Hown, ?Hwq, ?Hv9, ?Hv10, ?Hv8, ?Hal, ?Houts; cbn;
  repeat split; try reflexivity; try assumption; try solve [intros; discriminate]; try solve [intros; reflexivity]; try ptwise.

Lemma Rraw_step s l s' : Rraw s -> exec P s l = Some s' -> Rraw s'.
Proof.
  intros (p0 & st0 & r0 & c0 & l0 & p1 & st1 & r1 & c1 & l1 & Ht0 & Ht1 & Hn & Hf & Hnm & Hok & Hreg &
          Hown & HownO & Hwq & HwqO & Hv9 & Hv10 & Hv8 & Hal & Houts) E.
  unfold exec in E. rewrite Hf, Hn in E.
  destruct l as [t pick|t]; (destruct t as [|[|t]]; [| |cbn in E; discriminate]).
  - (* the owner thread *)
    rewrite Ht0 in E. cbn [stat] in E.
    destruct p0 as [|[|[|[|[|[|[|[|[|[|[|[|[|[|[|[|[|p0]]]]]]]]]]]]]]]]]; try (cbn in Hok; discriminate);
    destruct st0; try (cbn in Hok; discriminate); try (cbn in Hnm; inversion Hnm; subst);
    destruct p1 as [|[|[|[|[|[|[|p1]]]]]]]; try (cbn in Hok; discriminate);
    destruct st1; try (cbn in Hok; discriminate);
    cbn in Hok; cbn in Hreg; destruct Hreg as (Hr1 & Hr2 & Hr3); try (specialize (Hr1 eq_refl)); try (specialize (Hr2 eq_refl)); subst; cbn in *;
    simp_in E Ht0 Ht1 Hown HownO Hwq HwqO Hv9 Hv10 Hv8 Hal;
    try discriminate;
    (inversion E; subst s'; clear E);
    finish Ht0 Ht1 Hown HownO Hwq HwqO Hv9 Hv10 Hv8 Hal Houts.
  - (* the setter thread *)
    rewrite Ht1 in E. cbn [stat] in E.
    destruct p0 as [|[|[|[|[|[|[|[|[|[|[|[|[|[|[|[|[|p0]]]]]]]]]]]]]]]]]; try (cbn in Hok; discriminate);
    destruct st0; try (cbn in Hok; discriminate); try (cbn in Hnm; inversion Hnm; subst);
    destruct p1 as [|[|[|[|[|[|[|p1]]]]]]]; try (cbn in Hok; discriminate);
    destruct st1; try (cbn in Hok; discriminate);
    cbn in Hok; cbn in Hreg; destruct Hreg as (Hr1 & Hr2 & Hr3); try (specialize (Hr1 eq_refl)); try (specialize (Hr2 eq_refl)); subst; cbn in *;
    simp_in E Ht0 Ht1 Hown HownO Hwq HwqO Hv9 Hv10 Hv8 Hal;
    try discriminate;
    (inversion E; subst s'; clear E);
    finish Ht0 Ht1 Hown HownO Hwq HwqO Hv9 Hv10 Hv8 Hal Houts.
  - (* spurious wake-up of the owner *)
    rewrite Ht0 in E. cbn [stat] in E.
    destruct p0 as [|[|[|[|[|[|[|[|[|[|[|[|[|[|[|[|[|p0]]]]]]]]]]]]]]]]]; try (cbn in Hok; discriminate);
    destruct st0; try (cbn in Hok; discriminate); try (cbn in Hnm; inversion Hnm; subst); try (cbn in E; discriminate);
    destruct p1 as [|[|[|[|[|[|[|p1]]]]]]]; try (cbn in Hok; discriminate);
    destruct st1; try (cbn in Hok; discriminate);
    cbn in Hok; cbn in Hreg; destruct Hreg as (Hr1 & Hr2 & Hr3); try (specialize (Hr1 eq_refl)); try (specialize (Hr2 eq_refl)); subst; cbn in *;
    simp_in E Ht0 Ht1 Hown HownO Hwq HwqO Hv9 Hv10 Hv8 Hal;
    try discriminate;
    (inversion E; subst s'; clear E);
    finish Ht0 Ht1 Hown HownO Hwq HwqO Hv9 Hv10 Hv8 Hal Houts.
  - (* spurious wake-up of the setter: it never sleeps *)
    rewrite Ht1 in E. cbn [stat] in E.
    destruct st1; try (cbn in E; discriminate).
    unfold okraw, st1_ok in Hok. rewrite ?andb_false_r in Hok. cbn in Hok. discriminate.
Qed.

Theorem Rraw_reach s : reach P init_fut_raw s -> Rraw s.
Proof.
  intros R. induction R as [|s s' R IH [l E]]; [apply Rraw_init|]. eapply Rraw_step; eauto.
Qed.

(* what the invariant says about the property *)
Theorem fut_raw_safe s : reach P init_fut_raw s ->
  fault s = None /\
  (forall t k v, In (t, k, v) (outs s) -> k = OUT_GET -> v = THE_VALUE /\ var s 9 = 1).
Proof.
  intros R. apply Rraw_reach in R.
  destruct R as (p0 & st0 & r0 & c0 & l0 & p1 & st1 & r1 & c1 & l1 & Ht0 & Ht1 & Hn & Hf & Hnm & Hok & Hreg &
                 Hown & HownO & Hwq & HwqO & Hv9 & Hv10 & Hv8 & Hal & Houts).
  split; [exact Hf|].
  intros t k v Hin _. rewrite Houts in Hin.
  destruct (p0 <=? 7) eqn:E7; [destruct Hin|].
  destruct Hin as [Hin|[]]. inversion Hin; subst. split; [reflexivity|].
  unfold okraw in Hok. rewrite !andb_true_iff in Hok.
  destruct Hok as [[_ H5] _].
  apply Nat.leb_gt in E7.
  assert (X : (5 <=? p0) = true) by (apply Nat.leb_le; lia).
  rewrite Hv9. rewrite X in H5. revert H5. destruct (3 <=? p1); cbn; intros H5; [reflexivity|discriminate].
Qed.
