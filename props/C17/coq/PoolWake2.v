(* C17.PoolWake2: ThreadPool (init_pool n): once JoinAll() has broadcast the shutdown (owner pc >= 25) no worker sleeps on
   the pool's condition, and none is about to (past the shutdown test, before the wait) -- so JoinAll() cannot wait for a
   worker that sleeps for ever.  Every schedule, any n. *)
From Coq Require Import List Arith Bool Lia Permutation.
Import ListNotations.
From C17 Require Import Sem Progs Static Annot Owner Effects Conserve WaitQ WaitQAll Pool PoolD PoolW1 PoolW2 PoolFin PoolWake.

Definition nosl (st : status) (pp : nat) : Prop := (forall c m, st <> Asleep c m) /\ ~ (st = Ready /\ pp = 12).

Definition SB (s : state) : Prop :=
  (25 <=? pc (thr s 0)) = true -> forall w, w = 1 \/ w = 2 -> nosl (stat (thr s w)) (pc (thr s w)).

Lemma nosl_evol a b p : stat_evol a b -> nosl a p -> nosl b p.
Proof.
  intros E [N1 N2]. split.
  - intros c m X. rewrite X in E. destruct E as [Y|[(c0 & m0 & _ & Y)|[_ Y]]]; try discriminate Y. exact (N1 c m (eq_sym Y)).
  - intros [X Y]. apply N2. split; [exact (evol_ready _ _ E X)|exact Y].
Qed.

Lemma SB_keep s s' : ((25 <=? pc (thr s' 0)) = true -> (25 <=? pc (thr s 0)) = true) ->
  (forall w, w = 1 \/ w = 2 -> pc (thr s' w) = pc (thr s w) /\ stat_evol (stat (thr s w)) (stat (thr s' w))) -> SB s -> SB s'.
Proof.
  intros Hp Hw S H w Hww. destruct (Hw w Hww) as [P1 V1]. rewrite P1. exact (nosl_evol _ _ _ V1 (S (Hp H) w Hww)).
Qed.

Lemma le25_24 p : (25 <=? p) = true -> (24 <=? p) = true.
Proof. intros H. apply Nat.leb_le in H. apply Nat.leb_le. lia. Qed.

Lemma SB_step_w1 s k s' : Inv P An s -> PL s -> XD s -> SB s -> exec P s (LStep 1 k) = Some s' -> SB s'.
Proof.
  intros HI (p0 & st0 & r0 & c0 & l0 & H0 & Hn & H1 & H2 & _) HX HS E.
  pose proof (step_effects P s 1 k s' E) as [Eo Ev En Er Es].
  destruct (only_stat_fields _ _ (Eo 0 ltac:(discriminate))) as (_ & Q0 & _).
  destruct (only_stat_fields _ _ (Eo 2 ltac:(discriminate))) as (_ & PO & _).
  pose proof (Ev 2 ltac:(discriminate)) as VO.
  clear Eo Ev En Er Es.
  intros H25. rewrite Q0 in H25. pose proof (HS H25) as HS'.
  rewrite H0 in H25. cbn [pc] in H25.
  pose proof (HS' 1 ltac:(auto)) as N1. pose proof (HS' 2 ltac:(auto)) as N2.
  destruct (thr s 1) as [pg pp stp rp cp lp cuw] eqn:Hw. cbn in H1. subst pg. cbn [stat pc] in N1.
  destruct HX as (X1 & _ & _ & _ & _ & _ & _ & _ & _ & _ & W1 & W2).
  rewrite H0 in X1. cbn [pc] in X1. rewrite (le25_24 _ H25) in X1. rename X1 into V1.
  unfold WI in W1. rewrite Hw in W1. cbn [pc stat] in W1. destruct W1 as (_ & _ & _ & D).
  assert (FIN : forall pp' stp' rp' cp' lp' cuw',
     thr s' 1 = mkT 17 pp' stp' rp' cp' lp' cuw' -> nosl stp' pp' ->
     forall w, w = 1 \/ w = 2 -> nosl (stat (thr s' w)) (pc (thr s' w))).
  { intros pp' stp' rp' cp' lp' cuw' T a w Hww. destruct Hww as [-> | ->].
    - rewrite T. cbn [stat pc]. exact a.
    - rewrite PO. exact (nosl_evol _ _ _ VO N2). }
  unfold exec in E. destruct (fault s); [discriminate|]. rewrite Hn in E. cbn [Nat.ltb Nat.leb negb] in E.
  rewrite Hw in E. cbn [stat] in E.
  destruct stp; try discriminate E.
  - (* Fresh *)
    inversion E; subst s'.
    assert (Z : pp = 0).
    { pose proof (HI 1) as It. unfold habs in It. rewrite Hw in It. cbn in It. destruct It as (Z & _). exact Z. }
    subst pp.
    eapply FIN; [cbn; unfold upd; cbn; reflexivity|split; [intros c9 m9 XX; discriminate XX | intros [XX YY]; first [discriminate XX | discriminate YY]]].
  - (* Ready *)
    destruct pp as [|[|[|[|[|[|[|[|[|[|[|[|[|[|[|[|pp]]]]]]]]]]]]]]]];
    cbn in E; try (destruct pp; cbn in E); unfold live, obj_of in E; cbn in E;
    repeat match type of E with
           | (if ?c then _ else _) = _ => destruct c eqn:?
           | match ?x with _ => _ end = _ => destruct x eqn:?
           end;
    try discriminate E; cbn in E; rewrite ?Hw in E; cbn in E; try discriminate E;
    repeat match type of E with
           | context [if ?c then _ else _] => destruct c eqn:?
           | context [match que s ?q with _ => _ end] => destruct (que s q) eqn:?
           | context [match wq s ?q with _ => _ end] => destruct (wq s q) eqn:?
           end;
    cbn in E; try discriminate E;
    (inversion E; subst s'; clear E);
    cbn in D; try discriminate D;
    (eapply FIN; [cbn; unfold upd; cbn;
                   rewrite ?wake_keep, ?wakes_keep by (cbn; rewrite ?Hw; reflexivity);
                   cbn; rewrite ?Hw; cbn; reflexivity
                 | first [ (split; [intros c9 m9 XX; discriminate XX | intros [XX YY]; first [discriminate XX | discriminate YY]])
                         | (exfalso; apply (proj2 N1); split; reflexivity)
                         | (exfalso; match goal with Hb : (var s _ =? 1) = false |- _ => unfold PSHUT in Hb; rewrite V1 in Hb; discriminate Hb end) ] ]).
  - (* Asleep *)
    exfalso. exact (proj1 N1 c m eq_refl).
  - (* Woken *)
    assert (Hpp : pp = 12).
    { pose proof (HI 1) as It. unfold habs in It. rewrite Hw in It. cbn [stat] in It. destruct It as ((cc & It) & _).
      destruct pp as [|[|[|[|[|[|[|[|[|[|[|[|[|[|[|[|pp]]]]]]]]]]]]]]]]; cbn in D; try discriminate D;
      cbn in It; destruct It as [It|It]; try discriminate It; reflexivity. }
    subst pp. cbn in E.
    destruct (negb (live s m)).
    + inversion E; subst s'; clear E.
      eapply FIN; [cbn; rewrite Hw; reflexivity|split; [intros c9 m9 XX; discriminate XX | intros [XX YY]; first [discriminate XX | discriminate YY]]].
    + destruct (own s m); [discriminate E|].
      inversion E; subst s'; clear E.
      eapply FIN; [cbn; unfold upd; cbn; reflexivity|split; [intros c9 m9 XX; discriminate XX | intros [XX YY]; first [discriminate XX | discriminate YY]]].
Qed.

Lemma SB_step_w2 s k s' : Inv P An s -> PL s -> XD s -> SB s -> exec P s (LStep 2 k) = Some s' -> SB s'.
Proof.
  intros HI (p0 & st0 & r0 & c0 & l0 & H0 & Hn & H1 & H2 & _) HX HS E.
  pose proof (step_effects P s 2 k s' E) as [Eo Ev En Er Es].
  destruct (only_stat_fields _ _ (Eo 0 ltac:(discriminate))) as (_ & Q0 & _).
  destruct (only_stat_fields _ _ (Eo 1 ltac:(discriminate))) as (_ & PO & _).
  pose proof (Ev 1 ltac:(discriminate)) as VO.
  clear Eo Ev En Er Es.
  intros H25. rewrite Q0 in H25. pose proof (HS H25) as HS'.
  rewrite H0 in H25. cbn [pc] in H25.
  pose proof (HS' 2 ltac:(auto)) as N1. pose proof (HS' 1 ltac:(auto)) as N2.
  destruct (thr s 2) as [pg pp stp rp cp lp cuw] eqn:Hw. cbn in H2. subst pg. cbn [stat pc] in N1.
  destruct HX as (X1 & _ & _ & _ & _ & _ & _ & _ & _ & _ & W1 & W2).
  rewrite H0 in X1. cbn [pc] in X1. rewrite (le25_24 _ H25) in X1. rename X1 into V1.
  unfold WI in W2. rewrite Hw in W2. cbn [pc stat] in W2. destruct W2 as (_ & _ & _ & D).
  assert (FIN : forall pp' stp' rp' cp' lp' cuw',
     thr s' 2 = mkT 18 pp' stp' rp' cp' lp' cuw' -> nosl stp' pp' ->
     forall w, w = 1 \/ w = 2 -> nosl (stat (thr s' w)) (pc (thr s' w))).
  { intros pp' stp' rp' cp' lp' cuw' T a w Hww. destruct Hww as [-> | ->].
    - rewrite PO. exact (nosl_evol _ _ _ VO N2).
    - rewrite T. cbn [stat pc]. exact a. }
  unfold exec in E. destruct (fault s); [discriminate|]. rewrite Hn in E. cbn [Nat.ltb Nat.leb negb] in E.
  rewrite Hw in E. cbn [stat] in E.
  destruct stp; try discriminate E.
  - (* Fresh *)
    inversion E; subst s'.
    assert (Z : pp = 0).
    { pose proof (HI 2) as It. unfold habs in It. rewrite Hw in It. cbn in It. destruct It as (Z & _). exact Z. }
    subst pp.
    eapply FIN; [cbn; unfold upd; cbn; reflexivity|split; [intros c9 m9 XX; discriminate XX | intros [XX YY]; first [discriminate XX | discriminate YY]]].
  - (* Ready *)
    destruct pp as [|[|[|[|[|[|[|[|[|[|[|[|[|[|[|[|pp]]]]]]]]]]]]]]]];
    cbn in E; try (destruct pp; cbn in E); unfold live, obj_of in E; cbn in E;
    repeat match type of E with
           | (if ?c then _ else _) = _ => destruct c eqn:?
           | match ?x with _ => _ end = _ => destruct x eqn:?
           end;
    try discriminate E; cbn in E; rewrite ?Hw in E; cbn in E; try discriminate E;
    repeat match type of E with
           | context [if ?c then _ else _] => destruct c eqn:?
           | context [match que s ?q with _ => _ end] => destruct (que s q) eqn:?
           | context [match wq s ?q with _ => _ end] => destruct (wq s q) eqn:?
           end;
    cbn in E; try discriminate E;
    (inversion E; subst s'; clear E);
    cbn in D; try discriminate D;
    (eapply FIN; [cbn; unfold upd; cbn;
                   rewrite ?wake_keep, ?wakes_keep by (cbn; rewrite ?Hw; reflexivity);
                   cbn; rewrite ?Hw; cbn; reflexivity
                 | first [ (split; [intros c9 m9 XX; discriminate XX | intros [XX YY]; first [discriminate XX | discriminate YY]])
                         | (exfalso; apply (proj2 N1); split; reflexivity)
                         | (exfalso; match goal with Hb : (var s _ =? 1) = false |- _ => unfold PSHUT in Hb; rewrite V1 in Hb; discriminate Hb end) ] ]).
  - (* Asleep *)
    exfalso. exact (proj1 N1 c m eq_refl).
  - (* Woken *)
    assert (Hpp : pp = 12).
    { pose proof (HI 2) as It. unfold habs in It. rewrite Hw in It. cbn [stat] in It. destruct It as ((cc & It) & _).
      destruct pp as [|[|[|[|[|[|[|[|[|[|[|[|[|[|[|[|pp]]]]]]]]]]]]]]]]; cbn in D; try discriminate D;
      cbn in It; destruct It as [It|It]; try discriminate It; reflexivity. }
    subst pp. cbn in E.
    destruct (negb (live s m)).
    + inversion E; subst s'; clear E.
      eapply FIN; [cbn; rewrite Hw; reflexivity|split; [intros c9 m9 XX; discriminate XX | intros [XX YY]; first [discriminate XX | discriminate YY]]].
    + destruct (own s m); [discriminate E|].
      inversion E; subst s'; clear E.
      eapply FIN; [cbn; unfold upd; cbn; reflexivity|split; [intros c9 m9 XX; discriminate XX | intros [XX YY]; first [discriminate XX | discriminate YY]]].
Qed.

Lemma exec_broadcast Pg s t k c s' : fault s = None -> (t <? nthr s) = true -> stat (thr s t) = Ready ->
  fetch Pg (thr s t) = IBroadcast c -> exec Pg s (LStep t k) = Some s' ->
  s' = set_fault s UseAfterFree \/
  s' = set_thr (fold_left wake (wq s c) (set_wq s c [])) t (next (thr (fold_left wake (wq s c) (set_wq s c [])) t)).
Proof.
  intros Hf Hl Hs EF E. unfold exec in E. rewrite Hf, Hl in E. cbn [negb] in E. rewrite Hs in E.
  unfold exec_instr in E. rewrite EF in E.
  destruct (negb (live s c)); [left; injection E as <-; reflexivity|right; injection E as <-; reflexivity].
Qed.

Lemma SB_step_spur s t s' : SB s -> exec P s (LSpur t) = Some s' -> SB s'.
Proof.
  intros HS E. destruct (spur_effects P s t s' E) as (Eo & Ev & _).
  destruct (only_stat_fields _ _ (Eo 0)) as (_ & Q0 & _).
  apply (SB_keep s); [rewrite Q0; intros X; exact X| |exact HS].
  intros w _. destruct (only_stat_fields _ _ (Eo w)) as (_ & Pw & _). split; [exact Pw|apply Ev].
Qed.

Lemma SB_step_owner s k s' : Inv P An s -> PL s -> WQI s -> SLC s -> SB s -> exec P s (LStep 0 k) = Some s' -> SB s'.
Proof.
  intros HI (p0 & st0 & r0 & c0 & l0 & H0 & Hn & H1 & H2 & Hsub & Hs0 & Hc & Hwk & Hran) (WA & WB) HC HS E.
  pose proof (step_effects P s 0 k s' E) as [Eo Ev En Er Es].
  assert (HW : forall w, w = 1 \/ w = 2 -> pc (thr s' w) = pc (thr s w) /\ stat_evol (stat (thr s w)) (stat (thr s' w))).
  { intros w Hw. assert (w <> 0) by (destruct Hw as [-> | ->]; discriminate).
    destruct (only_stat_fields _ _ (Eo w H)) as (_ & Pw & _). split; [exact Pw|apply Ev; exact H]. }
  clear Eo Ev En Er Es.
  destruct (Nat.eq_dec p0 24) as [->|Hne].
  - (* the owner is at the Broadcast of JoinAll *)
    destruct st0.
    + unfold exec in E. destruct (fault s); [discriminate|]. rewrite Hn in E. cbn in E. rewrite H0 in E. discriminate E.
    + unfold exec in E. destruct (fault s); [discriminate|]. rewrite Hn in E. cbn in E. rewrite H0 in E. cbn in E.
      inversion E; subst s'. intros X. cbn in X. unfold upd in X. cbn in X. discriminate X.
    + assert (Hf : fault s = None) by (unfold exec in E; destruct (fault s); [discriminate E|reflexivity]).
      destruct (exec_broadcast P s 0 k 16 s' Hf) as [X|X];
        [rewrite Hn; reflexivity|rewrite H0; reflexivity|unfold fetch; rewrite H0; reflexivity|exact E| |].
      * subst s'. intros X. cbn in X. rewrite H0 in X. discriminate X.
      * intros _ w Hw. assert (Hw0 : w <> 0) by (destruct Hw as [-> | ->]; discriminate).
        destruct (HW w Hw) as [Pw Vw]. split.
        -- intros c m Hs. subst s'.
           assert (Z : slp (fold_left wake (wq s 16) (set_wq s 16 [])) w c).
           { exists m. rewrite <- Hs. cbn. unfold upd. apply Nat.eqb_neq in Hw0. rewrite Hw0. reflexivity. }
           apply slp_wakes in Z. destruct Z as [(m' & Z) Z2]. cbn in Z.
           pose proof (HC w c m' Hw Z) as ->. apply Z2. apply WA. exists m'. exact Z.
        -- intros [Xr Xp]. rewrite Pw in Xp.
           assert (OW : own s 16 = Some 0) by (apply (ready_owns P An s 0 16 HI); [rewrite H0; reflexivity|unfold ann; rewrite H0; reflexivity]).
           apply (worker_not_at_test s w HI); [destruct Hw as [-> | ->]; [left; exact H1|right; exact H2]|exact Hw0|exact OW|].
           split; [exact (evol_ready _ _ Vw Xr)|rewrite Xp; reflexivity].
    + exfalso. cbn in Hwk. discriminate Hwk.
    + exfalso. cbn in Hwk. discriminate Hwk.
    + unfold exec in E. destruct (fault s); [discriminate|]. rewrite Hn in E. cbn in E. rewrite H0 in E. discriminate E.
  - assert (FIN : forall p0' st0' r0' c0' l0',
       thr s' 0 = mkT 16 p0' st0' r0' c0' l0' None -> ((25 <=? p0') = true -> (25 <=? p0) = true) -> SB s').
    { intros p0' st0' r0' c0' l0' T a. apply (SB_keep s); [rewrite T, H0; exact a|exact HW|exact HS]. }
    unfold exec in E. destruct (fault s); [discriminate|]. rewrite Hn in E. cbn [Nat.ltb Nat.leb negb] in E.
    rewrite H0 in E. cbn [stat] in E.
    destruct st0; try discriminate E.
    + inversion E; subst s'. eapply FIN; [cbn; unfold upd; cbn; reflexivity|intros X; exact X].
    + destruct p0 as [|[|[|[|[|[|[|[|[|[|[|[|[|[|[|[|[|[|[|[|[|[|[|[|[|[|[|[|[|[|[|[|[|[|[|[|[|[|[|[|[|[|[|[|[|p0]]]]]]]]]]]]]]]]]]]]]]]]]]]]]]]]]]]]]]]]]]]]];
      try (exfalso; exact (Hne eq_refl));
      cbn in E; try (destruct p0; cbn in E); unfold live, obj_of in E; cbn in E;
      repeat match type of E with
             | (if ?c then _ else _) = _ => destruct c eqn:?
             | match ?x with _ => _ end = _ => destruct x eqn:?
             end;
      try discriminate E; cbn in E; rewrite ?H0 in E; cbn in E; try discriminate E;
      repeat match type of E with
             | context [if ?c then _ else _] => destruct c eqn:?
             | context [match que s ?q with _ => _ end] => destruct (que s q) eqn:?
             | context [match wq s ?q with _ => _ end] => destruct (wq s q) eqn:?
             end;
      cbn in E; try discriminate E;
      (inversion E; subst s'; clear E);
      (eapply FIN; [cbn; unfold upd; cbn;
                     rewrite ?wake_keep, ?wakes_keep by (cbn; rewrite ?H0; reflexivity);
                     cbn; rewrite ?H0; cbn; reflexivity
                   | cbn; first [intros XX; discriminate XX | (intros _; reflexivity)] ]).
    + destruct (fetch P {| prog := 16; pc := p0; stat := Asleep c m; reg := r0; cnt := c0; lim := l0; cur := None |}) eqn:EF;
        try discriminate E.
      exfalso. unfold fetch in EF. cbn [prog pc] in EF. revert EF.
      do 46 (destruct p0 as [|p0]; [discriminate|]). discriminate.
    + destruct (negb (live s m)); [inversion E; subst s'; eapply FIN; [cbn; rewrite H0; reflexivity|intros X; exact X]|].
      destruct (own s m); [discriminate|]. inversion E; subst s'.
      cbn in Hwk. unfold inl in Hwk. cbn in Hwk. rewrite !orb_true_iff, !Nat.eqb_eq in Hwk.
      destruct Hwk as [->|[->|X]]; [ | |discriminate X];
        (eapply FIN; [cbn; unfold upd; cbn; reflexivity|cbn; intros XX; discriminate XX]).
Qed.

Lemma pool_sb n s : reach P (init_pool n) s -> SB s.
Proof.
  intros R. induction R as [|s s' R IH [l E]].
  - intros X. cbn in X. discriminate X.
  - destruct (pool_inv n s R) as (HP & HI & _). pose proof (pool_xd n s R) as HX.
    pose proof (WQI_reach P _ s (initial_wqi _ (init_pl n)) R) as HW.
    destruct (pool_wk n s R) as (_ & HC & _).
    assert (Hn : nthr s = 3) by (destruct HP as (? & ? & ? & ? & ? & _ & Hn & _); exact Hn).
    destruct l as [t k|t].
    + destruct t as [|[|[|t]]].
      * exact (SB_step_owner s k s' HI HP HW HC IH E).
      * exact (SB_step_w1 s k s' HI HP HX IH E).
      * exact (SB_step_w2 s k s' HI HP HX IH E).
      * exfalso. unfold exec in E. destruct (fault s); [discriminate|]. rewrite Hn in E. discriminate E.
    + exact (SB_step_spur s t s' IH E).
Qed.

(* after the shutdown broadcast of JoinAll() no worker sleeps, and none is between the shutdown test and the wait *)
Theorem pool_no_sleeper_after_shutdown n s : reach P (init_pool n) s -> (25 <=? pc (thr s 0)) = true ->
  forall w, w = 1 \/ w = 2 ->
  (forall c m, stat (thr s w) <> Asleep c m) /\ ~ (stat (thr s w) = Ready /\ pc (thr s w) = 12).
Proof. intros R H w Hw. exact (pool_sb n s R H w Hw). Qed.

(* the deadlock of the property text is unreachable: the owner inside JoinAll() (pc >= 22) with both workers asleep and
   either a closure still queued or the shutdown not announced (owner past the broadcast) *)
Theorem pool_no_deadlock n s : reach P (init_pool n) s -> (22 <=? pc (thr s 0)) = true ->
  (exists c m, stat (thr s 1) = Asleep c m) -> (exists c m, stat (thr s 2) = Asleep c m) ->
  que s PQ = [] /\ (pc (thr s 0) <=? 24) = true.
Proof.
  intros R H22 S1 S2. split.
  - apply (pool_no_sleep_on_work n s R S1 S2). intros X. rewrite X in H22. discriminate H22.
  - destruct (25 <=? pc (thr s 0)) eqn:H25.
    + exfalso. destruct S1 as (c & m & S1). exact (proj1 (pool_no_sleeper_after_shutdown n s R H25 1 (or_introl eq_refl)) c m S1).
    + apply Nat.leb_gt in H25. apply Nat.leb_le. lia.
Qed.

(* in particular: the owner blocked in one of the two pthread_join calls of JoinAll() never waits for a sleeping worker *)
Theorem pool_join_not_stuck n s : reach P (init_pool n) s -> pc (thr s 0) = 31 \/ pc (thr s 0) = 40 ->
  forall w, w = 1 \/ w = 2 -> forall c m, stat (thr s w) <> Asleep c m.
Proof.
  intros R Hp w Hw. apply (pool_no_sleeper_after_shutdown n s R); [destruct Hp as [-> | ->]; reflexivity|exact Hw].
Qed.
