(* C17.WaitQ: the wait queues of the machine are exact, for every program and every schedule: a thread is asleep on
   condition c iff it is in c's wait queue, and no wait queue holds a thread twice.  (Ground work for wake-up
   invariants: a signal on a condition with a sleeper always wakes a sleeper.) *)
From Coq Require Import List Arith Bool Lia.
Import ListNotations.
From C17 Require Import Sem Progs.

Definition slp (s : state) (u : tid) (c : nat) : Prop := exists m, stat (thr s u) = Asleep c m.

Definition WQI (s : state) : Prop :=
  (forall u c, slp s u c <-> In u (wq s c)) /\ (forall c, NoDup (wq s c)).

Lemma slp_fun s u c c' : slp s u c -> slp s u c' -> c = c'.
Proof. intros (m & H) (m' & H'). rewrite H in H'. inversion H'. reflexivity. Qed.

Lemma slp_set_thr s t th u c :
  slp (set_thr s t th) u c <-> (if Nat.eqb u t then exists m, stat th = Asleep c m else slp s u c).
Proof. unfold slp. cbn. unfold upd. destruct (Nat.eqb u t); reflexivity. Qed.

Lemma slp_wake s v u c : slp (wake s v) u c <-> slp s u c /\ u <> v.
Proof.
  unfold wake. destruct (stat (thr s v)) eqn:E.
  1,2,3,5,6: (split; [intros H; split; [exact H|]; intros ->; destruct H as (m9 & H); rewrite E in H; discriminate H|intros [H _]; exact H]).
  rewrite slp_set_thr. destruct (Nat.eqb u v) eqn:Eu.
  - apply Nat.eqb_eq in Eu. subst. split; [intros (m0 & X); discriminate X|intros [_ X]; contradiction].
  - apply Nat.eqb_neq in Eu. split; [intros H; split; assumption|intros [H _]; exact H].
Qed.
Lemma wq_wake s v : wq (wake s v) = wq s.
Proof. unfold wake. destruct (stat (thr s v)); reflexivity. Qed.
Lemma slp_wakes l : forall s u c, slp (fold_left wake l s) u c <-> slp s u c /\ ~ In u l.
Proof.
  induction l as [|v l IH]; intros s u c; cbn [fold_left].
  - split; [intros H; split; [exact H|intros []]|intros [H _]; exact H].
  - rewrite IH, slp_wake. cbn. split.
    + intros [[H1 H2] H3]. split; [exact H1|]. intros [X|X]; [apply H2; symmetry; exact X|exact (H3 X)].
    + intros [H1 H2]. split; [split; [exact H1|]|]; intros X; apply H2; [left; symmetry; exact X|right; exact X].
Qed.
Lemma wq_wakes l : forall s, wq (fold_left wake l s) = wq s.
Proof. induction l as [|v l IH]; intros s; cbn [fold_left]; [reflexivity|]. rewrite IH. apply wq_wake. Qed.

Lemma remove_nth_in {A} (d : A) : forall (l : list A) k x, NoDup l -> k < length l ->
  (In x (remove_nth k l) <-> In x l /\ x <> nth k l d).
Proof.
  induction l as [|a l IH]; intros k x ND Hk; [cbn in Hk; lia|].
  inversion ND as [|a' l' Hn Hd]; subst.
  destruct k as [|k]; cbn.
  - split; [intros H; split; [right; exact H|intros ->; exact (Hn H)]|intros [[->|H] Hx]; [contradiction|exact H]].
  - cbn in Hk. rewrite (IH k x Hd) by lia. split.
    + intros [->|[H Hx]]; [split; [left; reflexivity|]|split; [right; exact H|exact Hx]].
      intros X. apply Hn. rewrite X. apply nth_In. lia.
    + intros [[->|H] Hx]; [left; reflexivity|right; split; assumption].
Qed.
Lemma remove_nth_nodup {A} : forall (l : list A) k, NoDup l -> NoDup (remove_nth k l).
Proof.
  induction l as [|a l IH]; intros k ND; [destruct k; constructor|].
  inversion ND as [|a' l' Hn Hd]; subst. destruct k as [|k]; cbn; [exact Hd|].
  constructor; [|apply IH; exact Hd].
  intros H. apply Hn. clear - H. revert k H. induction l as [|b l IH]; intros k H; [destruct k; destruct H|].
  destruct k as [|k]; cbn in H; [right; exact H|]. destruct H as [->|H]; [left; reflexivity|right; exact (IH k H)].
Qed.

(* nothing about sleeping or the queues changes *)
Lemma WQI_frame s s' : wq s' = wq s -> (forall u c, slp s' u c <-> slp s u c) -> WQI s -> WQI s'.
Proof.
  intros Hq Hs (A & B). split; [intros u c; rewrite Hs, Hq; apply A|intros c; rewrite Hq; apply B].
Qed.

(* thread t, awake, goes to sleep on c *)
Lemma WQI_sleep s s' t c : (forall c', ~ slp s t c') -> wq s' = upd (wq s) c (wq s c ++ [t]) ->
  (forall c', slp s' t c' <-> c' = c) -> (forall u c', u <> t -> (slp s' u c' <-> slp s u c')) -> WQI s -> WQI s'.
Proof.
  intros Hn Hq Ht Ho (A & B). split.
  - intros u c'. rewrite Hq. unfold upd. destruct (Nat.eq_dec u t) as [->|Hu].
    + rewrite Ht. destruct (Nat.eqb c' c) eqn:Ec.
      * apply Nat.eqb_eq in Ec. split; [intros _; apply in_or_app; right; left; reflexivity|intros _; exact Ec].
      * apply Nat.eqb_neq in Ec. split; [intros X; contradiction|intros X; exfalso; exact (Hn c' (proj2 (A t c') X))].
    + rewrite (Ho u c' Hu), A. destruct (Nat.eqb c' c) eqn:Ec; [|reflexivity].
      apply Nat.eqb_eq in Ec. subst. split; [intros X; apply in_or_app; left; exact X|].
      intros X. apply in_app_or in X. destruct X as [X|[X|[]]]; [exact X|]. symmetry in X. contradiction.
  - intros c'. rewrite Hq. unfold upd. destruct (Nat.eqb c' c) eqn:Ec; [|apply B].
    apply Nat.eqb_eq in Ec. subst.
    assert (X : ~ In t (wq s c)) by (intros X; exact (Hn c (proj2 (A t c) X))).
    clear - X B. specialize (B c). induction (wq s c) as [|a l IH]; cbn; [constructor; [intros []|constructor]|].
    inversion B; subst. constructor.
    + intros Y. apply in_app_or in Y. destruct Y as [Y|[Y|[]]]; [contradiction|]. apply X. left. symmetry. exact Y.
    + apply IH; [assumption|intros Y; apply X; right; exact Y].
Qed.

(* the sleepers in W (all in c's queue) are woken and leave the queue; L' is what remains of it *)
Lemma WQI_wake s s' c (W : tid -> Prop) L' :
  wq s' = upd (wq s) c L' -> NoDup L' ->
  (forall x, W x -> In x (wq s c)) ->
  (forall x, In x L' <-> In x (wq s c) /\ ~ W x) ->
  (forall u c', slp s' u c' <-> slp s u c' /\ ~ W u) -> WQI s -> WQI s'.
Proof.
  intros Hq ND HW HL Hs (A & B). split.
  - intros u c'. rewrite Hs, Hq. unfold upd. destruct (Nat.eqb c' c) eqn:Ec.
    + apply Nat.eqb_eq in Ec. subst. rewrite HL, A. reflexivity.
    + apply Nat.eqb_neq in Ec. rewrite <- A. split; [intros [X _]; exact X|intros X; split; [exact X|]].
      intros Z. apply Ec. apply (slp_fun s u); [exact X|apply A; exact (HW u Z)].
  - intros c'. rewrite Hq. unfold upd. destruct (Nat.eqb c' c); [exact ND|apply B].
Qed.

Lemma wake_ready s v u : stat (thr s u) = Ready -> thr (wake s v) u = thr s u.
Proof.
  intros H. unfold wake. destruct (stat (thr s v)) eqn:E; try reflexivity.
  cbn. unfold upd. destruct (Nat.eqb u v) eqn:Eu; [|reflexivity]. apply Nat.eqb_eq in Eu. subst. congruence.
Qed.
Lemma wakes_ready l : forall s u, stat (thr s u) = Ready -> thr (fold_left wake l s) u = thr s u.
Proof.
  induction l as [|v l IH]; intros s u H; cbn [fold_left]; [reflexivity|].
  rewrite IH; [apply wake_ready; exact H|]. rewrite wake_ready by exact H. exact H.
Qed.

Ltac fr s HW t Hs :=
  apply (WQI_frame s); [cbn; rewrite ?wq_wake, ?wq_wakes; reflexivity |
    let u := fresh "u" in let c0 := fresh "c0" in let Eu := fresh "Eu" in
    intros u c0; rewrite slp_set_thr; destruct (Nat.eqb u t) eqn:Eu;
    [apply Nat.eqb_eq in Eu; subst u; unfold slp; cbn; rewrite ?Hs;
     split; intros (m0 & X); first [discriminate X | (rewrite Hs in X; discriminate X)]
    | unfold slp; cbn; reflexivity] | exact HW].

Lemma filter_ne_in (l : list tid) t x : In x (filter (fun u => negb (Nat.eqb u t)) l) <-> In x l /\ ~ (x = t).
Proof.
  rewrite filter_In. split; intros [H1 H2]; (split; [exact H1|]).
  - intros ->. rewrite Nat.eqb_refl in H2. discriminate H2.
  - destruct (Nat.eqb x t) eqn:E; [apply Nat.eqb_eq in E; contradiction|reflexivity].
Qed.

Theorem WQI_step Pg s l s' : WQI s -> exec Pg s l = Some s' -> WQI s'.
Proof.
  intros HW E. pose proof HW as (A & B).
  unfold exec in E. destruct (fault s); [discriminate|].
  destruct l as [t k|t]; (destruct (negb (t <? nthr s)); [discriminate|]).
  - destruct (stat (thr s t)) eqn:Hs; try discriminate E.
    + (* Fresh *) inversion E; subst s'. fr s HW t Hs.
    + (* Ready *)
      unfold exec_instr in E.
      destruct (fetch Pg (thr s t)) eqn:EF.
      all: repeat match type of E with
             | (if ?c then _ else _) = _ => destruct c eqn:?
             | match ?x with _ => _ end = _ => destruct x eqn:?
             end; try discriminate E; inversion E; subst s'; clear E.
      all: try (apply (WQI_frame s); [reflexivity|intros; reflexivity|exact HW]).
      all: try (fr s HW t Hs).
      all: try (repeat match goal with
                       | |- context [if ?c then _ else _] => destruct c
                       | |- context [match que ?ss ?q with _ => _ end] => destruct (que ss q)
                       end; fr s HW t Hs).
      all: try (apply (WQI_sleep s _ t c);
                [intros c' (m0 & X); rewrite Hs in X; discriminate X
                |reflexivity
                |intros c'; rewrite slp_set_thr, Nat.eqb_refl; cbn; split; [intros (m0 & X); inversion X; reflexivity|intros ->; eexists; reflexivity]
                |intros u c' Hu; rewrite slp_set_thr; apply Nat.eqb_neq in Hu; rewrite Hu; reflexivity
                |exact HW]).
      * (* ISignal, a sleeper is woken *)
        match goal with |- context [remove_nth ?K (t0 :: l)] => set (KK := K) end.
        change (match KK with 0 => t0 | S m => nth m l 0 end) with (nth KK (t0 :: l) 0).
        assert (HK : KK < length (t0 :: l)) by (unfold KK; cbn; lia).
        match goal with H : wq s c = t0 :: l |- _ => rename H into Hq end.
        apply (WQI_wake s _ c (fun x => x = nth KK (t0 :: l) 0) (remove_nth KK (t0 :: l))).
        -- cbn. rewrite wq_wake. reflexivity.
        -- apply remove_nth_nodup. rewrite <- Hq. apply B.
        -- intros x ->. rewrite Hq. apply nth_In. exact HK.
        -- intros x. rewrite Hq. apply remove_nth_in; [rewrite <- Hq; apply B|exact HK].
        -- intros u c'. rewrite slp_set_thr. destruct (Nat.eqb u t) eqn:Eu.
           ++ apply Nat.eqb_eq in Eu. subst u. rewrite wake_ready by exact Hs. unfold slp. cbn. rewrite Hs.
              split; [intros (m0 & X); discriminate X|intros [(m0 & X) _]; discriminate X].
           ++ rewrite slp_wake. unfold slp. cbn. reflexivity.
        -- exact HW.
      * (* IBroadcast *)
        apply (WQI_wake s _ c (fun x => In x (wq s c)) []).
        -- cbn. rewrite wq_wakes. reflexivity.
        -- constructor.
        -- intros x X. exact X.
        -- intros x. split; [intros []|intros [X Y]; exact (Y X)].
        -- intros u c'. rewrite slp_set_thr. destruct (Nat.eqb u t) eqn:Eu.
           ++ apply Nat.eqb_eq in Eu. subst u. rewrite wakes_ready by exact Hs. unfold slp. cbn. rewrite Hs.
              split; [intros (m0 & X); discriminate X|intros [(m0 & X) _]; discriminate X].
           ++ rewrite slp_wakes. unfold slp. cbn. reflexivity.
        -- exact HW.
      * (* ICreateI *)
        match goal with H : stat (thr s ?uu) = NotStarted |- _ => rename H into Hns; set (u0 := uu) in * end.
        apply (WQI_frame s); [reflexivity| |exact HW].
        intros x c0. rewrite slp_set_thr. destruct (Nat.eqb x t) eqn:Ex.
        -- apply Nat.eqb_eq in Ex. subst x. unfold slp. cbn. unfold upd. rewrite Hs.
           destruct (Nat.eqb t u0); cbn; split; intros (m0 & X); first [discriminate X|rewrite Hs in X; discriminate X].
        -- rewrite slp_set_thr. destruct (Nat.eqb x u0) eqn:Exu; [|reflexivity].
           apply Nat.eqb_eq in Exu. subst x. unfold slp. cbn. rewrite Hns.
           split; intros (m0 & X); discriminate X.
    + (* Asleep: time-out of a timed wait *)
      destruct (fetch Pg (thr s t)); try discriminate E. inversion E; subst s'; clear E.
      apply (WQI_wake s _ c (fun x => x = t) (filter (fun u => negb (Nat.eqb u t)) (wq s c))).
      * reflexivity.
      * apply NoDup_filter. apply B.
      * intros x ->. apply A. exists m. exact Hs.
      * intros x. apply filter_ne_in.
      * intros u c'. rewrite slp_set_thr. destruct (Nat.eqb u t) eqn:Eu.
        -- apply Nat.eqb_eq in Eu. subst u. cbn. split; [intros (m9 & X); discriminate X|intros [_ X]; exfalso; apply X; reflexivity].
        -- apply Nat.eqb_neq in Eu. unfold slp. cbn. split; [intros X; split; [exact X|exact Eu]|intros [X _]; exact X].
      * exact HW.
    + (* Woken *)
      destruct (negb (live s m)); [inversion E; subst s'; apply (WQI_frame s); [reflexivity|intros; reflexivity|exact HW]|].
      destruct (own s m); [discriminate E|]. inversion E; subst s'. fr s HW t Hs.
  - destruct (stat (thr s t)) eqn:Hs; try discriminate E. inversion E; subst s'; clear E.
    apply (WQI_wake s _ c (fun x => x = t) (filter (fun u => negb (Nat.eqb u t)) (wq s c))).
    + rewrite wq_wake. reflexivity.
    + apply NoDup_filter. apply B.
    + intros x ->. apply A. exists m. exact Hs.
    + intros x. apply filter_ne_in.
    + intros u c'. rewrite slp_wake. unfold slp. cbn. reflexivity.
    + exact HW.
Qed.

Theorem WQI_reach Pg s0 s : WQI s0 -> reach Pg s0 s -> WQI s.
Proof. intros H R. induction R as [|s s' R IH [l E]]; [exact H|]. eapply WQI_step; eauto. Qed.

(* every scenario starts with nobody asleep and empty wait queues *)
Lemma WQI_base n th v pa : (forall t c m, stat (th t) <> Asleep c m) -> WQI (base_state n th v pa).
Proof.
  intros H. split; [|intros c; constructor].
  intros u c. split; [intros (m & X); exact (H u c m X)|intros []].
Qed.
