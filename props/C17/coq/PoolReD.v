(* C17.PoolReD: ThreadPool with two-stage jobs (scenario init_poolre n r), the drained clause: invariants.
   PLR: shape of the owner thread; XJ: flags as functions of the owner pc, per worker "past the empty-queue test and still
   holding the lock => queue empty", "past the shutdown test => shutdown set", and jointly "both workers past the shutdown
   test => queue empty" (a single finished worker does not imply an empty queue here: the other may still hand in a
   follow-up, but then it re-tests the queue before it leaves). *)
From Coq Require Import List Arith Bool Lia Permutation.
Import ListNotations.
From C17 Require Import Sem Progs Static Annot Owner Effects Conserve Pool PoolD.

Definition PLR (s : state) : Prop :=
  exists p0 st0 r0 c0 l0,
    thr s 0 = mkT 16 p0 st0 r0 c0 l0 None /\
    nthr s = 3 /\ prog (thr s 1) = 30 /\ prog (thr s 2) = 31 /\ wkok st0 p0.

Lemma PLR_init n r : PLR (init_poolre n r).
Proof. unfold PLR. exists 0, Fresh, 0, 0, 0. cbn. repeat split. Qed.

Lemma PLR_step_other s t k s' : t <> 0 -> PLR s -> exec P s (LStep t k) = Some s' -> PLR s'.
Proof.
  intros Ht (p0 & st0 & r0 & c0 & l0 & H0 & Hn & H1 & H2 & Hwk) E.
  pose proof (step_effects P s t k s' E) as [Eo Ev En Er Es].
  destruct (Eo 0 (fun X => Ht (eq_sym X))) as [st Hst].
  unfold PLR. exists p0, st, r0, c0, l0. rewrite Hst, H0, En.
  split; [reflexivity|]. split; [exact Hn|].
  assert (Hp : forall u, prog (thr s' u) = prog (thr s u)) by (intros u; exact (exec_prog P s (LStep t k) s' u E)).
  split; [rewrite Hp; exact H1|]. split; [rewrite Hp; exact H2|].
  pose proof (Ev 0 (fun X => Ht (eq_sym X))) as Hev. rewrite Hst, H0 in Hev. cbn in Hev.
  destruct Hev as [->|[(x & y & -> & ->)|[-> ->]]]; [exact Hwk|exact Hwk|exact I].
Qed.

Lemma PLR_step_spur s t s' : PLR s -> exec P s (LSpur t) = Some s' -> PLR s'.
Proof.
  intros (p0 & st0 & r0 & c0 & l0 & H0 & Hn & H1 & H2 & Hwk) E.
  destruct (spur_effects P s t s' E) as (Eo & Ev & En & Er & Es).
  destruct (Eo 0) as [st Hst].
  assert (Hp : forall u, prog (thr s' u) = prog (thr s u)) by (intros u; exact (exec_prog P s (LSpur t) s' u E)).
  assert (Hw' : wkok st p0).
  { pose proof (Ev 0) as Hev. rewrite Hst, H0 in Hev. cbn in Hev.
    destruct Hev as [->|[(x & y & -> & ->)|[-> ->]]]; [exact Hwk|exact Hwk|exact I]. }
  unfold PLR. exists p0, st, r0, c0, l0. rewrite Hst, H0, En, !Hp. repeat split; assumption.
Qed.

Lemma PLR_step_owner s k s' : PLR s -> exec P s (LStep 0 k) = Some s' -> PLR s'.
Proof.
  intros (p0 & st0 & r0 & c0 & l0 & H0 & Hn & H1 & H2 & Hwk) E.
  pose proof (step_effects P s 0 k s' E) as [Eo Ev En Er Es].
  assert (Hp : forall u, prog (thr s' u) = prog (thr s u)) by (intros u; exact (exec_prog P s (LStep 0 k) s' u E)).
  assert (REST : forall p0' st0' r0' c0' l0',
            thr s' 0 = mkT 16 p0' st0' r0' c0' l0' None -> wkok st0' p0' -> PLR s').
  { intros p0' st0' r0' c0' l0' A W. unfold PLR. exists p0', st0', r0', c0', l0'.
    rewrite En, !Hp. repeat split; assumption. }
  clear Eo Ev Er Es.
  unfold exec in E. destruct (fault s); [discriminate|]. rewrite Hn in E. cbn [Nat.ltb Nat.leb negb] in E.
  rewrite H0 in E. cbn [stat] in E.
  destruct st0; try discriminate E.
  - (* Fresh *) inversion E; subst s'. eapply REST; [cbn; unfold upd; cbn; reflexivity|exact I].
  - (* Ready *)
    destruct p0 as [|[|[|[|[|[|[|[|[|[|[|[|[|[|[|[|[|[|[|[|[|[|[|[|[|[|[|[|[|[|[|[|[|[|[|[|[|[|[|[|[|[|[|[|[|p0]]]]]]]]]]]]]]]]]]]]]]]]]]]]]]]]]]]]]]]]]]]]];
    cbn in E; try (destruct p0; cbn in E); unfold live, obj_of in E; cbn in E;
    repeat match type of E with
           | (if ?c then _ else _) = _ => destruct c eqn:?
           | match ?x with _ => _ end = _ => destruct x eqn:?
           end;
    try discriminate E; cbn in E; rewrite ?H0 in E; cbn in E; try discriminate E;
    repeat match type of E with
           | context [if ?c then _ else _] => destruct c eqn:?
           | context [match que s ?q with _ => _ end] => destruct (que s q) eqn:?
           | context [match wq s ?q with _ => _ end] => destruct (wq s q) eqn:?
           end;
    cbn in E; try discriminate E;
    (inversion E; subst s'; clear E);
    (eapply REST; [cbn; unfold upd; cbn;
                   rewrite ?wake_keep, ?wakes_keep by (cbn; rewrite ?H0; reflexivity);
                   cbn; rewrite ?H0; cbn; reflexivity | ]);
    cbn; first [exact I | reflexivity].
  - (* Asleep: not a timed wait *)
    destruct (fetch P {| prog := 16; pc := p0; stat := Asleep c m; reg := r0; cnt := c0; lim := l0; cur := None |}) eqn:EF;
      try discriminate E.
    exfalso. unfold fetch in EF. cbn [prog pc] in EF. revert EF.
    do 46 (destruct p0 as [|p0]; [discriminate|]). discriminate.
  - (* Woken *)
    destruct (negb (live s m)); [inversion E; subst s'; eapply REST; [cbn; rewrite H0; reflexivity|exact Hwk]|].
    destruct (own s m); [discriminate|]. inversion E; subst s'.
    eapply REST; [cbn; unfold upd; cbn; reflexivity|exact I].
Qed.

Theorem PLR_step s l s' : PLR s -> exec P s l = Some s' -> PLR s'.
Proof.
  intros H E. destruct l as [t k|t].
  - destruct t as [|t]; [eapply PLR_step_owner; eauto|eapply (PLR_step_other s (S t)); eauto].
  - eapply PLR_step_spur; eauto.
Qed.

Definition EX (s : state) (w : tid) : Prop := (stat (thr s w) = Ready /\ pc (thr s w) = 19) \/ pc (thr s w) = 20.

Definition WJ (s : state) (w : tid) : Prop :=
  (stat (thr s w) = Ready -> inl (pc (thr s w)) [16;17] = true -> que s 16 = []) /\
  (EX s w -> var s 16 = 1) /\
  (stat (thr s w) = Done -> pc (thr s w) = 20) /\
  (pc (thr s w) <=? 20) = true.

Definition JJ (s : state) : Prop := EX s 1 -> EX s 2 -> que s 16 = [].

Definition XJ (s : state) : Prop :=
  let p0 := pc (thr s 0) in let r0 := reg (thr s 0) in let c0 := cnt (thr s 0) in
  var s 16 = (if 24 <=? p0 then 1 else 0) /\
  (((13 <=? p0) && (p0 <=? 33)) = true -> var s 18 = 1) /\ (inl p0 [28;29] = true -> r0 = 1) /\
  (((6 <=? p0) && (p0 <=? 42)) = true -> var s 17 = 1) /\ (inl p0 [37;38] = true -> r0 = 1) /\
  (inl p0 [31;40] = true -> c0 = 0) /\
  ((32 <=? p0) = true -> stat (thr s 2) = Done) /\ ((41 <=? p0) = true -> stat (thr s 1) = Done) /\
  (stat (thr s 0) = Done -> p0 = 44) /\ (p0 <=? 44) = true /\
  WJ s 1 /\ WJ s 2 /\ JJ s.

Lemma EX_back s s' w : pc (thr s' w) = pc (thr s w) -> stat_evol (stat (thr s w)) (stat (thr s' w)) -> EX s' w -> EX s w.
Proof.
  intros Hp He [[X1 X2]|X]; [left; split; [exact (evol_ready _ _ He X1)|rewrite <- Hp; exact X2]|right; rewrite <- Hp; exact X].
Qed.

Lemma WJ_keep s s' w : pc (thr s' w) = pc (thr s w) -> stat_evol (stat (thr s w)) (stat (thr s' w)) ->
  que s' 16 = que s 16 -> (var s' 16 = var s 16 \/ var s' 16 = 1) -> WJ s w -> WJ s' w.
Proof.
  intros Hp He Hq Hv (A & B & C & D). unfold WJ. rewrite Hp, Hq. split; [|split; [|split; [|exact D]]].
  - intros X. apply A. exact (evol_ready _ _ He X).
  - intros X. destruct Hv as [-> | ->]; [exact (B (EX_back _ _ _ Hp He X))|reflexivity].
  - intros X. apply C. exact (evol_done_inv _ _ He X).
Qed.

(* a push or a pop by somebody else who holds the lock: this worker is not at the empty-queue test *)
Lemma WJ_other s s' w : pc (thr s' w) = pc (thr s w) -> stat_evol (stat (thr s w)) (stat (thr s' w)) ->
  var s' 16 = var s 16 ->
  ~ (stat (thr s w) = Ready /\ inl (pc (thr s w)) [16;17] = true) -> WJ s w -> WJ s' w.
Proof.
  intros Hp He Hv Hx (A & B & C & D). unfold WJ. rewrite Hp, Hv. split; [|split; [|split; [|exact D]]].
  - intros X Y. exfalso. apply Hx. split; [exact (evol_ready _ _ He X)|exact Y].
  - intros X. exact (B (EX_back _ _ _ Hp He X)).
  - intros X. apply C. exact (evol_done_inv _ _ He X).
Qed.

Lemma JJ_keep s s' : pc (thr s' 1) = pc (thr s 1) -> stat_evol (stat (thr s 1)) (stat (thr s' 1)) ->
  pc (thr s' 2) = pc (thr s 2) -> stat_evol (stat (thr s 2)) (stat (thr s' 2)) ->
  que s' 16 = que s 16 -> JJ s -> JJ s'.
Proof.
  intros P1 V1 P2 V2 Hq J X1 X2. rewrite Hq. exact (J (EX_back _ _ _ P1 V1 X1) (EX_back _ _ _ P2 V2 X2)).
Qed.
(* a push while shutdown is not set: no worker is past the shutdown test *)
Lemma JJ_push s s' : pc (thr s' 1) = pc (thr s 1) -> stat_evol (stat (thr s 1)) (stat (thr s' 1)) ->
  var s 16 = 0 -> WJ s 1 -> JJ s'.
Proof.
  intros P1 V1 H0 (_ & B & _) X1 _. pose proof (B (EX_back _ _ _ P1 V1 X1)) as Y. congruence.
Qed.

Lemma lock_excl s w o : Inv P An s -> (prog (thr s w) = 30 \/ prog (thr s w) = 31) -> w <> o ->
  own s 16 = Some o -> ~ (stat (thr s w) = Ready /\ inl (pc (thr s w)) [16;17] = true).
Proof.
  intros I Hp Hw Ho [Hs Hpc].
  assert (X : own s 16 = Some w).
  { apply (ready_owns P An s w 16 I Hs). unfold ann.
    unfold inl in Hpc. cbn in Hpc. rewrite !orb_true_iff, !Nat.eqb_eq in Hpc.
    destruct Hp as [-> | ->]; destruct Hpc as [-> |[-> |Y]]; try discriminate Y; reflexivity. }
  rewrite Ho in X. inversion X. congruence.
Qed.

Lemma XJ_step_owner s k s' : Inv P An s -> PLR s -> XJ s -> exec P s (LStep 0 k) = Some s' -> XJ s'.
Proof.
  intros HI (p0 & st0 & r0 & c0 & l0 & H0 & Hn & H1 & H2 & Hwk) HX E.
  pose proof (step_effects P s 0 k s' E) as [Eo Ev En Er Es].
  destruct (only_stat_fields _ _ (Eo 1 ltac:(discriminate))) as (_ & P1 & _).
  destruct (only_stat_fields _ _ (Eo 2 ltac:(discriminate))) as (_ & P2 & _).
  pose proof (Ev 1 ltac:(discriminate)) as V1. pose proof (Ev 2 ltac:(discriminate)) as V2.
  clear Eo Ev En Er Es.
  unfold XJ in HX. rewrite H0 in HX. cbn [pc reg cnt stat] in HX.
  destruct HX as (X1 & X2 & X3 & X4 & X5 & X6 & X7 & X8 & X9 & X10 & W1 & W2 & J0).
  assert (FIN : forall p0' st0' r0' c0' l0',
     thr s' 0 = mkT 16 p0' st0' r0' c0' l0' None ->
     var s' 16 = (if 24 <=? p0' then 1 else 0) ->
     (((13 <=? p0') && (p0' <=? 33)) = true -> var s' 18 = 1) -> (inl p0' [28;29] = true -> r0' = 1) ->
     (((6 <=? p0') && (p0' <=? 42)) = true -> var s' 17 = 1) -> (inl p0' [37;38] = true -> r0' = 1) ->
     (inl p0' [31;40] = true -> c0' = 0) ->
     ((32 <=? p0') = true -> stat (thr s 2) = Done) -> ((41 <=? p0') = true -> stat (thr s 1) = Done) ->
     (st0' = Done -> p0' = 44) -> (p0' <=? 44) = true -> WJ s' 1 -> WJ s' 2 -> JJ s' -> XJ s').
  { intros p0' st0' r0' c0' l0' A a1 a2 a3 a4 a5 a6 a7 a8 a9 a10 b1 b2 b3. unfold XJ. rewrite A. cbn [pc reg cnt stat].
    split; [exact a1|]. split; [exact a2|]. split; [exact a3|]. split; [exact a4|]. split; [exact a5|].
    split; [exact a6|]. split; [intros X; exact (evol_done _ _ V2 (a7 X))|].
    split; [intros X; exact (evol_done _ _ V1 (a8 X))|]. split; [exact a9|]. split; [exact a10|]. split; [exact b1|]. split; [exact b2|exact b3]. }
  unfold exec in E. destruct (fault s); [discriminate|]. rewrite Hn in E. cbn [Nat.ltb Nat.leb negb] in E.
  rewrite H0 in E. cbn [stat] in E.
  assert (KEEP : forall sx, que sx 16 = que s 16 -> (var sx 16 = var s 16 \/ var sx 16 = 1) ->
            pc (thr sx 1) = pc (thr s 1) -> stat_evol (stat (thr s 1)) (stat (thr sx 1)) ->
            pc (thr sx 2) = pc (thr s 2) -> stat_evol (stat (thr s 2)) (stat (thr sx 2)) -> WJ sx 1 /\ WJ sx 2 /\ JJ sx).
  { intros sx q v a b c d. split; [eapply WJ_keep; eauto|split; [eapply WJ_keep; eauto|eapply JJ_keep; eauto]]. }
  destruct st0; try discriminate E.
  - (* Fresh *)
    inversion E; subst s'. destruct (KEEP _ eq_refl (or_introl eq_refl) P1 V1 P2 V2) as (K1 & K2 & K3).
    eapply FIN; [cbn; unfold upd; cbn; reflexivity|exact X1|exact X2|exact X3|exact X4|exact X5|exact X6|exact X7|exact X8| |exact X10|exact K1|exact K2|exact K3].
    intros X; discriminate X.
  - (* Ready *)
    destruct p0 as [|[|[|[|[|[|[|[|[|[|[|[|[|[|[|[|[|[|[|[|[|[|[|[|[|[|[|[|[|[|[|[|[|[|[|[|[|[|[|[|[|[|[|[|[|p0]]]]]]]]]]]]]]]]]]]]]]]]]]]]]]]]]]]]]]]]]]]]];
    cbn in E; try (destruct p0; cbn in E); unfold live, obj_of in E; cbn in E;
    repeat match type of E with
           | (if ?c then _ else _) = _ => destruct c eqn:?
           | match ?x with _ => _ end = _ => destruct x eqn:?
           end;
    try discriminate E; cbn in E; rewrite ?H0 in E; cbn in E; try discriminate E;
    repeat match type of E with
           | context [if ?c then _ else _] => destruct c eqn:?
           | context [match que s ?q with _ => _ end] => destruct (que s q) eqn:?
           | context [match wq s ?q with _ => _ end] => destruct (wq s q) eqn:?
           end;
    cbn in E; try discriminate E;
    (inversion E; subst s'; clear E);
    cbn in X1, X2, X3, X4, X5, X6, X7, X8, X10; try discriminate X10;
    (eapply FIN; [cbn; unfold upd; cbn;
                   rewrite ?wake_keep, ?wakes_keep by (cbn; rewrite ?H0; reflexivity);
                   cbn; rewrite ?H0; cbn; reflexivity | .. ]);
    try (nv; first [ exact X1 | reflexivity | assumption ]);
    try (intros XX; first [ discriminate XX | (nv; first [reflexivity | exact (X2 eq_refl) | exact (X4 eq_refl) | assumption])
                          | exact (X3 eq_refl) | exact (X5 eq_refl) | exact (X6 eq_refl) | reflexivity
                          | exact (X7 eq_refl) | exact (X8 eq_refl) | exact (X9 XX) ]).
    all: try reflexivity.
    all: try (intros _; nv; apply Nat.eqb_eq; assumption).
    all: try (exfalso; rewrite (X3 eq_refl) in *; discriminate).
    all: try (exfalso; rewrite (X5 eq_refl) in *; discriminate).
    all: try (intros _; match goal with Hj : stat (thr _ _) = Done |- _ => rewrite H0 in Hj; cbn in Hj; rewrite (X6 eq_refl) in Hj; exact Hj end).
    all: try (eapply WJ_keep; [exact P1|exact V1|nv; reflexivity|nv; first [left; reflexivity|right; reflexivity]|exact W1]).
    all: try (eapply WJ_keep; [exact P2|exact V2|nv; reflexivity|nv; first [left; reflexivity|right; reflexivity]|exact W2]).
    all: try (eapply JJ_keep; [exact P1|exact V1|exact P2|exact V2|nv; reflexivity|exact J0]).
    all: try (eapply JJ_push; [exact P1|exact V1|exact X1|exact W1]).
    all: try (assert (OW : own s 16 = Some 0) by (apply (ready_owns P An s 0 16 HI); [rewrite H0; reflexivity|unfold ann; rewrite H0; reflexivity]);
              first [ (eapply WJ_other; [exact P1|exact V1|nv; reflexivity|apply (lock_excl s 1 0 HI); [left; exact H1|discriminate|exact OW]|exact W1])
                    | (eapply WJ_other; [exact P2|exact V2|nv; reflexivity|apply (lock_excl s 2 0 HI); [right; exact H2|discriminate|exact OW]|exact W2]) ]).
  - (* Asleep: not a timed wait *)
    destruct (fetch P {| prog := 16; pc := p0; stat := Asleep c m; reg := r0; cnt := c0; lim := l0; cur := None |}) eqn:EF;
      try discriminate E.
    exfalso. unfold fetch in EF. cbn [prog pc] in EF. revert EF.
    do 46 (destruct p0 as [|p0]; [discriminate|]). discriminate.
  - (* Woken: after the wait in Thread::Start *)
    cbn in Hwk.
    destruct (negb (live s m)).
    + inversion E; subst s'. destruct (KEEP _ eq_refl (or_introl eq_refl) P1 V1 P2 V2) as (K1 & K2 & K3).
      eapply FIN; [cbn; rewrite H0; reflexivity|exact X1|exact X2|exact X3|exact X4|exact X5|exact X6|exact X7|exact X8| |exact X10|exact K1|exact K2|exact K3].
      intros X; discriminate X.
    + destruct (own s m); [discriminate|]. inversion E; subst s'.
      destruct (KEEP _ eq_refl (or_introl eq_refl) P1 V1 P2 V2) as (K1 & K2 & K3).
      unfold inl in Hwk. cbn in Hwk. rewrite !orb_true_iff, !Nat.eqb_eq in Hwk.
      destruct Hwk as [->|[->|X]]; [ | |discriminate X];
        cbn in X1, X2, X3, X4, X5, X6, X7, X8;
        (eapply FIN; [cbn; unfold upd; cbn; reflexivity|..]); try exact K1; try exact K2; try exact K3; cbn;
        try assumption; try reflexivity; try (intros XX; discriminate XX);
        try (intros XX; first [exact (X2 XX) | exact (X4 XX) | exact (X2 eq_refl) | exact (X4 eq_refl)]).
Qed.

