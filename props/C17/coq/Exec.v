(* C17.Exec: the invariant Rex is inductive over every label (ExecMain/ExecCons/ExecProd/ExecSpur0/1),
   hence holds in every reachable state of the ExecutorThread scenario; consequences. *)
From Coq Require Import List Arith Bool Lia.
Import ListNotations.
From C17 Require Import Sem Progs ExecInv ExecTac ExecMain ExecCons ExecProd ExecSpur0 ExecSpur1.

Section E.
Variable lims : list nat.

Lemma step_spur_prod s i s' : Rex lims s -> exec P s (LSpur (S (S i))) = Some s' -> Rex lims s'.
Proof.
  intros (p0 & st0 & r0 & c0 & l0 & cu0 & p1 & st1 & r1 & c1 & l1 & cu1 & om & Ht0 & Ht1 & HOM & Hn & Hpa & Hf &
          Hnm0 & Hnm1 & Hok0 & Hok1 & Hx & Hreg & Hc0 & Hc1 & Homok & Homlt & HOT & HownO & Hwq0 & Hwq1 & HwqO &
          Hv0 & Hv1 & Hal & Hq & HW & HG & Hran & Hsub & HPR) E.
  unfold exec in E. rewrite Hf, Hn in E.
  destruct (S (S i) <? 2 + NP lims) eqn:Elt; cbn [negb] in E; [|discriminate E].
  apply Nat.ltb_lt in Elt. assert (Hi : i < NP lims) by lia.
  destruct (HPR i Hi) as (pp & stp & rp & cp & Hth & Hpk & _).
  cbn [Nat.add] in Hth. rewrite Hth in E. cbn [stat] in E.
  destruct stp; try discriminate E. cbn in Hpk. discriminate Hpk.
Qed.

Theorem Rex_step s l s' : Rex lims s -> exec P s l = Some s' -> Rex lims s'.
Proof.
  intros R E. destruct l as [t pick|t]; destruct t as [|[|i]].
  - eapply step_main; eauto.
  - eapply step_cons; eauto.
  - eapply step_prod; eauto.
  - eapply step_spur0; eauto.
  - eapply step_spur1; eauto.
  - eapply step_spur_prod; eauto.
Qed.

Theorem Rex_reach s : reach P (init_exec lims) s -> Rex lims s.
Proof.
  intros R. induction R as [|s s' R IH [l E]]; [apply Rex_init|]. eapply Rex_step; eauto.
Qed.

(* ---- list facts *)
Lemma nodup_by_key (l : list cb) :
  (forall k, NoDup (map snd (filter (fun c => fst c =? k) l))) -> NoDup l.
Proof.
  induction l as [|x r IH]; intros H; [constructor|].
  constructor.
  - intros Hin. specialize (H (fst x)). cbn in H. rewrite Nat.eqb_refl in H. cbn in H.
    inversion H as [|a b Hn _]; subst. apply Hn.
    apply in_map. apply filter_In. split; [exact Hin|apply Nat.eqb_refl].
  - apply IH. intros k. specialize (H k). cbn in H.
    destruct (fst x =? k); [cbn in H; inversion H; assumption|exact H].
Qed.

Lemma filter_none (l : list cb) k : (forall c, In c l -> fst c <> k) -> filter (fun c => fst c =? k) l = [].
Proof.
  induction l as [|x r IH]; intros H; [reflexivity|]. cbn.
  destruct (fst x =? k) eqn:E; [apply Nat.eqb_eq in E; exfalso; apply (H x); [left; reflexivity|exact E]|].
  apply IH. intros c Hc. apply H. right. exact Hc.
Qed.

(* ---- what the invariant says about the property *)
Theorem exec_once s : reach P (init_exec lims) s ->
  fault s = None /\
  NoDup (subm s) /\
  (exists rest, subm s = map fst (ran s) ++ rest) /\
  (forall c t, In (c, t) (ran s) -> t <= 1 /\ 2 <= fst c /\ t <> fst c) /\
  (forall i, i < length lims -> exists n, map snd (filter (fun c => fst c =? 2 + i) (subm s)) = seq 0 n) /\
  (stat (thr s 0) = Done -> que s 0 = [] /\ map fst (ran s) = subm s /\
                            forall t, t < nthr s -> stat (thr s t) = Done).
Proof.
  intros R. apply Rex_reach in R.
  destruct R as (p0 & st0 & r0 & c0 & l0 & cu0 & p1 & st1 & r1 & c1 & l1 & cu1 & om & Ht0 & Ht1 & HOM & Hn & Hpa & Hf &
          Hnm0 & Hnm1 & Hok0 & Hok1 & Hx & Hreg & Hc0 & Hc1 & Homok & Homlt & HOT & HownO & Hwq0 & Hwq1 & HwqO &
          Hv0 & Hv1 & Hal & Hq & HW & HG & Hran & Hsub & HPR).
  split; [exact Hf|]. split; [|split; [|split; [|split]]].
  - apply nodup_by_key. intros k.
    destruct (le_lt_dec 2 k) as [H2|H2].
    + destruct (lt_dec (k - 2) (NP lims)) as [Hk|Hk].
      * destruct (HPR (k - 2) Hk) as (pp & stp & rp & cp & _ & _ & _ & _ & _ & Hsu).
        replace (2 + (k - 2)) with k in Hsu by lia. rewrite Hsu. apply seq_NoDup.
      * rewrite filter_none; [constructor|]. intros c Hc. apply Hsub in Hc. lia.
    + rewrite filter_none; [constructor|]. intros c Hc. apply Hsub in Hc. lia.
  - eexists. exact HG.
  - intros c t Hin. pose proof (Hran c t Hin) as Ht.
    assert (Hc : In c (subm s)).
    { rewrite HG. apply in_or_app. left. change c with (fst (c, t)). apply in_map. exact Hin. }
    apply Hsub in Hc. lia.
  - intros i Hi. destruct (HPR i Hi) as (pp & stp & rp & cp & _ & _ & _ & _ & _ & Hsu). eexists. exact Hsu.
  - intros Hd. rewrite Ht0 in Hd. cbn in Hd. subst st0.
    cbn in Hok0. apply Nat.eqb_eq in Hok0. subst p0.
    destruct Hq as (_ & _ & Hq3 & _). specialize (Hq3 eq_refl).
    cbn in Hc0. destruct cu0; [discriminate Hc0|].
    unfold cross in Hx. rewrite !andb_true_iff in Hx. destruct Hx as [[[[[_ Hd1] _] _] _] _].
    cbn in Hd1. destruct st1; try discriminate Hd1.
    cbn in Hok1. apply Nat.eqb_eq in Hok1. subst p1.
    cbn in Hc1. destruct cu1; [discriminate Hc1|].
    split; [exact Hq3|]. split.
    + rewrite HG, Hq3. cbn. rewrite app_nil_r. reflexivity.
    + intros t Ht. rewrite Hn in Ht. destruct t as [|[|i]].
      * rewrite Ht0. reflexivity.
      * rewrite Ht1. reflexivity.
      * assert (Hi : i < NP lims) by lia.
        destruct (HPR i Hi) as (pp & stp & rp & cp & Hth & _ & _ & Hjn & _).
        cbn [Nat.add] in Hth. rewrite Hth. cbn. apply Hjn. reflexivity.
Qed.
End E.
