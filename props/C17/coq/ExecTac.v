(* tactics shared by the step lemmas of the ExecutorThread scenario *)
From Coq Require Import List Arith Bool Lia.
Import ListNotations.
From C17 Require Import Sem Progs ExecInv.

Ltac enum0 Hok0 p0 st0 Hnm0 :=
  unfold st0_ok in Hok0; destruct st0;
  [ discriminate Hok0
  | apply Nat.eqb_eq in Hok0; subst p0
  | destruct p0 as [|[|[|[|[|[|[|[|[|[|[|[|[|[|[|[|[|[|[|[|[|[|[|[|[|[|[|[|[|[|[|[|[|[|[|[|[|[|[|[|[|[|[|[|[|[|[|[|p0]]]]]]]]]]]]]]]]]]]]]]]]]]]]]]]]]]]]]]]]]]]]]]]]; try (cbn in Hok0; discriminate Hok0)
  | apply Nat.eqb_eq in Hok0; subst p0; cbn in Hnm0; inversion Hnm0; subst
  | apply Nat.eqb_eq in Hok0; subst p0; cbn in Hnm0; inversion Hnm0; subst
  | apply Nat.eqb_eq in Hok0; subst p0 ].
Ltac enum1 Hok1 p1 st1 Hnm1 :=
  unfold st1_ok in Hok1; destruct st1;
  [ apply Nat.eqb_eq in Hok1; subst p1
  | apply Nat.eqb_eq in Hok1; subst p1
  | destruct p1 as [|[|[|[|[|[|[|[|[|[|[|[|[|[|[|[|p1]]]]]]]]]]]]]]]]; try (cbn in Hok1; discriminate Hok1)
  | apply Nat.eqb_eq in Hok1; subst p1; cbn in Hnm1; inversion Hnm1; subst
  | apply Nat.eqb_eq in Hok1; subst p1; cbn in Hnm1; inversion Hnm1; subst
  | apply Nat.eqb_eq in Hok1; subst p1 ].

(* om-clauses: unchanged, or changed between None and Some 0/1 *)
Ltac omfix H :=
  let X := fresh "X" in
  first [ exact H
        | split; intro X; [ first [discriminate X | reflexivity | (apply H in X; exact X)]
                          | first [discriminate X | reflexivity | (apply H in X; discriminate X) | (apply H in X; exact X)] ] ].

Lemma ltb_S_ne i c : i <> c -> (i <? c) = (i <? S c).
Proof.
  intros H. destruct (Nat.ltb_spec i c); destruct (Nat.ltb_spec i (S c)); try reflexivity; lia.
Qed.
